(* SyntaxFacts.v — facts about model/Syntax.v (the folding half of pacti's constraint parser:
   syntax/data.py, the parse actions of syntax/grammar.py, serializer.py) with respect to the
   ordinary real-arithmetic meaning of the surface syntax (model/Ast.v, [eden]) and the meaning of
   polyhedral terms (base/Sem.v, [sat]).  Headline: [fold_sound], [fold_convex], [fold_errors]. *)
From Coq Require Import List String Bool QArith Qabs ZArith Reals Qreals Lra Permutation.
Import ListNotations.
Require Import Py ListsGen Sem Term QR Ast Syntax.
Local Open Scope R_scope.

(* ================================================================== *)
(** * Association lists (Python dicts) *)
Definition cf (l : pvars) (v : var) : Q := match assoc v l with Some q => q | None => 0%Q end.

Lemma sx_assoc_none v l : assoc v l = None -> ~ In v (keys l).
Proof.
  induction l as [|[k q] r IH]; cbn [assoc keys map fst]; intros H; [tauto|].
  destruct (String.eqb k v) eqn:E; [discriminate|]. apply String.eqb_neq in E.
  intros [Hk|Hi]; [congruence|]. apply IH; assumption.
Qed.
Lemma sx_assoc_some v q l : assoc v l = Some q -> In v (keys l).
Proof.
  induction l as [|[k q'] r IH]; cbn [assoc keys map fst]; intros H; [discriminate|].
  destruct (String.eqb k v) eqn:E.
  - apply String.eqb_eq in E. left. exact E.
  - right. apply IH. exact H.
Qed.
Lemma sx_cf_notin l v : ~ In v (keys l) -> cf l v = 0%Q.
Proof.
  unfold cf. destruct (assoc v l) eqn:E; [|reflexivity]. intros H. exfalso. apply H.
  eapply sx_assoc_some. exact E.
Qed.

Lemma sx_in_keys_dict_set l k q x : In x (keys (dict_set l k q)) <-> In x (keys l) \/ x = k.
Proof.
  induction l as [|[k' q'] r IH]; cbn [dict_set].
  - cbn. intuition.
  - destruct (String.eqb k' k) eqn:E.
    + apply String.eqb_eq in E. subst. cbn. intuition.
    + cbn [keys map fst In]. fold (keys (dict_set r k q)). fold (keys r). rewrite IH. intuition.
Qed.
Lemma sx_NoDup_dict_set l k q : NoDup (keys l) -> NoDup (keys (dict_set l k q)).
Proof.
  induction l as [|[k' q'] r IH]; cbn [dict_set]; intros Hn.
  - cbn. constructor; [intros []|constructor].
  - inversion Hn as [|? ? Hk Hr]; subst. destruct (String.eqb k' k) eqn:E.
    + cbn. constructor; assumption.
    + apply String.eqb_neq in E. cbn [keys map fst]. fold (keys (dict_set r k q)). constructor.
      * rewrite sx_in_keys_dict_set. intros [Hi|He]; [apply Hk; exact Hi|congruence].
      * apply IH. exact Hr.
Qed.
Lemma sx_NoDup_dict_pop l k : NoDup (keys l) -> NoDup (keys (dict_pop l k)).
Proof.
  unfold dict_pop. induction l as [|[k' q'] r IH]; intros Hn; [exact Hn|].
  inversion Hn as [|? ? Hk Hr]; subst. cbn [filter fst].
  destruct (negb (String.eqb k' k)).
  - cbn [keys map fst]. fold (keys (filter (fun p => negb (String.eqb (fst p) k)) r)). constructor.
    + intros Hi. apply Hk. unfold keys in *. apply in_map_iff in Hi. destruct Hi as [p [Hp Hi]].
      apply filter_In in Hi. apply in_map_iff. exists p. tauto.
    + apply IH. exact Hr.
  - apply IH. exact Hr.
Qed.

Section Lin.
Variable rho : val.

Lemma sx_lin_cons k q r : lin rho ((k, q) :: r) = Q2R q * rho k + lin rho r.
Proof. reflexivity. Qed.
Lemma sx_lin_app l1 l2 : lin rho (l1 ++ l2) = lin rho l1 + lin rho l2.
Proof. induction l1 as [|[k q] r IH]; cbn [app lin]; [lra|rewrite IH; lra]. Qed.

Lemma sx_lin_dict_set l k q :
  lin rho (dict_set l k q) = lin rho l - Q2R (cf l k) * rho k + Q2R q * rho k.
Proof.
  unfold cf. induction l as [|[k' q'] r IH]; cbn [dict_set assoc].
  - cbn [lin]. rewrite Q2R_0. lra.
  - destruct (String.eqb k' k) eqn:E.
    + apply String.eqb_eq in E. subst. rewrite !sx_lin_cons. lra.
    + rewrite !sx_lin_cons, IH. lra.
Qed.
Lemma sx_lin_dict_pop l k :
  NoDup (keys l) -> lin rho (dict_pop l k) = lin rho l - Q2R (cf l k) * rho k.
Proof.
  unfold dict_pop. induction l as [|[k' q'] r IH]; intros Hn.
  - unfold cf. cbn. rewrite Q2R_0. lra.
  - inversion Hn as [|? ? Hk Hr]; subst. cbn [filter fst]. unfold cf. cbn [assoc].
    destruct (String.eqb k' k) eqn:E; cbn [negb].
    + apply String.eqb_eq in E. subst. rewrite sx_lin_cons, (IH Hr).
      rewrite (sx_cf_notin r k Hk), Q2R_0. lra.
    + rewrite !sx_lin_cons, (IH Hr). unfold cf. lra.
Qed.
Lemma sx_lin_filter_nz l : lin rho (filter (fun p => negb (qzero (snd p))) l) = lin rho l.
Proof.
  induction l as [|[k q] r IH]; [reflexivity|]. cbn [filter snd].
  destruct (qzero q) eqn:E; cbn [negb].
  - rewrite sx_lin_cons, IH. apply qzero_true in E. rewrite E. lra.
  - rewrite !sx_lin_cons, IH. reflexivity.
Qed.
Lemma sx_lin_map (g : Q -> Q) (c : R) l :
  (forall q, Q2R (g q) = c * Q2R q) ->
  lin rho (map (fun p => (fst p, g (snd p))) l) = c * lin rho l.
Proof.
  intros Hg. induction l as [|[k q] r IH]; cbn [map lin fst snd]; [lra|]. rewrite IH, Hg. lra.
Qed.
Lemma sx_lin_perm l l' : Permutation l l' -> lin rho l = lin rho l'.
Proof.
  induction 1 as [| [k q] l l' _ IH | [k q] [k' q'] l | l l' l'' _ IH1 _ IH2]; cbn [lin].
  - reflexivity.
  - rewrite IH. reflexivity.
  - lra.
  - congruence.
Qed.
End Lin.

Lemma sx_keys_map (g : Q -> Q) l : keys (map (fun p => (fst p, g (snd p))) l) = keys l.
Proof. unfold keys. rewrite map_map. apply map_ext. reflexivity. Qed.

(* sorting by name is a permutation *)
Lemma sx_insert_perm p l : Permutation (insert_by_name p l) (p :: l).
Proof.
  induction l as [|q r IH]; cbn [insert_by_name]; [apply Permutation_refl|].
  destruct (string_leb (fst q) (fst p)); [|apply Permutation_refl].
  eapply Permutation_trans; [apply perm_skip; exact IH|apply perm_swap].
Qed.
Lemma sx_fold_insert_perm l acc :
  Permutation (fold_left (fun acc p => insert_by_name p acc) l acc) (l ++ acc).
Proof.
  revert acc. induction l as [|p r IH]; intros acc; cbn [fold_left app]; [apply Permutation_refl|].
  eapply Permutation_trans; [apply IH|]. eapply Permutation_trans.
  - apply Permutation_app_head. apply sx_insert_perm.
  - apply Permutation_sym. apply Permutation_middle.
Qed.
Lemma sx_sort_perm l : Permutation (sort_by_name l) l.
Proof.
  unfold sort_by_name. eapply Permutation_trans; [apply sx_fold_insert_perm|].
  rewrite app_nil_r. apply Permutation_refl.
Qed.

(* ================================================================== *)
(** * 1. PolyhedralSyntaxTermList : meaning and homomorphisms *)
(* Σ factor_v · rho v + constant *)
Definition stl_val (rho : val) (t : stl) : R := lin rho (sfactors t) + Q2R (sconst t).
(* the factors are a dict: keys pairwise distinct *)
Definition wfs (t : stl) : Prop := NoDup (keys (sfactors t)).

Lemma wfs_zero : wfs stl_zero.
Proof. constructor. Qed.
Lemma stl_val_zero rho : stl_val rho stl_zero = 0.
Proof. unfold stl_val. cbn. rewrite Q2R_0. lra. Qed.

Lemma add_factor_NoDup fs p : NoDup (keys fs) -> NoDup (keys (add_factor fs p)).
Proof.
  intros Hn. unfold add_factor. destruct (assoc (fst p) fs) as [q|].
  - cbv zeta. destruct (qzero (qadd q (snd p))).
    + apply sx_NoDup_dict_pop. exact Hn.
    + apply sx_NoDup_dict_set. exact Hn.
  - apply sx_NoDup_dict_set. exact Hn.
Qed.
Lemma add_factor_lin rho fs p :
  NoDup (keys fs) -> lin rho (add_factor fs p) = lin rho fs + Q2R (snd p) * rho (fst p).
Proof.
  intros Hn. unfold add_factor. destruct (assoc (fst p) fs) as [q|] eqn:E.
  - cbv zeta. destruct (qzero (qadd q (snd p))) eqn:Z.
    + rewrite sx_lin_dict_pop by exact Hn. unfold cf. rewrite E.
      apply qzero_true in Z. rewrite Q2R_qadd in Z.
      replace (Q2R (snd p)) with (- Q2R q) by lra. lra.
    + rewrite sx_lin_dict_set. unfold cf. rewrite E. rewrite Q2R_qadd. lra.
  - rewrite sx_lin_dict_set. unfold cf. rewrite E, Q2R_0. lra.
Qed.
Lemma fold_add_factor rho l fs :
  NoDup (keys fs) ->
  NoDup (keys (fold_left add_factor l fs)) /\
  lin rho (fold_left add_factor l fs) = lin rho fs + lin rho l.
Proof.
  revert fs. induction l as [|[k q] r IH]; intros fs Hn; cbn [fold_left lin].
  - split; [exact Hn|lra].
  - destruct (IH (add_factor fs (k, q)) (add_factor_NoDup _ _ Hn)) as [H1 H2]. split; [exact H1|].
    rewrite H2, add_factor_lin by exact Hn. cbn [fst snd]. lra.
Qed.

(* add *)
Lemma wfs_add a b : wfs a -> wfs (stl_add a b).
Proof. intros H. unfold wfs, stl_add. cbn [sfactors]. apply (fold_add_factor (fun _ => 0)). exact H. Qed.
Theorem stl_add_val rho a b : wfs a -> stl_val rho (stl_add a b) = stl_val rho a + stl_val rho b.
Proof.
  intros H. unfold stl_val, stl_add. cbn [sfactors sconst].
  destruct (fold_add_factor rho (sfactors b) (sfactors a) H) as [_ ->]. rewrite Q2R_qadd. lra.
Qed.
(* negate *)
Lemma wfs_negate a : wfs a -> wfs (stl_negate a).
Proof. unfold wfs, stl_negate. cbn [sfactors]. rewrite (sx_keys_map qneg). tauto. Qed.
Theorem stl_negate_val rho a : stl_val rho (stl_negate a) = - stl_val rho a.
Proof.
  unfold stl_val, stl_negate. cbn [sfactors sconst].
  rewrite (sx_lin_map rho qneg (-1)) by (intros; rewrite Q2R_qneg; lra). rewrite Q2R_qneg. lra.
Qed.
(* scale *)
Lemma wfs_scale f a : wfs a -> wfs (stl_scale f a).
Proof. unfold wfs, stl_scale. cbn [sfactors]. rewrite (sx_keys_map (fun q => qmul q f)). tauto. Qed.
Theorem stl_scale_val rho f a : stl_val rho (stl_scale f a) = Q2R f * stl_val rho a.
Proof.
  unfold stl_val, stl_scale. cbn [sfactors sconst].
  rewrite (sx_lin_map rho (fun q => qmul q f) (Q2R f)) by (intros; rewrite Q2R_qmul; lra).
  rewrite Q2R_qmul. lra.
Qed.
Lemma wfs_scale_factors f a : wfs a -> wfs (stl_scale_factors f a).
Proof. unfold wfs, stl_scale_factors. cbn [sfactors]. rewrite (sx_keys_map (fun q => qmul q f)). tauto. Qed.
Lemma stl_scale_factors_val rho f a :
  stl_val rho (stl_scale_factors f a) = Q2R f * lin rho (sfactors a) + Q2R (sconst a).
Proof.
  unfold stl_val, stl_scale_factors. cbn [sfactors sconst].
  rewrite (sx_lin_map rho (fun q => qmul q f) (Q2R f)) by (intros; rewrite Q2R_qmul; lra). lra.
Qed.
Lemma wfs_apply_sign s a : wfs a -> wfs (apply_sign s a).
Proof. destruct s; cbn; [tauto|apply wfs_negate]. Qed.
Lemma apply_sign_val rho s a : stl_val rho (apply_sign s a) = sgn s * stl_val rho a.
Proof. destruct s; cbn [apply_sign sgn]; [lra|rewrite stl_negate_val; lra]. Qed.

(* to_polyhedral_term : Σ factors + constant <= 0  becomes  Σ factors <= -constant *)
Theorem stl_to_pterm_sat rho t : sat rho (stl_to_pterm t) <-> stl_val rho t <= 0.
Proof.
  unfold sat, stl_to_pterm, mk_term, stl_val. cbn [tvars tconst].
  rewrite sx_lin_filter_nz, Q2R_qneg. split; intros; lra.
Qed.

(* ================================================================== *)
(** * 2. same_term_list (equal repr strings = equal canonical forms) *)
Lemma factors_eqb_lin rho l1 l2 : factors_eqb l1 l2 = true -> lin rho l1 = lin rho l2.
Proof.
  revert l2. induction l1 as [|[k1 q1] r1 IH]; intros [|[k2 q2] r2]; cbn [factors_eqb]; try discriminate.
  - reflexivity.
  - rewrite !andb_true_iff. intros [[Hk Hq] Hr]. apply String.eqb_eq in Hk. subst.
    cbn [lin]. rewrite (IH _ Hr), (Qeq_bool_Q2R _ _ Hq). reflexivity.
Qed.
Lemma factors_eqb_refl l : factors_eqb l l = true.
Proof.
  induction l as [|[k q] r IH]; [reflexivity|]. cbn [factors_eqb].
  rewrite String.eqb_refl, IH. cbn. rewrite andb_true_r. apply Qeq_bool_iff. reflexivity.
Qed.
Lemma factors_eqb_sym l1 l2 : factors_eqb l1 l2 = true -> factors_eqb l2 l1 = true.
Proof.
  revert l2. induction l1 as [|[k1 q1] r1 IH]; intros [|[k2 q2] r2]; cbn [factors_eqb]; try discriminate.
  - reflexivity.
  - rewrite !andb_true_iff. intros [[Hk Hq] Hr]. repeat split.
    + rewrite String.eqb_sym. exact Hk.
    + apply Qeq_bool_iff. symmetry. apply Qeq_bool_iff. exact Hq.
    + apply IH. exact Hr.
Qed.
Lemma factors_eqb_trans l1 l2 l3 :
  factors_eqb l1 l2 = true -> factors_eqb l2 l3 = true -> factors_eqb l1 l3 = true.
Proof.
  revert l2 l3. induction l1 as [|[k1 q1] r1 IH]; intros [|[k2 q2] r2] [|[k3 q3] r3];
    cbn [factors_eqb]; try discriminate; try reflexivity.
  rewrite !andb_true_iff. intros [[Hk Hq] Hr] [[Hk' Hq'] Hr']. repeat split.
  - apply String.eqb_eq in Hk, Hk'. subst. apply String.eqb_refl.
  - apply Qeq_bool_iff. apply Qeq_bool_iff in Hq, Hq'. rewrite Hq. exact Hq'.
  - eapply IH; eassumption.
Qed.

Lemma same_body_refl a : same_body a a = true.
Proof.
  unfold same_body. rewrite factors_eqb_refl. cbn. apply Qeq_bool_iff. reflexivity.
Qed.
Lemma same_body_sym a b : same_body a b = true -> same_body b a = true.
Proof.
  unfold same_body. rewrite !andb_true_iff. intros [H1 H2]. split.
  - apply factors_eqb_sym. exact H1.
  - apply Qeq_bool_iff. symmetry. apply Qeq_bool_iff. exact H2.
Qed.
Lemma same_body_trans a b c : same_body a b = true -> same_body b c = true -> same_body a c = true.
Proof.
  unfold same_body. rewrite !andb_true_iff. intros [H1 H2] [H3 H4]. split.
  - eapply factors_eqb_trans; eassumption.
  - apply Qeq_bool_iff. apply Qeq_bool_iff in H2, H4. rewrite H2. exact H4.
Qed.
Lemma same_body_sym_false a b : same_body a b = false -> same_body b a = false.
Proof.
  intros H. destruct (same_body b a) eqn:E; [|reflexivity].
  apply same_body_sym in E. congruence.
Qed.

(* equal canonical forms denote the same function of the variables *)
Theorem same_body_val rho a b : same_body a b = true -> stl_val rho a = stl_val rho b.
Proof.
  unfold same_body, stl_canon, stl_val. cbn [fst]. rewrite andb_true_iff. intros [Hf Hc].
  rewrite <- (sx_lin_perm rho _ _ (sx_sort_perm (sfactors a))).
  rewrite <- (sx_lin_perm rho _ _ (sx_sort_perm (sfactors b))).
  rewrite (factors_eqb_lin rho _ _ Hf), (Qeq_bool_Q2R _ _ Hc). reflexivity.
Qed.

(* ================================================================== *)
(** * 3. Absolute terms; _combine_or_append preserves Σ_k m_k·|L_k| *)
Definition optR (o : option Q) : R := match o with None => 1 | Some c => Q2R c end.
(* the multiplier m_k : coefficient None means 1 *)
Definition coefR (a : sabs) : R := optR (acoef a).
Definition abs_val (rho : val) (a : sabs) : R := coefR a * Rabs (stl_val rho (abody a)).
Definition abs_sum (rho : val) (l : list sabs) : R := fold_right (fun a acc => abs_val rho a + acc) 0 l.

Lemma abs_sum_cons rho a r : abs_sum rho (a :: r) = abs_val rho a + abs_sum rho r.
Proof. reflexivity. Qed.
Lemma abs_sum_nil rho : abs_sum rho [] = 0.
Proof. reflexivity. Qed.
Lemma abs_sum_app rho l1 l2 : abs_sum rho (l1 ++ l2) = abs_sum rho l1 + abs_sum rho l2.
Proof.
  induction l1 as [|a r IH]; cbn [app].
  - rewrite abs_sum_nil. lra.
  - rewrite !abs_sum_cons, IH. lra.
Qed.

(* after the fix: (None, None) ↦ 2 *)
Theorem combine_optional_floats_val f1 f2 :
  optR (combine_optional_floats f1 f2) = optR f1 + optR f2.
Proof.
  destruct f1 as [a|], f2 as [b|]; cbn [combine_optional_floats optR]; autorewrite with q2r; try lra.
Qed.

(* the bodies of a list of absolute terms are pairwise different (as repr strings) *)
Fixpoint distinctb (bs : list stl) : Prop :=
  match bs with
  | [] => True
  | b :: r => (forall c, In c r -> same_body b c = false) /\ distinctb r
  end.
Definition distinct (l : list sabs) : Prop := distinctb (map abody l).

Lemma distinctb_snoc bs t :
  distinctb bs -> (forall b, In b bs -> same_body b t = false) -> distinctb (bs ++ [t]).
Proof.
  induction bs as [|b r IH]; cbn [app distinctb]; intros Hd Ht.
  - split; [intros c []|exact I].
  - destruct Hd as [Hb Hr]. split.
    + intros c Hc. apply in_app_or in Hc. destruct Hc as [Hc|[<-|[]]]; [apply Hb; exact Hc|].
      apply Ht. left. reflexivity.
    + apply IH; [exact Hr|]. intros b' Hb'. apply Ht. right. exact Hb'.
Qed.

Definition coa_step (term : sabs) (a : sabs) : sabs :=
  if same_term_list a term
  then mkAbs (abody a) (combine_optional_floats (acoef a) (acoef term)) else a.
Lemma combine_or_append_unfold atl term :
  combine_or_append atl term =
  if existsb (fun a => same_term_list a term) atl
  then map (coa_step term) atl else map (coa_step term) atl ++ [term].
Proof. reflexivity. Qed.
Lemma coa_step_body term a : abody (coa_step term a) = abody a.
Proof. unfold coa_step. destruct (same_term_list a term); reflexivity. Qed.
Lemma coa_map_bodies term l : map abody (map (coa_step term) l) = map abody l.
Proof. rewrite map_map. apply map_ext. intros. apply coa_step_body. Qed.
Lemma coa_map_id term l :
  (forall a, In a l -> same_term_list a term = false) -> map (coa_step term) l = l.
Proof.
  intros H. rewrite <- (map_id l) at 2. apply map_ext_in. intros a Ha. unfold coa_step.
  rewrite (H a Ha). reflexivity.
Qed.
Lemma existsb_false_all {A} (f : A -> bool) l : existsb f l = false -> forall a, In a l -> f a = false.
Proof.
  intros H a Ha. destruct (f a) eqn:E; [|reflexivity].
  assert (existsb f l = true) by (apply existsb_exists; eauto). congruence.
Qed.

Lemma combine_or_append_bodies atl term :
  map abody (combine_or_append atl term) =
  if existsb (fun a => same_term_list a term) atl then map abody atl else map abody atl ++ [abody term].
Proof.
  rewrite combine_or_append_unfold. destruct (existsb _ atl).
  - apply coa_map_bodies.
  - rewrite map_app, coa_map_bodies. reflexivity.
Qed.
Lemma combine_or_append_distinct atl term : distinct atl -> distinct (combine_or_append atl term).
Proof.
  unfold distinct. rewrite combine_or_append_bodies. intros Hd.
  destruct (existsb _ atl) eqn:E; [exact Hd|]. apply distinctb_snoc; [exact Hd|].
  intros b Hb. apply in_map_iff in Hb. destruct Hb as [a [<- Ha]].
  apply (existsb_false_all _ _ E a Ha).
Qed.

(* the same bookkeeping for any weight of the bodies that cannot tell equal repr strings apart:
   w = |L rho| gives the meaning, w = [L ≡ B] gives the net coefficient of the body B *)
Definition respects (w : stl -> R) : Prop := forall a b, same_body a b = true -> w a = w b.
Definition wval (w : stl -> R) (a : sabs) : R := coefR a * w (abody a).
Definition wsum (w : stl -> R) (l : list sabs) : R := fold_right (fun a acc => wval w a + acc) 0 l.
Definition absw (rho : val) (b : stl) : R := Rabs (stl_val rho b).
Lemma absw_respects rho : respects (absw rho).
Proof. intros a b H. unfold absw. rewrite (same_body_val rho a b H). reflexivity. Qed.
Lemma abs_sum_wsum rho l : abs_sum rho l = wsum (absw rho) l.
Proof. reflexivity. Qed.
Lemma wsum_cons w a r : wsum w (a :: r) = wval w a + wsum w r.
Proof. reflexivity. Qed.
Lemma wsum_nil w : wsum w [] = 0.
Proof. reflexivity. Qed.
Lemma wsum_app w l1 l2 : wsum w (l1 ++ l2) = wsum w l1 + wsum w l2.
Proof.
  induction l1 as [|a r IH]; cbn [app].
  - rewrite wsum_nil. lra.
  - rewrite !wsum_cons, IH. lra.
Qed.

Lemma coa_map_wval w term l :
  respects w -> distinct l ->
  wsum w (map (coa_step term) l) =
  wsum w l + (if existsb (fun a => same_term_list a term) l then wval w term else 0).
Proof.
  intros Hw. unfold distinct. induction l as [|a r IH]; cbn [map distinctb existsb]; intros Hd.
  - cbn. lra.
  - destruct Hd as [Ha Hr]. rewrite !wsum_cons. destruct (same_term_list a term) eqn:E; cbn [orb].
    + assert (Hall : forall b, In b r -> same_term_list b term = false).
      { intros b Hb. destruct (same_term_list b term) eqn:E'; [|reflexivity]. exfalso.
        assert (Hab : same_body (abody a) (abody b) = true).
        { eapply same_body_trans; [exact E|]. apply same_body_sym. exact E'. }
        rewrite (Ha (abody b)) in Hab; [discriminate|]. apply in_map. exact Hb. }
      rewrite (coa_map_id term r Hall). unfold coa_step. rewrite E.
      unfold wval, coefR. cbn [abody acoef]. rewrite combine_optional_floats_val.
      rewrite (Hw _ _ E). lra.
    + rewrite (IH Hr). unfold coa_step at 1. rewrite E. lra.
Qed.
Theorem combine_or_append_wval w atl term :
  respects w -> distinct atl -> wsum w (combine_or_append atl term) = wsum w atl + wval w term.
Proof.
  intros Hw Hd. rewrite combine_or_append_unfold. destruct (existsb _ atl) eqn:E.
  - rewrite coa_map_wval, E by assumption. reflexivity.
  - rewrite wsum_app, coa_map_wval, E by assumption. cbn. lra.
Qed.
Lemma fold_combine_wval w l2 l1 :
  respects w -> distinct l1 ->
  distinct (fold_left combine_or_append l2 l1) /\ wsum w (fold_left combine_or_append l2 l1) = wsum w l1 + wsum w l2.
Proof.
  intros Hw. revert l1. induction l2 as [|t r IH]; intros l1 Hd; cbn [fold_left].
  - split; [exact Hd|cbn; lra].
  - destruct (IH _ (combine_or_append_distinct l1 t Hd)) as [H1 H2]. split; [exact H1|].
    rewrite H2, combine_or_append_wval, wsum_cons by assumption. lra.
Qed.

(* combining preserves the weighted sum of absolute values  Σ_k m_k·|L_k| *)
Theorem combine_or_append_val rho atl term :
  distinct atl -> abs_sum rho (combine_or_append atl term) = abs_sum rho atl + abs_val rho term.
Proof. intros Hd. exact (combine_or_append_wval (absw rho) atl term (absw_respects rho) Hd). Qed.
Lemma fold_combine_val rho l2 l1 :
  distinct l1 ->
  distinct (fold_left combine_or_append l2 l1) /\ abs_sum rho (fold_left combine_or_append l2 l1) = abs_sum rho l1 + abs_sum rho l2.
Proof. intros Hd. exact (fold_combine_wval (absw rho) l2 l1 (absw_respects rho) Hd). Qed.

Lemma abs_negate_coef a : coefR (abs_negate a) = - coefR a.
Proof.
  unfold coefR, abs_negate. cbn [acoef optR]. destruct (acoef a); cbn [optR]; autorewrite with q2r.
  - unfold Q2R. cbn. lra.
  - unfold Q2R. cbn. lra.
Qed.
Lemma abs_negate_val rho a : abs_val rho (abs_negate a) = - abs_val rho a.
Proof. unfold abs_val. rewrite abs_negate_coef. cbn [abs_negate abody]. lra. Qed.
Lemma abs_to_term_list_val rho a :
  stl_val rho (abs_to_term_list a) = coefR a * stl_val rho (abody a).
Proof.
  unfold abs_to_term_list, stl_val, coefR. cbn [sfactors sconst].
  set (m := match acoef a with Some c => c | None => 1%Q end).
  assert (Hm : Q2R m = optR (acoef a)) by (subst m; destruct (acoef a); cbn [optR]; [reflexivity|apply Q2R_1]).
  rewrite (sx_lin_map rho (qmul m) (Q2R m)) by (intros; apply Q2R_qmul).
  rewrite Q2R_qmul, Hm. lra.
Qed.
Lemma wfs_abs_to_term_list a : wfs (abody a) -> wfs (abs_to_term_list a).
Proof. unfold wfs, abs_to_term_list. cbn [sfactors]. rewrite (sx_keys_map (qmul _)). tauto. Qed.

(* ================================================================== *)
(** * PolyhedralSyntaxAbsoluteTermList : meaning and homomorphisms *)
(* T + Σ_k m_k·|L_k| *)
Definition satl_val (rho : val) (a : satl) : R := stl_val rho (aterms a) + abs_sum rho (aabs a).
Definition wfa (a : satl) : Prop := wfs (aterms a) /\ distinct (aabs a).

Lemma wfa_zero : wfa satl_zero.
Proof. split; [apply wfs_zero|exact I]. Qed.
Lemma satl_val_zero rho : satl_val rho satl_zero = 0.
Proof. unfold satl_val. cbn [satl_zero aterms aabs abs_sum fold_right]. rewrite stl_val_zero. lra. Qed.

Lemma wfa_add a b : wfa a -> wfa (satl_add a b).
Proof.
  intros [H1 H2]. split; cbn [satl_add aterms aabs].
  - apply wfs_add. exact H1.
  - apply (fold_combine_val (fun _ => 0)). exact H2.
Qed.
Theorem satl_add_val rho a b : wfa a -> satl_val rho (satl_add a b) = satl_val rho a + satl_val rho b.
Proof.
  intros [H1 H2]. unfold satl_val. cbn [satl_add aterms aabs].
  rewrite stl_add_val by exact H1. destruct (fold_combine_val rho (aabs b) (aabs a) H2) as [_ ->]. lra.
Qed.
Lemma abs_sum_map_negate rho l : abs_sum rho (map abs_negate l) = - abs_sum rho l.
Proof.
  induction l as [|a r IH]; cbn [map]; [cbn; lra|]. rewrite !abs_sum_cons, IH, abs_negate_val. lra.
Qed.
Lemma wfa_negate a : wfa a -> wfa (satl_negate a).
Proof.
  intros [H1 H2]. split; cbn [satl_negate aterms aabs].
  - apply wfs_negate. exact H1.
  - unfold distinct in *. rewrite map_map. cbn [abs_negate abody]. exact H2.
Qed.
Theorem satl_negate_val rho a : satl_val rho (satl_negate a) = - satl_val rho a.
Proof.
  unfold satl_val. cbn [satl_negate aterms aabs]. rewrite stl_negate_val, abs_sum_map_negate. lra.
Qed.
Lemma wfa_scale f a : wfa a -> wfa (satl_scale f a).
Proof.
  intros [H1 H2]. split; cbn [satl_scale aterms aabs].
  - apply wfs_scale. exact H1.
  - unfold distinct in *. rewrite map_map. cbn [abody]. exact H2.
Qed.
Theorem satl_scale_val rho f a : satl_val rho (satl_scale f a) = Q2R f * satl_val rho a.
Proof.
  unfold satl_val. cbn [satl_scale aterms aabs]. rewrite stl_scale_val.
  assert (H : forall l, abs_sum rho (map (fun t => mkAbs (abody t)
              (Some (match acoef t with Some c => qmul c f | None => f end))) l) = Q2R f * abs_sum rho l).
  { induction l as [|t r IH]; cbn [map]; [cbn; lra|]. rewrite !abs_sum_cons, IH.
    unfold abs_val, coefR. cbn [acoef abody optR].
    destruct (acoef t); cbn [optR]; autorewrite with q2r; lra. }
  rewrite H. lra.
Qed.

(* ================================================================== *)
(** * 4. expand : the 2^n sign combinations *)
Fixpoint signed_sum (rho : val) (signs : list bool) (atl : list sabs) : R :=
  match signs, atl with
  | s :: ss, a :: r => (if s then 1 else -1) * coefR a * stl_val rho (abody a) + signed_sum rho ss r
  | _, _ => 0
  end.

Lemma abs_signed_val rho s a :
  stl_val rho (abs_signed s a) = (if s then 1 else -1) * coefR a * stl_val rho (abody a).
Proof.
  unfold abs_signed. destruct s; rewrite abs_to_term_list_val.
  - lra.
  - rewrite abs_negate_coef. cbn [abs_negate abody]. lra.
Qed.
Lemma combination_val rho signs atl c :
  wfs c ->
  wfs (combination signs atl c) /\
  stl_val rho (combination signs atl c) = stl_val rho c + signed_sum rho signs atl.
Proof.
  revert atl c. induction signs as [|s ss IH]; intros [|a r] c Hc; cbn [combination signed_sum];
    try (split; [exact Hc|lra]).
  destruct (IH r (stl_add c (abs_signed s a)) (wfs_add _ _ Hc)) as [H1 H2]. split; [exact H1|].
  rewrite H2, stl_add_val, abs_signed_val by exact Hc. lra.
Qed.

Lemma Rabs_split (T m L S : R) :
  0 <= m -> (T + (m * Rabs L + S) <= 0 <-> (T + 1 * m * L) + S <= 0 /\ (T + -1 * m * L) + S <= 0).
Proof.
  intros Hm. unfold Rabs. destruct (Rcase_abs L) as [Hl|Hl]; split.
  - intros H. split; nra.
  - intros [H1 H2]. nra.
  - intros H. split; nra.
  - intros [H1 H2]. nra.
Qed.

(* with non-negative multipliers, T + Σ m_k |L_k| <= 0 iff it holds for every choice of signs *)
Theorem abs_expand rho atl :
  Forall (fun a => 0 <= coefR a) atl ->
  forall T, T + abs_sum rho atl <= 0 <->
            Forall (fun signs => T + signed_sum rho signs atl <= 0) (sign_vectors (List.length atl)).
Proof.
  induction 1 as [|a r Ha _ IH]; intros T; cbn [List.length sign_vectors].
  - cbn [abs_sum fold_right]. split.
    + intros H. constructor; [cbn; lra|constructor].
    + intros H. inversion H; subst. cbn in *. lra.
  - rewrite abs_sum_cons. unfold abs_val. rewrite (Rabs_split T _ _ _ Ha).
    rewrite Forall_app, !Forall_map. rewrite (IH (T + 1 * coefR a * stl_val rho (abody a))).
    rewrite (IH (T + -1 * coefR a * stl_val rho (abody a))).
    split; intros [H1 H2]; split;
      [eapply Forall_impl; [|exact H1]|eapply Forall_impl; [|exact H2]
      |eapply Forall_impl; [|exact H1]|eapply Forall_impl; [|exact H2]];
      cbv beta; intros x Hx; cbn [signed_sum] in *; lra.
Qed.

Lemma abs_is_positive_coef a : abs_is_positive a = true -> 0 < coefR a.
Proof.
  unfold abs_is_positive, coefR. destruct (acoef a) as [c|]; cbn [optR]; intros H; [|lra].
  apply qlt_true in H. rewrite Q2R_0 in H. exact H.
Qed.
Lemma abs_is_positive_false a : abs_is_positive a = false -> coefR a <= 0.
Proof.
  unfold abs_is_positive, coefR. destruct (acoef a) as [c|]; cbn [optR]; intros H; [|discriminate].
  apply qlt_false in H. rewrite Q2R_0 in H. exact H.
Qed.

Lemma sx_Forall_iff {A} (P P' : A -> Prop) l : (forall x, P x <-> P' x) -> (Forall P l <-> Forall P' l).
Proof. intros H. split; apply Forall_impl; intros x; apply H. Qed.

(* expand is sound and complete when every absolute coefficient is positive *)
Theorem expand_sound rho a :
  wfs (aterms a) -> forallb abs_is_positive (aabs a) = true ->
  (sat_list rho (map stl_to_pterm (satl_expand a)) <-> satl_val rho a <= 0).
Proof.
  intros Hw Hp. unfold satl_val, sat_list.
  assert (Hnn : Forall (fun t => 0 <= coefR t) (aabs a)).
  { apply Forall_forall. intros t Ht. rewrite forallb_forall in Hp.
    pose proof (abs_is_positive_coef t (Hp t Ht)). lra. }
  rewrite (abs_expand rho (aabs a) Hnn). unfold satl_expand.
  destruct (aabs a) as [|a0 r] eqn:E.
  - cbn [map List.length sign_vectors]. rewrite !Forall_cons_iff, stl_to_pterm_sat. cbn [signed_sum].
    split; intros [H _]; (split; [lra|constructor]).
  - rewrite <- E. unfold generate_absolute_term_combinations. rewrite !Forall_map.
    apply sx_Forall_iff. intros signs.
    rewrite stl_to_pterm_sat, stl_add_val by exact Hw.
    destruct (combination_val rho signs (aabs a) stl_zero wfs_zero) as [_ ->].
    rewrite stl_val_zero. split; intros; lra.
Qed.

(* ================================================================== *)
(** * 5. The parse actions compute the written expressions *)
Ltac inv_ret H := unfold ret, raise in H; first [discriminate H | injection H as H].
Tactic Notation "inv_bind" hyp(H) ident(a) ident(Ha) := apply bind_inl in H; destruct H as [a [Ha H]].

Lemma ceval_sound c q : ceval c = inl q -> Q2R q = cval c.
Proof.
  revert q. induction c as [q0|l IHl r IHr|l IHl r IHr|l IHl r IHr|l IHl r IHr]; intros q H;
    cbn [ceval cval] in *.
  - inv_ret H. subst. reflexivity.
  - inv_bind H a Ha. inv_bind H b Hb. inv_ret H. subst. rewrite Q2R_qadd, (IHl _ Ha), (IHr _ Hb). reflexivity.
  - inv_bind H a Ha. inv_bind H b Hb. inv_ret H. subst. rewrite Q2R_qsub, (IHl _ Ha), (IHr _ Hb). reflexivity.
  - inv_bind H a Ha. inv_bind H b Hb. inv_ret H. subst. rewrite Q2R_qmul, (IHl _ Ha), (IHr _ Hb). reflexivity.
  - inv_bind H a Ha. inv_bind H b Hb. destruct (qzero b) eqn:Z; [inv_ret H|]. inv_ret H. subst.
    rewrite Q2R_qdiv by (apply qzero_false_iff; exact Z). rewrite (IHl _ Ha), (IHr _ Hb). reflexivity.
Qed.
Lemma ceval_opt_sound k c :
  match k with None => ret None | Some e => n <- ceval e ;; ret (Some n) end = inl c -> optR c = kval k.
Proof.
  destruct k as [e|]; cbn [kval]; intros H.
  - inv_bind H n Hn. inv_ret H. subst. cbn [optR]. apply ceval_sound. exact Hn.
  - inv_ret H. subst. reflexivity.
Qed.

(* mutual induction over lterm / lterms, through the list of signed terms *)
Section LtermInd.
  Variables (P : lterm -> Prop) (P0 : lterms -> Prop).
  Hypothesis HVar : forall v, P (TVar v).
  Hypothesis HNumVar : forall k v, P (TNumVar k v).
  Hypothesis HNum : forall k, P (TNum k).
  Hypothesis HParen : forall ts, P0 ts -> P (TParen ts).
  Hypothesis HNumParen : forall k ts, P0 ts -> P (TNumParen k ts).
  Hypothesis HTerms : forall s t rest, P t -> Forall (fun p => P (snd p)) rest -> P0 (Terms s t rest).
  Fixpoint lterm_ind2 (t : lterm) : P t :=
    match t with
    | TVar v => HVar v
    | TNumVar k v => HNumVar k v
    | TNum k => HNum k
    | TParen ts => HParen ts (lterms_ind2 ts)
    | TNumParen k ts => HNumParen k ts (lterms_ind2 ts)
    end
  with lterms_ind2 (ts : lterms) : P0 ts :=
    match ts with
    | Terms s t rest =>
        HTerms s t rest (lterm_ind2 t)
          ((fix go (l : list (sign * lterm)) : Forall (fun p => P (snd p)) l :=
              match l with
              | [] => Forall_nil _
              | p :: r => Forall_cons p (lterm_ind2 (snd p)) (go r)
              end) rest)
    end.
  Lemma lterm_lterms_ind : (forall t, P t) /\ (forall ts, P0 ts).
  Proof. split; [exact lterm_ind2|exact lterms_ind2]. Qed.
End LtermInd.

Fixpoint restval (rho : val) (l : list (sign * lterm)) : R :=
  match l with [] => 0 | (s, t) :: r => sgn s * tval rho t + restval rho r end.
Lemma tsval_Terms rho s t rest : tsval rho (Terms s t rest) = sgn s * tval rho t + restval rho rest.
Proof.
  cbn [tsval]. f_equal. induction rest as [|[s' t'] r IH]; [reflexivity|].
  cbn [restval]. rewrite <- IH. reflexivity.
Qed.
Lemma fold_lterms_Terms s t rest :
  fold_lterms (Terms s t rest) =
  (x <- fold_lterm t ;; fold_signed fold_lterm rest (stl_add stl_zero (apply_sign s x))).
Proof. reflexivity. Qed.

Definition lt_ok (rho : val) (t : lterm) : Prop :=
  forall s, fold_lterm t = inl s -> wfs s /\ stl_val rho s = tval rho t.
Definition lts_ok (rho : val) (ts : lterms) : Prop :=
  forall s, fold_lterms ts = inl s -> wfs s /\ stl_val rho s = tsval rho ts.

Lemma fold_signed_sound rho rest :
  Forall (fun p => lt_ok rho (snd p)) rest ->
  forall acc r, wfs acc -> fold_signed fold_lterm rest acc = inl r ->
  wfs r /\ stl_val rho r = stl_val rho acc + restval rho rest.
Proof.
  induction 1 as [|[s t] l Hp _ IH]; intros acc r Hw H; cbn [fold_signed restval] in *.
  - inv_ret H. subst. split; [exact Hw|lra].
  - inv_bind H y Hy. destruct (Hp y Hy) as [Hwy Hvy]. cbn [snd] in *.
    destruct (IH _ _ (wfs_add acc (apply_sign s y) Hw) H) as [H1 H2]. split; [exact H1|].
    rewrite H2, stl_add_val, apply_sign_val, Hvy by exact Hw. lra.
Qed.

Lemma wfs_single v q : wfs (mkSTL 0 [(v, q)]).
Proof. unfold wfs. cbn. constructor; [intros []|constructor]. Qed.

Lemma fold_lterm_sound_both rho : (forall t, lt_ok rho t) /\ (forall ts, lts_ok rho ts).
Proof.
  apply lterm_lterms_ind; unfold lt_ok, lts_ok.
  - intros v s H. cbn [fold_lterm] in H. inv_ret H. subst. split; [apply wfs_single|].
    unfold stl_val. cbn [sfactors sconst lin tval]. rewrite Q2R_0, Q2R_1. lra.
  - intros k v s H. cbn [fold_lterm] in H. inv_bind H n Hn. inv_ret H. subst. split.
    + apply wfs_scale_factors, wfs_single.
    + rewrite stl_scale_factors_val. cbn [sfactors sconst lin tval].
      rewrite Q2R_0, Q2R_1, (ceval_sound _ _ Hn). lra.
  - intros k s H. cbn [fold_lterm] in H. inv_bind H n Hn. inv_ret H. subst. split; [constructor|].
    unfold stl_val. cbn [sfactors sconst lin tval]. rewrite (ceval_sound _ _ Hn). lra.
  - intros ts IH s H. cbn [fold_lterm] in H. destruct (IH s H) as [H1 H2]. split; [exact H1|].
    cbn [tval]. exact H2.
  - intros k ts IH s H. cbn [fold_lterm] in H. inv_bind H n Hn. inv_bind H p Hp. inv_ret H. subst.
    destruct (IH p Hp) as [H1 H2]. split; [apply wfs_scale; exact H1|].
    rewrite stl_scale_val, H2, (ceval_sound _ _ Hn). cbn [tval]. reflexivity.
  - intros sg t rest IHt IHrest s H. rewrite fold_lterms_Terms in H. inv_bind H x Hx.
    destruct (IHt x Hx) as [Hwx Hvx].
    destruct (fold_signed_sound rho rest IHrest _ _ (wfs_add stl_zero (apply_sign sg x) wfs_zero) H)
      as [H1 H2].
    split; [exact H1|]. rewrite H2, stl_add_val, stl_val_zero, apply_sign_val, Hvx, tsval_Terms by apply wfs_zero.
    lra.
Qed.
Theorem fold_lterm_sound rho t s : fold_lterm t = inl s -> wfs s /\ stl_val rho s = tval rho t.
Proof. apply (proj1 (fold_lterm_sound_both rho)). Qed.
Theorem fold_lterms_sound rho ts s : fold_lterms ts = inl s -> wfs s /\ stl_val rho s = tsval rho ts.
Proof. apply (proj2 (fold_lterm_sound_both rho)). Qed.

(* abs_or_terms *)
Definition aot_val (rho : val) (x : aot) : R :=
  match x with OT t => stl_val rho t | OA a => abs_val rho a end.
Definition wf_aot (x : aot) : Prop := match x with OT t => wfs t | OA _ => True end.

Lemma fold_aterm_sound rho a x : fold_aterm a = inl x -> wf_aot x /\ aot_val rho x = aval rho a.
Proof.
  destruct a as [s t|s k body]; cbn [fold_aterm aval]; intros H.
  - inv_bind H y Hy. inv_ret H. subst. destruct (fold_lterm_sound rho _ _ Hy) as [H1 H2].
    cbn [wf_aot aot_val]. split; [apply wfs_apply_sign; exact H1|]. rewrite apply_sign_val, H2. reflexivity.
  - inv_bind H c Hc. inv_bind H b Hb. inv_ret H. subst.
    destruct (fold_lterms_sound rho _ _ Hb) as [H1 H2]. pose proof (ceval_opt_sound _ _ Hc) as Hk.
    split; [exact I|]. destruct s; cbn [aot_val sgn].
    + unfold abs_val, coefR. cbn [abody acoef]. rewrite Hk, H2. lra.
    + rewrite abs_negate_val. unfold abs_val, coefR. cbn [abody acoef]. rewrite Hk, H2. lra.
Qed.

Lemma mapM_inl {A B} (f : A -> M B) l ys :
  mapM f l = inl ys -> Forall2 (fun x y => f x = inl y) l ys.
Proof.
  revert ys. induction l as [|x r IH]; intros ys H; cbn [mapM] in H.
  - inv_ret H. subst. constructor.
  - inv_bind H y Hy. inv_bind H zs Hzs. inv_ret H. subst. constructor; [exact Hy|apply IH; exact Hzs].
Qed.

Lemma atl_push_sound rho acc x :
  wfa acc -> wf_aot x ->
  wfa (atl_push acc x) /\ satl_val rho (atl_push acc x) = satl_val rho acc + aot_val rho x.
Proof.
  intros [H1 H2] Hx. destruct x as [t|a]; cbn [atl_push aot_val]; unfold satl_val, wfa; cbn [aterms aabs].
  - split; [split; [apply wfs_add; exact H1|exact H2]|]. rewrite stl_add_val by exact H1. lra.
  - split; [split; [exact H1|apply combine_or_append_distinct; exact H2]|].
    rewrite combine_or_append_val by exact H2. lra.
Qed.
Lemma fold_atl_push_sound rho items xs :
  Forall2 (fun a x => fold_aterm a = inl x) items xs ->
  forall acc, wfa acc ->
  wfa (fold_left atl_push xs acc) /\
  satl_val rho (fold_left atl_push xs acc) = satl_val rho acc + sum_aval rho items.
Proof.
  induction 1 as [|a x items xs Hax _ IH]; intros acc Hacc; cbn [fold_left sum_aval fold_right].
  - split; [exact Hacc|lra].
  - destruct (fold_aterm_sound rho a x Hax) as [Hwx Hvx].
    destruct (atl_push_sound rho acc x Hacc Hwx) as [Hw Hv].
    destruct (IH _ Hw) as [H1 H2]. split; [exact H1|].
    fold (sum_aval rho items). rewrite H2, Hv, Hvx. lra.
Qed.
Lemma fold_abs_or_terms_sound rho items a :
  fold_abs_or_terms items = inl a -> wfa a /\ satl_val rho a = sum_aval rho items.
Proof.
  unfold fold_abs_or_terms. intros H. inv_bind H xs Hxs. inv_ret H. subst.
  destruct (fold_atl_push_sound rho items xs (mapM_inl _ _ _ Hxs) satl_zero wfa_zero) as [H1 H2].
  split; [exact H1|]. rewrite H2, satl_val_zero. lra.
Qed.

Lemma fold_pitem_sound rho p a : fold_pitem p = inl a -> wfa a /\ satl_val rho a = pval rho p.
Proof.
  destruct p as [s k items|at_]; cbn [fold_pitem pval]; intros H.
  - inv_bind H f Hf. inv_bind H b Hb. inv_ret H. subst.
    destruct (fold_abs_or_terms_sound rho _ _ Hb) as [Hw Hv].
    pose proof (ceval_opt_sound _ _ Hf) as Hk.
    set (a1 := match f with Some n => satl_scale n b | None => b end).
    assert (H1 : wfa a1 /\ satl_val rho a1 = kval k * sum_aval rho items).
    { subst a1. destruct f as [n|]; cbn [optR] in Hk.
      - split; [apply wfa_scale; exact Hw|]. rewrite satl_scale_val, Hv, Hk. reflexivity.
      - split; [exact Hw|]. rewrite Hv, <- Hk. lra. }
    destruct H1 as [Hw1 Hv1].
    set (a2 := match s with Plus => a1 | Minus => satl_negate a1 end).
    assert (H2 : wfa a2 /\ satl_val rho a2 = sgn s * kval k * sum_aval rho items).
    { subst a2. destruct s; cbn [sgn].
      - split; [exact Hw1|]. rewrite Hv1. lra.
      - split; [apply wfa_negate; exact Hw1|]. rewrite satl_negate_val, Hv1. lra. }
    destruct H2 as [Hw2 Hv2]. split; [apply wfa_add, wfa_zero|].
    rewrite satl_add_val, satl_val_zero, Hv2 by apply wfa_zero. lra.
  - inv_bind H x Hx. inv_ret H. subst. destruct (fold_aterm_sound rho _ _ Hx) as [Hw Hv].
    rewrite <- Hv. destruct x as [t|t]; cbn [aot_val wf_aot] in *.
    + split.
      * split; cbn [aterms aabs]; [apply wfs_add, wfs_zero|exact I].
      * unfold satl_val. cbn [aterms aabs]. rewrite stl_add_val, stl_val_zero, abs_sum_nil by apply wfs_zero. lra.
    + split.
      * split; cbn [aterms aabs]; [apply wfs_zero|]. apply combine_or_append_distinct. exact I.
      * unfold satl_val. cbn [aterms aabs]. rewrite combine_or_append_val by exact I.
        rewrite stl_val_zero, abs_sum_nil. lra.
Qed.

Lemma fold_satl_add_sound rho sd xs :
  Forall2 (fun p x => fold_pitem p = inl x) sd xs ->
  forall acc, wfa acc ->
  wfa (fold_left satl_add xs acc) /\
  satl_val rho (fold_left satl_add xs acc) = satl_val rho acc + sideval rho sd.
Proof.
  induction 1 as [|p x sd xs Hpx _ IH]; intros acc Hacc; cbn [fold_left sideval fold_right].
  - split; [exact Hacc|lra].
  - destruct (fold_pitem_sound rho p x Hpx) as [Hwx Hvx].
    destruct (IH _ (wfa_add acc x Hacc)) as [H1 H2]. split; [exact H1|].
    fold (sideval rho sd). rewrite H2, satl_add_val, Hvx by exact Hacc. lra.
Qed.
Theorem fold_side_sound rho sd a : fold_side sd = inl a -> wfa a /\ satl_val rho a = sideval rho sd.
Proof.
  unfold fold_side. intros H. inv_bind H xs Hxs. inv_ret H. subst.
  destruct (fold_satl_add_sound rho sd xs (mapM_inl _ _ _ Hxs) satl_zero wfa_zero) as [H1 H2].
  split; [exact H1|]. rewrite H2, satl_val_zero. lra.
Qed.

(* ---------- serializer ---------- *)
Lemma check_absolute_terms_ok atl u : check_absolute_terms atl = inl u -> forallb abs_is_positive atl = true.
Proof. unfold check_absolute_terms. destruct (forallb abs_is_positive atl); [reflexivity|discriminate]. Qed.

Definition op_rel (op : sop) : R -> R -> Prop := match op with OpLeq => Rle | OpGeq => Rge end.

Lemma pair_difference_sound rho op a b :
  wfa a -> wfa b ->
  wfa (pair_difference op (a, b)) /\
  (satl_val rho (pair_difference op (a, b)) <= 0 <-> op_rel op (satl_val rho a) (satl_val rho b)).
Proof.
  intros Ha Hb. destruct op; cbn [pair_difference fst snd op_rel].
  - split; [apply wfa_add; exact Ha|]. rewrite satl_add_val, satl_negate_val by exact Ha. split; intros; lra.
  - split; [apply wfa_add, wfa_negate; exact Ha|].
    rewrite satl_add_val, satl_negate_val by (apply wfa_negate; exact Ha). split; intros; lra.
Qed.
Lemma pair_terms_sound rho op a b ys :
  wfa a -> wfa b -> pair_terms op (a, b) = inl ys ->
  (sat_list rho ys <-> op_rel op (satl_val rho a) (satl_val rho b)).
Proof.
  intros Ha Hb H. unfold pair_terms in H. cbv zeta in H. inv_bind H u Hu. inv_ret H. subst.
  destruct (pair_difference_sound rho op a b Ha Hb) as [[Hw _] Hv].
  rewrite expand_sound; [exact Hv|exact Hw|]. eapply check_absolute_terms_ok. exact Hu.
Qed.
Lemma sat_list_app rho l1 l2 : sat_list rho (l1 ++ l2) <-> sat_list rho l1 /\ sat_list rho l2.
Proof. unfold sat_list. apply Forall_app. Qed.

Lemma chain_pairs_sound rho op xs :
  Forall wfa xs -> forall ts, concat_mapM (pair_terms op) (adjacent xs) = inl ts ->
  (sat_list rho ts <-> chain (op_rel op) (map (satl_val rho) xs)).
Proof.
  induction 1 as [|a r Ha Hr IH]; intros ts H.
  - cbn in H. inv_ret H. subst. cbn. split; [tauto|constructor].
  - destruct r as [|b r'].
    + cbn in H. inv_ret H. subst. cbn. split; [tauto|constructor].
    + change (adjacent (a :: b :: r')) with ((a, b) :: adjacent (b :: r')) in H.
      cbn [concat_mapM] in H. inv_bind H ys Hys. inv_bind H zs Hzs. inv_ret H. subst.
      rewrite sat_list_app. inversion Hr as [|? ? Hb _]; subst.
      rewrite (pair_terms_sound rho op a b ys Ha Hb Hys). rewrite (IH zs Hzs).
      cbn [map chain]. tauto.
Qed.

Lemma Forall2_sides rho sides xs :
  Forall2 (fun sd x => fold_side sd = inl x) sides xs ->
  Forall wfa xs /\ map (satl_val rho) xs = map (sideval rho) sides.
Proof.
  induction 1 as [|sd x sides xs H _ [IH1 IH2]]; [split; [constructor|reflexivity]|].
  destruct (fold_side_sound rho sd x H) as [Hw Hv]. split; [constructor; assumption|].
  cbn [map]. rewrite Hv, IH2. reflexivity.
Qed.

Lemma ineq_sound rho op sides xs ts :
  mapM fold_side sides = inl xs -> ineq_expression_to_polyhedral_terms op xs = inl ts ->
  (sat_list rho ts <-> chain (op_rel op) (map (sideval rho) sides)).
Proof.
  intros Hxs H. unfold ineq_expression_to_polyhedral_terms in H.
  destruct (List.length xs <? 2)%nat; [inv_ret H|].
  destruct (Forall2_sides rho sides xs (mapM_inl _ _ _ Hxs)) as [Hw Hm].
  rewrite <- Hm. apply chain_pairs_sound; assumption.
Qed.

(** The headline: when parsing succeeds, the produced inequalities hold at a point exactly when
    the written relation holds there. *)
Theorem fold_sound : forall e ts, fold_expr e = inl ts -> forall rho, sat_list rho ts <-> eden rho e.
Proof.
  intros e ts H rho. unfold fold_expr in H. inv_bind H se Hse.
  destruct e as [l r|sides|sides]; cbn [parse_expr eden] in *.
  - inv_bind Hse a Ha. inv_bind Hse b Hb. inv_ret Hse. subst. cbn [expression_to_polyhedral_terms] in H.
    inv_ret H. subst. destruct (fold_lterms_sound rho _ _ Ha) as [Hwa Hva].
    destruct (fold_lterms_sound rho _ _ Hb) as [Hwb Hvb].
    unfold eql_expression_to_polyhedral_terms, sat_list.
    rewrite !Forall_cons_iff, !stl_to_pterm_sat, !stl_add_val, !stl_negate_val, Hva, Hvb by assumption.
    split; [intros [H1 [H2 _]]; lra|intros ->; repeat split; try lra; constructor].
  - inv_bind Hse xs Hxs. inv_ret Hse. subst. cbn [expression_to_polyhedral_terms] in H.
    apply (ineq_sound rho OpLeq sides xs ts Hxs H).
  - inv_bind Hse xs Hxs. inv_ret Hse. subst. cbn [expression_to_polyhedral_terms] in H.
    apply (ineq_sound rho OpGeq sides xs ts Hxs H).
Qed.

(* ================================================================== *)
(** * Errors *)
Local Open Scope string_scope.
Definition ZDE : err := Escape "ZeroDivisionError".
Tactic Notation "inv_bindr" hyp(H) ident(a) ident(Ha) :=
  apply bind_inr in H; destruct H as [H|[a [Ha H]]].

Lemma ceval_err c x : ceval c = inr x -> x = ZDE.
Proof.
  induction c as [q0|l IHl r IHr|l IHl r IHr|l IHl r IHr|l IHl r IHr]; cbn [ceval]; intros H.
  - discriminate.
  - inv_bindr H a Ha; [auto|]. inv_bindr H b Hb; [auto|discriminate].
  - inv_bindr H a Ha; [auto|]. inv_bindr H b Hb; [auto|discriminate].
  - inv_bindr H a Ha; [auto|]. inv_bindr H b Hb; [auto|discriminate].
  - inv_bindr H a Ha; [auto|]. inv_bindr H b Hb; [auto|]. destruct (qzero b); [|discriminate].
    unfold raise in H. injection H as <-. reflexivity.
Qed.
Lemma ceval_opt_err {A} (g : Q -> A) (d : A) k x :
  match k with None => ret d | Some e => n <- ceval e ;; ret (g n) end = inr x -> x = ZDE.
Proof.
  destruct k as [e|]; intros H; [|discriminate]. inv_bindr H n Hn; [eapply ceval_err; eauto|discriminate].
Qed.

Lemma fold_signed_err x rest :
  Forall (fun p => fold_lterm (snd p) = inr x -> x = ZDE) rest ->
  forall acc, fold_signed fold_lterm rest acc = inr x -> x = ZDE.
Proof.
  induction 1 as [|[s t] l Hp _ IH]; intros acc H; cbn [fold_signed] in H; [discriminate|].
  inv_bindr H y Hy; [apply Hp; exact H|]. eapply IH. exact H.
Qed.
Lemma fold_lterm_err_both x :
  (forall t, fold_lterm t = inr x -> x = ZDE) /\ (forall ts, fold_lterms ts = inr x -> x = ZDE).
Proof.
  apply lterm_lterms_ind.
  - intros v H. discriminate.
  - intros k v H. cbn [fold_lterm] in H. inv_bindr H n Hn; [eapply ceval_err; eauto|discriminate].
  - intros k H. cbn [fold_lterm] in H. inv_bindr H n Hn; [eapply ceval_err; eauto|discriminate].
  - intros ts IH H. apply IH. exact H.
  - intros k ts IH H. cbn [fold_lterm] in H. inv_bindr H n Hn; [eapply ceval_err; eauto|].
    inv_bindr H p Hp; [auto|discriminate].
  - intros s t rest IHt IHrest H. rewrite fold_lterms_Terms in H. inv_bindr H y Hy; [auto|].
    eapply fold_signed_err; eauto.
Qed.
Lemma fold_aterm_err a x : fold_aterm a = inr x -> x = ZDE.
Proof.
  destruct a as [s t|s k body]; cbn [fold_aterm]; intros H.
  - inv_bindr H y Hy; [apply (proj1 (fold_lterm_err_both x)) in H; exact H|discriminate].
  - inv_bindr H c Hc; [eapply (ceval_opt_err (fun n => Some n)); exact H|].
    inv_bindr H b Hb; [apply (proj2 (fold_lterm_err_both x)) in H; exact H|discriminate].
Qed.
Lemma mapM_inr {A B} (f : A -> M B) l x : mapM f l = inr x -> exists a, In a l /\ f a = inr x.
Proof.
  induction l as [|a r IH]; cbn [mapM]; intros H; [discriminate|].
  inv_bindr H y Hy; [exists a; split; [left; reflexivity|exact H]|].
  inv_bindr H ys Hys; [|discriminate]. destruct (IH H) as [a' [H1 H2]]. exists a'. split; [right; exact H1|exact H2].
Qed.
Lemma fold_abs_or_terms_err items x : fold_abs_or_terms items = inr x -> x = ZDE.
Proof.
  unfold fold_abs_or_terms. intros H. inv_bindr H xs Hxs; [|discriminate].
  apply mapM_inr in H. destruct H as [a [_ H]]. eapply fold_aterm_err. exact H.
Qed.
Lemma fold_pitem_err p x : fold_pitem p = inr x -> x = ZDE.
Proof.
  destruct p as [s k items|a]; cbn [fold_pitem]; intros H.
  - inv_bindr H f Hf; [eapply (ceval_opt_err (fun n => Some n)); exact H|].
    inv_bindr H b Hb; [eapply fold_abs_or_terms_err; exact H|discriminate].
  - inv_bindr H y Hy; [eapply fold_aterm_err; exact H|discriminate].
Qed.
Lemma fold_side_err sd x : fold_side sd = inr x -> x = ZDE.
Proof.
  unfold fold_side. intros H. inv_bindr H xs Hxs; [|discriminate].
  apply mapM_inr in H. destruct H as [a [_ H]]. eapply fold_pitem_err. exact H.
Qed.
(* the parse actions can only fail with a division by zero in the constant arithmetic *)
Theorem parse_expr_err e x : parse_expr e = inr x -> x = ZDE.
Proof.
  destruct e as [l r|sides|sides]; cbn [parse_expr]; intros H.
  - inv_bindr H a Ha; [apply (proj2 (fold_lterm_err_both x)) in H; exact H|].
    inv_bindr H b Hb; [apply (proj2 (fold_lterm_err_both x)) in H; exact H|discriminate].
  - inv_bindr H xs Hxs; [|discriminate]. apply mapM_inr in H. destruct H as [a [_ H]]. eapply fold_side_err; eauto.
  - inv_bindr H xs Hxs; [|discriminate]. apply mapM_inr in H. destruct H as [a [_ H]]. eapply fold_side_err; eauto.
Qed.

Lemma pair_terms_inr op ab x :
  pair_terms op ab = inr x <->
  x = ConvexErr /\ forallb abs_is_positive (aabs (pair_difference op ab)) = false.
Proof.
  unfold pair_terms, check_absolute_terms. cbv zeta.
  destruct (forallb abs_is_positive (aabs (pair_difference op ab))); cbn [bind ret raise]; split.
  - discriminate.
  - intros [_ H]. discriminate.
  - intros H. injection H as <-. split; reflexivity.
  - intros [-> _]. reflexivity.
Qed.
(* the serializer raises the convexity error exactly when some adjacent pair fails the check
   (first failing pair wins, all failures are the same exception) *)
Lemma concat_pairs_inr op l x :
  concat_mapM (pair_terms op) l = inr x <->
  x = ConvexErr /\ exists ab, In ab l /\ forallb abs_is_positive (aabs (pair_difference op ab)) = false.
Proof.
  induction l as [|ab r IH]; cbn [concat_mapM].
  - split; [discriminate|]. intros [_ [ab [[] _]]].
  - destruct (pair_terms op ab) as [ys|y] eqn:E; cbn [bind].
    + assert (Hok : forallb abs_is_positive (aabs (pair_difference op ab)) = true).
      { destruct (forallb abs_is_positive (aabs (pair_difference op ab))) eqn:F; [reflexivity|].
        assert (pair_terms op ab = inr ConvexErr) by (apply pair_terms_inr; split; [reflexivity|exact F]).
        congruence. }
      destruct (concat_mapM (pair_terms op) r) as [zs|z] eqn:E2; cbn [bind].
      * split; [discriminate|]. intros [-> [ab' [[<-|Hin] Hf]]]; [congruence|].
        assert (inl zs = inr ConvexErr :> M (list pterm)) by (apply IH; split; [reflexivity|eauto]). discriminate.
      * rewrite IH. split; intros [-> [ab' [Hin Hf]]]; (split; [reflexivity|]).
        -- exists ab'. split; [right; exact Hin|exact Hf].
        -- destruct Hin as [<-|Hin]; [congruence|]. exists ab'. split; assumption.
    + apply pair_terms_inr in E. destruct E as [-> F]. split.
      * intros H. injection H as <-. split; [reflexivity|]. exists ab. split; [left; reflexivity|exact F].
      * intros [-> _]. reflexivity.
Qed.

Definition two_sided (e : expr) : Prop :=
  match e with EEq _ _ => True | ELeq s | EGeq s => (2 <= List.length s)%nat end.

Lemma mapM_length {A B} (f : A -> M B) l ys : mapM f l = inl ys -> List.length ys = List.length l.
Proof.
  intros H. apply mapM_inl in H. induction H as [|x y l ys _ _ IH]; [reflexivity|]. cbn [List.length]. rewrite IH. reflexivity.
Qed.

(** Only three things can go wrong; on trees the grammar produces (two or more sides) only two. *)
Theorem fold_errors_gen e x :
  fold_expr e = inr x ->
  x = ConvexErr \/ x = Escape "ZeroDivisionError" \/ (x = Escape "AssertionError" /\ ~ two_sided e).
Proof.
  unfold fold_expr. intros H. inv_bindr H se Hse; [right; left; eapply parse_expr_err; exact H|].
  destruct e as [l r|sides|sides]; cbn [parse_expr] in Hse.
  - inv_bind Hse a Ha. inv_bind Hse b Hb. inv_ret Hse. subst. discriminate.
  - inv_bind Hse xs Hxs. inv_ret Hse. subst. cbn [expression_to_polyhedral_terms] in H.
    unfold ineq_expression_to_polyhedral_terms in H. rewrite (mapM_length _ _ _ Hxs) in H.
    destruct (List.length sides <? 2)%nat eqn:L.
    + right. right. unfold raise in H. injection H as <-. split; [reflexivity|].
      cbn [two_sided]. apply Nat.ltb_lt in L. intros H2. apply (proj1 (Nat.le_ngt _ _) H2). exact L.
    + left. apply concat_pairs_inr in H. tauto.
  - inv_bind Hse xs Hxs. inv_ret Hse. subst. cbn [expression_to_polyhedral_terms] in H.
    unfold ineq_expression_to_polyhedral_terms in H. rewrite (mapM_length _ _ _ Hxs) in H.
    destruct (List.length sides <? 2)%nat eqn:L.
    + right. right. unfold raise in H. injection H as <-. split; [reflexivity|].
      cbn [two_sided]. apply Nat.ltb_lt in L. intros H2. apply (proj1 (Nat.le_ngt _ _) H2). exact L.
    + left. apply concat_pairs_inr in H. tauto.
Qed.
Theorem fold_errors e x :
  two_sided e -> fold_expr e = inr x -> x = ConvexErr \/ x = Escape "ZeroDivisionError".
Proof.
  intros Ht H. destruct (fold_errors_gen e x H) as [H1|[H1|[_ H1]]]; [left; exact H1|right; exact H1|tauto].
Qed.

(* ================================================================== *)
(** * 6. When the convexity error is raised *)
Local Open Scope R_scope.
Local Open Scope list_scope.

(* Syntax-tree level: every |body| written in a side, with the product of the signs and factors
   that apply to it (sign and factor of the absolute term, sign and factor of the enclosing
   parenthesis), and the folded body *)
Definition body_stl (ts : lterms) : stl := match fold_lterms ts with inl b => b | inr _ => stl_zero end.
Definition occ : Type := (R * stl)%type.
Definition aterm_occs (a : aterm) : list occ :=
  match a with
  | ATerm _ _ => []
  | AAbs s k body => [(sgn s * kval k, body_stl body)]
  end.
Definition scale_occs (c : R) (l : list occ) : list occ := map (fun o => (c * fst o, snd o)) l.
Definition pitem_occs (p : pitem) : list occ :=
  match p with
  | PGroup s k items => scale_occs (sgn s * kval k) (flat_map aterm_occs items)
  | PPlain a => aterm_occs a
  end.
Definition side_occs (sd : side) : list occ := flat_map pitem_occs sd.

(* two bodies are the same when they print the same *)
Definition same_as (B : stl) (b : stl) : R := if same_body b B then 1 else 0.
Definition osum (w : stl -> R) (l : list occ) : R := fold_right (fun o acc => fst o * w (snd o) + acc) 0 l.
(* net coefficient of the body B among the occurrences *)
Definition net (B : stl) (l : list occ) : R := osum (same_as B) l.
Definition written (B : stl) (l : list occ) : Prop := exists o, In o l /\ same_body (snd o) B = true.
(* small <= big is read as small - big <= 0: some body written in the pair is left with a
   non-positive net coefficient *)
Definition nonconvex_pair (small big : list occ) : Prop :=
  exists B, (written B small \/ written B big) /\ net B small - net B big <= 0.
Definition nonconvex (e : expr) : Prop :=
  match e with
  | EEq _ _ => False
  | ELeq sides => exists a b, In (a, b) (adjacent sides) /\ nonconvex_pair (side_occs a) (side_occs b)
  | EGeq sides => exists a b, In (a, b) (adjacent sides) /\ nonconvex_pair (side_occs b) (side_occs a)
  end.
(* no division by zero in the constant arithmetic *)
Definition parses (e : expr) : Prop := exists se, parse_expr e = inl se.

Lemma same_as_respects B : respects (same_as B).
Proof.
  intros a b H. unfold same_as. destruct (same_body a B) eqn:E1, (same_body b B) eqn:E2; try reflexivity.
  - rewrite (same_body_trans b a B (same_body_sym _ _ H) E1) in E2. discriminate.
  - rewrite (same_body_trans a b B H E2) in E1. discriminate.
Qed.

Lemma osum_nil w : osum w [] = 0.
Proof. reflexivity. Qed.
Lemma osum_cons w o l : osum w (o :: l) = fst o * w (snd o) + osum w l.
Proof. reflexivity. Qed.
Lemma osum_app w l1 l2 : osum w (l1 ++ l2) = osum w l1 + osum w l2.
Proof.
  induction l1 as [|o r IH]; cbn [app]; [rewrite osum_nil; lra|]. rewrite !osum_cons, IH. lra.
Qed.
Lemma osum_scale w c l : osum w (scale_occs c l) = c * osum w l.
Proof.
  induction l as [|o r IH]; cbn [scale_occs map]; [rewrite !osum_nil; lra|].
  fold (scale_occs c r). rewrite !osum_cons, IH. cbn [fst snd]. lra.
Qed.
Lemma written_app B l1 l2 : written B (l1 ++ l2) <-> written B l1 \/ written B l2.
Proof.
  unfold written. split.
  - intros [o [Hi Hs]]. apply in_app_or in Hi. destruct Hi; [left|right]; eauto.
  - intros [[o [Hi Hs]]|[o [Hi Hs]]]; exists o; (split; [apply in_or_app; tauto|exact Hs]).
Qed.
Lemma written_scale B c l : written B (scale_occs c l) <-> written B l.
Proof.
  unfold written, scale_occs. split.
  - intros [o [Hi Hs]]. apply in_map_iff in Hi. destruct Hi as [o' [<- Hi]]. exists o'. tauto.
  - intros [o [Hi Hs]]. exists (c * fst o, snd o). split; [|exact Hs].
    apply in_map_iff. exists o. tauto.
Qed.
Lemma written_nil B : ~ written B [].
Proof. intros [o [[] _]]. Qed.

(* model level *)
Definition present (B : stl) (l : list sabs) : Prop := exists t, In t l /\ same_body (abody t) B = true.

Lemma present_bodies B l l' : map abody l = map abody l' -> (present B l <-> present B l').
Proof.
  assert (H : forall l l', map abody l = map abody l' -> present B l -> present B l').
  { intros m m' Hm [t [Hi Hs]]. assert (Hb : In (abody t) (map abody m')) by (rewrite <- Hm; apply in_map; exact Hi).
    apply in_map_iff in Hb. destruct Hb as [t' [He Hi']]. exists t'. split; [exact Hi'|]. rewrite He. exact Hs. }
  intros Hm. split; apply H; [exact Hm|symmetry; exact Hm].
Qed.
Lemma present_app B l1 l2 : present B (l1 ++ l2) <-> present B l1 \/ present B l2.
Proof.
  unfold present. split.
  - intros [o [Hi Hs]]. apply in_app_or in Hi. destruct Hi; [left|right]; eauto.
  - intros [[o [Hi Hs]]|[o [Hi Hs]]]; exists o; (split; [apply in_or_app; tauto|exact Hs]).
Qed.
Lemma present_combine_or_append B l t :
  present B (combine_or_append l t) <-> present B l \/ same_body (abody t) B = true.
Proof.
  pose proof (combine_or_append_bodies l t) as Hb. destruct (existsb _ l) eqn:E.
  - rewrite (present_bodies B _ _ Hb). split; [tauto|]. intros [H|H]; [exact H|].
    apply existsb_exists in E. destruct E as [a [Ha Hs]]. exists a. split; [exact Ha|].
    eapply same_body_trans; [exact Hs|exact H].
  - assert (Hb' : map abody (combine_or_append l t) = map abody (l ++ [t])) by (rewrite map_app; exact Hb).
    rewrite (present_bodies B _ _ Hb'), present_app. split; (intros [H|H]; [left; exact H|right]).
    + destruct H as [t' [[<-|[]] Hs]]. exact Hs.
    + exists t. split; [left; reflexivity|exact H].
Qed.
Lemma present_fold_combine B l2 l1 :
  present B (fold_left combine_or_append l2 l1) <-> present B l1 \/ present B l2.
Proof.
  revert l1. induction l2 as [|t r IH]; intros l1; cbn [fold_left].
  - split; [tauto|]. intros [H|[t [[] _]]]. exact H.
  - rewrite IH, present_combine_or_append. change (t :: r) with ([t] ++ r). rewrite present_app.
    assert (Hs : present B [t] <-> same_body (abody t) B = true).
    { split; [intros [t' [[<-|[]] Hs]]; exact Hs|intros H; exists t; split; [left; reflexivity|exact H]]. }
    rewrite Hs. tauto.
Qed.

Lemma wsum_map_negate w l : wsum w (map abs_negate l) = - wsum w l.
Proof.
  induction l as [|a r IH]; cbn [map]; [rewrite wsum_nil; lra|]. rewrite !wsum_cons, IH.
  unfold wval. rewrite abs_negate_coef. cbn [abs_negate abody]. lra.
Qed.
Definition scale_abs (f : Q) (t : sabs) : sabs :=
  mkAbs (abody t) (Some (match acoef t with None => f | Some c => qmul c f end)).
Lemma wsum_map_scale w f l : wsum w (map (scale_abs f) l) = Q2R f * wsum w l.
Proof.
  induction l as [|t r IH]; cbn [map]; [rewrite !wsum_nil; lra|]. rewrite !wsum_cons, IH.
  unfold wval, coefR, scale_abs. cbn [acoef abody optR].
  destruct (acoef t); cbn [optR]; autorewrite with q2r; lra.
Qed.

(* the absolute list built for a side carries, for every weight, the same weighted sum as the
   occurrences written in the side, and the same bodies *)
Definition tracks (l : list sabs) (occs : list occ) : Prop :=
  (forall w, respects w -> wsum w l = osum w occs) /\ (forall B, present B l <-> written B occs).

Lemma tracks_nil : tracks [] [].
Proof.
  split; [intros; reflexivity|]. intros B. split; [intros [t [[] _]]|intros H; destruct (written_nil B H)].
Qed.

Definition aot_occs (x : aot) : list occ :=
  match x with OT _ => [] | OA t => [(coefR t, abody t)] end.
Lemma fold_aterm_occs a x : fold_aterm a = inl x -> aterm_occs a = aot_occs x.
Proof.
  destruct a as [s t|s k body]; cbn [fold_aterm aterm_occs]; intros H.
  - inv_bind H y Hy. inv_ret H. subst. reflexivity.
  - inv_bind H c Hc. inv_bind H b Hb. inv_ret H. subst. pose proof (ceval_opt_sound _ _ Hc) as Hk.
    unfold body_stl. rewrite Hb. destruct s; cbn [aot_occs sgn].
    + unfold coefR. cbn [acoef abody]. rewrite Hk. f_equal. f_equal. lra.
    + rewrite abs_negate_coef. unfold coefR. cbn [abs_negate acoef abody]. rewrite Hk. f_equal. f_equal. lra.
Qed.

Lemma tracks_push acc x occs :
  distinct (aabs acc) -> tracks (aabs acc) occs ->
  tracks (aabs (atl_push acc x)) (occs ++ aot_occs x).
Proof.
  intros Hd [H1 H2]. destruct x as [t|t]; cbn [atl_push aabs aot_occs].
  - rewrite app_nil_r. split; assumption.
  - split.
    + intros w Hw. rewrite combine_or_append_wval, osum_app, H1 by assumption.
      rewrite osum_cons, osum_nil. cbn [fst snd]. unfold wval. lra.
    + intros B. rewrite present_combine_or_append, written_app, H2. unfold written.
      split; (intros [H|H]; [left; exact H|right]).
      * exists (coefR t, abody t). split; [left; reflexivity|exact H].
      * destruct H as [o [[<-|[]] Hs]]. exact Hs.
Qed.
Lemma tracks_fold_push items xs :
  Forall2 (fun a x => fold_aterm a = inl x) items xs ->
  forall acc occs, wfa acc -> tracks (aabs acc) occs ->
  tracks (aabs (fold_left atl_push xs acc)) (occs ++ flat_map aterm_occs items).
Proof.
  induction 1 as [|a x items xs Hax _ IH]; intros acc occs Hacc Ht; cbn [fold_left flat_map].
  - rewrite app_nil_r. exact Ht.
  - rewrite (fold_aterm_occs a x Hax), app_assoc.
    destruct (fold_aterm_sound (fun _ => 0) a x Hax) as [Hwx _].
    apply IH.
    + apply (atl_push_sound (fun _ => 0) acc x Hacc Hwx).
    + apply tracks_push; [apply Hacc|exact Ht].
Qed.
Lemma tracks_abs_or_terms items a :
  fold_abs_or_terms items = inl a -> tracks (aabs a) (flat_map aterm_occs items).
Proof.
  unfold fold_abs_or_terms. intros H. inv_bind H xs Hxs. inv_ret H. subst.
  apply (tracks_fold_push items xs (mapM_inl _ _ _ Hxs) satl_zero [] wfa_zero tracks_nil).
Qed.

Lemma tracks_negate l occs : tracks l occs -> tracks (map abs_negate l) (scale_occs (-1) occs).
Proof.
  intros [H1 H2]. split.
  - intros w Hw. rewrite wsum_map_negate, osum_scale, H1 by exact Hw. lra.
  - intros B. rewrite written_scale, <- H2. apply present_bodies. rewrite map_map. reflexivity.
Qed.
Lemma tracks_scale f l occs : tracks l occs -> tracks (map (scale_abs f) l) (scale_occs (Q2R f) occs).
Proof.
  intros [H1 H2]. split.
  - intros w Hw. rewrite wsum_map_scale, osum_scale, H1 by exact Hw. lra.
  - intros B. rewrite written_scale, <- H2. apply present_bodies. rewrite map_map. reflexivity.
Qed.
Lemma tracks_add a b oa ob :
  distinct (aabs a) -> tracks (aabs a) oa -> tracks (aabs b) ob ->
  tracks (aabs (satl_add a b)) (oa ++ ob).
Proof.
  intros Hd [A1 A2] [B1 B2]. cbn [satl_add aabs]. split.
  - intros w Hw. destruct (fold_combine_wval w (aabs b) (aabs a) Hw Hd) as [_ ->].
    rewrite osum_app, A1, B1 by exact Hw. reflexivity.
  - intros B. rewrite present_fold_combine, written_app, A2, B2. tauto.
Qed.
Lemma tracks_ext l occs occs' :
  tracks l occs -> (forall w, osum w occs = osum w occs') -> (forall B, written B occs <-> written B occs') ->
  tracks l occs'.
Proof.
  intros [H1 H2] Ho Hw. split.
  - intros w Hr. rewrite H1, Ho by exact Hr. reflexivity.
  - intros B. rewrite H2. apply Hw.
Qed.
Lemma scale_occs_scale c d l : scale_occs c (scale_occs d l) = scale_occs (c * d) l.
Proof.
  unfold scale_occs. rewrite map_map. apply map_ext. intros o. cbn [fst snd]. f_equal. lra.
Qed.
Lemma scale_occs_one_gen c l : c = 1 -> forall w, osum w (scale_occs c l) = osum w l.
Proof. intros -> w. rewrite osum_scale. lra. Qed.

Lemma tracks_pitem p a : fold_pitem p = inl a -> tracks (aabs a) (pitem_occs p).
Proof.
  destruct p as [s k items|at_]; cbn [fold_pitem pitem_occs]; intros H.
  - inv_bind H f Hf. inv_bind H b Hb. inv_ret H. subst.
    pose proof (tracks_abs_or_terms _ _ Hb) as Ht.
    destruct (fold_abs_or_terms_sound (fun _ => 0) _ _ Hb) as [Hw _].
    pose proof (ceval_opt_sound _ _ Hf) as Hk.
    set (O := flat_map aterm_occs items) in *.
    set (a1 := match f with Some n => satl_scale n b | None => b end).
    assert (H1 : wfa a1 /\ tracks (aabs a1) (scale_occs (kval k) O)).
    { subst a1. destruct f as [n|]; cbn [optR] in Hk.
      - split; [apply wfa_scale; exact Hw|]. rewrite <- Hk. apply (tracks_scale n). exact Ht.
      - split; [exact Hw|]. eapply tracks_ext; [exact Ht| |].
        + intros w. symmetry. apply scale_occs_one_gen. symmetry. exact Hk.
        + intros B. symmetry. apply written_scale. }
    destruct H1 as [Hw1 Ht1].
    set (a2 := match s with Plus => a1 | Minus => satl_negate a1 end).
    assert (H2 : tracks (aabs a2) (scale_occs (sgn s * kval k) O)).
    { subst a2. destruct s; cbn [sgn].
      - replace (1 * kval k) with (kval k) by lra. exact Ht1.
      - replace (-1 * kval k) with (-1 * kval k) by lra. rewrite <- scale_occs_scale.
        apply tracks_negate. exact Ht1. }
    apply (tracks_add satl_zero a2 [] _ I tracks_nil H2).
  - inv_bind H x Hx. inv_ret H. subst. rewrite (fold_aterm_occs _ _ Hx).
    destruct x as [t|t]; cbn [aabs aot_occs]; [apply tracks_nil|].
    apply (tracks_push satl_zero (OA t) [] I tracks_nil).
Qed.

Lemma tracks_fold_add sd xs :
  Forall2 (fun p x => fold_pitem p = inl x) sd xs ->
  forall acc occs, wfa acc -> tracks (aabs acc) occs ->
  tracks (aabs (fold_left satl_add xs acc)) (occs ++ flat_map pitem_occs sd).
Proof.
  induction 1 as [|p x sd xs Hpx _ IH]; intros acc occs Hacc Ht; cbn [fold_left flat_map].
  - rewrite app_nil_r. exact Ht.
  - rewrite app_assoc. apply IH; [apply wfa_add; exact Hacc|].
    apply tracks_add; [apply Hacc|exact Ht|apply tracks_pitem; exact Hpx].
Qed.
Lemma tracks_side sd a : fold_side sd = inl a -> tracks (aabs a) (side_occs sd).
Proof.
  unfold fold_side. intros H. inv_bind H xs Hxs. inv_ret H. subst.
  apply (tracks_fold_add sd xs (mapM_inl _ _ _ Hxs) satl_zero [] wfa_zero tracks_nil).
Qed.

(* with distinct bodies the net coefficient of a present body is the coefficient of its entry *)
Lemma wsum_same_as_absent B l : (forall t, In t l -> same_body (abody t) B = false) -> wsum (same_as B) l = 0.
Proof.
  induction l as [|t r IH]; intros H; [reflexivity|]. rewrite wsum_cons, IH by (intros; apply H; right; assumption).
  unfold wval, same_as. rewrite (H t) by (left; reflexivity). lra.
Qed.
Lemma wsum_same_as_entry l t :
  distinct l -> In t l -> wsum (same_as (abody t)) l = coefR t.
Proof.
  unfold distinct. induction l as [|a r IH]; cbn [map distinctb]; [intros _ []|intros [Ha Hr] Hin].
  rewrite wsum_cons. destruct Hin as [<-|Hin].
  - rewrite wsum_same_as_absent.
    + unfold wval, same_as. rewrite same_body_refl. lra.
    + intros t Ht. apply same_body_sym_false. apply Ha. apply in_map. exact Ht.
  - rewrite (IH Hr Hin). unfold wval, same_as. rewrite (Ha (abody t)) by (apply in_map; exact Hin). lra.
Qed.

Lemma forallb_false_ex {A} (f : A -> bool) l : forallb f l = false <-> exists a, In a l /\ f a = false.
Proof.
  induction l as [|a r IH]; cbn [forallb].
  - split; [discriminate|intros [a [[] _]]].
  - rewrite andb_false_iff, IH. split.
    + intros [H|[b [Hb Hf]]]; [exists a; split; [left; reflexivity|exact H]|exists b; split; [right; exact Hb|exact Hf]].
    + intros [b [[<-|Hb] Hf]]; [left; exact Hf|right; exists b; tauto].
Qed.
Lemma abs_is_positive_iff t : abs_is_positive t = false <-> coefR t <= 0.
Proof.
  split; [apply abs_is_positive_false|]. intros H. destruct (abs_is_positive t) eqn:E; [|reflexivity].
  apply abs_is_positive_coef in E. lra.
Qed.

(* one adjacent pair: the check fails iff some written body is left with a non-positive coefficient *)
Lemma pair_check_nonconvex d small big :
  distinct (aabs d) -> tracks (aabs d) (small ++ scale_occs (-1) big) ->
  (forallb abs_is_positive (aabs d) = false <-> nonconvex_pair small big).
Proof.
  intros Hd [H1 H2]. rewrite forallb_false_ex. unfold nonconvex_pair, net.
  assert (Hnet : forall B, wsum (same_as B) (aabs d) = osum (same_as B) small - osum (same_as B) big).
  { intros B. rewrite (H1 _ (same_as_respects B)), osum_app, osum_scale. lra. }
  assert (Hpres : forall B, present B (aabs d) <-> written B small \/ written B big).
  { intros B. rewrite H2, written_app, written_scale. tauto. }
  split.
  - intros [t [Hin Hf]]. apply abs_is_positive_iff in Hf. exists (abody t). split.
    + apply Hpres. exists t. split; [exact Hin|apply same_body_refl].
    + rewrite <- Hnet, (wsum_same_as_entry _ _ Hd Hin). exact Hf.
  - intros [B [Hw Hn]]. apply Hpres in Hw. destruct Hw as [t [Hin Hs]]. exists t. split; [exact Hin|].
    apply abs_is_positive_iff. rewrite <- (wsum_same_as_entry _ _ Hd Hin).
    rewrite <- Hnet in Hn. unfold wsum in *.
    assert (Heq : forall b, same_as (abody t) b = same_as B b).
    { intros b. unfold same_as. destruct (same_body b (abody t)) eqn:E1, (same_body b B) eqn:E2; try reflexivity.
      - rewrite (same_body_trans _ _ _ E1 Hs) in E2. discriminate.
      - rewrite (same_body_trans _ _ _ E2 (same_body_sym _ _ Hs)) in E1. discriminate. }
    assert (Hsum : forall l, wsum (same_as (abody t)) l = wsum (same_as B) l).
    { induction l as [|a r IH]; [reflexivity|]. rewrite !wsum_cons, IH. unfold wval. rewrite Heq. reflexivity. }
    fold (wsum (same_as (abody t)) (aabs d)). rewrite Hsum. exact Hn.
Qed.

Lemma pair_nonconvex op sa sb a b :
  fold_side sa = inl a -> fold_side sb = inl b ->
  (forallb abs_is_positive (aabs (pair_difference op (a, b))) = false <->
   match op with
   | OpLeq => nonconvex_pair (side_occs sa) (side_occs sb)
   | OpGeq => nonconvex_pair (side_occs sb) (side_occs sa)
   end).
Proof.
  intros Ha Hb. destruct (fold_side_sound (fun _ => 0) _ _ Ha) as [Hwa _].
  destruct (fold_side_sound (fun _ => 0) _ _ Hb) as [Hwb _].
  pose proof (tracks_side _ _ Ha) as Ta. pose proof (tracks_side _ _ Hb) as Tb.
  destruct op; cbn [pair_difference fst snd].
  - apply pair_check_nonconvex; [apply wfa_add; exact Hwa|].
    apply tracks_add; [apply Hwa|exact Ta|]. cbn [satl_negate aabs]. apply tracks_negate. exact Tb.
  - apply pair_check_nonconvex; [apply wfa_add, wfa_negate; exact Hwa|].
    pose proof (tracks_add (satl_negate a) b _ _ (proj2 (wfa_negate a Hwa)) (tracks_negate _ _ Ta) Tb) as T.
    eapply tracks_ext; [exact T| |].
    + intros w. rewrite !osum_app. lra.
    + intros B. rewrite !written_app. tauto.
Qed.

Lemma Forall2_adjacent {A B} (P : A -> B -> Prop) l l' :
  Forall2 P l l' -> Forall2 (fun p q => P (fst p) (fst q) /\ P (snd p) (snd q)) (adjacent l) (adjacent l').
Proof.
  induction 1 as [|x y l l' Hxy Hl IH]; [constructor|].
  destruct Hl as [|x' y' l l' Hxy' Hl]; [constructor|].
  change (adjacent (x :: x' :: l)) with ((x, x') :: adjacent (x' :: l)).
  change (adjacent (y :: y' :: l')) with ((y, y') :: adjacent (y' :: l')).
  constructor; [cbn; tauto|exact IH].
Qed.
Lemma Forall2_ex_iff {A B} (P : A -> B -> Prop) (QA : A -> Prop) (QB : B -> Prop) l l' :
  Forall2 P l l' -> (forall x y, P x y -> (QA x <-> QB y)) ->
  ((exists x, In x l /\ QA x) <-> (exists y, In y l' /\ QB y)).
Proof.
  intros H HQ. induction H as [|x y l l' Hxy _ IH].
  - split; intros [z [[] _]].
  - split.
    + intros [z [[<-|Hz] Hq]]; [exists y; split; [left; reflexivity|apply (HQ _ _ Hxy); exact Hq]|].
      destruct (proj1 IH (ex_intro _ z (conj Hz Hq))) as [y' [H1 H2]]. exists y'. split; [right; exact H1|exact H2].
    + intros [z [[<-|Hz] Hq]]; [exists x; split; [left; reflexivity|apply (HQ _ _ Hxy); exact Hq]|].
      destruct (proj2 IH (ex_intro _ z (conj Hz Hq))) as [x' [H1 H2]]. exists x'. split; [right; exact H1|exact H2].
Qed.

Lemma ineq_convex op sides xs :
  mapM fold_side sides = inl xs ->
  (ineq_expression_to_polyhedral_terms op xs = inr ConvexErr <->
   exists sa sb, In (sa, sb) (adjacent sides) /\
     match op with
     | OpLeq => nonconvex_pair (side_occs sa) (side_occs sb)
     | OpGeq => nonconvex_pair (side_occs sb) (side_occs sa)
     end).
Proof.
  intros Hxs. pose proof (mapM_inl _ _ _ Hxs) as HF. pose proof (Forall2_adjacent _ _ _ HF) as HA.
  unfold ineq_expression_to_polyhedral_terms. rewrite (mapM_length _ _ _ Hxs).
  destruct (List.length sides <? 2)%nat eqn:L.
  - split; [discriminate|]. intros [sa [sb [Hin _]]]. exfalso. apply Nat.ltb_lt in L.
    destruct sides as [|s1 [|s2 r]]; cbn in Hin, L; try tauto. inversion L as [|? L']; inversion L' as [|? L'']; inversion L''.
  - rewrite concat_pairs_inr.
    rewrite <- (Forall2_ex_iff _
       (fun p => match op with
                 | OpLeq => nonconvex_pair (side_occs (fst p)) (side_occs (snd p))
                 | OpGeq => nonconvex_pair (side_occs (snd p)) (side_occs (fst p)) end)
       (fun ab => forallb abs_is_positive (aabs (pair_difference op ab)) = false) _ _ HA).
    + split.
      * intros [_ [[sa sb] [Hin Hn]]]. exists sa, sb. split; [exact Hin|exact Hn].
      * intros [sa [sb [Hin Hn]]]. split; [reflexivity|]. exists (sa, sb). split; [exact Hin|exact Hn].
    + intros [sa sb] [a b] [Ha Hb]. cbn [fst snd] in *. symmetry. apply pair_nonconvex; assumption.
Qed.

(** The convexity error is raised exactly when the constant arithmetic is defined and, for some
    adjacent pair of sides, some absolute body written in the pair is left — after moving
    everything to the small side and adding up the coefficients of equal bodies — with a
    non-positive coefficient. *)
Theorem fold_convex e : fold_expr e = inr ConvexErr <-> parses e /\ nonconvex e.
Proof.
  unfold fold_expr, parses. destruct (parse_expr e) as [se|x] eqn:P; cbn [bind].
  - destruct e as [l r|sides|sides]; cbn [parse_expr nonconvex] in *.
    + inv_bind P a Ha. inv_bind P b Hb. inv_ret P. subst. cbn. split; [discriminate|tauto].
    + inv_bind P xs Hxs. inv_ret P. subst. cbn [expression_to_polyhedral_terms].
      rewrite (ineq_convex OpLeq sides xs Hxs). split; [intros H; split; [eauto|exact H]|tauto].
    + inv_bind P xs Hxs. inv_ret P. subst. cbn [expression_to_polyhedral_terms].
      rewrite (ineq_convex OpGeq sides xs Hxs). split; [intros H; split; [eauto|exact H]|tauto].
  - split.
    + intros H. injection H as ->. apply parse_expr_err in P. discriminate.
    + intros [[se Hse] _]. discriminate.
Qed.

(* ================================================================== *)
(** * Examples (each tree and expected result was produced by running pacti on the quoted string:
      harness/syntax_cases.py, string_result = python_result) *)
Local Open Scope string_scope.
Local Open Scope list_scope.
(* "|x| + |x| <= 2" *)
Definition ex_abs_twice : expr :=
  (ELeq [[(PPlain (AAbs Plus None (Terms Plus (TVar "x") []))); (PPlain (AAbs Plus None (Terms Plus (TVar "x") [])))]; [(PPlain (ATerm Plus (TNum (CNum (Qmake 2 1)))))]]).
Example ex_abs_twice_folds :
  fold_expr ex_abs_twice =
  inl [(mkT [("x", (Qmake 2 1))] (Qmake 2 1)); (mkT [("x", (Qmake (-2) 1))] (Qmake 2 1))].
Proof. vm_compute. reflexivity. Qed.
(* "x + y <= 3" *)
Definition ex_sum : expr :=
  (ELeq [[(PPlain (ATerm Plus (TVar "x"))); (PPlain (ATerm Plus (TVar "y")))]; [(PPlain (ATerm Plus (TNum (CNum (Qmake 3 1)))))]]).
Example ex_sum_folds :
  fold_expr ex_sum =
  inl [(mkT [("x", (Qmake 1 1)); ("y", (Qmake 1 1))] (Qmake 3 1))].
Proof. vm_compute. reflexivity. Qed.
(* "2(x - 1) >= 3 y" *)
Definition ex_scaled_paren : expr :=
  (EGeq [[(PGroup Plus (Some (CNum (Qmake 2 1))) [(ATerm Plus (TVar "x")); (ATerm Minus (TNum (CNum (Qmake 1 1))))])]; [(PPlain (ATerm Plus (TNumVar (CNum (Qmake 3 1)) "y")))]]).
Example ex_scaled_paren_folds :
  fold_expr ex_scaled_paren =
  inl [(mkT [("x", (Qmake (-2) 1)); ("y", (Qmake 3 1))] (Qmake (-2) 1))].
Proof. vm_compute. reflexivity. Qed.
(* "|x - y| <= 2 z" *)
Definition ex_abs_diff : expr :=
  (ELeq [[(PPlain (AAbs Plus None (Terms Plus (TVar "x") [(Minus, (TVar "y"))])))]; [(PPlain (ATerm Plus (TNumVar (CNum (Qmake 2 1)) "z")))]]).
Example ex_abs_diff_folds :
  fold_expr ex_abs_diff =
  inl [(mkT [("z", (Qmake (-2) 1)); ("x", (Qmake 1 1)); ("y", (Qmake (-1) 1))] (Qmake 0 1)); (mkT [("z", (Qmake (-2) 1)); ("x", (Qmake (-1) 1)); ("y", (Qmake 1 1))] (Qmake 0 1))].
Proof. vm_compute. reflexivity. Qed.
(* "1 <= x <= 3" *)
Definition ex_chain : expr :=
  (ELeq [[(PPlain (ATerm Plus (TNum (CNum (Qmake 1 1)))))]; [(PPlain (ATerm Plus (TVar "x")))]; [(PPlain (ATerm Plus (TNum (CNum (Qmake 3 1)))))]]).
Example ex_chain_folds :
  fold_expr ex_chain =
  inl [(mkT [("x", (Qmake (-1) 1))] (Qmake (-1) 1)); (mkT [("x", (Qmake 1 1))] (Qmake 3 1))].
Proof. vm_compute. reflexivity. Qed.
(* "x - 2 y = 1" *)
Definition ex_eq : expr :=
  (EEq (Terms Plus (TVar "x") [(Minus, (TNumVar (CNum (Qmake 2 1)) "y"))]) (Terms Plus (TNum (CNum (Qmake 1 1))) [])).
Example ex_eq_folds :
  fold_expr ex_eq =
  inl [(mkT [("x", (Qmake 1 1)); ("y", (Qmake (-2) 1))] (Qmake 1 1)); (mkT [("x", (Qmake (-1) 1)); ("y", (Qmake 2 1))] (Qmake (-1) 1))].
Proof. vm_compute. reflexivity. Qed.
(* "|x| - |x| <= 1" *)
Definition ex_nonconvex : expr :=
  (ELeq [[(PPlain (AAbs Plus None (Terms Plus (TVar "x") []))); (PPlain (AAbs Minus None (Terms Plus (TVar "x") [])))]; [(PPlain (ATerm Plus (TNum (CNum (Qmake 1 1)))))]]).
Example ex_nonconvex_folds :
  fold_expr ex_nonconvex =
  inr ConvexErr.
Proof. vm_compute. reflexivity. Qed.
(* "(1/0) x <= 1" *)
Definition ex_divzero : expr :=
  (ELeq [[(PPlain (ATerm Plus (TNumVar (CDiv (CNum (Qmake 1 1)) (CNum (Qmake 0 1))) "x")))]; [(PPlain (ATerm Plus (TNum (CNum (Qmake 1 1)))))]]).
Example ex_divzero_folds :
  fold_expr ex_divzero =
  inr (Escape "ZeroDivisionError").
Proof. vm_compute. reflexivity. Qed.

(* The defect fixed in _combine_optional_floats: combining two absolute terms that both have no
   written coefficient used to give coefficient None (= 1), so "|x| + |x| <= 2" was read as
   |x| <= 2.  Now the two terms mean what is written: *)
Example ex_abs_twice_meaning rho :
  sat_list rho [mkT [("x", 2 # 1)] (2 # 1); mkT [("x", -2 # 1)] (2 # 1)] <-> (2 * Rabs (rho "x") <= 2)%R.
Proof.
  rewrite (fold_sound _ _ ex_abs_twice_folds rho). unfold ex_abs_twice.
  cbn [eden map sideval fold_right pval aval sgn kval tsval tval cval chain].
  replace (Q2R (2 # 1)) with 2%R by (unfold Q2R; cbn; lra).
  replace (1 * rho "x" + 0)%R with (rho "x") by lra. split; [intros [H _]|intros H; split; [|exact I]]; lra.
Qed.
(* and the reading of a chain *)
Example ex_chain_meaning rho :
  sat_list rho [mkT [("x", -1 # 1)] (-1 # 1); mkT [("x", 1 # 1)] (3 # 1)] <-> (1 <= rho "x" <= 3)%R.
Proof.
  rewrite (fold_sound _ _ ex_chain_folds rho). unfold ex_chain.
  cbn [eden map sideval fold_right pval aval sgn kval tsval tval cval chain].
  replace (Q2R (1 # 1)) with 1%R by (unfold Q2R; cbn; lra).
  replace (Q2R (3 # 1)) with 3%R by (unfold Q2R; cbn; lra).
  split; [intros [H1 [H2 _]]|intros [H1 H2]; repeat split]; lra.
Qed.
(* "|x| - |x| <= 1" is rejected although it is convex (0 <= 1): the cancelled body stays in the list
   with coefficient 0.  fold_convex explains it: the body x is written and its net coefficient is 0. *)
Example ex_nonconvex_why : nonconvex ex_nonconvex.
Proof. apply (proj1 (fold_convex ex_nonconvex) ex_nonconvex_folds). Qed.
