(* SyntaxGenFacts.v — the obligations that tie the hand model of the syntax layer behind C09 (model/Syntax.v)
   to the code.  translator/py2coq_syntax.py (hooked into py2coq.py) renders, on every run and from the current
   /repo/src, data.py (the PolyhedralSyntax* dataclasses and their methods), the parse ACTIONS of grammar.py and
   _expression_to_polyhedral_terms with its helpers of serializer.py into gen/SyntaxGen.v.  The generated records
   are in bijection with the hand-written ones (to_stl / to_sabs / to_satl / to_sexpr of SyntaxGenBase.v) and
   every generated function is proved EQUAL to the definition of model/Syntax.v that mirrors it, pointwise on the
   monadic results (values AND error kinds):

   data.py, PolyhedralSyntaxTermList (SyntaxGenTermList.v)
     stl_is_positive_eq          PolyhedralSyntaxTermList_is_positive t = stl_is_positive (to_stl t)
     stl_negate_eq       gwfs t -> to_stl (PolyhedralSyntaxTermList_negate t) = stl_negate (to_stl t)
     stl_add_eq                  mmap to_stl (PolyhedralSyntaxTermList_add a b) = ret (stl_add (to_stl a) (to_stl b))
     stl_to_polyhedral_term_eq  gwfs t -> PolyhedralSyntaxTermList_to_polyhedral_term t = stl_to_pterm (to_stl t)
   data.py, PolyhedralSyntaxAbsoluteTerm and the module functions (SyntaxGenAbsTerm.v)
     abs_is_positive_eq          PolyhedralSyntaxAbsoluteTerm_is_positive a = abs_is_positive (to_sabs a)
     abs_negate_eq               to_sabs (PolyhedralSyntaxAbsoluteTerm_negate a) = abs_negate (to_sabs a)
     same_term_list_eq           PolyhedralSyntaxAbsoluteTerm_same_term_list a b = same_term_list (to_sabs a) (to_sabs b)
                                 (THROUGH the stated assumption about __repr__: base/PySyntax.v:stl_repr_key)
     abs_to_term_list_eq  gwfabs a -> to_stl (PolyhedralSyntaxAbsoluteTerm_to_term_list a) = abs_to_term_list (to_sabs a)
     combine_optional_floats_eq  data_combine_optional_floats f1 f2 = combine_optional_floats f1 f2
     combine_or_append_eq        map to_sabs (data_combine_or_append atl term) = combine_or_append (map to_sabs atl) (to_sabs term)
     generate_absolute_term_combinations_eq
        Forall gwfabs atl -> mmap (map to_stl) (data_generate_absolute_term_combinations atl)
                             = ret (generate_absolute_term_combinations (map to_sabs atl))
   data.py, PolyhedralSyntaxAbsoluteTermList and the expression classes (SyntaxGenAbsTermList.v)
     satl_expand_eq    gwfatl a -> mmap (map to_stl) (PolyhedralSyntaxAbsoluteTermList_expand a) = ret (satl_expand (to_satl a))
     satl_negate_eq    gwfs (gterms a) -> to_satl (PolyhedralSyntaxAbsoluteTermList_negate a) = satl_negate (to_satl a)
     satl_add_eq       mmap to_satl (PolyhedralSyntaxAbsoluteTermList_add a b) = ret (satl_add (to_satl a) (to_satl b))
     satl_is_constant_eq  PolyhedralSyntaxAbsoluteTermList_is_constant a = satl_is_constant (to_satl a)
     eql_expression_new / ineq_expression_new   the constructors (with __post_init__) against SEql / SIneq
   serializer.py (SyntaxGenSerializer.v)
     eql_expression_eq, check_absolute_terms_eq, leq_expression_eq, geq_expression_eq,
     expression_to_polyhedral_terms_eq
        gwf_expr e -> serializer_expression_to_polyhedral_terms s e = expression_to_polyhedral_terms (to_sexpr e)
   grammar.py (SyntaxGenGrammar.v: one theorem per parse action on the token shapes the grammar produces;
   SyntaxGenFold.v: the composition)
     g_expr_eq        mmap to_sexpr (g_expr star e) = parse_expr e
     g_fold_expr_eq   (x <- g_expr star e ;; serializer_expression_to_polyhedral_terms s x) = fold_expr e
        for EVERY syntax tree e: replaying the generated parse actions bottom-up and then the generated serializer
        is the hand-written fold_expr (no precondition).

   Preconditions, and why: [gwfs t] (the keys of the association list standing for a dict are pairwise distinct)
   wherever the Python builds a dict item by item (negate, to_term_list, to_polyhedral_term, the in-place scaling
   loops of the parse actions) and the hand model maps over the list.  An association list with a repeated key
   denotes no Python dict; on such a list the two differ (Examples negate_repeated_key,
   to_polyhedral_term_repeated_key, to_term_list_repeated_key, eql_repeated_key).  The hypothesis is discharged for
   everything the parse actions build (g_expr_wf), which is why the end-to-end theorem has none.
   add, is_positive, same_term_list, _combine_*, _check_absolute_terms, is_constant are equal on EVERY input.

   A semantic change of a function changes gen/SyntaxGen.v and the matching proof stops compiling
   (harness/syngen_mutations.py).  The files are split per class / module so that a change of one function breaks
   only the obligations that depend on it. *)
Require Export SyntaxGenBase SyntaxGenTermList SyntaxGenAbsTerm SyntaxGenAbsTermList SyntaxGenSerializer
        SyntaxGenGrammar SyntaxGenFold.
Require Import Py PyLoop PySyntax Ast Syntax SyntaxGen.
From Coq Require Import List String.

Goal forall t, PolyhedralSyntaxTermList_is_positive t = stl_is_positive (to_stl t).
Proof. exact stl_is_positive_eq. Qed.
Goal forall t, gwfs t -> to_stl (PolyhedralSyntaxTermList_negate t) = stl_negate (to_stl t).
Proof. exact stl_negate_eq. Qed.
Goal forall a b, mmap to_stl (PolyhedralSyntaxTermList_add a b) = ret (stl_add (to_stl a) (to_stl b)).
Proof. exact stl_add_eq. Qed.
Goal forall t, gwfs t -> PolyhedralSyntaxTermList_to_polyhedral_term t = stl_to_pterm (to_stl t).
Proof. exact stl_to_polyhedral_term_eq. Qed.
Goal forall a, PolyhedralSyntaxAbsoluteTerm_is_positive a = abs_is_positive (to_sabs a).
Proof. exact abs_is_positive_eq. Qed.
Goal forall a, to_sabs (PolyhedralSyntaxAbsoluteTerm_negate a) = abs_negate (to_sabs a).
Proof. exact abs_negate_eq. Qed.
Goal forall a b, PolyhedralSyntaxAbsoluteTerm_same_term_list a b = same_term_list (to_sabs a) (to_sabs b).
Proof. exact same_term_list_eq. Qed.
Goal forall a, gwfabs a -> to_stl (PolyhedralSyntaxAbsoluteTerm_to_term_list a) = abs_to_term_list (to_sabs a).
Proof. exact abs_to_term_list_eq. Qed.
Goal forall f1 f2, data_combine_optional_floats f1 f2 = combine_optional_floats f1 f2.
Proof. exact combine_optional_floats_eq. Qed.
Goal forall atl term, map to_sabs (data_combine_or_append atl term) = combine_or_append (map to_sabs atl) (to_sabs term).
Proof. exact combine_or_append_eq. Qed.
Goal forall atl, Forall gwfabs atl ->
     mmap (map to_stl) (data_generate_absolute_term_combinations atl)
     = ret (generate_absolute_term_combinations (map to_sabs atl)).
Proof. exact generate_absolute_term_combinations_eq. Qed.
Goal forall a, gwfatl a -> mmap (map to_stl) (PolyhedralSyntaxAbsoluteTermList_expand a) = ret (satl_expand (to_satl a)).
Proof. exact satl_expand_eq. Qed.
Goal forall a, gwfs (gterms a) -> to_satl (PolyhedralSyntaxAbsoluteTermList_negate a) = satl_negate (to_satl a).
Proof. exact satl_negate_eq. Qed.
Goal forall a b, mmap to_satl (PolyhedralSyntaxAbsoluteTermList_add a b) = ret (satl_add (to_satl a) (to_satl b)).
Proof. exact satl_add_eq. Qed.
Goal forall a, PolyhedralSyntaxAbsoluteTermList_is_constant a = satl_is_constant (to_satl a).
Proof. exact satl_is_constant_eq. Qed.
Goal forall s l, serializer_check_absolute_terms s l = check_absolute_terms (map to_sabs l).
Proof. exact check_absolute_terms_eq. Qed.
Goal forall s e, gwf_expr e -> serializer_expression_to_polyhedral_terms s e = expression_to_polyhedral_terms (to_sexpr e).
Proof. exact expression_to_polyhedral_terms_eq. Qed.
Goal forall star e, mmap to_sexpr (g_expr star e) = parse_expr e.
Proof. exact g_expr_eq. Qed.
Goal forall star s e, bind (g_expr star e) (fun x => serializer_expression_to_polyhedral_terms s x) = fold_expr e.
Proof. exact g_fold_expr_eq. Qed.

Print Assumptions stl_is_positive_eq.
Print Assumptions stl_add_eq.
Print Assumptions same_term_list_eq.
Print Assumptions combine_or_append_eq.
Print Assumptions generate_absolute_term_combinations_eq.
Print Assumptions satl_expand_eq.
Print Assumptions expression_to_polyhedral_terms_eq.
Print Assumptions parse_arithmetic_chain_eq.
Print Assumptions g_expr_eq.
Print Assumptions g_fold_expr_eq.
