(* PolyDomainFacts.v — the polyhedral instance of the contract algebra meets the
   documented contracts of the abstract constraint domain (AlgebraSpec.DomainSpec,
   IfaceSpec.DomainVars), hence the generic theorems of AlgebraSound.v / IfaceFacts.v
   apply to PolyhedralIoContract: C01 (compose), C02 (quotient), C08 (merge),
   C15 (merge keeps every guarantee), C16 (rename / rename_variables).

   Invariant on terms:  pwf t := wft' t /\ no_us t   (distinct keys, no stored zero
   coefficient — what PolyhedralTerm.__init__ guarantees — and no variable named "_",
   the scratch name of tactic 3);  admissible variable names:  pv v := v <> "_".

   The only hypothesis is on the LP solver:  HO : lp_spec 0 O  (PolySpec.v).
     refine_ok / relax_ok  from C04 (TacticsFacts.C04_refine_all / C04_relax_all) plus the
                           preservation of the invariant by elimination (section 3, 4);
     simpl_ok              from simplify_equiv_gen (section 1: PolyFacts.simplify_equiv
                           without "every term mentions a variable");
     rename_wf             needs the new name not to be "_" (counterexample in section 4).
   The exactness of `refines` (AlgebraSpec.RefinesSpec) is NOT claimed: the model compares
   the LP optimum up to REFINEMENT_TOLERANCE.  It only matters for the quotient, whose
   theorem C02_poly is therefore stated pointwise, with corollaries for the cases where the
   test answered False / raised, where the containment is exact, and a tolerance-aware one. *)
From Coq Require Import List String Bool QArith Reals Qreals Lra Lia.
Import ListNotations.
Require Import Py ListsGen ConstGen AlgebraGen Sem Term Poly Tactics PolyDomain.
Require Import QR ListsFacts AlgebraSpec AlgebraSound IfaceSpec IfaceFacts TermFacts PolySpec PolyLP PolyFacts TacticsFacts.
Open Scope py_scope.

(* ------------------------------------------------------------------ *)
(** * 0. the meaning of a term, as the algebra layer wants it *)
Definition pdt (t : pterm) (rho : val) : Prop := sat rho t.

Lemma den_sat_list (O : oracle) (l : list pterm) (rho : val) :
  @den (poly_domain O) val pdt l rho <-> sat_list rho l.
Proof. unfold den, sat_list, pdt. tauto. Qed.

Lemma Forall_wft'_wft l : Forall wft' l -> Forall wft l.
Proof. apply Forall_impl. intros t [H _]. exact H. Qed.

(* ------------------------------------------------------------------ *)
(** * 1. simplify without the "every term mentions a variable" hypothesis *)
(* PolyFacts.simplify_equiv asks for [wfl] = Forall wft + all_have_vars.  The second half
   is not an invariant of the algebra (tactic 5 and renaming can produce constant-only
   terms), and it is not needed: the m = 0 branches of poly_simplify are explicit. *)
Lemma Forall_wft_new_self ts ctx : Forall wft ts -> Forall wft (new_self ts ctx).
Proof.
  rewrite !Forall_forall. intros H x Hx. apply H. apply (incl_new_self ts ctx). exact Hx.
Qed.

Lemma keys_combine_map (g : var -> Q) vs : keys (combine vs (map g vs)) = vs.
Proof. induction vs as [|v vs IH]; simpl; [reflexivity|]. f_equal. exact IH. Qed.

Lemma in_combine_map (g : var -> Q) vs x q : In (x, q) (combine vs (map g vs)) -> q = g x.
Proof.
  induction vs as [|v vs IH]; simpl; [tauto|]. intros [H|H]; [inversion H; reflexivity|apply IH; exact H].
Qed.

(* whatever comes out of polytope_to_termlist is a well-formed PolyhedralTerm *)
Lemma wft'_roundtrip vs t : NoDup vs -> wft' (roundtrip vs t).
Proof.
  intros Hn. unfold roundtrip, row_to_term, term_to_row. cbn [fst snd].
  apply wft'_mk_term. rewrite keys_combine_map. exact Hn.
Qed.

(* ... and mentions only variables of the term it was built from *)
Lemma roundtrip_vars vs t x : In x (term_vars_p (roundtrip vs t)) -> In x (term_vars_p t).
Proof.
  unfold roundtrip, row_to_term, term_to_row, term_vars_p. cbn [fst snd]. rewrite mk_term_vars.
  intros H. apply in_keys_ex in H. destruct H as [q H]. apply filter_In in H. destruct H as [Hin Hnz].
  apply in_combine_map in Hin. unfold nzb in Hnz. cbn [snd] in Hnz. apply negb_true_iff in Hnz.
  destruct (in_dec string_dec x (keys (tvars t))) as [Hi|Hi]; [exact Hi|]. exfalso.
  rewrite (get_coefficient_notin t x Hi) in Hin. subst q. vm_compute in Hnz. discriminate.
Qed.

(* the two ways poly_simplify can succeed *)
Lemma poly_simplify_cases O ts ctx r :
  poly_simplify O ts ctx = inl r ->
  (simp_vars ts ctx = [] /\ r = map (roundtrip (simp_vars ts ctx)) (new_self ts ctx)) \/
  (exists red, reduce_polytope O (simp_vars ts ctx) (map (term_to_row (simp_vars ts ctx)) (new_self ts ctx))
                               (map (term_to_row (simp_vars ts ctx)) (opt_list ctx)) = inl red
               /\ r = map (row_to_term (simp_vars ts ctx)) red).
Proof.
  rewrite poly_simplify_unfold. destruct (simp_vars ts ctx) as [|v l] eqn:E.
  - intros H. left. destruct (existsb _ (opt_list ctx)); [discriminate|]. split; [reflexivity|].
    destruct (new_self ts ctx) as [|t [|t' ns]]; try discriminate; inversion H; reflexivity.
  - intros H. right. apply bind_inl in H. destruct H as [red [Hred Hr]]. inversion Hr; subst r.
    exists red. split; [exact Hred|reflexivity].
Qed.

Section SimplifyGen.
Variable O : oracle.
Hypothesis HO : lp_spec 0 O.

Theorem simplify_equiv_gen ts ctx r :
  Forall wft ts -> Forall wft (opt_list ctx) ->
  poly_simplify O ts ctx = inl r ->
  forall rho, sat_list rho (opt_list ctx) -> (sat_list rho r <-> sat_list rho ts).
Proof.
  intros Hts Hctx H rho Hc.
  set (vs := simp_vars ts ctx) in *. set (ns := new_self ts ctx) in *.
  assert (Hns : Forall wft ns) by (apply Forall_wft_new_self; exact Hts).
  assert (Hnd : NoDup vs) by (apply NoDup_polytope_vars; assumption).
  assert (Cns : covered vs ns) by (apply covered_polytope_l; exact Hns).
  assert (Cctx : covered vs (opt_list ctx)) by (apply covered_polytope_r; exact Hctx).
  rewrite <- (sat_new_self ts ctx rho Hts Hctx Hc). fold ns.
  apply poly_simplify_cases in H. fold vs ns in H. destruct H as [[_ ->]|[red [H ->]]].
  - apply sat_list_roundtrip; assumption.
  - pose proof (reduce_polytope_subseq _ _ _ _ _ H) as Hsub.
    apply subseq_map_inv in Hsub. destruct Hsub as [sub [Hs Er]].
    assert (Csub : covered vs sub) by (eapply covered_incl; [apply subseq_incl; exact Hs|exact Cns]).
    rewrite <- (feas_sat vs ns rho Hnd Cns).
    rewrite <- (reduce_polytope_equiv O HO (List.length vs) vs _ _ red (wf_rows_terms vs ns) H (map rho vs)).
    + rewrite Er, map_roundtrip, sat_list_roundtrip by assumption.
      symmetry. apply feas_sat; assumption.
    + apply map_length.
    + apply feas_sat; assumption.
Qed.
End SimplifyGen.

(* the result of simplify is made of fresh PolyhedralTerms, whatever the oracle says *)
Theorem simplify_wft' O ts ctx r :
  Forall wft ts -> Forall wft (opt_list ctx) -> poly_simplify O ts ctx = inl r -> Forall wft' r.
Proof.
  intros Hts Hctx H. apply simplify_subseq in H. destruct H as [sub [_ ->]].
  apply Forall_forall. intros t Ht. apply in_map_iff in Ht. destruct Ht as [t0 [<- _]].
  apply wft'_roundtrip. apply NoDup_polytope_vars; [apply Forall_wft_new_self; exact Hts|exact Hctx].
Qed.

Theorem simplify_vars_incl O ts ctx r :
  poly_simplify O ts ctx = inl r -> forall x, In x (tl_vars r) -> In x (tl_vars ts).
Proof.
  intros H x Hx. apply simplify_subseq in H. destruct H as [sub [Hs ->]].
  apply in_tl_vars in Hx. destruct Hx as [t [Ht Hx]]. apply in_map_iff in Ht. destruct Ht as [t0 [<- Ht0]].
  apply in_tl_vars. exists t0. split; [apply (subseq_incl _ _ Hs); exact Ht0|]. eapply roundtrip_vars. exact Hx.
Qed.

(* ------------------------------------------------------------------ *)
(** * 2. the interface half: DomainVars, for every oracle *)
Lemma TermList_vars_poly O (l : list pterm) : @TermList_vars (poly_domain O) l = tl_vars l.
Proof. reflexivity. Qed.

Theorem poly_vars (O : oracle) : @DomainVars (poly_domain O).
Proof.
  split.
  - intros s ctx r H x Hx. rewrite TermList_vars_poly in *. exact (simplify_vars_incl O s ctx r H x Hx).
  - intros t s u x Hx. apply rename_vars_strong in Hx. tauto.
Qed.

(* ------------------------------------------------------------------ *)
(** * 3. what variable elimination returns is made of fresh PolyhedralTerms *)
(* TacticsFacts records that the results are [good] (distinct keys, coefficient of "_" zero);
   here: no result stores a zero coefficient either, because every result is the value of a
   constructor (copy / substitute / remove_variable / polytope_to_term).  Purely syntactic:
   no hypothesis on the oracle or on the arguments. *)
Lemma nz_fold_subst sols : forall t0, nzt t0 ->
  nzt (fold_left (fun res kv => term_substitute_variable res (fst kv) (snd kv)) sols t0).
Proof.
  induction sols as [|kv sols IH]; intros t0 H0; cbn [fold_left]; [exact H0|].
  apply IH. apply nz_substitute_variable.
Qed.
Lemma nz_fold_remove vs : forall t0, nzt t0 -> nzt (fold_left term_remove_variable vs t0).
Proof.
  induction vs as [|v vs IH]; intros t0 H0; cbn [fold_left]; [exact H0|].
  apply IH. apply nz_remove_variable.
Qed.

Lemma context_reduction_nz O term ctx vs refine k r :
  context_reduction O term ctx vs refine k = inl r -> nzt r.
Proof.
  unfold context_reduction. intros H. apply bind_inl in H. destruct H as [[rows fvars] [_ H]].
  apply bind_inl in H. destruct H as [sols [_ H]]. inversion H. apply nz_fold_subst. apply nz_copy.
Qed.
Lemma tactic_1_nz O term ctx vs refine r cnt : tactic_1 O term ctx vs refine = inl (Some r, cnt) -> nzt r.
Proof.
  unfold tactic_1. intros H. apply bind_inl in H. destruct H as [r0 [H0 H]]. inversion H; subst.
  eapply context_reduction_nz. exact H0.
Qed.
Lemma tactic_5_nz O term ctx vs refine r cnt : tactic_5 O term ctx vs refine = inl (Some r, cnt) -> nzt r.
Proof.
  unfold tactic_5. intros H. apply bind_inl in H. destruct H as [r0 [H0 H]]. inversion H; subst.
  eapply context_reduction_nz. exact H0.
Qed.
Lemma tactic_2_nz O term ctx vs refine r cnt : tactic_2 O term ctx vs refine = inl (Some r, cnt) -> nzt r.
Proof.
  unfold tactic_2. cbv zeta. destruct (map term_copy _) as [|c0 nc]; [discriminate|].
  destruct (nonempty (list_diff _ _)); [discriminate|].
  destruct (O _) as [f sl| | |stt|]; try discriminate.
  destruct (negb _); intros H; inversion H; subst; [apply nz_copy|].
  unfold nzt. cbn [tvars]. apply nz_fold_remove. apply nz_copy.
Qed.
Lemma tactic_3_nz O term ctx vs refine r cnt : tactic_3 O term ctx vs refine = inl (Some r, cnt) -> nzt r.
Proof.
  unfold tactic_3. cbv zeta. destruct (list_intersection vs (term_vars_p term)) as [|v0 cr]; [discriminate|].
  apply tactic_1_nz.
Qed.
Lemma tactic_4_nz : forall fuel term ctx vs refine nv r cnt,
  tactic_4 fuel term ctx vs refine nv = inl (Some r, cnt) -> nzt r.
Proof.
  induction fuel as [|fuel IH]; intros term ctx vs refine nv r cnt H; cbn [tactic_4] in H; [discriminate|].
  destruct (negb refine); [discriminate|].
  destruct (Nat.ltb _ _); [discriminate|].
  destruct (list_intersection vs (term_vars_p term)) as [|v0 cr]; [discriminate|].
  cbv zeta in H.
  match type of H with
  | match ?g with [] => _ | _ :: _ => _ end = _ => destruct g as [|g0 gs]
  end.
  - match type of H with
    | match ?u with [] => _ | _ :: _ => ?L ?u ?n end = _ =>
        assert (H' : L u n = inl (Some r, cnt)) by (destruct u; [discriminate H|exact H]);
        clear H; revert H'; generalize u; generalize n
    end.
    intros n0 l. revert n0. induction l as [|ut l IHl]; intros total H; cbn beta iota in H; [discriminate|].
    destruct (term_isolate_variable ut v0) as [iso|e]; [|discriminate].
    match type of H with
    | match ?x with inl _ => _ | inr _ => _ end = _ => destruct x as [[[rt|] c]|e] eqn:T4
    end.
    + inversion H. apply nz_substitute_variable.
    + eapply IHl. exact H.
    + destruct (is_value_error e); [eapply IHl; exact H|discriminate].
  - apply bind_inl in H. destruct H as [iso [_ H]]. inversion H. apply nz_substitute_variable.
Qed.

Lemma run_tactic_nz O num term ctx vs refine r cnt :
  run_tactic O num term ctx vs refine = inl (Some r, cnt) -> nzt r.
Proof.
  destruct num as [|[|[|[|[|[|[|n]]]]]]]; cbn [run_tactic]; try discriminate.
  - apply tactic_1_nz.
  - apply tactic_2_nz.
  - apply tactic_3_nz.
  - apply tactic_4_nz.
  - apply tactic_5_nz.
  - intros H. inversion H. apply nz_copy.
Qed.
Lemma transform_term_loop_nz O order term ctx vs refine r num cnt :
  transform_term_loop O order term ctx vs refine = inl (r, num, cnt) -> nzt r.
Proof.
  induction order as [|n order IH]; cbn [transform_term_loop]; intros H.
  - inversion H. apply nz_copy.
  - destruct (run_tactic O n term ctx vs refine) as [[[rt|] c]|e] eqn:R.
    + inversion H; subst. eapply run_tactic_nz. exact R.
    + apply IH. exact H.
    + destruct (is_value_error e); [apply IH; exact H|discriminate].
Qed.
Lemma transform_loop_nz O order ctx vs refine : forall todo done used res st,
  Forall nzt done -> transform_loop O order ctx vs refine done todo used = inl (res, st) -> Forall nzt res.
Proof.
  induction todo as [|t todo IH]; intros done used res st Hd H; cbn [transform_loop] in H.
  - inversion H; subst. exact Hd.
  - assert (Step : forall n, nzt n -> Forall nzt (done ++ [n])).
    { intros n Hn. apply Forall_app. split; [exact Hd|constructor; [exact Hn|constructor]]. }
    destruct (nonempty (list_intersection (term_vars_p t) vs)).
    + cbv zeta in H. apply bind_inl in H. destruct H as [[[nt num] cnt] [TT H]].
      eapply IH; [|exact H]. apply Step.
      destruct (transform_term O order t _ vs refine) as [[[nt' num'] cnt']|e] eqn:E.
      * inversion TT; subst. unfold transform_term in E. destruct (negb _); [discriminate|].
        eapply transform_term_loop_nz. exact E.
      * destruct (is_value_error e); [|discriminate]. inversion TT. apply nz_copy.
    + eapply IH; [|exact H]. apply Step. apply nz_copy.
Qed.
Theorem transform_nz O self ctx vs refine sp order r st :
  transform O self ctx vs refine sp order = inl (r, st) -> Forall nzt r.
Proof.
  unfold transform. intros H. apply bind_inl in H. destruct H as [[that used] [H1 H2]].
  destruct sp.
  - apply bind_inl in H2. destruct H2 as [r' [H2 H3]]. inversion H3; subst.
    apply simplify_subseq in H2. destruct H2 as [sub [_ ->]].
    apply Forall_forall. intros t Ht. apply in_map_iff in Ht. destruct Ht as [t0 [<- _]]. apply nz_mk_term.
  - inversion H2; subst. eapply transform_loop_nz; [|exact H1]. constructor.
Qed.

(* ------------------------------------------------------------------ *)
(** * 4. the invariant: a Python PolyhedralTerm that does not use the scratch name "_" *)
(* [wft']: distinct keys, no stored zero coefficient (PolyhedralTerm.__init__);
   [no_us]: "_" is not a variable of the term — tactic 3 uses "_" as a scratch variable, and C04
   (TacticsFacts.C04_refine_all / C04_relax_all) is proved for terms and variables to eliminate
   that do not use it. *)
Definition pwf (t : pterm) : Prop := wft' t /\ no_us t.
Definition pv (v : var) : Prop := v <> us.

Lemma pwf_wft t : pwf t -> wft t.
Proof. intros [[H _] _]. exact H. Qed.
Lemma Forall_pwf_wft l : Forall pwf l -> Forall wft l.
Proof. apply Forall_impl. exact pwf_wft. Qed.
Lemma Forall_pwf_wft' l : Forall pwf l -> Forall wft' l.
Proof. apply Forall_impl. intros t [H _]. exact H. Qed.
Lemma Forall_pwf_no_us l : Forall pwf l -> Forall no_us l.
Proof. apply Forall_impl. intros t [_ H]. exact H. Qed.
Lemma pwf_good' t : pwf t -> good' t.
Proof. intros [H1 H2]. split; [exact H1|apply gcR_notin; exact H2]. Qed.

Lemma good_nz_no_us t : good t -> nzt t -> no_us t.
Proof.
  intros [Hw Hg] Hnz Hin. unfold gcR in Hg. rewrite get_coefficient_coef in Hg.
  apply (proj1 (Q2R_neq0 _) (coef_nonzero (tvars t) us Hnz Hin)). exact Hg.
Qed.
Lemma good_nz_pwf t : good t -> nzt t -> pwf t.
Proof.
  intros Hg Hnz. split; [split; [apply Hg|exact Hnz]|apply good_nz_no_us; assumption].
Qed.
Lemma Forall_good_nz_pwf l : Forall good l -> Forall nzt l -> Forall pwf l.
Proof.
  rewrite !Forall_forall. intros H1 H2 t Ht. apply good_nz_pwf; [apply H1|apply H2]; exact Ht.
Qed.

Lemma wf_input_pwf s ctx vs :
  Forall pwf s -> Forall pwf ctx -> NoDup vs -> Forall pv vs -> wf_input s ctx vs.
Proof.
  intros Hs Hc Hn Hp. unfold wf_input. repeat split.
  - apply Forall_pwf_wft'. exact Hs.
  - apply Forall_pwf_wft. exact Hc.
  - exact Hn.
  - intros Hi. rewrite Forall_forall in Hp. apply (Hp us Hi). reflexivity.
  - apply Forall_pwf_no_us. exact Hs.
  - apply Forall_pwf_no_us. exact Hc.
Qed.

(* simplify keeps the invariant (whatever the oracle answers) *)
Theorem simplify_pwf O ts ctx r :
  Forall pwf ts -> Forall pwf (opt_list ctx) -> poly_simplify O ts ctx = inl r -> Forall pwf r.
Proof.
  intros Hts Hctx H.
  pose proof (simplify_wft' O ts ctx r (Forall_pwf_wft _ Hts) (Forall_pwf_wft _ Hctx) H) as Hw.
  apply simplify_subseq in H. destruct H as [sub [Hs E]].
  rewrite Forall_forall in *. intros t Ht. split; [apply Hw; exact Ht|].
  subst r. apply in_map_iff in Ht. destruct Ht as [t0 [<- Ht0]].
  intros Hin. apply roundtrip_vars in Hin.
  apply (proj2 (Hts t0 (subseq_incl _ _ Hs t0 Ht0))). exact Hin.
Qed.

(* renaming keeps it provided the new name is not "_" *)
Theorem rename_pwf t s u : pv u -> pwf t -> pwf (term_rename_variable t s u).
Proof.
  intros Hu [[Hw _] Hn]. split; [apply wft'_rename_variable; exact Hw|].
  intros Hin. apply rename_vars_strong in Hin. destruct Hin as [_ [Hin|[Hin _]]].
  - apply Hn. exact Hin.
  - apply Hu. symmetry. exact Hin.
Qed.
(* without that proviso it does not *)
Example rename_to_us_breaks_invariant :
  pwf (mkT [("x"%string, 1%Q)] 0%Q) /\ ~ pwf (term_rename_variable (mkT [("x"%string, 1%Q)] 0%Q) "x"%string us).
Proof.
  split.
  - split; [split|].
    + unfold wft. cbn. constructor; [intros []|constructor].
    + constructor; [cbn; intros H; discriminate H|constructor].
    + unfold no_us, us. cbn. intros [H|[]]. discriminate H.
  - intros [_ H]. apply H. vm_compute. left. reflexivity.
Qed.

(* variable elimination keeps it *)
Section ElimInvariant.
Variable O : oracle.
Hypothesis HO : lp_spec 0 O.

Lemma transform_pwf order self ctx vs refine sp r st :
  Forall good' self -> Forall good ctx -> NoDup vs -> ~ In us vs ->
  transform O self ctx vs refine sp order = inl (r, st) -> Forall pwf r.
Proof.
  intros Hs Hc Hn Hu H. apply Forall_good_nz_pwf.
  - exact (transform_good O order HO (fun num _ => all_tactics_ok num) ctx vs Hc Hn Hu self refine sp r st Hs H).
  - eapply transform_nz. exact H.
Qed.

Theorem elim_refine_pwf order self ctx vs sp r st :
  wf_input self ctx vs -> elim_vars_by_refining O self ctx vs sp order = inl (r, st) -> Forall pwf r.
Proof.
  intros Hwf H. destruct (wf_input_good _ _ _ Hwf) as [G1 [G2 [G3 G4]]].
  unfold elim_vars_by_refining in H. apply bind_inl in H. destruct H as [tl [H1 H2]].
  apply as_value_error_inl in H2.
  apply (transform_pwf order tl ctx vs true sp r st); try assumption.
  destruct sp.
  - apply as_value_error_inl in H1.
    eapply simplify_good'; [apply Forall_good'_good; exact G1|exact G2|exact H1].
  - inversion H1; subst. exact G1.
Qed.

Theorem elim_relax_pwf order self ctx vs sp r st :
  wf_input self ctx vs -> elim_vars_by_relaxing O self ctx vs sp order = inl (r, st) -> Forall pwf r.
Proof.
  intros Hwf H. destruct (wf_input_good _ _ _ Hwf) as [G1 [G2 [G3 G4]]].
  unfold elim_vars_by_relaxing in H. apply bind_inl in H. destruct H as [tl [H1 H2]].
  apply bind_inl in H2. destruct H2 as [[tl2 used] [H2 H3]]. apply as_value_error_inl in H2.
  inversion H3; subst r st. clear H3.
  assert (Htl : Forall good' tl).
  { destruct sp.
    - apply as_value_error_inl in H1.
      eapply simplify_good'; [apply Forall_good'_good; exact G1|exact G2|exact H1].
    - inversion H1; subst. rewrite (map_copy_good' self G1). exact G1. }
  pose proof (transform_pwf order tl ctx vs false sp tl2 used Htl G2 G3 G4 H2) as Hp.
  unfold list_diff. rewrite Forall_forall in *. intros t Ht. apply filter_In in Ht. apply Hp. tauto.
Qed.
End ElimInvariant.

(* ------------------------------------------------------------------ *)
(** * 5. what IoContract.rename_variable hands to the constructor (every domain) *)
Section RenameGeneric.
Context `{D : Domain}.

Lemma rename_inv c s u c' :
  s <> u -> IoContract_rename_variable c s u = inl c' ->
  exists a' g' i' o', IoContract_init a' g' i' o' true = inl c' /\
    (((In s (c_inputvars c) \/ In s (c_outputvars c)) /\
      a' = TermList_rename_variable (c_a c) s u /\ g' = TermList_rename_variable (c_g c) s u) \/
     (~ In s (c_inputvars c) /\ ~ In s (c_outputvars c) /\
      a' = c_a c /\ g' = c_g c /\ i' = c_inputvars c /\ o' = c_outputvars c)).
Proof.
  intros Hne H. assert (Hq : py_eqb s u = false) by (apply String.eqb_neq; exact Hne).
  unfold IoContract_rename_variable in H. open_in H. rewrite !TermList_copy_eq, Hq in H. cbn [negb] in H.
  repeat inl_step;
    repeat match goal with
    | E : py_in _ _ = true |- _ => apply py_in_var in E
    | E : py_in _ _ = false |- _ => apply py_in_var_false in E
    end;
    do 4 eexists; (split; [eassumption|]);
    first [ left; split; [tauto|split; reflexivity]
          | right; repeat split; solve [assumption | reflexivity] ].
Qed.

(* the old name is on neither side: the contract is rebuilt as it is (whatever the new name) *)
Lemma rename_absent_inv c s u c' :
  ~ In s (c_inputvars c) -> ~ In s (c_outputvars c) ->
  IoContract_rename_variable c s u = inl c' ->
  IoContract_init (c_a c) (c_g c) (c_inputvars c) (c_outputvars c) true = inl c'.
Proof.
  intros Hi Ho H. apply py_in_var_false in Hi. apply py_in_var_false in Ho.
  unfold IoContract_rename_variable in H. open_in H. rewrite !TermList_copy_eq, Hi, Ho in H.
  destruct (negb (py_eqb s u)); repeat inl_step; assumption.
Qed.
End RenameGeneric.

(* ------------------------------------------------------------------ *)
(** * 6. the polyhedral domain meets DomainSpec *)
(* well-formed polyhedral contract (terms) / admissible interface, spelled out; they are
   AlgebraSpec.wfc pwf and AlgebraSpec.iface_ok pv at the polyhedral domain *)
Definition wfpc {O} (c : pcontract O) : Prop :=
  Forall pwf (@c_a (poly_domain O) c) /\ Forall pwf (@c_g (poly_domain O) c).
Definition ifpc {O} (c : pcontract O) : Prop :=
  NoDup (@c_inputvars (poly_domain O) c) /\ NoDup (@c_outputvars (poly_domain O) c) /\
  Forall pv (@c_inputvars (poly_domain O) c) /\ Forall pv (@c_outputvars (poly_domain O) c).

Lemma wfpc_wfc {O} (c : pcontract O) : wfpc c <-> @wfc (poly_domain O) pwf c.
Proof. unfold wfpc, wfc, wfs. tauto. Qed.
Lemma ifpc_iface_ok {O} (c : pcontract O) : ifpc c <-> @iface_ok (poly_domain O) pv c.
Proof. unfold ifpc, iface_ok. tauto. Qed.

Section PolyAlgebra.
Variable O : oracle.
Hypothesis HO : lp_spec 0 O.
Notation PD := (poly_domain O).
Local Notation pa c := (@c_a PD c) (only parsing).
Local Notation pg c := (@c_g PD c) (only parsing).
Local Notation pin c := (@c_inputvars PD c) (only parsing).
Local Notation pout c := (@c_outputvars PD c) (only parsing).

Theorem poly_spec : @DomainSpec PD val pdt pwf pv.
Proof.
  constructor.
  - (* eqb_sound *)
    intros t1 t2 W1 W2 E rho. exact (term_eqb_sat t1 t2 (pwf_wft _ W1) (pwf_wft _ W2) E rho).
  - (* refine_ok: C04 *)
    intros s ctx vs sp od r st Ws Wc [Hn Hp] H.
    pose proof (wf_input_pwf s ctx vs Ws Wc Hn Hp) as Hwf.
    split; [exact (elim_refine_pwf O HO od s ctx vs sp r st Hwf H)|].
    intros rho. exact (C04_refine_all O HO od s ctx vs sp r st Hwf H rho).
  - (* relax_ok: C04 *)
    intros s ctx vs sp od r st Ws Wc [Hn Hp] H.
    pose proof (wf_input_pwf s ctx vs Ws Wc Hn Hp) as Hwf.
    split; [exact (elim_relax_pwf O HO od s ctx vs sp r st Hwf H)|].
    intros rho. exact (proj1 (C04_relax_all O HO od s ctx vs sp r st Hwf H) rho).
  - (* simpl_ok: C07 *)
    intros s ctx r Ws Wc H. split; [exact (simplify_pwf O s ctx r Ws Wc H)|].
    intros rho. exact (simplify_equiv_gen O HO s ctx r (Forall_pwf_wft _ Ws) (Forall_pwf_wft _ Wc) H rho).
  - (* rename_wf *)
    intros t s u Hu Ht. exact (rename_pwf t s u Hu Ht).
Qed.

(* the exactness of `refines` is NOT part of it: the model compares the LP optimum up to
   REFINEMENT_TOLERANCE.  Whoever has it for a given oracle gets RefinesSpec: *)
Lemma poly_refines_spec :
  (forall x y, poly_refines O x y = inl true -> forall rho, sat_list rho x -> sat_list rho y) ->
  @RefinesSpec PD val pdt pwf.
Proof. intros H x y _ _ E rho. exact (H x y E rho). Qed.

(* ---------- C01: composition ---------- *)
Theorem C01_poly (c1 c2 : pcontract O) keep sp od c st :
  wfpc c1 -> wfpc c2 -> ifpc c1 -> ifpc c2 -> NoDup (opt_list keep) ->
  poly_compose_tactics O c1 c2 keep sp od = inl (c, st) ->
  wfpc c /\
  forall rho, sat_list rho (pa c) ->
    (sat_list rho (pa c1) -> sat_list rho (pg c1)) ->
    (sat_list rho (pa c2) -> sat_list rho (pg c2)) ->
    sat_list rho (pa c1) /\ sat_list rho (pa c2) /\ sat_list rho (pg c).
Proof.
  intros W1 W2 I1 I2 Nk H. unfold poly_compose_tactics in H.
  destruct (@compose_sound PD val pdt pwf pv poly_spec c1 c2 (Some (opt_list keep)) sp (poly_order od) c st
              W1 W2 I1 I2 Nk H) as [Wc Hob].
  split; [exact Wc|]. intros rho. exact (Hob rho).
Qed.

(* ---------- C02: quotient ---------- *)
(* pointwise: the obligation holds at every behaviour rho at which the one refinement test the
   quotient makes (dividend's assumptions against the divisor's), if it answered True, is right *)
Theorem C02_poly (c c1 : pcontract O) add sp od q st :
  wfpc c -> wfpc c1 -> ifpc c -> ifpc c1 ->
  poly_quotient_tactics O c c1 add sp od = inl (q, st) ->
  wfpc q /\
  forall rho,
    (poly_refines O (pa c) (pa c1) = inl true -> sat_list rho (pa c) -> sat_list rho (pa c1)) ->
    sat_list rho (pa c) ->
    (sat_list rho (pa c1) -> sat_list rho (pg c1)) ->
    (sat_list rho (pa q) -> sat_list rho (pg q)) ->
    sat_list rho (pa c1) /\ sat_list rho (pa q) /\ sat_list rho (pg c).
Proof.
  intros W W1 I I1 H. unfold poly_quotient_tactics in H.
  destruct (@quotient_sound_pointwise PD val pdt pwf pv poly_spec c c1 add sp (poly_order od) q st
              W W1 I I1 H) as [Wq Hob].
  split; [exact Wq|]. intros rho. exact (Hob rho).
Qed.

(* (i) the test answered False, or raised: unconditional *)
Corollary C02_poly_refines_not_true (c c1 : pcontract O) add sp od q st :
  wfpc c -> wfpc c1 -> ifpc c -> ifpc c1 ->
  poly_refines O (pa c) (pa c1) <> inl true ->
  poly_quotient_tactics O c c1 add sp od = inl (q, st) ->
  forall rho, sat_list rho (pa c) ->
    (sat_list rho (pa c1) -> sat_list rho (pg c1)) ->
    (sat_list rho (pa q) -> sat_list rho (pg q)) ->
    sat_list rho (pa c1) /\ sat_list rho (pa q) /\ sat_list rho (pg c).
Proof.
  intros W W1 I I1 Hne H rho. apply (proj2 (C02_poly c c1 add sp od q st W W1 I I1 H) rho).
  intros E. exfalso. exact (Hne E).
Qed.
Corollary C02_poly_refines_false (c c1 : pcontract O) add sp od q st :
  wfpc c -> wfpc c1 -> ifpc c -> ifpc c1 ->
  poly_refines O (pa c) (pa c1) = inl false ->
  poly_quotient_tactics O c c1 add sp od = inl (q, st) ->
  forall rho, sat_list rho (pa c) ->
    (sat_list rho (pa c1) -> sat_list rho (pg c1)) ->
    (sat_list rho (pa q) -> sat_list rho (pg q)) ->
    sat_list rho (pa c1) /\ sat_list rho (pa q) /\ sat_list rho (pg c).
Proof.
  intros W W1 I I1 Hf. apply C02_poly_refines_not_true; try assumption. rewrite Hf. discriminate.
Qed.

(* (ii) the dividend's assumptions are exactly contained in the divisor's: unconditional *)
Corollary C02_poly_contained (c c1 : pcontract O) add sp od q st :
  wfpc c -> wfpc c1 -> ifpc c -> ifpc c1 ->
  (forall rho, sat_list rho (pa c) -> sat_list rho (pa c1)) ->
  poly_quotient_tactics O c c1 add sp od = inl (q, st) ->
  forall rho, sat_list rho (pa c) ->
    (sat_list rho (pa c1) -> sat_list rho (pg c1)) ->
    (sat_list rho (pa q) -> sat_list rho (pg q)) ->
    sat_list rho (pa c1) /\ sat_list rho (pa q) /\ sat_list rho (pg c).
Proof.
  intros W W1 I I1 Hc H rho. apply (proj2 (C02_poly c c1 add sp od q st W W1 I I1 H) rho).
  intros _. apply Hc.
Qed.

(* (iii) an oracle / data for which `refines` is exact: the plain C02 *)
Corollary C02_poly_exact (c c1 : pcontract O) add sp od q st :
  (forall x y, poly_refines O x y = inl true -> forall rho, sat_list rho x -> sat_list rho y) ->
  wfpc c -> wfpc c1 -> ifpc c -> ifpc c1 ->
  poly_quotient_tactics O c c1 add sp od = inl (q, st) ->
  forall rho, sat_list rho (pa c) ->
    (sat_list rho (pa c1) -> sat_list rho (pg c1)) ->
    (sat_list rho (pa q) -> sat_list rho (pg q)) ->
    sat_list rho (pa c1) /\ sat_list rho (pa q) /\ sat_list rho (pg c).
Proof.
  intros Hex W W1 I I1 H rho. apply (proj2 (C02_poly c c1 add sp od q st W W1 I I1 H) rho).
  intros E. exact (Hex _ _ E rho).
Qed.

(* (iv) what the tolerance costs: by PolyFacts.refines_sound a True answer guarantees the
   divisor's assumptions up to REFINEMENT_TOLERANCE; so the obligation can only fail at
   behaviours that satisfy the dividend's assumptions and lie in the tolerance band of the
   divisor's assumptions without satisfying them *)
Corollary C02_poly_tolerant (c c1 : pcontract O) add sp od q st :
  wfpc c -> wfpc c1 -> ifpc c -> ifpc c1 ->
  all_have_vars (pa c) = true -> all_have_vars (pa c1) = true -> small_consts (pa c1) ->
  poly_quotient_tactics O c c1 add sp od = inl (q, st) ->
  forall rho,
    (Forall (sat_tol REFINEMENT_TOLERANCE rho) (pa c1) -> sat_list rho (pa c1)) ->
    sat_list rho (pa c) ->
    (sat_list rho (pa c1) -> sat_list rho (pg c1)) ->
    (sat_list rho (pa q) -> sat_list rho (pg q)) ->
    sat_list rho (pa c1) /\ sat_list rho (pa q) /\ sat_list rho (pg c).
Proof.
  intros W W1 I I1 V V1 Hsm H rho Hband. apply (proj2 (C02_poly c c1 add sp od q st W W1 I I1 H) rho).
  intros E Ha. apply Hband.
  apply (PolyFacts.refines_sound O HO (pa c) (pa c1)); try assumption.
  - split; [apply Forall_pwf_wft; apply W|exact V].
  - split; [apply Forall_pwf_wft; apply W1|exact V1].
Qed.

(* ---------- C08: merge ---------- *)
Theorem C08_poly (c1 c2 m : pcontract O) :
  wfpc c1 -> wfpc c2 -> poly_merge O c1 c2 = inl m ->
  wfpc m /\
  (forall rho, sat_list rho (pa m) <-> sat_list rho (pa c1) /\ sat_list rho (pa c2)) /\
  (forall rho, sat_list rho (pa m) ->
     (sat_list rho (pg m) <-> sat_list rho (pg c1) /\ sat_list rho (pg c2))) /\
  pin m = list_union (pin c1) (pin c2) /\ pout m = list_union (pout c1) (pout c2).
Proof.
  intros W1 W2 H. unfold poly_merge in H.
  destruct (@merge_exact PD val pdt pwf pv poly_spec c1 c2 m W1 W2 H) as [Wm [Ha Hg]].
  split; [exact Wm|]. split; [intros rho; exact (Ha rho)|]. split; [intros rho; exact (Hg rho)|].
  exact (@merge_iface_order PD c1 c2 m H).
Qed.

(* commutativity: the two orders give contracts with the same interface sets and the same meaning *)
Theorem C08_poly_comm (c1 c2 m m' : pcontract O) :
  wfpc c1 -> wfpc c2 -> poly_merge O c1 c2 = inl m -> poly_merge O c2 c1 = inl m' ->
  (forall x, In x (pin m) <-> In x (pin m')) /\ (forall x, In x (pout m) <-> In x (pout m')) /\
  (forall rho, sat_list rho (pa m) <-> sat_list rho (pa m')) /\
  (forall rho, sat_list rho (pa m) -> (sat_list rho (pg m) <-> sat_list rho (pg m'))).
Proof.
  intros W1 W2 H H'.
  destruct (C08_poly c1 c2 m W1 W2 H) as (_ & Ha & Hg & Ei & Eo).
  destruct (C08_poly c2 c1 m' W2 W1 H') as (_ & Ha' & Hg' & Ei' & Eo').
  split; [|split; [|split]].
  - intros x. rewrite Ei, Ei', !in_list_union. tauto.
  - intros x. rewrite Eo, Eo', !in_list_union. tauto.
  - intros rho. rewrite Ha, Ha'. tauto.
  - intros rho Hm. assert (Hm' : sat_list rho (pa m')) by (apply Ha'; apply Ha in Hm; tauto).
    rewrite (Hg rho Hm), (Hg' rho Hm'). tauto.
Qed.

(* ---------- C15 (merge): no guarantee of either operand is lost ---------- *)
Theorem C15_merge_poly (c1 c2 m : pcontract O) :
  wfpc c1 -> wfpc c2 -> poly_merge O c1 c2 = inl m ->
  forall t, In t (pg c1) \/ In t (pg c2) ->
  forall rho, sat_list rho (pa m) -> sat_list rho (pg m) -> sat rho t.
Proof.
  intros W1 W2 H t Ht rho Ha Hg.
  destruct (C08_poly c1 c2 m W1 W2 H) as (_ & _ & Hgm & _).
  apply (Hgm rho Ha) in Hg. destruct Hg as [G1 G2]. unfold sat_list in *. rewrite Forall_forall in *.
  destruct Ht as [Ht|Ht]; [apply G1|apply G2]; exact Ht.
Qed.

(* ---------- C16: renaming ---------- *)
(* the substitution a renaming s -> u performs on behaviours: the renamed contract at rho is the
   original one at the valuation that reads u where the original read s *)
Definition sigma (s u : var) (rho : val) : val := fun v => if String.eqb v s then rho u else rho v.
(* rename_variables applies the mappings in order; on behaviours they compose the other way round *)
Definition sigmas (ms : list (var * var)) (rho : val) : val :=
  fold_right (fun m r => sigma (fst m) (snd m) r) rho ms.

Lemma sat_sigma_absent t s u rho : ~ In s (term_vars_p t) -> (sat (sigma s u rho) t <-> sat rho t).
Proof.
  intros Hs. unfold sat. rewrite (lin_ext_keys (sigma s u rho) rho (tvars t)); [tauto|].
  intros x Hx. unfold sigma. destruct (String.eqb x s) eqn:E; [|reflexivity].
  apply String.eqb_eq in E. subst. contradiction.
Qed.
Lemma sat_list_sigma_absent l s u rho :
  ~ In s (tl_vars l) -> (sat_list (sigma s u rho) l <-> sat_list rho l).
Proof.
  intros Hs. unfold sat_list. rewrite !Forall_forall. split; intros H t Ht.
  - apply (sat_sigma_absent t s u rho); [|apply H; exact Ht].
    intros Hi. apply Hs. apply in_tl_vars. exists t. tauto.
  - apply (sat_sigma_absent t s u rho); [|apply H; exact Ht].
    intros Hi. apply Hs. apply in_tl_vars. exists t. tauto.
Qed.
Lemma TermList_rename_poly l s u :
  @TermList_rename_variable PD l s u = map (fun t => term_rename_variable t s u) l.
Proof. unfold TermList_rename_variable. rewrite TermList_init_Some. reflexivity. Qed.
Lemma sat_list_rename l s u rho :
  Forall wft l -> s <> u ->
  (sat_list rho (@TermList_rename_variable PD l s u) <-> sat_list (sigma s u rho) l).
Proof.
  intros Hl Hsu. rewrite TermList_rename_poly. unfold sat_list.
  induction Hl as [|t l Ht _ IH]; cbn [map]; [split; constructor|].
  rewrite !Forall_cons_iff, IH. rewrite (rename_sem t s u Ht Hsu rho). unfold sigma. tauto.
Qed.
Lemma Forall_wft_rename l s u :
  Forall wft l -> Forall wft (@TermList_rename_variable PD l s u).
Proof.
  intros Hl. rewrite TermList_rename_poly. apply Forall_forall. intros t Ht.
  apply in_map_iff in Ht. destruct Ht as [t0 [<- Ht0]]. apply wft_rename_variable.
  rewrite Forall_forall in Hl. apply Hl. exact Ht0.
Qed.

(* the constructor, semantically, for terms that are only known to have distinct keys *)
Lemma init_sem a g i o (c : pcontract O) :
  Forall wft a -> Forall wft g -> poly_init O a g i o true = inl c ->
  pa c = a /\ pin c = i /\ pout c = o /\ Forall wft (pg c) /\
  forall rho, sat_list rho a -> (sat_list rho (pg c) <-> sat_list rho g).
Proof.
  intros Wa Wg H. unfold poly_init in H. apply (@init_inv PD) in H.
  destruct H as (_ & Ea & Ei & Eo & Hs). cbv iota in Hs. change (poly_simplify O g (Some a) = inl (pg c)) in Hs.
  split; [exact Ea|]. split; [exact Ei|]. split; [exact Eo|]. split.
  - apply Forall_wft'_wft. exact (simplify_wft' O g (Some a) (pg c) Wg Wa Hs).
  - intros rho Hr. exact (simplify_equiv_gen O HO g (Some a) (pg c) Wg Wa Hs rho Hr).
Qed.

Theorem C16_poly (c : pcontract O) s u c' :
  s <> u -> @wf PD c -> Forall wft (pa c) -> Forall wft (pg c) ->
  poly_rename O c s u = inl c' ->
  (forall rho, sat_list rho (pa c') <-> sat_list (sigma s u rho) (pa c)) /\
  (forall rho, sat_list rho (pa c') -> (sat_list rho (pg c') <-> sat_list (sigma s u rho) (pg c))).
Proof.
  intros Hsu Hwf Wa Wg H. unfold poly_rename in H.
  destruct (@rename_inv PD c s u c' Hsu H) as (a' & g' & i' & o' & Hinit & Hcase).
  destruct Hcase as [(_ & -> & ->)|(Hi & Ho & -> & -> & -> & ->)].
  - destruct (init_sem _ _ _ _ c' (Forall_wft_rename _ s u Wa) (Forall_wft_rename _ s u Wg) Hinit)
      as (Ea & _ & _ & _ & Hg).
    rewrite Ea. split.
    + intros rho. apply sat_list_rename; assumption.
    + intros rho Hr. rewrite (Hg rho Hr). apply sat_list_rename; assumption.
  - (* s is on neither side: by well-formedness no term mentions it *)
    destruct Hwf as (_ & _ & _ & Hsa & Hsg).
    assert (Na : ~ In s (tl_vars (pa c))) by (intros Hin; apply Hi; apply Hsa; exact Hin).
    assert (Ng : ~ In s (tl_vars (pg c))) by (intros Hin; destruct (Hsg s Hin); contradiction).
    destruct (init_sem _ _ _ _ c' Wa Wg Hinit) as (Ea & _ & _ & _ & Hg).
    rewrite Ea. split.
    + intros rho. symmetry. apply sat_list_sigma_absent. exact Na.
    + intros rho Hr. rewrite (Hg rho Hr). symmetry. apply sat_list_sigma_absent. exact Ng.
Qed.

(* the interface part is IfaceFacts.rename_iface *)
Theorem C16_poly_iface (c : pcontract O) s u c' :
  @wf PD c -> poly_rename O c s u = inl c' ->
  @wf PD c' /\
  rename_list_spec s u (pin c) (pin c') /\ rename_list_spec s u (pout c) (pout c').
Proof.
  intros Hwf H. split; [exact (@IfaceFacts.rename_wf PD (poly_vars O) c s u c' H)|].
  exact (@rename_iface PD c s u c' Hwf H).
Qed.

(* the invariants are kept (the term invariant needs the new name not to be "_") *)
Theorem C16_poly_wfpc (c : pcontract O) s u c' :
  pv u -> wfpc c -> poly_rename O c s u = inl c' -> wfpc c'.
Proof. intros Hu W H. exact (@rename_wfc PD val pdt pwf pv poly_spec c s u c' Hu W H). Qed.
Lemma rename_keeps_wft (c : pcontract O) s u c' :
  Forall wft (pa c) -> Forall wft (pg c) -> poly_rename O c s u = inl c' ->
  Forall wft (pa c') /\ Forall wft (pg c').
Proof.
  intros Wa Wg H. unfold poly_rename in H. destruct (string_dec s u) as [->|Hsu].
  - (* s = u: nothing is renamed *)
    unfold IoContract_rename_variable in H. open_in H. rewrite !TermList_copy_eq in H.
    assert (Hq : py_eqb u u = true) by (apply String.eqb_refl). rewrite Hq in H. cbn [negb] in H.
    repeat inl_step.
    match goal with Hi : IoContract_init _ _ _ _ _ = inl _ |- _ =>
      destruct (init_sem _ _ _ _ _ Wa Wg Hi) as (Ea & _ & _ & Wg' & _) end.
    rewrite Ea. split; assumption.
  - destruct (@rename_inv PD c s u c' Hsu H) as (a' & g' & i' & o' & Hinit & Hcase).
    destruct Hcase as [(_ & -> & ->)|(_ & _ & -> & -> & _ & _)].
    + destruct (init_sem _ _ _ _ c' (Forall_wft_rename _ s u Wa) (Forall_wft_rename _ s u Wg) Hinit)
        as (Ea & _ & _ & Wg' & _).
      rewrite Ea. split; [apply Forall_wft_rename; exact Wa|exact Wg'].
    + destruct (init_sem _ _ _ _ c' Wa Wg Hinit) as (Ea & _ & _ & Wg' & _). rewrite Ea. split; assumption.
Qed.

(* renaming a name that is on neither side: same interface, same meaning (any new name) *)
Theorem C16_poly_absent (c : pcontract O) s u c' :
  ~ In s (pin c) -> ~ In s (pout c) -> Forall wft (pa c) -> Forall wft (pg c) ->
  poly_rename O c s u = inl c' ->
  pin c' = pin c /\ pout c' = pout c /\ pa c' = pa c /\
  forall rho, sat_list rho (pa c) -> (sat_list rho (pg c') <-> sat_list rho (pg c)).
Proof.
  intros Hi Ho Wa Wg H. unfold poly_rename in H. apply (@rename_absent_inv PD c s u c' Hi Ho) in H.
  destruct (init_sem _ _ _ _ c' Wa Wg H) as (Ea & Ei & Eo & _ & Hg). tauto.
Qed.

(* a new name already used on the other side is refused *)
Theorem C16_poly_clash (c : pcontract O) s u :
  s <> u ->
  (In s (pin c) /\ In u (pout c)) \/ (In s (pout c) /\ ~ In s (pin c) /\ In u (pin c)) ->
  poly_rename O c s u = inr IncompatibleArgs.
Proof. intros Hsu Hbad. exact (@rename_rejects_clash PD c s u Hsu Hbad). Qed.

(* copy: same interface, same assumptions, equivalent guarantees *)
Theorem copy_poly (c c0 : pcontract O) :
  Forall wft (pa c) -> Forall wft (pg c) -> poly_copy O c = inl c0 ->
  pin c0 = pin c /\ pout c0 = pout c /\ pa c0 = pa c /\ Forall wft (pg c0) /\
  forall rho, sat_list rho (pa c) -> (sat_list rho (pg c0) <-> sat_list rho (pg c)).
Proof.
  intros Wa Wg H. unfold poly_copy, IoContract_copy in H. open_in H. rewrite !TermList_copy_eq in H.
  repeat inl_step.
  match goal with Hi : IoContract_init _ _ _ _ _ = inl _ |- _ =>
    destruct (init_sem _ _ _ _ _ Wa Wg Hi) as (Ea & Ei & Eo & Wg' & Hg) end.
  tauto.
Qed.

(* rename_variables: copy, then the mappings in order *)
Lemma fold_rename_inr ms e :
  fold_left (fun acc m => c' <- acc ;; poly_rename O c' (fst m) (snd m)) ms (inr e) = inr e.
Proof. induction ms as [|m ms IH]; [reflexivity|]. cbn [fold_left bind]. exact IH. Qed.

Lemma fold_rename_sem ms : forall (c0 c' : pcontract O),
  Forall (fun m => fst m <> snd m) ms ->
  @wf PD c0 -> Forall wft (pa c0) -> Forall wft (pg c0) ->
  fold_left (fun acc m => c' <- acc ;; poly_rename O c' (fst m) (snd m)) ms (inl c0) = inl c' ->
  (forall rho, sat_list rho (pa c') <-> sat_list (sigmas ms rho) (pa c0)) /\
  (forall rho, sat_list rho (pa c') -> (sat_list rho (pg c') <-> sat_list (sigmas ms rho) (pg c0))).
Proof.
  induction ms as [|[s u] ms IH]; intros c0 c' Hne Hwf Wa Wg H.
  - cbn [fold_left] in H. inversion H; subst c'. cbn [sigmas fold_right]. split; intros; tauto.
  - inversion Hne as [|? ? Hsu Hne']; subst. cbn [fst snd] in Hsu.
    cbn [fold_left bind fst snd] in H.
    destruct (poly_rename O c0 s u) as [c1|e] eqn:R; [|rewrite fold_rename_inr in H; discriminate].
    destruct (C16_poly c0 s u c1 Hsu Hwf Wa Wg R) as [Ha1 Hg1].
    destruct (rename_keeps_wft c0 s u c1 Wa Wg R) as [Wa1 Wg1].
    pose proof (@IfaceFacts.rename_wf PD (poly_vars O) c0 s u c1 R) as Hwf1.
    destruct (IH c1 c' Hne' Hwf1 Wa1 Wg1 H) as [Ha Hg].
    cbn [sigmas fold_right fst snd]. fold (sigmas ms). split.
    + intros rho. rewrite Ha. apply Ha1.
    + intros rho Hr. rewrite (Hg rho Hr). apply Hg1. apply Ha. exact Hr.
Qed.

Theorem C16_poly_variables (c : pcontract O) ms c' :
  Forall (fun m => fst m <> snd m) ms ->
  @wf PD c -> Forall wft (pa c) -> Forall wft (pg c) ->
  poly_rename_variables O c ms = inl c' ->
  (forall rho, sat_list rho (pa c') <-> sat_list (sigmas ms rho) (pa c)) /\
  (forall rho, sat_list rho (pa c') -> (sat_list rho (pg c') <-> sat_list (sigmas ms rho) (pg c))).
Proof.
  intros Hne Hwf Wa Wg H. unfold poly_rename_variables in H.
  destruct (poly_copy O c) as [c0|e] eqn:C; [|rewrite fold_rename_inr in H; discriminate].
  destruct (copy_poly c c0 Wa Wg C) as (Ei & Eo & Ea & Wg0 & Hg0).
  assert (Hwf0 : @wf PD c0) by exact (@copy_wf PD (poly_vars O) c c0 C).
  assert (Wa0 : Forall wft (pa c0)) by (rewrite Ea; exact Wa).
  destruct (fold_rename_sem ms c0 c' Hne Hwf0 Wa0 Wg0 H) as [Ha Hg].
  rewrite Ea in Ha. split; [exact Ha|].
  intros rho Hr. rewrite (Hg rho Hr). apply Hg0. apply Ha. exact Hr.
Qed.

(* swapping two names through a temporary one: on behaviours it is the swap *)
Lemma sigmas_swap x y tmp rho :
  x <> y -> tmp <> x -> tmp <> y ->
  let rho' := sigmas [(x, tmp); (y, x); (tmp, y)] rho in
  rho' x = rho y /\ rho' y = rho x /\ forall v, v <> x -> v <> y -> v <> tmp -> rho' v = rho v.
Proof.
  intros Hxy Htx Hty. cbn [sigmas fold_right fst snd]. unfold sigma.
  assert (E1 : String.eqb x y = false) by (apply String.eqb_neq; exact Hxy).
  assert (E2 : String.eqb tmp x = false) by (apply String.eqb_neq; exact Htx).
  assert (E3 : String.eqb tmp y = false) by (apply String.eqb_neq; exact Hty).
  assert (E1' : String.eqb y x = false) by (apply String.eqb_neq; congruence).
  assert (E2' : String.eqb x tmp = false) by (apply String.eqb_neq; congruence).
  assert (E3' : String.eqb y tmp = false) by (apply String.eqb_neq; congruence).
  rewrite !String.eqb_refl, ?E1, ?E2, ?E3, ?E1', ?E2', ?E3', ?String.eqb_refl.
  split; [reflexivity|]. split; [reflexivity|].
  intros v H1 H2 H3. apply String.eqb_neq in H1, H2, H3. rewrite H1, H2, H3. reflexivity.
Qed.

(* ---------- the results can be fed back: a "good" polyhedral contract ---------- *)
(* what a PolyhedralIoContract built by the Python constructor is, provided the name "_" is not
   used in its interface: interface-well-formed (IfaceSpec.wf: the constructor's checks), terms
   as PolyhedralTerm.__init__ leaves them, no "_" *)
Definition good_pc (c : pcontract O) : Prop :=
  @wf PD c /\ Forall wft' (pa c) /\ Forall wft' (pg c) /\ ~ In us (pin c) /\ ~ In us (pout c).

Lemma Forall_pv_iff l : Forall pv l <-> ~ In us l.
Proof.
  unfold pv. rewrite Forall_forall. split.
  - intros H Hi. exact (H us Hi eq_refl).
  - intros H x Hx E. subst. contradiction.
Qed.

Lemma good_pc_iff c : good_pc c <-> (@wf PD c /\ wfpc c /\ ifpc c).
Proof.
  unfold good_pc, wfpc, ifpc. rewrite !Forall_pv_iff. split.
  - intros (Hwf & Wa & Wg & Ui & Uo). split; [exact Hwf|]. destruct Hwf as (N1 & N2 & _ & Hsa & Hsg).
    split; [split|tauto].
    + rewrite Forall_forall in *. intros t Ht. split; [apply Wa; exact Ht|].
      intros Hin. apply Ui. apply Hsa. apply in_tl_vars. exists t. tauto.
    + rewrite Forall_forall in *. intros t Ht. split; [apply Wg; exact Ht|].
      intros Hin. assert (Hv : In us (tl_vars (pg c))) by (apply in_tl_vars; exists t; tauto).
      destruct (Hsg us Hv); contradiction.
  - intros (Hwf & [Wa Wg] & (_ & _ & Ui & Uo)). split; [exact Hwf|].
    split; [apply Forall_pwf_wft'; exact Wa|]. split; [apply Forall_pwf_wft'; exact Wg|]. tauto.
Qed.

Theorem compose_good_pc (c1 c2 : pcontract O) keep sp od c st :
  good_pc c1 -> good_pc c2 -> NoDup (opt_list keep) ->
  poly_compose_tactics O c1 c2 keep sp od = inl (c, st) -> good_pc c.
Proof.
  intros G1 G2 Nk H. apply good_pc_iff in G1. destruct G1 as (F1 & W1 & I1).
  apply good_pc_iff in G2. destruct G2 as (F2 & W2 & I2). apply good_pc_iff.
  pose proof (proj1 (C01_poly c1 c2 keep sp od c st W1 W2 I1 I2 Nk H)) as Wc.
  unfold poly_compose_tactics in H.
  pose proof (@compose_wf PD (poly_vars O) _ _ _ _ _ _ _ H) as Fc.
  split; [exact Fc|]. split; [exact Wc|].
  destruct (@compose_iface PD _ _ _ _ _ _ _ F1 F2 H) as [[_ Hi] [_ Ho]]. cbn [opt_list] in Ho.
  destruct I1 as (_ & _ & Pi1 & Po1). destruct I2 as (_ & _ & Pi2 & Po2).
  rewrite Forall_pv_iff in *.
  destruct Fc as (N1 & N2 & _). unfold ifpc. rewrite !Forall_pv_iff.
  split; [exact N1|]. split; [exact N2|]. split.
  - intros Hin. apply Hi in Hin. tauto.
  - intros Hin. apply Ho in Hin. destruct Hin as [Hin|[Hin|Hin]]; [tauto|tauto|].
    (* a kept variable is an output of one of the operands, or composition is refused *)
    destruct (in_dec string_dec us (pout c1)) as [D1|D1]; [tauto|].
    destruct (in_dec string_dec us (pout c2)) as [D2|D2]; [tauto|].
    assert (Hbad : @keeps_non_output PD c1 c2 (opt_list (Some (opt_list keep)))) by (exists us; cbn [opt_list]; tauto).
    rewrite (@compose_rejects_keep PD c1 c2 (Some (opt_list keep)) sp (poly_order od) Hbad) in H. discriminate.
Qed.

Theorem quotient_good_pc (c c1 : pcontract O) add sp od q st :
  good_pc c -> good_pc c1 ->
  poly_quotient_tactics O c c1 add sp od = inl (q, st) -> good_pc q.
Proof.
  intros G G1 H. apply good_pc_iff in G. destruct G as (F & W & I).
  apply good_pc_iff in G1. destruct G1 as (F1 & W1 & I1). apply good_pc_iff.
  pose proof (proj1 (C02_poly c c1 add sp od q st W W1 I I1 H)) as Wq.
  unfold poly_quotient_tactics in H.
  pose proof (@quotient_wf PD (poly_vars O) _ _ _ _ _ _ _ H) as Fq.
  split; [exact Fq|]. split; [exact Wq|].
  destruct (@quotient_iface PD _ _ _ _ _ _ _ F F1 H) as [[_ Hi] [_ Ho]].
  destruct I as (_ & _ & Pi & Po). destruct I1 as (_ & _ & Pi1 & Po1).
  rewrite Forall_pv_iff in *.
  destruct Fq as (N1 & N2 & _). unfold ifpc. rewrite !Forall_pv_iff.
  split; [exact N1|]. split; [exact N2|]. split.
  - intros Hin. apply Hi in Hin. destruct Hin as [Hin|[Hin|Hin]]; [tauto|tauto|].
    (* an additional input is an input of the dividend or an output of the divisor, or the quotient is refused *)
    destruct (in_dec string_dec us (pin c)) as [D1|D1]; [tauto|].
    destruct (in_dec string_dec us (pout c1)) as [D2|D2]; [tauto|].
    assert (Hbad : @bad_additional_inputs PD c c1 (opt_list add)) by (exists us; tauto).
    rewrite (@quotient_rejects_additional PD c c1 add sp (poly_order od) Hbad) in H. discriminate.
  - intros Hin. apply Ho in Hin. tauto.
Qed.

Theorem merge_good_pc (c1 c2 m : pcontract O) :
  good_pc c1 -> good_pc c2 -> poly_merge O c1 c2 = inl m -> good_pc m.
Proof.
  intros G1 G2 H. apply good_pc_iff in G1. destruct G1 as (F1 & W1 & I1).
  apply good_pc_iff in G2. destruct G2 as (F2 & W2 & I2). apply good_pc_iff.
  destruct (C08_poly c1 c2 m W1 W2 H) as (Wm & _ & _ & Ei & Eo).
  pose proof (@merge_wf PD (poly_vars O) _ _ _ H) as Fm.
  split; [exact Fm|]. split; [exact Wm|].
  destruct I1 as (_ & _ & Pi1 & Po1). destruct I2 as (_ & _ & Pi2 & Po2).
  rewrite Forall_pv_iff in *.
  destruct Fm as (N1 & N2 & _). unfold ifpc. rewrite !Forall_pv_iff.
  split; [exact N1|]. split; [exact N2|]. rewrite Ei, Eo, !in_list_union. tauto.
Qed.

Theorem rename_good_pc (c : pcontract O) s u c' :
  u <> us -> good_pc c -> poly_rename O c s u = inl c' -> good_pc c'.
Proof.
  intros Hu G H. apply good_pc_iff in G. destruct G as (F & W & I). apply good_pc_iff.
  destruct (C16_poly_iface c s u c' F H) as (F' & Ri & Ro).
  split; [exact F'|]. split; [exact (C16_poly_wfpc c s u c' Hu W H)|].
  destruct I as (Ni & No & Pi & Po). rewrite Forall_pv_iff in *.
  destruct F' as (N1 & N2 & _). unfold ifpc. rewrite !Forall_pv_iff.
  split; [exact N1|]. split; [exact N2|].
  assert (K : forall l l', NoDup l -> ~ In us l -> rename_list_spec s u l l' -> ~ In us l').
  { intros l l' Nl Ul [Habs Hpres] Hin. destruct (in_dec string_dec s l) as [D|D].
    - destruct (Hpres D Nl) as [_ Hx]. apply Hx in Hin. destruct Hin as [[Hin _]|Hin]; [contradiction|].
      apply Hu. symmetry. exact Hin.
    - rewrite (Habs D) in Hin. contradiction. }
  split; [exact (K _ _ Ni Pi Ri)|exact (K _ _ No Po Ro)].
Qed.

(* the constructor itself: terms as __init__ leaves them, "_" not in the interface *)
Theorem init_good_pc a g i o sp (c : pcontract O) :
  Forall wft' a -> Forall wft' g -> ~ In us i -> ~ In us o ->
  poly_init O a g i o sp = inl c -> good_pc c.
Proof.
  intros Wa Wg Ui Uo H. unfold poly_init in H.
  destruct (@init_wf PD (poly_vars O) a g i o sp c H) as (Fc & Ei & Eo & Ea).
  apply (@init_inv PD) in H. destruct H as (_ & _ & _ & _ & Hs).
  split; [exact Fc|]. rewrite Ea, Ei, Eo. split; [exact Wa|]. split; [|tauto].
  destruct sp; [|rewrite Hs; exact Wg].
  exact (simplify_wft' O g (Some a) (pg c) (Forall_wft'_wft _ Wg) (Forall_wft'_wft _ Wa) Hs).
Qed.

End PolyAlgebra.

(* ------------------------------------------------------------------ *)
(** * 7. non-vacuity: the hypotheses are satisfiable and the operations run *)
Module Examples.
Local Open Scope string_scope.
(* a solver that never reaches a verdict meets lp_spec vacuously; simplify then keeps every row.
   (A quotient cannot be run with it: `refines` needs verdicts.) *)
Definition keepO : oracle := fun _ => LpOther 0.
Lemma keepO_spec : lp_spec 0 keepO.
Proof. intros p. exact I. Qed.

(* x --e1--> y --e2--> z :   e1: x <= 1 |- y <= x      e2: y <= 2 |- z <= y *)
Definition e1 : pcontract keepO :=
  mk_pc keepO [mkT [("x", 1%Q)] 1%Q] [mkT [("y", 1%Q); ("x", (-1)%Q)] 0%Q] ["x"] ["y"].
Definition e2 : pcontract keepO :=
  mk_pc keepO [mkT [("y", 1%Q)] 2%Q] [mkT [("z", 1%Q); ("y", (-1)%Q)] 0%Q] ["y"] ["z"].
(* the composition computed by the model: x <= 2, x <= 1 |- z <= x *)
Definition e12 : pcontract keepO :=
  mk_pc keepO [mkT [("x", 1%Q)] 2%Q; mkT [("x", 1%Q)] 1%Q] [mkT [("x", (-1)%Q); ("z", 1%Q)] 0%Q] ["x"] ["z"].
(* e1 with x and y swapped *)
Definition e1_swapped : pcontract keepO :=
  mk_pc keepO [mkT [("y", 1%Q)] 1%Q] [mkT [("x", 1%Q); ("y", (-1)%Q)] 0%Q] ["y"] ["x"].

Ltac nodup_var := apply has_dup_false; reflexivity.
Ltac wft'_one :=
  split; [unfold wft; cbn; nodup_var
         |repeat (apply Forall_cons; [cbn; intros H; discriminate H|]); apply Forall_nil].
Ltac wft'_concrete := repeat (apply Forall_cons; [wft'_one|]); apply Forall_nil.
Ltac good_concrete :=
  unfold good_pc, wf, wf_args, subset, disjoint; cbn;
  repeat split; try nodup_var; try wft'_concrete;
  intros; cbn in *; intuition (subst; try discriminate; auto).

Lemma e1_good : good_pc keepO e1.
Proof. good_concrete. Qed.
Lemma e2_good : good_pc keepO e2.
Proof. good_concrete. Qed.

(* [vm_compute] must not see the type [pcontract keepO] (it would normalise the bodies of the
   domain's primitives): compare fields, at types that do not mention the domain *)
Lemma pc_fields_inj {O} (c d : pcontract O) : pc_fields c = pc_fields d -> c = d.
Proof. destruct c, d. unfold pc_fields. cbn. intros H. inversion H. reflexivity. Qed.
Lemma run_eq {O} (m : M (pcontract O)) d :
  match m with inl c => pc_fields c = pc_fields d | inr _ => False end -> m = inl d.
Proof. destruct m as [c|e]; [|contradiction]. intros H. f_equal. apply pc_fields_inj. exact H. Qed.
Lemma run_eq_st {O} (m : M (pcontract O * list stats)) d :
  match m with inl (c, _) => pc_fields c = pc_fields d | inr _ => False end -> exists st, m = inl (d, st).
Proof.
  destruct m as [[c st]|e]; [|contradiction]. intros H. exists st. do 2 f_equal. apply pc_fields_inj. exact H.
Qed.

Example ex_compose_runs : exists st, poly_compose_tactics keepO e1 e2 None true None = inl (e12, st).
Proof. apply run_eq_st. vm_compute. reflexivity. Qed.

(* C01 on this instance *)
Example ex_compose_meaning : forall rho,
  sat_list rho (@c_a (poly_domain keepO) e12) ->
  (sat_list rho (@c_a (poly_domain keepO) e1) -> sat_list rho (@c_g (poly_domain keepO) e1)) ->
  (sat_list rho (@c_a (poly_domain keepO) e2) -> sat_list rho (@c_g (poly_domain keepO) e2)) ->
  sat_list rho (@c_a (poly_domain keepO) e1) /\ sat_list rho (@c_a (poly_domain keepO) e2) /\
  sat_list rho (@c_g (poly_domain keepO) e12).
Proof.
  destruct ex_compose_runs as [st Hst].
  destruct (proj1 (good_pc_iff keepO e1) e1_good) as (_ & W1 & I1).
  destruct (proj1 (good_pc_iff keepO e2) e2_good) as (_ & W2 & I2).
  exact (proj2 (C01_poly keepO keepO_spec e1 e2 None true None e12 st W1 W2 I1 I2 (NoDup_nil _) Hst)).
Qed.
Example ex_compose_good : good_pc keepO e12.
Proof.
  destruct ex_compose_runs as [st Hst].
  exact (compose_good_pc keepO keepO_spec e1 e2 None true None e12 st e1_good e2_good (NoDup_nil _) Hst).
Qed.

Example ex_merge_runs : poly_merge keepO e1 e1 = inl e1.
Proof. apply run_eq. vm_compute. reflexivity. Qed.

(* swapping x and y through the temporary name t *)
Example ex_swap_runs :
  poly_rename_variables keepO e1 [("x", "t"); ("y", "x"); ("t", "y")] = inl e1_swapped.
Proof. apply run_eq. vm_compute. reflexivity. Qed.
Example ex_swap_meaning : forall rho,
  sat_list rho (@c_a (poly_domain keepO) e1_swapped) <->
  sat_list (sigmas [("x", "t"); ("y", "x"); ("t", "y")] rho) (@c_a (poly_domain keepO) e1).
Proof.
  destruct e1_good as (Hwf & Wa & Wg & _).
  apply (C16_poly_variables keepO keepO_spec e1 _ e1_swapped).
  - repeat constructor; cbn; intros H; discriminate H.
  - exact Hwf.
  - apply Forall_wft'_wft. exact Wa.
  - apply Forall_wft'_wft. exact Wg.
  - exact ex_swap_runs.
Qed.
(* renaming onto a name of the other side is refused *)
Example ex_rename_clash : poly_rename keepO e1 "x" "y" = inr IncompatibleArgs.
Proof. apply (C16_poly_clash keepO e1 "x" "y"); [discriminate|]. left. cbn. tauto. Qed.
End Examples.

Print Assumptions poly_spec.
Print Assumptions poly_vars.
Print Assumptions C01_poly.
Print Assumptions C02_poly.
Print Assumptions C02_poly_refines_not_true.
Print Assumptions C02_poly_contained.
Print Assumptions C02_poly_tolerant.
Print Assumptions C08_poly.
Print Assumptions C08_poly_comm.
Print Assumptions C15_merge_poly.
Print Assumptions C16_poly.
Print Assumptions C16_poly_variables.
Print Assumptions compose_good_pc.
Print Assumptions quotient_good_pc.
Print Assumptions Examples.ex_compose_meaning.
