(* CompoundGenFacts.v — the obligations that tie the hand model of compound contracts
   (model/Compound.v) to the code: translator/py2coq.py renders NestedTermList and IoContractCompound of
   src/pacti/iocontract/compundiocontract.py into gen/CompoundGen.v on every run, GENERICALLY in the
   term-list type (class TLDomain of base/PyLoop.v: |, is_empty, <=, simplify(context),
   contains_behavior, copy, vars).  Here the primitives are instantiated with the polyhedral ones
   ([poly_tl O] of CompoundGenBase.v: tl_or / tl_copy of model/Compound.v, poly_is_empty O,
   poly_refines O, poly_simplify O _ (Some _), contains_behavior, tl_vars) and every generated function
   is proved EQUAL to the hand model, pointwise on the monadic results (values AND error kinds):

     nested_init_eq        NestedTermList_init alts force              = nested_init O alts force
     nested_le_eq          NestedTermList_le a b                       = nested_le O a b
     nested_eqb_eq         NestedTermList_eq a b                       = nested_eqb O a b
     nested_vars_eq        NestedTermList_vars a                       = nested_vars a
     nested_copy_eq        NestedTermList_copy a force                 = nested_copy O a force
     nested_simplify_eq    NestedTermList_simplify a ctx force         = nested_simplify O a ctx force
     nested_intersect_eq   NestedTermList_intersect a b force          = nested_intersect O a b force
     nested_contains_eq    NestedTermList_contains_behavior a beh      = nested_contains a beh
     compound_init_eq      mmap to_compound (IoContractCompound_init a g i o) = compound_init O a g i o
     compound_eqb_eq       IoContractCompound_eq k1 k2                 = compound_eqb O (to_compound k1) (to_compound k2)
     compound_merge_eq     mmap to_compound (IoContractCompound_merge k1 k2)
                                                                      = compound_merge O (to_compound k1) (to_compound k2)

   No well-formedness precondition is needed: the hand model and the code agree on EVERY input
   (including term lists with repeated dictionary keys or stored zero coefficients, because copy() and |
   are the same primitives on both sides).  [to_compound] is the bijection between the generated record
   kcontract and the hand-written record compound ([to_of_compound], [of_to_compound]).

   A semantic change of a method changes gen/CompoundGen.v and one of these proofs stops compiling
   (harness/compgen_mutations.py).  NOT translated: __str__ / __repr__ (printing only).
   The files are split (CompoundGenNested.v, CompoundGenContract.v; the wrappers of
   polyhedral_iocontract.py are in WrapGenFacts.v) so that a change of one method breaks only the
   obligations that depend on it. *)
Require Export CompoundGenBase CompoundGenNested CompoundGenContract.
Require Import Py PyLoop Poly Compound CompoundGen.

Goal forall O alts force, @NestedTermList_init (poly_tl O) alts force = nested_init O alts force.
Proof. exact nested_init_eq. Qed.
Goal forall O a b, @NestedTermList_le (poly_tl O) a b = nested_le O a b.
Proof. exact nested_le_eq. Qed.
Goal forall O a b, @NestedTermList_eq (poly_tl O) a b = nested_eqb O a b.
Proof. exact nested_eqb_eq. Qed.
Goal forall O a, @NestedTermList_vars (poly_tl O) a = nested_vars a.
Proof. exact nested_vars_eq. Qed.
Goal forall O a force, @NestedTermList_copy (poly_tl O) a force = nested_copy O a force.
Proof. exact nested_copy_eq. Qed.
Goal forall O a ctx force,
         @NestedTermList_simplify (poly_tl O) a ctx force = nested_simplify O a ctx force.
Proof. exact nested_simplify_eq. Qed.
Goal forall O a b force,
         @NestedTermList_intersect (poly_tl O) a b force = nested_intersect O a b force.
Proof. exact nested_intersect_eq. Qed.
Goal forall O a b, @NestedTermList_contains_behavior (poly_tl O) a b = nested_contains a b.
Proof. exact nested_contains_eq. Qed.
Goal forall O a g i o,
         mmap to_compound (@IoContractCompound_init (poly_tl O) a g i o) = compound_init O a g i o.
Proof. exact compound_init_eq. Qed.
Goal forall O k1 k2,
         @IoContractCompound_eq (poly_tl O) k1 k2 = compound_eqb O (to_compound k1) (to_compound k2).
Proof. exact compound_eqb_eq. Qed.
Goal forall O k1 k2,
         mmap to_compound (@IoContractCompound_merge (poly_tl O) k1 k2)
         = compound_merge O (to_compound k1) (to_compound k2).
Proof. exact compound_merge_eq. Qed.

Print Assumptions nested_init_eq.
Print Assumptions nested_simplify_eq.
Print Assumptions nested_intersect_eq.
Print Assumptions compound_merge_eq.
