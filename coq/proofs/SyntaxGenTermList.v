(* SyntaxGenTermList.v — T1 tie, data.py class PolyhedralSyntaxTermList: is_positive, negate, add,
   to_polyhedral_term (gen/SyntaxGen.v) against stl_is_positive, stl_negate, stl_add, stl_to_pterm (model/Syntax.v).
   add and is_positive are equal on EVERY input; negate and to_polyhedral_term build a dict item by item and
   are equal when the association list denotes a dict (pairwise distinct keys: gwfs) — Examples at the end show
   that the hypothesis is necessary (and is an artefact of association lists, not a behaviour of the Python). *)
From Coq Require Import List String Bool QArith ZArith Lia.
Import ListNotations.
Require Import Py ListsGen Sem PyDict PyLoop PySyntax Term Ast Syntax TermGen SyntaxGen.
Require Import ListsFacts TermFacts TermGenBase TermGenCore SyntaxFacts SyntaxGenBase.
Open Scope py_scope.
Local Open Scope Q_scope.

(** is_positive : unconditional.  `sorted(self.factors)[0]` raises IndexError on an empty dict, and
    `self.factors[var]` never raises KeyError *)
Theorem stl_is_positive_eq t : PolyhedralSyntaxTermList_is_positive t = stl_is_positive (to_stl t).
Proof.
  unfold PolyhedralSyntaxTermList_is_positive, stl_is_positive, qgt. cbn [sconst sfactors to_stl].
  destruct (qlt 0 (gconst t)); [reflexivity|]. destruct (qlt (gconst t) 0); [reflexivity|].
  rewrite py_sorted_keys. pose proof (head_ok_sort (gfactors t)) as Hh.
  destruct (sort_by_name (gfactors t)) as [|[k q] r].
  - change (keys []) with (@nil var). rewrite py_index_nil. reflexivity.
  - change (keys ((k, q) :: r)) with (k :: keys r). rewrite py_index_0. cbn [bind ret].
    destruct Hh as [Ha _]. rewrite (dict_get_in _ _ _ Ha). reflexivity.
Qed.

(** negate *)
Theorem stl_negate_eq t : gwfs t -> to_stl (PolyhedralSyntaxTermList_negate t) = stl_negate (to_stl t).
Proof.
  intros Hwf. unfold PolyhedralSyntaxTermList_negate, stl_negate, to_stl. cbv zeta.
  (* the negated dict is built item by item, by an explicit loop or by a dict comprehension: the same loop *)
  try unfold dict_comp, for_items.
  cbn [gconst gfactors sconst sfactors]. f_equal.
  rewrite (for_list_fold (fun a p => dict_set a (fst p) (qneg (snd p)))).
  - rewrite (fold_set_map qneg (gfactors t) dict_empty Hwf). reflexivity.
  - intros a [f v] _. reflexivity.
Qed.
Corollary stl_negate_of t : gwfs t -> PolyhedralSyntaxTermList_negate t = of_stl (stl_negate (to_stl t)).
Proof. intros H. rewrite <- (stl_negate_eq t H), of_to_stl. reflexivity. Qed.

(** add : unconditional; `fs[f]` and `fs.pop(f)` never raise KeyError *)
Lemma dict_pop_dict_set l k q : dict_pop (dict_set l k q) k = dict_pop l k.
Proof.
  unfold dict_pop. induction l as [|[k' q'] r IH]; cbn [dict_set filter fst].
  - rewrite String.eqb_refl. reflexivity.
  - destruct (String.eqb k' k) eqn:E; cbn [filter fst]; rewrite E; cbn [negb]; [reflexivity|]. rewrite IH. reflexivity.
Qed.
Lemma has_key_dict_set l k q : has_key k (dict_set l k q) = true.
Proof. unfold has_key. rewrite assoc_dict_set_same. reflexivity. Qed.

Theorem stl_add_ret a b :
  PolyhedralSyntaxTermList_add a b = ret (of_stl (stl_add (to_stl a) (to_stl b))).
Proof.
  unfold PolyhedralSyntaxTermList_add, stl_add, of_stl, to_stl. cbv zeta. cbn [sconst sfactors].
  rewrite (for_list_m_fold add_factor).
  - reflexivity.
  - intros fs [f v] _. unfold add_factor, has_key. cbn [fst snd].
    destruct (assoc f fs) as [q|] eqn:E; [|reflexivity].
    rewrite (dict_get_in _ _ _ E). cbn [bind ret].
    rewrite (dict_get_in _ _ _ (assoc_dict_set_same fs f (qadd q v))). cbn [bind ret].
    unfold float_repr_is, float_repr, qzero.
    destruct (Qeq_bool (qadd q v) 0) eqn:Z.
    + unfold dict_pop_m. rewrite has_key_dict_set. cbn [bind ret]. rewrite dict_pop_dict_set. reflexivity.
    + reflexivity.
Qed.
Theorem stl_add_eq a b : mmap to_stl (PolyhedralSyntaxTermList_add a b) = ret (stl_add (to_stl a) (to_stl b)).
Proof. rewrite stl_add_ret. cbn [mmap ret]. rewrite to_of_stl. reflexivity. Qed.

(** to_polyhedral_term : through the translated PolyhedralTerm.__init__ of gen/TermGen.v *)
Theorem stl_to_polyhedral_term_eq t :
  gwfs t -> PolyhedralSyntaxTermList_to_polyhedral_term t = stl_to_pterm (to_stl t).
Proof.
  intros H. unfold PolyhedralSyntaxTermList_to_polyhedral_term, stl_to_pterm. cbv zeta. cbn [sconst sfactors to_stl].
  change (fun (k : var) (v : Q) => Var k) with (fun (k : var) (_ : Q) => k).
  rewrite (dict_comp_map (fun _ _ => true) (fun _ v => v) (gfactors t) H).
  rewrite filter_true, map_pair_eta. apply init_eq. exact H.
Qed.

(** well-formedness is preserved (used by the callers) *)
Lemma gwfs_of s : wfs s -> gwfs (of_stl s).
Proof. intros H. exact H. Qed.

(* ------------------------------------------------------------------ *)
(** * The hypothesis gwfs is necessary (association lists with a repeated key denote no dict) *)
Local Open Scope string_scope.
Example negate_repeated_key :
  to_stl (PolyhedralSyntaxTermList_negate (mkG 0 [("x", 1); ("x", 2 # 1)])) = mkSTL 0 [("x", -2 # 1)]
  /\ stl_negate (mkSTL 0 [("x", 1); ("x", 2 # 1)]) = mkSTL 0 [("x", -1 # 1); ("x", -2 # 1)].
Proof. split; reflexivity. Qed.
Example to_polyhedral_term_repeated_key :
  PolyhedralSyntaxTermList_to_polyhedral_term (mkG 0 [("x", 1); ("x", 2 # 1)]) = mkT [("x", 2 # 1)] 0
  /\ stl_to_pterm (mkSTL 0 [("x", 1); ("x", 2 # 1)]) = mkT [("x", 1); ("x", 2 # 1)] 0.
Proof. split; reflexivity. Qed.
