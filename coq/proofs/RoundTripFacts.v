(* RoundTripFacts.v — the STRING-level round trip of the printer (C10):
     list of terms --Printer.to_str_list--> strings --Grammar.parse_expr--> trees --Syntax.fold_expr--> terms.
   PrinterFacts.v stops at the syntax tree each printed string "spells" (Printer.item_ast); this file proves
   that the character-level PEG model of the pyparsing grammar reads every printed string back to exactly
   that tree (literals as reduced fractions, RoundTrip.norm_expr), that the folding parse actions accept it,
   and hence that parsing all printed strings gives terms with the meaning PrinterFacts computed.

   A.  digit strings; the float literal d[.f]e(+|-)dd against fpn_raw and literal_value
   B.  format(x, ".4g") is a number token of the grammar spelling round4 x            (fmt4_numtok)
       fixed notation: 72 000 strings checked by computation, then GrammarFacts.stable_fpn_raw;
       scientific notation: 9 000 mantissas by computation, the exponent (any number of digits) in general
   C.  tokens: variables, number followed by a blank
   D.  combinator steps (alt/bind/opt on a known outcome)
   E.  one printed term  "x" | "2.5 x" | "3"  against p_term / coef                  (term_at)
   F.  signs and lists of signed terms against terms / multi_paren_abs_or_terms       (terms_at, multi_at)
   G.  the three printed forms  "LHS <= c", "LHS = c", "|LHS| <= c"  against expression
   H.  what _lhs_str prints, as a list of pieces
   I.  one emitted string                                                             (item_roundtrip)
   J.  reducing the literals of a tree does not change its meaning                    (eden_norm)
   K.  fold_expr accepts the printed trees                                            (item_fold_ok)
   L.  the list-level theorems                                                        (strings_roundtrip,
       parse_all_printed, parse_all_printed_rounded, _rounded_terms, _exact)

   Preconditions, both necessary (see props/C10b.v for the counterexamples):
     printable ts   — no emitted string is outside the grammar ("|LHS| = 0", empty left-hand side " <= c");
     vars_valid ts  — every variable name is a Word(alphas, alphanums + "_") of the grammar; the printer writes
                      dictionary keys verbatim, so "_x", "x.y", "1x" are rejected when read back and
                      "x-y", "y + z", "" are read back with a different meaning. *)
From Coq Require Import List String Ascii Bool NArith ZArith QArith Qabs Qreduction Arith Lia Permutation.
Import ListNotations.
Require Import Py Sem Term ConstGen TermFacts Ast Grammar GrammarFacts Printer PrinterFacts RoundTrip.
Local Open Scope string_scope.

(* ================================================================ A. digit strings *)
Fixpoint dval (s : string) (acc : Z) : Z :=
  match s with
  | EmptyString => acc
  | String c r => dval r (10 * acc + Grammar.digit_val c)%Z
  end.
Definition nd_head (x : string) : Prop :=
  match x with EmptyString => True | String c _ => is_digit c = false end.

Lemma app_nil_r_s (a : string) : a ++ "" = a.
Proof. induction a as [|c a IH]; simpl; [reflexivity|now rewrite IH]. Qed.

Lemma tw_all f d x : sall f d = true ->
  match x with EmptyString => True | String c _ => f c = false end ->
  take_while f (d ++ x) = (d, x).
Proof.
  induction d as [|a d IH]; simpl; intros Hd Hx.
  - destruct x as [|c x]; [reflexivity|]. simpl. rewrite Hx. reflexivity.
  - apply andb_true_iff in Hd as [Ha Hd]. rewrite Ha, (IH Hd Hx). reflexivity.
Qed.

Lemma digits1_app d x : d <> "" -> sall is_digit d = true -> nd_head x -> digits1 (d ++ x) = ROk d x.
Proof.
  intros Hne Hd Hx. unfold digits1. rewrite (tw_all is_digit d x Hd Hx).
  destruct d; [congruence|reflexivity].
Qed.

Lemma read_digits_app d x : sall is_digit d = true -> nd_head x -> forall acc cnt,
  read_digits (d ++ x) acc cnt = (dval d acc, (cnt + String.length d)%nat, x).
Proof.
  intros Hd Hx. induction d as [|a d IH]; simpl; intros acc cnt.
  - rewrite Nat.add_0_r. destruct x as [|c x]; [reflexivity|]. simpl in *. rewrite Hx. reflexivity.
  - simpl in Hd. apply andb_true_iff in Hd as [Ha Hd]. rewrite Ha, (IH Hd). do 2 f_equal. lia.
Qed.

Definition dotf (f : string) : string := match f with EmptyString => "" | _ => String "." f end.

Lemma mantissa_e d f y : d <> "" -> sall is_digit d = true -> sall is_digit f = true ->
  fpn_mantissa (d ++ dotf f ++ String "e" y) = ROk (d ++ dotf f) (String "e" y).
Proof.
  intros Hne Hd Hf. unfold fpn_mantissa, alt, bind at 1.
  destruct f as [|c f]; cbn [dotf].
  - cbn [append]. rewrite (digits1_app d (String "e" y) Hne Hd eq_refl).
    unfold bind, opt, lit_raw, ret. cbn. rewrite app_nil_r_s. reflexivity.
  - cbn [append]. rewrite (digits1_app d (String "." (String c (f ++ String "e" y))) Hne Hd eq_refl).
    unfold bind at 1. unfold opt, bind at 1. unfold lit_raw at 1. cbn [strip_prefix Ascii.eqb Bool.eqb].
    unfold bind at 1. change (String c (f ++ String "e" y)) with (String c f ++ String "e" y).
    rewrite (digits1_app (String c f) (String "e" y) ltac:(discriminate) Hf eq_refl).
    unfold ret. cbn. reflexivity.
Qed.

Definition sgs (neg : bool) : string := if neg then "-" else "+".

Lemma exponent_app neg ds x : ds <> "" -> sall is_digit ds = true -> nd_head x ->
  fpn_exponent (String "e" (sgs neg ++ ds ++ x)) = ROk (String "E" (sgs neg ++ ds)) x.
Proof.
  intros Hne Hd Hx. unfold fpn_exponent. destruct neg; cbn [sgs append].
  - unfold bind at 1. unfold alt at 1. unfold lit_raw at 1. cbn [strip_prefix Ascii.eqb Bool.eqb].
    unfold bind at 1. unfold opt, alt, bind at 1, lit_raw at 1. cbn [strip_prefix Ascii.eqb Bool.eqb].
    unfold bind at 1. unfold lit_raw at 1. cbn [strip_prefix Ascii.eqb Bool.eqb]. unfold ret at 1.
    unfold bind. rewrite (digits1_app ds x Hne Hd Hx). reflexivity.
  - unfold bind at 1. unfold alt at 1. unfold lit_raw at 1. cbn [strip_prefix Ascii.eqb Bool.eqb].
    unfold bind at 1. unfold opt, alt, bind at 1, lit_raw at 1. cbn [strip_prefix Ascii.eqb Bool.eqb].
    unfold ret at 1.
    unfold bind. rewrite (digits1_app ds x Hne Hd Hx). reflexivity.
Qed.

(* fpn_raw on  d[.f]e(+|-)ds  *)
Lemma fpn_raw_sci d f neg ds : d <> "" -> sall is_digit d = true -> sall is_digit f = true ->
  ds <> "" -> sall is_digit ds = true ->
  fpn_raw (d ++ dotf f ++ String "e" (sgs neg ++ ds)) = ROk (d ++ dotf f ++ String "E" (sgs neg ++ ds)) "".
Proof.
  intros Hne Hd Hf Hne' Hds. unfold fpn_raw. unfold bind at 1.
  rewrite (mantissa_e d f _ Hne Hd Hf). unfold bind, opt.
  pose proof (exponent_app neg ds "" Hne' Hds I) as E. rewrite app_nil_r_s in E. rewrite E.
  unfold ret. cbn [str_or_empty]. now rewrite <- PrinterFacts.append_assoc.
Qed.

Lemma literal_value_sci d f neg ds : sall is_digit d = true -> sall is_digit f = true -> sall is_digit ds = true ->
  literal_value (d ++ dotf f ++ String "E" (sgs neg ++ ds))
  = Qred (bpow_q 10 (dval f (dval d 0))
            ((if neg then - dval ds 0 else dval ds 0) - Z.of_nat (String.length f))).
Proof.
  intros Hd Hf Hds. unfold literal_value.
  assert (Rds : read_digits ds 0 0 = (dval ds 0, (0 + String.length ds)%nat, "")).
  { rewrite <- (app_nil_r_s ds) at 1. apply read_digits_app; [exact Hds|exact I]. }
  destruct f as [|c f]; cbn [dotf].
  - cbn [append]. rewrite (read_digits_app d (String "E" (sgs neg ++ ds)) Hd eq_refl).
    cbv beta iota. cbn [is_e Ascii.eqb Bool.eqb orb].
    destruct neg; cbn [sgs append]; rewrite Rds; cbn [fst String.length dval]; unfold bpow_q;
      rewrite Z.sub_0_r; reflexivity.
  - cbn [append]. rewrite (read_digits_app d (String "." (String c (f ++ String "E" (sgs neg ++ ds)))) Hd eq_refl).
    cbv beta iota.
    change (String c (f ++ String "E" (sgs neg ++ ds))) with (String c f ++ String "E" (sgs neg ++ ds)).
    rewrite (read_digits_app (String c f) (String "E" (sgs neg ++ ds)) Hf eq_refl). cbv beta iota.
    cbn [is_e Ascii.eqb Bool.eqb orb].
    destruct neg; cbn [sgs append]; rewrite Rds; cbn [fst]; unfold bpow_q; rewrite Nat.add_0_l; reflexivity.
Qed.

(* ================================================================ B. format(x, ".4g") is a number token *)
(* the printer's reader of digit strings agrees with dval *)
Lemma digit_val_link c :
  Printer.digit_val c = if is_digit c then Some (Grammar.digit_val c) else None.
Proof. destruct c as [[|] [|] [|] [|] [|] [|] [|] [|]]; reflexivity. Qed.

Lemma digits_val_dval s : forall a c,
  Printer.digits_val s a c
  = if sall is_digit s then Some (dval s a, (c + Z.of_nat (String.length s))%Z) else None.
Proof.
  induction s as [|x s IH]; intros a c; cbn [Printer.digits_val sall dval String.length].
  - rewrite Z.add_0_r. reflexivity.
  - rewrite digit_val_link. destruct (is_digit x); cbn [andb]; [|reflexivity].
    rewrite IH. destruct (sall is_digit s); [|reflexivity]. do 2 f_equal. lia.
Qed.

Lemma nat_digits_ok n : (0 <= n)%Z ->
  sall is_digit (nat_digits n) = true /\ nat_digits n <> "" /\ dval (nat_digits n) 0 = n.
Proof.
  intros Hn. destruct (nat_digits_val n Hn) as [l [Hl Hv]]. specialize (Hv 0%Z 0%Z).
  rewrite digits_val_dval in Hv. destruct (sall is_digit (nat_digits n)); [|discriminate].
  injection Hv as H1 H2. split; [reflexivity|]. split.
  - intros E. rewrite E in H2. cbn in H2. lia.
  - rewrite H1. lia.
Qed.

Lemma exp_str_shape e : exists ds,
  exp_str e = sgs (e <? 0)%Z ++ ds /\ ds <> "" /\ sall is_digit ds = true /\ dval ds 0 = Z.abs e.
Proof.
  unfold exp_str. destruct (nat_digits_ok (Z.abs e) ltac:(lia)) as [H1 [H2 H3]].
  destruct (Z.abs e <? 10)%Z.
  - exists (String "0" (nat_digits (Z.abs e))). split; [destruct (e <? 0)%Z; reflexivity|].
    split; [discriminate|]. split; [cbn [sall]; rewrite H1; reflexivity|]. cbn [dval]. exact H3.
  - exists (nat_digits (Z.abs e)). split; [destruct (e <? 0)%Z; reflexivity|]. auto.
Qed.

(* ---------------------------------------------------------------- plain strings *)
Lemma plain_app o a b : plain o a = true -> plain o b = true -> plain o (a ++ b) = true.
Proof.
  induction a as [|c a IH]; cbn [plain append]; [auto|]. intros H Hb.
  apply andb_true_iff in H as [H1 H2]. rewrite H1. cbn [andb]. auto.
Qed.
Lemma digit_plain c : is_digit c = true -> stp false c = false.
Proof. destruct c as [[|] [|] [|] [|] [|] [|] [|] [|]]; vm_compute; intros; congruence. Qed.
Lemma digits_plain s : sall is_digit s = true -> plain false s = true.
Proof.
  induction s as [|c s IH]; cbn [plain sall]; [auto|]. intros H. apply andb_true_iff in H as [H1 H2].
  rewrite (digit_plain c H1). cbn [negb andb]. auto.
Qed.

(* ---------------------------------------------------------------- the number token *)
Definition head_digit (u : string) : bool := match u with String c _ => is_digit c | EmptyString => false end.
Definition numtok (u : string) (q : Q) : Prop :=
  plain false u = true /\ head_digit u = true /\
  exists txt, fpn_raw u = ROk txt "" /\ literal_value txt = Qred q.

Definition msplit (s : string) : string * string :=
  let '(a, b) := split_at "." s in (a, match b with Some f => f | None => "" end).
Definition check_sci2 (m : Z) : bool :=
  let s := sci_mant m in
  let '(d, f) := msplit s in
  negb (String.eqb d "") && sall is_digit d && sall is_digit f && String.eqb s (d ++ dotf f)
  && (dval f (dval d 0) * 10 ^ (3 - Z.of_nat (String.length f)) =? m)%Z
  && (Z.of_nat (String.length f) <=? 3)%Z.
Definition check_fix2 (e m : Z) : bool :=
  let u := render4 m e in
  plain false u && head_digit u &&
  match fpn_raw u with
  | ROk txt EmptyString => Q_eqb (literal_value txt) (Qred (bpow_q 10 m (e - 3)))
  | _ => false
  end.
Lemma check_sci2_all : all_from check_sci2 1000 (Z.to_nat 9000) = true.
Proof. vm_compute. reflexivity. Qed.
Lemma check_fix2_all : all_from (fun e => all_from (check_fix2 e) 1000 (Z.to_nat 9000)) (-4) 8 = true.
Proof. vm_compute. reflexivity. Qed.

Lemma bpow_shift M K m e : (0 <= K <= 3)%Z -> (M * 10 ^ (3 - K) = m)%Z ->
  (bpow_q 10 M (e - K) == bpow_q 10 m (e - 3))%Q.
Proof.
  intros HK Hm. rewrite !(bpow_q_eq 10) by lia. subst m.
  rewrite inject_Z_mult, <- (Bpow_Z 10 (3 - K)) by lia.
  replace (e - K)%Z with ((3 - K) + (e - 3))%Z by lia. rewrite (Bpow_add 10) by lia. ring.
Qed.

Lemma render4_numtok m e : (1000 <= m <= 9999)%Z -> numtok (render4 m e) (bpow_q 10 m (e - 3)).
Proof.
  intros Hm. destruct ((-4 <=? e) && (e <? 4))%Z eqn:Hr.
  - apply andb_true_iff in Hr as [R1 R2]. apply Z.leb_le in R1. apply Z.ltb_lt in R2.
    pose proof (all_from_spec _ _ _ check_fix2_all e) as H1. cbv beta in H1.
    specialize (H1 ltac:(lia)).
    pose proof (all_from_spec _ _ _ H1 m) as H2. specialize (H2 ltac:(lia)). unfold check_fix2 in H2.
    apply andb_true_iff in H2 as [H2 H3]. apply andb_true_iff in H2 as [Hp Hh].
    split; [exact Hp|]. split; [exact Hh|].
    destruct (fpn_raw (render4 m e)) as [txt r| | |]; try discriminate.
    destruct r; [|discriminate]. exists txt. split; [reflexivity|]. now apply Q_eqb_eq.
  - rewrite (render4_sci m e Hr).
    pose proof (all_from_spec _ _ _ check_sci2_all m) as H. specialize (H ltac:(lia)). unfold check_sci2 in H.
    destruct (msplit (sci_mant m)) as [d f].
    apply andb_true_iff in H as [H C]. apply andb_true_iff in H as [H C0].
    apply andb_true_iff in H as [H C1]. apply andb_true_iff in H as [H Cf].
    apply andb_true_iff in H as [H Cd].
    apply negb_true_iff in H. apply String.eqb_eq in C1. apply Z.eqb_eq in C0. apply Z.leb_le in C.
    assert (Hne : d <> "") by (intros E; rewrite E in H; discriminate).
    destruct (exp_str_shape e) as [ds [Es [Hds [Dds Vds]]]].
    rewrite C1, Es. change (append ?a ?b) with (a ++ b). rewrite PrinterFacts.append_assoc.
    split; [|split].
    + apply plain_app; [now apply digits_plain|]. apply plain_app.
      * destruct f as [|c f]; [reflexivity|]. cbn [dotf]. change (String "." (String c f)) with ("." ++ String c f).
        apply plain_app; [reflexivity|now apply digits_plain].
      * change (String "e" (sgs (e <? 0)%Z ++ ds)) with ("e" ++ sgs (e <? 0)%Z ++ ds).
        apply plain_app; [reflexivity|]. apply plain_app; [destruct (e <? 0)%Z; reflexivity|now apply digits_plain].
    + destruct d as [|c d]; [congruence|]. cbn [sall] in Cd. apply andb_true_iff in Cd as [Cd _]. exact Cd.
    + exists (d ++ dotf f ++ String "E" (sgs (e <? 0)%Z ++ ds)). split.
      * apply fpn_raw_sci; assumption.
      * rewrite literal_value_sci by assumption. apply Qred_complete.
        assert (Ee : (if (e <? 0)%Z then (- dval ds 0)%Z else dval ds 0) = e).
        { rewrite Vds. destruct (Z.ltb_spec e 0); lia. }
        rewrite Ee. apply bpow_shift; [lia|exact C0].
Qed.

(* ---------------------------------------------------------------- fmt4 *)
Lemma Qred_pos_num q : (0 < q)%Q -> exists n, Qnum (Qred q) = Zpos n.
Proof.
  intros H. assert (H' : (0 < Qred q)%Q) by (now rewrite Qred_correct).
  destruct (Qred q) as [[|n|n] d]; unfold Qlt in H'; cbn in H'; try lia. now exists n.
Qed.

Theorem fmt4_numtok q : (0 < q)%Q -> numtok (fmt4 q) (round4 q).
Proof.
  intros Hq. destruct (Qred_pos_num q Hq) as [n En].
  unfold fmt4, round4, round_sig. rewrite En.
  destruct (round_sig_pos_spec 10 4 ltac:(lia) ltac:(lia) (Zpos n) (Zpos (Qden (Qred q))) ltac:(lia) ltac:(lia))
    as [Hm _].
  set (me := round_sig_pos 10 4 (Zpos n) (Zpos (Qden (Qred q)))) in *.
  unfold sig_value. replace (snd me - 4 + 1)%Z with (snd me - 3)%Z by lia.
  apply render4_numtok. simpl in Hm. lia.
Qed.

Lemma fmt4_zero q : (q == 0)%Q -> fmt4 q = "0" /\ numtok "0" (round4 q).
Proof.
  intros Hq. assert (E : Qnum (Qred q) = 0%Z).
  { rewrite (Qred_complete q 0 Hq). reflexivity. }
  split; [unfold fmt4; rewrite E; reflexivity|].
  unfold round4. rewrite (round_sig_0 10 4 q Hq). repeat split. exists "0". split; reflexivity.
Qed.

Lemma fmt4_neg q : (q < 0)%Q -> fmt4 q = String "-" (fmt4 (- q)).
Proof.
  intros Hq. assert (Hq' : (0 < - q)%Q) by (apply (Qopp_lt_compat q 0) in Hq; exact Hq).
  destruct (Qred_pos_num (- q) Hq') as [n En].
  unfold fmt4. rewrite En. rewrite Qred_opp in En.
  assert (Eq : Qnum (Qred q) = Zneg n).
  { destruct (Qred q) as [[|a|a] d]; unfold Qopp in En; cbn [Qnum Z.opp] in En; try discriminate En.
    injection En as En. now subst a. }
  rewrite Eq. rewrite Qred_opp. cbn [Qden Qopp]. reflexivity.
Qed.

Local Notation F := fold_left_assoc.

(* ================================================================ C. tokens *)
Definition nw_head (x : string) : Prop :=
  match x with EmptyString => True | String c _ => is_word_char c = false end.
(* the first character of a printed term: a letter or a digit *)
Definition an_char (c : ascii) : bool := is_alpha c || is_digit c.
Definition an_head (B : string) : Prop :=
  match B with EmptyString => False | String c _ => an_char c = true end.

Lemma an_char_facts c : an_char c = true ->
  is_ws c = false /\ Ascii.eqb "+" c = false /\ Ascii.eqb "-" c = false /\ Ascii.eqb "(" c = false /\
  Ascii.eqb "|" c = false /\ Ascii.eqb "*" c = false /\ Ascii.eqb "." c = false /\
  Ascii.eqb "=" c = false /\ Ascii.eqb "<" c = false.
Proof. destruct c as [[|] [|] [|] [|] [|] [|] [|] [|]]; vm_compute; intros H; try discriminate H; repeat split. Qed.

Lemma an_skip B : an_head B -> skip_ws B = B.
Proof. destruct B as [|c r]; [intros []|]. intros H. apply an_char_facts in H as [H _]. simpl. rewrite H. reflexivity. Qed.

Lemma lit1_fail a B : an_head B -> Ascii.eqb a (match B with String c _ => c | _ => a end) = false ->
  lit (String a "") B = RFail.
Proof.
  intros H E. unfold lit. rewrite (an_skip B H). destruct B as [|c r]; [destruct H|].
  unfold lit_raw. cbn [strip_prefix]. rewrite E. reflexivity.
Qed.
Lemma an_lit_fails B : an_head B ->
  lit "+" B = RFail /\ lit "-" B = RFail /\ lit "(" B = RFail /\ lit "|" B = RFail /\ lit "*" B = RFail.
Proof.
  intros H. pose proof H as H'. destruct B as [|c r]; [destruct H|]. apply an_char_facts in H'.
  destruct H' as [_ [E1 [E2 [E3 [E4 [E5 _]]]]]].
  repeat split; apply lit1_fail; assumption.
Qed.
Lemma an_symbol_fails B : an_head B -> symbol B = RFail.
Proof.
  intros H. destruct (an_lit_fails B H) as [E1 [E2 _]]. unfold symbol, alt, bind. rewrite E1, E2. reflexivity.
Qed.

Lemma valid_var_head v x : valid_var v = true -> an_head (v ++ x).
Proof.
  destruct v as [|c w]; [discriminate|]. cbn [valid_var append an_head]. intros H.
  apply andb_true_iff in H as [H _]. unfold an_char. rewrite H. reflexivity.
Qed.
Lemma head_digit_an u x : head_digit u = true -> an_head (u ++ x).
Proof.
  destruct u as [|c w]; [discriminate|]. cbn [head_digit append an_head]. intros H.
  unfold an_char. rewrite H. apply orb_true_r.
Qed.

Lemma variable_app v x : valid_var v = true -> nw_head x -> variable (v ++ x) = ROk v x.
Proof.
  intros Hv Hx. unfold variable. rewrite (an_skip _ (valid_var_head v x Hv)).
  destruct v as [|c w]; [discriminate|]. cbn [valid_var] in Hv. apply andb_true_iff in Hv as [Hc Hw].
  cbn [append]. rewrite Hc. rewrite (tw_all is_word_char w x Hw Hx). reflexivity.
Qed.
Lemma variable_ws w v x : all_ws w -> valid_var v = true -> nw_head x -> variable (w ++ v ++ x) = ROk v x.
Proof.
  intros Hw Hv Hx. rewrite <- fs_variable, (skip_ws_app w _ Hw), fs_variable. now apply variable_app.
Qed.
Lemma variable_digit B : head_digit B = true -> variable B = RFail.
Proof.
  destruct B as [|c r]; [discriminate|]. cbn [head_digit]. intros H. unfold variable.
  assert (Hw : is_ws c = false) by (apply an_char_facts; unfold an_char; rewrite H; apply orb_true_r).
  cbn [skip_ws]. rewrite Hw.
  assert (Ha : is_alpha c = false).
  { revert H. destruct c as [[|] [|] [|] [|] [|] [|] [|] [|]]; vm_compute; intros H; congruence. }
  rewrite Ha. reflexivity.
Qed.

(* the number token followed by a blank or by the end of the input *)
Definition sp_head (x : string) : Prop :=
  match x with EmptyString => True | String c _ => c = " "%char end.
Lemma sp_stop x : sp_head x -> stop_head false x.
Proof. destruct x as [|c r]; [auto|]. simpl. intros ->. reflexivity. Qed.

Lemma fpn_numtok u q x : numtok u q -> sp_head x ->
  exists txt, fpn (u ++ x) = ROk txt x /\ literal_value txt = Qred q.
Proof.
  intros [Hp [Hh [txt [E V]]]] Hx. exists txt. split; [|exact V].
  unfold fpn. rewrite (an_skip _ (head_digit_an u x Hh)).
  pose proof (stable_fpn_raw u x Hp (sp_stop x Hx)) as S. rewrite E in S. destruct S as [S _]. exact S.
Qed.

Lemma fpn_alpha B : (match B with String c _ => is_alpha c = true | _ => False end) -> fpn B = RFail.
Proof.
  destruct B as [|c r]; [intros []|]. intros H. unfold fpn.
  assert (A : an_char c = true) by (unfold an_char; rewrite H; reflexivity).
  destruct (an_char_facts c A) as [Hw [_ [_ [_ [_ [_ [Hd _]]]]]]].
  cbn [skip_ws]. rewrite Hw.
  assert (Hn : is_digit c = false).
  { revert H. destruct c as [[|] [|] [|] [|] [|] [|] [|] [|]]; vm_compute; intros H; congruence. }
  unfold fpn_raw, fpn_mantissa, bind, alt, digits1. cbn [take_while]. rewrite Hn.
  unfold lit_raw. cbn [strip_prefix]. rewrite Hd. reflexivity.
Qed.

(* ================================================================ D. combinator steps *)
Lemma alt_ok {A} (p q : parser A) s a r : p s = ROk a r -> alt p q s = ROk a r.
Proof. intros H. unfold alt. rewrite H. reflexivity. Qed.
Lemma alt_fail {A} (p q : parser A) s : p s = RFail -> alt p q s = q s.
Proof. intros H. unfold alt. rewrite H. reflexivity. Qed.
Lemma bind_ok {A B} (p : parser A) (f : A -> parser B) s a r : p s = ROk a r -> Grammar.bind p f s = f a r.
Proof. intros H. unfold Grammar.bind. rewrite H. reflexivity. Qed.
Lemma bind_fail {A B} (p : parser A) (f : A -> parser B) s : p s = RFail -> Grammar.bind p f s = RFail.
Proof. intros H. unfold Grammar.bind. rewrite H. reflexivity. Qed.
Lemma opt_ok {A} (p : parser A) s a r : p s = ROk a r -> opt p s = ROk (Some a) r.
Proof. intros H. unfold opt. rewrite H. reflexivity. Qed.
Lemma opt_fail {A} (p : parser A) s : p s = RFail -> opt p s = ROk None s.
Proof. intros H. unfold opt. rewrite H. reflexivity. Qed.

Lemma lit_sp t x : lit t (String " " x) = lit t x.
Proof. reflexivity. Qed.

(* ================================================================ E. one printed term *)
(* B is the text of a term followed by the rest of the input, t its tree, y what is left after it *)
Definition term_at (n : nat) (B : string) (t : lterm) (y : string) : Prop :=
  an_head B /\
  p_term F (S n) B = ROk t y /\
  (coef F (S n) B = RFail \/
   exists k r, coef F (S n) B = ROk k r /\ lit "(" r = RFail /\ lit "|" r = RFail).

Lemma coef_alpha n B : (match B with String c _ => is_alpha c = true | _ => False end) -> an_head B ->
  coef F n B = RFail.
Proof.
  intros Ha Hh. destruct (an_lit_fails B Hh) as [_ [_ [E3 _]]].
  unfold coef. apply bind_fail. unfold number. rewrite alt_fail.
  - unfold paren_arith. apply bind_fail. exact E3.
  - unfold fpn_c. apply bind_fail. apply fpn_alpha. exact Ha.
Qed.

Lemma term_at_var n v y : valid_var v = true -> nw_head y -> term_at n (v ++ y) (TVar v) y.
Proof.
  intros Hv Hy. split; [now apply valid_var_head|]. split.
  - cbn [p_term]. cbv zeta. apply alt_ok. rewrite (bind_ok _ _ _ _ _ (variable_app v y Hv Hy)). reflexivity.
  - left. apply coef_alpha; [|now apply valid_var_head].
    destruct v as [|c w]; [discriminate|]. cbn [valid_var] in Hv. apply andb_true_iff in Hv as [Hc _]. exact Hc.
Qed.

Lemma coef_num n u q x : numtok u q -> sp_head x -> lit "*" x = RFail ->
  coef F n (u ++ x) = ROk (CNum (Qred q)) x.
Proof.
  intros Hu Hx Hs. destruct (fpn_numtok u q x Hu Hx) as [txt [E V]].
  unfold coef. rewrite (bind_ok _ _ _ (CNum (Qred q)) x).
  - rewrite (bind_ok _ _ _ None x); [reflexivity|]. now apply opt_fail.
  - unfold number. apply alt_ok. unfold fpn_c. rewrite (bind_ok _ _ _ _ _ E). rewrite V. reflexivity.
Qed.
Lemma number_num n u q x : numtok u q -> sp_head x -> number F n (u ++ x) = ROk (CNum (Qred q)) x.
Proof.
  intros Hu Hx. destruct (fpn_numtok u q x Hu Hx) as [txt [E V]].
  unfold number. apply alt_ok. unfold fpn_c. rewrite (bind_ok _ _ _ _ _ E). rewrite V. reflexivity.
Qed.

Lemma term_at_numvar n u q v y : numtok u q -> valid_var v = true -> nw_head y ->
  term_at n (u ++ " " ++ v ++ y) (TNumVar (CNum (Qred q)) v) y.
Proof.
  intros Hu Hv Hy. destruct Hu as [Hp [Hh Ht]]. pose proof (conj Hp (conj Hh Ht)) as Hu.
  pose proof (head_digit_an u (" " ++ v ++ y) Hh) as HB.
  destruct (an_lit_fails _ (valid_var_head v y Hv)) as [_ [_ [L3 [L4 L5]]]].
  assert (C : coef F (S n) (u ++ " " ++ v ++ y) = ROk (CNum (Qred q)) (" " ++ v ++ y)).
  { apply coef_num; [exact Hu|reflexivity|]. cbn [append]. rewrite lit_sp. exact L5. }
  split; [exact HB|]. split.
  - destruct (an_lit_fails _ HB) as [_ [_ [B3 _]]].
    cbn [p_term]. cbv zeta. rewrite alt_fail.
    2:{ apply bind_fail. apply variable_digit. destruct u; [discriminate|exact Hh]. }
    rewrite alt_fail.
    2:{ apply bind_fail. unfold paren_of. apply bind_fail. exact B3. }
    apply alt_ok. rewrite (bind_ok _ _ _ _ _ C).
    rewrite (bind_ok _ _ _ v y); [reflexivity|]. apply (variable_ws " "); [reflexivity|exact Hv|exact Hy].
  - right. exists (CNum (Qred q)), (" " ++ v ++ y). split; [exact C|]. cbn [append]. rewrite !lit_sp. auto.
Qed.

Lemma term_at_num n u q : numtok u q -> term_at n u (TNum (CNum (Qred q))) "".
Proof.
  intros Hu. destruct Hu as [Hp [Hh Ht]]. pose proof (conj Hp (conj Hh Ht)) as Hu.
  pose proof (head_digit_an u "" Hh) as HB. rewrite app_nil_r_s in HB.
  assert (C : coef F (S n) u = ROk (CNum (Qred q)) "").
  { rewrite <- (app_nil_r_s u) at 1. apply coef_num; [exact Hu|exact I|reflexivity]. }
  split; [exact HB|]. split.
  - destruct (an_lit_fails _ HB) as [_ [_ [B3 _]]].
    cbn [p_term]. cbv zeta. rewrite alt_fail.
    2:{ apply bind_fail. apply variable_digit. exact Hh. }
    rewrite alt_fail.
    2:{ apply bind_fail. unfold paren_of. apply bind_fail. exact B3. }
    rewrite alt_fail.
    2:{ rewrite (bind_ok _ _ _ _ _ C). apply bind_fail. reflexivity. }
    rewrite alt_fail.
    2:{ rewrite (bind_ok _ _ _ _ _ C). apply bind_fail. unfold paren_of. apply bind_fail. reflexivity. }
    apply alt_ok. rewrite (bind_ok _ _ _ (CNum (Qred q)) ""); [reflexivity|].
    rewrite <- (app_nil_r_s u) at 1. apply number_num; [exact Hu|exact I].
  - right. exists (CNum (Qred q)), "". split; [exact C|]. split; reflexivity.
Qed.

(* ================================================================ F. signs, and lists of signed terms *)
Definition sym_render (first : bool) (s : sign) : string :=
  if first then match s with Plus => "" | Minus => "-" end
  else match s with Plus => " + " | Minus => " - " end.

Lemma sym_first f s B : an_head B ->
  exists o w, all_ws w /\ opt symbol (sym_render f s ++ B) = ROk o (w ++ B) /\ sign_or_plus o = s.
Proof.
  intros HB. destruct f, s; cbn [sym_render].
  - exists None, "". split; [reflexivity|]. split; [|reflexivity]. apply opt_fail. now apply an_symbol_fails.
  - exists (Some Minus), "". repeat split.
  - exists (Some Plus), " ". repeat split.
  - exists (Some Minus), " ". repeat split.
Qed.
Lemma sym_addl s B : symbol (sym_render false s ++ B) = ROk s (" " ++ B).
Proof. destruct s; reflexivity. Qed.

Lemma ws_drop {A} (p : parser A) w B : front_skipping p -> all_ws w -> an_head B -> p (w ++ B) = p B.
Proof. intros Hp Hw HB. rewrite <- Hp, (skip_ws_app w B Hw), (an_skip B HB). reflexivity. Qed.

Lemma paren_abs_fail n w B t y : all_ws w -> term_at n B t y -> paren_abs_or_terms F (S n) (w ++ B) = RFail.
Proof.
  intros Hw [HB [_ HC]]. destruct (an_lit_fails B HB) as [_ [_ [L3 _]]].
  unfold paren_abs_or_terms.
  pose proof (ws_drop (coef F (S n)) w B (fs_coef F (S n)) Hw HB) as Ec.
  destruct HC as [HC|[k [r [HC [R1 R2]]]]].
  - rewrite (bind_ok _ _ _ None (w ++ B)).
    + apply bind_fail. rewrite (ws_drop _ w B (fs_lit "(") Hw HB). exact L3.
    + apply opt_fail. rewrite Ec. exact HC.
  - rewrite (bind_ok _ _ _ (Some k) r).
    + apply bind_fail. exact R1.
    + apply opt_ok. rewrite Ec. exact HC.
Qed.
Lemma abs_term_fail n w B t y : all_ws w -> term_at n B t y -> abs_term F (S n) (w ++ B) = RFail.
Proof.
  intros Hw [HB [_ HC]]. destruct (an_lit_fails B HB) as [_ [_ [_ [L4 _]]]].
  unfold abs_term.
  pose proof (ws_drop (coef F (S n)) w B (fs_coef F (S n)) Hw HB) as Ec.
  destruct HC as [HC|[k [r [HC [R1 R2]]]]].
  - rewrite (bind_ok _ _ _ None (w ++ B)).
    + apply bind_fail. rewrite (ws_drop _ w B (fs_lit "|") Hw HB). exact L4.
    + apply opt_fail. rewrite Ec. exact HC.
  - rewrite (bind_ok _ _ _ (Some k) r).
    + apply bind_fail. exact R2.
    + apply opt_ok. rewrite Ec. exact HC.
Qed.
Lemma p_term_ws n w B t y : all_ws w -> term_at n B t y -> p_term F (S n) (w ++ B) = ROk t y.
Proof. intros Hw [HB [Ht _]]. rewrite (ws_drop _ w B (fs_term F (S n)) Hw HB). exact Ht. Qed.

(* the first element of a side *)
Lemma first_paren_plain n f s B t y : term_at n B t y ->
  first_paren_abs_or_terms F (S n) (sym_render f s ++ B) = ROk (PPlain (ATerm s t)) y.
Proof.
  intros Ht. pose proof Ht as [HB _]. destruct (sym_first f s B HB) as [o [w [Hw [Eo Es]]]].
  unfold first_paren_abs_or_terms. rewrite alt_fail.
  2:{ rewrite (bind_ok _ _ _ _ _ Eo). apply bind_fail. now apply (paren_abs_fail n w B t y). }
  rewrite (bind_ok _ _ _ (ATerm s t) y); [reflexivity|].
  unfold first_abs_or_term. rewrite alt_fail.
  2:{ unfold first_abs_term. rewrite (bind_ok _ _ _ _ _ Eo). apply bind_fail. now apply (abs_term_fail n w B t y). }
  unfold first_term. rewrite (bind_ok _ _ _ _ _ Eo). rewrite (bind_ok _ _ _ _ _ (p_term_ws n w B t y Hw Ht)).
  rewrite Es. reflexivity.
Qed.
(* a further element of a side *)
Lemma addl_paren_plain n s B t y : term_at n B t y ->
  addl_paren_abs_or_terms F (S n) (sym_render false s ++ B) = ROk (PPlain (ATerm s t)) y.
Proof.
  intros Ht. pose proof (sym_addl s B) as Eo.
  assert (Hw : all_ws " ") by reflexivity.
  unfold addl_paren_abs_or_terms. rewrite alt_fail.
  2:{ rewrite (bind_ok _ _ _ _ _ Eo). apply bind_fail. now apply (paren_abs_fail n " " B t y). }
  rewrite (bind_ok _ _ _ (ATerm s t) y); [reflexivity|].
  unfold addl_abs_or_term. rewrite alt_fail.
  2:{ unfold signed_abs_term. rewrite (bind_ok _ _ _ _ _ Eo). apply bind_fail. now apply (abs_term_fail n " " B t y). }
  unfold signed_term. rewrite (bind_ok _ _ _ _ _ Eo). rewrite (bind_ok _ _ _ _ _ (p_term_ws n " " B t y Hw Ht)).
  reflexivity.
Qed.
Lemma addl_paren_stop n x : symbol x = RFail -> addl_paren_abs_or_terms F (S n) x = RFail.
Proof.
  intros H. unfold addl_paren_abs_or_terms. rewrite alt_fail by (now apply bind_fail).
  apply bind_fail. unfold addl_abs_or_term. rewrite alt_fail by (unfold signed_abs_term; now apply bind_fail).
  unfold signed_term. now apply bind_fail.
Qed.

(* S is the text of the signed terms l (each " + term" / " - term") followed by x *)
Fixpoint rest_at (n : nat) (l : list (sign * lterm)) (S x : string) : Prop :=
  match l with
  | [] => S = x
  | (s, t) :: r => exists B y, S = sym_render false s ++ B /\ term_at n B t y /\ rest_at n r y x
  end.

Lemma rest_at_len n l : forall S x, rest_at n l S x -> (List.length l <= len S)%nat.
Proof.
  induction l as [|[s t] r IH]; intros S x H; cbn [List.length]; [lia|].
  destruct H as [B [y [-> [[_ [Ht _]] Hr]]]]. specialize (IH y x Hr).
  pose proof (proj1 (sgood_term F (S n)) B t y Ht) as Hlt.
  rewrite len_app. destruct s; cbn [sym_render len]; lia.
Qed.

Lemma many_rest {A} n (body : parser A) (g : sign * lterm -> A) x :
  (forall s B t y, term_at n B t y -> body (sym_render false s ++ B) = ROk (g (s, t)) y) ->
  body x = RFail ->
  forall l S, rest_at n l S x -> many body S = ROk (map g l) x.
Proof.
  intros Hbody Hstop l S H. unfold many.
  assert (Hm : (List.length l < Datatypes.S (len S))%nat) by (pose proof (rest_at_len n l S x H); lia).
  revert Hm. generalize (Datatypes.S (len S)) as m. revert S H.
  induction l as [|[s t] r IH]; intros S H m Hm; (destruct m as [|m]; [cbn [List.length] in Hm; lia|]); cbn [many_f map].
  - cbn [rest_at] in H. subst S. rewrite Hstop. reflexivity.
  - destruct H as [B [y [-> [Ht Hr]]]]. rewrite (Hbody s B t y Ht).
    rewrite (IH y Hr m); [reflexivity|]. cbn [List.length] in Hm. lia.
Qed.

(* terms = first_term signed_term* *)
Lemma terms_at n f s B t y l x : term_at n B t y -> rest_at n l y x -> symbol x = RFail ->
  terms F (S n) (sym_render f s ++ B) = ROk (Terms s t l) x.
Proof.
  intros Ht Hr Hx. pose proof Ht as [HB _]. destruct (sym_first f s B HB) as [o [w [Hw [Eo Es]]]].
  unfold terms, terms_of. rewrite (bind_ok _ _ _ _ _ Eo).
  rewrite (bind_ok _ _ _ _ _ (p_term_ws n w B t y Hw Ht)).
  rewrite (bind_ok _ _ _ l x).
  - rewrite Es. reflexivity.
  - rewrite <- (map_id l). apply (many_rest n _ (fun p => p) x); [| |exact Hr].
    + intros s' B' t' y' Ht'. rewrite (bind_ok _ _ _ _ _ (sym_addl s' B')).
      rewrite (bind_ok _ _ _ _ _ (p_term_ws n " " B' t' y' eq_refl Ht')). reflexivity.
    + now apply bind_fail.
Qed.

(* multi_paren_abs_or_terms on a side without groups and absolute values *)
Lemma multi_at n f s B t y l x : term_at n B t y -> rest_at n l y x -> symbol x = RFail ->
  multi F (S n) (sym_render f s ++ B) = ROk (plain_side ((s, t) :: l)) x.
Proof.
  intros Ht Hr Hx. unfold multi. rewrite (bind_ok _ _ _ _ _ (first_paren_plain n f s B t y Ht)).
  rewrite (bind_ok _ _ _ (plain_side l) x); [reflexivity|].
  unfold plain_side. apply (many_rest n _ (fun st => PPlain (ATerm (fst st) (snd st))) x); [| |exact Hr].
  - intros s' B' t' y' Ht'. now apply addl_paren_plain.
  - now apply addl_paren_stop.
Qed.

(* ================================================================ G. the three printed forms *)
(* the constant: [-]number at the end of the input, after one blank *)
Definition const_str (cs : sign) (u : string) : string := sym_render true cs ++ u.
Definition const_tree (cs : sign) (q : Q) : sign * lterm := (cs, TNum (CNum (Qred q))).

Lemma skip_sp_const cs u : head_digit u = true -> skip_ws (" " ++ const_str cs u) = const_str cs u.
Proof.
  intros H. change (skip_ws (" " ++ const_str cs u)) with (skip_ws (const_str cs u)).
  unfold const_str. destruct cs; cbn [sym_render append].
  - apply an_skip. rewrite <- (app_nil_r_s u). now apply head_digit_an.
  - reflexivity.
Qed.

Lemma const_terms n cs u q : numtok u q ->
  terms F (S n) (" " ++ const_str cs u) = ROk (Terms cs (TNum (CNum (Qred q))) []) "".
Proof.
  intros Hu. pose proof Hu as [_ [Hh _]].
  rewrite <- (fs_terms F (S n)), (skip_sp_const cs u Hh). unfold const_str.
  apply (terms_at n true cs u _ ""); [now apply term_at_num|reflexivity|reflexivity].
Qed.
Lemma const_multi n cs u q : numtok u q ->
  multi F (S n) (" " ++ const_str cs u) = ROk (plain_side [const_tree cs q]) "".
Proof.
  intros Hu. pose proof Hu as [_ [Hh _]].
  rewrite <- (fs_multi F (S n)), (skip_sp_const cs u Hh). unfold const_str, const_tree.
  apply (multi_at n true cs u _ ""); [now apply term_at_num|reflexivity|reflexivity].
Qed.

Lemma many_stop {A} (p : parser A) s : p s = RFail -> many p s = ROk [] s.
Proof. intros H. unfold many. cbn [many_f]. rewrite H. reflexivity. Qed.

(* side "<=" side, the right one being a constant *)
Lemma leq_tail n S0 sd0 cs u q : numtok u q ->
  multi F (S n) S0 = ROk sd0 (" <= " ++ const_str cs u) ->
  leq_expression F (S n) S0 = ROk (ELeq [sd0; plain_side [const_tree cs q]]) "".
Proof.
  intros Hu H0. unfold leq_expression, ineq_expression. rewrite (bind_ok _ _ _ _ _ H0).
  rewrite (bind_ok _ _ _ [plain_side [const_tree cs q]] ""); [reflexivity|].
  unfold many1. rewrite (bind_ok _ _ _ (plain_side [const_tree cs q]) "").
  - rewrite (bind_ok _ _ _ [] ""); [reflexivity|]. apply many_stop. reflexivity.
  - rewrite (bind_ok _ _ _ tt (" " ++ const_str cs u)) by reflexivity. now apply const_multi.
Qed.

(* "LHS <= c" *)
Lemma expression_leq n f s B t y l cs u q : numtok u q ->
  term_at n B t y -> rest_at n l y (" <= " ++ const_str cs u) ->
  expression F (S n) (sym_render f s ++ B)
  = ROk (ELeq [plain_side ((s, t) :: l); plain_side [const_tree cs q]]) "".
Proof.
  intros Hu Ht Hr. unfold expression. rewrite alt_fail.
  2:{ unfold equality_expression.
      rewrite (bind_ok _ _ _ _ _ (terms_at n f s B t y l _ Ht Hr eq_refl)). apply bind_fail. reflexivity. }
  apply alt_ok. apply (leq_tail n _ _ cs u q Hu). now apply (multi_at n f s B t y l).
Qed.

(* "LHS = c" *)
Lemma expression_eq n f s B t y l cs u q : numtok u q ->
  term_at n B t y -> rest_at n l y (" = " ++ const_str cs u) ->
  expression F (S n) (sym_render f s ++ B)
  = ROk (EEq (Terms s t l) (Terms cs (TNum (CNum (Qred q))) [])) "".
Proof.
  intros Hu Ht Hr. unfold expression. apply alt_ok. unfold equality_expression.
  rewrite (bind_ok _ _ _ _ _ (terms_at n f s B t y l _ Ht Hr eq_refl)).
  rewrite (bind_ok _ _ _ tt (" " ++ const_str cs u)) by reflexivity.
  rewrite (bind_ok _ _ _ _ _ (const_terms n cs u q Hu)). reflexivity.
Qed.

(* "|LHS| <= c" *)
Lemma p_term_bar n T : p_term F (S n) (String "|" T) = RFail.
Proof. reflexivity. Qed.
Lemma coef_bar n T : coef F (S n) (String "|" T) = RFail.
Proof. reflexivity. Qed.

Lemma first_paren_bar n T L r : terms F (S n) T = ROk L (String "|" r) ->
  first_paren_abs_or_terms F (S n) (String "|" T) = ROk (PPlain (AAbs Plus None L)) r.
Proof.
  intros H.
  assert (Eo : opt symbol (String "|" T) = ROk None (String "|" T)) by reflexivity.
  assert (Ec : opt (coef F (S n)) (String "|" T) = ROk None (String "|" T)) by (apply opt_fail, coef_bar).
  unfold first_paren_abs_or_terms. rewrite alt_fail.
  2:{ rewrite (bind_ok _ _ _ _ _ Eo). apply bind_fail. unfold paren_abs_or_terms.
      rewrite (bind_ok _ _ _ _ _ Ec). apply bind_fail. reflexivity. }
  rewrite (bind_ok _ _ _ (AAbs Plus None L) r); [reflexivity|].
  unfold first_abs_or_term. apply alt_ok. unfold first_abs_term. rewrite (bind_ok _ _ _ _ _ Eo).
  rewrite (bind_ok _ _ _ (None, L) r); [reflexivity|].
  unfold abs_term. rewrite (bind_ok _ _ _ _ _ Ec). rewrite (bind_ok _ _ _ tt T) by reflexivity.
  rewrite (bind_ok _ _ _ _ _ H). rewrite (bind_ok _ _ _ tt r) by reflexivity. reflexivity.
Qed.

Lemma expression_abs n f s B t y l cs u q : numtok u q ->
  term_at n B t y -> rest_at n l y ("| <= " ++ const_str cs u) ->
  expression F (S n) (String "|" (sym_render f s ++ B))
  = ROk (ELeq [[PPlain (AAbs Plus None (Terms s t l))]; plain_side [const_tree cs q]]) "".
Proof.
  intros Hu Ht Hr. unfold expression. rewrite alt_fail.
  2:{ unfold equality_expression. apply bind_fail. unfold terms, terms_of.
      rewrite (bind_ok _ _ _ None (String "|" (sym_render f s ++ B))) by reflexivity.
      apply bind_fail. apply p_term_bar. }
  apply alt_ok. apply (leq_tail n _ _ cs u q Hu). unfold multi.
  rewrite (bind_ok _ _ _ _ _ (first_paren_bar n _ _ _ (terms_at n f s B t y l _ Ht Hr eq_refl))).
  rewrite (bind_ok _ _ _ [] (" <= " ++ const_str cs u)); [reflexivity|].
  apply many_stop. apply addl_paren_stop. reflexivity.
Qed.

(* parse_all = True: nothing but whitespace may remain *)
Lemma parse_expr_of_expression s e :
  expression F (S (String.length s)) s = ROk e "" -> Grammar.parse_expr s = Ok e.
Proof. intros H. unfold Grammar.parse_expr, parse_expr_fuel, parse_gen_fuel. rewrite H. reflexivity. Qed.

(* ================================================================ H. what _lhs_str prints *)
Inductive piece :=
| PV (s : sign) (v : var)                         (* "x" *)
| PN (s : sign) (u : string) (q : Q) (v : var).   (* "2.5 x": number text, the value it spells, variable *)
Definition piece_sign (p : piece) : sign := match p with PV s _ | PN s _ _ _ => s end.
Definition piece_lterm (p : piece) : lterm :=
  match p with PV _ v => TVar v | PN _ _ q v => TNumVar (CNum q) v end.
Definition piece_body (p : piece) : string :=
  match p with PV _ v => v | PN _ u _ v => u ++ " " ++ v end.
Definition ptree (p : piece) : sign * lterm := (piece_sign p, piece_lterm p).
Definition ntree (p : piece) : sign * lterm := (piece_sign p, norm_lterm (piece_lterm p)).
Definition piece_ok (p : piece) : Prop :=
  match p with
  | PV _ v => valid_var v = true
  | PN _ u q v => numtok u q /\ valid_var v = true
  end.

Definition coef_piece (v : var) (c : Q) : option piece :=
  if approx_equal c 1 then Some (PV Plus v)
  else if approx_equal c (-(1)) then Some (PV Minus v)
  else if negb (approx_equal c 0) then
    if qlt 0 c then Some (PN Plus (fmt4 c) (round4 c) v)
    else Some (PN Minus (fmt4 (- c)) (round4 (- c)) v)
  else None.

Lemma qlt_iff a b : qlt a b = true <-> (a < b)%Q.
Proof.
  unfold qlt. rewrite negb_true_iff. split.
  - intros H. apply Qnot_le_lt. intros L. apply Qle_bool_iff in L. congruence.
  - intros H. destruct (Qle_bool b a) eqn:E; [|reflexivity]. apply Qle_bool_iff in E.
    exfalso. exact (Qlt_not_le _ _ H E).
Qed.
Lemma not_approx0_sign c : approx_equal c 0 = false -> qlt 0 c = false -> (c < 0)%Q.
Proof.
  intros H0 Hl. destruct (Q_dec c 0) as [[L|G]|E].
  - exact L.
  - apply qlt_iff in G. congruence.
  - rewrite (approx_equal_refl c 0 E) in H0. discriminate.
Qed.

Lemma coef_term_piece v c : coef_term v c = option_map ptree (coef_piece v c).
Proof.
  unfold coef_term, coef_piece. destruct (approx_equal c 1); [reflexivity|].
  destruct (approx_equal c (-(1))); [reflexivity|]. destruct (approx_equal c 0); [reflexivity|].
  cbn [negb]. destruct (qlt 0 c); reflexivity.
Qed.

Definition piece_render (first : bool) (p : piece) : string := sym_render first (piece_sign p) ++ piece_body p.

Lemma lhs_piece_piece first v c :
  lhs_piece first v c = match coef_piece v c with Some p => piece_render first p | None => "" end.
Proof.
  unfold lhs_piece, coef_piece. destruct (approx_equal c 1); [destruct first; reflexivity|].
  destruct (approx_equal c (-(1))); [destruct first; reflexivity|].
  destruct (approx_equal c 0) eqn:E0; [reflexivity|]. cbn [negb].
  destruct (qlt 0 c) eqn:El; [destruct first; reflexivity|].
  destruct first; [|reflexivity].
  rewrite (fmt4_neg c (not_approx0_sign c E0 El)). reflexivity.
Qed.

Lemma coef_piece_ok v c p : valid_var v = true -> coef_piece v c = Some p -> piece_ok p.
Proof.
  intros Hv. unfold coef_piece. destruct (approx_equal c 1); [intros H; inversion H; exact Hv|].
  destruct (approx_equal c (-(1))); [intros H; inversion H; exact Hv|].
  destruct (approx_equal c 0) eqn:E0; [discriminate|]. cbn [negb].
  destruct (qlt 0 c) eqn:El; intros H; inversion H; subst; cbn [piece_ok]; (split; [|exact Hv]).
  - apply fmt4_numtok. now apply qlt_iff.
  - apply fmt4_numtok. pose proof (not_approx0_sign c E0 El) as L.
    apply (Qopp_lt_compat c 0) in L. exact L.
Qed.

Fixpoint pieces_go (l : pvars) : list piece :=
  match l with
  | [] => []
  | (v, c) :: r => match coef_piece v c with Some p => p :: pieces_go r | None => pieces_go r end
  end.
Fixpoint pieces_render (first : bool) (ps : list piece) : string :=
  match ps with
  | [] => ""
  | p :: r => piece_render first p ++ pieces_render false r
  end.

Lemma lhs_terms_go_pieces l : lhs_terms_go l = map ptree (pieces_go l).
Proof.
  induction l as [|[v c] r IH]; [reflexivity|]. cbn [lhs_terms_go pieces_go]. rewrite coef_term_piece.
  destruct (coef_piece v c); cbn [option_map map]; now rewrite IH.
Qed.
Lemma lhs_go_false l : lhs_go false l = pieces_render false (pieces_go l).
Proof.
  induction l as [|[v c] r IH]; [reflexivity|]. cbn [lhs_go pieces_go]. rewrite lhs_piece_piece, IH.
  destruct (coef_piece v c); reflexivity.
Qed.
Lemma lhs_go_true l : exists f, lhs_go true l = pieces_render f (pieces_go l).
Proof.
  destruct l as [|[v c] r]; [exists true; reflexivity|]. cbn [lhs_go pieces_go].
  rewrite lhs_piece_piece, lhs_go_false. destruct (coef_piece v c).
  - exists true. reflexivity.
  - exists false. reflexivity.
Qed.
Lemma pieces_go_ok l : Forall (fun p => valid_var (fst p) = true) l -> Forall piece_ok (pieces_go l).
Proof.
  induction 1 as [|[v c] r Hv _ IH]; [constructor|]. cbn [pieces_go].
  destruct (coef_piece v c) as [p|] eqn:E; [|exact IH]. constructor; [|exact IH].
  now apply (coef_piece_ok v c).
Qed.

(* ---------------------------------------------------------------- the rendered list against the parser *)
Lemma term_at_piece n p y : piece_ok p -> nw_head y -> term_at n (piece_body p ++ y) (snd (ntree p)) y.
Proof.
  destruct p as [s v|s u q v]; cbn [piece_ok piece_body ntree snd piece_lterm norm_lterm norm_cexpr].
  - intros Hv Hy. now apply term_at_var.
  - intros [Hu Hv] Hy. change (append ?a ?b) with (a ++ b).
    rewrite !PrinterFacts.append_assoc. now apply term_at_numvar.
Qed.

Lemma pieces_head_nw ps x : nw_head x -> nw_head (pieces_render false ps ++ x).
Proof. destruct ps as [|p r]; [auto|]. intros _. destruct p as [[] v|[] u q v]; reflexivity. Qed.

Lemma pieces_rest_at n x : nw_head x -> forall ps, Forall piece_ok ps ->
  rest_at n (map ntree ps) (pieces_render false ps ++ x) x.
Proof.
  intros Hx. induction 1 as [|p r Hp _ IH]; [reflexivity|]. cbn [map pieces_render].
  change (ntree p) with (piece_sign p, snd (ntree p)). cbn [rest_at].
  exists (piece_body p ++ pieces_render false r ++ x), (pieces_render false r ++ x). split.
  - unfold piece_render. now rewrite !PrinterFacts.append_assoc.
  - split; [|exact IH]. apply term_at_piece; [exact Hp|]. now apply pieces_head_nw.
Qed.

(* the constant *)
Lemma const_spec c : exists cs u q,
  fmt4 c = const_str cs u /\ numtok u q /\ const_term c = (cs, TNum (CNum q)).
Proof.
  unfold const_term. destruct (qlt c 0) eqn:El.
  - apply qlt_iff in El. exists Minus, (fmt4 (- c)), (round4 (- c)). split; [now apply fmt4_neg|].
    split; [|reflexivity]. apply fmt4_numtok. apply (Qopp_lt_compat c 0) in El. exact El.
  - destruct (Q_dec c 0) as [[L|G]|E].
    + apply qlt_iff in L. congruence.
    + exists Plus, (fmt4 c), (round4 c). split; [reflexivity|]. split; [now apply fmt4_numtok|reflexivity].
    + destruct (fmt4_zero c E) as [E1 E2]. exists Plus, "0", (round4 c). rewrite E1. split; [reflexivity|]. split; [exact E2|reflexivity].
Qed.

(* ================================================================ I. one emitted string *)
Lemma norm_lterms_Terms s t rest : norm_lterms (Terms s t rest) = Terms s (norm_lterm t) (norm_rest rest).
Proof.
  cbn [norm_lterms]. f_equal. unfold norm_rest.
  induction rest as [|[s' t'] r IH]; [reflexivity|]. cbn [map fst snd]. now rewrite IH.
Qed.
Lemma norm_plain_side l : norm_side (plain_side l) = plain_side (norm_rest l).
Proof. unfold norm_side, plain_side, norm_rest. rewrite !map_map. reflexivity. Qed.
Lemma norm_rest_ptree ps : norm_rest (map ptree ps) = map ntree ps.
Proof. unfold norm_rest. rewrite map_map. reflexivity. Qed.

Lemma lhs_str_spec t : term_vars_valid t ->
  exists f ps, lhs_str t = pieces_render f ps /\ lhs_terms t = map ptree ps /\ Forall piece_ok ps.
Proof.
  intros Hv. unfold lhs_str, lhs_terms. destruct (lhs_go_true (sort_by_name (tvars t))) as [f Ef].
  exists f, (pieces_go (sort_by_name (tvars t))). split; [exact Ef|]. split; [apply lhs_terms_go_pieces|].
  apply pieces_go_ok. eapply Permutation_Forall; [|exact Hv]. apply Permutation_sym, sort_perm.
Qed.

Lemma lhs_parse_data n t x : term_vars_valid t -> lhs_terms t <> [] -> nw_head x ->
  exists f s B tt y l,
    append (lhs_str t) x = sym_render f s ++ B /\ term_at n B tt y /\ rest_at n l y x /\
    norm_rest (lhs_terms t) = (s, tt) :: l.
Proof.
  intros Hv Hne Hx. destruct (lhs_str_spec t Hv) as [f [ps [Es [Et Hok]]]].
  destruct ps as [|p r]; [exfalso; apply Hne; rewrite Et; reflexivity|].
  inversion Hok as [|? ? Hp Hr]; subst.
  exists f, (piece_sign p), (piece_body p ++ pieces_render false r ++ x), (snd (ntree p)),
         (pieces_render false r ++ x), (map ntree r).
  split; [|split; [|split]].
  - rewrite Es. cbn [pieces_render]. unfold piece_render. change (append ?a ?b) with (a ++ b).
    now rewrite !PrinterFacts.append_assoc.
  - apply term_at_piece; [exact Hp|]. now apply pieces_head_nw.
  - now apply pieces_rest_at.
  - rewrite Et, norm_rest_ptree. reflexivity.
Qed.

Definition item_head (it : item) : pterm :=
  match it with ILeq t => t | IEq tp _ | IAbs0 tp _ | IAbsLeq tp _ => tp end.

(* the parser reads every emitted string back to the tree the printer spelled, literals reduced *)
Theorem item_roundtrip it e : term_vars_valid (item_head it) -> item_ast it = Some e ->
  Grammar.parse_expr (item_str it) = Ok (norm_expr e).
Proof.
  destruct it as [t|tp tn|tp tn|tp tn]; cbn [item_head item_ast item_str]; intros Hv He.
  - destruct (const_spec (tconst t)) as [cs [u [q [Ec [Hu Et]]]]].
    destruct (lhs_terms t) as [|st l0] eqn:El; [discriminate|]. injection He as <-.
    set (n := String.length (append (lhs_str t) (append " <= " (fmt4 (tconst t))))).
    destruct (lhs_parse_data n t (" <= " ++ const_str cs u) Hv ltac:(rewrite El; discriminate) eq_refl)
      as [f [s [B [tt [y [l [E1 [E2 [E3 E4]]]]]]]]].
    apply parse_expr_of_expression. fold n. rewrite Ec. change (append " <= " ?a) with (" <= " ++ a).
    rewrite E1, (expression_leq n f s B tt y l cs u q Hu E2 E3).
    cbn [norm_expr map].
    change (PPlain (ATerm (fst st) (snd st)) :: plain_side l0) with (plain_side (st :: l0)).
    change [PPlain (ATerm (fst (const_term (tconst t))) (snd (const_term (tconst t))))]
      with (plain_side [const_term (tconst t)]).
    rewrite !norm_plain_side, <- El, E4, Et. reflexivity.
  - destruct (const_spec (tconst tp)) as [cs [u [q [Ec [Hu Et]]]]].
    destruct (lhs_terms tp) as [|[s0 t0] l0] eqn:El; [discriminate|]. cbn [mk_lterms] in He. injection He as <-.
    set (n := String.length (append (lhs_str tp) (append " = " (fmt4 (tconst tp))))).
    destruct (lhs_parse_data n tp (" = " ++ const_str cs u) Hv ltac:(rewrite El; discriminate) eq_refl)
      as [f [s [B [tt [y [l [E1 [E2 [E3 E4]]]]]]]]].
    apply parse_expr_of_expression. fold n. rewrite Ec. change (append " = " ?a) with (" = " ++ a).
    rewrite E1, (expression_eq n f s B tt y l cs u q Hu E2 E3).
    rewrite El in E4. cbn [norm_rest map fst snd] in E4. injection E4 as <- <- <-.
    cbn [norm_expr]. rewrite !norm_lterms_Terms, Et. reflexivity.
  - discriminate.
  - destruct (const_spec (tconst tp)) as [cs [u [q [Ec [Hu Et]]]]].
    destruct (lhs_terms tp) as [|[s0 t0] l0] eqn:El; [discriminate|]. cbn [mk_lterms] in He. injection He as <-.
    set (n := String.length (append "|" (append (lhs_str tp) (append "| <= " (fmt4 (tconst tp)))))).
    destruct (lhs_parse_data n tp ("| <= " ++ const_str cs u) Hv ltac:(rewrite El; discriminate) eq_refl)
      as [f [s [B [tt [y [l [E1 [E2 [E3 E4]]]]]]]]].
    apply parse_expr_of_expression. fold n. rewrite Ec. change (append "| <= " ?a) with ("| <= " ++ a).
    change (append "|" ?a) with (String "|" a).
    rewrite E1, (expression_abs n f s B tt y l cs u q Hu E2 E3).
    rewrite El in E4. cbn [norm_rest map fst snd] in E4. injection E4 as <- <- <-.
    cbn [norm_expr map norm_side norm_pitem norm_aterm option_map]. rewrite norm_lterms_Terms.
    rewrite Et. reflexivity.
Qed.

From Coq Require Import Lra Reals Qreals.
Require Import QR Syntax ParseAll SyntaxFacts.

(* ================================================================ J. reducing the literals changes no meaning *)
Local Open Scope R_scope.
Lemma cval_norm c : cval (norm_cexpr c) = cval c.
Proof.
  induction c as [q|l IHl r IHr|l IHl r IHr|l IHl r IHr|l IHl r IHr]; cbn [norm_cexpr cval];
    [apply Qeq_eqR, Qred_correct| rewrite IHl, IHr; reflexivity ..].
Qed.
Lemma kval_norm k : kval (option_map norm_cexpr k) = kval k.
Proof. destruct k; cbn [option_map kval]; [apply cval_norm|reflexivity]. Qed.

Lemma tval_norm_both rho :
  (forall t, tval rho (norm_lterm t) = tval rho t) /\ (forall ts, tsval rho (norm_lterms ts) = tsval rho ts).
Proof.
  apply lterm_lterms_ind.
  - reflexivity.
  - intros k v. cbn [norm_lterm tval]. now rewrite cval_norm.
  - intros k. cbn [norm_lterm tval]. apply cval_norm.
  - intros ts IH. cbn [norm_lterm tval]. exact IH.
  - intros k ts IH. cbn [norm_lterm tval]. now rewrite cval_norm, IH.
  - intros s t rest IHt IHr. rewrite norm_lterms_Terms, !SyntaxFacts.tsval_Terms, IHt. f_equal.
    unfold norm_rest. induction IHr as [|[s' t'] r Hp _ IH]; [reflexivity|].
    cbn [map restval fst snd] in *. now rewrite Hp, IH.
Qed.
Lemma tval_norm rho t : tval rho (norm_lterm t) = tval rho t.
Proof. apply (proj1 (tval_norm_both rho)). Qed.
Lemma tsval_norm rho ts : tsval rho (norm_lterms ts) = tsval rho ts.
Proof. apply (proj2 (tval_norm_both rho)). Qed.
Lemma aval_norm rho a : aval rho (norm_aterm a) = aval rho a.
Proof. destruct a as [s t|s k b]; cbn [norm_aterm aval]; [now rewrite tval_norm|now rewrite kval_norm, tsval_norm]. Qed.
Lemma sum_aval_norm rho l : sum_aval rho (map norm_aterm l) = sum_aval rho l.
Proof. unfold sum_aval. induction l as [|a l IH]; [reflexivity|]. cbn [map fold_right]. now rewrite aval_norm, IH. Qed.
Lemma pval_norm rho p : pval rho (norm_pitem p) = pval rho p.
Proof. destruct p as [s k l|a]; cbn [norm_pitem pval]; [now rewrite kval_norm, sum_aval_norm|apply aval_norm]. Qed.
Lemma sideval_norm rho sd : sideval rho (norm_side sd) = sideval rho sd.
Proof. unfold sideval, norm_side. induction sd as [|p l IH]; [reflexivity|]. cbn [map fold_right]. now rewrite pval_norm, IH. Qed.
Lemma sides_norm rho sides : map (sideval rho) (map norm_side sides) = map (sideval rho) sides.
Proof. rewrite map_map. apply map_ext. intros sd. apply sideval_norm. Qed.

Theorem eden_norm rho e : eden rho (norm_expr e) <-> eden rho e.
Proof.
  destruct e as [l r|sides|sides]; cbn [norm_expr eden].
  - now rewrite !tsval_norm.
  - now rewrite sides_norm.
  - now rewrite sides_norm.
Qed.
Local Close Scope R_scope.

(* ================================================================ K. the folding parse actions accept the printed trees *)
Definition simple_lt (t : lterm) : Prop :=
  match t with
  | TVar _ | TNumVar (CNum _) _ | TNum (CNum _) => True
  | _ => False
  end.
Definition simple_l (l : list (sign * lterm)) : Prop := Forall (fun st => simple_lt (snd st)) l.

Lemma fold_lterm_simple t : simple_lt t -> exists x, fold_lterm t = inl x.
Proof.
  destruct t as [v|k v|k|ts|k ts]; cbn [simple_lt]; intros H; try (destruct H).
  - eexists; reflexivity.
  - destruct k; try (destruct H). eexists; reflexivity.
  - destruct k; try (destruct H). eexists; reflexivity.
Qed.
Lemma fold_signed_simple l : simple_l l -> forall acc, exists r, fold_signed fold_lterm l acc = inl r.
Proof.
  induction 1 as [|[s t] l Ht _ IH]; intros acc; cbn [fold_signed]; [eexists; reflexivity|].
  destruct (fold_lterm_simple t Ht) as [x Ex]. rewrite Ex. cbn [Py.bind]. apply IH.
Qed.
Lemma fold_lterms_simple s t l : simple_lt t -> simple_l l -> exists x, fold_lterms (Terms s t l) = inl x.
Proof.
  intros Ht Hl. rewrite fold_lterms_Terms. destruct (fold_lterm_simple t Ht) as [x Ex]. rewrite Ex.
  cbn [Py.bind]. apply fold_signed_simple, Hl.
Qed.

Lemma mapM_plain l : simple_l l ->
  exists xs, mapM fold_pitem (plain_side l) = inl xs /\ Forall (fun a => aabs a = []) xs.
Proof.
  induction 1 as [|[s t] l Ht _ IH]; [exists []; split; [reflexivity|constructor]|].
  destruct IH as [xs [E Hx]]. destruct (fold_lterm_simple t Ht) as [x Ex].
  cbn [plain_side map mapM fst snd fold_pitem fold_aterm]. fold (plain_side l).
  rewrite Ex. cbn [Py.bind Py.ret]. rewrite E. cbn [Py.bind Py.ret].
  eexists. split; [reflexivity|]. constructor; [reflexivity|exact Hx].
Qed.
Lemma satl_add_noabs a b : aabs b = [] -> aabs (satl_add a b) = aabs a.
Proof. intros H. unfold satl_add. cbn [aabs]. rewrite H. reflexivity. Qed.
Lemma fold_satl_add_noabs xs : Forall (fun a => aabs a = []) xs ->
  forall acc, aabs (fold_left satl_add xs acc) = aabs acc.
Proof.
  induction 1 as [|a l Ha _ IH]; intros acc; [reflexivity|]. cbn [fold_left]. rewrite IH. now apply satl_add_noabs.
Qed.
Lemma fold_side_plain l : simple_l l -> exists a, fold_side (plain_side l) = inl a /\ aabs a = [].
Proof.
  intros Hl. destruct (mapM_plain l Hl) as [xs [E Hx]]. unfold fold_side. rewrite E. cbn [Py.bind Py.ret].
  eexists. split; [reflexivity|]. now rewrite fold_satl_add_noabs.
Qed.
Lemma fold_side_abs L : (exists b, fold_lterms L = inl b) ->
  exists a, fold_side [PPlain (AAbs Plus None L)] = inl a /\ forallb abs_is_positive (aabs a) = true.
Proof.
  intros [b Eb]. unfold fold_side. cbn [mapM fold_pitem fold_aterm]. cbn [Py.bind Py.ret]. rewrite Eb.
  cbn [Py.bind Py.ret]. eexists. split; reflexivity.
Qed.

Lemma fold_leq_two sd1 sd2 a1 a2 : fold_side sd1 = inl a1 -> fold_side sd2 = inl a2 ->
  forallb abs_is_positive (aabs a1) = true -> aabs a2 = [] ->
  exists ts, fold_expr (ELeq [sd1; sd2]) = inl ts.
Proof.
  intros E1 E2 Hp H2. unfold fold_expr, Syntax.parse_expr. cbn [mapM]. rewrite E1, E2.
  cbn [Py.bind Py.ret expression_to_polyhedral_terms]. unfold ineq_expression_to_polyhedral_terms.
  cbn [List.length Nat.ltb Nat.leb adjacent concat_mapM]. unfold pair_terms at 1.
  assert (Ea : aabs (pair_difference OpLeq (a1, a2)) = aabs a1).
  { cbn [pair_difference fst snd]. apply satl_add_noabs. unfold satl_negate. cbn [aabs]. rewrite H2. reflexivity. }
  unfold check_absolute_terms. rewrite Ea, Hp. cbn [Py.bind Py.ret]. eexists. reflexivity.
Qed.

Lemma simple_norm_rest l : Forall (fun st => simple_lt (snd st)) l ->
  Forall (fun st => simple_lt (snd st)) (norm_rest l).
Proof.
  induction 1 as [|[s t] l Ht _ IH]; [constructor|]. cbn [norm_rest map fst snd]. constructor; [|exact IH].
  cbn [snd] in *. destruct t as [v|k v|k|ts|k ts]; cbn [simple_lt norm_lterm] in *; try exact Ht;
    destruct k; cbn [norm_cexpr]; exact Ht.
Qed.
Lemma simple_ptree ps : simple_l (map ptree ps).
Proof. induction ps as [|p r IH]; [constructor|]. constructor; [destruct p; exact I|exact IH]. Qed.
Lemma simple_const c : simple_l [const_term c].
Proof. constructor; [|constructor]. unfold const_term. destruct (qlt c 0); exact I. Qed.
Lemma simple_lhs_terms t : simple_l (lhs_terms t).
Proof. unfold lhs_terms. rewrite lhs_terms_go_pieces. apply simple_ptree. Qed.

Theorem item_fold_ok it e : item_ast it = Some e -> exists ts, fold_expr (norm_expr e) = inl ts.
Proof.
  destruct it as [t|tp tn|tp tn|tp tn]; cbn [item_ast]; intros He.
  - pose proof (simple_lhs_terms t) as Hs.
    destruct (lhs_terms t) as [|st l0] eqn:El; [discriminate|]. injection He as <-.
    change (PPlain (ATerm (fst st) (snd st)) :: plain_side l0) with (plain_side (st :: l0)).
    change [PPlain (ATerm (fst (const_term (tconst t))) (snd (const_term (tconst t))))]
      with (plain_side [const_term (tconst t)]).
    cbn [norm_expr map]. rewrite !norm_plain_side.
    destruct (fold_side_plain _ (simple_norm_rest _ Hs)) as [a1 [E1 A1]].
    destruct (fold_side_plain _ (simple_norm_rest _ (simple_const (tconst t)))) as [a2 [E2 A2]].
    apply (fold_leq_two _ _ a1 a2 E1 E2); [rewrite A1; reflexivity|exact A2].
  - pose proof (simple_lhs_terms tp) as Hs.
    destruct (lhs_terms tp) as [|[s0 t0] l0] eqn:El; [discriminate|]. cbn [mk_lterms] in He. injection He as <-.
    cbn [norm_expr]. rewrite !norm_lterms_Terms.
    apply simple_norm_rest in Hs. cbn [norm_rest map fst snd] in Hs. inversion Hs as [|? ? H1 H2]; subst.
    pose proof (simple_norm_rest _ (simple_const (tconst tp))) as Hc.
    destruct (const_term (tconst tp)) as [cs ct]. cbn [norm_rest map fst snd] in Hc.
    inversion Hc as [|? ? H3 _]; subst. cbn [snd fst] in *.
    destruct (fold_lterms_simple s0 _ _ H1 H2) as [x Ex].
    destruct (fold_lterms_simple cs _ [] H3 ltac:(constructor)) as [y Ey].
    unfold fold_expr, Syntax.parse_expr. unfold norm_rest in *. cbn [map] in *. rewrite Ex, Ey. cbn [Py.bind Py.ret]. eexists. reflexivity.
  - discriminate.
  - pose proof (simple_lhs_terms tp) as Hs.
    destruct (lhs_terms tp) as [|[s0 t0] l0] eqn:El; [discriminate|]. cbn [mk_lterms] in He. injection He as <-.
    change [PPlain (ATerm (fst (const_term (tconst tp))) (snd (const_term (tconst tp))))]
      with (plain_side [const_term (tconst tp)]).
    cbn [norm_expr map]. rewrite norm_plain_side.
    cbn [norm_side map norm_pitem norm_aterm option_map]. rewrite norm_lterms_Terms.
    apply simple_norm_rest in Hs. cbn [norm_rest map fst snd] in Hs. inversion Hs as [|? ? H1 H2]; subst.
    cbn [snd] in H1.
    destruct (fold_side_abs _ (fold_lterms_simple s0 _ _ H1 H2)) as [a1 [E1 A1]].
    destruct (fold_side_plain _ (simple_norm_rest _ (simple_const (tconst tp)))) as [a2 [E2 A2]].
    apply (fold_leq_two _ _ a1 a2 E1 E2 A1 A2).
Qed.

(* ================================================================ L. strings -> terms, one string and the whole list *)
Theorem item_parse_terms it e : term_vars_valid (item_head it) -> item_ast it = Some e ->
  exists ts', parse_terms (item_str it) = inl ts' /\ forall rho, sat_list rho ts' <-> eden rho e.
Proof.
  intros Hv He. destruct (item_fold_ok it e He) as [ts' Ef]. exists ts'. split.
  - unfold parse_terms. rewrite (item_roundtrip it e Hv He). rewrite Ef. reflexivity.
  - intros rho. rewrite (fold_sound _ _ Ef rho). apply eden_norm.
Qed.

Lemma items_heads_valid ts : vars_valid ts -> Forall (fun it => term_vars_valid (item_head it)) (items ts).
Proof.
  intros Hv. destruct (to_str_list_partition ts) as [P _].
  assert (H : Forall term_vars_valid (List.concat (map item_terms (items ts)))).
  { eapply Permutation_Forall; [apply Permutation_sym, P|exact Hv]. }
  rewrite Forall_concat, Forall_map in H. eapply Forall_impl; [|exact H].
  intros it Hit. destruct it; cbn [item_terms item_head] in *; now inversion Hit.
Qed.

(* every printed string is read back to the tree the printer spelled *)
Theorem strings_roundtrip ts : printable ts -> vars_valid ts ->
  Forall2 (fun s o => exists e, o = Some e /\ Grammar.parse_expr s = Ok (norm_expr e))
          (to_str_list ts) (to_ast_list ts).
Proof.
  intros Hp Hv. pose proof (items_heads_valid ts Hv) as Hh.
  rewrite to_str_list_items. unfold to_ast_list, printable in *.
  induction (items ts) as [|it l IH]; [constructor|].
  inversion Hp as [|? ? Hp1 Hp2]; inversion Hh as [|? ? Hh1 Hh2]; subst. cbn [map]. constructor; [|now apply IH].
  destruct (item_ast it) as [e|] eqn:Ea; [|congruence]. exists e. split; [reflexivity|].
  now apply item_roundtrip.
Qed.

(* parsing every printed string and concatenating the results *)
Theorem parse_all_printed ts : printable ts -> vars_valid ts ->
  exists ts', parse_all (to_str_list ts) = inl ts' /\
              forall rho, sat_list rho ts' <-> ast_meaning rho (to_ast_list ts).
Proof.
  intros Hp Hv. pose proof (items_heads_valid ts Hv) as Hh.
  rewrite to_str_list_items. unfold to_ast_list, printable, ast_meaning, parse_all in *.
  induction (items ts) as [|it l IH].
  - exists []. split; [reflexivity|]. intros rho. split; constructor.
  - inversion Hp as [|? ? Hp1 Hp2]; inversion Hh as [|? ? Hh1 Hh2]; subst.
    destruct (IH Hp2 Hh2) as [ts2 [E2 M2]].
    destruct (item_ast it) as [e|] eqn:Ea; [|congruence].
    destruct (item_parse_terms it e Hh1 Ea) as [ts1 [E1 M1]].
    exists (ts1 ++ ts2)%list. split.
    + cbn [map concat_mapM]. rewrite E1. cbn [Py.bind]. rewrite E2. reflexivity.
    + intros rho. rewrite sat_list_app, M1, M2. cbn [map]. rewrite Ea. split.
      * intros [A B]. constructor; [exists e; auto|exact B].
      * intros H. inversion H as [|? ? [e' [Ee A]] B]; subst. injection Ee as <-. auto.
Qed.

Corollary parse_all_printed_rounded ts : printable ts -> vars_valid ts ->
  exists ts', parse_all (to_str_list ts) = inl ts' /\
              forall rho, sat_list rho ts' <-> Forall (item_rounded_den rho) (items ts).
Proof.
  intros Hp Hv. destruct (parse_all_printed ts Hp Hv) as [ts' [E M]]. exists ts'. split; [exact E|].
  intros rho. rewrite (M rho). now apply print_meaning_rounded.
Qed.
Corollary parse_all_printed_rounded_terms ts :
  Forall partner_rounds_to_mirror (items ts) -> printable ts -> vars_valid ts ->
  exists ts', parse_all (to_str_list ts) = inl ts' /\
              forall rho, sat_list rho ts' <-> sat_list rho (map rounded_term ts).
Proof.
  intros Hx Hp Hv. destruct (parse_all_printed ts Hp Hv) as [ts' [E M]]. exists ts'. split; [exact E|].
  intros rho. rewrite (M rho). now apply print_meaning_rounded_terms.
Qed.
Corollary parse_all_printed_exact ts : Forall exact_item (items ts) -> printable ts -> vars_valid ts ->
  exists ts', parse_all (to_str_list ts) = inl ts' /\ forall rho, sat_list rho ts' <-> sat_list rho ts.
Proof.
  intros Hx Hp Hv. destruct (parse_all_printed ts Hp Hv) as [ts' [E M]]. exists ts'. split; [exact E|].
  intros rho. rewrite (M rho). now apply print_meaning_exact_pairs.
Qed.

(* the two statements of props/C10b.v that are not list-level *)
Theorem fmt4_token q x : (0 < q)%Q -> sp_head x ->
  exists txt, fpn (fmt4 q ++ x) = ROk txt x /\ literal_value txt = Qred (round4 q).
Proof. intros Hq Hx. exact (fpn_numtok (fmt4 q) (round4 q) x (fmt4_numtok q Hq) Hx). Qed.

Theorem item_parse_terms_rounded it e : term_vars_valid (item_head it) -> item_ast it = Some e ->
  exists ts', parse_terms (item_str it) = inl ts' /\ forall rho, sat_list rho ts' <-> item_rounded_den rho it.
Proof.
  intros Hv He. destruct (item_parse_terms it e Hv He) as [ts' [E M]]. exists ts'. split; [exact E|].
  intros rho. rewrite (M rho). exact (item_ast_meaning rho it e He).
Qed.
