(* TermGenBase.v — helper lemmas for the T1 tie of PolyhedralTerm (see TermGenFacts.v). *)
From Coq Require Import List String Bool QArith ZArith Lia.
Import ListNotations.
Require Import Py ListsGen Sem PyDict Term TermGen ListsFacts TermFacts.
Open Scope py_scope.
Local Open Scope Q_scope.

(* ------------------------------------------------------------------ *)
(** * The monad and the loop primitives *)
Lemma bind_ret_l {A B} (a : A) (f : A -> M B) : bind (ret a) f = f a.
Proof. reflexivity. Qed.
Lemma bind_ret_r {A} (m : M A) : bind m ret = m.
Proof. destruct m; reflexivity. Qed.

(* a loop whose body never breaks and never raises is a fold *)
Lemma for_list_fold {X A} (f : A -> X -> A) body (l : list X) acc :
  (forall a x, In x l -> body a x = Continue (f a x)) ->
  for_list l acc body = fold_left f l acc.
Proof.
  revert acc. induction l as [|x r IH]; intros acc Hb; [reflexivity|].
  cbn [for_list fold_left]. rewrite (Hb acc x) by (left; reflexivity).
  apply IH. intros a y Hy. apply Hb. right. exact Hy.
Qed.
Lemma for_list_m_fold {X A} (f : A -> X -> A) body (l : list X) acc :
  (forall a x, In x l -> body a x = ret (Continue (f a x))) ->
  for_list_m l acc body = ret (fold_left f l acc).
Proof.
  revert acc. induction l as [|x r IH]; intros acc Hb; [reflexivity|].
  cbn [for_list_m fold_left]. rewrite (Hb acc x) by (left; reflexivity). rewrite bind_ret_l.
  apply IH. intros a y Hy. apply Hb. right. exact Hy.
Qed.
Lemma for_items_fold {A} (f : A -> var -> Q -> A) body (l : pvars) acc :
  (forall a k v, In (k, v) l -> body a k v = Continue (f a k v)) ->
  for_items l acc body = fold_left (fun a p => f a (fst p) (snd p)) l acc.
Proof.
  intros Hb. unfold for_items. apply for_list_fold. intros a [k v] Hi. apply Hb. exact Hi.
Qed.
Lemma for_items_m_fold {A} (f : A -> var -> Q -> A) body (l : pvars) acc :
  (forall a k v, In (k, v) l -> body a k v = ret (Continue (f a k v))) ->
  for_items_m l acc body = ret (fold_left (fun a p => f a (fst p) (snd p)) l acc).
Proof.
  intros Hb. unfold for_items_m. apply for_list_m_fold. intros a [k v] Hi. apply Hb. exact Hi.
Qed.

(* ------------------------------------------------------------------ *)
(** * Building a dict item by item *)
Lemma dict_set_fresh acc k q : ~ In k (keys acc) -> dict_set acc k q = acc ++ [(k, q)].
Proof.
  induction acc as [|[k' q'] r IH]; intros Hn; [reflexivity|].
  cbn [dict_set app]. destruct (String.eqb k' k) eqn:E.
  - apply String.eqb_eq in E. subst k'. exfalso. apply Hn. left. reflexivity.
  - rewrite IH; [reflexivity|]. intros Hi. apply Hn. right. exact Hi.
Qed.

Lemma keys_app (l1 l2 : pvars) : keys (l1 ++ l2) = keys l1 ++ keys l2.
Proof. unfold keys. apply map_app. Qed.

Lemma NoDup_app_cons_l {A} (l1 : list A) x l2 : NoDup (l1 ++ x :: l2) -> ~ In x l1 /\ NoDup ((l1 ++ [x]) ++ l2).
Proof.
  intros H. split.
  - apply NoDup_remove_2 in H. intros Hi. apply H. apply in_or_app. left. exact Hi.
  - rewrite <- app_assoc. exact H.
Qed.

(* {k: g k v for k, v in l if c k v}, built with d[k] = … from acc, when all keys are new and distinct *)
Lemma fold_build (c : var -> Q -> bool) (g : var -> Q -> Q) l acc :
  NoDup (keys acc ++ keys l) ->
  fold_left (fun a p => if c (fst p) (snd p) then dict_set a (fst p) (g (fst p) (snd p)) else a) l acc
  = acc ++ map (fun p => (fst p, g (fst p) (snd p))) (filter (fun p => c (fst p) (snd p)) l).
Proof.
  revert acc. induction l as [|[k v] r IH]; intros acc Hnd.
  - cbn. rewrite app_nil_r. reflexivity.
  - cbn [fold_left filter fst snd]. cbn [keys map fst] in Hnd. fold (keys r) in Hnd.
    destruct (NoDup_app_cons_l _ _ _ Hnd) as [Hk Hnd'].
    destruct (c k v) eqn:E.
    + rewrite (dict_set_fresh acc k _ Hk). rewrite IH.
      * cbn [map fst snd]. rewrite <- app_assoc. reflexivity.
      * rewrite keys_app. exact Hnd'.
    + apply IH. apply NoDup_remove_1 in Hnd. exact Hnd.
Qed.

Lemma filter_true {A} (l : list A) : filter (fun _ => true) l = l.
Proof. induction l as [|x r IH]; [reflexivity|]. cbn. rewrite IH. reflexivity. Qed.
Lemma map_pair_eta (l : pvars) : map (fun p => (fst p, snd p)) l = l.
Proof. induction l as [|[k v] r IH]; [reflexivity|]. cbn. rewrite IH. reflexivity. Qed.

(* the dict comprehension whose key is the iteration key *)
Lemma dict_comp_map (c : var -> Q -> bool) (g : var -> Q -> Q) d :
  NoDup (keys d) ->
  dict_comp d c (fun k _ => k) g
  = map (fun p => (fst p, g (fst p) (snd p))) (filter (fun p => c (fst p) (snd p)) d).
Proof.
  intros Hnd. unfold dict_comp.
  rewrite (for_items_fold (fun a k v => if c k v then dict_set a k (g k v) else a)).
  - rewrite (fold_build c g d dict_empty Hnd). reflexivity.
  - intros a k v _. destruct (c k v); reflexivity.
Qed.
Lemma dict_comp_m_ret (c : var -> Q -> bool) key (g : var -> Q -> Q) value d :
  (forall k v, In (k, v) d -> c k v = true -> value k v = ret (g k v)) ->
  dict_comp_m d c key value = ret (dict_comp d c key g).
Proof.
  intros Hv. unfold dict_comp_m, dict_comp.
  rewrite (for_items_m_fold (fun a k v => if c k v then dict_set a (key k v) (g k v) else a)).
  - rewrite (for_items_fold (fun a k v => if c k v then dict_set a (key k v) (g k v) else a)); [reflexivity|].
    intros a k v _. destruct (c k v); reflexivity.
  - intros a k v Hi. destruct (c k v) eqn:E; [|reflexivity]. rewrite (Hv k v Hi E). reflexivity.
Qed.

(* for var in vl: d[var] = h var *)
Lemma fold_set_vars (h : var -> Q) vl acc :
  NoDup (keys acc ++ vl) ->
  fold_left (fun a v => dict_set a v (h v)) vl acc = acc ++ map (fun v => (v, h v)) vl.
Proof.
  revert acc. induction vl as [|v r IH]; intros acc Hnd.
  - cbn. rewrite app_nil_r. reflexivity.
  - cbn [fold_left map]. destruct (NoDup_app_cons_l _ _ _ Hnd) as [Hk Hnd'].
    rewrite (dict_set_fresh acc v _ Hk), IH.
    + rewrite <- app_assoc. reflexivity.
    + rewrite keys_app. exact Hnd'.
Qed.

(* ------------------------------------------------------------------ *)
(** * Lookups *)
Lemma py_in_keys v (l : pvars) : py_in v (keys l) = has_key v l.
Proof.
  unfold has_key. induction l as [|[k q] r IH]; [reflexivity|].
  cbn [keys map fst py_in existsb assoc]. cbn [py_eqb PyEq_var]. rewrite (String.eqb_sym v k).
  destruct (String.eqb k v); [reflexivity|]. exact IH.
Qed.
Lemma dict_get_coef d k : In k (keys d) -> dict_get d k = ret (coef d k).
Proof.
  intros Hi. destruct (assoc_in_keys k d Hi) as [q Hq]. unfold dict_get, coef. rewrite Hq. reflexivity.
Qed.
Lemma has_key_assoc k d : has_key k d = true -> exists q, assoc k d = Some q.
Proof. unfold has_key. destruct (assoc k d) as [q|]; [eauto|discriminate]. Qed.

(* the coefficient stored for v, if there is one, is not 0 *)
Definition nz_at (t : pterm) (v : var) : Prop := forall q, assoc v (tvars t) = Some q -> ~ (q == 0).
Lemma nzl_nz_at t v : nzl (tvars t) -> nz_at t v.
Proof.
  intros Hnz q Hq. apply assoc_some_in in Hq. unfold nzl in Hnz. rewrite Forall_forall in Hnz.
  apply (Hnz (v, q) Hq).
Qed.
Lemma wft'_nz_at t v : wft' t -> nz_at t v.
Proof. intros [_ H]. apply nzl_nz_at. exact H. Qed.
