(* PrinterGenLhs.v — serializer._lhs_str (generated) = Printer.lhs_str.  No precondition.
   The generated loop carries (res, first); the hand model folds [lhs_piece] with the flag.  [lhs_loop] reads ANY
   loop whose body appends the piece of the hand model and clears the flag; the theorem then checks, branch by
   branch, that the generated body does exactly that (which closeness test, in which order, which sign, which
   separator, coefficient 1 / -1 printed as nothing, `first = False` for every variable). *)
From Coq Require Import List String Bool QArith Qabs ZArith Lia.
Import ListNotations.
Require Import Py Sem PyDict PyLoop PySyntax PyTermList PyPrint Term ConstGen TermGen Printer.
Require Import TermFacts PrinterFacts TermGenBase TermGenCore PrinterGen PrinterGenBase.
Open Scope py_scope.
Local Open Scope string_scope.

Lemma lhs_loop (body : string * bool -> var * Q -> ctl (string * bool)) (l : pvars) :
  (forall res first v c, body (res, first) (v, c) = Continue (res ++ lhs_piece first v c, false)) ->
  forall res first,
    for_list l (res, first) body = (res ++ lhs_go first l, match l with [] => first | _ => false end).
Proof.
  intros Hb. induction l as [|[v c] r IH]; intros res first.
  - cbn [for_list lhs_go]. rewrite append_nil_r. reflexivity.
  - cbn [for_list lhs_go]. rewrite Hb, IH, append_assoc. destruct r; reflexivity.
Qed.

Theorem lhs_str_eq t : @serializer__lhs_str model_prims t = lhs_str t.
Proof.
  unfold serializer__lhs_str, lhs_str, py_list_copy, dict_items.
  rewrite (sort_by_str_name (fun x => var_name (fst x)) (tvars t)) by reflexivity.
  rewrite lhs_loop.
  - rewrite append_nil_l. reflexivity.
  - intros res first v c. unfold lhs_piece, var_name, py_float, qgt.
    pg_norm. rewrite fmt4_qneg.
    change (approx_equal c (1 # 1)) with (approx_equal c 1).
    change (approx_equal c (-1 # 1)) with (approx_equal c (-(1))).
    change (approx_equal c (0 # 1)) with (approx_equal c 0).
    change (qlt (0 # 1) c) with (qlt 0 c).
    destruct (approx_equal c 1); [destruct first; reflexivity|].
    destruct (approx_equal c (-(1))); [destruct first; reflexivity|].
    destruct (approx_equal c 0); cbn [negb]; [rewrite append_nil_r; reflexivity|].
    destruct (qlt 0 c); destruct first; rewrite ?append_assoc; reflexivity.
Qed.
