(* TermGenFacts.v — the obligations that tie the hand model of PolyhedralTerm (model/Term.v) to the
   code: for every method f translated by translator/py2coq.py into gen/TermGen.v (regenerated from
   /repo/src on every run), the generated function equals the hand model,

       PolyhedralTerm_f args = term_f args            (pure methods)
       PolyhedralTerm_f args = ret (term_f args)      (methods in which Python may raise implicitly:
                                                       the theorem also says that it never does)
       PolyhedralTerm_f args = term_f args            (both monadic: isolate_variable, get_polarity, get_sign)

   A semantic change of a method changes gen/TermGen.v and one of these proofs stops compiling.

   Preconditions, and why each is needed:
   * [wft t] (the keys of the association list are pairwise distinct) wherever the Python builds a
     dict item by item (constructor, comprehension, loop with d[k] = v) and the hand model uses
     map/filter: an association list with a repeated key denotes no Python dict, and on such a
     list the two differ (the item-by-item construction merges the repeated key).
   * [nz_at t v] (the coefficient stored for v, if any, is not 0) for remove_variable,
     substitute_variable, isolate_variable, and [nzl (tvars t)] for rename_variable: a PolyhedralTerm
     built by the constructor never stores a 0 coefficient, but `t.variables[x] = 0` can make one.
     On such an object the PYTHON raises (copy() drops the 0 entry, then `.pop(x)` / `[x]` raise
     KeyError; `-v / 0.0` raises ZeroDivisionError) while the hand model returns a term.  See the
     Examples at the end: this is a (documented) gap of the hand model outside its well-formedness
     invariant, not reachable through the constructor. *)

(* split by method so that a change of one method breaks only the obligations that depend on it *)
Require Export TermGenBase TermGenCore TermGenArith TermGenRemove TermGenSubst TermGenIsolate TermGenRename TermGenPolarity.
