(* TermGenRemove.v — T1 tie: remove_variable (see TermGenFacts.v). *)
From Coq Require Import List String Bool QArith ZArith Lia.
Import ListNotations.
Require Import Py ListsGen Sem PyDict Term TermGen ListsFacts TermFacts TermGenBase TermGenCore TermGenArith.
Open Scope py_scope.
Local Open Scope Q_scope.

(** remove_variable : `that.variables.pop(var)` does not raise when the stored coefficient is not 0 *)
Theorem remove_variable_eq t v :
  wft t -> nz_at t v -> PolyhedralTerm_remove_variable t v = ret (term_remove_variable t v).
Proof.
  intros H Hnz. unfold PolyhedralTerm_remove_variable, term_remove_variable.
  rewrite contains_var_eq, (copy_eq t H).
  destruct (contains_var t v) eqn:E; [|reflexivity]. cbv zeta.
  assert (Hk : has_key v (tvars (term_copy t)) = true).
  { apply contains_var_in in E. unfold term_vars_p in E. destruct (assoc_in_keys v _ E) as [q Hq].
    apply has_key_in. unfold term_copy. rewrite mk_term_vars.
    apply (in_keys v q). apply filter_In. split; [apply assoc_some_in; exact Hq|].
    unfold nzb, qzero. cbn [snd]. specialize (Hnz q Hq).
    destruct (Qeq_bool q 0) eqn:Eq; [|reflexivity]. apply Qeq_bool_eq in Eq. contradiction. }
  unfold dict_pop_m. rewrite Hk. reflexivity.
Qed.
Corollary remove_variable_eq' t v :
  wft' t -> PolyhedralTerm_remove_variable t v = ret (term_remove_variable t v).
Proof. intros H. apply remove_variable_eq; [apply H|apply wft'_nz_at; exact H]. Qed.
Local Open Scope string_scope.
Example stored_zero_remove :
  let t := mkT [("x", 0); ("y", 1)] 1 in
  PolyhedralTerm_remove_variable t "x" = inr (Escape "KeyError")
  /\ term_remove_variable t "x" = mkT [("y", 1)] 1.
Proof. split; reflexivity. Qed.
