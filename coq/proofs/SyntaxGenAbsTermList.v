(* SyntaxGenAbsTermList.v — T1 tie, data.py class PolyhedralSyntaxAbsoluteTermList: expand, negate, add, is_constant
   (gen/SyntaxGen.v) against satl_expand, satl_negate, satl_add, satl_is_constant (model/Syntax.v), and the
   constructor of PolyhedralSyntaxEqlExpression (__post_init__). *)
From Coq Require Import List String Bool QArith ZArith Lia.
Import ListNotations.
Require Import Py ListsGen Sem PyDict PyLoop PySyntax Term Ast Syntax TermGen SyntaxGen.
Require Import ListsFacts TermFacts TermGenBase SyntaxFacts SyntaxGenBase SyntaxGenTermList SyntaxGenAbsTerm.
Open Scope py_scope.
Local Open Scope Q_scope.

(** add : unconditional *)
Lemma fold_combine_or_append lb la :
  fold_left data_combine_or_append lb la
  = map of_sabs (fold_left combine_or_append (map to_sabs lb) (map to_sabs la)).
Proof.
  revert la. induction lb as [|b r IH]; intros la.
  - cbn [fold_left map]. rewrite map_of_to_sabs. reflexivity.
  - cbn [fold_left map]. rewrite IH, combine_or_append_eq. reflexivity.
Qed.
Theorem satl_add_ret a b :
  PolyhedralSyntaxAbsoluteTermList_add a b = ret (of_satl (satl_add (to_satl a) (to_satl b))).
Proof.
  unfold PolyhedralSyntaxAbsoluteTermList_add, satl_add, of_satl. cbv zeta. cbn [aterms aabs to_satl].
  rewrite (for_list_fold data_combine_or_append) by (intros acc x _; reflexivity).
  rewrite stl_add_ret. cbn [bind ret]. rewrite fold_combine_or_append. reflexivity.
Qed.
Theorem satl_add_eq a b :
  mmap to_satl (PolyhedralSyntaxAbsoluteTermList_add a b) = ret (satl_add (to_satl a) (to_satl b)).
Proof. rewrite satl_add_ret. cbn [mmap ret]. rewrite to_of_satl. reflexivity. Qed.

(** negate : the term list is negated item by item into a new dict *)
Theorem satl_negate_eq a :
  gwfs (gterms a) -> to_satl (PolyhedralSyntaxAbsoluteTermList_negate a) = satl_negate (to_satl a).
Proof.
  intros H. unfold PolyhedralSyntaxAbsoluteTermList_negate, satl_negate, to_satl. cbn [gterms gabsl aterms aabs].
  rewrite (stl_negate_eq _ H). f_equal. rewrite !map_map. apply map_ext. intros x. apply abs_negate_eq.
Qed.
Corollary satl_negate_of a :
  gwfs (gterms a) -> PolyhedralSyntaxAbsoluteTermList_negate a = of_satl (satl_negate (to_satl a)).
Proof. intros H. rewrite <- (satl_negate_eq a H), of_to_satl. reflexivity. Qed.

(** expand *)
Theorem satl_expand_ret a :
  gwfatl a -> PolyhedralSyntaxAbsoluteTermList_expand a = ret (map of_stl (satl_expand (to_satl a))).
Proof.
  intros [Ht Hl]. unfold PolyhedralSyntaxAbsoluteTermList_expand, satl_expand. cbv zeta. cbn [aterms aabs to_satl].
  rewrite zlen_eqb0, zlen_ltb0. destruct (gabsl a) as [|x r] eqn:E.
  - cbn [map]. rewrite of_to_stl. reflexivity.
  - rewrite (generate_absolute_term_combinations_ret (x :: r) Hl). cbn [bind ret].
    rewrite (for_list_m_collect (fun tl => of_stl (stl_add (to_stl (gterms a)) (to_stl tl)))).
    + cbn [bind ret app]. change (map to_sabs (x :: r)) with (to_sabs x :: map to_sabs r). cbv iota.
      rewrite !map_map. f_equal; try (apply map_ext; intros tl; rewrite ?to_of_stl; reflexivity).
    + intros acc tl _. rewrite stl_add_ret. reflexivity.
Qed.
Theorem satl_expand_eq a :
  gwfatl a -> mmap (map to_stl) (PolyhedralSyntaxAbsoluteTermList_expand a) = ret (satl_expand (to_satl a)).
Proof. intros H. rewrite (satl_expand_ret a H). cbn [mmap ret]. rewrite map_to_of_stl. reflexivity. Qed.

(** is_constant *)
Theorem satl_is_constant_eq a :
  PolyhedralSyntaxAbsoluteTermList_is_constant a = satl_is_constant (to_satl a).
Proof.
  unfold PolyhedralSyntaxAbsoluteTermList_is_constant, satl_is_constant, dict_len. cbn [aterms aabs sfactors to_satl to_stl].
  rewrite !zlen_eqb0. destruct (gabsl a), (gfactors (gterms a)); reflexivity.
Qed.

(** the expression classes: PolyhedralSyntaxEqlExpression(lhs, rhs) runs __post_init__, which sets operator = eql *)
Theorem eql_expression_new lhs rhs :
  PolyhedralSyntaxEqlExpression_operator (PolyhedralSyntaxEqlExpression_new lhs rhs) = PolyhedralSyntaxOperator_eql
  /\ to_sexpr (Expr_Eql (PolyhedralSyntaxEqlExpression_new lhs rhs)) = SEql (to_stl lhs) (to_stl rhs).
Proof. split; reflexivity. Qed.
Theorem ineq_expression_new op sides :
  to_sexpr (Expr_Ineq (mk_PolyhedralSyntaxIneqExpression (of_sop op) sides)) = SIneq op (map to_satl sides).
Proof. destruct op; reflexivity. Qed.

(* ------------------------------------------------------------------ *)
(** * well-formedness on the hand-written side is preserved by add and negate (for the serializer) *)
Lemma wfbodies_combine_or_append atl term :
  wfbodies atl -> wfs (abody term) -> wfbodies (combine_or_append atl term).
Proof.
  unfold wfbodies, combine_or_append. intros Ha Ht.
  assert (Hm : Forall (fun a => wfs (abody a))
                 (map (fun a => if same_term_list a term
                                then mkAbs (abody a) (combine_optional_floats (acoef a) (acoef term)) else a) atl)).
  { apply Forall_map. rewrite Forall_forall in *. intros a Hin. specialize (Ha a Hin).
    destruct (same_term_list a term); exact Ha. }
  destruct (existsb (fun a => same_term_list a term) atl); [exact Hm|].
  apply Forall_app. split; [exact Hm|]. constructor; [exact Ht|constructor].
Qed.
Lemma wfbodies_fold lb la : wfbodies la -> wfbodies lb -> wfbodies (fold_left combine_or_append lb la).
Proof.
  revert la. induction lb as [|b r IH]; intros la Ha Hb; [exact Ha|].
  cbn [fold_left]. inversion Hb as [|? ? Hb1 Hb2]; subst. apply IH; [|exact Hb2].
  apply wfbodies_combine_or_append; assumption.
Qed.
Lemma wfb_add a b : wfb a -> wfb b -> wfb (satl_add a b).
Proof.
  intros [Ha1 Ha2] [Hb1 Hb2]. split; cbn [satl_add aterms aabs].
  - apply wfs_add_c. exact Ha1.
  - apply wfbodies_fold; assumption.
Qed.
Lemma wfb_negate a : wfb a -> wfb (satl_negate a).
Proof.
  intros [H1 H2]. split; cbn [satl_negate aterms aabs].
  - apply wfs_negate. exact H1.
  - unfold wfbodies in *. apply Forall_map. rewrite Forall_forall in *. intros x Hx. exact (H2 x Hx).
Qed.
