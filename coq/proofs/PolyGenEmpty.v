(* PolyGenEmpty.v — T1 tie of PolyhedralTermList.is_polytope_empty and is_empty (see PolyGenFacts.v). *)
From Coq Require Import List String Bool Arith QArith ZArith Lia.
Import ListNotations.
Require Import Py ListsGen ConstGen Sem PyDict PyLoop PyTermList PyNumpy Term Poly TermGen ListsFacts TermFacts
  TermGenFacts TermListGen TermListGenBase TermListGenEval PolyGen PolyGenBase PolyGenPolytope.
Open Scope py_scope.
Local Open Scope nat_scope.

(* linprog on the zero objective np.zeros((1, m)) *)
Lemma oracle_linprog_zeros O vs m (L : list row) :
  0 < m ->
  oracle_linprog O vs (np_zeros_2d 1 m) (A2 m (map fst L)) (A1 (map snd L))
  = lp_result_of (O (mkLP vs (repeat (0 # 1)%Q m) L)).
Proof.
  intros Hm. unfold oracle_linprog, np_zeros_2d. cbn [repeat lp_squeeze].
  destruct m as [|m']; [lia|]. cbn [repeat]. unfold len. cbn [List.length]. rewrite repeat_length, Nat.eqb_refl.
  cbn [negb]. rewrite !map_length, Nat.eqb_refl, combine_fst_snd. reflexivity.
Qed.

(** is_polytope_empty on the matrix np.array(rows): unconditional *)
Theorem is_polytope_empty_eq O vs (rows : list row) :
  @PolyhedralTermList_is_polytope_empty (poly_lp O) vs (mat_of (List.length vs) (map fst rows)) (A1 (map snd rows))
  = is_polytope_empty O vs rows.
Proof.
  unfold PolyhedralTermList_is_polytope_empty, is_polytope_empty. cbv zeta.
  destruct rows as [|r0 rows0]; [reflexivity|].
  set (rows := r0 :: rows0). change (mat_of (List.length vs) (map fst rows)) with (A2 (List.length vs) (map fst rows)).
  cbn [np_len np_shape py_unpack2]. unfold len. rewrite !map_length.
  replace (List.length rows =? 0) with false by reflexivity. rewrite bind_ret_l.
  destruct (List.length vs) as [|m'] eqn:Em.
  - rewrite Nat.mul_0_r. reflexivity.
  - replace (List.length rows * S m' =? 0) with false by (unfold rows; reflexivity).
    rewrite Nat.eqb_refl. cbn [Nat.eqb np_linprog poly_lp].
    rewrite (oracle_linprog_zeros O vs (S m') rows) by lia.
    destruct (O _) as [f sl| | |z|]; reflexivity.
Qed.
(* ... and on np.array([[]]) (shape (1, 0): no row over no variable) *)
Theorem is_polytope_empty_no_context O vs :
  @PolyhedralTermList_is_polytope_empty (poly_lp O) vs (A2 0 [[]]) (A1 []) = ret false.
Proof. reflexivity. Qed.

(** is_empty : unconditional *)
Theorem is_empty_eq O self : @PolyhedralTermList_is_empty (poly_lp O) self = poly_is_empty O self.
Proof.
  unfold PolyhedralTermList_is_empty, poly_is_empty. cbv zeta.
  rewrite termlist_init_eq, termlist_to_polytope_eq, bind_ret_l. cbn [opt_list]. unfold polytope_of. cbv beta iota zeta.
  set (vs := polytope_vars self []).
  rewrite <- (map_fst_rows vs self), <- (map_snd_rows vs self).
  pose proof (is_polytope_empty_eq O vs (map (term_to_row vs) self)) as HE. unfold row in HE |- *. rewrite HE.
  apply bind_ret_r.
Qed.
