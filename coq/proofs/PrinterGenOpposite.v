(* PrinterGenOpposite.v — serializer._are_polyhedral_terms_opposite (generated) = Printer.terms_opposite.
   The generated function is monadic because of `other.variables[var]` (KeyError); the equality with `ret _` also
   says that this KeyError cannot happen (the lookup sits behind `other.contains_var(var)`).  No precondition. *)
From Coq Require Import List String Bool QArith Qabs ZArith Lia.
Import ListNotations.
Require Import Py Sem PyDict PyLoop PySyntax PyTermList PyPrint Term ConstGen TermGen Printer.
Require Import TermFacts PrinterFacts TermGenBase TermGenCore PrinterGen PrinterGenBase.
Open Scope py_scope.

(* the test of the second loop, on one item of self.variables *)
Definition opp_item (other : pterm) (p : var * Q) : bool :=
  contains_var other (fst p)
  && match assoc (fst p) (tvars other) with
     | Some q => approx_equal (- snd p) q
     | None => false
     end.

Lemma terms_opposite_unfold self other :
  terms_opposite self other
  = forallb (fun v => contains_var self v) (term_vars_p other) && forallb (opp_item other) (tvars self).
Proof. reflexivity. Qed.

Theorem terms_opposite_eq self other :
  @serializer__are_polyhedral_terms_opposite model_prims self other = ret (terms_opposite self other).
Proof.
  unfold serializer__are_polyhedral_terms_opposite. rewrite terms_opposite_unfold.
  (* first loop: every variable of other occurs in self *)
  rewrite (for_ret_all (fun v => contains_var self v)).
  2:{ intros v _. rewrite contains_var_eq. destruct (contains_var self v); reflexivity. }
  unfold dict_keys, term_vars_p.
  destruct (forallb (fun v => contains_var self v) (keys (tvars other))); cbn [andb]; [|reflexivity].
  (* second loop: every variable of self occurs in other with the opposite coefficient *)
  rewrite (for_ret_m_all (opp_item other)).
  2:{ intros [v value] _. unfold opp_item. cbn [fst snd]. rewrite contains_var_eq.
      destruct (contains_var other v) eqn:Ec; cbn [negb andb]; [|reflexivity].
      destruct (contains_var_assoc _ _ Ec) as [q Hq]. rewrite Hq, (dict_get_assoc _ _ _ Hq). cbn [bind ret].
      pg_norm. rewrite approx_equal_qneg_l.
      destruct (approx_equal (- value) q); reflexivity. }
  cbn [bind ret]. unfold dict_items.
  destruct (forallb (opp_item other) (tvars self)); reflexivity.
Qed.
