(* JsonGenDict.v — the generated dict <-> contract conversions of
   src/pacti/contracts/polyhedral_iocontract.py (gen/JsonGen.v: PolyhedralIoContract_to_machine_dict, _to_dict,
   _from_dict, and PolyhedralTerm_init_dyn = PolyhedralTerm.__init__ read over dynamically typed values) are EQUAL
   to the hand model of model/Json.v (to_machine_dict, to_dict, from_dict / build_term / coef_loop): pointwise
   equality of monadic results, i.e. also WHICH exception is raised where.

   Preconditions, each shown necessary by an Example:
   - distinct keys wherever the Python builds a dict from another dict's items (a Python dict HAS distinct keys;
     an association list with a repeated key denotes no dict): [json_wf] for from_dict, [NoDup (keys (tvars t))]
     for to_machine_dict;
   - the constructor parameter [init] (IoContract.__init__, gen/AlgebraGen.v) agrees with model/Json.v's
     [pc_init] for the given simplify flag: the hand model has no simplify flag (it is the simplify=False
     reading; the caller composes with the simplifier).
   See JsonGenFacts.v. *)
From Coq Require Import List String Bool QArith ZArith Lia.
Import ListNotations.
Require Import Py Sem PyDict PyLoop Term Json PyJson JsonFacts JsonGen JsonGenBase.
Open Scope py_scope.
Local Open Scope string_scope.

(* ------------------------------------------------------------------ *)
(** * to_dict / to_machine_dict *)
Lemma map_var_name (l : list var) : map (fun x => var_name x) l = l.
Proof. unfold var_name. apply map_id. Qed.

Theorem to_dict_eq (to_str_list : list pterm -> list string) c :
  PolyhedralIoContract_to_dict to_str_list c = to_dict to_str_list c.
Proof.
  unfold PolyhedralIoContract_to_dict, to_dict. rewrite !map_var_name. reflexivity.
Qed.

Definition distinct_vars (t : pterm) : Prop := NoDup (keys (tvars t)).

Lemma term_dict_eq t :
  distinct_vars t ->
  jdict [("constant", jfloat (PyDict.py_float (tconst t)));
         ("coefficients",
          jdict (sdict_comp (tvars t) (fun '(k, v) => true) (fun '(k, v) => var_name k)
                            (fun '(k, v) => jfloat (PyDict.py_float v))))]
  = term_to_json t.
Proof.
  intros Hnd. unfold term_to_json, jdict, jfloat, PyDict.py_float. repeat f_equal.
  rewrite sdict_comp_map.
  - apply map_ext. intros [k v]. reflexivity.
  - intros [k v]. reflexivity.
  - unfold distinct_vars, keys in Hnd. erewrite map_ext; [exact Hnd|]. intros [k v]. reflexivity.
Qed.

Theorem to_machine_dict_eq c :
  Forall distinct_vars (pa c) -> Forall distinct_vars (pg c) ->
  PolyhedralIoContract_to_machine_dict c = to_machine_dict c.
Proof.
  intros Ha Hg. unfold PolyhedralIoContract_to_machine_dict, to_machine_dict. cbv zeta.
  (* a list of names built by an explicit loop with append is the comprehension *)
  rewrite ?loop_append_map. cbn [app].
  rewrite !map_var_name. unfold jstrs, jlist. rewrite !map_map.
  rewrite (map_ext_in _ term_to_json (pa c)).
  - rewrite (map_ext_in _ term_to_json (pg c)); [reflexivity|].
    intros t Ht. apply term_dict_eq. rewrite Forall_forall in Hg. apply Hg. exact Ht.
  - intros t Ht. apply term_dict_eq. rewrite Forall_forall in Ha. apply Ha. exact Ht.
Qed.

(* why distinct keys: a dict comprehension overwrites, the hand model maps *)
Definition dup_term : pterm := mkT [("x", 1%Q); ("x", 2%Q)] 0%Q.
Definition dup_contract : pcontract := {| pa := []; pg := [dup_term]; pin := []; pout := ["x"] |}.
Example to_machine_dict_needs_distinct_keys :
  PolyhedralIoContract_to_machine_dict dup_contract <> to_machine_dict dup_contract.
Proof. vm_compute. discriminate. Qed.

(* ------------------------------------------------------------------ *)
(** * PolyhedralTerm.__init__ on what from_dict hands it *)
Section Reading.
Context (s2f : string -> option Q) (pstr : json -> string).

(* the loop over variables.items(): zero values skipped, float(value), variable_dict[key] = ... *)
Lemma init_loop_eq (body : pvars -> string * json -> M (ctl pvars)) coefs acc :
  (forall a k v, body a (k, v) =
                 if json_ne_zero v then f <- json_float s2f v ;; ret (Continue (sdict_set a k f))
                 else ret (Continue a)) ->
  NoDup (skeys acc ++ skeys coefs) ->
  for_list_m coefs acc body = bind (coef_loop s2f coefs) (fun vs => ret (acc ++ vs)%list).
Proof.
  intros Hb. revert acc. induction coefs as [|[k v] r IH]; intros acc Hnd.
  - cbn. rewrite app_nil_r. reflexivity.
  - cbn [for_list_m coef_loop]. rewrite Hb. unfold json_ne_zero, json_float.
    assert (Hk : ~ In k (skeys acc)).
    { cbn [skeys map fst] in Hnd. apply NoDup_remove_2 in Hnd. intros Hin. apply Hnd. apply in_or_app. left. exact Hin. }
    destruct (ne_zero v).
    + destruct (Json.py_float s2f v) as [q|e]; [|reflexivity]. cbn [bind ret].
      rewrite sdict_set_fresh by exact Hk. rewrite IH.
      * destruct (coef_loop s2f r) as [vs|e]; [|reflexivity]. cbn [bind ret]. rewrite <- app_assoc. reflexivity.
      * unfold skeys in *. rewrite map_app, <- app_assoc. cbn [map fst app]. exact Hnd.
    + cbn [bind ret]. apply IH. cbn [skeys map fst] in Hnd. apply NoDup_remove_1 in Hnd. exact Hnd.
Qed.

Theorem term_init_dyn_eq coefs q :
  NoDup (skeys coefs) ->
  PolyhedralTerm_init_dyn s2f coefs (jfloat q) = bind (coef_loop s2f coefs) (fun vs => ret (mkT vs q)).
Proof.
  intros Hnd. unfold PolyhedralTerm_init_dyn. cbv zeta.
  rewrite (init_loop_eq _ coefs []).
  - rewrite jbind_assoc. apply jbind_ext. intros vs. reflexivity.
  - intros a k v. reflexivity.
  - exact Hnd.
Qed.

(* why distinct keys: `variable_dict[key] = float(value)` overwrites, coef_loop conses *)
Example term_init_dyn_needs_distinct_keys :
  PolyhedralTerm_init_dyn s2f [("x", JNum 1 false); ("x", JNum 2 false)] (jfloat 0)
  <> bind (coef_loop s2f [("x", JNum 1 false); ("x", JNum 2 false)]) (fun vs => ret (mkT vs 0)).
Proof. cbn. discriminate. Qed.

(* ------------------------------------------------------------------ *)
(** * from_dict *)
(* one element of the list comprehension: PolyhedralTerm({Var(k): v for k, v in x["coefficients"].items()},
   float(x["constant"])) on a dict x *)
Lemma clause_body_eq x :
  is_obj x = true -> json_wf x ->
  (t1 <- json_getitem x "coefficients" ;;
   it <- json_items t1 ;;
   t2 <- json_getitem x "constant" ;;
   f <- json_float s2f t2 ;;
   PolyhedralTerm_init_dyn s2f (sdict_comp it (fun '(k, v) => true) (fun '(k, v) => Var k) (fun '(k, v) => v)) (jfloat f))
  = build_term s2f x.
Proof.
  destruct x as [| | | | |cfs]; try discriminate. intros _ Hwf.
  unfold build_term. cbn [json_getitem].
  destruct (jget "coefficients" cfs) as [co|] eqn:Eo; cbn [bind ret raise]; [|reflexivity].
  destruct co as [|b|q i|s|l|coefs]; try reflexivity. cbn [json_items bind ret].
  destruct (jget "constant" cfs) as [cv|] eqn:Ec; cbn [bind ret raise]; [|reflexivity].
  unfold json_float. destruct (Json.py_float s2f cv) as [c|e]; [|reflexivity]. cbn [bind ret].
  assert (Hnd : NoDup (jkeys coefs)).
  { apply json_wf_obj in Hwf. destruct Hwf as [_ Hall]. rewrite Forall_forall in Hall.
    apply jget_in in Eo. specialize (Hall _ Eo). cbn [snd] in Hall. apply json_wf_obj in Hall. apply Hall. }
  assert (Hc : sdict_comp coefs (fun '(k, v) => true) (fun '(k, v) => Var k) (fun '(k, v) => v) = coefs).
  { rewrite sdict_comp_map.
    - rewrite <- (map_id coefs) at 2. apply map_ext. intros [k v]. reflexivity.
    - intros [k v]. reflexivity.
    - unfold jkeys in Hnd. erewrite map_ext; [exact Hnd|]. intros [k v]. reflexivity. }
  rewrite Hc. rewrite term_init_dyn_eq by exact Hnd. reflexivity.
Qed.

(* what iterating a well-formed value yields: the dicts among the elements are well-formed *)
Lemma iter_wf v items : json_wf v -> py_iter v = inl items -> Forall (fun x => is_obj x = true -> json_wf x) items.
Proof.
  intros Hwf Hit. destruct v as [| | |s|l|fs]; try discriminate; cbn in Hit; injection Hit as <-.
  - apply Forall_forall. intros x Hx. apply in_map_iff in Hx. destruct Hx as [c [<- _]]. discriminate.
  - apply json_wf_list in Hwf. eapply Forall_impl; [|exact Hwf]. intros x Hx _. exact Hx.
  - apply Forall_forall. intros x Hx. apply in_map_iff in Hx. destruct Hx as [c [<- _]]. discriminate.
Qed.

(* if all(isinstance(x, dict) for x in v): [PolyhedralTerm(...) for x in v] else: raise ValueError *)
Lemma build_terms_gen {R} v (F : json -> M pterm) (k : list pterm -> M R) :
  json_wf v ->
  (forall x, is_obj x = true -> json_wf x -> F x = build_term s2f x) ->
  (it <- json_iter v ;;
   if py_all it (fun x => py_isinstance x [CDict]) then
     it' <- json_iter v ;; a <- list_comp_m it' F ;; k a
   else raise ValueErr)
  = (a <- build_terms s2f v ;; k a).
Proof.
  intros Hwf HF. unfold build_terms, json_iter, list_comp_m.
  destruct (py_iter v) as [items|e] eqn:Ei; cbn [bind ret]; [|reflexivity].
  rewrite py_all_isdict. destruct (forallb is_obj items) eqn:Eall; [|reflexivity].
  rewrite (mapM_ext_in F (build_term s2f)); [reflexivity|].
  intros x Hx. apply HF.
  - rewrite forallb_forall in Eall. apply Eall. exact Hx.
  - pose proof (iter_wf v items Hwf Ei) as Hall. rewrite Forall_forall in Hall. apply Hall; [exact Hx|].
    rewrite forallb_forall in Eall. apply Eall. exact Hx.
Qed.

Lemma jget_wf k fs v : json_wf (JObj fs) -> jget k fs = Some v -> json_wf v.
Proof.
  intros Hwf Hg. apply json_wf_obj in Hwf. destruct Hwf as [_ Hall]. rewrite Forall_forall in Hall.
  apply jget_in in Hg. exact (Hall _ Hg).
Qed.

(* the same with the list built by an explicit loop with append instead of the comprehension *)
Lemma loop_m_append_mapM {X Y} (F : X -> M Y) (body : list Y -> X -> M (ctl (list Y))) (l : list X) acc :
  (forall a x, body a x = bind (F x) (fun t => ret (Continue (a ++ [t])%list))) ->
  for_list_m l acc body = bind (mapM F l) (fun vs => ret (acc ++ vs)%list).
Proof.
  intros Hb. revert acc. induction l as [|x r IH]; intros acc; cbn [for_list_m mapM].
  - cbn [bind ret]. rewrite app_nil_r. reflexivity.
  - rewrite Hb. destruct (F x) as [y|e]; cbn [bind ret]; [|reflexivity].
    rewrite IH. destruct (mapM F r) as [ys|e]; cbn [bind ret]; [|reflexivity].
    rewrite <- app_assoc. reflexivity.
Qed.
Lemma build_terms_gen_loop {R} v (F : json -> M pterm) (body : list pterm -> json -> M (ctl (list pterm))) (k : list pterm -> M R) :
  json_wf v ->
  (forall a x, body a x = bind (F x) (fun t => ret (Continue (a ++ [t])%list))) ->
  (forall x, is_obj x = true -> json_wf x -> F x = build_term s2f x) ->
  (it <- json_iter v ;;
   if py_all it (fun x => py_isinstance x [CDict]) then
     it' <- json_iter v ;; a <- for_list_m it' [] body ;; k a
   else raise ValueErr)
  = (a <- build_terms s2f v ;; k a).
Proof.
  intros Hwf Hb HF. rewrite <- (build_terms_gen v F k Hwf HF).
  unfold json_iter. destruct (py_iter v) as [items|e]; cbn [bind ret]; [|reflexivity].
  destruct (py_all items (fun x => py_isinstance x [CDict])); [|reflexivity].
  rewrite (loop_m_append_mapM F body items [] Hb). unfold list_comp_m.
  destruct (mapM F items) as [vs|e]; reflexivity.
Qed.

Theorem from_dict_eq (init : list pterm -> list pterm -> list var -> list var -> bool -> M pcontract) contract simplify :
  (forall a g i o, init a g i o simplify = pc_init a g i o) ->
  json_wf contract ->
  PolyhedralIoContract_from_dict s2f pstr init contract simplify = from_dict s2f pstr contract.
Proof.
  intros Hinit Hwf. destruct contract as [|b|q i|s|l|fs]; try reflexivity.
  unfold PolyhedralIoContract_from_dict, from_dict, contract_keywords.
  change (negb (py_isinstance (JObj fs) [CDict])) with false. cbv iota.
  cbn [for_list_m json_contains forallb bind ret]. unfold jhas.
  destruct (jget "assumptions" fs) as [ja|] eqn:Ea; cbn [negb andb bind ret raise]; [|reflexivity].
  destruct (jget "guarantees" fs) as [jg|] eqn:Eg; cbn [negb andb bind ret raise]; [|reflexivity].
  destruct (jget "input_vars" fs) as [ji|] eqn:Ei; cbn [negb andb bind ret raise]; [|reflexivity].
  destruct (jget "output_vars" fs) as [jo|] eqn:Eo; cbn [negb andb bind ret raise]; [|reflexivity].
  cbn [json_getitem]. rewrite Ea, Eg, Ei, Eo. cbn [bind ret].
  first
  [ rewrite (build_terms_gen ja); [|exact (jget_wf _ _ _ Hwf Ea)|intros x Hx Hw; apply clause_body_eq; assumption]
  | cbv zeta;
    rewrite (build_terms_gen_loop ja
               (fun x => t1 <- json_getitem x "coefficients" ;; it <- json_items t1 ;; t2 <- json_getitem x "constant" ;;
                         f <- json_float s2f t2 ;;
                         PolyhedralTerm_init_dyn s2f (sdict_comp it (fun '(k, v) => true) (fun '(k, v) => Var k) (fun '(k, v) => v)) (jfloat f)));
    [|exact (jget_wf _ _ _ Hwf Ea)
     |intros acc_ x;
      destruct (json_getitem x "coefficients") as [t1|e1]; cbn [bind ret]; [|reflexivity];
      destruct (json_items t1) as [it|e2]; cbn [bind ret]; [|reflexivity];
      destruct (json_getitem x "constant") as [t2|e3]; cbn [bind ret]; [|reflexivity];
      destruct (json_float s2f t2) as [f|e4]; cbn [bind ret]; reflexivity
     |intros x Hx Hw; apply clause_body_eq; assumption] ].
  apply jbind_ext. intros a.
  rewrite (build_terms_gen jg); [|exact (jget_wf _ _ _ Hwf Eg)|intros x Hx Hw; apply clause_body_eq; assumption].
  apply jbind_ext. intros g.
  unfold json_iter. apply jbind_ext. intros i. apply jbind_ext. intros o.
  rewrite Hinit. reflexivity.
Qed.

(* why json_wf: a "coefficients" dictionary with a repeated key (json.load never returns one) *)
Definition dup_clause : json :=
  JObj [("constant", JNum 0 false); ("coefficients", JObj [("x", JNum 1 false); ("x", JNum 2 false)])].
Definition dup_dict : json :=
  JObj [("assumptions", JList []); ("guarantees", JList [dup_clause]); ("input_vars", JList []);
        ("output_vars", JList [JStr "x"])].
Example from_dict_needs_wf :
  ~ json_wf dup_dict /\
  PolyhedralIoContract_from_dict s2f pstr (fun a g i o _ => pc_init a g i o) dup_dict false <> from_dict s2f pstr dup_dict.
Proof.
  split.
  - intros H. apply json_wf_obj in H. destruct H as [_ H]. rewrite Forall_forall in H.
    specialize (H ("guarantees", JList [dup_clause]) (or_intror (or_introl eq_refl))). cbn [snd] in H.
    apply json_wf_list in H. inversion H as [|? ? H1 _]; subst. apply json_wf_obj in H1. destruct H1 as [_ H1].
    rewrite Forall_forall in H1. specialize (H1 _ (or_intror (or_introl eq_refl))). cbn [snd] in H1.
    apply json_wf_obj in H1. destruct H1 as [H1 _]. cbn in H1. inversion H1 as [|? ? Hn _]; subst. apply Hn. left. reflexivity.
  - vm_compute. discriminate.
Qed.

End Reading.
