(* CompoundFacts.v — property C17: compound contracts (model/Compound.v) denote UNIONS of
   polyhedra, and the operations of NestedTermList / IoContractCompound do what that reading says.
   [den alts rho] : the valuation rho belongs to some alternative.
   Hypotheses on alternatives: [wfa alt] = every term is a Python dict (distinct keys), every term has
   a variable, and no stored coefficient is zero (what PolyhedralTerm.__init__ guarantees; under it
   TermList.copy is the identity).  The last part is needed: see [disjoint_check_needs_nz]. *)
From Coq Require Import List String Bool QArith Qabs ZArith Reals Qreals Lra Lia.
Import ListNotations.
Require Import Py ListsGen ConstGen Sem Term Poly PolySpec QR ListsFacts TermFacts Farkas PolyLP PolyFacts
  EvalFacts Compound.
Local Open Scope R_scope.

(* ------------------------------------------------------------------ *)
(** * Meaning and well-formedness *)
Definition den (alts : nested) (rho : val) : Prop := exists x, In x alts /\ sat_list rho x.
Definition meets (x y : list pterm) : Prop := exists rho, sat_list rho x /\ sat_list rho y.
(* two alternatives at positions i < j share a behaviour (closed sets: a common boundary point counts) *)
Definition shares (alts : nested) : Prop :=
  exists i j x y, (i < j)%nat /\ nth_error alts i = Some x /\ nth_error alts j = Some y /\ meets x y.
Fixpoint overlap (alts : nested) : Prop :=
  match alts with
  | [] => False
  | x :: r => (exists y, In y r /\ meets x y) \/ overlap r
  end.

Definition wfa (alt : list pterm) : Prop := wfl alt /\ nz_terms alt.
Definition wfn (alts : nested) : Prop := Forall wfa alts.

Lemma den_nil rho : ~ den [] rho.
Proof. intros [x [[] _]]. Qed.
Lemma den_cons x r rho : den (x :: r) rho <-> sat_list rho x \/ den r rho.
Proof.
  unfold den. split.
  - intros [y [[<-|Hy] Hs]]; [left; exact Hs|right; exists y; tauto].
  - intros [Hs|[y [Hy Hs]]]; [exists x; split; [left; reflexivity|exact Hs]|exists y; split; [right; exact Hy|exact Hs]].
Qed.
Lemma den_app l1 l2 rho : den (l1 ++ l2) rho <-> den l1 rho \/ den l2 rho.
Proof.
  unfold den. split.
  - intros [y [Hy Hs]]. apply in_app_iff in Hy. destruct Hy; [left|right]; exists y; tauto.
  - intros [[y [Hy Hs]]|[y [Hy Hs]]]; exists y; rewrite in_app_iff; tauto.
Qed.

Lemma overlap_shares alts : overlap alts <-> shares alts.
Proof.
  unfold shares. induction alts as [|x r IH]; cbn [overlap].
  - split; [intros []|]. intros [i [j [x [y [_ [Hi _]]]]]]. destruct i; discriminate.
  - split.
    + intros [[y [Hy Hm]]|Ho].
      * apply In_nth_error in Hy. destruct Hy as [n Hn].
        exists 0%nat, (S n), x, y. split; [lia|]. split; [reflexivity|]. split; [exact Hn|exact Hm].
      * apply IH in Ho. destruct Ho as [i [j [a [b [Hlt [Hi [Hj Hm]]]]]]].
        exists (S i), (S j), a, b. split; [lia|]. split; [exact Hi|]. split; [exact Hj|exact Hm].
    + intros [i [j [a [b [Hlt [Hi [Hj Hm]]]]]]]. destruct j as [|j]; [lia|]. cbn [nth_error] in Hj.
      destruct i as [|i].
      * cbn [nth_error] in Hi. inversion Hi; subst. left. exists b. split; [eapply nth_error_In; exact Hj|exact Hm].
      * cbn [nth_error] in Hi. right. apply IH. exists i, j, a, b. split; [lia|]. tauto.
Qed.

(* ------------------------------------------------------------------ *)
(** * copy and | on term lists *)
Lemma tl_copy_id ts : nz_terms ts -> tl_copy ts = ts.
Proof.
  unfold tl_copy. induction 1 as [|t r Ht Hr IH]; [reflexivity|]. cbn [map].
  rewrite IH, (term_copy_id t Ht). reflexivity.
Qed.
Lemma map_tl_copy_id alts : wfn alts -> map tl_copy alts = alts.
Proof.
  induction 1 as [|a r [_ Ha] Hr IH]; [reflexivity|]. cbn [map]. rewrite IH, (tl_copy_id a Ha). reflexivity.
Qed.
Lemma sat_tl_copy rho ts : sat_list rho (tl_copy ts) <-> sat_list rho ts.
Proof.
  unfold sat_list, tl_copy. induction ts as [|t r IH]; cbn [map]; [tauto|].
  rewrite !Forall_cons_iff, IH, sat_copy. tauto.
Qed.
Lemma wft_tl_copy ts : Forall wft ts -> Forall wft (tl_copy ts).
Proof.
  unfold tl_copy. induction 1 as [|t r Ht Hr IH]; cbn [map]; constructor; [apply wft_copy; exact Ht|exact IH].
Qed.

(* list_union with PolyhedralTerm.__eq__ is conjunction *)
Lemma sat_list_union rho (a b : list pterm) :
  Forall wft a -> Forall wft b ->
  (sat_list rho (list_union a b) <-> sat_list rho a /\ sat_list rho b).
Proof.
  intros Ha Hb. unfold list_union, sat_list. rewrite Forall_app. split.
  - intros [H1 H2]. split; [exact H1|]. rewrite Forall_forall in *. intros t Ht.
    destruct (py_in t a) eqn:E.
    + apply py_in_term in E. destruct E as [t' [Hin He]].
      apply (term_eqb_sat t t' (Hb t Ht) (Ha t' Hin) He rho). apply H1. exact Hin.
    + apply H2. apply filter_In. rewrite E. split; [exact Ht|reflexivity].
  - intros [H1 H2]. split; [exact H1|]. rewrite Forall_forall in *. intros t Ht.
    apply filter_In in Ht. apply H2. tauto.
Qed.
Lemma sat_tl_or rho a b :
  Forall wft a -> Forall wft b -> (sat_list rho (tl_or a b) <-> sat_list rho a /\ sat_list rho b).
Proof.
  intros Ha Hb. unfold tl_or. rewrite sat_list_union by (apply wft_tl_copy; assumption).
  rewrite !sat_tl_copy. tauto.
Qed.

Lemma incl_list_union (a b : list pterm) : incl (list_union a b) (a ++ b).
Proof.
  unfold list_union. intros t Ht. apply in_app_iff in Ht. apply in_app_iff.
  destruct Ht as [Ht|Ht]; [left; exact Ht|right]. apply filter_In in Ht. tauto.
Qed.
Lemma wfl_app a b : wfl a -> wfl b -> wfl (a ++ b).
Proof.
  intros [A1 A2] [B1 B2]. split; [apply Forall_app; tauto|].
  unfold all_have_vars in *. rewrite forallb_app, A2, B2. reflexivity.
Qed.
Lemma wfa_tl_or a b : wfa a -> wfa b -> wfa (tl_or a b).
Proof.
  intros [A1 A2] [B1 B2]. unfold tl_or. rewrite (tl_copy_id a A2), (tl_copy_id b B2). split.
  - apply (wfl_incl _ (a ++ b)); [apply incl_list_union|apply wfl_app; assumption].
  - unfold nz_terms in *. rewrite Forall_forall in *. intros t Ht. apply incl_list_union in Ht.
    apply in_app_iff in Ht. destruct Ht; auto.
Qed.
Lemma wfa_nil : wfa [].
Proof. split; [apply wfl_nil|constructor]. Qed.

(* ------------------------------------------------------------------ *)
(** * NestedTermList.vars *)
Lemma in_fold_union_tl (a : nested) acc v :
  In v (fold_left (fun acc tl => list_union acc (tl_vars tl)) a acc) <->
  In v acc \/ exists alt, In alt a /\ In v (tl_vars alt).
Proof.
  revert acc. induction a as [|t ts IH]; intros acc; simpl.
  - split; [tauto|]. intros [H|[t [[] _]]]. exact H.
  - rewrite IH, in_list_union. split.
    + intros [[H|H]|[t' [H1 H2]]]; [left; exact H|right; exists t; tauto|right; exists t'; tauto].
    + intros [H|[t' [[->|H1] H2]]]; [tauto|tauto|right; exists t'; tauto].
Qed.
Lemma in_nested_vars a v : In v (nested_vars a) <-> exists alt, In alt a /\ In v (tl_vars alt).
Proof. unfold nested_vars. rewrite in_fold_union_tl. simpl. tauto. Qed.

(* ------------------------------------------------------------------ *)
(** * contains_behavior *)
Definition in_alt (b : behavior) (alt : list pterm) : bool := forallb (satQb (bval b)) alt.

Theorem nested_contains_exact alts b :
  Forall (Forall wft) alts -> NoDup (keys b) -> (forall v, In v (nested_vars alts) -> In v (keys b)) ->
  nested_contains alts b = inl (existsb (in_alt b) alts).
Proof.
  intros Hw Hn Hsub. induction alts as [|a r IH]; [reflexivity|].
  inversion Hw as [|? ? Ha Hr]; subst. cbn [nested_contains existsb].
  rewrite (contains_iff a b Ha Hn).
  - fold (in_alt b a). destruct (in_alt b a); cbn [orb]; [reflexivity|].
    apply IH; [exact Hr|]. intros v Hv. apply Hsub. apply in_nested_vars. apply in_nested_vars in Hv.
    destruct Hv as [alt [H1 H2]]. exists alt. split; [right; exact H1|exact H2].
  - intros v Hv. apply Hsub. apply in_nested_vars. exists a. split; [left; reflexivity|exact Hv].
Qed.

Theorem nested_contains_iff alts b :
  Forall (Forall wft) alts -> NoDup (keys b) -> (forall v, In v (nested_vars alts) -> In v (keys b)) ->
  (nested_contains alts b = inl true <-> exists alt, In alt alts /\ sat_list (q2r_val (bval b)) alt).
Proof.
  intros Hw Hn Hsub. rewrite (nested_contains_exact alts b Hw Hn Hsub). split.
  - intros H. assert (E : existsb (in_alt b) alts = true) by congruence.
    apply existsb_exists in E. destruct E as [alt [H1 H2]]. exists alt. split; [exact H1|].
    apply forallb_satQb. exact H2.
  - intros [alt [H1 H2]]. f_equal. apply existsb_exists. exists alt. split; [exact H1|].
    apply forallb_satQb. exact H2.
Qed.
Corollary nested_contains_den alts b :
  Forall (Forall wft) alts -> NoDup (keys b) -> (forall v, In v (nested_vars alts) -> In v (keys b)) ->
  (nested_contains alts b = inl true <-> den alts (q2r_val (bval b))).
Proof. apply nested_contains_iff. Qed.

(* the only error is ValueError; it is raised exactly when the scan reaches, before finding a
   containing alternative, an alternative one of whose variables is not assigned *)
Theorem nested_contains_total alts b :
  (exists r, nested_contains alts b = inl r) \/ nested_contains alts b = inr ValueErr.
Proof.
  induction alts as [|a r IH]; [left; exists false; reflexivity|]. cbn [nested_contains].
  destruct (contains_total a b) as [[[|] H]|H]; rewrite H.
  - left. exists true. reflexivity.
  - exact IH.
  - right. reflexivity.
Qed.
Theorem nested_contains_error alts b :
  nested_contains alts b = inr ValueErr <->
  exists l1 x l2, alts = l1 ++ x :: l2 /\ nested_contains l1 b = inl false /\
                  exists v, In v (tl_vars x) /\ ~ In v (keys b).
Proof.
  induction alts as [|a r IH].
  - split; [discriminate|]. intros [l1 [x [l2 [H _]]]]. destruct l1; discriminate.
  - cbn [nested_contains]. destruct (contains_total a b) as [[[|] H]|H]; rewrite H.
    + split; [discriminate|]. intros [l1 [x [l2 [E [Hl Hv]]]]]. destruct l1 as [|a' l1].
      * cbn in E. inversion E; subst. apply contains_unassigned in Hv. congruence.
      * cbn in E. inversion E; subst. cbn [nested_contains] in Hl. rewrite H in Hl. discriminate.
    + rewrite IH. split.
      * intros [l1 [x [l2 [E [Hl Hv]]]]]. exists (a :: l1), x, l2. split; [rewrite E; reflexivity|].
        split; [cbn [nested_contains]; rewrite H; exact Hl|exact Hv].
      * intros [l1 [x [l2 [E [Hl Hv]]]]]. destruct l1 as [|a' l1].
        -- cbn in E. inversion E; subst. apply contains_unassigned in Hv. congruence.
        -- cbn in E. inversion E; subst. exists l1, x, l2. split; [reflexivity|].
           cbn [nested_contains] in Hl. rewrite H in Hl. split; [exact Hl|exact Hv].
    + cbn. split; [|reflexivity]. intros _. exists [], a, r. split; [reflexivity|]. split; [reflexivity|].
      apply contains_unassigned. exact H.
Qed.

(* ------------------------------------------------------------------ *)
(** * Facts that depend on the LP solver *)
Section Oracle.
Variable O : oracle.
Hypothesis HO : lp_spec 0 O.
Hypothesis HT : lp_total O.

Lemma is_empty_false_witness ts :
  wfl ts -> poly_is_empty O ts = inl false -> exists rho, sat_list rho ts.
Proof.
  intros Hts Hb. rewrite poly_is_empty_unfold in Hb. set (vs := polytope_vars ts []) in *.
  assert (Hn : NoDup vs) by (apply NoDup_polytope_vars; [apply Hts|constructor]).
  assert (Hc : covered vs ts) by (apply covered_polytope_l; apply Hts).
  assert (Hne : map (term_to_row vs) ts = [] \/ vs <> []).
  { destruct (nil_or_not ts) as [E|E]; [left; rewrite E; reflexivity|right].
    apply polytope_vars_nonempty_l; assumption. }
  apply (is_polytope_empty_false O HO vs _ Hne) in Hb. destruct Hb as [x [Lx Fx]].
  destruct (point_is_valuation vs x Hn Lx) as [rho ->]. exists rho.
  apply (feas_sat vs ts rho Hn Hc). exact Fx.
Qed.

Lemma is_empty_cases ts :
  wfl ts ->
  (poly_is_empty O ts = inl true /\ forall rho, ~ sat_list rho ts) \/
  (poly_is_empty O ts = inl false /\ exists rho, sat_list rho ts).
Proof.
  intros Hts. destruct (is_empty_iff O ts HO HT Hts) as [Hiff [[|] Hb]].
  - left. split; [exact Hb|]. apply Hiff. exact Hb.
  - right. split; [exact Hb|]. apply is_empty_false_witness; assumption.
Qed.

Lemma or_cases x y :
  wfa x -> wfa y ->
  (poly_is_empty O (tl_or x y) = inl true /\ ~ meets x y) \/
  (poly_is_empty O (tl_or x y) = inl false /\ meets x y).
Proof.
  intros Hx Hy. destruct (is_empty_cases (tl_or x y)) as [[H1 H2]|[H1 [rho H2]]].
  - apply wfa_tl_or; assumption.
  - left. split; [exact H1|]. intros [rho Hm]. apply (H2 rho).
    apply sat_tl_or; [apply Hx|apply Hy|exact Hm].
  - right. split; [exact H1|]. exists rho. apply (sat_tl_or rho x y); [apply Hx|apply Hy|exact H2].
Qed.

(** ** the constructor and its disjointness test *)
Lemma check_against_spec x rest :
  wfa x -> wfn rest ->
  (check_against O x rest = inl tt /\ forall y, In y rest -> ~ meets x y) \/
  (check_against O x rest = inr ValueErr /\ exists y, In y rest /\ meets x y).
Proof.
  intros Hx Hr. induction Hr as [|y r Hy Hr IH]; cbn [check_against].
  - left. split; [reflexivity|]. intros y [].
  - destruct (or_cases x y Hx Hy) as [[E Hm]|[E Hm]]; rewrite E; cbn [bind].
    + destruct IH as [[E2 H2]|[E2 [z [Hz Hmz]]]].
      * left. split; [exact E2|]. intros z [<-|Hz]; [exact Hm|apply H2; exact Hz].
      * right. split; [exact E2|]. exists z. split; [right; exact Hz|exact Hmz].
    + right. split; [reflexivity|]. exists y. split; [left; reflexivity|exact Hm].
Qed.

Lemma check_disjoint_spec alts :
  wfn alts ->
  (check_disjoint O alts = inl tt /\ ~ overlap alts) \/
  (check_disjoint O alts = inr ValueErr /\ overlap alts).
Proof.
  intros Hw. induction Hw as [|x r Hx Hr IH]; cbn [check_disjoint overlap].
  - left. split; [reflexivity|tauto].
  - destruct (check_against_spec x r Hx Hr) as [[E H]|[E H]]; rewrite E; cbn [bind].
    + destruct IH as [[E2 H2]|[E2 H2]].
      * left. split; [exact E2|]. intros [[y [Hy Hm]]|Ho]; [exact (H y Hy Hm)|exact (H2 Ho)].
      * right. split; [exact E2|]. right. exact H2.
    + right. split; [reflexivity|]. left. exact H.
Qed.

Lemma nested_init_inl alts force r : nested_init O alts force = inl r -> r = map tl_copy alts.
Proof.
  unfold nested_init. destruct force.
  - destruct (check_disjoint O alts); cbn; [intros H; inversion H; reflexivity|discriminate].
  - cbn. intros H. inversion H. reflexivity.
Qed.
Lemma nested_init_unforced alts : nested_init O alts false = inl (map tl_copy alts).
Proof. reflexivity. Qed.

Lemma nested_init_forced alts :
  wfn alts ->
  (nested_init O alts true = inl alts /\ ~ overlap alts) \/
  (nested_init O alts true = inr ValueErr /\ overlap alts).
Proof.
  intros Hw. unfold nested_init. destruct (check_disjoint_spec alts Hw) as [[E H]|[E H]]; rewrite E; cbn.
  - left. rewrite (map_tl_copy_id alts Hw). split; [reflexivity|exact H].
  - right. split; [reflexivity|exact H].
Qed.

(* C17, disjointness: the constructor with force_empty_intersection raises ValueError exactly when two
   alternatives share a behaviour; otherwise it returns (copies of) the alternatives *)
Theorem disjoint_check_iff alts :
  wfn alts ->
  (nested_init O alts true = inr ValueErr <-> shares alts) /\
  (nested_init O alts true = inl alts <-> ~ shares alts) /\
  (nested_init O alts true = inl alts \/ nested_init O alts true = inr ValueErr).
Proof.
  intros Hw. rewrite <- overlap_shares.
  destruct (nested_init_forced alts Hw) as [[E H]|[E H]]; rewrite E.
  - split; [split; [discriminate|contradiction]|]. split; [tauto|left; reflexivity].
  - split; [tauto|]. split; [split; [discriminate|contradiction]|right; reflexivity].
Qed.

Lemma nested_copy_inl a force r : wfn a -> nested_copy O a force = inl r -> r = a.
Proof.
  intros Hw H. unfold nested_copy in H. apply nested_init_inl in H.
  rewrite !(map_tl_copy_id a Hw) in H. exact H.
Qed.

(** ** intersect *)
Lemma inter_row_spec s bs : forall x,
  wfa s -> wfn bs -> inter_row O s bs = inl x ->
  wfn x /\ forall rho, den x rho <-> sat_list rho s /\ den bs rho.
Proof.
  induction bs as [|o r IH]; intros x Hs Hb; cbn [inter_row].
  - intros H. inversion H; subst. split; [constructor|]. intros rho. split.
    + intros Hd. exfalso. exact (den_nil rho Hd).
    + intros [_ Hd]. exfalso. exact (den_nil rho Hd).
  - inversion Hb as [|? ? Ho Hr]; subst.
    destruct (inter_row O s r) as [rest|e] eqn:Er.
    + destruct (IH rest Hs Hr eq_refl) as [Wr Dr].
      destruct (or_cases s o Hs Ho) as [[E Hm]|[E Hm]]; rewrite E; cbn; intros H; inversion H; subst.
      * split; [exact Wr|]. intros rho. rewrite Dr, den_cons. split; [tauto|].
        intros [H1 [H2|H2]]; [|tauto]. exfalso. apply Hm. exists rho. tauto.
      * split; [constructor; [apply wfa_tl_or; assumption|exact Wr]|]. intros rho.
        rewrite !den_cons, Dr, (sat_tl_or rho s o (proj1 (proj1 Hs)) (proj1 (proj1 Ho))). tauto.
    + destruct (poly_is_empty O (tl_or s o)); cbn; discriminate.
Qed.
Lemma inter_row_total s bs : wfa s -> wfn bs -> exists x, inter_row O s bs = inl x.
Proof.
  intros Hs Hb. induction Hb as [|o r Ho Hr IH]; cbn [inter_row]; [eexists; reflexivity|].
  destruct IH as [rest E]. rewrite E.
  destruct (or_cases s o Hs Ho) as [[E2 _]|[E2 _]]; rewrite E2; cbn; eexists; reflexivity.
Qed.

Lemma inter_all_spec a b : forall l,
  wfn a -> wfn b -> inter_all O a b = inl l ->
  wfn l /\ forall rho, den l rho <-> den a rho /\ den b rho.
Proof.
  induction a as [|s r IH]; intros l Ha Hb; cbn [inter_all].
  - intros H. inversion H; subst. split; [constructor|]. intros rho. split.
    + intros Hd. exfalso. exact (den_nil rho Hd).
    + intros [Hd _]. exfalso. exact (den_nil rho Hd).
  - inversion Ha as [|? ? Hs Hr]; subst.
    destruct (inter_row O s b) as [x|e] eqn:Ex; cbn; [|discriminate].
    destruct (inter_all O r b) as [y|e] eqn:Ey; cbn; [|discriminate].
    intros H. inversion H; subst.
    destruct (inter_row_spec s b x Hs Hb Ex) as [Wx Dx]. destruct (IH y Hr Hb eq_refl) as [Wy Dy].
    split; [apply Forall_app; split; assumption|]. intros rho. rewrite den_app, Dx, Dy, den_cons. tauto.
Qed.
Lemma inter_all_total a b : wfn a -> wfn b -> exists l, inter_all O a b = inl l.
Proof.
  intros Ha Hb. induction Ha as [|s r Hs Hr IH]; cbn [inter_all]; [eexists; reflexivity|].
  destruct (inter_row_total s b Hs Hb) as [x Ex]. destruct IH as [y Ey]. rewrite Ex, Ey. cbn. eexists. reflexivity.
Qed.

(* C17, intersection: only empty alternatives are dropped *)
Theorem intersect_sem a b force r :
  wfn a -> wfn b -> nested_intersect O a b force = inl r ->
  (forall rho, den r rho <-> den a rho /\ den b rho) /\ wfn r /\ (force = true -> ~ shares r).
Proof.
  intros Ha Hb. unfold nested_intersect. destruct (inter_all O a b) as [l|e] eqn:El; cbn [bind]; [|discriminate].
  destruct (inter_all_spec a b l Ha Hb El) as [Wl Dl]. intros H.
  pose proof (nested_init_inl l force r H) as Hr. rewrite (map_tl_copy_id l Wl) in Hr. subst r.
  split; [exact Dl|]. split; [exact Wl|]. intros ->. rewrite <- overlap_shares.
  destruct (nested_init_forced l Wl) as [[_ Hn]|[E _]]; [exact Hn|congruence].
Qed.
(* ... and the operation fails only through the disjointness test of the constructor *)
Theorem intersect_outcome a b force :
  wfn a -> wfn b ->
  exists l, inter_all O a b = inl l /\
    ((nested_intersect O a b force = inl l /\ (force = true -> ~ shares l)) \/
     (nested_intersect O a b force = inr ValueErr /\ force = true /\ shares l)).
Proof.
  intros Ha Hb. destruct (inter_all_total a b Ha Hb) as [l El]. exists l. split; [exact El|].
  destruct (inter_all_spec a b l Ha Hb El) as [Wl _]. unfold nested_intersect. rewrite El. cbn [bind].
  rewrite <- overlap_shares. destruct force.
  - destruct (nested_init_forced l Wl) as [[E H]|[E H]]; rewrite E; [left|right]; tauto.
  - left. rewrite nested_init_unforced, (map_tl_copy_id l Wl). split; [reflexivity|discriminate].
Qed.

(** ** __le__ *)
Lemma find_refined_sound this bs :
  wfl this -> Forall wfl bs -> Forall small_consts bs -> find_refined O this bs = inl true ->
  exists y, In y bs /\ forall rho, sat_list rho this -> Forall (sat_tol REFINEMENT_TOLERANCE rho) y.
Proof.
  intros Ht Hw Hs. induction bs as [|that r IH]; cbn [find_refined]; [discriminate|].
  inversion Hw as [|? ? Hthat Hr]; subst. inversion Hs as [|? ? Sthat Sr]; subst.
  destruct (poly_refines O this that) as [[|]|e] eqn:E; cbn.
  - intros _. exists that. split; [left; reflexivity|]. apply (refines_sound O HO this that Ht Hthat Sthat E).
  - intros H. destruct (IH Hr Sr H) as [y [Hy Hy2]]. exists y. split; [right; exact Hy|exact Hy2].
  - discriminate.
Qed.

(* soundness, alternative by alternative: the witness y does not depend on the point *)
Theorem nested_le_sound_alt a b :
  Forall wfl a -> Forall wfl b -> Forall small_consts b -> nested_le O a b = inl true ->
  forall x, In x a -> exists y, In y b /\ forall rho, sat_list rho x -> Forall (sat_tol REFINEMENT_TOLERANCE rho) y.
Proof.
  intros Ha Hb Hs. induction a as [|this r IH]; cbn [nested_le]; [intros _ x []|].
  inversion Ha as [|? ? Hthis Hr]; subst.
  destruct (find_refined O this b) as [[|]|e] eqn:E; cbn; try discriminate.
  intros H x [<-|Hx]; [apply find_refined_sound; assumption|apply IH; assumption].
Qed.
(* C17, refinement test: sound for the union reading (up to REFINEMENT_TOLERANCE) *)
Theorem nested_le_sound a b :
  Forall wfl a -> Forall wfl b -> Forall small_consts b -> nested_le O a b = inl true ->
  forall rho, den a rho -> exists y, In y b /\ Forall (sat_tol REFINEMENT_TOLERANCE rho) y.
Proof.
  intros Ha Hb Hs H rho [x [Hx Hsat]].
  destruct (nested_le_sound_alt a b Ha Hb Hs H x Hx) as [y [Hy Hy2]]. exists y. split; [exact Hy|].
  apply Hy2. exact Hsat.
Qed.

Lemma find_refined_total this bs : wfl this -> Forall wfl bs -> exists r, find_refined O this bs = inl r.
Proof.
  intros Ht Hw. induction Hw as [|that r Hthat Hr IH]; cbn [find_refined]; [eexists; reflexivity|].
  destruct (refines_errors O HO this that Ht Hthat HT) as [[|] E]; rewrite E; cbn; [eexists; reflexivity|exact IH].
Qed.
Theorem nested_le_total a b : Forall wfl a -> Forall wfl b -> exists r, nested_le O a b = inl r.
Proof.
  intros Ha Hb. induction Ha as [|this r Hthis Hr IH]; cbn [nested_le]; [eexists; reflexivity|].
  destruct (find_refined_total this b Hthis Hb) as [[|] E]; rewrite E; cbn; [exact IH|eexists; reflexivity].
Qed.

(* what IS complete: the alternative-wise test *)
Lemma find_refined_complete this bs y :
  wfa this -> wfn bs -> In y bs -> (forall rho, sat_list rho this -> sat_list rho y) ->
  find_refined O this bs = inl true.
Proof.
  intros Ht Hw Hy Himp. induction Hw as [|that r Hthat Hr IH]; [destruct Hy|]. cbn [find_refined].
  destruct (refines_errors O HO this that (proj1 Ht) (proj1 Hthat) HT) as [[|] E]; rewrite E; cbn; [reflexivity|].
  destruct Hy as [<-|Hy]; [|apply IH; exact Hy]. exfalso.
  assert (E2 : poly_refines O this that = inl true).
  { apply (refines_complete O HO this that (proj1 Ht) (proj1 Hthat) HT); [|exact Himp]. intros _. apply Hthat. }
  congruence.
Qed.
Theorem nested_le_complete_alt a b :
  wfn a -> wfn b ->
  (forall x, In x a -> exists y, In y b /\ forall rho, sat_list rho x -> sat_list rho y) ->
  nested_le O a b = inl true.
Proof.
  intros Ha Hb H. induction Ha as [|this r Hthis Hr IH]; [reflexivity|]. cbn [nested_le].
  destruct (H this (or_introl eq_refl)) as [y [Hy Himp]].
  rewrite (find_refined_complete this b y Hthis Hb Hy Himp). cbn. apply IH.
  intros x Hx. apply H. right. exact Hx.
Qed.

(** ** IoContractCompound *)
Definition wfk (c : compound) : Prop := wfn (k_a c) /\ wfn (k_g c).
Definition iface_ok (a g : nested) (i o : list var) : Prop :=
  NoDup i /\ NoDup o /\ (forall v, In v i -> ~ In v o) /\
  (forall v, In v (nested_vars a) -> In v i) /\
  (forall v, In v (nested_vars g) -> In v i \/ In v o).

Lemma nonempty_false_nil {T} (l : list T) : nonempty l = false -> forall x, ~ In x l.
Proof. intros H x Hx. apply nonempty_false in H. subst. destruct Hx. Qed.

Theorem compound_init_inl a g i o c :
  wfn a -> wfn g -> compound_init O a g i o = inl c ->
  c = mkCompound a g i o /\ iface_ok a g i o /\ ~ shares a.
Proof.
  intros Ha Hg. unfold compound_init.
  destruct (has_dup i) eqn:E1; [discriminate|]. destruct (has_dup o) eqn:E2; [discriminate|].
  destruct (nonempty (list_intersection i o)) eqn:E3; [discriminate|].
  destruct (nonempty (list_diff (nested_vars a) i)) eqn:E4; [discriminate|].
  destruct (nonempty (list_diff (nested_vars g) (list_union i o))) eqn:E5; [discriminate|].
  destruct (nested_copy O a true) as [a'|e] eqn:Ea; cbn [bind]; [|discriminate].
  destruct (nested_copy O g false) as [g'|e] eqn:Eg; cbn [bind]; [|discriminate].
  intros H. inversion H; subst. clear H.
  rewrite (nested_copy_inl a true a' Ha Ea), (nested_copy_inl g false g' Hg Eg). split; [reflexivity|].
  split.
  - unfold iface_ok. apply has_dup_false in E1. apply has_dup_false in E2.
    pose proof (nonempty_false_nil _ E3) as N3. pose proof (nonempty_false_nil _ E4) as N4.
    pose proof (nonempty_false_nil _ E5) as N5.
    split; [exact E1|]. split; [exact E2|]. split; [|split].
    + intros v Hi Ho. apply (N3 v). apply in_list_intersection. tauto.
    + intros v Hv. destruct (in_dec string_dec v i) as [Hi|Hi]; [exact Hi|]. exfalso.
      apply (N4 v). apply in_list_diff. tauto.
    + intros v Hv. destruct (in_dec string_dec v (list_union i o)) as [Hi|Hi].
      * apply in_list_union in Hi. exact Hi.
      * exfalso. apply (N5 v). apply in_list_diff. tauto.
  - rewrite <- overlap_shares. unfold nested_copy in Ea. rewrite (map_tl_copy_id a Ha) in Ea.
    destruct (nested_init_forced a Ha) as [[_ Hn]|[E _]]; [exact Hn|congruence].
Qed.

(* C17, merge *)
Theorem compound_merge_sem c1 c2 c :
  wfk c1 -> wfk c2 -> compound_merge O c1 c2 = inl c ->
  (forall rho, den (k_a c) rho <-> den (k_a c1) rho /\ den (k_a c2) rho) /\
  (forall rho, den (k_g c) rho <-> den (k_g c1) rho /\ den (k_g c2) rho) /\
  k_inputvars c = list_union (k_inputvars c1) (k_inputvars c2) /\
  k_outputvars c = list_union (k_outputvars c1) (k_outputvars c2) /\
  wfk c /\ ~ shares (k_a c) /\ iface_ok (k_a c) (k_g c) (k_inputvars c) (k_outputvars c).
Proof.
  intros [A1 G1] [A2 G2]. unfold compound_merge.
  destruct (nested_intersect O (k_a c1) (k_a c2) true) as [a|e] eqn:Ea; cbn [bind]; [|discriminate].
  destruct (nested_intersect O (k_g c1) (k_g c2) false) as [g|e] eqn:Eg; cbn [bind]; [|discriminate].
  destruct (intersect_sem _ _ _ _ A1 A2 Ea) as [Da [Wa _]].
  destruct (intersect_sem _ _ _ _ G1 G2 Eg) as [Dg [Wg _]].
  intros H. apply (compound_init_inl a g _ _ c Wa Wg) in H. destruct H as [-> [Hi Hs]]. cbn.
  split; [exact Da|]. split; [exact Dg|]. split; [reflexivity|]. split; [reflexivity|].
  split; [split; assumption|]. split; [exact Hs|exact Hi].
Qed.

(* the only exception these operations raise is ValueError *)
Theorem compound_init_total a g i o :
  wfn a -> wfn g ->
  (exists c, compound_init O a g i o = inl c) \/ compound_init O a g i o = inr ValueErr.
Proof.
  intros Ha Hg. unfold compound_init.
  destruct (has_dup i); [right; reflexivity|]. destruct (has_dup o); [right; reflexivity|].
  destruct (nonempty (list_intersection i o)); [right; reflexivity|].
  destruct (nonempty (list_diff (nested_vars a) i)); [right; reflexivity|].
  destruct (nonempty (list_diff (nested_vars g) (list_union i o))); [right; reflexivity|].
  unfold nested_copy. rewrite (map_tl_copy_id a Ha), (map_tl_copy_id g Hg), nested_init_unforced.
  destruct (nested_init_forced a Ha) as [[E _]|[E _]]; rewrite E; cbn; [left; eexists; reflexivity|right; reflexivity].
Qed.
Theorem compound_merge_total c1 c2 :
  wfk c1 -> wfk c2 ->
  (exists c, compound_merge O c1 c2 = inl c) \/ compound_merge O c1 c2 = inr ValueErr.
Proof.
  intros [A1 G1] [A2 G2]. unfold compound_merge.
  destruct (intersect_outcome (k_a c1) (k_a c2) true A1 A2) as [la [Ela [[Ea _]|[Ea _]]]]; rewrite Ea; cbn [bind];
    [|right; reflexivity].
  destruct (intersect_outcome (k_g c1) (k_g c2) false G1 G2) as [lg [Elg [[Eg _]|[_ [Hf _]]]]]; [|discriminate].
  rewrite Eg. cbn [bind].
  apply compound_init_total.
  - apply (inter_all_spec _ _ _ A1 A2 Ela).
  - apply (inter_all_spec _ _ _ G1 G2 Elg).
Qed.

(* __eq__ is the two-sided alternative-wise test *)
Theorem nested_eqb_sound a b :
  Forall wfl a -> Forall wfl b -> Forall small_consts a -> Forall small_consts b ->
  nested_eqb O a b = inl true ->
  (forall rho, den a rho -> exists y, In y b /\ Forall (sat_tol REFINEMENT_TOLERANCE rho) y) /\
  (forall rho, den b rho -> exists x, In x a /\ Forall (sat_tol REFINEMENT_TOLERANCE rho) x).
Proof.
  intros Ha Hb Sa Sb. unfold nested_eqb. destruct (nested_le O a b) as [[|]|e] eqn:E; cbn; try discriminate.
  intros E2. split; apply nested_le_sound; assumption.
Qed.

End Oracle.

(* ------------------------------------------------------------------ *)
(** * The safety directions need much less *)
(* With dict-like terms only (stored zero coefficients and constant-only terms allowed) and a solver
   that meets [lp_spec] (no totality): an accepted family IS pairwise disjoint, and a successful
   intersection denotes the intersection. *)
Section OracleSound.
Variable O : oracle.
Hypothesis HO : lp_spec 0 O.

Definition wftn (alts : nested) : Prop := Forall (Forall wft) alts.

Lemma is_empty_true_sound ts :
  Forall wft ts -> poly_is_empty O ts = inl true -> forall rho, ~ sat_list rho ts.
Proof.
  intros Hts Hb rho Hs. rewrite poly_is_empty_unfold in Hb. set (vs := polytope_vars ts []) in *.
  assert (Hn : NoDup vs) by (apply NoDup_polytope_vars; [exact Hts|constructor]).
  assert (Hc : covered vs ts) by (apply covered_polytope_l; exact Hts).
  apply (is_polytope_empty_true O HO vs _ Hb (map rho vs)); [apply map_length|].
  apply feas_sat; assumption.
Qed.
Lemma wft_tl_or a b : Forall wft a -> Forall wft b -> Forall wft (tl_or a b).
Proof.
  intros Ha Hb. apply wft_tl_copy in Ha. apply wft_tl_copy in Hb. unfold tl_or.
  rewrite Forall_forall in *. intros t Ht. apply incl_list_union in Ht. apply in_app_iff in Ht.
  destruct Ht; auto.
Qed.
Lemma den_map_copy alts rho : den (map tl_copy alts) rho <-> den alts rho.
Proof.
  induction alts as [|a r IH]; cbn [map]; [tauto|]. rewrite !den_cons, IH, sat_tl_copy. tauto.
Qed.

Lemma check_against_sound x rest :
  Forall wft x -> wftn rest -> check_against O x rest = inl tt -> forall y, In y rest -> ~ meets x y.
Proof.
  intros Hx Hr. induction Hr as [|y r Hy Hr IH]; cbn [check_against]; [intros _ y []|].
  destruct (poly_is_empty O (tl_or x y)) as [[|]|e] eqn:E; cbn; try discriminate.
  intros H z [<-|Hz]; [|apply IH; assumption].
  intros [rho Hm]. apply (is_empty_true_sound _ (wft_tl_or x y Hx Hy) E rho).
  apply sat_tl_or; assumption.
Qed.
Lemma check_disjoint_sound alts : wftn alts -> check_disjoint O alts = inl tt -> ~ overlap alts.
Proof.
  intros Hw. induction Hw as [|x r Hx Hr IH]; cbn [check_disjoint overlap]; [tauto|].
  destruct (check_against O x r) as [[]|e] eqn:E; cbn; [|discriminate].
  intros H [[y [Hy Hm]]|Ho]; [exact (check_against_sound x r Hx Hr E y Hy Hm)|exact (IH H Ho)].
Qed.
Theorem disjoint_check_sound alts r :
  wftn alts -> nested_init O alts true = inl r -> ~ shares alts /\ r = map tl_copy alts.
Proof.
  intros Hw H. split; [|eapply nested_init_inl; exact H]. rewrite <- overlap_shares.
  unfold nested_init in H. destruct (check_disjoint O alts) as [[]|e] eqn:E; cbn in H; [|discriminate].
  apply check_disjoint_sound; assumption.
Qed.

Lemma inter_row_den s bs : forall x,
  Forall wft s -> wftn bs -> inter_row O s bs = inl x ->
  wftn x /\ forall rho, den x rho <-> sat_list rho s /\ den bs rho.
Proof.
  induction bs as [|o r IH]; intros x Hs Hb; cbn [inter_row].
  - intros H. inversion H; subst. split; [constructor|]. intros rho. split.
    + intros Hd. exfalso. exact (den_nil rho Hd).
    + intros [_ Hd]. exfalso. exact (den_nil rho Hd).
  - inversion Hb as [|? ? Ho Hr]; subst.
    destruct (poly_is_empty O (tl_or s o)) as [e|e] eqn:E; cbn; [|discriminate].
    destruct (inter_row O s r) as [rest|e'] eqn:Er; cbn; [|discriminate].
    destruct (IH rest Hs Hr eq_refl) as [Wr Dr]. intros H. inversion H; subst. destruct e.
    + split; [exact Wr|]. intros rho. rewrite Dr, den_cons. split; [tauto|].
      intros [H1 [H2|H2]]; [|tauto]. exfalso.
      apply (is_empty_true_sound _ (wft_tl_or s o Hs Ho) E rho). apply sat_tl_or; tauto.
    + split; [constructor; [apply wft_tl_or; assumption|exact Wr]|]. intros rho.
      rewrite !den_cons, Dr, (sat_tl_or rho s o Hs Ho). tauto.
Qed.
Lemma inter_all_den a b : forall l,
  wftn a -> wftn b -> inter_all O a b = inl l ->
  wftn l /\ forall rho, den l rho <-> den a rho /\ den b rho.
Proof.
  induction a as [|s r IH]; intros l Ha Hb; cbn [inter_all].
  - intros H. inversion H; subst. split; [constructor|]. intros rho. split.
    + intros Hd. exfalso. exact (den_nil rho Hd).
    + intros [Hd _]. exfalso. exact (den_nil rho Hd).
  - inversion Ha as [|? ? Hs Hr]; subst.
    destruct (inter_row O s b) as [x|e] eqn:Ex; cbn; [|discriminate].
    destruct (inter_all O r b) as [y|e] eqn:Ey; cbn; [|discriminate].
    intros H. inversion H; subst.
    destruct (inter_row_den s b x Hs Hb Ex) as [Wx Dx]. destruct (IH y Hr Hb eq_refl) as [Wy Dy].
    split; [apply Forall_app; split; assumption|]. intros rho. rewrite den_app, Dx, Dy, den_cons. tauto.
Qed.
Theorem intersect_sem_wft a b force r :
  wftn a -> wftn b -> nested_intersect O a b force = inl r ->
  (forall rho, den r rho <-> den a rho /\ den b rho) /\ (force = true -> ~ shares r).
Proof.
  intros Ha Hb. unfold nested_intersect. destruct (inter_all O a b) as [l|e] eqn:El; cbn [bind]; [|discriminate].
  destruct (inter_all_den a b l Ha Hb El) as [Wl Dl]. intros H. split.
  - intros rho. rewrite (nested_init_inl O l force r H), den_map_copy. apply Dl.
  - intros ->. destruct (disjoint_check_sound l r Wl H) as [Hn Hr]. subst r.
    intros [i [j [x [y [Hlt [Hi [Hj [rho [Hx Hy]]]]]]]]]. apply Hn.
    rewrite nth_error_map in Hi, Hj.
    destruct (nth_error l i) as [x0|] eqn:Ei; [|discriminate]. destruct (nth_error l j) as [y0|] eqn:Ej; [|discriminate].
    cbn in Hi, Hj. inversion Hi; inversion Hj; subst.
    exists i, j, x0, y0. split; [exact Hlt|]. split; [exact Ei|]. split; [exact Ej|].
    exists rho. split; apply sat_tl_copy; assumption.
Qed.
End OracleSound.

(* ------------------------------------------------------------------ *)
(** * Examples and counterexamples *)
Local Open Scope string_scope.
Definition le_x (c : Q) : pterm := mkT [("x", 1%Q)] c.         (*  x <= c  *)
Definition ge_x (c : Q) : pterm := mkT [("x", (-1)%Q)] (- c)%Q.  (*  x >= c  *)

Lemma wft_single v a c : wft (mkT [(v, a)] c).
Proof. unfold wft. cbn. constructor; [intros []|constructor]. Qed.
Lemma wfa_x_terms ts :
  Forall (fun t => exists a c, t = mkT [("x", a)] c /\ ~ (a == 0)%Q) ts -> wfa ts.
Proof.
  intros H. split; [split|].
  - rewrite Forall_forall in *. intros t Ht. destruct (H t Ht) as [a [c [-> _]]]. apply wft_single.
  - unfold all_have_vars. apply forallb_forall. intros t Ht. rewrite Forall_forall in H.
    destruct (H t Ht) as [a [c [-> _]]]. reflexivity.
  - unfold nz_terms. rewrite Forall_forall in *. intros t Ht. destruct (H t Ht) as [a [c [-> Hz]]].
    unfold nzt, nzl. cbn. constructor; [exact Hz|constructor].
Qed.
Ltac x_terms := repeat constructor;
  match goal with |- exists a c, _ = mkT [(_, a)] c /\ _ => eexists; eexists; split; [reflexivity|intros H; discriminate H] end.

(* Touching alternatives are NOT disjoint: {x <= 1} and {x >= 1} share the point x = 1, and the
   constructor with force_empty_intersection rejects them, whatever (conforming) solver is used. *)
Example touching_rejected O :
  lp_spec 0 O -> lp_total O -> nested_init O [[le_x 1]; [ge_x 1]] true = inr ValueErr.
Proof.
  intros HO HT. apply (disjoint_check_iff O HO HT).
  - constructor; [|constructor; [|constructor]]; apply wfa_x_terms; x_terms.
  - exists 0%nat, 1%nat, [le_x 1], [ge_x 1]. split; [lia|]. split; [reflexivity|]. split; [reflexivity|].
    exists (fun _ => 1%R). split; (constructor; [|constructor]); unfold sat, le_x, ge_x; cbn; unfold Q2R; cbn; lra.
Qed.

(* nested_le is not complete for the union reading: [0,2] is covered by [0,1] U [1,2], but no single
   alternative contains it; the implementation answers False. *)
Definition ex_wide : nested := [[le_x 2; ge_x 0]].
Definition ex_split : nested := [[le_x 1; ge_x 0]; [le_x 2; ge_x 1]].
Lemma tol_small : (Q2R REFINEMENT_TOLERANCE * 4 < 1)%R.
Proof.
  assert (H : (REFINEMENT_TOLERANCE * 4 < 1)%Q) by (vm_compute; reflexivity).
  apply Qlt_Rlt in H. rewrite Q2R_mult in H. unfold Q2R at 2 3 in H. cbn in H. lra.
Qed.
Lemma small_const_bound t :
  Qle_bool (Qabs (tconst t)) 2 = true -> (Q2R REFINEMENT_TOLERANCE * (1 + Rabs (Q2R (tconst t))) < 1)%R.
Proof.
  intros H. apply Qle_bool_iff in H. apply Qle_Rle in H. rewrite Q2R_Qabs in H.
  assert (E : Q2R 2 = 2%R) by (unfold Q2R; cbn; lra). rewrite E in H.
  pose proof tol_small. pose proof tol_nonneg. nra.
Qed.
Example nested_le_incomplete O :
  lp_spec 0 O -> lp_total O ->
  (forall rho, den ex_wide rho -> den ex_split rho) /\ nested_le O ex_wide ex_split = inl false.
Proof.
  intros HO HT. split.
  - intros rho [x [[<-|[]] Hs]]. inversion Hs as [|? ? H1 Hs2]; subst. inversion Hs2 as [|? ? H2 _]; subst.
    unfold sat, le_x, ge_x in H1, H2. cbn in H1, H2. unfold Q2R in H1, H2. cbn in H1, H2.
    destruct (Rle_dec (rho "x") 1) as [Hle|Hgt].
    + exists [le_x 1; ge_x 0]. split; [left; reflexivity|].
      constructor; [|constructor; [|constructor]]; unfold sat, le_x, ge_x; cbn; unfold Q2R; cbn; lra.
    + exists [le_x 2; ge_x 1]. split; [right; left; reflexivity|].
      constructor; [|constructor; [|constructor]]; unfold sat, le_x, ge_x; cbn; unfold Q2R; cbn; lra.
  - assert (Wa : Forall wfl ex_wide).
    { constructor; [|constructor]. apply wfa_x_terms. x_terms. }
    assert (Wb : Forall wfl ex_split).
    { constructor; [|constructor; [|constructor]]; apply wfa_x_terms; x_terms. }
    destruct (nested_le_total O HO HT ex_wide ex_split Wa Wb) as [[|] E]; [|exact E]. exfalso.
    pose proof tol_small as Ht. pose proof tol_nonneg as Hp.
    assert (Sb : Forall small_consts ex_split).
    { repeat constructor; apply small_const_bound; vm_compute; reflexivity. }
    destruct (nested_le_sound_alt O HO ex_wide ex_split Wa Wb Sb E [le_x 2; ge_x 0] (or_introl eq_refl))
      as [y [Hy Himp]].
    destruct Hy as [<-|[<-|[]]].
    + (* [0,1] does not contain the point 2 *)
      assert (Hs : sat_list (fun _ => 2%R) [le_x 2; ge_x 0]).
      { constructor; [|constructor; [|constructor]]; unfold sat, le_x, ge_x; cbn; unfold Q2R; cbn; lra. }
      apply Himp in Hs. inversion Hs as [|? ? H1 _]; subst. unfold sat_tol, le_x in H1. cbn in H1.
      unfold Q2R at 1 2 4 in H1. cbn in H1. replace (1 * / 1)%R with 1%R in H1 by lra.
      rewrite Rabs_R1 in H1. lra.
    + (* [1,2] does not contain the point 0 *)
      assert (Hs : sat_list (fun _ => 0%R) [le_x 2; ge_x 0]).
      { constructor; [|constructor; [|constructor]]; unfold sat, le_x, ge_x; cbn; unfold Q2R; cbn; lra. }
      apply Himp in Hs. inversion Hs as [|? ? _ Hs2]; subst. inversion Hs2 as [|? ? H2 _]; subst.
      unfold sat_tol, ge_x in H2. cbn in H2. unfold Q2R at 1 2 4 in H2. cbn in H2.
      replace (-1 * / 1)%R with (-1)%R in H2 by lra. rewrite Rabs_left in H2 by lra. lra.
Qed.

(* Why stored zero coefficients are excluded ([nz_terms] in [wfa]): copy drops them, the copied
   term has no variable left, and the emptiness test then says "not empty" without asking the
   solver.  Two (equal) EMPTY alternatives 0*x <= -1 are reported as overlapping. *)
Definition ex_zero_alt : list pterm := [mkT [("x", 0%Q)] (-1)%Q].
Example disjoint_check_needs_nz O :
  Forall wfl [ex_zero_alt; ex_zero_alt] /\ ~ shares [ex_zero_alt; ex_zero_alt] /\
  nested_init O [ex_zero_alt; ex_zero_alt] true = inr ValueErr.
Proof.
  split; [|split].
  - assert (W : wfl ex_zero_alt).
    { split; [|reflexivity]. constructor; [apply wft_single|constructor]. }
    constructor; [exact W|constructor; [exact W|constructor]].
  - intros [i [j [x [y [_ [Hi [_ [rho [Hs _]]]]]]]]].
    assert (Hx : x = ex_zero_alt).
    { destruct i as [|[|i]]; cbn in Hi; try (inversion Hi; reflexivity). destruct i; discriminate. }
    subst x. inversion Hs as [|? ? H1 _]; subst. unfold sat in H1. cbn in H1. unfold Q2R in H1. cbn in H1. lra.
  - reflexivity.
Qed.
Local Close Scope string_scope.

Print Assumptions nested_contains_iff.
Print Assumptions nested_contains_error.
Print Assumptions intersect_sem.
Print Assumptions intersect_outcome.
Print Assumptions nested_le_sound.
Print Assumptions nested_le_complete_alt.
Print Assumptions disjoint_check_iff.
Print Assumptions compound_init_inl.
Print Assumptions disjoint_check_sound.
Print Assumptions intersect_sem_wft.
Print Assumptions compound_merge_sem.
Print Assumptions compound_merge_total.
Print Assumptions nested_eqb_sound.
Print Assumptions touching_rejected.
Print Assumptions nested_le_incomplete.
Print Assumptions disjoint_check_needs_nz.
