(* TacticsFacts.v — soundness of variable elimination (property C04) for the executable model
   model/Tactics.v of PolyhedralTermList._transform and its tactics.  Meaning of terms: base/Sem.v;
   LP solver specification: proofs/PolySpec.v. *)
From Coq Require Import List String Bool QArith Qabs ZArith Reals Qreals Lra Lia Arith.
Import ListNotations.
Require Import Py ListsGen Sem Term Poly Tactics PolySpec QR ListsFacts TermFacts PolyLP PolyFacts TacticsLin.
Local Open Scope R_scope.

(* ------------------------------------------------------------------ *)
(** * Evaluation of a term as an affine function; point updates *)
Definition ev (rho : val) (t : pterm) : R := lin rho (tvars t) - Q2R (tconst t).
Definition upd (rho : val) (v : var) (x : R) : val := fun w => if String.eqb w v then x else rho w.
Definition gcR (t : pterm) (v : var) : R := Q2R (get_coefficient t v).

Lemma sat_ev rho t : sat rho t <-> ev rho t <= 0.
Proof. unfold sat, ev. split; intros; lra. Qed.
Lemma ev_copy rho t : ev rho (term_copy t) = ev rho t.
Proof. unfold ev, term_copy. rewrite lin_mk_term, mk_term_const. reflexivity. Qed.
Lemma upd_same rho v x : upd rho v x v = x.
Proof. unfold upd. rewrite String.eqb_refl. reflexivity. Qed.
Lemma upd_other rho v x w : w <> v -> upd rho v x w = rho w.
Proof. intros H. unfold upd. apply String.eqb_neq in H. rewrite H. reflexivity. Qed.

Lemma ev_upd rho t v x : wft t -> ev (upd rho v x) t = ev rho t + gcR t v * (x - rho v).
Proof.
  intros Ht. unfold ev, upd, gcR. rewrite (lin_update rho v x (tvars t) Ht), get_coefficient_coef. lra.
Qed.
Lemma ev_ext rho rho2 t : (forall x, In x (term_vars_p t) -> rho x = rho2 x) -> ev rho t = ev rho2 t.
Proof. intros H. unfold ev. rewrite (lin_ext_keys rho rho2 (tvars t) H). reflexivity. Qed.
Lemma gcR_notin t v : ~ In v (term_vars_p t) -> gcR t v = 0.
Proof. intros H. unfold gcR. rewrite (get_coefficient_notin t v H). apply Q2R_0. Qed.
(* a coefficient is the slope of ev *)
Lemma gcR_slope t v : wft t -> gcR t v = ev (upd (fun _ => 0) v 1) t - ev (fun _ => 0) t.
Proof. intros Ht. rewrite (ev_upd _ t v 1 Ht). lra. Qed.

Lemma ev_subst rho t v s : wft t -> wft s ->
  ev rho (term_substitute_variable t v s) = ev rho t + gcR t v * (ev rho s - rho v).
Proof. intros Ht Hs. pose proof (substitute_sem rho t v s Ht Hs) as H. cbv zeta in H. unfold ev, gcR. lra. Qed.
Lemma ev_subst_upd rho t v s : wft t -> wft s ->
  ev rho (term_substitute_variable t v s) = ev (upd rho v (ev rho s)) t.
Proof. intros Ht Hs. rewrite (ev_subst rho t v s Ht Hs), (ev_upd rho t v _ Ht). reflexivity. Qed.
Lemma gcR_subst t v s w : wft t -> wft s ->
  gcR (term_substitute_variable t v s) w =
  if String.eqb w v then gcR t v * gcR s v else gcR t w + gcR t v * gcR s w.
Proof.
  intros Ht Hs. assert (Hw : wft (term_substitute_variable t v s)) by (apply wft_substitute_variable; assumption).
  rewrite (gcR_slope _ w Hw), !ev_subst by assumption.
  rewrite (ev_upd _ t w 1 Ht), (ev_upd _ s w 1 Hs). unfold upd at 1.
  destruct (String.eqb v w) eqn:E.
  - apply String.eqb_eq in E. subst w. rewrite String.eqb_refl. lra.
  - rewrite String.eqb_sym, E. lra.
Qed.

(* ------------------------------------------------------------------ *)
(** * M1: the exact solver (Gauss-Jordan replacing sympy.solve) *)
Lemma wft_solve_isolate p v : wft p -> wft (solve_isolate p v).
Proof.
  intros Hp. unfold solve_isolate. apply wft_mk_term.
  rewrite (keys_map_snd (fun q => qdiv (qneg (snd q)) (get_coefficient p v))).
  apply NoDup_keys_filter. exact Hp.
Qed.
Lemma ev_solve_isolate rho p v : wft p -> gcR p v <> 0 ->
  ev rho (solve_isolate p v) = rho v - ev rho p / gcR p v.
Proof.
  intros Hp Ha. unfold gcR in *. assert (HaQ : ~ (get_coefficient p v == 0)%Q) by (apply Q2R_neq0; exact Ha).
  unfold ev, solve_isolate. rewrite lin_mk_term, mk_term_const, (lin_map_div rho _ _ HaQ).
  change (filter (fun q : string * Q => negb (String.eqb (fst q) v)) (tvars p)) with (dict_pop (tvars p) v).
  rewrite (lin_dict_pop rho (tvars p) v Hp), <- get_coefficient_coef.
  rewrite Q2R_qneg, (Q2R_qdiv _ _ HaQ). field. exact Ha.
Qed.
Lemma gcR_solve_isolate p v w : wft p -> gcR p v <> 0 ->
  gcR (solve_isolate p v) w = if String.eqb w v then 0 else - gcR p w / gcR p v.
Proof.
  intros Hp Ha. rewrite (gcR_slope _ w (wft_solve_isolate p v Hp)), !ev_solve_isolate by assumption.
  rewrite (ev_upd _ p w 1 Hp). unfold upd.
  destruct (String.eqb v w) eqn:E.
  - apply String.eqb_eq in E. subst w. rewrite String.eqb_refl. field. exact Ha.
  - rewrite String.eqb_sym, E. field. exact Ha.
Qed.

Lemma find_pivot_spec v rows p others :
  find_pivot v rows = Some (p, others) ->
  gcR p v <> 0 /\ In p rows /\ (forall r, In r others -> In r rows) /\
  (forall r, In r rows -> r = p \/ In r others) /\ List.length rows = S (List.length others).
Proof.
  revert p others. induction rows as [|r rest IH]; intros p others; simpl; [discriminate|].
  destruct (negb (qzero (get_coefficient r v))) eqn:E.
  - intros H. inversion H; subst. apply negb_true_iff in E. apply qzero_false in E.
    repeat split; auto. intros r [<-|Hr]; auto.
  - destruct (find_pivot v rest) as [[p' o']|] eqn:F; [|discriminate].
    intros H. destruct (IH p' o' eq_refl) as [H1 [H2 [H3 [H4 H5]]]]. inversion H; subst p others.
    split; [exact H1|]. split; [right; exact H2|]. split; [|split].
    + intros r0 [<-|Hr]; [left; reflexivity|right; apply H3; exact Hr].
    + intros r0 [<-|Hr]; [right; left; reflexivity|]. destruct (H4 r0 Hr); [left|right; right]; assumption.
    + simpl. rewrite H5. reflexivity.
Qed.
Lemma find_pivot_none v rows : find_pivot v rows = None -> forall r, In r rows -> gcR r v = 0.
Proof.
  induction rows as [|r rest IH]; simpl; [intros _ r []|].
  destruct (negb (qzero (get_coefficient r v))) eqn:E; [discriminate|].
  destruct (find_pivot v rest) as [[p' o']|] eqn:F; [discriminate|].
  intros _ r0 [<-|Hr]; [|apply IH; [reflexivity|exact Hr]].
  apply negb_false_iff in E. apply qzero_true in E. exact E.
Qed.

(* a linear combination of two valuations' evaluations, so that one invariant covers both
   "the row holds with equality" (k = 0) and "the two points agree on the row" (k = 1) *)
Definition dv (k : R) (r1 r2 : val) (t : pterm) : R := ev r1 t - k * ev r2 t.
Definition dvs (k : R) (r1 r2 : val) (l : list pterm) : Prop := forall r, In r l -> dv k r1 r2 r = 0.

(* the state of the elimination *)
Record gstate (pivots : list (var * pterm)) (rows : list pterm) : Prop := {
  gs_wfr : Forall wft rows;
  gs_wfp : forall v p, In (v, p) pivots -> wft p;
  gs_nz  : forall v p, In (v, p) pivots -> gcR p v <> 0;
  gs_ind : forall v p w, In (v, p) pivots -> In w (map fst pivots) -> w <> v -> gcR p w = 0;
  gs_row : forall r w, In r rows -> In w (map fst pivots) -> gcR r w = 0;
  gs_nd  : NoDup (map fst pivots)
}.

Lemma dv_subst k r1 r2 t v p : wft t -> wft p -> gcR p v <> 0 ->
  dv k r1 r2 (term_substitute_variable t v (solve_isolate p v)) =
  dv k r1 r2 t - gcR t v / gcR p v * dv k r1 r2 p.
Proof.
  intros Ht Hp Ha. unfold dv. rewrite !ev_subst by (try apply wft_solve_isolate; assumption).
  rewrite !ev_solve_isolate by assumption. field. exact Ha.
Qed.


Definition gsub (v : var) (p : pterm) (r : pterm) : pterm := term_substitute_variable r v (solve_isolate p v).
Definition gpiv (v : var) (p : pterm) (pivots : list (var * pterm)) : list (var * pterm) :=
  map (fun q => (fst q, gsub v p (snd q))) pivots ++ [(v, p)].

Lemma in_gpiv v p pivots x y :
  In (x, y) (gpiv v p pivots) <-> (exists p0, In (x, p0) pivots /\ y = gsub v p p0) \/ (x = v /\ y = p).
Proof.
  unfold gpiv. rewrite in_app_iff, in_map_iff. simpl. split.
  - intros [[[x0 p0] [E Hi]]|[E|[]]]; simpl in E; inversion E; subst; [left; eauto|right; auto].
  - intros [[p0 [Hi ->]]|[-> ->]]; [left; exists (x, p0); auto|right; left; reflexivity].
Qed.
Lemma fst_gpiv v p pivots : map fst (gpiv v p pivots) = map fst pivots ++ [v].
Proof. unfold gpiv. rewrite map_app, map_map. simpl. reflexivity. Qed.
Lemma snd_gpiv v p pivots : map snd (gpiv v p pivots) = map (gsub v p) (map snd pivots) ++ [p].
Proof. unfold gpiv. rewrite map_app, !map_map. simpl. reflexivity. Qed.

Lemma in_fst_pivots (pivots : list (var * pterm)) v : In v (map fst pivots) <-> exists p, In (v, p) pivots.
Proof.
  rewrite in_map_iff. split.
  - intros [[x p] [E Hi]]. simpl in E. subst. eauto.
  - intros [p Hi]. exists (v, p). auto.
Qed.

Lemma gauss_step pivots rows v p others :
  gstate pivots rows -> find_pivot v rows = Some (p, others) -> ~ In v (map fst pivots) ->
  gstate (gpiv v p pivots) (map (gsub v p) others) /\
  (forall k r1 r2, (dvs k r1 r2 (map snd pivots) /\ dvs k r1 r2 rows) <->
                   (dvs k r1 r2 (map snd (gpiv v p pivots)) /\ dvs k r1 r2 (map (gsub v p) others))) /\
  (forall z, (forall r, In r rows -> gcR r z = 0) -> forall r, In r (map (gsub v p) others) -> gcR r z = 0).
Proof.
  intros [Hwr Hwp Hnz Hind Hrow Hnd] Hf Hv.
  destruct (find_pivot_spec v rows p others Hf) as [Ha [Hp [Hsub [Hcov _]]]].
  rewrite Forall_forall in Hwr. assert (Hwfp : wft p) by (apply Hwr; exact Hp).
  assert (Hws : wft (solve_isolate p v)) by (apply wft_solve_isolate; exact Hwfp).
  assert (Hsv : gcR (solve_isolate p v) v = 0).
  { rewrite gcR_solve_isolate by assumption. rewrite String.eqb_refl. reflexivity. }
  assert (Hsp : forall w, In w (map fst pivots) -> gcR (solve_isolate p v) w = 0).
  { intros w Hw. rewrite gcR_solve_isolate by assumption.
    destruct (String.eqb w v); [reflexivity|]. rewrite (Hrow p w Hp Hw). field. exact Ha. }
  assert (Hgs : forall t w, wft t -> gcR (gsub v p t) w =
            if String.eqb w v then gcR t v * gcR (solve_isolate p v) v
            else gcR t w + gcR t v * gcR (solve_isolate p v) w).
  { intros t w Ht. unfold gsub. apply gcR_subst; assumption. }
  split; [|split].
  - constructor.
    + apply Forall_forall. intros r Hr. apply in_map_iff in Hr. destruct Hr as [r0 [<- Hr0]].
      apply wft_substitute_variable; [apply Hwr; apply Hsub; exact Hr0|exact Hws].
    + intros x y Hi. apply in_gpiv in Hi. destruct Hi as [[p0 [Hi ->]]|[-> ->]]; [|exact Hwfp].
      apply wft_substitute_variable; [eapply Hwp; exact Hi|exact Hws].
    + intros x y Hi. apply in_gpiv in Hi. destruct Hi as [[p0 [Hi ->]]|[-> ->]]; [|exact Ha].
      assert (Hx : In x (map fst pivots)) by (apply in_fst_pivots; eauto).
      rewrite Hgs by (eapply Hwp; exact Hi).
      destruct (String.eqb x v) eqn:E; [apply String.eqb_eq in E; subst; contradiction|].
      rewrite (Hsp x Hx). pose proof (Hnz x p0 Hi). lra.
    + intros x y w Hi Hw Hne. rewrite fst_gpiv, in_app_iff in Hw. simpl in Hw.
      apply in_gpiv in Hi. destruct Hi as [[p0 [Hi ->]]|[-> ->]].
      * rewrite Hgs by (eapply Hwp; exact Hi). destruct (String.eqb w v) eqn:E.
        -- rewrite Hsv. lra.
        -- destruct Hw as [Hw|[Hw|[]]]; [|subst; rewrite String.eqb_refl in E; discriminate].
           rewrite (Hind x p0 w Hi Hw Hne), (Hsp w Hw). lra.
      * destruct Hw as [Hw|[Hw|[]]]; [apply Hrow; assumption|congruence].
    + intros r w Hr Hw. apply in_map_iff in Hr. destruct Hr as [r0 [<- Hr0]].
      rewrite fst_gpiv, in_app_iff in Hw. simpl in Hw.
      rewrite Hgs by (apply Hwr; apply Hsub; exact Hr0). destruct (String.eqb w v) eqn:E.
      * rewrite Hsv. lra.
      * destruct Hw as [Hw|[Hw|[]]]; [|subst; rewrite String.eqb_refl in E; discriminate].
        rewrite (Hrow r0 w (Hsub _ Hr0) Hw), (Hsp w Hw). lra.
    + rewrite fst_gpiv. apply NoDup_app_intro; [exact Hnd|constructor; [intros []|constructor]|].
      intros x Hx [<-|[]]. contradiction.
  - intros k r1 r2. unfold dvs. rewrite snd_gpiv. split.
    + intros [H1 H2]. assert (Hdp : dv k r1 r2 p = 0) by (apply H2; exact Hp). split.
      * intros r Hr. apply in_app_iff in Hr. destruct Hr as [Hr|[<-|[]]]; [|exact Hdp].
        apply in_map_iff in Hr. destruct Hr as [r0 [<- Hr0]]. unfold gsub.
        assert (Hw0 : wft r0).
        { apply in_map_iff in Hr0. destruct Hr0 as [[x y] [<- Hi]]. eapply Hwp. exact Hi. }
        rewrite dv_subst by assumption. rewrite Hdp, (H1 r0 Hr0). lra.
      * intros r Hr. apply in_map_iff in Hr. destruct Hr as [r0 [<- Hr0]]. unfold gsub.
        rewrite dv_subst by (try assumption; apply Hwr; apply Hsub; exact Hr0).
        rewrite Hdp, (H2 r0 (Hsub _ Hr0)). lra.
    + intros [H1 H2]. assert (Hdp : dv k r1 r2 p = 0) by (apply H1; apply in_app_iff; right; left; reflexivity).
      split.
      * intros r0 Hr0. assert (Hw0 : wft r0).
        { apply in_map_iff in Hr0. destruct Hr0 as [[x y] [<- Hi]]. eapply Hwp. exact Hi. }
        assert (H : dv k r1 r2 (gsub v p r0) = 0).
        { apply H1. apply in_app_iff. left. apply in_map. exact Hr0. }
        unfold gsub in H. rewrite dv_subst in H by assumption. rewrite Hdp in H. lra.
      * intros r0 Hr0. destruct (Hcov r0 Hr0) as [->|Ho]; [exact Hdp|].
        assert (H : dv k r1 r2 (gsub v p r0) = 0) by (apply H2; apply in_map; exact Ho).
        unfold gsub in H. rewrite dv_subst in H by (try assumption; apply Hwr; exact Hr0).
        rewrite Hdp in H. lra.
  - intros z Hz r Hr. apply in_map_iff in Hr. destruct Hr as [r0 [<- Hr0]].
    rewrite Hgs by (apply Hwr; apply Hsub; exact Hr0).
    destruct (String.eqb z v) eqn:E; [rewrite Hsv; lra|].
    rewrite (Hz r0 (Hsub _ Hr0)), gcR_solve_isolate by assumption. rewrite E, (Hz p Hp). field. exact Ha.
Qed.

Lemma gauss_spec vs : forall pivots rows pivots' rest,
  gauss vs pivots rows = (pivots', rest) ->
  NoDup vs -> (forall v, In v vs -> ~ In v (map fst pivots)) ->
  gstate pivots rows ->
  gstate pivots' rest /\
  (forall k r1 r2, (dvs k r1 r2 (map snd pivots) /\ dvs k r1 r2 rows) <->
                   (dvs k r1 r2 (map snd pivots') /\ dvs k r1 r2 rest)) /\
  (forall v, In v (map fst pivots') -> In v (map fst pivots) \/ In v vs) /\
  (forall v, In v (map fst pivots) -> In v (map fst pivots')) /\
  (forall z, (forall r, In r rows -> gcR r z = 0) -> forall r, In r rest -> gcR r z = 0) /\
  (forall v, In v vs -> ~ In v (map fst pivots') -> forall r, In r rest -> gcR r v = 0) /\
  (List.length rest + List.length pivots' = List.length rows + List.length pivots)%nat.
Proof.
  induction vs as [|v vs IH]; intros pivots rows pivots' rest Hg Hnd Hdis Hst.
  - simpl in Hg. inversion Hg; subst. split; [exact Hst|]. split; [intros; tauto|].
    split; [intros; tauto|]. split; [intros; assumption|]. split; [intros z Hz; exact Hz|].
    split; [intros v []|reflexivity].
  - simpl in Hg. inversion Hnd as [|? ? Hv Hnd']; subst.
    destruct (find_pivot v rows) as [[p others]|] eqn:F.
    + assert (Hvp : ~ In v (map fst pivots)) by (apply Hdis; left; reflexivity).
      destruct (gauss_step pivots rows v p others Hst F Hvp) as [Hst1 [Heq1 Hz1]].
      change (gauss vs (gpiv v p pivots) (map (gsub v p) others) = (pivots', rest)) in Hg.
      assert (Hdis1 : forall x, In x vs -> ~ In x (map fst (gpiv v p pivots))).
      { intros x Hx. rewrite fst_gpiv, in_app_iff. simpl. intros [H|[H|[]]].
        - apply (Hdis x); [right; exact Hx|exact H].
        - subst. contradiction. }
      destruct (IH _ _ _ _ Hg Hnd' Hdis1 Hst1) as [G1 [G2 [G3 [G4 [G5 [G6 G7]]]]]].
      split; [exact G1|]. split; [|split; [|split; [|split; [|split]]]].
      * intros k r1 r2. rewrite (Heq1 k r1 r2). apply G2.
      * intros x Hx. apply G3 in Hx. rewrite fst_gpiv, in_app_iff in Hx. simpl in Hx. simpl. tauto.
      * intros x Hx. apply G4. rewrite fst_gpiv, in_app_iff. left. exact Hx.
      * intros z Hz. apply G5. apply Hz1. exact Hz.
      * intros x [<-|Hx] Hn; [|apply G6; assumption].
        exfalso. apply Hn. apply G4. rewrite fst_gpiv, in_app_iff. right. left. reflexivity.
      * rewrite G7. unfold gpiv. rewrite app_length, !map_length. simpl.
        destruct (find_pivot_spec v rows p others F) as [_ [_ [_ [_ L]]]]. rewrite L. lia.
    + assert (Hdis1 : forall x, In x vs -> ~ In x (map fst pivots)) by (intros x Hx; apply Hdis; right; exact Hx).
      destruct (IH _ _ _ _ Hg Hnd' Hdis1 Hst) as [G1 [G2 [G3 [G4 [G5 [G6 G7]]]]]].
      split; [exact G1|]. split; [exact G2|]. split; [|split; [exact G4|split; [exact G5|split; [|exact G7]]]].
      * intros x Hx. apply G3 in Hx. simpl. tauto.
      * intros x [<-|Hx] Hn; [|apply G6; assumption].
        apply G5. apply find_pivot_none. exact F.
Qed.

Definition sol_of (q : var * pterm) : var * pterm := (fst q, solve_isolate (snd q) (fst q)).

Lemma solve_unfold rows vs sols :
  solve_for_variables rows vs = inl sols ->
  let V := list_intersection (tl_vars rows) vs in
  List.length rows = List.length V /\
  exists pivots rest, gauss V [] rows = (pivots, rest) /\
    ((forallb row_is_zero rest = true /\ sols = map sol_of pivots) \/ sols = []).
Proof.
  unfold solve_for_variables. cbv zeta.
  destruct (Nat.eqb (List.length rows) (List.length (list_intersection (tl_vars rows) vs))) eqn:L;
    cbn [negb]; [|discriminate].
  apply Nat.eqb_eq in L. split; [exact L|].
  destruct (gauss (list_intersection (tl_vars rows) vs) [] rows) as [pivots rest] eqn:G.
  exists pivots, rest. split; [reflexivity|].
  destruct (forallb row_is_zero rest) eqn:Z; inversion H; subst; [left; split; reflexivity|right; reflexivity].
Qed.

Lemma gstate_init rows : Forall wft rows -> gstate [] rows.
Proof.
  intros H. constructor; simpl; try (intros; contradiction); [exact H|constructor].
Qed.

Lemma row_is_zero_ev r rho : row_is_zero r = true -> ev rho r = 0.
Proof.
  unfold row_is_zero. rewrite andb_true_iff, negb_true_iff. intros [H1 H2].
  apply nonempty_false in H1. apply qzero_true in H2. unfold ev.
  unfold term_vars_p, keys in H1. apply map_eq_nil in H1. rewrite H1, H2. simpl. lra.
Qed.

Lemma map_fst_sol_of pivots : map fst (map sol_of pivots) = map fst pivots.
Proof. rewrite map_map. reflexivity. Qed.
Lemma in_sol_of pivots v s : In (v, s) (map sol_of pivots) <-> exists p, In (v, p) pivots /\ s = solve_isolate p v.
Proof.
  rewrite in_map_iff. split.
  - intros [[x p] [E Hi]]. unfold sol_of in E. simpl in E. inversion E; subst. eauto.
  - intros [p [Hi ->]]. exists (v, p). split; [reflexivity|exact Hi].
Qed.

(* what the solver guarantees (both directions; [k = 0] is the reading "rows hold as equalities") *)
Lemma solve_spec rows vs sols :
  Forall wft rows -> solve_for_variables rows vs = inl sols ->
  (forall v s, In (v, s) sols -> wft s) /\
  NoDup (map fst sols) /\
  (forall v, In v (map fst sols) -> In v vs /\ In v (tl_vars rows)) /\
  (forall v s w, In (v, s) sols -> In w (map fst sols) -> gcR s w = 0) /\
  (sols = [] \/
   forall k r1 r2, dvs k r1 r2 rows <-> (forall v s, In (v, s) sols -> dv k r1 r2 s = r1 v - k * r2 v)).
Proof.
  intros Hw H. apply solve_unfold in H. cbv zeta in H. destruct H as [L [pivots [rest [G H]]]].
  assert (HV : NoDup (list_intersection (tl_vars rows) vs)).
  { apply NoDup_list_intersection. apply NoDup_tl_vars. exact Hw. }
  destruct (gauss_spec _ _ _ _ _ G HV (fun _ _ F => F) (gstate_init rows Hw))
    as [[Gwr Gwp Gnz Gind Grow Gnd] [G2 [G3 _]]].
  destruct H as [[Z ->]| ->].
  2:{ simpl. repeat split; try (intros; contradiction); [constructor|left; reflexivity]. }
  rewrite map_fst_sol_of. split; [|split; [exact Gnd|split; [|split]]].
  - intros v s Hi. apply in_sol_of in Hi. destruct Hi as [p [Hi ->]]. apply wft_solve_isolate. eapply Gwp. exact Hi.
  - intros v Hv. apply G3 in Hv. destruct Hv as [[]|Hv]. apply in_list_intersection in Hv. tauto.
  - intros v s w Hi Hw'. apply in_sol_of in Hi. destruct Hi as [p [Hi ->]].
    rewrite gcR_solve_isolate by (first [eapply Gwp|eapply Gnz]; exact Hi).
    destruct (String.eqb w v) eqn:E; [reflexivity|]. apply String.eqb_neq in E.
    rewrite (Gind v p w Hi Hw' E). field. eapply Gnz. exact Hi.
  - right. intros k r1 r2. specialize (G2 k r1 r2). simpl in G2.
    assert (Hrest : dvs k r1 r2 rest).
    { intros r Hr. rewrite forallb_forall in Z. specialize (Z r Hr). unfold dv.
      rewrite !(row_is_zero_ev r _ Z). lra. }
    assert (Hnil : dvs k r1 r2 []) by (intros r []).
    split.
    + intros Hr v s Hi. apply in_sol_of in Hi. destruct Hi as [p [Hi ->]].
      assert (Hp : dv k r1 r2 p = 0).
      { apply (proj1 (proj1 G2 (conj Hnil Hr))). apply in_map_iff. exists (v, p). auto. }
      unfold dv in *. rewrite !ev_solve_isolate by (first [eapply Gwp|eapply Gnz]; exact Hi).
      pose proof (Gnz v p Hi) as Ha.
      replace (r1 v - ev r1 p / gcR p v - k * (r2 v - ev r2 p / gcR p v))
        with (r1 v - k * r2 v - (ev r1 p - k * ev r2 p) / gcR p v) by (field; exact Ha).
      rewrite Hp. field. exact Ha.
    + intros Hs. apply (proj2 G2). split; [|exact Hrest].
      intros p Hp. apply in_map_iff in Hp. destruct Hp as [[v p'] [<- Hi]]. simpl.
      assert (Hi' : In (v, solve_isolate p' v) (map sol_of pivots)) by (apply in_sol_of; eauto).
      specialize (Hs _ _ Hi'). unfold dv in *.
      rewrite !ev_solve_isolate in Hs by (first [eapply Gwp|eapply Gnz]; exact Hi).
      pose proof (Gnz v p' Hi) as Ha.
      assert (E0 : (ev r1 p' - k * ev r2 p') / gcR p' v = 0).
      { replace ((ev r1 p' - k * ev r2 p') / gcR p' v)
          with (ev r1 p' / gcR p' v - k * (ev r2 p' / gcR p' v)) by (field; exact Ha). lra. }
      replace (ev r1 p' - k * ev r2 p') with ((ev r1 p' - k * ev r2 p') / gcR p' v * gcR p' v) by (field; exact Ha).
      rewrite E0. lra.
Qed.

(* M1 as stated: every solution of the rows (taken as equalities) satisfies the returned substitutions *)
Theorem solve_sound rows vs sols :
  Forall wft rows -> solve_for_variables rows vs = inl sols ->
  forall rho, (forall r, In r rows -> lin rho (tvars r) = Q2R (tconst r)) ->
  forall v s, In (v, s) sols -> rho v = lin rho (tvars s) - Q2R (tconst s).
Proof.
  intros Hw H rho Hr v s Hi. destruct (solve_spec rows vs sols Hw H) as [_ [_ [_ [_ [->|E]]]]]; [destruct Hi|].
  assert (Hd : dvs 0 rho rho rows).
  { intros r Hin. unfold dv, ev. rewrite (Hr r Hin). lra. }
  apply (proj1 (E 0 rho rho)) with (v := v) (s := s) in Hd; [|exact Hi]. unfold dv, ev in Hd. lra.
Qed.
(* ... and conversely: a point at which the substitutions hold satisfies every row with equality *)
Theorem solve_complete rows vs sols :
  Forall wft rows -> solve_for_variables rows vs = inl sols -> sols <> [] ->
  forall rho, (forall v s, In (v, s) sols -> rho v = lin rho (tvars s) - Q2R (tconst s)) ->
  forall r, In r rows -> lin rho (tvars r) = Q2R (tconst r).
Proof.
  intros Hw H Hne rho Hs r Hin. destruct (solve_spec rows vs sols Hw H) as [_ [_ [_ [_ [->|E]]]]]; [congruence|].
  assert (Hd : dvs 0 rho rho rows).
  { apply (proj2 (E 0 rho rho)). intros v s Hi. unfold dv, ev. rewrite (Hs v s Hi). lra. }
  specialize (Hd r Hin). unfold dv, ev in Hd. lra.
Qed.
