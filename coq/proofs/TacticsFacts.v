(* TacticsFacts.v — soundness of variable elimination (property C04) for the executable model
   model/Tactics.v of PolyhedralTermList._transform and its tactics.  Meaning of terms: base/Sem.v;
   LP solver specification: proofs/PolySpec.v. *)
From Coq Require Import List String Bool QArith Qabs ZArith Reals Qreals Lra Lia Arith.
Import ListNotations.
Require Import Py ListsGen Sem Term Poly Tactics PolySpec QR ListsFacts TermFacts PolyLP PolyFacts TacticsLin.
Local Open Scope R_scope.

(* ------------------------------------------------------------------ *)
(** * Evaluation of a term as an affine function; point updates *)
Definition ev (rho : val) (t : pterm) : R := lin rho (tvars t) - Q2R (tconst t).
Definition upd (rho : val) (v : var) (x : R) : val := fun w => if String.eqb w v then x else rho w.
Definition gcR (t : pterm) (v : var) : R := Q2R (get_coefficient t v).

Lemma sat_ev rho t : sat rho t <-> ev rho t <= 0.
Proof. unfold sat, ev. split; intros; lra. Qed.
Lemma ev_copy rho t : ev rho (term_copy t) = ev rho t.
Proof. unfold ev, term_copy. rewrite lin_mk_term, mk_term_const. reflexivity. Qed.
Lemma upd_same rho v x : upd rho v x v = x.
Proof. unfold upd. rewrite String.eqb_refl. reflexivity. Qed.
Lemma upd_other rho v x w : w <> v -> upd rho v x w = rho w.
Proof. intros H. unfold upd. apply String.eqb_neq in H. rewrite H. reflexivity. Qed.

Lemma ev_upd rho t v x : wft t -> ev (upd rho v x) t = ev rho t + gcR t v * (x - rho v).
Proof.
  intros Ht. unfold ev, upd, gcR. rewrite (lin_update rho v x (tvars t) Ht), get_coefficient_coef. lra.
Qed.
Lemma ev_ext rho rho2 t : (forall x, In x (term_vars_p t) -> rho x = rho2 x) -> ev rho t = ev rho2 t.
Proof. intros H. unfold ev. rewrite (lin_ext_keys rho rho2 (tvars t) H). reflexivity. Qed.
Lemma gcR_notin t v : ~ In v (term_vars_p t) -> gcR t v = 0.
Proof. intros H. unfold gcR. rewrite (get_coefficient_notin t v H). apply Q2R_0. Qed.
(* a coefficient is the slope of ev *)
Lemma gcR_slope t v : wft t -> gcR t v = ev (upd (fun _ => 0) v 1) t - ev (fun _ => 0) t.
Proof. intros Ht. rewrite (ev_upd _ t v 1 Ht). lra. Qed.

Lemma ev_subst rho t v s : wft t -> wft s ->
  ev rho (term_substitute_variable t v s) = ev rho t + gcR t v * (ev rho s - rho v).
Proof. intros Ht Hs. pose proof (substitute_sem rho t v s Ht Hs) as H. cbv zeta in H. unfold ev, gcR. lra. Qed.
Lemma ev_subst_upd rho t v s : wft t -> wft s ->
  ev rho (term_substitute_variable t v s) = ev (upd rho v (ev rho s)) t.
Proof. intros Ht Hs. rewrite (ev_subst rho t v s Ht Hs), (ev_upd rho t v _ Ht). reflexivity. Qed.
Lemma gcR_subst t v s w : wft t -> wft s ->
  gcR (term_substitute_variable t v s) w =
  if String.eqb w v then gcR t v * gcR s v else gcR t w + gcR t v * gcR s w.
Proof.
  intros Ht Hs. assert (Hw : wft (term_substitute_variable t v s)) by (apply wft_substitute_variable; assumption).
  rewrite (gcR_slope _ w Hw), !ev_subst by assumption.
  rewrite (ev_upd _ t w 1 Ht), (ev_upd _ s w 1 Hs). unfold upd at 1.
  destruct (String.eqb v w) eqn:E.
  - apply String.eqb_eq in E. subst w. rewrite String.eqb_refl. lra.
  - rewrite String.eqb_sym, E. lra.
Qed.

(* ------------------------------------------------------------------ *)
(** * M1: the exact solver (Gauss-Jordan replacing sympy.solve) *)
Lemma wft_solve_isolate p v : wft p -> wft (solve_isolate p v).
Proof.
  intros Hp. unfold solve_isolate. apply wft_mk_term.
  rewrite (keys_map_snd (fun q => qdiv (qneg (snd q)) (get_coefficient p v))).
  apply NoDup_keys_filter. exact Hp.
Qed.
Lemma ev_solve_isolate rho p v : wft p -> gcR p v <> 0 ->
  ev rho (solve_isolate p v) = rho v - ev rho p / gcR p v.
Proof.
  intros Hp Ha. unfold gcR in *. assert (HaQ : ~ (get_coefficient p v == 0)%Q) by (apply Q2R_neq0; exact Ha).
  unfold ev, solve_isolate. rewrite lin_mk_term, mk_term_const, (lin_map_div rho _ _ HaQ).
  change (filter (fun q : string * Q => negb (String.eqb (fst q) v)) (tvars p)) with (dict_pop (tvars p) v).
  rewrite (lin_dict_pop rho (tvars p) v Hp), <- get_coefficient_coef.
  rewrite Q2R_qneg, (Q2R_qdiv _ _ HaQ). field. exact Ha.
Qed.
Lemma gcR_solve_isolate p v w : wft p -> gcR p v <> 0 ->
  gcR (solve_isolate p v) w = if String.eqb w v then 0 else - gcR p w / gcR p v.
Proof.
  intros Hp Ha. rewrite (gcR_slope _ w (wft_solve_isolate p v Hp)), !ev_solve_isolate by assumption.
  rewrite (ev_upd _ p w 1 Hp). unfold upd.
  destruct (String.eqb v w) eqn:E.
  - apply String.eqb_eq in E. subst w. rewrite String.eqb_refl. field. exact Ha.
  - rewrite String.eqb_sym, E. field. exact Ha.
Qed.

Lemma find_pivot_spec v rows p others :
  find_pivot v rows = Some (p, others) ->
  gcR p v <> 0 /\ In p rows /\ (forall r, In r others -> In r rows) /\
  (forall r, In r rows -> r = p \/ In r others) /\ List.length rows = S (List.length others).
Proof.
  revert p others. induction rows as [|r rest IH]; intros p others; simpl; [discriminate|].
  destruct (negb (qzero (get_coefficient r v))) eqn:E.
  - intros H. inversion H; subst. apply negb_true_iff in E. apply qzero_false in E.
    repeat split; auto. intros r [<-|Hr]; auto.
  - destruct (find_pivot v rest) as [[p' o']|] eqn:F; [|discriminate].
    intros H. destruct (IH p' o' eq_refl) as [H1 [H2 [H3 [H4 H5]]]]. inversion H; subst p others.
    split; [exact H1|]. split; [right; exact H2|]. split; [|split].
    + intros r0 [<-|Hr]; [left; reflexivity|right; apply H3; exact Hr].
    + intros r0 [<-|Hr]; [right; left; reflexivity|]. destruct (H4 r0 Hr); [left|right; right]; assumption.
    + simpl. rewrite H5. reflexivity.
Qed.
Lemma find_pivot_none v rows : find_pivot v rows = None -> forall r, In r rows -> gcR r v = 0.
Proof.
  induction rows as [|r rest IH]; simpl; [intros _ r []|].
  destruct (negb (qzero (get_coefficient r v))) eqn:E; [discriminate|].
  destruct (find_pivot v rest) as [[p' o']|] eqn:F; [discriminate|].
  intros _ r0 [<-|Hr]; [|apply IH; [reflexivity|exact Hr]].
  apply negb_false_iff in E. apply qzero_true in E. exact E.
Qed.

(* a linear combination of two valuations' evaluations, so that one invariant covers both
   "the row holds with equality" (k = 0) and "the two points agree on the row" (k = 1) *)
Definition dv (k : R) (r1 r2 : val) (t : pterm) : R := ev r1 t - k * ev r2 t.
Definition dvs (k : R) (r1 r2 : val) (l : list pterm) : Prop := forall r, In r l -> dv k r1 r2 r = 0.

(* the state of the elimination *)
Record gstate (pivots : list (var * pterm)) (rows : list pterm) : Prop := {
  gs_wfr : Forall wft rows;
  gs_wfp : forall v p, In (v, p) pivots -> wft p;
  gs_nz  : forall v p, In (v, p) pivots -> gcR p v <> 0;
  gs_ind : forall v p w, In (v, p) pivots -> In w (map fst pivots) -> w <> v -> gcR p w = 0;
  gs_row : forall r w, In r rows -> In w (map fst pivots) -> gcR r w = 0;
  gs_nd  : NoDup (map fst pivots)
}.

Lemma dv_subst k r1 r2 t v p : wft t -> wft p -> gcR p v <> 0 ->
  dv k r1 r2 (term_substitute_variable t v (solve_isolate p v)) =
  dv k r1 r2 t - gcR t v / gcR p v * dv k r1 r2 p.
Proof.
  intros Ht Hp Ha. unfold dv. rewrite !ev_subst by (try apply wft_solve_isolate; assumption).
  rewrite !ev_solve_isolate by assumption. field. exact Ha.
Qed.


Definition gsub (v : var) (p : pterm) (r : pterm) : pterm := term_substitute_variable r v (solve_isolate p v).
Definition gpiv (v : var) (p : pterm) (pivots : list (var * pterm)) : list (var * pterm) :=
  map (fun q => (fst q, gsub v p (snd q))) pivots ++ [(v, p)].

Lemma in_gpiv v p pivots x y :
  In (x, y) (gpiv v p pivots) <-> (exists p0, In (x, p0) pivots /\ y = gsub v p p0) \/ (x = v /\ y = p).
Proof.
  unfold gpiv. rewrite in_app_iff, in_map_iff. simpl. split.
  - intros [[[x0 p0] [E Hi]]|[E|[]]]; simpl in E; inversion E; subst; [left; eauto|right; auto].
  - intros [[p0 [Hi ->]]|[-> ->]]; [left; exists (x, p0); auto|right; left; reflexivity].
Qed.
Lemma fst_gpiv v p pivots : map fst (gpiv v p pivots) = map fst pivots ++ [v].
Proof. unfold gpiv. rewrite map_app, map_map. simpl. reflexivity. Qed.
Lemma snd_gpiv v p pivots : map snd (gpiv v p pivots) = map (gsub v p) (map snd pivots) ++ [p].
Proof. unfold gpiv. rewrite map_app, !map_map. simpl. reflexivity. Qed.

Lemma in_fst_pivots (pivots : list (var * pterm)) v : In v (map fst pivots) <-> exists p, In (v, p) pivots.
Proof.
  rewrite in_map_iff. split.
  - intros [[x p] [E Hi]]. simpl in E. subst. eauto.
  - intros [p Hi]. exists (v, p). auto.
Qed.

Lemma gauss_step pivots rows v p others :
  gstate pivots rows -> find_pivot v rows = Some (p, others) -> ~ In v (map fst pivots) ->
  gstate (gpiv v p pivots) (map (gsub v p) others) /\
  (forall k r1 r2, (dvs k r1 r2 (map snd pivots) /\ dvs k r1 r2 rows) <->
                   (dvs k r1 r2 (map snd (gpiv v p pivots)) /\ dvs k r1 r2 (map (gsub v p) others))) /\
  (forall z, (forall r, In r rows -> gcR r z = 0) -> forall r, In r (map (gsub v p) others) -> gcR r z = 0) /\
  (forall z, (forall r, In r rows -> gcR r z = 0) -> (forall x y, In (x, y) pivots -> gcR y z = 0) ->
             forall x y, In (x, y) (gpiv v p pivots) -> gcR y z = 0).
Proof.
  intros [Hwr Hwp Hnz Hind Hrow Hnd] Hf Hv.
  destruct (find_pivot_spec v rows p others Hf) as [Ha [Hp [Hsub [Hcov _]]]].
  rewrite Forall_forall in Hwr. assert (Hwfp : wft p) by (apply Hwr; exact Hp).
  assert (Hws : wft (solve_isolate p v)) by (apply wft_solve_isolate; exact Hwfp).
  assert (Hsv : gcR (solve_isolate p v) v = 0).
  { rewrite gcR_solve_isolate by assumption. rewrite String.eqb_refl. reflexivity. }
  assert (Hsp : forall w, In w (map fst pivots) -> gcR (solve_isolate p v) w = 0).
  { intros w Hw. rewrite gcR_solve_isolate by assumption.
    destruct (String.eqb w v); [reflexivity|]. rewrite (Hrow p w Hp Hw). field. exact Ha. }
  assert (Hgs : forall t w, wft t -> gcR (gsub v p t) w =
            if String.eqb w v then gcR t v * gcR (solve_isolate p v) v
            else gcR t w + gcR t v * gcR (solve_isolate p v) w).
  { intros t w Ht. unfold gsub. apply gcR_subst; assumption. }
  assert (Hsz : forall z, (forall r, In r rows -> gcR r z = 0) -> gcR (solve_isolate p v) z = 0).
  { intros z Hz. rewrite gcR_solve_isolate by assumption. destruct (String.eqb z v); [reflexivity|].
    rewrite (Hz p Hp). field. exact Ha. }
  split; [|split; [|split]].
  - constructor.
    + apply Forall_forall. intros r Hr. apply in_map_iff in Hr. destruct Hr as [r0 [<- Hr0]].
      apply wft_substitute_variable; [apply Hwr; apply Hsub; exact Hr0|exact Hws].
    + intros x y Hi. apply in_gpiv in Hi. destruct Hi as [[p0 [Hi ->]]|[-> ->]]; [|exact Hwfp].
      apply wft_substitute_variable; [eapply Hwp; exact Hi|exact Hws].
    + intros x y Hi. apply in_gpiv in Hi. destruct Hi as [[p0 [Hi ->]]|[-> ->]]; [|exact Ha].
      assert (Hx : In x (map fst pivots)) by (apply in_fst_pivots; eauto).
      rewrite Hgs by (eapply Hwp; exact Hi).
      destruct (String.eqb x v) eqn:E; [apply String.eqb_eq in E; subst; contradiction|].
      rewrite (Hsp x Hx). pose proof (Hnz x p0 Hi). lra.
    + intros x y w Hi Hw Hne. rewrite fst_gpiv, in_app_iff in Hw. simpl in Hw.
      apply in_gpiv in Hi. destruct Hi as [[p0 [Hi ->]]|[-> ->]].
      * rewrite Hgs by (eapply Hwp; exact Hi). destruct (String.eqb w v) eqn:E.
        -- rewrite Hsv. lra.
        -- destruct Hw as [Hw|[Hw|[]]]; [|subst; rewrite String.eqb_refl in E; discriminate].
           rewrite (Hind x p0 w Hi Hw Hne), (Hsp w Hw). lra.
      * destruct Hw as [Hw|[Hw|[]]]; [apply Hrow; assumption|congruence].
    + intros r w Hr Hw. apply in_map_iff in Hr. destruct Hr as [r0 [<- Hr0]].
      rewrite fst_gpiv, in_app_iff in Hw. simpl in Hw.
      rewrite Hgs by (apply Hwr; apply Hsub; exact Hr0). destruct (String.eqb w v) eqn:E.
      * rewrite Hsv. lra.
      * destruct Hw as [Hw|[Hw|[]]]; [|subst; rewrite String.eqb_refl in E; discriminate].
        rewrite (Hrow r0 w (Hsub _ Hr0) Hw), (Hsp w Hw). lra.
    + rewrite fst_gpiv. apply NoDup_app_intro; [exact Hnd|constructor; [intros []|constructor]|].
      intros x Hx [<-|[]]. contradiction.
  - intros k r1 r2. unfold dvs. rewrite snd_gpiv. split.
    + intros [H1 H2]. assert (Hdp : dv k r1 r2 p = 0) by (apply H2; exact Hp). split.
      * intros r Hr. apply in_app_iff in Hr. destruct Hr as [Hr|[<-|[]]]; [|exact Hdp].
        apply in_map_iff in Hr. destruct Hr as [r0 [<- Hr0]]. unfold gsub.
        assert (Hw0 : wft r0).
        { apply in_map_iff in Hr0. destruct Hr0 as [[x y] [<- Hi]]. eapply Hwp. exact Hi. }
        rewrite dv_subst by assumption. rewrite Hdp, (H1 r0 Hr0). lra.
      * intros r Hr. apply in_map_iff in Hr. destruct Hr as [r0 [<- Hr0]]. unfold gsub.
        rewrite dv_subst by (try assumption; apply Hwr; apply Hsub; exact Hr0).
        rewrite Hdp, (H2 r0 (Hsub _ Hr0)). lra.
    + intros [H1 H2]. assert (Hdp : dv k r1 r2 p = 0) by (apply H1; apply in_app_iff; right; left; reflexivity).
      split.
      * intros r0 Hr0. assert (Hw0 : wft r0).
        { apply in_map_iff in Hr0. destruct Hr0 as [[x y] [<- Hi]]. eapply Hwp. exact Hi. }
        assert (H : dv k r1 r2 (gsub v p r0) = 0).
        { apply H1. apply in_app_iff. left. apply in_map. exact Hr0. }
        unfold gsub in H. rewrite dv_subst in H by assumption. rewrite Hdp in H. lra.
      * intros r0 Hr0. destruct (Hcov r0 Hr0) as [->|Ho]; [exact Hdp|].
        assert (H : dv k r1 r2 (gsub v p r0) = 0) by (apply H2; apply in_map; exact Ho).
        unfold gsub in H. rewrite dv_subst in H by (try assumption; apply Hwr; exact Hr0).
        rewrite Hdp in H. lra.
  - intros z Hz r Hr. apply in_map_iff in Hr. destruct Hr as [r0 [<- Hr0]].
    rewrite Hgs by (apply Hwr; apply Hsub; exact Hr0).
    destruct (String.eqb z v) eqn:E; [rewrite Hsv; lra|].
    rewrite (Hz r0 (Hsub _ Hr0)), gcR_solve_isolate by assumption. rewrite E, (Hz p Hp). field. exact Ha.
  - intros z Hz Hpz x y Hi. apply in_gpiv in Hi. destruct Hi as [[p0 [Hi ->]]|[-> ->]]; [|apply Hz; exact Hp].
    rewrite Hgs by (eapply Hwp; exact Hi). destruct (String.eqb z v); [rewrite Hsv; lra|].
    rewrite (Hpz x p0 Hi), (Hsz z Hz). lra.
Qed.

Lemma gauss_spec vs : forall pivots rows pivots' rest,
  gauss vs pivots rows = (pivots', rest) ->
  NoDup vs -> (forall v, In v vs -> ~ In v (map fst pivots)) ->
  gstate pivots rows ->
  gstate pivots' rest /\
  (forall k r1 r2, (dvs k r1 r2 (map snd pivots) /\ dvs k r1 r2 rows) <->
                   (dvs k r1 r2 (map snd pivots') /\ dvs k r1 r2 rest)) /\
  (forall v, In v (map fst pivots') -> In v (map fst pivots) \/ In v vs) /\
  (forall v, In v (map fst pivots) -> In v (map fst pivots')) /\
  (forall z, (forall r, In r rows -> gcR r z = 0) -> forall r, In r rest -> gcR r z = 0) /\
  (forall v, In v vs -> ~ In v (map fst pivots') -> forall r, In r rest -> gcR r v = 0) /\
  (List.length rest + List.length pivots' = List.length rows + List.length pivots)%nat /\
  (forall z, (forall r, In r rows -> gcR r z = 0) -> (forall x y, In (x, y) pivots -> gcR y z = 0) ->
             forall x y, In (x, y) pivots' -> gcR y z = 0).
Proof.
  induction vs as [|v vs IH]; intros pivots rows pivots' rest Hg Hnd Hdis Hst.
  - simpl in Hg. inversion Hg; subst. split; [exact Hst|]. split; [intros; tauto|].
    split; [intros; tauto|]. split; [intros; assumption|]. split; [intros z Hz; exact Hz|].
    split; [intros v []|]. split; [reflexivity|]. intros z _ Hz. exact Hz.
  - simpl in Hg. inversion Hnd as [|? ? Hv Hnd']; subst.
    destruct (find_pivot v rows) as [[p others]|] eqn:F.
    + assert (Hvp : ~ In v (map fst pivots)) by (apply Hdis; left; reflexivity).
      destruct (gauss_step pivots rows v p others Hst F Hvp) as [Hst1 [Heq1 [Hz1 Hz2]]].
      change (gauss vs (gpiv v p pivots) (map (gsub v p) others) = (pivots', rest)) in Hg.
      assert (Hdis1 : forall x, In x vs -> ~ In x (map fst (gpiv v p pivots))).
      { intros x Hx. rewrite fst_gpiv, in_app_iff. simpl. intros [H|[H|[]]].
        - apply (Hdis x); [right; exact Hx|exact H].
        - subst. contradiction. }
      destruct (IH _ _ _ _ Hg Hnd' Hdis1 Hst1) as [G1 [G2 [G3 [G4 [G5 [G6 [G7 G8]]]]]]].
      split; [exact G1|]. split; [|split; [|split; [|split; [|split; [|split]]]]].
      * intros k r1 r2. rewrite (Heq1 k r1 r2). apply G2.
      * intros x Hx. apply G3 in Hx. rewrite fst_gpiv, in_app_iff in Hx. simpl in Hx. simpl. tauto.
      * intros x Hx. apply G4. rewrite fst_gpiv, in_app_iff. left. exact Hx.
      * intros z Hz. apply G5. apply Hz1. exact Hz.
      * intros x [<-|Hx] Hn; [|apply G6; assumption].
        exfalso. apply Hn. apply G4. rewrite fst_gpiv, in_app_iff. right. left. reflexivity.
      * rewrite G7. unfold gpiv. rewrite app_length, !map_length. simpl.
        destruct (find_pivot_spec v rows p others F) as [_ [_ [_ [_ L]]]]. rewrite L. lia.
      * intros z Hz Hpz. apply G8; [apply Hz1; exact Hz|apply Hz2; assumption].
    + assert (Hdis1 : forall x, In x vs -> ~ In x (map fst pivots)) by (intros x Hx; apply Hdis; right; exact Hx).
      destruct (IH _ _ _ _ Hg Hnd' Hdis1 Hst) as [G1 [G2 [G3 [G4 [G5 [G6 [G7 G8]]]]]]].
      split; [exact G1|]. split; [exact G2|]. split; [|split; [exact G4|split; [exact G5|split; [|split; [exact G7|exact G8]]]]].
      * intros x Hx. apply G3 in Hx. simpl. tauto.
      * intros x [<-|Hx] Hn; [|apply G6; assumption].
        apply G5. apply find_pivot_none. exact F.
Qed.

Definition sol_of (q : var * pterm) : var * pterm := (fst q, solve_isolate (snd q) (fst q)).

Lemma solve_unfold rows vs sols :
  solve_for_variables rows vs = inl sols ->
  let V := list_intersection (tl_vars rows) vs in
  List.length rows = List.length V /\
  exists pivots rest, gauss V [] rows = (pivots, rest) /\
    ((forallb row_is_zero rest = true /\ sols = map sol_of pivots) \/
     (forallb row_is_zero rest = false /\ sols = [])).
Proof.
  unfold solve_for_variables. cbv zeta.
  destruct (Nat.eqb (List.length rows) (List.length (list_intersection (tl_vars rows) vs))) eqn:L;
    cbn [negb]; [|discriminate].
  apply Nat.eqb_eq in L. split; [exact L|].
  destruct (gauss (list_intersection (tl_vars rows) vs) [] rows) as [pivots rest] eqn:G.
  exists pivots, rest. split; [reflexivity|].
  destruct (forallb row_is_zero rest) eqn:Z; inversion H; subst; [left; split; reflexivity|right; split; reflexivity].
Qed.

Lemma gstate_init rows : Forall wft rows -> gstate [] rows.
Proof.
  intros H. constructor; simpl; try (intros; contradiction); [exact H|constructor].
Qed.

Lemma row_is_zero_ev r rho : row_is_zero r = true -> ev rho r = 0.
Proof.
  unfold row_is_zero. rewrite andb_true_iff, negb_true_iff. intros [H1 H2].
  apply nonempty_false in H1. apply qzero_true in H2. unfold ev.
  unfold term_vars_p, keys in H1. apply map_eq_nil in H1. rewrite H1, H2. simpl. lra.
Qed.

Lemma map_fst_sol_of pivots : map fst (map sol_of pivots) = map fst pivots.
Proof. rewrite map_map. reflexivity. Qed.
Lemma in_sol_of pivots v s : In (v, s) (map sol_of pivots) <-> exists p, In (v, p) pivots /\ s = solve_isolate p v.
Proof.
  rewrite in_map_iff. split.
  - intros [[x p] [E Hi]]. unfold sol_of in E. simpl in E. inversion E; subst. eauto.
  - intros [p [Hi ->]]. exists (v, p). split; [reflexivity|exact Hi].
Qed.

(* what the elimination guarantees (both directions; [k = 0] is the reading "rows hold as equalities") *)
Lemma gauss_sols_spec V rows pivots rest :
  Forall wft rows -> NoDup V -> gauss V [] rows = (pivots, rest) ->
  let sols := map sol_of pivots in
  (forall v s, In (v, s) sols -> wft s) /\
  NoDup (map fst sols) /\
  (forall v, In v (map fst sols) -> In v V) /\
  (forall v s w, In (v, s) sols -> In w (map fst sols) -> gcR s w = 0) /\
  (forall z, (forall r, In r rows -> gcR r z = 0) -> forall v s, In (v, s) sols -> gcR s z = 0) /\
  (forall k r1 r2, dvs k r1 r2 rows <->
     ((forall v s, In (v, s) sols -> dv k r1 r2 s = r1 v - k * r2 v) /\ dvs k r1 r2 rest)) /\
  Forall wft rest /\
  (forall r w, In r rest -> In w (map fst sols) -> gcR r w = 0) /\
  (forall v, In v V -> ~ In v (map fst sols) -> forall r, In r rest -> gcR r v = 0) /\
  (List.length rest + List.length sols = List.length rows)%nat.
Proof.
  intros Hw HV G. cbv zeta.
  destruct (gauss_spec _ _ _ _ _ G HV (fun _ _ F => F) (gstate_init rows Hw))
    as [[Gwr Gwp Gnz Gind Grow Gnd] [G2 [G3 [_ [_ [G6 [G7 G8]]]]]]].
  rewrite map_fst_sol_of. split; [|split; [exact Gnd|split; [|split; [|split; [|split]]]]].
  - intros v s Hi. apply in_sol_of in Hi. destruct Hi as [p [Hi ->]]. apply wft_solve_isolate. eapply Gwp. exact Hi.
  - intros v Hv. apply G3 in Hv. destruct Hv as [[]|Hv]. exact Hv.
  - intros v s w Hi Hw'. apply in_sol_of in Hi. destruct Hi as [p [Hi ->]].
    rewrite gcR_solve_isolate by (first [eapply Gwp|eapply Gnz]; exact Hi).
    destruct (String.eqb w v) eqn:E; [reflexivity|]. apply String.eqb_neq in E.
    rewrite (Gind v p w Hi Hw' E). field. eapply Gnz. exact Hi.
  - intros z Hz v s Hi. apply in_sol_of in Hi. destruct Hi as [p [Hi ->]].
    rewrite gcR_solve_isolate by (first [eapply Gwp|eapply Gnz]; exact Hi).
    destruct (String.eqb z v); [reflexivity|].
    rewrite (G8 z Hz (fun _ _ F => match F with end) v p Hi). field. eapply Gnz. exact Hi.
  - intros k r1 r2. specialize (G2 k r1 r2). simpl in G2.
    assert (Hnil : dvs k r1 r2 []) by (intros r []).
    split.
    + intros Hr. destruct (proj1 G2 (conj Hnil Hr)) as [Hpiv Hrest]. split; [|exact Hrest].
      intros v s Hi. apply in_sol_of in Hi. destruct Hi as [p [Hi ->]].
      assert (Hp : dv k r1 r2 p = 0).
      { apply Hpiv. apply in_map_iff. exists (v, p). auto. }
      unfold dv in *. rewrite !ev_solve_isolate by (first [eapply Gwp|eapply Gnz]; exact Hi).
      pose proof (Gnz v p Hi) as Ha.
      replace (r1 v - ev r1 p / gcR p v - k * (r2 v - ev r2 p / gcR p v))
        with (r1 v - k * r2 v - (ev r1 p - k * ev r2 p) / gcR p v) by (field; exact Ha).
      rewrite Hp. field. exact Ha.
    + intros [Hs Hrest]. apply (proj2 G2). split; [|exact Hrest].
      intros p Hp. apply in_map_iff in Hp. destruct Hp as [[v p'] [<- Hi]]. simpl.
      assert (Hi' : In (v, solve_isolate p' v) (map sol_of pivots)) by (apply in_sol_of; eauto).
      specialize (Hs _ _ Hi'). unfold dv in *.
      rewrite !ev_solve_isolate in Hs by (first [eapply Gwp|eapply Gnz]; exact Hi).
      pose proof (Gnz v p' Hi) as Ha.
      assert (E0 : (ev r1 p' - k * ev r2 p') / gcR p' v = 0).
      { replace ((ev r1 p' - k * ev r2 p') / gcR p' v)
          with (ev r1 p' / gcR p' v - k * (ev r2 p' / gcR p' v)) by (field; exact Ha). lra. }
      replace (ev r1 p' - k * ev r2 p') with ((ev r1 p' - k * ev r2 p') / gcR p' v * gcR p' v) by (field; exact Ha).
      rewrite E0. lra.
  - split; [exact Gwr|]. split; [exact Grow|]. split; [exact G6|].
    rewrite map_length. simpl in G7. lia.
Qed.

Lemma dvs_zero_rows k r1 r2 rest : forallb row_is_zero rest = true -> dvs k r1 r2 rest.
Proof.
  intros Z r Hr. rewrite forallb_forall in Z. specialize (Z r Hr). unfold dv.
  rewrite !(row_is_zero_ev r _ Z). lra.
Qed.

Lemma solve_spec rows vs sols :
  Forall wft rows -> solve_for_variables rows vs = inl sols ->
  (forall v s, In (v, s) sols -> wft s) /\
  NoDup (map fst sols) /\
  (forall v, In v (map fst sols) -> In v vs /\ In v (tl_vars rows)) /\
  (forall v s w, In (v, s) sols -> In w (map fst sols) -> gcR s w = 0) /\
  (forall z, (forall r, In r rows -> gcR r z = 0) -> forall v s, In (v, s) sols -> gcR s z = 0) /\
  (sols = [] \/
   forall k r1 r2, dvs k r1 r2 rows <-> (forall v s, In (v, s) sols -> dv k r1 r2 s = r1 v - k * r2 v)).
Proof.
  intros Hw H. apply solve_unfold in H. cbv zeta in H. destruct H as [L [pivots [rest [G H]]]].
  assert (HV : NoDup (list_intersection (tl_vars rows) vs)).
  { apply NoDup_list_intersection. apply NoDup_tl_vars. exact Hw. }
  destruct H as [[Z ->]|[_ ->]].
  2:{ simpl. repeat split; try (intros; contradiction); [constructor|left; reflexivity]. }
  destruct (gauss_sols_spec _ rows pivots rest Hw HV G) as [S1 [S2 [S3 [S4 [S5 [S6 _]]]]]].
  split; [exact S1|]. split; [exact S2|]. split; [|split; [exact S4|split; [exact S5|right]]].
  - intros v Hv. apply S3 in Hv. apply in_list_intersection in Hv. tauto.
  - intros k r1 r2. rewrite (S6 k r1 r2). pose proof (dvs_zero_rows k r1 r2 rest Z). tauto.
Qed.

(* M1 as stated: every solution of the rows (taken as equalities) satisfies the returned substitutions *)
Theorem solve_sound rows vs sols :
  Forall wft rows -> solve_for_variables rows vs = inl sols ->
  forall rho, (forall r, In r rows -> lin rho (tvars r) = Q2R (tconst r)) ->
  forall v s, In (v, s) sols -> rho v = lin rho (tvars s) - Q2R (tconst s).
Proof.
  intros Hw H rho Hr v s Hi. destruct (solve_spec rows vs sols Hw H) as [_ [_ [_ [_ [_ [->|E]]]]]]; [destruct Hi|].
  assert (Hd : dvs 0 rho rho rows).
  { intros r Hin. unfold dv, ev. rewrite (Hr r Hin). lra. }
  apply (proj1 (E 0 rho rho)) with (v := v) (s := s) in Hd; [|exact Hi]. unfold dv, ev in Hd. lra.
Qed.
(* ... and conversely: a point at which the substitutions hold satisfies every row with equality *)
Theorem solve_complete rows vs sols :
  Forall wft rows -> solve_for_variables rows vs = inl sols -> sols <> [] ->
  forall rho, (forall v s, In (v, s) sols -> rho v = lin rho (tvars s) - Q2R (tconst s)) ->
  forall r, In r rows -> lin rho (tvars r) = Q2R (tconst r).
Proof.
  intros Hw H Hne rho Hs r Hin. destruct (solve_spec rows vs sols Hw H) as [_ [_ [_ [_ [_ [->|E]]]]]]; [congruence|].
  assert (Hd : dvs 0 rho rho rows).
  { apply (proj2 (E 0 rho rho)). intros v s Hi. unfold dv, ev. rewrite (Hs v s Hi). lra. }
  specialize (Hd r Hin). unfold dv, ev in Hd. lra.
Qed.

(* ------------------------------------------------------------------ *)
(** * Statement shapes *)
Definition refine_ok (helpers : list pterm) (t t' : pterm) : Prop :=
  forall rho, sat_list rho helpers -> sat rho t' -> sat rho t.
Definition relax_ok (helpers : list pterm) (t t' : pterm) : Prop :=
  forall rho, sat_list rho helpers -> sat rho t -> sat rho t'.
Definition dir_ok (refine : bool) (helpers : list pterm) (t t' : pterm) : Prop :=
  if refine then refine_ok helpers t t' else relax_ok helpers t t'.

(* the scratch variable of tactic 3 *)
Definition us : var := "_"%string.
(* a term is usable when its dict has distinct keys and it does not depend on "_" *)
Definition good (t : pterm) : Prop := wft t /\ gcR t us = 0.
(* ... and, for the term being transformed, no stored zero coefficient (what __init__ guarantees) *)
Definition good' (t : pterm) : Prop := wft' t /\ gcR t us = 0.
Lemma good'_good t : good' t -> good t.
Proof. intros [[H _] H2]. split; assumption. Qed.

Definition side (term : pterm) (ctx : list pterm) (vs : list var) : Prop :=
  good' term /\ Forall good ctx /\ NoDup vs /\ ~ In us vs.

(* a tactic is acceptable (for the invocation counts selected by P) when every term it returns is
   well formed, independent of "_", and a refinement / relaxation in the context it was given *)
Definition tactic_ok_on (P : nat -> Prop) (num : nat) : Prop :=
  forall O, lp_spec 0 O -> forall term ctx vs refine t' cnt,
    side term ctx vs ->
    run_tactic O num term ctx vs refine = inl (Some t', cnt) -> P cnt ->
    good t' /\ dir_ok refine ctx term t'.
Definition tactic_ok (num : nat) : Prop := tactic_ok_on (fun _ => True) num.

Lemma gcR_copy t v : wft t -> gcR (term_copy t) v = gcR t v.
Proof. intros Ht. rewrite (gcR_slope _ v (wft_copy t Ht)), (gcR_slope t v Ht), !ev_copy. reflexivity. Qed.
Lemma good_copy t : good t -> good (term_copy t).
Proof. intros [H1 H2]. split; [apply wft_copy; exact H1|rewrite gcR_copy; assumption]. Qed.
Lemma dir_ok_copy refine helpers t : dir_ok refine helpers t (term_copy t).
Proof. destruct refine; intros rho _ H; apply (sat_copy rho t); exact H. Qed.

(** ** tactic 6 (trivial) *)
Theorem tactic_6_ok : tactic_ok 6.
Proof.
  intros O HO term ctx vs refine t' cnt [Hg _] H _. simpl in H. inversion H; subst.
  split; [apply good_copy; apply good'_good; exact Hg|apply dir_ok_copy].
Qed.

(* ------------------------------------------------------------------ *)
(** * M2: tactic 2 *)
Definition zero_on (vs : list var) (rho : val) : val :=
  fun w => if in_dec string_dec w vs then 0 else rho w.

Lemma lin_diff rho rho' l vs :
  NoDup (keys l) -> NoDup vs -> (forall w, ~ In w vs -> rho w = rho' w) ->
  lin rho l - lin rho' l = sumf (fun v => Q2R (coef l v) * (rho v - rho' v)) vs.
Proof.
  intros Hl Hvs. revert rho'. induction Hvs as [|v vs Hv Hvs IH]; intros rho' Hag.
  - rewrite (lin_ext_keys rho rho' l); [simpl; lra|]. intros x _. apply Hag. intros [].
  - set (rho2 := fun w => if String.eqb w v then rho v else rho' w).
    assert (H2 : lin rho l - lin rho2 l = sumf (fun w => Q2R (coef l w) * (rho w - rho2 w)) vs).
    { apply IH. intros w Hw. unfold rho2. destruct (String.eqb w v) eqn:E.
      - apply String.eqb_eq in E. subst. reflexivity.
      - apply String.eqb_neq in E. apply Hag. intros [H|H]; [congruence|contradiction]. }
    rewrite sumf_cons. assert (H3 : lin rho2 l = lin rho' l + Q2R (coef l v) * (rho v - rho' v))
      by (apply (lin_update rho' v (rho v) l Hl)). rewrite H3 in H2.
    rewrite (sumf_ext _ (fun w => Q2R (coef l w) * (rho w - rho' w))) in H2.
    + lra.
    + intros w Hw. unfold rho2. destruct (String.eqb w v) eqn:E; [|reflexivity].
      apply String.eqb_eq in E. subst. contradiction.
Qed.
Lemma ev_diff rho rho' t vs :
  wft t -> NoDup vs -> (forall w, ~ In w vs -> rho w = rho' w) ->
  ev rho t - ev rho' t = sumf (fun v => gcR t v * (rho v - rho' v)) vs.
Proof.
  intros Ht Hvs Hag. unfold ev. pose proof (lin_diff rho rho' (tvars t) vs Ht Hvs Hag) as H.
  rewrite (sumf_ext _ (fun v => Q2R (coef (tvars t) v) * (rho v - rho' v))); [lra|].
  intros v _. unfold gcR. rewrite get_coefficient_coef. reflexivity.
Qed.

Lemma fold_remove_spec vs : forall t, wft t ->
  wft (fold_left term_remove_variable vs t) /\
  tconst (fold_left term_remove_variable vs t) = tconst t /\
  forall rho, lin rho (tvars (fold_left term_remove_variable vs t)) = lin (zero_on vs rho) (tvars t).
Proof.
  induction vs as [|v vs IH]; intros t Ht; simpl.
  - split; [exact Ht|]. split; [reflexivity|]. intros rho. apply lin_ext_keys. intros x _. reflexivity.
  - destruct (IH (term_remove_variable t v) (wft_remove_variable t v Ht)) as [H1 [H2 H3]].
    split; [exact H1|]. split; [rewrite H2; apply const_remove_variable|].
    intros rho. rewrite H3, (lin_remove_variable _ t v Ht).
    rewrite (lin_ext_keys (zero_on (v :: vs) rho) (fun w => if String.eqb w v then 0 else zero_on vs rho w)).
    + rewrite (lin_update (zero_on vs rho) v 0 (tvars t) Ht), get_coefficient_coef. lra.
    + intros x _. unfold zero_on. destruct (String.eqb x v) eqn:E.
      * apply String.eqb_eq in E. subst. destruct (in_dec string_dec v (v :: vs)) as [|n]; [reflexivity|].
        exfalso. apply n. left. reflexivity.
      * apply String.eqb_neq in E. destruct (in_dec string_dec x (v :: vs)) as [[H|H]|n];
          destruct (in_dec string_dec x vs) as [H'|n']; try reflexivity; try congruence; try contradiction.
        exfalso. apply n. right. exact H'.
Qed.

Lemma in_list_union_gen {A} `{PyEq A} (x : A) l1 l2 : In x (list_union l1 l2) -> In x l1 \/ In x l2.
Proof. unfold list_union. rewrite in_app_iff, filter_In. tauto. Qed.

Lemma Forall_map_copy (P : pterm -> Prop) l :
  (forall t, P t -> P (term_copy t)) -> Forall P l -> Forall P (map term_copy l).
Proof. intros H Hl. apply Forall_forall. intros x Hx. apply in_map_iff in Hx. destruct Hx as [y [<- Hy]].
  apply H. rewrite Forall_forall in Hl. apply Hl. exact Hy. Qed.
Lemma sat_list_map_copy rho l : sat_list rho (map term_copy l) <-> sat_list rho l.
Proof.
  unfold sat_list. rewrite !Forall_forall. split.
  - intros H t Ht. apply (sat_copy rho t). apply H. apply in_map. exact Ht.
  - intros H t Ht. apply in_map_iff in Ht. destruct Ht as [y [<- Hy]]. apply (sat_copy rho y). apply H. exact Hy.
Qed.

Lemma tactic_2_spec O (HO : lp_spec 0 O) term ctx vs refine t' cnt :
  wft term -> Forall wft ctx ->
  tactic_2 O term ctx vs refine = inl (Some t', cnt) ->
  wft t' /\ (forall z, ~ In z vs -> gcR t' z = gcR term z) /\ dir_ok refine ctx term t'.
Proof.
  intros Ht Hctx. unfold tactic_2. cbv zeta.
  set (F := fun c => negb (nonempty (list_diff (term_vars_p c) vs)) && negb (term_eqb_p c term)).
  remember (map term_copy (filter F ctx)) as nc eqn:Enc.
  destruct nc as [|c0 nc']; [discriminate|]. set (nc := c0 :: nc') in *.
  destruct (nonempty (list_diff (list_intersection vs (term_vars_p term)) (tl_vars nc))) eqn:D; [discriminate|].
  set (vars := polytope_vars nc []).
  set (pol := if refine then (-(1))%Q else 1%Q).
  destruct (O (mkLP vars (map (fun v => qmul pol (get_coefficient term v)) vars) (map (term_to_row vars) nc))) eqn:EO;
    try discriminate.
  set (res := fold_left term_remove_variable vs (term_copy term)).
  destruct (fold_remove_spec vs (term_copy term) (wft_copy term Ht)) as [Rw [Rc Rl]]. fold res in Rw, Rc, Rl.
  assert (Copy : wft (term_copy term) /\ (forall z, ~ In z vs -> gcR (term_copy term) z = gcR term z) /\
                 dir_ok refine ctx term (term_copy term)).
  { split; [apply wft_copy; exact Ht|]. split; [intros; apply gcR_copy; exact Ht|apply dir_ok_copy]. }
  destruct (negb (nonempty (term_vars_p (mkT (tvars res) (qsub (tconst res) (qmul pol fun_)))))).
  { intros H. inversion H; subst. exact Copy. }
  intros H. inversion H; subst t' cnt. clear H Copy.
  (* facts about the extracted context *)
  assert (Hncw : Forall wft nc).
  { rewrite Enc. apply Forall_map_copy; [apply wft_copy|].
    rewrite Forall_forall in *. intros x Hx. apply filter_In in Hx. apply Hctx. tauto. }
  assert (Hncs : forall rho, sat_list rho ctx -> sat_list rho nc).
  { intros rho Hs. rewrite Enc. apply sat_list_map_copy. unfold sat_list in *. rewrite Forall_forall in *.
    intros x Hx. apply filter_In in Hx. apply Hs. tauto. }
  assert (Hvars_vs : forall x, In x vars -> In x vs).
  { intros x Hx. apply in_polytope_vars in Hx. destruct Hx as [c [[Hc|[]] Hx]].
    rewrite Enc in Hc. apply in_map_iff in Hc. destruct Hc as [c1 [<- Hc1]]. apply in_vars_copy in Hx.
    apply filter_In in Hc1. destruct Hc1 as [_ HF]. unfold F in HF. apply andb_true_iff in HF.
    destruct HF as [HF _]. apply negb_true_iff in HF. apply nonempty_false in HF.
    destruct (in_dec string_dec x vs) as [i|n]; [exact i|].
    assert (Hin : In x (list_diff (term_vars_p c1) vs)) by (apply in_list_diff; tauto).
    rewrite HF in Hin. destruct Hin. }
  assert (Hconf : forall x, In x vs -> In x (term_vars_p term) -> In x vars).
  { intros x H1 H2. apply nonempty_false in D.
    destruct (in_dec string_dec x (tl_vars nc)) as [i|n].
    - unfold vars, polytope_vars. apply in_list_union. left. exact i.
    - assert (Hin : In x (list_diff (list_intersection vs (term_vars_p term)) (tl_vars nc))).
      { apply in_list_diff. split; [apply in_list_intersection; tauto|exact n]. }
      rewrite D in Hin. destruct Hin. }
  assert (Hnd : NoDup vars) by (apply NoDup_polytope_vars; [exact Hncw|constructor]).
  assert (Hcov : covered vars nc) by (apply covered_polytope_l; exact Hncw).
  (* the LP bound *)
  assert (Hbound : forall rho, sat_list rho ctx ->
            Q2R fun_ <= Q2R pol * sumf (fun v => gcR term v * rho v) vars).
  { intros rho Hs. pose proof (HO (mkLP vars (map (fun v => qmul pol (get_coefficient term v)) vars)
                                       (map (term_to_row vars) nc))) as Hsp.
    rewrite EO in Hsp. destruct Hsp as [_ Hlow].
    specialize (Hlow (map rho vars)). cbn [lp_rows lp_obj] in Hlow. rewrite Q2R_0 in Hlow.
    assert (Hd : dot (map (fun v => qmul pol (get_coefficient term v)) vars) (map rho vars)
                 = Q2R pol * sumf (fun v => gcR term v * rho v) vars).
    { rewrite dot_fold. rewrite <- sumf_scale. apply sumf_ext. intros v _. rewrite Q2R_qmul. unfold gcR. lra. }
    rewrite Hd in Hlow. assert (Hl : Q2R fun_ - 0 <= Q2R pol * sumf (fun v => gcR term v * rho v) vars).
    { apply Hlow.
      - unfold point_of, dim. cbn [lp_obj]. rewrite !map_length. reflexivity.
      - apply (feas_sat vars nc rho Hnd Hcov). apply Hncs. exact Hs. }
    lra. }
  (* the removed part *)
  assert (Hrem : forall rho, lin rho (tvars res) = lin rho (tvars term) - sumf (fun v => gcR term v * rho v) vars).
  { intros rho. rewrite Rl. unfold term_copy. rewrite lin_mk_term.
    rewrite (lin_ext_keys (zero_on vs rho) (zero_on vars rho) (tvars term)).
    - pose proof (lin_diff rho (zero_on vars rho) (tvars term) vars Ht Hnd) as Hdf.
      rewrite (sumf_ext _ (fun v => gcR term v * rho v)) in Hdf.
      + rewrite <- Hdf; [lra|]. intros w Hw. unfold zero_on. destruct (in_dec string_dec w vars); [contradiction|reflexivity].
      + intros v Hv. unfold zero_on, gcR. destruct (in_dec string_dec v vars); [|contradiction].
        rewrite get_coefficient_coef. lra.
    - intros x Hx. unfold zero_on. destruct (in_dec string_dec x vs) as [i|n]; destruct (in_dec string_dec x vars) as [i'|n'];
        try reflexivity.
      + exfalso. apply n'. apply Hconf; assumption.
      + exfalso. apply n. apply Hvars_vs. exact i'. }
  split; [exact Rw|]. split.
  - intros z Hz. assert (Hw' : wft (mkT (tvars res) (qsub (tconst res) (qmul pol fun_)))) by exact Rw.
    rewrite (gcR_slope _ z Hw'), (gcR_slope term z Ht). unfold ev. cbn [tvars tconst]. rewrite !Hrem.
    rewrite (sumf_ext (fun v => gcR term v * upd (fun _ => 0) z 1 v) (fun v => gcR term v * 0)); [lra|].
    intros v Hv. rewrite upd_other; [reflexivity|]. intros ->. apply Hz. apply Hvars_vs. exact Hv.
  - assert (Hc : Q2R (qsub (tconst res) (qmul pol fun_)) = Q2R (tconst term) - Q2R pol * Q2R fun_).
    { rewrite Q2R_qsub, Q2R_qmul, Rc. unfold term_copy. rewrite mk_term_const. reflexivity. }
    destruct refine; intros rho Hs; specialize (Hbound rho Hs); unfold sat; cbn [tvars tconst];
      rewrite Hc, Hrem; unfold pol in *.
    + assert (Q2R (- (1)) = -1) as E by (unfold Q2R; simpl; lra). rewrite E in *. lra.
    + rewrite Q2R_1 in *. lra.
Qed.

Lemma side_good term ctx vs : side term ctx vs -> wft term /\ Forall wft ctx.
Proof.
  intros [[[Ht _] _] [Hc _]]. split; [exact Ht|]. rewrite Forall_forall in *. intros x Hx. apply Hc. exact Hx.
Qed.

Theorem tactic_2_ok : tactic_ok 2.
Proof.
  intros O HO term ctx vs refine t' cnt Hs H _. destruct (side_good _ _ _ Hs) as [Ht Hc].
  destruct Hs as [[_ Hu] [_ [_ Hv]]]. simpl in H.
  destruct (tactic_2_spec O HO term ctx vs refine t' cnt Ht Hc H) as [H1 [H2 H3]].
  split; [|exact H3]. split; [exact H1|]. rewrite (H2 us Hv). exact Hu.
Qed.

(* ------------------------------------------------------------------ *)
(** * M6: the dispatcher and the term-list loop *)
Lemma ttl_spec O order term ctx vs refine r num cnt :
  transform_term_loop O order term ctx vs refine = inl (r, num, cnt) ->
  r = term_copy term \/ exists n c, In n order /\ run_tactic O n term ctx vs refine = inl (Some r, c).
Proof.
  induction order as [|n order IH]; simpl; intros H.
  - inversion H. left. reflexivity.
  - destruct (run_tactic O n term ctx vs refine) as [[[rt|] c]|e] eqn:R.
    + inversion H; subst. right. exists n, c. split; [left; reflexivity|exact R].
    + destruct (IH H) as [Hc|[n' [c' [Hi Hr]]]]; [left; exact Hc|right; exists n', c'; split; [right; exact Hi|exact Hr]].
    + destruct (is_value_error e); [|discriminate].
      destruct (IH H) as [Hc|[n' [c' [Hi Hr]]]]; [left; exact Hc|right; exists n', c'; split; [right; exact Hi|exact Hr]].
Qed.

Definition helpers_of (ctx done : list pterm) (t : pterm) (todo' : list pterm) : list pterm :=
  list_union ctx (remove_first_term t (map term_copy (done ++ map term_copy (t :: todo')))).

Inductive tl_rel (refine : bool) (ctx : list pterm) : list pterm -> list pterm -> list pterm -> Prop :=
| tl_nil done : tl_rel refine ctx done [] []
| tl_cons done t todo' n news :
    good n -> dir_ok refine (helpers_of ctx done t todo') t n ->
    tl_rel refine ctx (done ++ [n]) todo' news -> tl_rel refine ctx done (t :: todo') (n :: news).

Lemma in_remove_first_gen {A} `{PyEq A} (x y : A) l : In x (remove_first y l) -> In x l.
Proof.
  induction l as [|z r IH]; simpl; [tauto|]. destruct (py_eqb z y); [tauto|]. intros [->|Hx]; [left; reflexivity|right; apply IH; exact Hx].
Qed.

Lemma in_helpers ctx done t todo' x :
  In x (helpers_of ctx done t todo') ->
  In x ctx \/ (exists d, In d done /\ x = term_copy d) \/ (exists d, In d (t :: todo') /\ x = term_copy (term_copy d)).
Proof.
  unfold helpers_of, remove_first_term. intros H. apply in_list_union_gen in H. destruct H as [H|H]; [left; exact H|right].
  apply in_remove_first_gen in H. rewrite map_app, map_map, in_app_iff, !in_map_iff in H.
  destruct H as [[d [<- Hd]]|[d [<- Hd]]]; [left|right]; exists d; auto.
Qed.
Lemma good_helpers ctx done t todo' :
  Forall good ctx -> Forall good done -> Forall good (t :: todo') -> Forall good (helpers_of ctx done t todo').
Proof.
  intros Hc Hd Ht. rewrite Forall_forall in *. intros x Hx. apply in_helpers in Hx.
  destruct Hx as [Hx|[[d [Hi ->]]|[d [Hi ->]]]]; [apply Hc; exact Hx|apply good_copy; apply Hd; exact Hi|].
  apply good_copy, good_copy. apply Ht. exact Hi.
Qed.
Lemma sat_helpers ctx done t todo' rho :
  sat_list rho ctx -> sat_list rho done -> sat_list rho (t :: todo') -> sat_list rho (helpers_of ctx done t todo').
Proof.
  unfold sat_list. intros Hc Hd Ht. rewrite Forall_forall in *. intros x Hx. apply in_helpers in Hx.
  destruct Hx as [Hx|[[d [Hi ->]]|[d [Hi ->]]]]; [apply Hc; exact Hx|apply sat_copy; apply Hd; exact Hi|].
  apply sat_copy, sat_copy. apply Ht. exact Hi.
Qed.

Section Loop.
Variable O : oracle.
Variable order : list nat.
Hypothesis Hord : forall num, In num order -> tactic_ok num.
Hypothesis HO : lp_spec 0 O.
Variables (ctx : list pterm) (vs : list var) (refine : bool).
Hypothesis Hctx : Forall good ctx.
Hypothesis Hvs : NoDup vs.
Hypothesis Hus : ~ In us vs.

Lemma transform_term_good t helpers nt num cnt :
  good' t -> Forall good helpers ->
  transform_term O order t helpers vs refine = inl (nt, num, cnt) ->
  good nt /\ dir_ok refine helpers t nt.
Proof.
  intros Ht Hh. unfold transform_term. destruct (negb _); [discriminate|]. intros H.
  apply ttl_spec in H. destruct H as [->|[n [c [Hi Hr]]]].
  - split; [apply good_copy, good'_good; exact Ht|apply dir_ok_copy].
  - apply (Hord n Hi O HO t helpers vs refine nt c); [|exact Hr|exact I].
    split; [exact Ht|]. split; [exact Hh|]. split; assumption.
Qed.

Lemma transform_loop_inv : forall todo done used res st,
  Forall good done -> Forall good' todo ->
  transform_loop O order ctx vs refine done todo used = inl (res, st) ->
  exists news, res = done ++ news /\ tl_rel refine ctx done todo news.
Proof.
  induction todo as [|t todo' IH]; intros done used res st Hd Ht H.
  - simpl in H. inversion H; subst. exists []. split; [rewrite app_nil_r; reflexivity|constructor].
  - inversion Ht as [|? ? Ht1 Ht2]; subst.
    assert (Hgt : Forall good (t :: todo')).
    { apply Forall_forall. intros x Hx. apply good'_good. rewrite Forall_forall in Ht. apply Ht. exact Hx. }
    assert (Step : forall n used', good n -> dir_ok refine (helpers_of ctx done t todo') t n ->
               transform_loop O order ctx vs refine (done ++ [n]) todo' used' = inl (res, st) ->
               exists news, res = done ++ news /\ tl_rel refine ctx done (t :: todo') news).
    { intros n used' Hn Hdir H'. destruct (IH (done ++ [n]) used' res st) as [news [E R]]; [|exact Ht2|exact H'|].
      - apply Forall_app. split; [exact Hd|constructor; [exact Hn|constructor]].
      - exists (n :: news). split; [rewrite E, <- app_assoc; reflexivity|]. constructor; assumption. }
    simpl in H. destruct (nonempty (list_intersection (term_vars_p t) vs)).
    + change (list_union ctx (remove_first_term t (map term_copy (done ++ term_copy t :: map term_copy todo'))))
        with (helpers_of ctx done t todo') in H.
      destruct (transform_term O order t (helpers_of ctx done t todo') vs refine) as [[[nt num] cnt]|e] eqn:TT.
      * simpl in H. destruct (transform_term_good t _ nt num cnt Ht1 (good_helpers ctx done t todo' Hctx Hd Hgt) TT) as [G1 G2].
        eapply Step; eassumption.
      * destruct (is_value_error e); [|discriminate]. simpl in H.
        eapply Step; [apply good_copy, good'_good; exact Ht1|apply dir_ok_copy|exact H].
    + eapply Step; [apply good_copy, good'_good; exact Ht1|apply dir_ok_copy|exact H].
Qed.
End Loop.

Lemma tl_rel_good refine ctx done todo news : tl_rel refine ctx done todo news -> Forall good news.
Proof. induction 1; constructor; assumption. Qed.

Lemma remove_first_app_notin (t : pterm) A B :
  existsb (fun z => term_eqb_p z t) A = false -> remove_first t (A ++ B) = A ++ remove_first t B.
Proof.
  induction A as [|a A IH]; simpl; [reflexivity|]. rewrite orb_false_iff. intros [H1 H2].
  rewrite H1. f_equal. apply IH. exact H2.
Qed.

Lemma tl_rel_refine ctx done todo news :
  tl_rel true ctx done todo news -> Forall good done -> Forall good' todo ->
  forall rho, sat_list rho ctx -> sat_list rho done -> sat_list rho news -> sat_list rho todo.
Proof.
  induction 1 as [done|done t todo' n news Hn Hdir Hrel IH]; intros Hd Ht rho Hc Hsd Hsn; [constructor|].
  inversion Ht as [|? ? Ht1 Ht2]; subst. inversion Hsn as [|? ? Hs1 Hs2]; subst.
  assert (Hd' : Forall good (done ++ [n])) by (apply Forall_app; split; [exact Hd|constructor; [exact Hn|constructor]]).
  assert (Hsd' : sat_list rho (done ++ [n])) by (apply Forall_app; split; [exact Hsd|constructor; [exact Hs1|constructor]]).
  specialize (IH Hd' Ht2 rho Hc Hsd' Hs2). constructor; [|exact IH].
  destruct Ht1 as [[Htw Htnz] _].
  destruct (existsb (fun z => term_eqb_p z t) (map term_copy done)) eqn:E.
  - (* an earlier result equals t: the term's own copy stays among the helpers, but t holds anyway *)
    apply existsb_exists in E. destruct E as [z [Hz Ez]]. apply in_map_iff in Hz. destruct Hz as [d [<- Hdin]].
    assert (Hdg : good d) by (rewrite Forall_forall in Hd; apply Hd; exact Hdin).
    apply (term_eqb_sat (term_copy d) t (wft_copy d (proj1 Hdg)) Htw Ez rho).
    apply sat_copy. unfold sat_list in Hsd. rewrite Forall_forall in Hsd. apply Hsd. exact Hdin.
  - apply (Hdir rho); [|exact Hs1].
    unfold helpers_of, remove_first_term. rewrite map_app, (remove_first_app_notin t _ _ E).
    cbn [map]. rewrite (term_copy_id t Htnz), (term_copy_id t Htnz). cbn [remove_first].
    change (py_eqb t t) with (term_eqb_p t t). rewrite (term_eqb_refl t Htw).
    unfold sat_list. apply Forall_forall. intros x Hx. apply in_list_union_gen in Hx.
    destruct Hx as [Hx|Hx]; [unfold sat_list in Hc; rewrite Forall_forall in Hc; apply Hc; exact Hx|].
    apply in_app_iff in Hx. destruct Hx as [Hx|Hx].
    + apply in_map_iff in Hx. destruct Hx as [d [<- Hdin]]. apply sat_copy.
      unfold sat_list in Hsd. rewrite Forall_forall in Hsd. apply Hsd. exact Hdin.
    + rewrite map_map in Hx. apply in_map_iff in Hx. destruct Hx as [d [<- Hdin]]. apply sat_copy, sat_copy.
      unfold sat_list in IH. rewrite Forall_forall in IH. apply IH. exact Hdin.
Qed.

Lemma tl_rel_relax ctx done todo news :
  tl_rel false ctx done todo news ->
  forall rho, sat_list rho ctx -> sat_list rho done -> sat_list rho todo -> sat_list rho news.
Proof.
  induction 1 as [done|done t todo' n news Hn Hdir Hrel IH]; intros rho Hc Hsd Hst; [constructor|].
  assert (Hs : sat rho n).
  { apply (Hdir rho); [apply sat_helpers; assumption|]. inversion Hst; assumption. }
  constructor; [exact Hs|]. apply IH; [exact Hc| |inversion Hst; assumption].
  apply Forall_app. split; [exact Hsd|constructor; [exact Hs|constructor]].
Qed.

(* simplification is an equivalence in its context; unlike proofs/PolyFacts.simplify_equiv this does not
   ask every term to mention a variable (tactic results may be constant-only) *)
Lemma simplify_equiv_wft O (HO : lp_spec 0 O) ts c r :
  Forall wft ts -> Forall wft c -> poly_simplify O ts (Some c) = inl r ->
  forall rho, sat_list rho c -> (sat_list rho r <-> sat_list rho ts).
Proof.
  intros Hts Hc H rho Hs.
  set (ctx := Some c) in *. set (vs := simp_vars ts ctx). set (ns := new_self ts ctx).
  assert (Hns : Forall wft ns).
  { rewrite Forall_forall in *. intros x Hx. apply Hts. apply (incl_new_self ts ctx). exact Hx. }
  assert (Hnd : NoDup vs) by (apply NoDup_polytope_vars; assumption).
  assert (Cns : covered vs ns) by (apply covered_polytope_l; exact Hns).
  assert (Cc : covered vs c) by (apply (covered_polytope_r ns c); exact Hc).
  rewrite <- (sat_new_self ts ctx rho Hts Hc Hs). fold ns.
  rewrite poly_simplify_unfold in H. fold vs ns in H. cbn [opt_list ctx] in H.
  destruct vs as [|v0 vs'] eqn:Evs.
  - destruct (existsb _ c); [discriminate|]. destruct ns as [|t [|t' ns']]; try discriminate.
    + inversion H. tauto.
    + inversion H. change [row_to_term [] (term_to_row [] t)] with (map (roundtrip []) [t]).
      apply sat_list_roundtrip; assumption.
  - rewrite <- Evs in *. apply bind_inl in H. destruct H as [red [H Hr]]. inversion Hr; subst r.
    pose proof (reduce_polytope_subseq _ _ _ _ _ H) as Hsub.
    apply subseq_map_inv in Hsub. destruct Hsub as [sub [Hss Er]].
    rewrite <- (feas_sat vs ns rho Hnd Cns).
    rewrite <- (reduce_polytope_equiv O HO (List.length vs) vs _ _ red (wf_rows_terms vs ns) H (map rho vs)).
    + rewrite Er, map_roundtrip. rewrite sat_list_roundtrip.
      * symmetry. apply feas_sat; [exact Hnd|]. eapply covered_incl; [apply subseq_incl; exact Hss|exact Cns].
      * exact Hnd.
      * eapply covered_incl; [apply subseq_incl; exact Hss|exact Cns].
    + apply map_length.
    + apply feas_sat; assumption.
Qed.

Lemma NoDup_keys_combine (vs : list var) (l : list Q) : NoDup vs -> NoDup (keys (combine vs l)).
Proof.
  intros H. revert l. induction H as [|v vs Hv Hn IH]; intros [|q l]; simpl; try constructor; [|apply IH].
  intros Hi. apply Hv. apply in_keys_ex in Hi. destruct Hi as [q' Hq]. apply in_combine_l in Hq. exact Hq.
Qed.
Lemma good'_roundtrip vs t :
  NoDup vs -> (forall x, In x (term_vars_p t) -> In x vs) -> gcR t us = 0 -> good' (roundtrip vs t).
Proof.
  intros Hn Hc Hu. split.
  - unfold roundtrip, row_to_term. apply wft'_mk_term. apply NoDup_keys_combine. exact Hn.
  - unfold gcR in *. rewrite (Qeq_eqR _ _ (roundtrip_coefficient vs t us Hc)). exact Hu.
Qed.
Lemma simplify_good' O ts c r :
  Forall good ts -> Forall good c -> poly_simplify O ts (Some c) = inl r -> Forall good' r.
Proof.
  intros Hts Hc H. apply simplify_selection in H. destruct H as [sub [Hs ->]].
  change (list_diff ts c) with (new_self ts (Some c)) in Hs.
  apply Forall_forall. intros x Hx. apply in_map_iff in Hx. destruct Hx as [t [<- Ht]].
  assert (Hin : In t (new_self ts (Some c))) by (eapply subseq_incl; [exact Hs|exact Ht]).
  assert (Hg : good t) by (rewrite Forall_forall in Hts; apply Hts; apply (incl_new_self ts (Some c)); exact Hin).
  apply good'_roundtrip.
  - apply NoDup_polytope_vars.
    + rewrite Forall_forall in *. intros y Hy. apply Hts. apply (incl_new_self ts (Some c)). exact Hy.
    + rewrite Forall_forall in *. intros y Hy. apply Hc. exact Hy.
  - intros y Hy. apply in_polytope_vars. exists t. tauto.
  - apply Hg.
Qed.

Lemma as_value_error_inl {A} (m : M A) a : as_value_error m = inl a -> m = inl a.
Proof. destruct m as [x|e]; simpl; [tauto|]. destruct (is_value_error e); discriminate. Qed.

Lemma Forall_good_wft l : Forall good l -> Forall wft l.
Proof. intros H. rewrite Forall_forall in *. intros x Hx. apply H. exact Hx. Qed.
Lemma Forall_good'_good l : Forall good' l -> Forall good l.
Proof. intros H. rewrite Forall_forall in *. intros x Hx. apply good'_good. apply H. exact Hx. Qed.

Section Transform.
Variable O : oracle.
Variable order : list nat.
Hypothesis HO : lp_spec 0 O.
Hypothesis Hord : forall num, In num order -> tactic_ok num.
Variables (ctx : list pterm) (vs : list var).
Hypothesis Hctx : Forall good ctx.
Hypothesis Hvs : NoDup vs.
Hypothesis Hus : ~ In us vs.

Lemma transform_spec self refine sp r st :
  Forall good' self -> transform O self ctx vs refine sp order = inl (r, st) ->
  exists that, tl_rel refine ctx [] self that /\
               (if sp then poly_simplify O that (Some ctx) = inl r else r = that).
Proof.
  intros Hself H. unfold transform in H. apply bind_inl in H. destruct H as [[that used] [H1 H2]].
  destruct (transform_loop_inv O order Hord HO ctx vs refine Hctx Hvs Hus self [] [] that used (Forall_nil _) Hself H1)
    as [news [E R]]. simpl in E. subst news. exists that. split; [exact R|].
  destruct sp.
  - apply bind_inl in H2. destruct H2 as [r' [H2 H3]]. inversion H3; subst. exact H2.
  - inversion H2. reflexivity.
Qed.

Theorem transform_refine_sound self sp r st :
  Forall good' self -> transform O self ctx vs true sp order = inl (r, st) ->
  forall rho, sat_list rho ctx -> sat_list rho r -> sat_list rho self.
Proof.
  intros Hself H rho Hc Hr. destruct (transform_spec self true sp r st Hself H) as [that [R F]].
  apply (tl_rel_refine ctx [] self that R (Forall_nil _) Hself rho Hc (Forall_nil _)).
  destruct sp; [|subst; exact Hr].
  apply (simplify_equiv_wft O HO that ctx r (Forall_good_wft _ (tl_rel_good _ _ _ _ _ R)) (Forall_good_wft _ Hctx) F rho Hc).
  exact Hr.
Qed.

Theorem transform_relax_sound self sp r st :
  Forall good' self -> transform O self ctx vs false sp order = inl (r, st) ->
  forall rho, sat_list rho ctx -> sat_list rho self -> sat_list rho r.
Proof.
  intros Hself H rho Hc Hs. destruct (transform_spec self false sp r st Hself H) as [that [R F]].
  pose proof (tl_rel_relax ctx [] self that R rho Hc (Forall_nil _) Hs) as Ht.
  destruct sp; [|subst; exact Ht].
  apply (simplify_equiv_wft O HO that ctx r (Forall_good_wft _ (tl_rel_good _ _ _ _ _ R)) (Forall_good_wft _ Hctx) F rho Hc).
  exact Ht.
Qed.

Lemma transform_good self refine sp r st :
  Forall good' self -> transform O self ctx vs refine sp order = inl (r, st) -> Forall good r.
Proof.
  intros Hself H. destruct (transform_spec self refine sp r st Hself H) as [that [R F]].
  pose proof (tl_rel_good _ _ _ _ _ R) as Hg. destruct sp; [|subst; exact Hg].
  apply Forall_good'_good. apply (simplify_good' O that ctx r Hg Hctx F).
Qed.

(** ** C04 *)
Theorem C04_refine self sp r st :
  Forall good' self ->
  elim_vars_by_refining O self ctx vs sp order = inl (r, st) ->
  forall rho, sat_list rho ctx -> sat_list rho r -> sat_list rho self.
Proof.
  intros Hself H rho Hc Hr. unfold elim_vars_by_refining in H. apply bind_inl in H. destruct H as [tl [H1 H2]].
  apply as_value_error_inl in H2. destruct sp.
  - apply as_value_error_inl in H1.
    apply (simplify_equiv_wft O HO self ctx tl (Forall_good_wft _ (Forall_good'_good _ Hself)) (Forall_good_wft _ Hctx) H1 rho Hc).
    apply (transform_refine_sound tl true r st); try assumption.
    eapply simplify_good'; [apply Forall_good'_good; exact Hself|exact Hctx|exact H1].
  - inversion H1; subst tl. apply (transform_refine_sound self false r st); assumption.
Qed.

Lemma map_copy_good' l : Forall good' l -> map term_copy l = l.
Proof.
  induction 1 as [|t l [[_ Hnz] _] Hl IH]; simpl; [reflexivity|]. rewrite IH, (term_copy_id t Hnz). reflexivity.
Qed.

Theorem C04_relax self sp r st :
  Forall good' self ->
  elim_vars_by_relaxing O self ctx vs sp order = inl (r, st) ->
  (forall rho, sat_list rho ctx -> sat_list rho self -> sat_list rho r) /\
  (forall t v, In t r -> In v vs -> ~ In v (term_vars_p t)).
Proof.
  intros Hself H. unfold elim_vars_by_relaxing in H. apply bind_inl in H. destruct H as [tl [H1 H2]].
  apply bind_inl in H2. destruct H2 as [[tl2 used] [H2 H3]]. apply as_value_error_inl in H2.
  inversion H3; subst r st. clear H3.
  assert (Htl : Forall good' tl /\ forall rho, sat_list rho ctx -> sat_list rho self -> sat_list rho tl).
  { destruct sp.
    - apply as_value_error_inl in H1. split.
      + eapply simplify_good'; [apply Forall_good'_good; exact Hself|exact Hctx|exact H1].
      + intros rho Hc Hs.
        apply (simplify_equiv_wft O HO self ctx tl (Forall_good_wft _ (Forall_good'_good _ Hself)) (Forall_good_wft _ Hctx) H1 rho Hc).
        exact Hs.
    - inversion H1; subst tl. rewrite (map_copy_good' self Hself). split; [exact Hself|tauto]. }
  destruct Htl as [Hg Hsem]. split.
  - intros rho Hc Hs. pose proof (transform_relax_sound tl sp tl2 used Hg H2 rho Hc (Hsem rho Hc Hs)) as Ht.
    unfold sat_list, list_diff in *. rewrite Forall_forall in *. intros x Hx. apply filter_In in Hx. apply Ht. tauto.
  - intros t v Ht Hv Hin. unfold list_diff in Ht. apply filter_In in Ht. destruct Ht as [Ht Hnot].
    apply negb_true_iff in Hnot.
    assert (Hw : wft t).
    { pose proof (transform_good tl false sp tl2 used Hg H2) as G. rewrite Forall_forall in G. apply G. exact Ht. }
    assert (Hp : py_in t (filter (fun t0 => nonempty (list_intersection (term_vars_p t0) vs)) tl2) = true).
    { unfold py_in. apply existsb_exists. exists t. split.
      - apply filter_In. split; [exact Ht|]. apply nonempty_true. intros E.
        assert (Hi : In v (list_intersection (term_vars_p t) vs)) by (apply in_list_intersection; tauto).
        rewrite E in Hi. destruct Hi.
      - change (py_eqb t t) with (term_eqb_p t t). apply term_eqb_refl. exact Hw. }
    rewrite Hp in Hnot. discriminate.
Qed.
End Transform.

(* ------------------------------------------------------------------ *)
(** * M3: context reduction (tactics 1, 3, 5): substituting the solver's answer *)
Fixpoint upds (rho0 rho : val) (sols : list (var * pterm)) : val :=
  match sols with
  | [] => rho
  | (v, s) :: r => upd (upds rho0 rho r) v (ev rho0 s)
  end.

Lemma ev_upds_indep rho0 rho sols t :
  wft t -> (forall w, In w (map fst sols) -> gcR t w = 0) -> ev (upds rho0 rho sols) t = ev rho t.
Proof.
  intros Ht. induction sols as [|[v s] r IH]; intros H; simpl; [reflexivity|].
  rewrite (ev_upd _ t v _ Ht), (H v) by (left; reflexivity). rewrite IH; [lra|].
  intros w Hw. apply H. right. exact Hw.
Qed.
Lemma upds_notin rho0 rho sols w : ~ In w (map fst sols) -> upds rho0 rho sols w = rho w.
Proof.
  induction sols as [|[v s] r IH]; intros H; simpl; [reflexivity|].
  rewrite upd_other; [apply IH|]; intros E; apply H; [right; exact E|left; symmetry; exact E].
Qed.
Lemma upds_in rho0 rho sols v s : NoDup (map fst sols) -> In (v, s) sols -> upds rho0 rho sols v = ev rho0 s.
Proof.
  induction sols as [|[v' s'] r IH]; intros Hn Hi; [destruct Hi|]. simpl in *.
  inversion Hn as [|? ? Hv Hn']; subst. destruct Hi as [E|Hi].
  - inversion E; subst. apply upd_same.
  - rewrite upd_other; [apply IH; assumption|]. intros ->. apply Hv. apply in_map_iff. exists (v', s). auto.
Qed.

Definition subst_all (sols : list (var * pterm)) (t0 : pterm) : pterm :=
  fold_left (fun res kv => term_substitute_variable res (fst kv) (snd kv)) sols t0.

Lemma subst_all_spec sols : forall t0,
  wft t0 -> (forall v s, In (v, s) sols -> wft s) ->
  (forall v s w, In (v, s) sols -> In w (map fst sols) -> gcR s w = 0) ->
  wft (subst_all sols t0) /\ forall rho, ev rho (subst_all sols t0) = ev (upds rho rho sols) t0.
Proof.
  induction sols as [|[v s] r IH]; intros t0 Ht Hw Hind; simpl.
  - split; [exact Ht|reflexivity].
  - assert (Hs : wft s) by (eapply Hw; left; reflexivity).
    destruct (IH (term_substitute_variable t0 v s)) as [H1 H2].
    + apply wft_substitute_variable; assumption.
    + intros v' s' Hi. eapply Hw. right. exact Hi.
    + intros v' s' w Hi Hin. eapply Hind; [right; exact Hi|right; exact Hin].
    + split; [exact H1|]. intros rho. unfold subst_all in *. cbn [fold_left fst snd]. rewrite H2.
      rewrite ev_subst_upd by assumption. rewrite ev_upds_indep; [reflexivity|exact Hs|].
      intros w Hin. eapply Hind; [left; reflexivity|right; exact Hin].
Qed.
Lemma gcR_subst_all_zero sols z : forall t0,
  wft t0 -> (forall v s, In (v, s) sols -> wft s) ->
  gcR t0 z = 0 -> (forall v s, In (v, s) sols -> gcR s z = 0) -> gcR (subst_all sols t0) z = 0.
Proof.
  induction sols as [|[v s] r IH]; intros t0 Ht Hw H0 Hs; simpl; [exact H0|].
  assert (Hws : wft s) by (eapply Hw; left; reflexivity).
  apply IH.
  - apply wft_substitute_variable; assumption.
  - intros v' s' Hi. eapply Hw. right. exact Hi.
  - rewrite gcR_subst by assumption. pose proof (Hs v s (or_introl eq_refl)) as Hsz.
    destruct (String.eqb z v) eqn:E; [apply String.eqb_eq in E; subst z; rewrite Hsz; lra|rewrite Hsz, H0; lra].
  - intros v' s' Hi. eapply Hs. right. exact Hi.
Qed.
(* a solved variable disappears *)
Lemma gcR_subst_all_solved sols z : forall t0,
  wft t0 -> (forall v s, In (v, s) sols -> wft s) ->
  In z (map fst sols) -> (forall v s, In (v, s) sols -> gcR s z = 0) -> gcR (subst_all sols t0) z = 0.
Proof.
  induction sols as [|[v s] r IH]; intros t0 Ht Hw Hz Hs; [destruct Hz|]. simpl.
  assert (Hws : wft s) by (eapply Hw; left; reflexivity).
  assert (Hw' : forall v' s', In (v', s') r -> wft s') by (intros v' s' Hi; eapply Hw; right; exact Hi).
  assert (Hs' : forall v' s', In (v', s') r -> gcR s' z = 0) by (intros v' s' Hi; eapply Hs; right; exact Hi).
  assert (Hwt : wft (term_substitute_variable t0 v s)) by (apply wft_substitute_variable; assumption).
  destruct (string_dec v z) as [->|Hne].
  - apply gcR_subst_all_zero; try assumption.
    rewrite gcR_subst by assumption. rewrite String.eqb_refl, (Hs z s) by (left; reflexivity). lra.
  - apply IH; try assumption. simpl in Hz. destruct Hz as [Hz|Hz]; [contradiction|exact Hz].
Qed.

Lemma sumf_sumn (f : var -> R) l : sumf f l = sumn (List.length l) (fun j => f (nth j l ""%string)).
Proof.
  induction l as [|x l IH]; [reflexivity|]. cbn [List.length]. rewrite sumn_shift, sumf_cons, IH. reflexivity.
Qed.

Definition tcR (refine : bool) : R := if refine then 1 else -1.

(* the common part of tactics 1, 3 and 5: if moving the forbidden variables so that every selected
   row does not increase can only move the term in the right direction, then substituting the
   equality solution of the selected rows is a refinement (relaxation) *)
Lemma reduction_sound term rows fvars sols refine ctx :
  wft term -> Forall wft rows -> incl rows ctx ->
  solve_for_variables rows fvars = inl sols ->
  (forall rho rho', (forall w, ~ In w fvars -> rho w = rho' w) ->
     (forall r, In r rows -> ev rho r - ev rho' r <= 0) -> tcR refine * (ev rho term - ev rho' term) <= 0) ->
  wft (subst_all sols (term_copy term)) /\ dir_ok refine ctx term (subst_all sols (term_copy term)).
Proof.
  intros Ht Hrows Hincl Hsolve Hcone.
  destruct (solve_spec rows fvars sols Hrows Hsolve) as [Sw [Snd [Sin [Sind [_ Seq]]]]].
  destruct (subst_all_spec sols (term_copy term) (wft_copy term Ht) Sw Sind) as [Tw Tev].
  split; [exact Tw|].
  destruct Seq as [->|Seq]; [apply dir_ok_copy|].
  assert (Key : forall rho, sat_list rho ctx ->
            tcR refine * (ev rho term - ev rho (subst_all sols (term_copy term))) <= 0).
  { intros rho Hs. rewrite Tev, ev_copy. set (rho' := upds rho rho sols).
    assert (Hsol : forall v s, In (v, s) sols -> rho' v = ev rho' s).
    { intros v s Hi. unfold rho'. rewrite (upds_in rho rho sols v s Snd Hi).
      symmetry. apply ev_upds_indep; [eapply Sw; exact Hi|]. intros w Hw. eapply Sind; eassumption. }
    assert (Heq : dvs 0 rho' rho' rows).
    { apply (proj2 (Seq 0 rho' rho')). intros v s Hi. unfold dv. rewrite (Hsol v s Hi). lra. }
    apply Hcone.
    - intros w Hw. unfold rho'. symmetry. apply upds_notin. intros Hin. apply Hw. apply Sin. exact Hin.
    - intros r Hr. specialize (Heq r Hr). unfold dv in Heq.
      assert (Hsr : sat rho r).
      { unfold sat_list in Hs. rewrite Forall_forall in Hs. apply Hs. apply Hincl. exact Hr. }
      apply sat_ev in Hsr. lra. }
  destruct refine; intros rho Hs Hsat; specialize (Key rho Hs); unfold tcR in Key; apply sat_ev; apply sat_ev in Hsat; lra.
Qed.

(** ** The Kaykobad context of tactic 1 *)
Lemma Q2R_m1 : Q2R (-(1)) = -1.
Proof. unfold Q2R. simpl. lra. Qed.

Lemma signq_inl t v s : signq t v = inl s -> Q2R s = sgnR (gcR t v).
Proof.
  unfold signq, term_get_sign, term_get_polarity.
  destruct (assoc v (tvars t)) as [c|] eqn:A; simpl; [|discriminate].
  intros H. inversion H; subst. unfold gcR. rewrite get_coefficient_coef. unfold coef. rewrite A.
  unfold sgnR. destruct (qle 0 c) eqn:Q.
  - apply qle_true in Q. rewrite Q2R_0 in Q. destruct (Rle_dec 0 (Q2R c)); [apply Q2R_1|contradiction].
  - apply qle_false in Q. rewrite Q2R_0 in Q. destruct (Rle_dec 0 (Q2R c)); [lra|apply Q2R_m1].
Qed.

Definition dummy : pterm := mkT [] 0%Q.

Lemma length_add_lists a b : List.length (add_lists a b) = Nat.min (List.length a) (List.length b).
Proof. revert b. induction a as [|x a IH]; intros [|y b]; simpl; try reflexivity. rewrite IH. reflexivity. Qed.
Lemma nth_add_lists a b j : (j < List.length a)%nat -> (j < List.length b)%nat ->
  Q2R (nth_q (add_lists a b) j) = Q2R (nth_q a j) + Q2R (nth_q b j).
Proof.
  revert b j. induction a as [|x a IH]; intros [|y b] [|j]; simpl; intros H1 H2; try lia.
  - apply Q2R_qadd.
  - apply IH; lia.
Qed.
Lemma nth_q_map0 {A} (l : list A) j : Q2R (nth_q (map (fun _ => 0%Q) l) j) = 0.
Proof. revert j. induction l as [|x l IH]; intros [|j]; simpl; try apply Q2R_0. apply IH. Qed.
Lemma skipn_cons_inv {A} (l : list A) i x r d :
  skipn i l = x :: r -> (i < List.length l)%nat /\ nth i l d = x /\ skipn (S i) l = r.
Proof.
  revert i. induction l as [|y l IH]; intros [|i] H; simpl in *; try discriminate.
  - inversion H; subst. repeat split. lia.
  - destruct (IH i H) as [H1 [H2 H3]]. repeat split; [lia|exact H2|exact H3].
Qed.
Lemma skipn_nil_inv {A} (l : list A) i : skipn i l = [] -> (List.length l <= i)%nat.
Proof.
  revert i. induction l as [|y l IH]; intros [|i] H; simpl in *; try lia; try discriminate.
  specialize (IH i H). lia.
Qed.

Section KK.
Variables (term : pterm) (fvars : list var) (tc : Q).
Hypothesis Htc : Q2R tc * Q2R tc = 1.
Let n := List.length fvars.
Let fv (j : nat) : var := nth j fvars ""%string.
Let qR (j : nat) : R := gcR term (fv j).

Lemma kk_sign_ok ctx l :
  kk_sign_invalid term ctx tc l = inl false ->
  forall v, In v l -> gcR ctx v <> 0 -> Q2R tc * sgnR (gcR ctx v) = sgnR (gcR term v).
Proof.
  induction l as [|x l IH]; simpl; intros H v Hv Hn; [destruct Hv|].
  destruct (negb (qzero (get_coefficient ctx x))) eqn:Z.
  - destruct (signq ctx x) as [sc|e] eqn:S1; simpl in H; [|discriminate].
    destruct (signq term x) as [st|e] eqn:S2; simpl in H; [|discriminate].
    destruct (negb (Qeq_bool (qmul tc sc) st)) eqn:B; [inversion H|].
    apply negb_false_iff in B. apply Qeq_bool_Q2R in B. rewrite Q2R_qmul in B.
    destruct Hv as [->|Hv]; [|apply IH; assumption].
    rewrite <- (signq_inl _ _ _ S1), <- (signq_inl _ _ _ S2). exact B.
  - destruct Hv as [->|Hv]; [|apply IH; assumption].
    apply negb_false_iff in Z. apply qzero_true in Z. unfold gcR in Hn. contradiction.
Qed.

Definition resR (ctx : pterm) (i j : nat) : R :=
  if Nat.eqb j i then 0 else sgnR (qR j) * gcR ctx (fv j) * qR i / gcR ctx (fv i).

Lemma kk_res_spec ctx i partial : gcR ctx (fv i) <> 0 ->
  forall l j res, (forall k, (k < List.length l)%nat -> nth k l ""%string = fv (j + k)) ->
  kk_residuals term ctx i (fv i) l j partial = inl (Some res) ->
  List.length res = List.length l /\
  forall k, (k < List.length l)%nat ->
    Q2R (nth_q res k) = resR ctx i (j + k) /\
    Q2R (nth_q partial (j + k)) + Q2R (nth_q res k) < Rabs (qR (j + k)).
Proof.
  intros Hd. assert (HdQ : ~ (get_coefficient ctx (fv i) == 0)%Q) by (apply Q2R_neq0; exact Hd).
  induction l as [|x l IH]; intros j res Hl H.
  - simpl in H. inversion H. split; [reflexivity|]. intros k Hk. simpl in Hk. lia.
  - assert (Hx : x = fv j).
    { specialize (Hl O). simpl in Hl. rewrite Nat.add_0_r in Hl. apply Hl. lia. }
    cbn [kk_residuals] in H.
    assert (Hrj : exists rj,
      (if Nat.eqb j i then ret 0%Q else
         sj <- signq term x ;;
         ret (qdiv (qmul (qmul sj (get_coefficient ctx x)) (get_coefficient term (fv i)))
                   (get_coefficient ctx (fv i)))) = inl rj /\ Q2R rj = resR ctx i j).
    { unfold resR. destruct (Nat.eqb j i).
      - exists 0%Q. split; [reflexivity|apply Q2R_0].
      - destruct (signq term x) as [sj|e] eqn:S; simpl.
        + eexists. split; [reflexivity|]. rewrite (Q2R_qdiv _ _ HdQ), !Q2R_qmul, (signq_inl _ _ _ S).
          subst x. reflexivity.
        + simpl in H. discriminate. }
    destruct Hrj as [rj [Erj Qrj]]. rewrite Erj in H. cbn [bind] in H.
    destruct (qle (qabs (get_coefficient term x)) (qadd (nth_q partial j) rj)) eqn:Qle; [inversion H|].
    apply qle_false in Qle. rewrite Q2R_qadd, Q2R_qabs in Qle.
    destruct (kk_residuals term ctx i (fv i) l (S j) partial) as [[l'|]|e] eqn:R; simpl in H; inversion H; subst res.
    destruct (IH (S j) l') as [L Hk'].
    + intros k Hk. specialize (Hl (S k)). simpl in Hl. rewrite Nat.add_succ_r in Hl. apply Hl. lia.
    + exact R.
    + split; [simpl; rewrite L; reflexivity|]. intros [|k] Hk.
      * rewrite Nat.add_0_r. simpl. split; [exact Qrj|]. subst x. exact Qle.
      * rewrite Nat.add_succ_r. simpl. apply Hk'. simpl in Hk. lia.
Qed.

Lemma kk_find_row_spec cands other i i_var partial ctx res :
  kk_find_row term cands other fvars tc i i_var partial = inl (Some (ctx, res)) ->
  In ctx cands /\ kk_sign_invalid term ctx tc fvars = inl false /\
  qzero (get_coefficient ctx i_var) = false /\
  kk_residuals term ctx i i_var fvars 0 partial = inl (Some res).
Proof.
  induction cands as [|c cands IH]; simpl; intros H; [discriminate|].
  assert (Next : kk_find_row term cands other fvars tc i i_var partial = inl (Some (ctx, res)) ->
                 (c = ctx \/ In ctx cands) /\ kk_sign_invalid term ctx tc fvars = inl false /\
                 qzero (get_coefficient ctx i_var) = false /\
                 kk_residuals term ctx i i_var fvars 0 partial = inl (Some res)).
  { intros H'. destruct (IH H') as [A B]. split; [right; exact A|exact B]. }
  destruct (term_eqb_p c term); [auto|].
  destruct (existsb (fun v => negb (qzero (get_coefficient c v))) other); [auto|].
  destruct (kk_sign_invalid term c tc fvars) as [inv|e] eqn:S; simpl in H; [|discriminate].
  destruct (qzero (get_coefficient c i_var)) eqn:Z; simpl in H; [auto|].
  destruct inv; [auto|].
  destruct (kk_residuals term c i i_var fvars 0 partial) as [[r|]|e] eqn:R; simpl in H; [|auto|discriminate].
  inversion H; subst. split; [left; reflexivity|]. split; [exact S|]. split; [exact Z|exact R].
Qed.

Definition aR (rows : list pterm) (i j : nat) : R := gcR (nth i rows dummy) (fv j).
Definition RES (rows : list pterm) (i j : nat) : R := resR (nth i rows dummy) i j.
Definition row_good (rows : list pterm) (i : nat) : Prop :=
  (forall j, (j < n)%nat -> aR rows i j <> 0 -> Q2R tc * sgnR (aR rows i j) = sgnR (qR j)) /\
  aR rows i i <> 0 /\
  (forall j, (j < n)%nat -> sumn (S i) (fun i' => RES rows i' j) < Rabs (qR j)).

Lemma RES_app rows l i j : (i < List.length rows)%nat -> RES (rows ++ l) i j = RES rows i j.
Proof. intros H. unfold RES. rewrite app_nth1 by exact H. reflexivity. Qed.
Lemma row_good_app rows l i : (i < List.length rows)%nat -> row_good rows i -> row_good (rows ++ l) i.
Proof.
  intros Hi [H1 [H2 H3]]. unfold row_good, aR in *. rewrite app_nth1 by exact Hi.
  split; [exact H1|]. split; [exact H2|]. intros j Hj.
  rewrite (sumn_ext (S i) _ (fun i' => RES rows i' j)); [apply H3; exact Hj|].
  intros i' Hi'. apply RES_app. lia.
Qed.

Definition kk_inv (rows : list pterm) (partial : list Q) : Prop :=
  List.length partial = n /\
  (forall i, (i < List.length rows)%nat -> row_good rows i) /\
  (forall j, (j < n)%nat -> Q2R (nth_q partial j) = sumn (List.length rows) (fun i' => RES rows i' j)).

Lemma kk_rows_spec context other : forall todo i rows partial co rows' co',
  skipn i fvars = todo -> i = List.length rows -> (i <= n)%nat -> kk_inv rows partial ->
  (forall r, In r rows -> In r context) ->
  kk_rows term context other fvars tc todo i rows partial co = inl (rows', co') ->
  List.length rows' = n /\ (forall i', (i' < n)%nat -> row_good rows' i') /\ (forall r, In r rows' -> In r context).
Proof.
  induction todo as [|i_var todo' IH]; intros i rows partial co rows' co' Hsk Hi Hle Hinv Hin H.
  - simpl in H. inversion H; subst rows' co'. apply skipn_nil_inv in Hsk. fold n in Hsk.
    assert (E : List.length rows = n) by lia. split; [exact E|]. split; [|exact Hin].
    intros i' Hi'. apply Hinv. lia.
  - destruct (skipn_cons_inv fvars i i_var todo' ""%string Hsk) as [Hlt [Hnth Hsk']]. fold n in Hlt.
    change (nth i fvars ""%string) with (fv i) in Hnth. subst i_var.
    cbn [kk_rows] in H.
    destruct (kk_find_row term (list_diff context rows) other fvars tc i (fv i) partial) as [[[ctx res]|]|e] eqn:F;
      simpl in H; try discriminate.
    destruct (kk_find_row_spec _ _ _ _ _ _ _ F) as [Hc [Hsign [Hz Hres]]].
    assert (Hd : gcR ctx (fv i) <> 0) by (apply qzero_false; exact Hz).
    destruct (kk_res_spec ctx i partial Hd fvars 0 res (fun k _ => eq_refl) Hres) as [Lres Hk].
    destruct Hinv as [Lp [Hgood Hpart]].
    eapply (IH (S i) (rows ++ [ctx]) (add_lists partial res)); [exact Hsk'| | | | |exact H].
    + rewrite app_length. simpl. lia.
    + lia.
    + assert (Hnew : nth i (rows ++ [ctx]) dummy = ctx) by (subst i; apply nth_middle).
      split; [|split].
      * rewrite length_add_lists, Lp, Lres. fold n. apply Nat.min_id.
      * intros i' Hi'. rewrite app_length in Hi'. simpl in Hi'.
        destruct (Nat.eq_dec i' i) as [->|Hne].
        -- unfold row_good, aR. rewrite Hnew. split; [|split; [exact Hd|]].
           ++ intros j Hj Hnz. apply (kk_sign_ok ctx fvars Hsign); [apply nth_In; exact Hj|exact Hnz].
           ++ intros j Hj. simpl. rewrite (sumn_ext i _ (fun i' => RES rows i' j)).
              ** unfold RES at 2. rewrite Hnew. destruct (Hk j Hj) as [E1 E2]. simpl in E1, E2.
                 pose proof (Hpart j Hj) as Hp. rewrite <- Hi in Hp. rewrite <- Hp, <- E1. exact E2.
              ** intros i' Hi''. apply RES_app. lia.
        -- apply row_good_app; [lia|]. apply Hgood. lia.
      * intros j Hj. rewrite nth_add_lists by (rewrite ?Lp, ?Lres; exact Hj).
        rewrite app_length. simpl. rewrite Nat.add_1_r. simpl.
        rewrite (sumn_ext (List.length rows) _ (fun i' => RES rows i' j)) by (intros i' Hi'; apply RES_app; exact Hi').
        rewrite <- (Hpart j Hj). f_equal. unfold RES. rewrite <- Hi, Hnew.
        destruct (Hk j Hj) as [E1 _]. simpl in E1. exact E1.
    + intros r Hr. apply in_app_iff in Hr. destruct Hr as [Hr|[<-|[]]]; [apply Hin; exact Hr|].
      unfold list_diff in Hc. apply filter_In in Hc. tauto.
Qed.

(* the cone property of the selected rows *)
Lemma kk_cone rows :
  List.length rows = n -> (forall i, (i < n)%nat -> row_good rows i) ->
  Forall wft rows -> wft term -> NoDup fvars ->
  forall rho rho', (forall w, ~ In w fvars -> rho w = rho' w) ->
    (forall r, In r rows -> ev rho r - ev rho' r <= 0) ->
    Q2R tc * (ev rho term - ev rho' term) <= 0.
Proof.
  intros L Hgood Hw Ht Hnd rho rho' Hag Hrows.
  set (d := fun j => rho (fv j) - rho' (fv j)).
  assert (Hdiff : forall t, wft t -> ev rho t - ev rho' t = sumn n (fun j => gcR t (fv j) * d j)).
  { intros t Hwt. rewrite (ev_diff rho rho' t fvars Hwt Hnd Hag), sumf_sumn. reflexivity. }
  rewrite (Hdiff term Ht).
  set (A := fun i j => Rabs (aR rows i j)). set (Q := fun j => Rabs (qR j)).
  assert (HA : forall i j, 0 <= A i j) by (intros; apply Rabs_pos).
  assert (Hdiag : forall i, (i < n)%nat -> 0 < A i i).
  { intros i Hi. apply Rabs_pos_lt. apply (Hgood i Hi). }
  assert (Hoff : forall i j, (i < n)%nat -> (j < n)%nat -> RES rows i j = off A Q i j).
  { intros i j Hi Hj. unfold RES, resR, off. rewrite Nat.eqb_sym. destruct (Nat.eqb i j); [reflexivity|].
    destruct (Hgood i Hi) as [G1 [G2 _]].
    apply (res_eq (Q2R tc) (aR rows i j) (aR rows i i) (qR j) (qR i) Htc (G1 j Hj) G2 (G1 i Hi G2)). }
  assert (Hoffnn : forall i j, (i < n)%nat -> 0 <= off A Q i j).
  { intros i j Hi. unfold off. destruct (Nat.eqb i j); [lra|].
    apply Rmult_le_pos; [apply Rmult_le_pos; [apply HA|apply Rabs_pos]|].
    left. apply Rinv_0_lt_compat. apply Hdiag. exact Hi. }
  assert (HQ : forall j, (j < n)%nat -> 0 < Q j).
  { intros j Hj. assert (H0 : (0 < n)%nat) by lia. destruct (Hgood O H0) as [_ [_ G3]].
    specialize (G3 j Hj). simpl in G3. rewrite (Hoff O j H0 Hj) in G3.
    pose proof (Hoffnn O j H0). unfold Q. lra. }
  assert (Hdom : forall j, (j < n)%nat -> sumn n (fun i => off A Q i j) < Q j).
  { intros j Hj. assert (H0 : (n - 1 < n)%nat) by lia. destruct (Hgood (n - 1)%nat H0) as [_ [_ G3]].
    specialize (G3 j Hj). replace (S (n - 1)) with n in G3 by lia.
    rewrite (sumn_ext n _ (fun i => off A Q i j)) in G3; [exact G3|]. intros i Hi. apply Hoff; assumption. }
  assert (HR : forall i, (i < n)%nat -> sumn n (fun j => A i j * (Q2R tc * sgnR (qR j) * d j)) <= 0).
  { intros i Hi. rewrite (sumn_ext n _ (fun j => aR rows i j * d j)).
    - assert (Hin : In (nth i rows dummy) rows) by (apply nth_In; lia).
      rewrite Forall_forall in Hw. unfold aR. rewrite <- (Hdiff _ (Hw _ Hin)). apply Hrows. exact Hin.
    - intros j Hj. apply sign_pattern; [exact Htc|]. apply (Hgood i Hi). exact Hj. }
  pose proof (kaykobad_cone n A Q (fun j => Q2R tc * sgnR (qR j) * d j) HQ (fun i j _ _ => HA i j) Hdiag Hdom HR) as K.
  rewrite (sumn_ext n _ (fun j => Q2R tc * (qR j * d j))) in K.
  - rewrite sumn_scale in K. exact K.
  - intros j Hj. unfold Q. rewrite (abs_sgn (qR j)). pose proof (sgn_sq (qR j)) as S2.
    replace (sgnR (qR j) * qR j * (Q2R tc * sgnR (qR j) * d j))
      with ((sgnR (qR j) * sgnR (qR j)) * (Q2R tc * (qR j * d j))) by ring.
    rewrite S2. lra.
Qed.
(* ... and they form a nonsingular system in the forbidden variables *)
Lemma kk_nonsing rows :
  List.length rows = n -> (forall i, (i < n)%nat -> row_good rows i) ->
  Forall wft rows -> NoDup fvars ->
  forall rho rho', (forall w, ~ In w fvars -> rho w = rho' w) ->
    (forall r, In r rows -> ev rho r - ev rho' r = 0) ->
    forall v, In v fvars -> rho v = rho' v.
Proof.
  intros L Hgood Hw Hnd rho rho' Hag Hrows.
  set (d := fun j => rho (fv j) - rho' (fv j)).
  assert (Hdiff : forall t, wft t -> ev rho t - ev rho' t = sumn n (fun j => gcR t (fv j) * d j)).
  { intros t Hwt. rewrite (ev_diff rho rho' t fvars Hwt Hnd Hag), sumf_sumn. reflexivity. }
  set (A := fun i j => Rabs (aR rows i j)). set (Q := fun j => Rabs (qR j)).
  assert (HA : forall i j, 0 <= A i j) by (intros; apply Rabs_pos).
  assert (Hdiag : forall i, (i < n)%nat -> 0 < A i i).
  { intros i Hi. apply Rabs_pos_lt. apply (Hgood i Hi). }
  assert (Hoff : forall i j, (i < n)%nat -> (j < n)%nat -> RES rows i j = off A Q i j).
  { intros i j Hi Hj. unfold RES, resR, off. rewrite Nat.eqb_sym. destruct (Nat.eqb i j); [reflexivity|].
    destruct (Hgood i Hi) as [G1 [G2 _]].
    apply (res_eq (Q2R tc) (aR rows i j) (aR rows i i) (qR j) (qR i) Htc (G1 j Hj) G2 (G1 i Hi G2)). }
  assert (Hoffnn : forall i j, (i < n)%nat -> 0 <= off A Q i j).
  { intros i j Hi. unfold off. destruct (Nat.eqb i j); [lra|].
    apply Rmult_le_pos; [apply Rmult_le_pos; [apply HA|apply Rabs_pos]|].
    left. apply Rinv_0_lt_compat. apply Hdiag. exact Hi. }
  assert (HQ : forall j, (j < n)%nat -> 0 < Q j).
  { intros j Hj. assert (H0 : (0 < n)%nat) by lia. destruct (Hgood O H0) as [_ [_ G3]].
    specialize (G3 j Hj). simpl in G3. rewrite (Hoff O j H0 Hj) in G3.
    pose proof (Hoffnn O j H0). unfold Q. lra. }
  assert (Hdom : forall j, (j < n)%nat -> sumn n (fun i => off A Q i j) < Q j).
  { intros j Hj. assert (H0 : (n - 1 < n)%nat) by lia. destruct (Hgood (n - 1)%nat H0) as [_ [_ G3]].
    specialize (G3 j Hj). replace (S (n - 1)) with n in G3 by lia.
    rewrite (sumn_ext n _ (fun i => off A Q i j)) in G3; [exact G3|]. intros i Hi. apply Hoff; assumption. }
  assert (HR : forall i, (i < n)%nat -> sumn n (fun j => A i j * (Q2R tc * sgnR (qR j) * d j)) = 0).
  { intros i Hi. rewrite (sumn_ext n _ (fun j => aR rows i j * d j)).
    - assert (Hin : In (nth i rows dummy) rows) by (apply nth_In; lia).
      rewrite Forall_forall in Hw. unfold aR. rewrite <- (Hdiff _ (Hw _ Hin)). apply Hrows. exact Hin.
    - intros j Hj. apply sign_pattern; [exact Htc|]. apply (Hgood i Hi). exact Hj. }
  pose proof (kaykobad_nonsingular n A Q (fun j => Q2R tc * sgnR (qR j) * d j) HQ (fun i j _ _ => HA i j) Hdiag Hdom HR) as K.
  intros v Hv. destruct (In_nth fvars v ""%string Hv) as [j [Hj Ej]]. fold n in Hj.
  specialize (K j Hj). cbv beta in K. unfold d in K. change (nth j fvars ""%string) with (fv j) in Ej. rewrite Ej in K.
  assert (Hs : sgnR (qR j) * sgnR (qR j) = 1) by apply sgn_sq.
  assert (E : rho v - rho' v = (Q2R tc * Q2R tc) * (sgnR (qR j) * sgnR (qR j)) * (rho v - rho' v)) by (rewrite Htc, Hs; lra).
  assert (E2 : (Q2R tc * Q2R tc) * (sgnR (qR j) * sgnR (qR j)) * (rho v - rho' v)
               = Q2R tc * sgnR (qR j) * (Q2R tc * sgnR (qR j) * (rho v - rho' v))) by ring.
  rewrite E2, K in E. lra.
Qed.
End KK.

Definition tcQ (refine : bool) : Q := if refine then 1%Q else (-(1))%Q.
Lemma Q2R_tcQ refine : Q2R (tcQ refine) = tcR refine.
Proof. destruct refine; simpl; [apply Q2R_1|apply Q2R_m1]. Qed.
Lemma tcQ_sq refine : Q2R (tcQ refine) * Q2R (tcQ refine) = 1.
Proof. rewrite Q2R_tcQ. destruct refine; simpl; lra. Qed.

Lemma get_kk_spec term ctx vs refine rows fv' :
  get_kaykobad_context term ctx vs refine = inl (rows, fv') ->
  let fvars := list_intersection vs (term_vars_p term) in
  fv' = fvars /\ List.length rows = List.length fvars /\
  (forall i, (i < List.length fvars)%nat -> row_good term fvars (tcQ refine) rows i) /\
  (forall r, In r rows -> In r ctx).
Proof.
  unfold get_kaykobad_context. cbv zeta. fold (tcQ refine).
  set (fvars := list_intersection vs (term_vars_p term)). intros H.
  apply bind_inl in H. destruct H as [[rows0 others] [H1 H2]].
  destruct (negb others && negb (nonempty (list_diff (term_vars_p term) vs))); [discriminate|].
  inversion H2; subst rows0 fv'. split; [reflexivity|].
  apply (kk_rows_spec term fvars (tcQ refine) ctx (list_diff vs (term_vars_p term)) fvars 0 []
           (map (fun _ => 0%Q) fvars) false rows others); try reflexivity; try lia.
  - split; [apply map_length|]. split; [intros i Hi; simpl in Hi; lia|].
    intros j Hj. simpl. apply nth_q_map0.
  - intros r [].
  - exact H1.
Qed.

(* what tactic 1 returns, and that it is sound *)
Lemma tactic_1_spec O term ctx vs refine t' cnt :
  wft term -> Forall wft ctx -> NoDup vs ->
  tactic_1 O term ctx vs refine = inl (Some t', cnt) ->
  let fvars := list_intersection vs (term_vars_p term) in
  exists rows sols,
    (forall r, In r rows -> In r ctx) /\ List.length rows = List.length fvars /\
    (forall i, (i < List.length fvars)%nat -> row_good term fvars (tcQ refine) rows i) /\
    solve_for_variables rows fvars = inl sols /\ t' = subst_all sols (term_copy term) /\
    wft t' /\ dir_ok refine ctx term t'.
Proof.
  intros Ht Hctx Hvs H. cbv zeta. unfold tactic_1 in H. apply bind_inl in H. destruct H as [r [H1 H2]].
  inversion H2; subst r cnt. clear H2. unfold context_reduction in H1.
  apply bind_inl in H1. destruct H1 as [[rows fv'] [H1 H2]]. apply as_value_error_inl in H1.
  apply bind_inl in H2. destruct H2 as [sols [H2 H3]]. inversion H3; subst t'. clear H3.
  destruct (get_kk_spec term ctx vs refine rows fv' H1) as [-> [L [Hgood Hin]]].
  set (fvars := list_intersection vs (term_vars_p term)) in *.
  assert (Hrw : Forall wft rows).
  { rewrite Forall_forall in *. intros x Hx. apply Hctx. apply Hin. exact Hx. }
  assert (Hnd : NoDup fvars) by (apply NoDup_list_intersection; exact Hvs).
  exists rows, sols. split; [exact Hin|]. split; [exact L|]. split; [exact Hgood|]. split; [exact H2|].
  split; [reflexivity|].
  apply (reduction_sound term rows fvars sols refine ctx Ht Hrw Hin H2).
  intros rho rho' Hag Hr. rewrite <- Q2R_tcQ.
  apply (kk_cone term fvars (tcQ refine) (tcQ_sq refine) rows L Hgood Hrw Ht Hnd rho rho' Hag Hr).
Qed.

Lemma good_subst_all rows fvars sols t0 :
  Forall good rows -> solve_for_variables rows fvars = inl sols -> good t0 -> good (subst_all sols t0).
Proof.
  intros Hr Hs [Hw Hu]. assert (Hrw : Forall wft rows) by (apply Forall_good_wft; exact Hr).
  destruct (solve_spec rows fvars sols Hrw Hs) as [Sw [_ [_ [Sind [Sz _]]]]].
  split; [apply (subst_all_spec sols t0 Hw Sw Sind)|].
  apply gcR_subst_all_zero; try assumption. apply Sz. intros r Hin. rewrite Forall_forall in Hr. apply Hr. exact Hin.
Qed.

Theorem tactic_1_ok : tactic_ok 1.
Proof.
  intros O HO term ctx vs refine t' cnt Hs H _. destruct (side_good _ _ _ Hs) as [Ht Hc].
  destruct Hs as [Hg [Hgc [Hvs _]]]. simpl in H.
  destruct (tactic_1_spec O term ctx vs refine t' cnt Ht Hc Hvs H) as [rows [sols [Hin [_ [_ [Hsol [-> [Hw Hd]]]]]]]].
  split; [|exact Hd].
  apply (good_subst_all rows (list_intersection vs (term_vars_p term)) sols (term_copy term));
    [|exact Hsol|apply good_copy, good'_good; exact Hg].
  rewrite Forall_forall in *. intros x Hx. apply Hgc. apply Hin. exact Hx.
Qed.

(* ------------------------------------------------------------------ *)
(** * Tactic 5: LP-active rows with exact multipliers (one Farkas step) *)
Lemma unary_inj i j : unary i = unary j -> i = j.
Proof.
  revert j. induction i as [|i IH]; intros [|j] H; simpl in H; try discriminate; [reflexivity|].
  inversion H. f_equal. apply IH. assumption.
Qed.
Lemma lam_name_inj i j : lam_name i = lam_name j -> i = j.
Proof. unfold lam_name. intros H. inversion H. apply unary_inj. assumption. Qed.
Lemma NoDup_names i m : NoDup (map lam_name (seq i m)).
Proof.
  apply FinFun.Injective_map_NoDup; [|apply seq_NoDup]. intros x y. apply lam_name_inj.
Qed.

Fixpoint lsum (L : val) (i : nat) (rows : list pterm) (X : pterm -> R) : R :=
  match rows with [] => 0 | r :: rs => L (lam_name i) * X r + lsum L (S i) rs X end.

Lemma lin_combine_names L (g : pterm -> Q) rows : forall i,
  lin L (combine (map lam_name (seq i (List.length rows))) (map g rows)) = lsum L i rows (fun r => Q2R (g r)).
Proof. induction rows as [|r rs IH]; intros i; simpl; [reflexivity|]. rewrite IH. lra. Qed.
Lemma lsum_ext L rows X Y : (forall r, In r rows -> X r = Y r) -> forall i, lsum L i rows X = lsum L i rows Y.
Proof.
  induction rows as [|r rs IH]; intros H i; simpl; [reflexivity|].
  rewrite (H r), IH; [reflexivity| |left; reflexivity]. intros r' Hr. apply H. right. exact Hr.
Qed.
Lemma lsum_scale L rows X c : forall i, lsum L i rows (fun r => X r * c) = lsum L i rows X * c.
Proof. induction rows as [|r rs IH]; intros i; simpl; [lra|]. rewrite IH. lra. Qed.
Lemma lsum_sumf L rows (F : pterm -> var -> R) vs : forall i,
  lsum L i rows (fun r => sumf (fun v => F r v) vs) = sumf (fun v => lsum L i rows (fun r => F r v)) vs.
Proof.
  induction rows as [|r rs IH]; intros i; simpl.
  - induction vs as [|v vs IHv]; simpl; [reflexivity|]. rewrite <- IHv. lra.
  - rewrite IH, <- sumf_scale, <- sumf_plus. reflexivity.
Qed.
Lemma lsum_nonpos sg L rows X :
  (forall j, 0 <= sg * L (lam_name j)) -> (forall r, In r rows -> X r <= 0) -> forall i, sg * lsum L i rows X <= 0.
Proof.
  intros HL. induction rows as [|r rs IH]; intros HX i; simpl; [lra|].
  assert (H1 : sg * lsum L (S i) rs X <= 0) by (apply IH; intros r' Hr; apply HX; right; exact Hr).
  assert (H2 : X r <= 0) by (apply HX; left; reflexivity). pose proof (HL i). nra.
Qed.

Lemma multipliers_spec term rows fvars refine pivots rest :
  let names := map lam_name (seq 0 (List.length rows)) in
  let eqs := map (fun v => mk_term (combine names (map (fun r => get_coefficient r v) rows))
                                   (get_coefficient term v)) fvars in
  let lams := map (fun q => qneg (tconst (solve_isolate (snd q) (fst q)))) pivots in
  gauss names [] eqs = (pivots, rest) ->
  List.length pivots = List.length names -> (List.length fvars <= List.length rows)%nat ->
  refine && existsb (fun l => qlt l 0) lams = false ->
  negb refine && existsb (fun l => qlt 0 l) lams = false ->
  exists L : val, (forall j, 0 <= tcR refine * L (lam_name j)) /\
                  forall v, In v fvars -> lsum L 0 rows (fun r => gcR r v) = gcR term v.
Proof.
  intros names eqs lams G Lp Ln S1 S2.
  assert (Hnd : NoDup names) by apply NoDup_names.
  assert (Hw : Forall wft eqs).
  { apply Forall_forall. intros e He. apply in_map_iff in He. destruct He as [v [<- _]].
    apply wft_mk_term. apply NoDup_keys_combine. exact Hnd. }
  assert (Hrest : rest = []).
  { destruct (gauss_spec _ _ _ _ _ G Hnd (fun _ _ F => F) (gstate_init eqs Hw)) as [_ [_ [_ [_ [_ [_ [G7 _]]]]]]].
    unfold eqs, names in G7, Lp. rewrite !map_length, seq_length in *. simpl in G7.
    destruct rest; [reflexivity|]. simpl in G7. lia. }
  subst rest.
  destruct (gauss_sols_spec names eqs pivots [] Hw Hnd G) as [Sw [Snd [_ [Sind [_ [Seq _]]]]]].
  set (sols := map sol_of pivots) in *. set (Z := fun _ : var => 0).
  exists (upds Z Z sols). split.
  - intros j. destruct (in_dec string_dec (lam_name j) (map fst sols)) as [Hi|Hn].
    + apply in_fst_pivots in Hi. destruct Hi as [s Hi]. rewrite (upds_in Z Z sols _ s Snd Hi).
      assert (Hl : In (qneg (tconst s)) lams).
      { unfold sols in Hi. apply in_sol_of in Hi. destruct Hi as [p [Hi ->]].
        unfold lams. apply in_map_iff. exists (lam_name j, p). split; [reflexivity|exact Hi]. }
      assert (E : ev Z s = Q2R (qneg (tconst s))).
      { unfold ev. rewrite lin_vanish by (intros; reflexivity). rewrite Q2R_qneg. lra. }
      rewrite E. destruct refine; simpl in *.
      * assert (H : qlt (qneg (tconst s)) 0 = false).
        { destruct (qlt (qneg (tconst s)) 0) eqn:Q; [|reflexivity].
          assert (existsb (fun l => qlt l 0) lams = true) by (apply existsb_exists; eauto). congruence. }
        apply qlt_false in H. rewrite Q2R_0 in H. lra.
      * assert (H : qlt 0 (qneg (tconst s)) = false).
        { destruct (qlt 0 (qneg (tconst s))) eqn:Q; [|reflexivity].
          assert (existsb (fun l => qlt 0 l) lams = true) by (apply existsb_exists; eauto). congruence. }
        apply qlt_false in H. rewrite Q2R_0 in H. lra.
    + rewrite (upds_notin Z Z sols _ Hn). unfold Z. lra.
  - intros v Hv. set (L := upds Z Z sols).
    assert (Hd : dvs 0 L L eqs).
    { apply (proj2 (Seq 0 L L)). split; [|intros r []]. intros x s Hi. unfold dv, L. rewrite (upds_in Z Z sols x s Snd Hi).
      rewrite ev_upds_indep; [lra|eapply Sw; exact Hi|]. intros w Hw'. eapply Sind; eassumption. }
    assert (He : In (mk_term (combine names (map (fun r => get_coefficient r v) rows)) (get_coefficient term v)) eqs).
    { unfold eqs. apply in_map_iff. exists v. split; [reflexivity|exact Hv]. }
    specialize (Hd _ He). unfold dv, ev in Hd. rewrite lin_mk_term, mk_term_const in Hd.
    unfold names in Hd. rewrite lin_combine_names in Hd. unfold gcR. lra.
Qed.

Lemma tlp_pick_incl ctx : forall slack fvars need r, In r (tlp_pick ctx slack fvars need) -> In r ctx.
Proof.
  induction ctx as [|c ctx IH]; intros slack fvars need r H.
  - destruct need; simpl in H; destruct H.
  - destruct need as [|k]; [destruct H|]. destruct slack as [|s sr]; [destruct H|].
    cbn [tlp_pick] in H.
    destruct (isclose0 s && nonempty (list_intersection (term_vars_p c) fvars)).
    + destruct H as [<-|H]; [left; reflexivity|right; eapply IH; exact H].
    + right. eapply IH. exact H.
Qed.

Lemma get_tlp_spec O term ctx vs refine rows fv' :
  get_tlp_context O term ctx vs refine = inl (rows, fv') ->
  let fvars := list_intersection vs (term_vars_p term) in
  fv' = fvars /\ (forall r, In r rows -> In r ctx) /\
  exists L : val, (forall j, 0 <= tcR refine * L (lam_name j)) /\
                  forall v, In v fvars -> lsum L 0 rows (fun r => gcR r v) = gcR term v.
Proof.
  unfold get_tlp_context. cbv zeta. set (fvars := list_intersection vs (term_vars_p term)).
  destruct (polytope_vars ctx []) as [|v0 vl]; [discriminate|].
  destruct (O _) as [f slack| | | |]; try discriminate.
  destruct (Nat.ltb _ _); [discriminate|].
  set (rws := tlp_pick ctx slack fvars (List.length fvars)).
  destruct (Nat.ltb (List.length rws) (List.length fvars)) eqn:L1; [discriminate|].
  apply Nat.ltb_ge in L1.
  destruct (gauss _ [] _) as [pivots rest] eqn:G.
  destruct (negb (Nat.eqb (List.length pivots) _)) eqn:L2; [discriminate|].
  apply negb_false_iff, Nat.eqb_eq in L2.
  destruct (refine && existsb _ _) eqn:S1; [discriminate|].
  destruct (negb refine && existsb _ _) eqn:S2; [discriminate|].
  intros H. inversion H; subst rows fv'. split; [reflexivity|]. split.
  - intros r Hr. eapply tlp_pick_incl. exact Hr.
  - eapply multipliers_spec; eassumption.
Qed.

Lemma tactic_5_spec O term ctx vs refine t' cnt :
  wft term -> Forall wft ctx -> NoDup vs ->
  tactic_5 O term ctx vs refine = inl (Some t', cnt) ->
  exists rows sols, (forall r, In r rows -> In r ctx) /\
    solve_for_variables rows (list_intersection vs (term_vars_p term)) = inl sols /\
    t' = subst_all sols (term_copy term) /\ wft t' /\ dir_ok refine ctx term t'.
Proof.
  intros Ht Hctx Hvs H. unfold tactic_5 in H. apply bind_inl in H. destruct H as [r [H1 H2]].
  inversion H2; subst r cnt. clear H2. unfold context_reduction in H1.
  apply bind_inl in H1. destruct H1 as [[rows fv'] [H1 H2]]. apply as_value_error_inl in H1.
  apply bind_inl in H2. destruct H2 as [sols [H2 H3]]. inversion H3; subst t'. clear H3.
  destruct (get_tlp_spec O term ctx vs refine rows fv' H1) as [-> [Hin [L [HL Heq]]]].
  set (fvars := list_intersection vs (term_vars_p term)) in *.
  assert (Hrw : Forall wft rows).
  { rewrite Forall_forall in *. intros x Hx. apply Hctx. apply Hin. exact Hx. }
  assert (Hnd : NoDup fvars) by (apply NoDup_list_intersection; exact Hvs).
  exists rows, sols. split; [exact Hin|]. split; [exact H2|]. split; [reflexivity|].
  apply (reduction_sound term rows fvars sols refine ctx Ht Hrw Hin H2).
  intros rho rho' Hag Hr.
  assert (E : ev rho term - ev rho' term = lsum L 0 rows (fun r => ev rho r - ev rho' r)).
  { rewrite (ev_diff rho rho' term fvars Ht Hnd Hag).
    rewrite (lsum_ext L rows _ (fun r => sumf (fun v => gcR r v * (rho v - rho' v)) fvars)).
    - rewrite lsum_sumf. apply sumf_ext. intros v Hv. rewrite <- (Heq v Hv), <- lsum_scale. reflexivity.
    - intros r Hin'. rewrite Forall_forall in Hrw. apply (ev_diff rho rho' r fvars (Hrw r Hin') Hnd Hag). }
  rewrite E. apply lsum_nonpos; assumption.
Qed.

Theorem tactic_5_ok : tactic_ok 5.
Proof.
  intros O HO term ctx vs refine t' cnt Hs H _. destruct (side_good _ _ _ Hs) as [Ht Hc].
  destruct Hs as [Hg [Hgc [Hvs _]]]. simpl in H.
  destruct (tactic_5_spec O term ctx vs refine t' cnt Ht Hc Hvs H) as [rows [sols [Hin [Hsol [-> [Hw Hd]]]]]].
  split; [|exact Hd].
  apply (good_subst_all rows (list_intersection vs (term_vars_p term)) sols (term_copy term));
    [|exact Hsol|apply good_copy, good'_good; exact Hg].
  rewrite Forall_forall in *. intros x Hx. apply Hgc. apply Hin. exact Hx.
Qed.

(* ------------------------------------------------------------------ *)
(** * Tactic 4: chains of one-variable substitutions (refinement only) *)
Lemma ev_multiply rho t f : ev rho (term_multiply t f) = Q2R f * ev rho t.
Proof. unfold ev. rewrite lin_multiply, const_multiply. lra. Qed.
Lemma gcR_multiply t f w : wft t -> gcR (term_multiply t f) w = Q2R f * gcR t w.
Proof.
  intros Ht. rewrite (gcR_slope _ w (wft_multiply t f Ht)), (gcR_slope t w Ht), !ev_multiply. lra.
Qed.

Lemma isolate_spec t v s :
  wft' t -> term_isolate_variable t v = inl s ->
  wft s /\ gcR t v <> 0 /\ (forall rho, ev rho s = rho v - ev rho t / gcR t v) /\
  (forall w, gcR s w = if String.eqb w v then 0 else - gcR t w / gcR t v).
Proof.
  intros Ht H. assert (Hw : wft s) by (eapply wft_isolate_variable; [apply Ht|exact H]).
  assert (Ha : gcR t v <> 0).
  { destruct (isolate_sem (fun _ => 0) t v s Ht H) as [Ha _]. apply Q2R_neq0. exact Ha. }
  assert (Hev : forall rho, ev rho s = rho v - ev rho t / gcR t v).
  { intros rho. destruct (isolate_sem rho t v s Ht H) as [_ [_ [Hl Hc]]]. cbv zeta in Hl, Hc.
    unfold ev, gcR in *. rewrite Hl, Hc. field. exact Ha. }
  split; [exact Hw|]. split; [exact Ha|]. split; [exact Hev|].
  intros w. rewrite (gcR_slope s w Hw), !Hev. rewrite (ev_upd _ t w 1 (proj1 Ht)). unfold upd.
  destruct (String.eqb v w) eqn:E.
  - apply String.eqb_eq in E. subst w. rewrite String.eqb_refl. field. exact Ha.
  - rewrite String.eqb_sym, E. field. exact Ha.
Qed.

Lemma tactic_4_strong : forall fuel term ctx vs no_vars t' cnt,
  wft term -> Forall wft ctx ->
  tactic_4 fuel term ctx vs true no_vars = inl (Some t', cnt) ->
  wft t' /\ (forall rho, sat_list rho ctx -> ev rho term <= ev rho t') /\
  (forall z, ~ In z vs -> gcR term z = 0 -> (forall c, In c ctx -> gcR c z = 0) -> gcR t' z = 0).
Proof.
  induction fuel as [|fuel IHf]; intros term ctx vs no_vars t' cnt Ht Hctx H; [discriminate|].
  cbn [tactic_4 negb] in H. cbv zeta in H.
  destruct (Nat.ltb 1 (List.length (list_intersection vs (term_vars_p term)))); [discriminate|].
  destruct (list_intersection vs (term_vars_p term)) as [|v crest] eqn:EC; [discriminate|].
  assert (Hv : In v vs).
  { assert (Hi : In v (list_intersection vs (term_vars_p term))) by (rewrite EC; left; reflexivity).
    apply in_list_intersection in Hi. tauto. }
  set (P1 := fun c => negb (nonempty (list_intersection (term_vars_p c) no_vars)) &&
                      (negb (qzero (get_coefficient c v)) &&
                       qlt 0 (qmul (qmul 1 (get_coefficient c v)) (get_coefficient term v)))) in H.
  (* what membership in goal_context / useful_context gives *)
  assert (Hmem : forall (k : nat) x,
            In x (map term_copy (filter (fun c => Nat.eqb (List.length (list_intersection (term_vars_p c) vs)) k)
                                        (filter P1 ctx))) ->
            wft' x /\ (forall rho, sat_list rho ctx -> sat rho x) /\ 0 < gcR x v * gcR term v /\
            (forall z, (forall c, In c ctx -> gcR c z = 0) -> gcR x z = 0)).
  { intros k x Hx. apply in_map_iff in Hx. destruct Hx as [c [<- Hc]].
    apply filter_In in Hc. destruct Hc as [Hc _]. apply filter_In in Hc. destruct Hc as [Hc HP].
    assert (Hwc : wft c) by (rewrite Forall_forall in Hctx; apply Hctx; exact Hc).
    split; [apply wft'_copy; exact Hwc|]. split; [|split].
    - intros rho Hs. apply sat_copy. unfold sat_list in Hs. rewrite Forall_forall in Hs. apply Hs. exact Hc.
    - unfold P1 in HP. apply andb_true_iff in HP. destruct HP as [_ HP]. apply andb_true_iff in HP.
      destruct HP as [_ HP]. apply qlt_true in HP. rewrite Q2R_0, !Q2R_qmul, Q2R_1 in HP.
      rewrite gcR_copy by exact Hwc. unfold gcR. lra.
    - intros z Hz. rewrite gcR_copy by exact Hwc. apply Hz. exact Hc. }
  set (goal := map term_copy (filter (fun c => Nat.eqb (List.length (list_intersection (term_vars_p c) vs)) 1) (filter P1 ctx))) in *.
  set (useful := map term_copy (filter (fun c => Nat.eqb (List.length (list_intersection (term_vars_p c) vs)) 2) (filter P1 ctx))) in *.
  assert (Hgoal : forall x, In x goal -> wft' x /\ (forall rho, sat_list rho ctx -> sat rho x) /\ 0 < gcR x v * gcR term v /\
            (forall z, (forall c, In c ctx -> gcR c z = 0) -> gcR x z = 0)) by (intros x Hx; apply (Hmem 1%nat); exact Hx).
  assert (Huse : forall x, In x useful -> wft' x /\ (forall rho, sat_list rho ctx -> sat rho x) /\ 0 < gcR x v * gcR term v /\
            (forall z, (forall c, In c ctx -> gcR c z = 0) -> gcR x z = 0)) by (intros x Hx; apply (Hmem 2%nat); exact Hx).
  clear Hmem. clearbody goal useful.
  match type of H with context [?f useful 1%nat] => set (loop := f) in H end.
  destruct goal as [|g gs].
  - (* recursive branch *)
    destruct useful as [|u0 us0]; [discriminate|].
    revert Huse H. generalize 1%nat. generalize (u0 :: us0). clear u0 us0.
    intros usl. induction usl as [|u usl IHl]; intros total Huse H; [discriminate|].
    unfold loop in H at 1. lazy beta iota fix in H. fold loop in H.
    assert (Huse' : forall x, In x usl -> wft' x /\ (forall rho, sat_list rho ctx -> sat rho x) /\ 0 < gcR x v * gcR term v /\
            (forall z, (forall c, In c ctx -> gcR c z = 0) -> gcR x z = 0)) by (intros x Hx; apply Huse; right; exact Hx).
    destruct (term_isolate_variable u v) as [iso|e] eqn:EI; [|discriminate].
    set (sign := if qlt 0 (get_coefficient term v) then 1%Q else (-(1))%Q) in *.
    destruct (tactic_4 fuel (term_multiply iso sign) (remove_first_term u ctx) vs true (no_vars ++ [v]))
      as [[[rt|] c]|e] eqn:ER.
    + inversion H; subst t' cnt. clear H IHl Huse'.
      destruct (Huse u (or_introl eq_refl)) as [Hwu [Hsu [Hpos Hzu]]].
      destruct (isolate_spec u v iso Hwu EI) as [Hwi [Ha [Hevi Hgi]]].
      assert (Hctx' : Forall wft (remove_first_term u ctx)).
      { rewrite Forall_forall in *. intros x Hx. apply Hctx. eapply in_remove_first_gen. exact Hx. }
      destruct (IHf _ _ _ _ _ _ (wft_multiply iso sign Hwi) Hctx' ER) as [Hwr [Hevr Hzr]].
      assert (Hwm : wft (term_multiply rt sign)) by (apply wft_multiply; exact Hwr).
      assert (Hsg : (Q2R sign = 1 /\ 0 < gcR term v) \/ (Q2R sign = -1 /\ gcR term v <= 0)).
      { unfold sign. destruct (qlt 0 (get_coefficient term v)) eqn:Q.
        - left. apply qlt_true in Q. rewrite Q2R_0 in Q. split; [apply Q2R_1|exact Q].
        - right. apply qlt_false in Q. rewrite Q2R_0 in Q. split; [apply Q2R_m1|exact Q]. }
      split; [apply wft_substitute_variable; assumption|]. split.
      * intros rho Hs. rewrite ev_subst by assumption. rewrite ev_multiply.
        assert (Hs' : sat_list rho (remove_first_term u ctx)).
        { unfold sat_list in *. rewrite Forall_forall in *. intros x Hx. apply Hs. eapply in_remove_first_gen. exact Hx. }
        specialize (Hevr rho Hs'). rewrite ev_multiply, Hevi in Hevr.
        pose proof (Hsu rho Hs) as Hu. apply sat_ev in Hu.
        set (X := ev rho u / gcR u v) in *.
        assert (HX : X * gcR u v = ev rho u) by (unfold X; field; exact Ha).
        destruct Hsg as [[Es Hq0]|[Es Hq0]]; rewrite Es in *.
        -- assert (0 < gcR u v) by nra. assert (X <= 0) by nra. nra.
        -- assert (gcR u v < 0) by nra. assert (0 <= X) by nra. nra.
      * intros z Hz Hz0 Hzc. rewrite gcR_subst by assumption.
        assert (Hne : String.eqb z v = false) by (apply String.eqb_neq; intros ->; contradiction).
        rewrite Hne, Hz0, gcR_multiply by exact Hwr.
        rewrite (Hzr z Hz); [lra| |].
        -- rewrite gcR_multiply by exact Hwi. rewrite Hgi, Hne, (Hzu z Hzc). field. exact Ha.
        -- intros c0 Hc0. apply Hzc. eapply in_remove_first_gen. exact Hc0.
    + apply (IHl _ Huse' H).
    + destruct (is_value_error e); [apply (IHl _ Huse' H)|discriminate].
  - (* direct branch *)
    clear Huse. apply bind_inl in H. destruct H as [iso [EI H]]. inversion H; subst t' cnt. clear H.
    destruct (Hgoal g (or_introl eq_refl)) as [Hwg [Hsg [Hpos Hzg]]].
    destruct (isolate_spec g v iso Hwg EI) as [Hwi [Ha [Hevi Hgi]]].
    split; [apply wft_substitute_variable; assumption|]. split.
    + intros rho Hs. rewrite ev_subst by assumption. rewrite Hevi.
      pose proof (Hsg rho Hs) as Hg. apply sat_ev in Hg.
      set (X := ev rho g / gcR g v) in *.
      assert (HX : X * gcR g v = ev rho g) by (unfold X; field; exact Ha).
      assert (Hc : 0 <= - (gcR term v * X)).
      { destruct (Rlt_dec 0 (gcR g v)) as [Hp|Hn].
        - assert (0 < gcR term v) by nra. assert (X <= 0) by nra. nra.
        - assert (gcR g v < 0) by lra. assert (gcR term v < 0) by nra. assert (0 <= X) by nra. nra. }
      lra.
    + intros z Hz Hz0 Hzc. rewrite gcR_subst by assumption.
      assert (Hne : String.eqb z v = false) by (apply String.eqb_neq; intros ->; contradiction).
      rewrite Hne, Hz0, Hgi, Hne, (Hzg z Hzc). field. exact Ha.
Qed.

Theorem tactic_4_ok : tactic_ok 4.
Proof.
  intros O HO term ctx vs refine t' cnt Hs H _. destruct (side_good _ _ _ Hs) as [Ht Hc].
  destruct Hs as [[_ Hu] [Hgc [_ Hus]]].
  change (tactic_4 (S (List.length ctx)) term ctx vs refine [] = inl (Some t', cnt)) in H.
  destruct refine; [|cbn [tactic_4 negb] in H; discriminate].
  destruct (tactic_4_strong _ _ _ _ _ _ _ Ht Hc H) as [Hw [Hev Hz]].
  split; [split; [exact Hw|]|].
  - apply (Hz us Hus Hu). intros c Hin. rewrite Forall_forall in Hgc. apply Hgc. exact Hin.
  - intros rho Hsat Hs'. apply sat_ev. apply sat_ev in Hs'. specialize (Hev rho Hsat). lra.
Qed.

(* ------------------------------------------------------------------ *)
(** * A nonsingular system is solved for every unknown *)
Lemma solve_total rows fvars sols :
  Forall wft rows -> solve_for_variables rows fvars = inl sols ->
  (forall r1 r2, (forall w, ~ In w fvars -> r1 w = r2 w) -> dvs 1 r1 r2 rows ->
                 forall v, In v fvars -> r1 v = r2 v) ->
  forall v, In v fvars -> In v (tl_vars rows) -> In v (map fst sols).
Proof.
  intros Hw H Hns. apply solve_unfold in H. cbv zeta in H. destruct H as [L [pivots [rest [G H]]]].
  set (V := list_intersection (tl_vars rows) fvars) in *.
  assert (HV : NoDup V) by (apply NoDup_list_intersection; apply NoDup_tl_vars; exact Hw).
  destruct (gauss_sols_spec V rows pivots rest Hw HV G) as [S1 [S2 [S3 [S4 [_ [S6 [S7 [S8 [S9 S10]]]]]]]]].
  set (sols0 := map sol_of pivots) in *.
  assert (C : forall v, In v V -> In v (map fst sols0)).
  { intros v Hv. destruct (in_dec string_dec v (map fst sols0)) as [Hi|Hn]; [exact Hi|exfalso].
    set (Z := fun _ : var => 0). set (r0 := upd Z v 1).
    set (r1 := upds Z Z sols0). set (r2 := upds r0 r0 sols0).
    assert (Hind : forall base x s, In (x, s) sols0 -> ev (upds base base sols0) s = ev base s).
    { intros base x s Hi. apply ev_upds_indep; [eapply S1; exact Hi|]. intros w Hw'. eapply S4; eassumption. }
    assert (Hd : dvs 1 r1 r2 rows).
    { apply (proj2 (S6 1 r1 r2)). split.
      - intros x s Hi. unfold dv, r1, r2. rewrite !(Hind _ x s Hi), !(upds_in _ _ sols0 x s S2 Hi). lra.
      - intros r Hr. unfold dv, r1, r2. rewrite Forall_forall in S7.
        rewrite !ev_upds_indep by (first [apply S7; exact Hr|intros w Hw'; apply S8; assumption]).
        unfold r0. rewrite (ev_upd Z r v 1 (S7 r Hr)), (S9 v Hv Hn r Hr). lra. }
    assert (Hvf : In v fvars) by (apply in_list_intersection in Hv; tauto).
    assert (Hag : forall w, ~ In w fvars -> r1 w = r2 w).
    { intros w Hw'. assert (Hnw : ~ In w (map fst sols0)).
      { intros Hi. apply Hw'. apply S3 in Hi. apply in_list_intersection in Hi. tauto. }
      unfold r1, r2. rewrite !upds_notin by exact Hnw. unfold r0. rewrite upd_other; [reflexivity|].
      intros ->. contradiction. }
    pose proof (Hns r1 r2 Hag Hd v Hvf) as E. unfold r1, r2 in E. rewrite !upds_notin in E by exact Hn.
    unfold r0 in E. rewrite upd_same in E. unfold Z in E. lra. }
  assert (Hlen : (List.length V <= List.length sols0)%nat).
  { rewrite <- (map_length fst sols0). apply NoDup_incl_length; [exact HV|exact C]. }
  assert (Hrest : rest = []) by (destruct rest; [reflexivity|simpl in S10; lia]).
  destruct H as [[_ ->]|[Zf _]]; [|rewrite Hrest in Zf; discriminate].
  intros v Hv1 Hv2. apply C. apply in_list_intersection. tauto.
Qed.

Lemma kk_solved term fvars refine rows sols :
  List.length rows = List.length fvars ->
  (forall i, (i < List.length fvars)%nat -> row_good term fvars (tcQ refine) rows i) ->
  Forall wft rows -> NoDup fvars -> solve_for_variables rows fvars = inl sols ->
  forall v, In v fvars -> In v (map fst sols).
Proof.
  intros L Hgood Hw Hnd Hs v Hv.
  apply (solve_total rows fvars sols Hw Hs); [|exact Hv|].
  - intros r1 r2 Hag Hd. apply (kk_nonsing term fvars (tcQ refine) (tcQ_sq refine) rows L Hgood Hw Hnd r1 r2 Hag).
    intros r Hr. specialize (Hd r Hr). unfold dv in Hd. lra.
  - destruct (In_nth fvars v ""%string Hv) as [j [Hj Ej]].
    destruct (Hgood j Hj) as [_ [Hd _]]. unfold aR in Hd. rewrite Ej in Hd.
    apply in_tl_vars. exists (nth j rows dummy). split; [apply nth_In; lia|].
    destruct (in_dec string_dec v (term_vars_p (nth j rows dummy))) as [Hi|Hn]; [exact Hi|].
    exfalso. apply Hd. apply gcR_notin. exact Hn.
Qed.

(* ------------------------------------------------------------------ *)
(** * M4: tactic 3 (change of variable "_" := sum of the forbidden part) *)
Lemma ev_remove rho t v : wft t -> ev rho (term_remove_variable t v) = ev rho t - gcR t v * rho v.
Proof. intros Ht. unfold ev, gcR. rewrite (lin_remove_variable rho t v Ht), const_remove_variable. lra. Qed.
Lemma gcR_remove t v z : wft t -> z <> v -> gcR (term_remove_variable t v) z = gcR t z.
Proof.
  intros Ht Hz. rewrite (gcR_slope _ z (wft_remove_variable t v Ht)), (gcR_slope t z Ht), !ev_remove by exact Ht.
  rewrite upd_other by (intros E; apply Hz; symmetry; exact E). lra.
Qed.
Lemma gcR_fold_remove vs z : forall t, wft t -> ~ In z vs -> gcR (fold_left term_remove_variable vs t) z = gcR t z.
Proof.
  induction vs as [|v vs IH]; intros t Ht Hz; simpl; [reflexivity|].
  rewrite IH; [|apply wft_remove_variable; exact Ht|intros H; apply Hz; right; exact H].
  apply gcR_remove; [exact Ht|]. intros ->. apply Hz. left. reflexivity.
Qed.
Lemma filter_neq_id (v0 : var) l : ~ In v0 l -> filter (fun v => negb (String.eqb v v0)) l = l.
Proof.
  induction l as [|x l IH]; intros H; simpl; [reflexivity|].
  destruct (String.eqb x v0) eqn:E.
  - apply String.eqb_eq in E. subst. exfalso. apply H. left. reflexivity.
  - simpl. f_equal. apply IH. intros Hi. apply H. right. exact Hi.
Qed.

Theorem tactic_3_ok : tactic_ok 3.
Proof.
  intros O HO term ctx vs refine t' cnt Hs H _. destruct (side_good _ _ _ Hs) as [Ht Hc].
  destruct Hs as [[[_ Hnz] Hu] [Hgc [Hvs Hus]]]. simpl run_tactic in H. unfold tactic_3 in H. cbv zeta in H.
  destruct (list_intersection vs (term_vars_p term)) as [|v0 crest] eqn:EC; [discriminate|].
  set (conflict := v0 :: crest) in *.
  assert (Hconf : forall x, In x conflict <-> In x vs /\ In x (term_vars_p term)).
  { intros x. rewrite <- EC. apply in_list_intersection. }
  assert (Hcnd : NoDup conflict) by (rewrite <- EC; apply NoDup_list_intersection; exact Hvs).
  assert (Hv0 : In v0 vs /\ In v0 (term_vars_p term)) by (apply Hconf; left; reflexivity).
  assert (Husc : ~ In us conflict) by (intros Hi; apply Hconf in Hi; tauto).
  assert (Hne0 : us <> v0) by (intros E; apply Hus; rewrite E; tauto).
  assert (Hv0c : ~ In v0 crest) by (inversion Hcnd; assumption).
  assert (Hc0 : gcR term v0 <> 0).
  { unfold gcR. rewrite get_coefficient_coef. apply Q2R_neq0. apply coef_nonzero; [exact Hnz|apply Hv0]. }
  assert (Hc0Q : ~ (get_coefficient term v0 == 0)%Q) by (apply Q2R_neq0; exact Hc0).
  set (S := fun rho : val => sumf (fun v => gcR term v * rho v) conflict).
  (* the term with its forbidden part replaced by "_"%string *)
  set (nt0 := fold_left term_remove_variable conflict (term_copy term)) in *.
  destruct (fold_remove_spec conflict (term_copy term) (wft_copy term Ht)) as [N0w [N0c N0l]]. fold nt0 in N0w, N0c, N0l.
  set (new_term := mkT (dict_set (tvars nt0) "_"%string 1) (tconst nt0)) in *.
  assert (NTw : wft new_term) by (unfold wft, new_term; cbn [tvars]; apply NoDup_keys_dict_set; exact N0w).
  assert (N0u : gcR nt0 us = 0).
  { unfold nt0. rewrite gcR_fold_remove by (first [apply wft_copy; exact Ht|exact Husc]). rewrite gcR_copy by exact Ht. exact Hu. }
  assert (NTev : forall sg, ev sg new_term = ev sg term - S sg + sg us).
  { intros sg. unfold ev at 1. unfold new_term. cbn [tvars tconst]. rewrite lin_dict_set.
    change (Q2R (coef (tvars nt0) "_"%string)) with (Q2R (coef (tvars nt0) us)).
    rewrite <- get_coefficient_coef. fold (gcR nt0 us). rewrite N0u, Q2R_1, N0l, N0c.
    unfold term_copy. rewrite lin_mk_term, mk_term_const.
    pose proof (ev_diff sg (zero_on conflict sg) term conflict Ht Hcnd) as Hd.
    rewrite (sumf_ext _ (fun v => gcR term v * sg v)) in Hd.
    - unfold ev in Hd. fold (S sg) in Hd. change ("_"%string) with us.
      assert (Hd' : lin sg (tvars term) - Q2R (tconst term) - (lin (zero_on conflict sg) (tvars term) - Q2R (tconst term)) = S sg).
      { apply Hd. intros w Hw. unfold zero_on. destruct (in_dec string_dec w conflict); [contradiction|reflexivity]. }
      unfold ev. lra.
    - intros v Hv. unfold zero_on. destruct (in_dec string_dec v conflict); [lra|contradiction]. }
  (* the substitution term  v0 = ("_"%string - sum of the others) / c0 *)
  set (st := mk_term (("_"%string, qdiv 1 (get_coefficient term v0))
                      :: map (fun v => (v, qdiv (qneg (get_coefficient term v)) (get_coefficient term v0)))
                             (filter (fun v => negb (String.eqb v v0)) conflict)) 0%Q) in *.
  assert (Efil : filter (fun v => negb (String.eqb v v0)) conflict = crest).
  { unfold conflict. simpl. rewrite String.eqb_refl. simpl. apply filter_neq_id. exact Hv0c. }
  assert (STw : wft st).
  { unfold st. apply wft_mk_term. rewrite Efil. rewrite keys_cons.
    rewrite (keys_map_var (fun v => qdiv (qneg (get_coefficient term v)) (get_coefficient term v0))).
    constructor; [|inversion Hcnd; assumption]. intros Hi. apply Husc. right. exact Hi. }
  assert (STev : forall sg, ev sg st = (sg us - sumf (fun v => gcR term v * sg v) crest) / gcR term v0).
  { intros sg. unfold ev, st. rewrite lin_mk_term, mk_term_const, Efil, lin_cons, Q2R_0.
    rewrite (lin_map_var sg (fun v => qdiv (qneg (get_coefficient term v)) (get_coefficient term v0))).
    rewrite (sumf_ext _ (fun v => (- / gcR term v0) * (gcR term v * sg v))).
    - rewrite sumf_scale, (Q2R_qdiv _ _ Hc0Q), Q2R_1. change ("_"%string) with us. unfold gcR. field. exact Hc0.
    - intros v _. rewrite (Q2R_qdiv _ _ Hc0Q), Q2R_qneg. unfold gcR. field. exact Hc0. }
  set (nctx := map (fun el => term_substitute_variable (term_copy el) v0 st) ctx) in *.
  set (nel := list_diff (list_union vs ["_"%string]) [v0]) in *.
  assert (NCw : Forall wft nctx).
  { apply Forall_forall. intros x Hx. apply in_map_iff in Hx. destruct Hx as [el [<- Hel]].
    apply wft_substitute_variable; [apply wft_copy; rewrite Forall_forall in Hc; apply Hc; exact Hel|exact STw]. }
  assert (NEnd : NoDup nel).
  { apply NoDup_list_diff. apply NoDup_list_union; [exact Hvs|constructor; [intros []|constructor]]. }
  destruct (tactic_1_spec O new_term nctx nel refine t' cnt NTw NCw NEnd H)
    as [rows [sols [Rin [RL [Rgood [Rsol [Et' [Tw Tdir]]]]]]]].
  set (fv' := list_intersection nel (term_vars_p new_term)) in *.
  assert (Hrw : Forall wft rows).
  { rewrite Forall_forall in *. intros x Hx. apply NCw. apply Rin. exact Hx. }
  assert (Hfv'nd : NoDup fv') by (apply NoDup_list_intersection; exact NEnd).
  assert (Husfv : In us fv').
  { apply in_list_intersection. split.
    - apply in_list_diff. split; [apply in_list_union; right; left; reflexivity|]. intros [E|[]]. apply Hne0. symmetry. exact E.
    - unfold term_vars_p, new_term. cbn [tvars]. apply in_keys_dict_set. right. reflexivity. }
  pose proof (kk_solved new_term fv' refine rows sols RL Rgood Hrw Hfv'nd Rsol us Husfv) as Hsolved.
  destruct (solve_spec rows fv' sols Hrw Rsol) as [Sw [_ [_ [Sind _]]]].
  assert (Tu : gcR t' us = 0).
  { rewrite Et'. apply gcR_subst_all_solved; [apply wft_copy; exact NTw|exact Sw|exact Hsolved|].
    intros v s Hi. eapply Sind; eassumption. }
  split; [split; assumption|].
  (* the valuation extended with "_"%string *)
  assert (Key : forall rho, let rho' := upd rho us (S rho) in
            ev rho' new_term = ev rho term /\ ev rho' t' = ev rho t' /\
            (sat_list rho ctx -> sat_list rho' nctx)).
  { intros rho rho'.
    assert (Hst : ev rho' st = rho' v0).
    { rewrite STev. unfold rho'. rewrite upd_same, (upd_other rho us _ v0) by (intros E; apply Hne0; symmetry; exact E).
      rewrite (sumf_ext (fun v => gcR term v * upd rho us (S rho) v) (fun v => gcR term v * rho v)).
      - unfold S, conflict. rewrite sumf_cons. field. exact Hc0.
      - intros v Hv. rewrite upd_other; [reflexivity|]. intros ->. apply Husc. right. exact Hv. }
    split; [|split].
    - rewrite NTev. unfold rho' at 3. rewrite upd_same. unfold rho'. rewrite (ev_upd rho term us _ Ht), Hu.
      assert (ES : S (upd rho us (S rho)) = S rho).
      { unfold S at 1 3. apply sumf_ext. intros v Hv. rewrite upd_other; [reflexivity|]. intros ->. contradiction. }
      rewrite ES. lra.
    - unfold rho'. rewrite (ev_upd rho t' us _ Tw), Tu. lra.
    - intros Hsat. unfold sat_list, nctx. apply Forall_forall. intros x Hx. apply in_map_iff in Hx.
      destruct Hx as [el [<- Hel]].
      assert (Hgel : good el) by (rewrite Forall_forall in Hgc; apply Hgc; exact Hel).
      apply sat_ev. rewrite ev_subst by (first [apply wft_copy; apply Hgel|exact STw]).
      rewrite Hst, ev_copy. unfold rho'. rewrite (ev_upd rho el us _ (proj1 Hgel)), (proj2 Hgel).
      unfold sat_list in Hsat. rewrite Forall_forall in Hsat. specialize (Hsat el Hel). apply sat_ev in Hsat. lra. }
  destruct refine; intros rho Hsat Hs'; destruct (Key rho) as [K1 [K2 K3]]; cbv zeta in *; apply sat_ev; apply sat_ev in Hs'.
  - rewrite <- K1. apply sat_ev. apply (Tdir _ (K3 Hsat)). apply sat_ev. rewrite K2. exact Hs'.
  - rewrite <- K2. apply sat_ev. apply (Tdir _ (K3 Hsat)). apply sat_ev. rewrite K1. exact Hs'.
Qed.

(* ------------------------------------------------------------------ *)
(** * Every tactic number is acceptable *)
Theorem all_tactics_ok : forall num, tactic_ok num.
Proof.
  intros num. destruct num as [|[|[|[|[|[|[|k]]]]]]].
  - intros O HO term ctx vs refine t' cnt _ H. discriminate.
  - exact tactic_1_ok.
  - exact tactic_2_ok.
  - exact tactic_3_ok.
  - exact tactic_4_ok.
  - exact tactic_5_ok.
  - exact tactic_6_ok.
  - intros O HO term ctx vs refine t' cnt _ H. discriminate.
Qed.

(** * C04 with plain hypotheses *)
(* the inputs the theorems are about: Python dicts (distinct keys), terms built by __init__ (no stored
   zero coefficient), distinct variables to eliminate, and the scratch name "_" of tactic 3 unused *)
Definition no_us (t : pterm) : Prop := ~ In us (term_vars_p t).
Definition wf_input (self ctx : list pterm) (vs : list var) : Prop :=
  Forall wft' self /\ Forall wft ctx /\ NoDup vs /\ ~ In us vs /\ Forall no_us self /\ Forall no_us ctx.

Lemma wf_input_good self ctx vs : wf_input self ctx vs -> Forall good' self /\ Forall good ctx /\ NoDup vs /\ ~ In us vs.
Proof.
  intros [H1 [H2 [H3 [H4 [H5 H6]]]]]. split; [|split; [|split; assumption]].
  - rewrite Forall_forall in *. intros x Hx. split; [apply H1; exact Hx|apply gcR_notin; apply H5; exact Hx].
  - rewrite Forall_forall in *. intros x Hx. split; [apply H2; exact Hx|apply gcR_notin; apply H6; exact Hx].
Qed.

Theorem C04_refine_all O : lp_spec 0 O -> forall order self ctx vs sp r st,
  wf_input self ctx vs ->
  elim_vars_by_refining O self ctx vs sp order = inl (r, st) ->
  forall rho, sat_list rho ctx -> sat_list rho r -> sat_list rho self.
Proof.
  intros HO order self ctx vs sp r st Hwf H. destruct (wf_input_good _ _ _ Hwf) as [G1 [G2 [G3 G4]]].
  apply (C04_refine O order HO (fun num _ => all_tactics_ok num) ctx vs G2 G3 G4 self sp r st G1 H).
Qed.

Theorem C04_relax_all O : lp_spec 0 O -> forall order self ctx vs sp r st,
  wf_input self ctx vs ->
  elim_vars_by_relaxing O self ctx vs sp order = inl (r, st) ->
  (forall rho, sat_list rho ctx -> sat_list rho self -> sat_list rho r) /\
  (forall t v, In t r -> In v vs -> ~ In v (term_vars_p t)).
Proof.
  intros HO order self ctx vs sp r st Hwf H. destruct (wf_input_good _ _ _ Hwf) as [G1 [G2 [G3 G4]]].
  apply (C04_relax O order HO (fun num _ => all_tactics_ok num) ctx vs G2 G3 G4 self sp r st G1 H).
Qed.

Theorem transform_refine_sound_all O : lp_spec 0 O -> forall order self ctx vs sp r st,
  wf_input self ctx vs ->
  transform O self ctx vs true sp order = inl (r, st) ->
  forall rho, sat_list rho ctx -> sat_list rho r -> sat_list rho self.
Proof.
  intros HO order self ctx vs sp r st Hwf H. destruct (wf_input_good _ _ _ Hwf) as [G1 [G2 [G3 G4]]].
  apply (transform_refine_sound O order HO (fun num _ => all_tactics_ok num) ctx vs G2 G3 G4 self sp r st G1 H).
Qed.
Theorem transform_relax_sound_all O : lp_spec 0 O -> forall order self ctx vs sp r st,
  wf_input self ctx vs ->
  transform O self ctx vs false sp order = inl (r, st) ->
  forall rho, sat_list rho ctx -> sat_list rho self -> sat_list rho r.
Proof.
  intros HO order self ctx vs sp r st Hwf H. destruct (wf_input_good _ _ _ Hwf) as [G1 [G2 [G3 G4]]].
  apply (transform_relax_sound O order HO (fun num _ => all_tactics_ok num) ctx vs G2 G3 G4 self sp r st G1 H).
Qed.

(* ------------------------------------------------------------------ *)
(** * Non-vacuity: the definitions run, every tactic fires, and the theorems apply *)
Section Examples.
Local Open Scope string_scope.
Local Open Scope Q_scope.
Definition ex_t1 : pterm := mkT [("x", 1); ("y", 1)] 6.       (* x + y <= 6 *)
Definition ex_t2 : pterm := mkT [("x", 1); ("y", -(1))] 6.    (* x - y <= 6 *)
Definition ex_c1 : pterm := mkT [("y", 1)] 5.                 (* y <= 5 *)
Definition ex_c2 : pterm := mkT [("y", 1); ("z", -(1))] 0.    (* y - z <= 0 *)
Definition ex_c3 : pterm := mkT [("z", 1)] 5.                 (* z <= 5 *)
Definition ex_x1 : pterm := mkT [("x", 1)] 1.                 (* x <= 1 *)
Definition ex_x11 : pterm := mkT [("x", 1)] 11.               (* x <= 11 *)
Definition noO : oracle := fun _ => LpMiss.
Definition ex_tbl4 : list (lp_problem * lp_answer) :=
  [(mkLP ["y"] [-(1)] [([1], 5)], LpOpt (-(5)) [0])].         (* min -y s.t. y <= 5 : -5, slack 0 *)

(* the docstring example of elim_vars_by_refining, by each tactic *)
Example ex_refine_tactic1 : elim_vars_by_refining noO [ex_t1] [ex_c1] ["y"] false [1%nat] = inl ([ex_x1], [(1%Z, 1%Z)]).
Proof. vm_compute. reflexivity. Qed.
Example ex_refine_tactic2 :
  elim_vars_by_refining (table_oracle 0 ex_tbl4) [ex_t1] [ex_c1] ["y"] false [2%nat] = inl ([ex_x1], [(2%Z, 1%Z)]).
Proof. vm_compute. reflexivity. Qed.
Example ex_refine_tactic3 : elim_vars_by_refining noO [ex_t1] [ex_c1] ["y"] false [3%nat] = inl ([ex_x1], [(3%Z, 1%Z)]).
Proof. vm_compute. reflexivity. Qed.
Example ex_refine_tactic4 : elim_vars_by_refining noO [ex_t1] [ex_c1] ["y"] false [4%nat] = inl ([ex_x1], [(4%Z, 1%Z)]).
Proof. vm_compute. reflexivity. Qed.
(* tactic 4 through its recursive branch: y <= z <= 5 *)
Example ex_refine_tactic4_rec :
  elim_vars_by_refining noO [ex_t1] [ex_c2; ex_c3] ["y"; "z"] false [4%nat] = inl ([ex_x1], [(4%Z, 2%Z)]).
Proof. vm_compute. reflexivity. Qed.
Example ex_refine_tactic5 :
  elim_vars_by_refining (table_oracle 0 ex_tbl4) [ex_t1] [ex_c1] ["y"] false [5%nat] = inl ([ex_x1], [(5%Z, 1%Z)]).
Proof. vm_compute. reflexivity. Qed.
(* the docstring example of elim_vars_by_relaxing *)
Example ex_relax_tactic1 : elim_vars_by_relaxing noO [ex_t2] [ex_c1] ["y"] false [1%nat] = inl ([ex_x11], [(1%Z, 1%Z)]).
Proof. vm_compute. reflexivity. Qed.
Example ex_relax_tactic3 : elim_vars_by_relaxing noO [ex_t2] [ex_c1] ["y"] false [3%nat] = inl ([ex_x11], [(3%Z, 1%Z)]).
Proof. vm_compute. reflexivity. Qed.

Lemma noO_spec : lp_spec 0 noO.
Proof. intros p. exact I. Qed.
Lemma ex_wf : wf_input [ex_t1] [ex_c1] ["y"].
Proof.
  unfold wf_input, wft', wft, no_us, us, ex_t1, ex_c1, term_vars_p. cbn [tvars keys map fst snd].
  repeat split; repeat constructor; cbn; try (intros H; repeat destruct H as [H|H]; try discriminate; try contradiction);
    try (intros H; discriminate).
Qed.
(* the theorem instantiated: y <= 5 and x <= 1 imply x + y <= 6 *)
Example ex_refine_meaning : forall rho, sat rho ex_c1 -> sat rho ex_x1 -> sat rho ex_t1.
Proof.
  intros rho Hc Hx.
  pose proof (C04_refine_all noO noO_spec [1%nat] [ex_t1] [ex_c1] ["y"] false [ex_x1] _ ex_wf ex_refine_tactic1 rho) as H.
  assert (Hs : sat_list rho [ex_t1]) by (apply H; (constructor; [assumption|constructor])).
  inversion Hs. assumption.
Qed.
End Examples.

(* ------------------------------------------------------------------ *)
(** * Which failures are possible (C04_errors) *)
Definition nototal (O : oracle) : Prop := lp_total O -> False.
Lemma nototal_miss O p : O p = LpMiss -> nototal O.
Proof. intros E HT. specialize (HT p). rewrite E in HT. exact HT. Qed.
Lemma nototal_other O p st : O p = LpOther st -> nototal O.
Proof. intros E HT. specialize (HT p). rewrite E in HT. exact HT. Qed.

Lemma reduce_loop_err O vs : forall rest kept ctx e,
  reduce_loop O vs kept rest ctx = inr e -> e = ValueErr \/ (e = OracleMiss /\ nototal O).
Proof.
  induction rest as [|[a b] rest IH]; intros kept ctx e H; simpl in H; [discriminate|].
  match type of H with context [O ?p] => destruct (O p) as [f s| | |st|] eqn:EO end; eauto.
  - destruct (qle (qneg f) b); eauto.
  - inversion H. left. reflexivity.
  - inversion H. right. split; [reflexivity|eapply nototal_miss; exact EO].
Qed.
Lemma simplify_err2 O ts c e :
  poly_simplify O ts (Some c) = inr e -> e = ValueErr \/ (e = OracleMiss /\ nototal O).
Proof.
  rewrite poly_simplify_unfold. destruct (simp_vars ts (Some c)) as [|v l] eqn:E.
  - cbn [opt_list]. destruct (existsb _ c); [intros H; inversion H; left; reflexivity|].
    destruct (new_self ts (Some c)) as [|t [|t' ns]]; intros H; inversion H. left. reflexivity.
  - intros H. apply bind_inr in H. destruct H as [H|[red [_ H]]]; [|discriminate].
    destruct (reduce_polytope_cases O (v :: l) (map (term_to_row (v :: l)) (new_self ts (Some c)))
                (map (term_to_row (v :: l)) (opt_list (Some c)))) as [Hc|[r [_ [_ Hc]]]]; rewrite Hc in H; [|discriminate].
    apply reduce_loop_err in H. tauto.
Qed.
(* (the third alternative was possible before repo commit 12672f5; the statement is kept for the lemmas below) *)
Lemma simplify_err O ts c e :
  poly_simplify O ts (Some c) = inr e ->
  e = ValueErr \/ (e = OracleMiss /\ nototal O) \/
  (e = Escape "AssertionError" /\ c <> [] /\ forall t, In t c -> term_vars_p t = []).
Proof. intros H. apply simplify_err2 in H. tauto. Qed.

Lemma signq_total t v : In v (term_vars_p t) -> exists s, signq t v = inl s.
Proof.
  intros H. unfold signq, term_get_sign, term_get_polarity. destruct (assoc_in_keys v (tvars t) H) as [q ->].
  eexists. reflexivity.
Qed.
Lemma signq_total_nz t v : qzero (get_coefficient t v) = false -> exists s, signq t v = inl s.
Proof.
  intros H. apply signq_total. destruct (in_dec string_dec v (term_vars_p t)) as [i|n]; [exact i|].
  rewrite (get_coefficient_notin t v n) in H. discriminate.
Qed.
Lemma kk_sign_invalid_total term ctx tc l :
  (forall v, In v l -> In v (term_vars_p term)) -> exists b, kk_sign_invalid term ctx tc l = inl b.
Proof.
  induction l as [|v l' IH]; intros H; simpl; [eexists; reflexivity|].
  assert (IH' : exists b, kk_sign_invalid term ctx tc l' = inl b) by (apply IH; intros x Hx; apply H; right; exact Hx).
  destruct (negb (qzero (get_coefficient ctx v))) eqn:Z; [|exact IH'].
  apply negb_true_iff in Z. destruct (signq_total_nz ctx v Z) as [sc ->].
  destruct (signq_total term v (H v (or_introl eq_refl))) as [st ->]. simpl.
  destruct (negb (Qeq_bool (qmul tc sc) st)); [eexists; reflexivity|exact IH'].
Qed.
Lemma kk_residuals_total term ctx i i_var partial : forall l j,
  (forall v, In v l -> In v (term_vars_p term)) -> exists r, kk_residuals term ctx i i_var l j partial = inl r.
Proof.
  induction l as [|v l IH]; intros j H; simpl; [eexists; reflexivity|].
  destruct (IH (S j)) as [r Hr]; [intros x Hx; apply H; right; exact Hx|].
  destruct (signq_total term v (H v (or_introl eq_refl))) as [st Hst].
  destruct (Nat.eqb j i); simpl; rewrite ?Hst; simpl;
    match goal with |- context [qle ?a ?b] => destruct (qle a b) end; try (eexists; reflexivity); rewrite Hr; simpl; eexists; reflexivity.
Qed.
Lemma kk_find_row_total term other fvars tc i i_var partial : forall cands,
  (forall v, In v fvars -> In v (term_vars_p term)) ->
  exists r, kk_find_row term cands other fvars tc i i_var partial = inl r.
Proof.
  intros cands H. induction cands as [|c cands IH]; simpl; [eexists; reflexivity|].
  destruct (term_eqb_p c term); [exact IH|].
  destruct (existsb _ other); [exact IH|].
  destruct (kk_sign_invalid_total term c tc fvars H) as [b ->]. simpl.
  destruct (qzero (get_coefficient c i_var) || b); [exact IH|].
  destruct (kk_residuals_total term c i i_var partial fvars 0 H) as [[r|] ->]; simpl; [eexists; reflexivity|exact IH].
Qed.
Lemma kk_rows_err term ctx other fvars tc :
  (forall v, In v fvars -> In v (term_vars_p term)) ->
  forall todo i rows partial co e, kk_rows term ctx other fvars tc todo i rows partial co = inr e -> e = ValueErr.
Proof.
  intros H. induction todo as [|v todo IH]; intros i rows partial co e He; simpl in He; [discriminate|].
  destruct (kk_find_row_total term other fvars tc i v partial (list_diff ctx rows) H) as [[[c r]|] Hr];
    rewrite Hr in He; simpl in He.
  - eapply IH. exact He.
  - inversion He. reflexivity.
Qed.
Lemma get_kk_err term ctx vs refine e : get_kaykobad_context term ctx vs refine = inr e -> e = ValueErr.
Proof.
  unfold get_kaykobad_context. cbv zeta. intros H. apply bind_inr in H. destruct H as [H|[[rows o] [_ H]]].
  - eapply kk_rows_err; [|exact H]. intros v Hv. apply in_list_intersection in Hv. tauto.
  - destruct (negb o && _); inversion H. reflexivity.
Qed.
Lemma solve_err rows vs e : solve_for_variables rows vs = inr e -> e = ValueErr.
Proof.
  unfold solve_for_variables. cbv zeta. destruct (negb _); [intros H; inversion H; reflexivity|].
  destruct (gauss _ [] rows) as [p r]. destruct (forallb row_is_zero r); discriminate.
Qed.
Lemma as_value_error_inr {A} (m : M A) e (P : err -> Prop) :
  (forall e0, m = inr e0 -> P e0) -> P ValueErr -> as_value_error m = inr e -> P e.
Proof.
  intros H HV. destruct m as [a|e0]; simpl; [discriminate|].
  destruct (is_value_error e0) eqn:V; intros E; inversion E; subst; [exact HV|apply H; reflexivity].
Qed.
Lemma tactic_1_err O term ctx vs refine e : tactic_1 O term ctx vs refine = inr e -> e = ValueErr.
Proof.
  unfold tactic_1, context_reduction. intros H. apply bind_inr in H. destruct H as [H|[r [_ H]]]; [|discriminate].
  apply bind_inr in H. destruct H as [H|[[rows fv] [_ H]]].
  - revert H. apply (as_value_error_inr _ e (fun e0 => e0 = ValueErr)); [|reflexivity]. intros e0 H0. eapply get_kk_err. exact H0.
  - apply bind_inr in H. destruct H as [H|[s [_ H]]]; [eapply solve_err; exact H|discriminate].
Qed.
Lemma get_tlp_err O term ctx vs refine e :
  get_tlp_context O term ctx vs refine = inr e -> e = ValueErr \/ (e = OracleMiss /\ nototal O).
Proof.
  unfold get_tlp_context. cbv zeta. destruct (polytope_vars ctx []) as [|v0 vl]; [intros H; inversion H; tauto|].
  match goal with |- context [O ?p] => destruct (O p) as [f s| | |st|] eqn:EO end;
    try (intros H; inversion H; tauto).
  - destruct (Nat.ltb _ _); [intros H; inversion H; tauto|].
    destruct (Nat.ltb _ _); [intros H; inversion H; tauto|].
    destruct (gauss _ [] _) as [p r].
    destruct (negb _); [intros H; inversion H; tauto|].
    destruct (refine && _); [intros H; inversion H; tauto|].
    destruct (negb refine && _); [intros H; inversion H; tauto|]. discriminate.
  - intros H. inversion H. right. split; [reflexivity|eapply nototal_miss; exact EO].
Qed.
Lemma tactic_5_err O term ctx vs refine e :
  tactic_5 O term ctx vs refine = inr e -> e = ValueErr \/ (e = OracleMiss /\ nototal O).
Proof.
  unfold tactic_5, context_reduction. intros H. apply bind_inr in H. destruct H as [H|[r [_ H]]]; [|discriminate].
  apply bind_inr in H. destruct H as [H|[[rows fv] [_ H]]].
  - revert H. apply (as_value_error_inr _ e (fun e0 => e0 = ValueErr \/ (e0 = OracleMiss /\ nototal O))); [|left; reflexivity].
    intros e0 H0. eapply get_tlp_err. exact H0.
  - apply bind_inr in H. destruct H as [H|[s [_ H]]]; [left; eapply solve_err; exact H|discriminate].
Qed.
Lemma tactic_2_err O term ctx vs refine e :
  tactic_2 O term ctx vs refine = inr e ->
  e = ValueErr \/ ((e = OracleMiss \/ e = Escape "TypeError") /\ nototal O).
Proof.
  unfold tactic_2. cbv zeta. destruct (map term_copy _) as [|c0 nc]; [intros H; inversion H; tauto|].
  destruct (nonempty _); [intros H; inversion H; tauto|].
  match goal with |- context [O ?p] => destruct (O p) as [f s| | |st|] eqn:EO end;
    try (intros H; inversion H; tauto).
  - destruct (negb _); discriminate.
  - intros H. inversion H. right. split; [right; reflexivity|eapply nototal_other; exact EO].
  - intros H. inversion H. right. split; [left; reflexivity|eapply nototal_miss; exact EO].
Qed.
Lemma tactic_3_err O term ctx vs refine e :
  nonempty (list_intersection vs (term_vars_p term)) = true ->
  tactic_3 O term ctx vs refine = inr e -> e = ValueErr.
Proof.
  unfold tactic_3. cbv zeta. destruct (list_intersection vs (term_vars_p term)); [discriminate|].
  intros _. apply tactic_1_err.
Qed.
Lemma tactic_4_err : forall fuel term ctx vs refine no_vars e,
  tactic_4 fuel term ctx vs refine no_vars = inr e ->
  e = ValueErr \/ e = Escape "IndexError" \/ e = Escape "fuel".
Proof.
  induction fuel as [|fuel IHf]; intros term ctx vs refine no_vars e H; [inversion H; tauto|].
  cbn [tactic_4] in H. cbv zeta in H.
  destruct (negb refine); [inversion H; tauto|].
  destruct (Nat.ltb 1 _); [inversion H; tauto|].
  destruct (list_intersection vs (term_vars_p term)) as [|v crest]; [inversion H; tauto|].
  set (P1 := fun c => negb (nonempty (list_intersection (term_vars_p c) no_vars)) &&
                      (negb (qzero (get_coefficient c v)) &&
                       qlt 0 (qmul (qmul 1 (get_coefficient c v)) (get_coefficient term v)))) in H.
  set (goal := map term_copy (filter (fun c => Nat.eqb (List.length (list_intersection (term_vars_p c) vs)) 1) (filter P1 ctx))) in *.
  set (useful := map term_copy (filter (fun c => Nat.eqb (List.length (list_intersection (term_vars_p c) vs)) 2) (filter P1 ctx))) in *.
  clearbody goal useful.
  match type of H with context [?f useful 1%nat] => set (loop := f) in H end.
  destruct goal as [|g gs].
  - destruct useful as [|u0 us0]; [inversion H; tauto|].
    revert H. generalize 1%nat. generalize (u0 :: us0). clear u0 us0.
    intros usl. induction usl as [|u usl IHl]; intros total H; [discriminate|].
    unfold loop in H at 1. lazy beta iota fix in H. fold loop in H.
    destruct (term_isolate_variable u v) as [iso|e0] eqn:EI.
    + match type of H with context [tactic_4 fuel ?a ?b ?c ?d ?f] =>
        destruct (tactic_4 fuel a b c d f) as [[[rt|] c0]|e0] eqn:ER end.
      * discriminate.
      * eapply IHl. exact H.
      * destruct (is_value_error e0); [eapply IHl; exact H|]. inversion H; subst. eapply IHf. exact ER.
    + inversion H; subst. apply isolate_error in EI. tauto.
  - apply bind_inr in H. destruct H as [H|[iso [_ H]]]; [|discriminate].
    apply isolate_error in H. tauto.
Qed.

Definition in16 (num : nat) : Prop := (1 <= num <= 6)%nat.
Definition allowed (O : oracle) (order : list nat) (e : err) : Prop :=
  e = ValueErr \/
  ((e = OracleMiss \/ e = Escape "TypeError") /\ nototal O) \/
  (e = Escape "KeyError" /\ exists num, In num order /\ ~ in16 num) \/
  ((e = Escape "IndexError" \/ e = Escape "fuel") /\ In 4%nat order).

Lemma run_tactic_err O order num term ctx vs refine e :
  In num order -> nonempty (list_intersection vs (term_vars_p term)) = true ->
  run_tactic O num term ctx vs refine = inr e -> allowed O order e.
Proof.
  intros Hin Hne H. unfold allowed.
  destruct num as [|[|[|[|[|[|[|k]]]]]]]; simpl run_tactic in H.
  - inversion H. right. right. left. split; [reflexivity|]. exists 0%nat. split; [exact Hin|]. unfold in16. lia.
  - apply tactic_1_err in H. tauto.
  - apply tactic_2_err in H. tauto.
  - apply (tactic_3_err O term ctx vs refine e Hne) in H. tauto.
  - change (tactic_4 (S (List.length ctx)) term ctx vs refine [] = inr e) in H. apply tactic_4_err in H.
    destruct H as [->|[->| ->]]; [left; reflexivity|right; right; right; split; [left; reflexivity|exact Hin]|
                                  right; right; right; split; [right; reflexivity|exact Hin]].
  - apply tactic_5_err in H. destruct H as [->|[-> Hn]]; [left; reflexivity|right; left; split; [left; reflexivity|exact Hn]].
  - discriminate.
  - inversion H. right. right. left. split; [reflexivity|]. exists (S (S (S (S (S (S (S k))))))). split; [exact Hin|].
    unfold in16. lia.
Qed.

Lemma allowed_incl O order1 order2 e : incl order1 order2 -> allowed O order1 e -> allowed O order2 e.
Proof.
  intros Hi [H|[H|[[H [n [Hn1 Hn2]]]|[H1 H2]]]]; unfold allowed.
  - tauto.
  - tauto.
  - right. right. left. split; [exact H|]. exists n. split; [apply Hi; exact Hn1|exact Hn2].
  - right. right. right. split; [exact H1|apply Hi; exact H2].
Qed.

Lemma ttl_err O order term ctx vs refine e :
  nonempty (list_intersection vs (term_vars_p term)) = true ->
  transform_term_loop O order term ctx vs refine = inr e -> allowed O order e /\ is_value_error e = false.
Proof.
  intros Hne. induction order as [|n order IH]; simpl; intros H; [discriminate|].
  assert (IH' : transform_term_loop O order term ctx vs refine = inr e -> allowed O (n :: order) e /\ is_value_error e = false).
  { intros H'. destruct (IH H') as [A B]. split; [|exact B]. eapply allowed_incl; [|exact A]. intros x Hx. right. exact Hx. }
  destruct (run_tactic O n term ctx vs refine) as [[[r|] c]|e0] eqn:R; [discriminate|auto|].
  destruct (is_value_error e0) eqn:V; [auto|]. inversion H; subst. split; [|exact V].
  eapply run_tactic_err; [left; reflexivity|exact Hne|exact R].
Qed.

Lemma nonempty_inter_sym (l1 l2 : list var) :
  nonempty (list_intersection l1 l2) = true -> nonempty (list_intersection l2 l1) = true.
Proof.
  rewrite !nonempty_true. intros H. destruct (list_intersection l1 l2) as [|x r] eqn:E; [congruence|].
  assert (Hx : In x (list_intersection l1 l2)) by (rewrite E; left; reflexivity).
  apply in_list_intersection in Hx. intros E2.
  assert (Hx2 : In x (list_intersection l2 l1)) by (apply in_list_intersection; tauto).
  rewrite E2 in Hx2. destruct Hx2.
Qed.

Lemma transform_loop_err O order ctx vs refine : forall todo done used e,
  transform_loop O order ctx vs refine done todo used = inr e -> allowed O order e.
Proof.
  induction todo as [|t todo IH]; intros done used e H; simpl in H; [discriminate|].
  destruct (nonempty (list_intersection (term_vars_p t) vs)) eqn:Ne.
  - match type of H with context [transform_term O order t ?h vs refine] =>
      destruct (transform_term O order t h vs refine) as [[[nt num] cnt]|e0] eqn:TT end.
    + simpl in H. eapply IH. exact H.
    + destruct (is_value_error e0) eqn:V; [simpl in H; eapply IH; exact H|].
      inversion H; subst. unfold transform_term in TT. rewrite Ne in TT. cbn [negb] in TT.
      apply ttl_err in TT; [apply TT|]. apply nonempty_inter_sym. exact Ne.
  - eapply IH. exact H.
Qed.

Definition allowed_all (O : oracle) (order : list nat) (ctx : list pterm) (e : err) : Prop :=
  allowed O order e \/
  (e = Escape "AssertionError" /\ ctx <> [] /\ forall t, In t ctx -> term_vars_p t = []).

Lemma simplify_allowed O order ts ctx e : poly_simplify O ts (Some ctx) = inr e -> allowed_all O order ctx e.
Proof.
  intros H. apply simplify_err in H. unfold allowed_all, allowed. destruct H as [->|[[-> Hn]|H]]; [tauto|left|right; exact H].
  right. left. split; [left; reflexivity|exact Hn].
Qed.

Lemma transform_err O order self ctx vs refine sp e :
  transform O self ctx vs refine sp order = inr e -> allowed_all O order ctx e.
Proof.
  unfold transform. intros H. apply bind_inr in H. destruct H as [H|[[that used] [_ H]]].
  - left. eapply transform_loop_err. exact H.
  - destruct sp; [|discriminate]. apply bind_inr in H. destruct H as [H|[r [_ H]]]; [|discriminate].
    eapply simplify_allowed. exact H.
Qed.

Lemma allowed_all_value O order ctx : allowed_all O order ctx ValueErr.
Proof. left. left. reflexivity. Qed.

Theorem C04_errors_refine O order self ctx vs sp e :
  elim_vars_by_refining O self ctx vs sp order = inr e -> allowed_all O order ctx e.
Proof.
  unfold elim_vars_by_refining. intros H. apply bind_inr in H. destruct H as [H|[tl [_ H]]].
  - destruct sp; [|discriminate]. revert H. apply (as_value_error_inr _ e (allowed_all O order ctx)); [|apply allowed_all_value].
    intros e0 H0. eapply simplify_allowed. exact H0.
  - revert H. apply (as_value_error_inr _ e (allowed_all O order ctx)); [|apply allowed_all_value]. intros e0 H0. eapply transform_err. exact H0.
Qed.
Theorem C04_errors_relax O order self ctx vs sp e :
  elim_vars_by_relaxing O self ctx vs sp order = inr e -> allowed_all O order ctx e.
Proof.
  unfold elim_vars_by_relaxing. intros H. apply bind_inr in H. destruct H as [H|[tl [_ H]]].
  - destruct sp; [|discriminate]. revert H. apply (as_value_error_inr _ e (allowed_all O order ctx)); [|apply allowed_all_value].
    intros e0 H0. eapply simplify_allowed. exact H0.
  - apply bind_inr in H. destruct H as [H|[[tl2 used] [_ H]]]; [|discriminate].
    revert H. apply (as_value_error_inr _ e (allowed_all O order ctx)); [|apply allowed_all_value]. intros e0 H0. eapply transform_err. exact H0.
Qed.

(* the coarse reading asked for, and the sharpening under a total solver and tactic numbers 1..6 *)
Corollary C04_errors O order self ctx vs sp e :
  elim_vars_by_refining O self ctx vs sp order = inr e \/ elim_vars_by_relaxing O self ctx vs sp order = inr e ->
  e = ValueErr \/ e = OracleMiss \/ exists k, e = Escape k.
Proof.
  intros [H|H]; [apply C04_errors_refine in H|apply C04_errors_relax in H];
    (destruct H as [[H|[[[H|H] _]|[[H _]|[[H|H] _]]]]|[H _]]; subst; eauto).
Qed.
Corollary C04_errors_total O order self ctx vs sp e :
  lp_total O -> (forall num, In num order -> in16 num) -> (ctx = [] \/ all_have_vars ctx = true) ->
  elim_vars_by_refining O self ctx vs sp order = inr e \/ elim_vars_by_relaxing O self ctx vs sp order = inr e ->
  e = ValueErr \/ ((e = Escape "IndexError" \/ e = Escape "fuel") /\ In 4%nat order).
Proof.
  intros HT Hord Hctx H.
  assert (A : allowed_all O order ctx e) by (destruct H as [H|H]; [apply C04_errors_refine in H|apply C04_errors_relax in H]; exact H).
  destruct A as [[A|[[_ A]|[[_ [n [A1 A2]]]|A]]]|[_ [A1 A2]]].
  - left. exact A.
  - exfalso. apply A. exact HT.
  - exfalso. apply A2. apply Hord. exact A1.
  - right. exact A.
  - exfalso. destruct Hctx as [->|Hv]; [congruence|]. destruct ctx as [|c0 ctx']; [congruence|].
    pose proof (all_have_vars_in _ c0 Hv (or_introl eq_refl)) as Hn. apply Hn. apply A2. left. reflexivity.
Qed.

(* since repo commit 12672f5 no assertion can fail in simplify, whatever the context contains: the side condition on the
   context of C04_errors_total is no longer needed *)
Lemma simplify_allowed2 O order ts ctx e : poly_simplify O ts (Some ctx) = inr e -> allowed O order e.
Proof.
  intros H. apply simplify_err2 in H. unfold allowed. destruct H as [->|[-> Hn]]; [tauto|].
  right. left. split; [left; reflexivity|exact Hn].
Qed.
Lemma transform_err2 O order self ctx vs refine sp e :
  transform O self ctx vs refine sp order = inr e -> allowed O order e.
Proof.
  unfold transform. intros H. apply bind_inr in H. destruct H as [H|[[that used] [_ H]]].
  - eapply transform_loop_err. exact H.
  - destruct sp; [|discriminate]. apply bind_inr in H. destruct H as [H|[r [_ H]]]; [|discriminate].
    eapply simplify_allowed2. exact H.
Qed.
Lemma allowed_value O order : allowed O order ValueErr.
Proof. left. reflexivity. Qed.
Theorem C04_errors_refine2 O order self ctx vs sp e :
  elim_vars_by_refining O self ctx vs sp order = inr e -> allowed O order e.
Proof.
  unfold elim_vars_by_refining. intros H. apply bind_inr in H. destruct H as [H|[tl [_ H]]].
  - destruct sp; [|discriminate]. revert H. apply (as_value_error_inr _ e (allowed O order)); [|apply allowed_value].
    intros e0 H0. eapply simplify_allowed2. exact H0.
  - revert H. apply (as_value_error_inr _ e (allowed O order)); [|apply allowed_value]. intros e0 H0. eapply transform_err2. exact H0.
Qed.
Theorem C04_errors_relax2 O order self ctx vs sp e :
  elim_vars_by_relaxing O self ctx vs sp order = inr e -> allowed O order e.
Proof.
  unfold elim_vars_by_relaxing. intros H. apply bind_inr in H. destruct H as [H|[tl [_ H]]].
  - destruct sp; [|discriminate]. revert H. apply (as_value_error_inr _ e (allowed O order)); [|apply allowed_value].
    intros e0 H0. eapply simplify_allowed2. exact H0.
  - apply bind_inr in H. destruct H as [H|[[tl2 used] [_ H]]]; [|discriminate].
    revert H. apply (as_value_error_inr _ e (allowed O order)); [|apply allowed_value]. intros e0 H0. eapply transform_err2. exact H0.
Qed.
Corollary C04_errors_total_any_context O order self ctx vs sp e :
  lp_total O -> (forall num, In num order -> in16 num) ->
  elim_vars_by_refining O self ctx vs sp order = inr e \/ elim_vars_by_relaxing O self ctx vs sp order = inr e ->
  e = ValueErr \/ ((e = Escape "IndexError" \/ e = Escape "fuel") /\ In 4%nat order).
Proof.
  intros HT Hord H.
  assert (A : allowed O order e) by (destruct H as [H|H]; [apply C04_errors_refine2 in H|apply C04_errors_relax2 in H]; exact H).
  destruct A as [A|[[_ A]|[[_ [n [A1 A2]]]|A]]].
  - left. exact A.
  - exfalso. apply A. exact HT.
  - exfalso. apply A2. apply Hord. exact A1.
  - right. exact A.
Qed.

(* ------------------------------------------------------------------ *)
(** * Why [wft'] (no stored zero coefficient) is asked of the terms being transformed *)
(* A model-only corner: with a stored zero coefficient, [term_copy] drops the entry, the copy is no longer
   [==] to the term, [remove_first] leaves the term's own copy among its helpers, and tactic 4 then
   "refines" x + y + 0z <= 5 by itself into 0 <= 0.  Python terms never store a zero (PolyhedralTerm.__init__
   filters them) and list.remove would raise, so this input is outside what the code can reach. *)
Example refine_needs_nonzero_coefficients :
  exists self r st rho,
    Forall wft self /\
    elim_vars_by_refining noO self [] ["y"%string] false [4%nat] = inl (r, st) /\
    sat_list rho [] /\ sat_list rho r /\ ~ sat_list rho self.
Proof.
  exists [mkT [("x"%string, 1%Q); ("y"%string, 1%Q); ("z"%string, 0%Q)] 5%Q], [mkT [] 0%Q], [(4%Z, 1%Z)],
         (fun v => if String.eqb v "x" then 10 else 0).
  split; [|split; [vm_compute; reflexivity|split; [constructor|split]]].
  - constructor; [|constructor]. unfold wft. cbn. repeat constructor; cbn; intros H;
      repeat (destruct H as [H|H]; try discriminate); try contradiction.
  - constructor; [|constructor]. unfold sat. cbn. unfold Q2R. simpl. lra.
  - intros H. inversion H as [|? ? H1 _]; subst. unfold sat in H1. cbn in H1. unfold Q2R in H1. simpl in H1. lra.
Qed.

(** * Why "_" must be fresh (the side condition of tactic 3 is a real precondition of the code) *)
(* x + y <= 6 in context y + _ <= 5, eliminating y with tactic 3 (the Python returns the same x <= 3.5):
   at  x = 0, y = 105, _ = -100  the context and the result hold but the original term does not. *)
Example tactic3_needs_fresh_underscore :
  exists self ctx r st rho,
    Forall wft' self /\ Forall wft' ctx /\
    elim_vars_by_refining noO self ctx ["y"%string] false [3%nat] = inl (r, st) /\
    sat_list rho ctx /\ sat_list rho r /\ ~ sat_list rho self.
Proof.
  exists [mkT [("x"%string, 1%Q); ("y"%string, 1%Q)] 6%Q], [mkT [("y"%string, 1%Q); ("_"%string, 1%Q)] 5%Q],
         [mkT [("x"%string, 1%Q)] (7 # 2)%Q], [(3%Z, 1%Z)],
         (fun v => if String.eqb v "y" then 105 else if String.eqb v "_" then -100 else 0).
  split; [|split; [|split; [vm_compute; reflexivity|split; [|split]]]].
  - constructor; [|constructor]. split.
    + unfold wft. cbn. repeat constructor; cbn; intros H; repeat (destruct H as [H|H]; try discriminate); try contradiction.
    + cbn. repeat constructor; cbn; intros H; discriminate.
  - constructor; [|constructor]. split.
    + unfold wft. cbn. repeat constructor; cbn; intros H; repeat (destruct H as [H|H]; try discriminate); try contradiction.
    + cbn. repeat constructor; cbn; intros H; discriminate.
  - constructor; [|constructor]. unfold sat. cbn. unfold Q2R. simpl. lra.
  - constructor; [|constructor]. unfold sat. cbn. unfold Q2R. simpl. lra.
  - intros H. inversion H as [|? ? H1 _]; subst. unfold sat in H1. cbn in H1. unfold Q2R in H1. simpl in H1. lra.
Qed.

(* ------------------------------------------------------------------ *)
Print Assumptions solve_sound.
Print Assumptions solve_complete.
Print Assumptions kaykobad_cone.
Print Assumptions kaykobad_nonsingular.
Print Assumptions all_tactics_ok.
Print Assumptions transform_refine_sound.
Print Assumptions transform_relax_sound.
Print Assumptions C04_refine.
Print Assumptions C04_relax.
Print Assumptions C04_refine_all.
Print Assumptions C04_relax_all.
Print Assumptions C04_errors.
Print Assumptions C04_errors_total.
Print Assumptions C04_errors_total_any_context.
