(* GrammarGenFacts.v — summary: the parser GENERATED from the pyparsing expressions of grammar.py
   (gen/GrammarGen.v) is, rule by rule and as a whole, the hand-written PEG model of model/Grammar.v, about which
   proofs/GrammarFacts.v, ParseAllFacts.v, RoundTripFacts.v and props/C09.v, C10b.v, C14.v speak.
   No precondition: no string was found on which model and source differ.  Closed under the global context. *)
From Coq Require Import List String Ascii Bool NArith ZArith QArith Arith Lia.
Import ListNotations.
Require Import Py Ast Grammar GrammarFacts PyParsing GrammarGen GrammarGenBase GrammarGenTokens GrammarGenTerms GrammarGenExpr.
Local Open Scope string_scope.

Theorem parse_expr_fuel_gen_eq : forall n s, GrammarGen.parse_expr_fuel n s = Grammar.parse_expr_fuel n s.
Proof.
  intros n s. unfold GrammarGen.parse_expr_fuel, Grammar.parse_expr_fuel, parse_gen_fuel.
  rewrite (expression_eq n s). reflexivity.
Qed.

Theorem parse_expr_gen_eq : forall s, GrammarGen.parse_expr s = Grammar.parse_expr s.
Proof. intros s. unfold GrammarGen.parse_expr, Grammar.parse_expr. apply parse_expr_fuel_gen_eq. Qed.

(* consequences inherited from proofs/GrammarFacts.v *)
Corollary parse_expr_gen_total s : GrammarGen.parse_expr s <> OutOfFuel.
Proof. rewrite parse_expr_gen_eq. apply GrammarFacts.parse_expr_total. Qed.

(* the rule-by-rule statements, in one place (pointwise equality, every fuel, every input) *)
Theorem grammar_rules_gen_eq n :
  peq GrammarGen.floating_point_number fpn_c /\
  peq (GrammarGen.arithmetic_expr n) (p_arith fla n) /\
  peq (or_actions (por GrammarGen.floating_point_number (GrammarGen.paren_arith_expr n))) (number fla n) /\
  peq (GrammarGen.term n) (p_term fla n) /\
  peq (GrammarGen.terms n) (Grammar.terms fla n) /\
  peq (GrammarGen.paren_terms n) (paren_of (p_term fla n)) /\
  peq (GrammarGen.abs_term n) (Grammar.abs_term fla n) /\
  peq (GrammarGen.first_abs_or_term n) (Grammar.first_abs_or_term fla n) /\
  peq (GrammarGen.addl_abs_or_term n) (Grammar.addl_abs_or_term fla n) /\
  peq (GrammarGen.abs_or_terms n) (Grammar.abs_or_terms fla n) /\
  peq (GrammarGen.paren_abs_or_terms n) (Grammar.paren_abs_or_terms fla n) /\
  peq (GrammarGen.first_paren_abs_or_terms n) (Grammar.first_paren_abs_or_terms fla n) /\
  peq (GrammarGen.addl_paren_abs_or_terms n) (Grammar.addl_paren_abs_or_terms fla n) /\
  peq (GrammarGen.multi_paren_abs_or_terms n) (Grammar.multi fla n) /\
  peq (GrammarGen.equality_expression n) (Grammar.equality_expression fla n) /\
  peq (GrammarGen.leq_expression n) (Grammar.leq_expression fla n) /\
  peq (GrammarGen.geq_expression n) (Grammar.geq_expression fla n) /\
  peq (GrammarGen.expression n) (Grammar.expression fla n).
Proof.
  repeat split;
    auto using floating_point_number_eq, arithmetic_expr_eq, number_eq, term_eq, terms_eq, paren_terms_eq, abs_term_eq,
      first_abs_or_term_eq, addl_abs_or_term_eq, abs_or_terms_eq, paren_abs_or_terms_eq, first_paren_abs_or_terms_eq,
      addl_paren_abs_or_terms_eq, multi_paren_abs_or_terms_eq, equality_expression_eq, leq_expression_eq,
      geq_expression_eq, expression_eq.
Qed.

Print Assumptions parse_expr_gen_eq.
