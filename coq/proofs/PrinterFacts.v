(* PrinterFacts.v — facts about model/Printer.v (the "%.4g" printer of polyhedral term lists). *)
From Coq Require Import List String Bool QArith Qabs Qpower Qreduction ZArith Ascii Lia Lra Psatz
  Reals Qreals Permutation.
Import ListNotations.
Require Import Py Sem Term ConstGen Ast Printer TermFacts.

(* ====================================================================================== *)
(* A. rounding to p significant digits in base b                                           *)
(* ====================================================================================== *)
Local Open Scope Z_scope.

Definition QZ (n d : Z) : Q := (inject_Z n / inject_Z d)%Q.

Lemma inject_Z_pos_nz d : 0 < d -> ~ (inject_Z d == 0)%Q.
Proof. intros H E. unfold Qeq in E. simpl in E. lia. Qed.

Lemma inject_Z_le a c : a <= c <-> (inject_Z a <= inject_Z c)%Q.
Proof. unfold Qle; simpl; lia. Qed.
Lemma inject_Z_lt a c : a < c <-> (inject_Z a < inject_Z c)%Q.
Proof. unfold Qlt; simpl; lia. Qed.

Lemma QZ_mul n d : 0 < d -> (QZ n d * inject_Z d == inject_Z n)%Q.
Proof. intros H. unfold QZ. field. now apply inject_Z_pos_nz. Qed.

Lemma QZ_pos n d : 0 < n -> 0 < d -> (0 < QZ n d)%Q.
Proof.
  intros Hn Hd. unfold QZ. apply Qlt_shift_div_l.
  - now apply (proj1 (inject_Z_lt 0 d)).
  - rewrite Qmult_0_l. now apply (proj1 (inject_Z_lt 0 n)).
Qed.

(* a/d compared through multiplication by the positive denominator *)
Lemma QZ_le_l n d (x : Q) : 0 < d -> (x * inject_Z d <= inject_Z n)%Q -> (x <= QZ n d)%Q.
Proof.
  intros Hd H. unfold QZ. apply Qle_shift_div_l; [now apply (proj1 (inject_Z_lt 0 d))|exact H].
Qed.
Lemma QZ_lt_r n d (x : Q) : 0 < d -> (inject_Z n < x * inject_Z d)%Q -> (QZ n d < x)%Q.
Proof.
  intros Hd H. unfold QZ. apply Qlt_shift_div_r; [now apply (proj1 (inject_Z_lt 0 d))|exact H].
Qed.
Lemma QZ_le_l_inv n d (x : Q) : 0 < d -> (x <= QZ n d)%Q -> (x * inject_Z d <= inject_Z n)%Q.
Proof.
  intros Hd H. rewrite <- (QZ_mul n d Hd). apply Qmult_le_compat_r; [exact H|].
  apply (proj1 (inject_Z_le 0 d)). lia.
Qed.
Lemma QZ_lt_r_inv n d (x : Q) : 0 < d -> (QZ n d < x)%Q -> (inject_Z n < x * inject_Z d)%Q.
Proof.
  intros Hd H. rewrite <- (QZ_mul n d Hd). apply Qmult_lt_compat_r; [|exact H].
  now apply (proj1 (inject_Z_lt 0 d)).
Qed.

Lemma inject_Z_minus x y : (inject_Z (x - y) == inject_Z x - inject_Z y)%Q.
Proof. unfold Z.sub, Qminus. now rewrite inject_Z_plus, inject_Z_opp. Qed.

Lemma half_bound (M r D N : Q) :
  (0 < D -> r * D == N -> - D <= 2 * (M * D - N) -> 2 * (M * D - N) <= D -> Qabs (M - r) <= 1 # 2)%Q.
Proof. intros H1 H2 H3 H4. apply Qabs_Qle_condition. split; nra. Qed.

Section RoundSig.
Variables b p : Z.
Hypothesis Hb : 2 <= b.
Hypothesis Hp : 1 <= p.
Let B : Q := inject_Z b.

Lemma B_gt1 : (1 < B)%Q.
Proof. unfold B. apply (proj1 (inject_Z_lt 1 b)). lia. Qed.
Lemma B_ge1 : (1 <= B)%Q.
Proof. apply Qlt_le_weak, B_gt1. Qed.
Lemma B_pos : (0 < B)%Q.
Proof. unfold B. apply (proj1 (inject_Z_lt 0 b)). lia. Qed.
Lemma B_nz : ~ (B == 0)%Q.
Proof. intros E. pose proof B_pos as H. rewrite E in H. now apply Qlt_irrefl in H. Qed.
Lemma Bpow_pos x : (0 < B ^ x)%Q.
Proof. apply Qpower_0_lt, B_pos. Qed.
Lemma Bpow_nz x : ~ (B ^ x == 0)%Q.
Proof. apply Qpower_not_0, B_nz. Qed.
Lemma Bpow_add x y : (B ^ (x + y) == B ^ x * B ^ y)%Q.
Proof. apply Qpower_plus, B_nz. Qed.
Lemma Bpow_Z k : 0 <= k -> (B ^ k == inject_Z (b ^ k))%Q.
Proof. intros H. unfold B. symmetry. now apply Zpower_Qpower. Qed.
Lemma Bpow_opp x : (B ^ (- x) == / B ^ x)%Q.
Proof. apply Qpower_opp. Qed.
Lemma Bpow_cancel x : (B ^ x * B ^ (- x) == 1)%Q.
Proof. rewrite <- Bpow_add. replace (x + - x) with 0 by lia. reflexivity. Qed.

Lemma decade_unique (a : Q) e f :
  (B ^ e <= a)%Q -> (a < B ^ (e + 1))%Q -> (B ^ f <= a)%Q -> (a < B ^ (f + 1))%Q -> e = f.
Proof.
  intros H1 H2 H3 H4.
  assert (L1 : e < f + 1).
  { apply (Qpower_lt_compat_l_inv B); [|apply B_gt1]. eapply Qle_lt_trans; eassumption. }
  assert (L2 : f < e + 1).
  { apply (Qpower_lt_compat_l_inv B); [|apply B_gt1]. eapply Qle_lt_trans; eassumption. }
  lia.
Qed.

(* ---------- ilog ---------- *)
Lemma ilog_aux_spec fuel : forall m, 1 <= m -> m < 2 ^ Z.of_nat fuel ->
  0 <= ilog_aux fuel b m /\ b ^ ilog_aux fuel b m <= m < b ^ (ilog_aux fuel b m + 1).
Proof.
  induction fuel as [|f IH]; intros m H1 H2.
  - simpl in H2. lia.
  - cbn [ilog_aux]. destruct (Z.ltb_spec m b) as [Hlt|Hge].
    + simpl. lia.
    + assert (Hdiv1 : 1 <= m / b) by (apply Z.div_le_lower_bound; lia).
      assert (Hpow : 2 ^ Z.of_nat (S f) = 2 * 2 ^ Z.of_nat f).
      { rewrite Nat2Z.inj_succ, Z.pow_succ_r; lia. }
      assert (Hdiv2 : m / b < 2 ^ Z.of_nat f).
      { apply Z.div_lt_upper_bound; [lia|]. rewrite Hpow in H2.
        assert (0 < 2 ^ Z.of_nat f) by (apply Z.pow_pos_nonneg; lia). nia. }
      destruct (IH (m / b) Hdiv1 Hdiv2) as [K0 [K1 K2]].
      set (k := ilog_aux f b (m / b)) in *.
      assert (E1 : b ^ (1 + k) = b * b ^ k) by (rewrite Z.pow_add_r; lia).
      assert (E2 : b ^ (1 + k + 1) = b * b ^ (k + 1)).
      { replace (1 + k + 1) with (1 + (k + 1)) by lia. rewrite Z.pow_add_r; lia. }
      pose proof (Z.mul_div_le m b ltac:(lia)) as M1.
      pose proof (Z.mul_succ_div_gt m b ltac:(lia)) as M2.
      split; [lia|]. rewrite E1, E2. split; nia.
Qed.

Lemma ilog_spec m : 1 <= m ->
  0 <= ilog b m /\ b ^ ilog b m <= m < b ^ (ilog b m + 1).
Proof.
  intros H. unfold ilog. apply ilog_aux_spec; [exact H|].
  rewrite Nat2Z.inj_succ, Z2Nat.id by (apply Z.log2_nonneg).
  destruct (Z.log2_spec m ltac:(lia)) as [_ L]. exact L.
Qed.

(* ---------- scale ---------- *)
Lemma scale_spec k n d : 0 < d ->
  0 < snd (scale b k n d) /\ (0 <= n -> 0 <= fst (scale b k n d)) /\
  (QZ (fst (scale b k n d)) (snd (scale b k n d)) == QZ n d * B ^ k)%Q.
Proof.
  intros Hd. unfold scale. destruct (Z.leb_spec 0 k) as [Hk|Hk]; cbn [fst snd].
  - split; [exact Hd|]. split.
    + intros Hn. assert (0 <= b ^ k) by (apply Z.pow_nonneg; lia). nia.
    + unfold QZ. rewrite inject_Z_mult, (Bpow_Z k Hk). field. now apply inject_Z_pos_nz.
  - assert (Hpk : 0 < b ^ (- k)) by (apply Z.pow_pos_nonneg; lia).
    split; [nia|]. split; [tauto|].
    unfold QZ. rewrite inject_Z_mult.
    assert (E : (B ^ k == / inject_Z (b ^ (- k)))%Q).
    { rewrite <- (Bpow_Z (- k)) by lia. rewrite <- Bpow_opp. now replace (- - k) with k by lia. }
    rewrite E. field. split; now apply inject_Z_pos_nz.
Qed.

(* ---------- exp_of ---------- *)
Lemma exp_of_spec n d : 0 < n -> 0 < d ->
  (B ^ exp_of b n d <= QZ n d)%Q /\ (QZ n d < B ^ (exp_of b n d + 1))%Q.
Proof.
  intros Hn Hd. unfold exp_of.
  destruct (ilog_spec n ltac:(lia)) as [N0 [N1 N2]].
  destruct (ilog_spec d ltac:(lia)) as [D0 [D1 D2]].
  set (kn := ilog b n) in *. set (kd := ilog b d) in *. set (k := kn - kd).
  destruct (scale_spec (- k) n d Hd) as [S1 [S2 S3]].
  destruct (scale b (- k) n d) as [n' d'] eqn:Esc. cbn [fst snd] in *.
  specialize (S2 ltac:(lia)).
  set (a := QZ n d) in *.
  assert (Ha : (a * inject_Z d == inject_Z n)%Q) by (apply QZ_mul; exact Hd).
  (* bounds from the digit counts *)
  assert (Up : (a < B ^ (k + 1))%Q).
  { apply QZ_lt_r; [exact Hd|].
    apply Qlt_le_trans with (inject_Z (b ^ (kn + 1))); [now apply (proj1 (inject_Z_lt _ _))|].
    rewrite <- (Bpow_Z (kn + 1)) by lia.
    assert (Ek : (B ^ (kn + 1) == B ^ (k + 1) * B ^ kd)%Q).
    { rewrite <- Bpow_add. replace (k + 1 + kd) with (kn + 1) by (unfold k; lia). reflexivity. }
    rewrite Ek.
    apply Qmult_le_l; [apply Bpow_pos|]. rewrite (Bpow_Z kd D0). now apply (proj1 (inject_Z_le _ _)). }
  assert (Lo : (B ^ (k - 1) <= a)%Q).
  { apply QZ_le_l; [exact Hd|].
    apply Qle_trans with (inject_Z (b ^ kn)); [|now apply (proj1 (inject_Z_le _ _))].
    rewrite <- (Bpow_Z kn N0).
    assert (Ek : (B ^ kn == B ^ (k - 1) * B ^ (kd + 1))%Q).
    { rewrite <- Bpow_add. replace (k - 1 + (kd + 1)) with kn by (unfold k; lia). reflexivity. }
    rewrite Ek.
    apply Qmult_le_l; [apply Bpow_pos|]. rewrite (Bpow_Z (kd + 1)) by lia.
    apply (proj1 (inject_Z_le _ _)). lia. }
  assert (Hd' : (0 < inject_Z d')%Q) by now apply (proj1 (inject_Z_lt 0 d')).
  destruct (Z.leb_spec d' n') as [Hge|Hlt].
  - split; [|exact Up].
    (* 1 <= n'/d' = a * B^(-k) *)
    assert (H1 : (1 <= QZ n' d')%Q).
    { apply QZ_le_l; [exact S1|]. rewrite Qmult_1_l. now apply (proj1 (inject_Z_le _ _)). }
    rewrite S3 in H1.
    apply Qmult_le_compat_r with (z := (B ^ k)%Q) in H1; [|apply Qlt_le_weak, Bpow_pos].
    rewrite Qmult_1_l, <- Qmult_assoc in H1.
    rewrite (Qmult_comm (B ^ - k)), Bpow_cancel, Qmult_1_r in H1. exact H1.
  - replace (k - 1 + 1) with k by lia. split; [exact Lo|].
    assert (H1 : (QZ n' d' < 1)%Q).
    { apply QZ_lt_r; [exact S1|]. rewrite Qmult_1_l. now apply (proj1 (inject_Z_lt _ _)). }
    rewrite S3 in H1.
    apply Qmult_lt_compat_r with (z := (B ^ k)%Q) in H1; [|apply Bpow_pos].
    rewrite Qmult_1_l, <- Qmult_assoc in H1.
    rewrite (Qmult_comm (B ^ - k)), Bpow_cancel, Qmult_1_r in H1. exact H1.
Qed.

(* ---------- round half even ---------- *)
Lemma rhe_spec n d : 0 <= n -> 0 < d ->
  - d <= 2 * (rhe n d * d - n) <= d.
Proof.
  intros Hn Hd. unfold rhe.
  pose proof (Z.div_mod n d ltac:(lia)) as E.
  pose proof (Z.mod_pos_bound n d Hd) as R.
  destruct (Z.compare_spec (2 * (n mod d)) d) as [C|C|C].
  - destruct (Z.even (n / d)); nia.
  - nia.
  - nia.
Qed.

Lemma rhe_bounds n d lo hi : 0 <= n -> 0 < d -> lo * d <= n -> n <= hi * d ->
  lo <= rhe n d <= hi.
Proof.
  intros Hn Hd Hlo Hhi. unfold rhe.
  pose proof (Z.div_mod n d ltac:(lia)) as E.
  pose proof (Z.mod_pos_bound n d Hd) as R.
  assert (Q1 : lo <= n / d) by (apply Z.div_le_lower_bound; lia).
  assert (Q2 : n / d <= hi) by (apply Z.div_le_upper_bound; lia).
  assert (Q3 : n / d = hi -> n mod d = 0) by nia.
  destruct (Z.compare_spec (2 * (n mod d)) d) as [C|C|C].
  - destruct (Z.even (n / d)); [lia|]. split; [lia|]. destruct (Z.eq_dec (n / d) hi); [|lia].
    specialize (Q3 e). lia.
  - lia.
  - split; [lia|]. destruct (Z.eq_dec (n / d) hi); [|lia]. specialize (Q3 e). lia.
Qed.

Lemma rhe_exact M d : 0 < d -> rhe (M * d) d = M.
Proof.
  intros Hd. unfold rhe. rewrite Z.div_mul, Z.mod_mul by lia.
  replace (2 * 0) with 0 by lia. destruct (Z.compare_spec 0 d); lia || reflexivity.
Qed.

(* ---------- the rounded mantissa / exponent ---------- *)
Definition sval (me : Z * Z) : Q := (inject_Z (fst me) * B ^ (snd me - p + 1))%Q.

Lemma bpow_q_eq m x : (bpow_q b m x == inject_Z m * B ^ x)%Q.
Proof.
  unfold bpow_q. destruct (Z.leb_spec 0 x) as [Hx|Hx].
  - rewrite inject_Z_mult, (Bpow_Z x Hx). reflexivity.
  - assert (Hpk : 0 < b ^ (- x)) by (apply Z.pow_pos_nonneg; lia).
    rewrite Qmake_Qdiv. rewrite Z2Pos.id by exact Hpk.
    assert (E : (B ^ x == / inject_Z (b ^ (- x)))%Q).
    { rewrite <- (Bpow_Z (- x)) by lia. rewrite <- Bpow_opp. now replace (- - x) with x by lia. }
    rewrite E. unfold Qdiv. reflexivity.
Qed.
Lemma sig_value_eq me : (sig_value b p me == sval me)%Q.
Proof. unfold sig_value, sval. apply bpow_q_eq. Qed.

Lemma bp_split : b ^ p = b * b ^ (p - 1).
Proof. replace p with (1 + (p - 1)) at 1 by lia. rewrite Z.pow_add_r; lia. Qed.

Lemma round_sig_pos_spec n d : 0 < n -> 0 < d ->
  let me := round_sig_pos b p n d in
  let e := exp_of b n d in
  b ^ (p - 1) <= fst me < b ^ p /\
  (e <= snd me <= e + 1) /\
  (Qabs (sval me - QZ n d) <= (1 # 2) * B ^ (e - p + 1))%Q.
Proof.
  intros Hn Hd me e. subst me. unfold round_sig_pos. fold e.
  destruct (exp_of_spec n d Hn Hd) as [E1 E2]. fold e in E1, E2.
  destruct (scale_spec (p - 1 - e) n d Hd) as [S1 [S2 S3]].
  destruct (scale b (p - 1 - e) n d) as [n' d'] eqn:Esc. cbn [fst snd] in *.
  specialize (S2 ltac:(lia)).
  set (a := QZ n d) in *.
  assert (Hpp : 0 < b ^ (p - 1)) by (apply Z.pow_pos_nonneg; lia).
  (* b^(p-1) <= n'/d' < b^p *)
  assert (L1 : b ^ (p - 1) * d' <= n').
  { apply (proj2 (inject_Z_le _ _)). rewrite inject_Z_mult. apply QZ_le_l_inv; [exact S1|].
    rewrite S3, <- (Bpow_Z (p - 1)) by lia.
    replace (p - 1) with (e + (p - 1 - e)) at 1 by lia. rewrite Bpow_add.
    apply Qmult_le_compat_r; [exact E1|apply Qlt_le_weak, Bpow_pos]. }
  assert (L2 : n' < b ^ p * d').
  { apply (proj2 (inject_Z_lt _ _)). rewrite inject_Z_mult. apply QZ_lt_r_inv; [exact S1|].
    rewrite S3, <- (Bpow_Z p) by lia.
    replace p with ((e + 1) + (p - 1 - e)) at 2 by lia. rewrite Bpow_add.
    apply Qmult_lt_compat_r; [apply Bpow_pos|exact E2]. }
  pose proof (rhe_bounds n' d' (b ^ (p - 1)) (b ^ p) S2 S1 L1 ltac:(lia)) as Bm.
  pose proof (rhe_spec n' d' S2 S1) as Rm.
  set (m := rhe n' d') in *.
  (* |m - n'/d'| <= 1/2 *)
  assert (Hm : (Qabs (inject_Z m - QZ n' d') <= 1 # 2)%Q).
  { apply (half_bound _ _ (inject_Z d') (inject_Z n')).
    - now apply (proj1 (inject_Z_lt 0 d')).
    - now apply QZ_mul.
    - rewrite <- inject_Z_mult, <- inject_Z_minus, <- inject_Z_opp.
      change 2%Q with (inject_Z 2). rewrite <- inject_Z_mult. apply (proj1 (inject_Z_le _ _)). lia.
    - rewrite <- inject_Z_mult, <- inject_Z_minus.
      change 2%Q with (inject_Z 2). rewrite <- inject_Z_mult. apply (proj1 (inject_Z_le _ _)). lia. }
  (* the value m * B^(e-p+1) in either branch *)
  assert (Hval : forall me', (sval me' == inject_Z m * B ^ (e - p + 1))%Q ->
                 (Qabs (sval me' - a) <= (1 # 2) * B ^ (e - p + 1))%Q).
  { intros me' Ev. rewrite Ev.
    assert (Ea : (a == QZ n' d' * B ^ (e - p + 1))%Q).
    { rewrite S3, <- Qmult_assoc, <- Bpow_add.
      replace (p - 1 - e + (e - p + 1)) with 0 by lia. simpl. ring. }
    rewrite Ea.
    setoid_replace (inject_Z m * B ^ (e - p + 1) - QZ n' d' * B ^ (e - p + 1))%Q
      with ((inject_Z m - QZ n' d') * B ^ (e - p + 1))%Q by ring.
    rewrite Qabs_Qmult, (Qabs_pos (B ^ (e - p + 1))) by (apply Qlt_le_weak, Bpow_pos).
    apply Qmult_le_compat_r; [exact Hm|apply Qlt_le_weak, Bpow_pos]. }
  destruct (Z.eqb_spec m (b ^ p)) as [Em|Em]; cbn [fst snd].
  - split; [rewrite bp_split; nia|]. split; [lia|]. apply Hval. unfold sval; cbn [fst snd].
    rewrite Em. rewrite <- !Bpow_Z by lia. rewrite <- !Bpow_add. f_equiv. lia.
  - split; [lia|]. split; [lia|]. apply Hval. unfold sval; cbn [fst snd]. reflexivity.
Qed.

(* exactly representable inputs are fixed *)
Lemma round_sig_pos_exact n d M x : 0 < n -> 0 < d ->
  b ^ (p - 1) <= M < b ^ p -> (QZ n d == inject_Z M * B ^ x)%Q ->
  round_sig_pos b p n d = (M, x + p - 1).
Proof.
  intros Hn Hd HM Ea. unfold round_sig_pos.
  destruct (exp_of_spec n d Hn Hd) as [E1 E2].
  assert (Hpp : 0 < b ^ (p - 1)) by (apply Z.pow_pos_nonneg; lia).
  assert (Ee : exp_of b n d = x + p - 1).
  { apply (decade_unique (QZ n d)); try assumption.
    - rewrite Ea. replace (x + p - 1) with ((p - 1) + x) by lia. rewrite Bpow_add.
      apply Qmult_le_compat_r; [|apply Qlt_le_weak, Bpow_pos].
      rewrite (Bpow_Z (p - 1)) by lia. apply (proj1 (inject_Z_le _ _)). lia.
    - rewrite Ea. replace (x + p - 1 + 1) with (p + x) by lia. rewrite Bpow_add.
      apply Qmult_lt_compat_r; [apply Bpow_pos|].
      rewrite (Bpow_Z p) by lia. apply (proj1 (inject_Z_lt _ _)). lia. }
  rewrite Ee. replace (p - 1 - (x + p - 1)) with (- x) by lia.
  destruct (scale_spec (- x) n d Hd) as [S1 [S2 S3]].
  destruct (scale b (- x) n d) as [n' d'] eqn:Esc. cbn [fst snd] in *.
  assert (En : n' = M * d').
  { apply (proj1 (inject_Z_injective _ _)).
    rewrite <- (QZ_mul n' d' S1), S3, Ea, inject_Z_mult.
    rewrite <- (Qmult_assoc (inject_Z M)), Bpow_cancel. ring. }
  rewrite En, rhe_exact by exact S1.
  destruct (Z.eqb_spec M (b ^ p)); [lia|reflexivity].
Qed.

(* ---------- round_sig on Q ---------- *)
Lemma round_sig_proper q q' : (q == q')%Q -> round_sig b p q = round_sig b p q'.
Proof. intros E. unfold round_sig. now rewrite (Qred_complete _ _ E). Qed.

Lemma round_sig_0 q : (q == 0)%Q -> round_sig b p q = 0%Q.
Proof. intros E. rewrite (round_sig_proper _ _ E). reflexivity. Qed.

Lemma round_sig_opp q : (round_sig b p (- q) == - round_sig b p q)%Q.
Proof.
  unfold round_sig. rewrite Qred_opp. destruct (Qred q) as [n d]. cbn [Qopp Qnum Qden].
  destruct n; cbn [Z.opp]; try reflexivity. now rewrite Qopp_involutive.
Qed.

Lemma Qmake_QZ n d : (Zpos n # d == QZ (Zpos n) (Zpos d))%Q.
Proof. unfold QZ. apply Qmake_Qdiv. Qed.

(* the shape of the result on positive inputs *)
Lemma round_sig_pos_shape q : (0 < q)%Q ->
  exists n d, (q == QZ (Zpos n) (Zpos d))%Q /\
              round_sig b p q = sig_value b p (round_sig_pos b p (Zpos n) (Zpos d)).
Proof.
  intros Hq. pose proof (Qred_correct q) as Er. unfold round_sig.
  destruct (Qred q) as [n d] eqn:E. cbn [Qnum Qden].
  assert (Hn : 0 < n). { rewrite <- Er in Hq. unfold Qlt in Hq. simpl in Hq. lia. }
  destruct n as [|n|n]; try lia.
  exists n, d. split; [|reflexivity]. rewrite <- Er. apply Qmake_QZ.
Qed.

Lemma round_sig_neg_shape q : (q < 0)%Q ->
  (round_sig b p q == - round_sig b p (- q))%Q.
Proof. intros _. rewrite round_sig_opp. now rewrite Qopp_involutive. Qed.

(* relative error: half a unit in the p-th significant digit *)
Lemma round_sig_error_pos q : (0 < q)%Q ->
  (Qabs (round_sig b p q - q) <= q * ((1 # 2) * B ^ (1 - p)))%Q.
Proof.
  intros Hq. destruct (round_sig_pos_shape q Hq) as [n [d [Eq Er]]].
  rewrite Er, sig_value_eq.
  destruct (round_sig_pos_spec (Zpos n) (Zpos d) ltac:(lia) ltac:(lia)) as [_ [_ Herr]].
  destruct (exp_of_spec (Zpos n) (Zpos d) ltac:(lia) ltac:(lia)) as [E1 _].
  rewrite <- Eq in Herr, E1. eapply Qle_trans; [exact Herr|].
  set (e := exp_of b (Zpos n) (Zpos d)) in *.
  replace (e - p + 1) with (e + (1 - p)) by lia. rewrite Bpow_add.
  setoid_replace ((1 # 2) * (B ^ e * B ^ (1 - p)))%Q with (B ^ e * ((1 # 2) * B ^ (1 - p)))%Q by ring.
  apply Qmult_le_compat_r; [exact E1|].
  apply Qmult_le_0_compat; [discriminate|apply Qlt_le_weak, Bpow_pos].
Qed.

Lemma round_sig_error q :
  (Qabs (round_sig b p q - q) <= Qabs q * ((1 # 2) * B ^ (1 - p)))%Q.
Proof.
  destruct (Q_dec q 0) as [[Hneg|Hpos]|Hz].
  - assert (Hq' : (0 < - q)%Q) by (rewrite <- (Qopp_involutive 0); now apply Qopp_lt_compat).
    pose proof (round_sig_error_pos (- q) Hq') as H.
    rewrite round_sig_opp in H.
    setoid_replace (- round_sig b p q - - q)%Q with (- (round_sig b p q - q))%Q in H by ring.
    rewrite Qabs_opp in H. rewrite (Qabs_neg q) by now apply Qlt_le_weak. exact H.
  - rewrite (Qabs_pos q) by now apply Qlt_le_weak. now apply round_sig_error_pos.
  - rewrite (round_sig_0 q Hz), Hz. simpl. rewrite Qmult_0_l. discriminate.
Qed.

(* sign and non-vanishing *)
Lemma round_sig_pos_pos q : (0 < q)%Q -> (0 < round_sig b p q)%Q.
Proof.
  intros Hq. destruct (round_sig_pos_shape q Hq) as [n [d [Eq Er]]].
  rewrite Er, sig_value_eq.
  destruct (round_sig_pos_spec (Zpos n) (Zpos d) ltac:(lia) ltac:(lia)) as [[Hm _] _].
  unfold sval. apply Qmult_lt_0_compat; [|apply Bpow_pos].
  apply (proj1 (inject_Z_lt 0 _)).
  assert (0 < b ^ (p - 1)) by (apply Z.pow_pos_nonneg; lia). lia.
Qed.

Lemma round_sig_nonneg q : (0 <= q)%Q -> (0 <= round_sig b p q)%Q.
Proof.
  intros Hq. destruct (Qle_lt_or_eq _ _ Hq) as [H|H].
  - apply Qlt_le_weak. now apply round_sig_pos_pos.
  - rewrite (round_sig_0 q) by (symmetry; exact H). discriminate.
Qed.

(* numbers with at most p significant digits are not changed *)
Lemma round_sig_fix_pos M x : b ^ (p - 1) <= M < b ^ p ->
  (round_sig b p (inject_Z M * B ^ x) == inject_Z M * B ^ x)%Q.
Proof.
  intros HM.
  assert (Hpp : 0 < b ^ (p - 1)) by (apply Z.pow_pos_nonneg; lia).
  assert (Hq : (0 < inject_Z M * B ^ x)%Q).
  { apply Qmult_lt_0_compat; [|apply Bpow_pos]. apply (proj1 (inject_Z_lt 0 _)). lia. }
  destruct (round_sig_pos_shape _ Hq) as [n [d [Eq Er]]].
  rewrite Er, (round_sig_pos_exact (Zpos n) (Zpos d) M x) by (try lia; now rewrite <- Eq).
  rewrite sig_value_eq. unfold sval; cbn [fst snd]. f_equiv. f_equiv. lia.
Qed.

Lemma round_sig_idem q : (round_sig b p (round_sig b p q) == round_sig b p q)%Q.
Proof.
  assert (Pos : forall q, (0 < q)%Q -> (round_sig b p (round_sig b p q) == round_sig b p q)%Q).
  { intros q0 Hq. destruct (round_sig_pos_shape q0 Hq) as [n [d [Eq Er]]].
    destruct (round_sig_pos_spec (Zpos n) (Zpos d) ltac:(lia) ltac:(lia)) as [Hm _].
    assert (Ev : (round_sig b p q0 == sval (round_sig_pos b p (Zpos n) (Zpos d)))%Q)
      by (rewrite Er; apply sig_value_eq).
    rewrite (round_sig_proper _ _ Ev). rewrite Ev. unfold sval. now apply round_sig_fix_pos. }
  destruct (Q_dec q 0) as [[Hneg|Hpos]|Hz].
  - assert (Hq' : (0 < - q)%Q) by (rewrite <- (Qopp_involutive 0); now apply Qopp_lt_compat).
    specialize (Pos (- q)%Q Hq').
    assert (E1 : (round_sig b p (- q) == - round_sig b p q)%Q) by apply round_sig_opp.
    rewrite (round_sig_proper _ _ E1), round_sig_opp, E1 in Pos.
    apply Qopp_comp in Pos. now rewrite !Qopp_involutive in Pos.
  - now apply Pos.
  - rewrite (round_sig_0 q Hz). reflexivity.
Qed.

Lemma round_sig_fix n k : Z.abs n < b ^ p ->
  (round_sig b p (inject_Z n * B ^ k) == inject_Z n * B ^ k)%Q.
Proof.
  assert (Pos : forall n0, 0 < n0 < b ^ p ->
            (round_sig b p (inject_Z n0 * B ^ k) == inject_Z n0 * B ^ k)%Q).
  { intros n0 [H0 H1]. destruct (ilog_spec n0 ltac:(lia)) as [I0 [I1 I2]].
    set (i := ilog b n0) in *.
    assert (Hi : i < p) by (apply (Z.pow_lt_mono_r_iff b); lia).
    set (j := p - 1 - i).
    assert (E : (inject_Z n0 * B ^ k == inject_Z (n0 * b ^ j) * B ^ (k - j))%Q).
    { rewrite inject_Z_mult, <- (Bpow_Z j) by (unfold j; lia).
      rewrite <- Qmult_assoc, <- Bpow_add. replace (j + (k - j)) with k by lia. reflexivity. }
    rewrite (round_sig_proper _ _ E), E. apply round_sig_fix_pos.
    assert (P1 : b ^ (p - 1) = b ^ i * b ^ j).
    { rewrite <- Z.pow_add_r by (unfold j; lia). f_equal. unfold j; lia. }
    assert (P2 : b ^ p = b ^ (i + 1) * b ^ j).
    { rewrite <- Z.pow_add_r by (unfold j; lia). f_equal. unfold j; lia. }
    assert (P3 : 0 < b ^ j) by (apply Z.pow_pos_nonneg; unfold j; lia).
    rewrite P1, P2. nia. }
  intros Hn. destruct (Z.lt_trichotomy n 0) as [Hneg|[Hz|Hpos]].
  - assert (E : (inject_Z n * B ^ k == - (inject_Z (- n) * B ^ k))%Q).
    { rewrite inject_Z_opp. ring. }
    rewrite (round_sig_proper _ _ E), round_sig_opp, E. apply Qopp_comp. apply Pos. lia.
  - subst n. rewrite round_sig_0; [|ring]. ring.
  - apply Pos. lia.
Qed.

End RoundSig.

(* ---------- Theorem 1: the value printed by "%.4g" ---------- *)
Local Open Scope Q_scope.

Theorem round4_idempotent q : round4 (round4 q) == round4 q.
Proof. apply round_sig_idem; lia. Qed.

Theorem round4_opp q : round4 (- q) == - round4 q.
Proof. apply round_sig_opp. Qed.

(* relative error of four significant digits: half a unit of the fourth digit *)
Theorem round4_relative_error q : Qabs (round4 q - q) <= Qabs q * (5 # 10000).
Proof.
  eapply Qle_trans; [apply (round_sig_error 10 4); lia|].
  assert (E : (1 # 2) * inject_Z 10 ^ (1 - 4) == 5 # 10000) by reflexivity.
  rewrite E. apply Qle_refl.
Qed.

(* at most four significant decimal digits: printed exactly *)
Theorem round4_exact n k : (Z.abs n < 10 ^ 4)%Z ->
  round4 (inject_Z n * 10 ^ k) == inject_Z n * 10 ^ k.
Proof. intros H. apply (round_sig_fix 10 4); lia. Qed.

Lemma round4_proper q q' : q == q' -> round4 q = round4 q'.
Proof. apply round_sig_proper. Qed.
Lemma round4_0 : round4 0 = 0.
Proof. reflexivity. Qed.
Lemma round4_pos q : 0 < q -> 0 < round4 q.
Proof. apply round_sig_pos_pos; lia. Qed.

Lemma fl_proper q q' : q == q' -> fl q = fl q'.
Proof. apply round_sig_proper. Qed.
Lemma fl_nonneg q : 0 <= q -> 0 <= fl q.
Proof. apply round_sig_nonneg; lia. Qed.
Lemma fl_idempotent q : fl (fl q) == fl q.
Proof. apply round_sig_idem; lia. Qed.
Lemma fl_relative_error q : Qabs (fl q - q) <= Qabs q * (1 # 2) * 2 ^ (-52).
Proof.
  rewrite <- Qmult_assoc. apply (round_sig_error 2 53); lia.
Qed.

(* ====================================================================================== *)
(* B. the string spells the rounded value                                                  *)
(* ====================================================================================== *)
Local Open Scope Z_scope.

Lemma append_assoc (a c d : string) : append (append a c) d = append a (append c d).
Proof. induction a as [|x a IH]; simpl; [reflexivity|now rewrite IH]. Qed.

Lemma digit_val_char d : 0 <= d < 10 -> digit_val (digit_char d) = Some d.
Proof.
  intros H.
  assert (C : d = 0 \/ d = 1 \/ d = 2 \/ d = 3 \/ d = 4 \/ d = 5 \/ d = 6 \/ d = 7 \/ d = 8 \/ d = 9) by lia.
  repeat (destruct C as [C|C]; [subst d; reflexivity|]). subst d; reflexivity.
Qed.

(* decimal digits of a natural number read back *)
Lemma nat_digits_aux_val fuel : forall n acc, (1 <= fuel)%nat -> 0 <= n < 2 ^ Z.of_nat fuel ->
  exists l, 1 <= l /\
    forall a c, digits_val (nat_digits_aux fuel n acc) a c = digits_val acc (a * 10 ^ l + n) (c + l).
Proof.
  induction fuel as [|f IH]; intros n acc Hf Hn; [lia|].
  cbn [nat_digits_aux].
  assert (Hmod : 0 <= n mod 10 < 10) by (apply Z.mod_pos_bound; lia).
  destruct (Z.ltb_spec n 10) as [Hlt|Hge].
  - exists 1. split; [lia|]. intros a c. cbn [digits_val].
    rewrite (digit_val_char _ Hmod). rewrite Z.mod_small by lia. f_equal; lia.
  - assert (Hpow : 2 ^ Z.of_nat (S f) = 2 * 2 ^ Z.of_nat f).
    { rewrite Nat2Z.inj_succ, Z.pow_succ_r; lia. }
    assert (Hf1 : (1 <= f)%nat).
    { destruct f; [|lia]. simpl in Hn. lia. }
    assert (Hdiv : 0 <= n / 10 < 2 ^ Z.of_nat f).
    { split; [apply Z.div_pos; lia|]. apply Z.div_lt_upper_bound; [lia|].
      assert (0 < 2 ^ Z.of_nat f) by (apply Z.pow_pos_nonneg; lia). lia. }
    destruct (IH (n / 10) (String (digit_char (n mod 10)) acc) Hf1 Hdiv) as [l [Hl Hv]].
    exists (l + 1). split; [lia|]. intros a c. rewrite Hv. cbn [digits_val].
    rewrite (digit_val_char _ Hmod).
    pose proof (Z.div_mod n 10 ltac:(lia)) as E.
    assert (P : 10 ^ (l + 1) = 10 * 10 ^ l) by (rewrite Z.pow_add_r; lia).
    f_equal; [rewrite P; lia | lia].
Qed.

Lemma nat_digits_val n : 0 <= n ->
  exists l, 1 <= l /\ forall a c, digits_val (nat_digits n) a c = Some (a * 10 ^ l + n, c + l).
Proof.
  intros Hn. unfold nat_digits.
  destruct (nat_digits_aux_val (S (Z.to_nat (Z.log2 n))) n EmptyString ltac:(lia)) as [l [Hl Hv]].
  - split; [exact Hn|]. rewrite Nat2Z.inj_succ, Z2Nat.id by apply Z.log2_nonneg.
    destruct (Z.eq_dec n 0) as [->|Hnz]; [reflexivity|].
    destruct (Z.log2_spec n ltac:(lia)) as [_ L]. exact L.
  - exists l. split; [exact Hl|]. intros a c. rewrite Hv. reflexivity.
Qed.

Lemma exp_value_str e : exp_value (exp_str e) = Some e.
Proof.
  unfold exp_str.
  destruct (nat_digits_val (Z.abs e) ltac:(lia)) as [l [Hl Hv]].
  assert (Hd : exists cnt, 1 <= cnt /\
             digits_val (if Z.abs e <? 10 then String "0" (nat_digits (Z.abs e)) else nat_digits (Z.abs e)) 0 0
             = Some (Z.abs e, cnt)).
  { destruct (Z.abs e <? 10).
    - exists (1 + l). split; [lia|]. cbn [digits_val]. change (digit_val "0") with (Some 0). cbv iota.
      rewrite Hv. apply f_equal. apply f_equal2; lia.
    - exists l. split; [lia|]. rewrite Hv. apply f_equal. apply f_equal2; lia. }
  destruct Hd as [cnt [Hc Hd]].
  destruct (Z.ltb_spec e 0) as [Hneg|Hpos].
  - change (append "-" ?x) with (String "-" x). cbn [exp_value]. rewrite Hd.
    destruct (Z.eqb_spec cnt 0); [lia|]. cbn. f_equal. lia.
  - change (append "+" ?x) with (String "+" x). cbn [exp_value]. rewrite Hd.
    destruct (Z.eqb_spec cnt 0); [lia|]. cbn. f_equal. lia.
Qed.

(* splitting at a character the prefix does not contain *)
Fixpoint no_char (c : ascii) (s : string) : bool :=
  match s with
  | EmptyString => true
  | String a r => negb (Ascii.eqb a c) && no_char c r
  end.
Lemma split_at_app c a x : no_char c a = true -> split_at c (append a (String c x)) = (a, Some x).
Proof.
  induction a as [|y a IH]; simpl; intros H.
  - now rewrite Ascii.eqb_refl.
  - apply andb_true_iff in H. destruct H as [H1 H2]. apply negb_true_iff in H1.
    rewrite H1, (IH H2). reflexivity.
Qed.

Lemma decimal_value_nonminus c r : Ascii.eqb c "-" = false ->
  decimal_value (String c r) = unsigned_value (String c r).
Proof.
  intros H. destruct c as [[] [] [] [] [] [] [] []]; try reflexivity; discriminate.
Qed.

(* finite checks by computation *)
Fixpoint all_from (f : Z -> bool) (lo : Z) (n : nat) : bool :=
  match n with
  | O => true
  | S k => f lo && all_from f (lo + 1) k
  end.
Lemma all_from_spec f n : forall lo, all_from f lo n = true ->
  forall z, lo <= z < lo + Z.of_nat n -> f z = true.
Proof.
  induction n as [|k IH]; intros lo H z Hz; [lia|].
  cbn [all_from] in H. apply andb_true_iff in H. destruct H as [H1 H2].
  destruct (Z.eq_dec z lo) as [->|Hne]; [exact H1|].
  apply (IH (lo + 1) H2). lia.
Qed.

Definition sci_mant (m : Z) : string :=
  append (str_of_digits (firstn 1 (digits4 m))) (frac_str (skipn 1 (digits4 m))).
Definition first_not_minus (s : string) : bool :=
  match s with String c _ => negb (Ascii.eqb c "-") | EmptyString => false end.
Definition check_sci (m : Z) : bool :=
  no_char "e" (sci_mant m) && first_not_minus (sci_mant m) &&
  match mant_value (sci_mant m) with
  | Some v => Qeq_bool v (Qmake m 1000)
  | None => false
  end.
Definition check_fix (e m : Z) : bool :=
  match unsigned_value (render4 m e), decimal_value (render4 m e) with
  | Some v, Some v' => Qeq_bool v (bpow_q 10 m (e - 3)) && Qeq_bool v' (bpow_q 10 m (e - 3))
  | _, _ => false
  end.

Lemma check_sci_all : all_from check_sci 1000 (Z.to_nat 9000) = true.
Proof. vm_compute. reflexivity. Qed.
Lemma check_fix_all : all_from (fun e => all_from (check_fix e) 1000 (Z.to_nat 9000)) (-4) 8 = true.
Proof. vm_compute. reflexivity. Qed.

Lemma render4_sci m e : ((-4 <=? e) && (e <? 4))%bool = false ->
  render4 m e = append (sci_mant m) (String "e" (exp_str e)).
Proof. intros H. unfold render4, sci_mant. rewrite H. now rewrite append_assoc. Qed.

Lemma render4_value m e : 1000 <= m <= 9999 ->
  exists v v', unsigned_value (render4 m e) = Some v /\ decimal_value (render4 m e) = Some v' /\
               (v == bpow_q 10 m (e - 3))%Q /\ (v' == bpow_q 10 m (e - 3))%Q.
Proof.
  intros Hm. destruct ((-4 <=? e) && (e <? 4))%bool eqn:Hr.
  - apply andb_true_iff in Hr. destruct Hr as [R1 R2].
    apply Z.leb_le in R1. apply Z.ltb_lt in R2.
    pose proof (all_from_spec _ _ _ check_fix_all e) as H1. cbv beta in H1.
    specialize (H1 ltac:(lia)).
    pose proof (all_from_spec _ _ _ H1 m) as H2. specialize (H2 ltac:(lia)). unfold check_fix in H2.
    destruct (unsigned_value (render4 m e)) as [v|]; [|discriminate].
    destruct (decimal_value (render4 m e)) as [v'|]; [|discriminate].
    apply andb_true_iff in H2. destruct H2 as [H2 H3].
    exists v, v'. repeat split; try reflexivity; now apply Qeq_bool_eq.
  - rewrite (render4_sci m e Hr).
    pose proof (all_from_spec _ _ _ check_sci_all m) as H. specialize (H ltac:(lia)). unfold check_sci in H.
    apply andb_true_iff in H. destruct H as [H H3].
    apply andb_true_iff in H. destruct H as [H1 H2].
    destruct (mant_value (sci_mant m)) as [mv|] eqn:Emv; [|discriminate].
    apply Qeq_bool_eq in H3.
    assert (U : unsigned_value (append (sci_mant m) (String "e" (exp_str e))) = Some (mv * pow10_q e)%Q).
    { unfold unsigned_value. rewrite (split_at_app _ _ _ H1), Emv, exp_value_str. reflexivity. }
    assert (V : (mv * pow10_q e == bpow_q 10 m (e - 3))%Q).
    { rewrite H3. unfold pow10_q. rewrite !(bpow_q_eq 10) by lia.
      replace (e - 3) with (e + -3) by lia. rewrite (Bpow_add 10) by lia.
      rewrite (Qmake_Qdiv m 1000). change (inject_Z 10 ^ (-3))%Q with (/ inject_Z 1000)%Q.
      change (inject_Z (Z.pos 1000)) with (inject_Z 1000). field; try discriminate. }
    exists (mv * pow10_q e)%Q, (mv * pow10_q e)%Q. split; [exact U|]. split; [|split; exact V].
    destruct (sci_mant m) as [|c r] eqn:Es; [discriminate|]. cbn [first_not_minus] in H2.
    apply negb_true_iff in H2. cbn [append]. rewrite (decimal_value_nonminus c _ H2).
    cbn [append] in U. exact U.
Qed.

(* Theorem 2: decimal_value reads the string fmt4 prints back to exactly round4 q — every q,
   no range restriction (the exponent may have any number of digits). *)
Theorem fmt4_value q : exists v, decimal_value (fmt4 q) = Some v /\ (v == round4 q)%Q.
Proof.
  unfold fmt4, round4, round_sig. destruct (Qred q) as [n d]. cbn [Qnum Qden].
  destruct n as [|n|n].
  - exists 0%Q. split; reflexivity.
  - destruct (round_sig_pos_spec 10 4 ltac:(lia) ltac:(lia) (Zpos n) (Zpos d) ltac:(lia) ltac:(lia))
      as [Hm _].
    set (me := round_sig_pos 10 4 (Zpos n) (Zpos d)) in *.
    destruct (render4_value (fst me) (snd me) ltac:(simpl in Hm; lia)) as [v [v' [U [D [E E']]]]].
    exists v'. split; [exact D|]. rewrite E'. unfold sig_value.
    now replace (snd me - 4 + 1) with (snd me - 3) by lia.
  - destruct (round_sig_pos_spec 10 4 ltac:(lia) ltac:(lia) (Zpos n) (Zpos d) ltac:(lia) ltac:(lia))
      as [Hm _].
    set (me := round_sig_pos 10 4 (Zpos n) (Zpos d)) in *.
    destruct (render4_value (fst me) (snd me) ltac:(simpl in Hm; lia)) as [v [v' [U [D [E E']]]]].
    exists (- v)%Q. split.
    + change (decimal_value (String "-" (render4 (fst me) (snd me))))
        with (option_map Qopp (unsigned_value (render4 (fst me) (snd me)))).
      rewrite U. reflexivity.
    + rewrite E. unfold sig_value.
      now replace (snd me - 4 + 1) with (snd me - 3) by lia.
Qed.

(* ====================================================================================== *)
(* C. every term is consumed exactly once                                                  *)
(* ====================================================================================== *)
Lemma scan_spec tp : forall ts k tn rest, scan tp ts = Some (k, tn, rest) ->
  classify tp tn = Some k /\ exists l1 l2, ts = l1 ++ tn :: l2 /\ rest = l1 ++ l2.
Proof.
  induction ts as [|t r IH]; intros k tn rest H; cbn [scan] in H; [discriminate|].
  destruct (classify tp t) as [k0|] eqn:Ec.
  - inversion H; subst. split; [exact Ec|]. exists [], rest. split; reflexivity.
  - destruct (scan tp r) as [[[k1 t1] r1]|] eqn:Es; [|discriminate].
    inversion H; subst. destruct (IH _ _ _ eq_refl) as [C [l1 [l2 [E1 E2]]]].
    split; [exact C|]. exists (t :: l1), l2. subst. split; reflexivity.
Qed.

Lemma item_terms_mk k tp tn : item_terms (mk_item k tp tn) = [tp; tn].
Proof. destruct k; reflexivity. Qed.

Lemma next_item_spec ts it rest : next_item ts = Some (it, rest) ->
  Permutation (item_terms it ++ rest) ts /\ (List.length rest < List.length ts)%nat.
Proof.
  destruct ts as [|tp r]; cbn [next_item]; [discriminate|].
  destruct (scan tp r) as [[[k tn] r']|] eqn:Es; intros H; inversion H; subst.
  - destruct (scan_spec _ _ _ _ _ Es) as [_ [l1 [l2 [E1 E2]]]]. subst.
    rewrite item_terms_mk. split.
    + cbn [app]. apply perm_skip. apply Permutation_middle.
    + cbn [List.length]. rewrite !app_length. cbn [List.length]. lia.
  - split; [apply Permutation_refl|]. cbn [List.length]. lia.
Qed.

Lemma next_item_none ts : next_item ts = None -> ts = [].
Proof.
  destruct ts as [|tp r]; [reflexivity|]. cbn [next_item].
  destruct (scan tp r) as [[[k tn] r']|]; discriminate.
Qed.

Lemma items_fuel_partition fuel : forall ts, (List.length ts <= fuel)%nat ->
  Permutation (List.concat (map item_terms (items_fuel fuel ts))) ts /\
  (List.length (items_fuel fuel ts) <= List.length ts)%nat.
Proof.
  induction fuel as [|f IH]; intros ts Hl.
  - destruct ts; [|cbn in Hl; lia]. split; [apply Permutation_refl|cbn; lia].
  - cbn [items_fuel]. destruct (next_item ts) as [[it rest]|] eqn:En.
    + destruct (next_item_spec _ _ _ En) as [P L].
      destruct (IH rest ltac:(lia)) as [P' L'].
      split.
      * cbn [map List.concat]. eapply Permutation_trans; [|exact P]. now apply Permutation_app_head.
      * cbn [List.length]. lia.
    + rewrite (next_item_none _ En). split; [apply Permutation_refl|cbn; lia].
Qed.

(* Theorem 3 *)
Theorem to_str_list_items ts : to_str_list ts = map item_str (items ts).
Proof.
  unfold to_str_list, items. generalize (List.length ts) as fuel. intros fuel. revert ts.
  induction fuel as [|f IH]; intros ts; [reflexivity|].
  cbn [to_str_list_fuel items_fuel]. destruct ts as [|tp r]; [reflexivity|].
  unfold term_list_to_strings. destruct (next_item (tp :: r)) as [[it rest]|] eqn:En.
  - cbn [map]. now rewrite IH.
  - apply next_item_none in En. discriminate.
Qed.

Theorem to_str_list_partition ts :
  Permutation (List.concat (map item_terms (items ts))) ts /\
  List.length (to_str_list ts) = List.length (items ts) /\
  (List.length (to_str_list ts) <= List.length ts)%nat.
Proof.
  destruct (items_fuel_partition (List.length ts) ts (le_n _)) as [P L].
  split; [exact P|]. rewrite to_str_list_items, map_length. split; [reflexivity|exact L].
Qed.

(* ====================================================================================== *)
(* D. what the printed strings mean                                                        *)
(* ====================================================================================== *)
Local Open Scope R_scope.

Lemma Q2R_one : Q2R 1 = 1.
Proof. unfold Q2R; simpl; lra. Qed.
Lemma Q2R_zero : Q2R 0 = 0.
Proof. unfold Q2R; simpl; lra. Qed.
Lemma Q2R_mone : Q2R (-(1)) = -1.
Proof. unfold Q2R; simpl; lra. Qed.

Lemma lin_perm rho l l' : Permutation l l' -> lin rho l = lin rho l'.
Proof.
  induction 1 as [|[x a] l l' _ IH|[x a] [y c] l|l l' l'' _ IH1 _ IH2]; cbn [lin]; lra.
Qed.

Definition negv (l : pvars) : pvars := map (fun p => (fst p, (- snd p)%Q)) l.
Lemma lin_negv rho l : lin rho (negv l) = - lin rho l.
Proof.
  induction l as [|[x a] r IH]; cbn [negv map lin fst snd]; [lra|].
  fold (negv r). rewrite IH, Q2R_opp. lra.
Qed.

(* sum of a printed list of signed terms *)
Fixpoint sum_st (rho : val) (l : list (sign * lterm)) : R :=
  match l with
  | [] => 0
  | (s, t) :: r => sgn s * tval rho t + sum_st rho r
  end.

Lemma tsval_Terms rho s t rest : tsval rho (Terms s t rest) = sum_st rho ((s, t) :: rest).
Proof.
  cbn [tsval sum_st]. f_equal.
  induction rest as [|[s' t'] r IH]; [reflexivity|]. cbn [sum_st]. rewrite <- IH. reflexivity.
Qed.

Lemma mk_lterms_val rho l L : mk_lterms l = Some L -> tsval rho L = sum_st rho l.
Proof.
  destruct l as [|[s t] r]; cbn [mk_lterms]; [discriminate|].
  intros H; inversion H; subst. apply tsval_Terms.
Qed.

Lemma sideval_plain rho l : sideval rho (plain_side l) = sum_st rho l.
Proof.
  induction l as [|[s t] r IH]; [reflexivity|].
  unfold sideval in *. cbn [plain_side map fold_right sum_st fst snd pval aval]. fold (plain_side r).
  rewrite IH. reflexivity.
Qed.

Definition pc_vars (l : pvars) : pvars := map (fun p => (fst p, print_coef (snd p))) l.

Lemma round4_opp_R c : Q2R (round4 (- c)) = - Q2R (round4 c).
Proof. rewrite <- Q2R_opp. apply Qeq_eqR. apply round4_opp. Qed.

Lemma lhs_terms_go_val rho l : sum_st rho (lhs_terms_go l) = lin rho (pc_vars l).
Proof.
  induction l as [|[v c] r IH]; [reflexivity|].
  cbn [lhs_terms_go pc_vars map lin fst snd]. fold (pc_vars r).
  unfold coef_term, print_coef.
  destruct (approx_equal c 1).
  { cbn [sum_st sgn tval]. rewrite IH, Q2R_one. lra. }
  destruct (approx_equal c (-(1))).
  { cbn [sum_st sgn tval]. rewrite IH, Q2R_mone. lra. }
  destruct (approx_equal c 0); cbn [negb].
  { rewrite IH, Q2R_zero. lra. }
  destruct (qlt 0 c); cbn [sum_st sgn tval cval]; rewrite IH.
  - lra.
  - rewrite round4_opp_R. lra.
Qed.

Lemma lhs_terms_val rho t : sum_st rho (lhs_terms t) = lin rho (tvars (rounded_term t)).
Proof.
  unfold lhs_terms. rewrite lhs_terms_go_val. cbn [rounded_term tvars].
  apply lin_perm. unfold pc_vars. apply Permutation_map. apply sort_perm.
Qed.

Lemma const_term_val rho c :
  sgn (fst (const_term c)) * tval rho (snd (const_term c)) = Q2R (round4 c).
Proof.
  unfold const_term. destruct (qlt c 0); cbn [fst snd sgn tval cval].
  - rewrite round4_opp_R. lra.
  - lra.
Qed.

(* the reading of one emitted string, in terms of the FIRST term's printed numbers only *)
Definition item_rounded_den (rho : val) (it : item) : Prop :=
  match it with
  | ILeq t => sat rho (rounded_term t)
  | IEq tp _ => sat rho (rounded_term tp) /\ sat rho (mirror_eq (rounded_term tp))
  | IAbs0 tp _ => sat rho (mkT (tvars (rounded_term tp)) 0)
                  /\ sat rho (mirror_eq (mkT (tvars (rounded_term tp)) 0))
  | IAbsLeq tp _ => sat rho (rounded_term tp) /\ sat rho (mirror_abs (rounded_term tp))
  end.

Lemma sat_mirror_eq rho t : sat rho (mirror_eq t) <-> - lin rho (tvars t) <= - Q2R (tconst t).
Proof.
  unfold sat, mirror_eq. cbn [tvars tconst]. fold (negv (tvars t)). rewrite lin_negv, Q2R_opp. tauto.
Qed.
Lemma sat_mirror_abs rho t : sat rho (mirror_abs t) <-> - lin rho (tvars t) <= Q2R (tconst t).
Proof.
  unfold sat, mirror_abs. cbn [tvars tconst]. fold (negv (tvars t)). rewrite lin_negv. tauto.
Qed.

Lemma Rabs_le_iff x c : Rabs x <= c <-> (x <= c /\ - x <= c).
Proof. unfold Rabs. destruct (Rcase_abs x); lra. Qed.

Lemma eden_leq2 rho a c : eden rho (ELeq [a; c]) <-> sideval rho a <= sideval rho c.
Proof. cbn [eden map chain]. tauto. Qed.
Lemma sideval_abs rho L : sideval rho [PPlain (AAbs Plus None L)] = Rabs (tsval rho L).
Proof. unfold sideval. cbn [fold_right pval aval sgn kval]. lra. Qed.

(* each syntax tree means exactly its item's rounded reading *)
Theorem item_ast_meaning rho it e : item_ast it = Some e ->
  (eden rho e <-> item_rounded_den rho it).
Proof.
  destruct it as [t|tp tn|tp tn|tp tn]; cbn [item_ast item_rounded_den].
  - pose proof (lhs_terms_val rho t) as Hl.
    destruct (lhs_terms t) as [|st l] eqn:El; [discriminate|].
    intros H; inversion H; subst. rewrite eden_leq2.
    change (PPlain (ATerm (fst st) (snd st)) :: plain_side l) with (plain_side (st :: l)).
    change [PPlain (ATerm (fst (const_term (tconst t))) (snd (const_term (tconst t))))]
      with (plain_side [const_term (tconst t)]).
    rewrite !sideval_plain, Hl. cbn [sum_st]. destruct (const_term (tconst t)) as [cs ct] eqn:Ec.
    pose proof (const_term_val rho (tconst t)) as Hc. rewrite Ec in Hc. cbn [fst snd] in Hc.
    unfold sat. cbn [rounded_term tconst]. cbn [rounded_term tvars] in *. split; intros A; lra.
  - pose proof (lhs_terms_val rho tp) as Hl.
    destruct (mk_lterms (lhs_terms tp)) as [L|] eqn:EL; [|discriminate].
    intros H; inversion H; subst. cbn [eden].
    rewrite (mk_lterms_val rho _ _ EL), Hl, tsval_Terms. cbn [sum_st].
    rewrite (const_term_val rho (tconst tp)), sat_mirror_eq. unfold sat.
    cbn [rounded_term tconst tvars]. split; [intros A; split; lra|intros [A A']; lra].
  - discriminate.
  - pose proof (lhs_terms_val rho tp) as Hl.
    destruct (mk_lterms (lhs_terms tp)) as [L|] eqn:EL; [|discriminate].
    intros H; inversion H; subst. rewrite eden_leq2.
    change [PPlain (ATerm (fst (const_term (tconst tp))) (snd (const_term (tconst tp))))]
      with (plain_side [const_term (tconst tp)]).
    rewrite sideval_plain, sideval_abs. cbn [sum_st].
    rewrite (mk_lterms_val rho _ _ EL), Hl.
    destruct (const_term (tconst tp)) as [cs ct] eqn:Ec.
    pose proof (const_term_val rho (tconst tp)) as Hc. rewrite Ec in Hc. cbn [fst snd] in Hc.
    rewrite sat_mirror_abs. unfold sat. cbn [rounded_term tconst tvars].
    pose proof (Rabs_le_iff (lin rho (map (fun p => (fst p, print_coef (snd p))) (tvars tp)))
                            (Q2R (round4 (tconst tp)))) as Ha.
    split.
    + intros A. apply Ha. lra.
    + intros A. apply Ha in A. lra.
Qed.

(* which strings are outside the grammar *)
Lemma item_ast_none it :
  item_ast it = None <->
  match it with
  | IAbs0 _ _ => True
  | ILeq t | IEq t _ | IAbsLeq t _ => lhs_terms t = []
  end.
Proof.
  destruct it as [t|tp tn|tp tn|tp tn]; cbn [item_ast].
  - destruct (lhs_terms t); split; intros H; (reflexivity || discriminate).
  - destruct (lhs_terms tp) as [|[s t] r]; cbn [mk_lterms]; split; intros H; (reflexivity || discriminate).
  - tauto.
  - destruct (lhs_terms tp) as [|[s t] r]; cbn [mk_lterms]; split; intros H; (reflexivity || discriminate).
Qed.

(* the meaning of a list of emitted strings: every one is in the grammar and holds *)
Definition ast_meaning (rho : val) (l : list (option expr)) : Prop :=
  Forall (fun o => exists e, o = Some e /\ eden rho e) l.
Definition printable (ts : list pterm) : Prop := Forall (fun it => item_ast it <> None) (items ts).

(* Theorem 4, general form: the strings mean the rounded first terms and their exact mirrors *)
Theorem print_meaning_rounded rho ts : printable ts ->
  (ast_meaning rho (to_ast_list ts) <-> Forall (item_rounded_den rho) (items ts)).
Proof.
  unfold printable, ast_meaning, to_ast_list. induction (items ts) as [|it l IH]; intros Hp.
  - split; constructor.
  - inversion Hp as [|? ? Hit Hl]; subst. specialize (IH Hl). cbn [map].
    destruct (item_ast it) as [e|] eqn:Ea; [|congruence].
    pose proof (item_ast_meaning rho it e Ea) as Hm.
    split; intros H; inversion H; subst; constructor.
    + destruct H2 as [e' [E1 E2]]. inversion E1; subst. now apply Hm.
    + now apply IH.
    + exists e. split; [reflexivity|now apply Hm].
    + now apply IH.
Qed.

(* ---------- exactly printed terms, exactly opposite pairs ---------- *)
Definition prints_exactly (t : pterm) : Prop :=
  Forall (fun p => (print_coef (snd p) == snd p)%Q) (tvars t) /\ (round4 (tconst t) == tconst t)%Q.
Definition lin_opposite (tp tn : pterm) : Prop :=
  forall rho, lin rho (tvars tn) = - lin rho (tvars tp).
Definition exact_item (it : item) : Prop :=
  match it with
  | ILeq t => prints_exactly t
  | IEq tp tn => prints_exactly tp /\ lin_opposite tp tn /\ (tconst tn == - tconst tp)%Q
  | IAbs0 _ _ => False
  | IAbsLeq tp tn => prints_exactly tp /\ lin_opposite tp tn /\ (tconst tn == tconst tp)%Q
  end.

Lemma approx_equal_proper x x' y y' : (x == x')%Q -> (y == y')%Q ->
  approx_equal x y = approx_equal x' y'.
Proof.
  intros Ex Ey. unfold approx_equal.
  assert (E1 : fl (x - y) = fl (x' - y')) by (apply fl_proper; now rewrite Ex, Ey).
  assert (E2 : fl (float_closeness_relative_tolerance * Qabs y)
             = fl (float_closeness_relative_tolerance * Qabs y')) by (apply fl_proper; now rewrite Ey).
  now rewrite E1, E2.
Qed.

(* a sufficient, checkable condition for a coefficient to be printed exactly *)
Lemma print_coef_exact c :
  (c == 1)%Q \/ (c == -(1))%Q \/
  (approx_equal c 1 = false /\ approx_equal c (-(1)) = false /\ approx_equal c 0 = false /\
   (round4 c == c)%Q) ->
  (print_coef c == c)%Q.
Proof.
  unfold print_coef. intros [H|[H|[H1 [H2 [H3 H4]]]]].
  - rewrite (approx_equal_proper c 1 1 1 H (Qeq_refl 1)).
    change (approx_equal 1 1) with (approx_equal 1 1). 
    assert (E : approx_equal 1 1 = true) by (vm_compute; reflexivity). rewrite E. now symmetry.
  - rewrite (approx_equal_proper c (-(1)) 1 1 H (Qeq_refl 1)).
    rewrite (approx_equal_proper c (-(1)) (-(1)) (-(1)) H (Qeq_refl _)).
    assert (E1 : approx_equal (-(1)) 1 = false) by (vm_compute; reflexivity).
    assert (E2 : approx_equal (-(1)) (-(1)) = true) by (vm_compute; reflexivity).
    rewrite E1, E2. now symmetry.
  - rewrite H1, H2, H3. exact H4.
Qed.

Lemma prints_exactly_lin rho t : prints_exactly t ->
  lin rho (tvars (rounded_term t)) = lin rho (tvars t) /\ Q2R (tconst (rounded_term t)) = Q2R (tconst t).
Proof.
  intros [Hc Hk]. cbn [rounded_term tvars tconst]. split; [|now apply Qeq_eqR].
  induction Hc as [|[v c] r Hv _ IH]; [reflexivity|].
  cbn [map lin fst snd] in *. rewrite IH. rewrite (Qeq_eqR _ _ Hv). reflexivity.
Qed.

Lemma Forall_one {A} (P : A -> Prop) a : Forall P [a] <-> P a.
Proof. split; [intros H; now inversion H|intros H; constructor; [exact H|constructor]]. Qed.
Lemma Forall_two {A} (P : A -> Prop) a c : Forall P [a; c] <-> P a /\ P c.
Proof.
  split.
  - intros H. split; [now inversion H|]. inversion H as [|x l Ha Hl]. now inversion Hl.
  - intros [H1 H2]. constructor; [exact H1|now apply Forall_one].
Qed.

Lemma exact_item_den rho it : exact_item it ->
  (item_rounded_den rho it <-> Forall (sat rho) (item_terms it)).
Proof.
  destruct it as [t|tp tn|tp tn|tp tn]; cbn [exact_item item_rounded_den item_terms].
  - intros Hx. destruct (prints_exactly_lin rho t Hx) as [E1 E2].
    rewrite Forall_one. unfold sat. rewrite E1, E2. tauto.
  - intros [Hx [Ho Hc]]. destruct (prints_exactly_lin rho tp Hx) as [E1 E2].
    rewrite Forall_two, sat_mirror_eq. unfold sat. rewrite E1, E2.
    specialize (Ho rho). apply Qeq_eqR in Hc. rewrite Q2R_opp in Hc. split; intros [A A']; split; lra.
  - tauto.
  - intros [Hx [Ho Hc]]. destruct (prints_exactly_lin rho tp Hx) as [E1 E2].
    rewrite Forall_two, sat_mirror_abs. unfold sat. rewrite E1, E2.
    specialize (Ho rho). apply Qeq_eqR in Hc. split; intros [A A']; split; lra.
Qed.

Lemma Forall_iff_pointwise {A} (P Q : A -> Prop) l :
  Forall (fun a => P a <-> Q a) l -> (Forall P l <-> Forall Q l).
Proof.
  induction 1 as [|a l H _ IH]; [split; constructor|].
  split; intros F; inversion F; subst; constructor; tauto.
Qed.

(* Theorem 4: when the pairs the printer folds are exactly opposite and every number of the printed
   terms prints exactly, the emitted strings mean exactly the input constraints. *)
Theorem print_meaning_exact_pairs rho ts :
  Forall exact_item (items ts) -> printable ts ->
  (ast_meaning rho (to_ast_list ts) <-> sat_list rho ts).
Proof.
  intros Hx Hp. rewrite (print_meaning_rounded rho ts Hp).
  destruct (to_str_list_partition ts) as [P _].
  unfold sat_list.
  assert (E : Forall (sat rho) ts <-> Forall (sat rho) (List.concat (map item_terms (items ts)))).
  { split; apply Permutation_Forall; [now apply Permutation_sym|exact P]. }
  rewrite E, Forall_concat, Forall_map.
  apply Forall_iff_pointwise. eapply Forall_impl; [|exact Hx].
  intros it Hit. now apply exact_item_den.
Qed.

(* The general reading in terms of the input: non-folded terms are read with all numbers rounded;
   a folded pair is read as the rounded FIRST term and its exact mirror.  That agrees with the
   rounded second term only under the side condition below. *)
Definition partner_rounds_to_mirror (it : item) : Prop :=
  match it with
  | ILeq _ => True
  | IEq tp tn => forall rho, sat rho (rounded_term tn) <-> sat rho (mirror_eq (rounded_term tp))
  | IAbs0 _ _ => False
  | IAbsLeq tp tn => forall rho, sat rho (rounded_term tn) <-> sat rho (mirror_abs (rounded_term tp))
  end.

Theorem print_meaning_rounded_terms rho ts :
  Forall partner_rounds_to_mirror (items ts) -> printable ts ->
  (ast_meaning rho (to_ast_list ts) <-> sat_list rho (map rounded_term ts)).
Proof.
  intros Hx Hp. rewrite (print_meaning_rounded rho ts Hp).
  destruct (to_str_list_partition ts) as [P _].
  unfold sat_list.
  assert (E : Forall (sat rho) (map rounded_term ts)
              <-> Forall (sat rho) (map rounded_term (List.concat (map item_terms (items ts))))).
  { split; apply Permutation_Forall; apply Permutation_map; [now apply Permutation_sym|exact P]. }
  rewrite E, Forall_map, Forall_concat, Forall_map.
  apply Forall_iff_pointwise. eapply Forall_impl; [|exact Hx].
  intros it Hit. destruct it as [t|tp tn|tp tn|tp tn]; cbn [partner_rounds_to_mirror item_rounded_den item_terms] in *.
  - rewrite Forall_one. tauto.
  - rewrite Forall_two, (Hit rho). tauto.
  - tauto.
  - rewrite Forall_two, (Hit rho). tauto.
Qed.

(* ---------- exactly opposite pairs are folded (the quantifier of Theorem 4 is inhabited) ---------- *)
Lemma approx_equal_refl x y : (x == y)%Q -> approx_equal x y = true.
Proof.
  intros E. unfold approx_equal.
  assert (E0 : fl (x - y) = fl 0) by (apply fl_proper; rewrite E; ring).
  rewrite E0. change (fl 0) with 0%Q. apply Qle_bool_iff. cbn [Qabs Z.abs Qnum Qden].
  apply fl_nonneg.
  apply (Qle_trans _ (float_closeness_absolute_tolerance + 0)); [vm_compute; discriminate|].
  apply Qplus_le_r. apply fl_nonneg. apply Qmult_le_0_compat; [vm_compute; discriminate|apply Qabs_nonneg].
Qed.

Lemma keys_negv l : keys (negv l) = keys l.
Proof. unfold keys, negv. rewrite map_map. reflexivity. Qed.

Lemma terms_opposite_negv tp c : NoDup (keys (tvars tp)) ->
  terms_opposite tp (mkT (negv (tvars tp)) c) = true.
Proof.
  intros Hnd. unfold terms_opposite. apply andb_true_iff. split.
  - apply forallb_forall. intros v Hv. unfold term_vars_p in Hv. cbn [tvars] in Hv.
    rewrite keys_negv in Hv. now apply contains_var_in.
  - apply forallb_forall. intros [v a] Hp. cbn [fst snd tvars]. apply andb_true_iff. split.
    + apply contains_var_in. unfold term_vars_p. cbn [tvars]. rewrite keys_negv.
      unfold keys. now apply (in_map fst _ (v, a)).
    + assert (Ha : assoc v (negv (tvars tp)) = Some (- a)%Q).
      { apply assoc_nodup; [now rewrite keys_negv|].
        unfold negv. now apply (in_map (fun p => (fst p, (- snd p)%Q)) _ (v, a)). }
      rewrite Ha. apply approx_equal_refl. reflexivity.
Qed.

(* the exact mirror of the first term, right behind it, is folded into "LHS = c" *)
Theorem exact_mirror_folds tp rest : NoDup (keys (tvars tp)) ->
  next_item (tp :: mirror_eq tp :: rest) = Some (IEq tp (mirror_eq tp), rest).
Proof.
  intros Hnd. cbn [next_item scan]. unfold classify, mirror_eq at 1 2 3.
  fold (negv (tvars tp)). rewrite (terms_opposite_negv tp _ Hnd). cbn [tconst].
  rewrite approx_equal_refl by (now rewrite Qopp_involutive). reflexivity.
Qed.

(* ====================================================================================== *)
(* E. examples and documented limitations                                                  *)
(* ====================================================================================== *)
Local Open Scope string_scope.
Local Open Scope Q_scope.

Example fmt4_examples :
  map fmt4 [1; 19999 # 2; 12345 # 1000000000; 10000000000000000 # 1; 1 # 3; -(1001 # 10); 5 # 10000000; 99995 # 10]
  = ["1"; "1e+04"; "1.234e-05"; "1e+16"; "0.3333"; "-100.1"; "5e-07"; "1e+04"].
Proof. vm_compute. reflexivity. Qed.

(* the shape of the trees: "x - 2 y <= 3" *)
Example ast_shape :
  to_ast_list [mkT [("y", -(2)); ("x", 1)] 3]
  = [Some (ELeq [[PPlain (ATerm Plus (TVar "x")); PPlain (ATerm Minus (TNumVar (CNum (round4 2)) "y"))];
                 [PPlain (ATerm Plus (TNum (CNum (round4 3))))]])]
  /\ to_str_list [mkT [("y", -(2)); ("x", 1)] 3] = ["x - 2 y <= 3"]
  /\ round4 2 == 2 /\ round4 3 == 3.
Proof. vm_compute. repeat split; reflexivity. Qed.

(* quirks of _lhs_str: `first = False` runs even when nothing was printed; no variables at all *)
Example lhs_quirks :
  to_str_list [mkT [("x", 1 # 1000000000); ("y", 1)] 1; mkT [] 3] = [" + y <= 1"; " <= 3"]
  /\ to_ast_list [mkT [] 3] = [None].
Proof. vm_compute. repeat split; reflexivity. Qed.

(* a coefficient that is not isclose to 1 but rounds to 1 is printed as "1 x" *)
Example one_x : to_str_list [mkT [("x", 10001 # 10000)] 0] = ["1 x <= 0"].
Proof. vm_compute. reflexivity. Qed.

(* Limitation 1 (outside the quantifier of print_meaning_exact_pairs): approximately but not exactly
   opposite terms fold, and only the first term's numbers are printed.  Coefficients are the doubles
   1.000495 and -1.000505: np.isclose(-1.000495, -1.000505) holds, yet they round to 1 and -1.001.
   The input is infeasible (x <= -1999.01.. and x >= -1998.99..); the printed "1 x = -2000" is not. *)
Definition near_tp := mkT [("x", Qmake 1126457227296511 1125899906842624)] (-(2000)).
Definition near_tn := mkT [("x", Qmake (-2252936972591159) 2251799813685248)] 2000.

Example near_opposite_pair :
  items [near_tp; near_tn] = [IEq near_tp near_tn] /\
  to_str_list [near_tp; near_tn] = ["1 x = -2000"] /\
  let p : qval := fun _ => -(2000) in
  satQb p (rounded_term near_tp) = true /\
  satQb p (mirror_eq (rounded_term near_tp)) = true /\
  satQb p (rounded_term near_tn) = false /\
  satQb p near_tn = false.
Proof. vm_compute. repeat split; reflexivity. Qed.

Example near_opposite_pair_input_infeasible rho : ~ sat_list rho [near_tp; near_tn].
Proof.
  intros H. apply Forall_two in H. destruct H as [H1 H2].
  unfold sat, near_tp, near_tn in *. cbn [lin tvars tconst] in *.
  unfold Q2R in *. cbn [Qnum Qden Qopp Z.opp inject_Z] in *. lra.
Qed.

Example near_opposite_pair_printed_feasible :
  ast_meaning (fun _ => (-2000)%R) (to_ast_list [near_tp; near_tn]).
Proof.
  assert (Ei : items [near_tp; near_tn] = [IEq near_tp near_tn]) by (vm_compute; reflexivity).
  apply print_meaning_rounded.
  - unfold printable. rewrite Ei. apply Forall_one. vm_compute. discriminate.
  - rewrite Ei. apply Forall_one. cbn [item_rounded_den]. rewrite sat_mirror_eq.
    set (r := rounded_term near_tp). vm_compute in r. subst r.
    unfold sat. cbn [lin tvars tconst]. unfold Q2R. cbn [Qnum Qden]. split; lra.
Qed.

(* Limitation 2: rule 3 prints a string the grammar rejects (absolute values are not allowed around
   "="), and drops both constants.  Both constants are the double 6e-9. *)
Definition r3_c : Q := Qmake 7253554917687775 1208925819614629174706176.
Example rule3_unparseable :
  to_str_list [mkT [("x", 1)] r3_c; mkT [("x", -(1))] r3_c] = ["|x| = 0"] /\
  to_ast_list [mkT [("x", 1)] r3_c; mkT [("x", -(1))] r3_c] = [None].
Proof. vm_compute. split; reflexivity. Qed.

(* Limitation 3: rule 4 is tried first, so |x| <= 1e-9 (x <= 1e-9, -x <= 1e-9: constants equal, both
   isclose to 0 and to each other's negation) is printed as the equality "x = 1e-09". *)
Definition tiny : Q := Qmake 4835703278458517 4835703278458516698824704.
Example tiny_abs_prints_as_equality :
  to_str_list [mkT [("x", 1)] tiny; mkT [("x", -(1))] tiny] = ["x = 1e-09"].
Proof. vm_compute. reflexivity. Qed.

(* the hypotheses of print_meaning_exact_pairs are satisfiable: x + 2 y = 3, |x - 0.5 z| <= 4, z <= 1e+04 *)
Definition demo : list pterm :=
  [mkT [("x", 1); ("y", 2)] 3; mkT [("z", -(1 # 2)); ("x", 1)] 4; mkT [("y", -(2)); ("x", -(1))] (-(3));
   mkT [("z", 1)] 10000; mkT [("x", -(1)); ("z", 1 # 2)] 4].
Example demo_strings : to_str_list demo = ["x + 2 y = 3"; "|x - 0.5 z| <= 4"; "z <= 1e+04"].
Proof. vm_compute. reflexivity. Qed.
Example demo_meaning rho : ast_meaning rho (to_ast_list demo) <-> sat_list rho demo.
Proof.
  assert (Ei : items demo = [IEq (nth 0 demo (mkT [] 0)) (nth 2 demo (mkT [] 0));
                             IAbsLeq (nth 1 demo (mkT [] 0)) (nth 4 demo (mkT [] 0));
                             ILeq (nth 3 demo (mkT [] 0))]) by (vm_compute; reflexivity).
  apply print_meaning_exact_pairs.
  - rewrite Ei. cbn [nth demo].
    repeat (apply Forall_cons); try apply Forall_nil; cbn [exact_item];
      unfold prints_exactly, lin_opposite; cbn [tvars tconst].
    + split; [|split].
      * split; [repeat (apply Forall_cons); try apply Forall_nil; vm_compute; reflexivity
               |vm_compute; reflexivity].
      * intros r. cbn [lin]. unfold Q2R. cbn [Qnum Qden Qopp Z.opp]. lra.
      * reflexivity.
    + split; [|split].
      * split; [repeat (apply Forall_cons); try apply Forall_nil; vm_compute; reflexivity
               |vm_compute; reflexivity].
      * intros r. cbn [lin]. unfold Q2R. cbn [Qnum Qden Qopp Z.opp]. lra.
      * reflexivity.
    + split; [repeat (apply Forall_cons); try apply Forall_nil; vm_compute; reflexivity
             |vm_compute; reflexivity].
  - unfold printable. rewrite Ei.
    repeat (apply Forall_cons); try apply Forall_nil; vm_compute; discriminate.
Qed.
