(* SyntaxGenSerializer.v — T1 tie, serializer.py: _eql_expression_to_polyhedral_terms, _check_absolute_terms,
   _leq_/_geq_expression_to_polyhedral_terms, _expression_to_polyhedral_terms (gen/SyntaxGen.v) against
   eql_expression_to_polyhedral_terms, check_absolute_terms, ineq_expression_to_polyhedral_terms,
   expression_to_polyhedral_terms (model/Syntax.v).  model/Syntax.v folds the two loop functions (leq / geq) and
   their loop body into ineq_expression_to_polyhedral_terms / pair_terms / pair_difference: the composition is
   proved equal.  _check_absolute_terms is equal on every input; the others when the dicts are dicts (gwfs). *)
From Coq Require Import List String Bool QArith ZArith Lia.
Import ListNotations.
Require Import Py ListsGen Sem PyDict PyLoop PySyntax Term Ast Syntax TermGen SyntaxGen.
Require Import ListsFacts TermFacts TermGenBase SyntaxFacts SyntaxGenBase SyntaxGenTermList SyntaxGenAbsTerm
        SyntaxGenAbsTermList.
Open Scope py_scope.
Local Open Scope Q_scope.

(* ------------------------------------------------------------------ *)
(** * _eql_expression_to_polyhedral_terms *)
Theorem eql_expression_eq e :
  gwfs (PolyhedralSyntaxEqlExpression_lhs e) -> gwfs (PolyhedralSyntaxEqlExpression_rhs e) ->
  serializer_eql_expression_to_polyhedral_terms e
  = ret (eql_expression_to_polyhedral_terms (to_stl (PolyhedralSyntaxEqlExpression_lhs e))
                                            (to_stl (PolyhedralSyntaxEqlExpression_rhs e))).
Proof.
  intros Hl Hr. unfold serializer_eql_expression_to_polyhedral_terms, eql_expression_to_polyhedral_terms. cbv zeta.
  rewrite (stl_negate_of _ Hl), (stl_negate_of _ Hr), !stl_add_ret. cbn [bind ret]. rewrite !to_of_stl.
  rewrite !stl_to_polyhedral_term_eq.
  - rewrite !to_of_stl. reflexivity.
  - apply gwfs_of, wfs_add_c. exact Hr.
  - apply gwfs_of, wfs_add_c. exact Hl.
Qed.

(* ------------------------------------------------------------------ *)
(** * _check_absolute_terms : unconditional *)
Lemma forallb_filter_neg {A} (f : A -> bool) l :
  forallb f l = match filter (fun x => negb (f x)) l with [] => true | _ => false end.
Proof.
  induction l as [|x r IH]; [reflexivity|]. cbn [forallb filter]. destruct (f x); cbn [negb andb]; [exact IH|reflexivity].
Qed.
Lemma collect_negative (l : list gabs) (acc : list msg) :
  fold_left (fun a x => if negb (PolyhedralSyntaxAbsoluteTerm_is_positive x) then py_append a (py_str x) else a) l acc
  = acc ++ map (fun _ => tt) (filter (fun x => negb (PolyhedralSyntaxAbsoluteTerm_is_positive x)) l).
Proof.
  revert acc. induction l as [|x r IH]; intros acc; cbn [fold_left filter map]; [rewrite app_nil_r; reflexivity|].
  rewrite IH. destruct (negb (PolyhedralSyntaxAbsoluteTerm_is_positive x)); [|reflexivity].
  unfold py_append, py_str. cbn [map]. rewrite <- app_assoc. reflexivity.
Qed.
Theorem check_absolute_terms_eq s l :
  serializer_check_absolute_terms s l = check_absolute_terms (map to_sabs l).
Proof.
  unfold serializer_check_absolute_terms, check_absolute_terms. cbv zeta.
  rewrite (for_list_fold (fun a x => if negb (PolyhedralSyntaxAbsoluteTerm_is_positive x) then py_append a (py_str x) else a)).
  2:{ intros a x _. destruct (negb (PolyhedralSyntaxAbsoluteTerm_is_positive x)); reflexivity. }
  rewrite collect_negative, zlen_ltb0. cbn [app].
  assert (Hf : forallb abs_is_positive (map to_sabs l) = forallb PolyhedralSyntaxAbsoluteTerm_is_positive l).
  { induction l as [|x r IH]; [reflexivity|]. cbn [map forallb]. rewrite IH, abs_is_positive_eq. reflexivity. }
  rewrite Hf, forallb_filter_neg.
  destruct (filter (fun x => negb (PolyhedralSyntaxAbsoluteTerm_is_positive x)) l); reflexivity.
Qed.

(* ------------------------------------------------------------------ *)
(** * _leq_expression_to_polyhedral_terms / _geq_expression_to_polyhedral_terms *)
(* zip(l, l[1:]) *)
Lemma zip_tail_adjacent {A} (l : list A) : py_zip l (py_slice_from l 1) = adjacent l.
Proof.
  unfold py_zip, py_slice_from. induction l as [|a r IH]; [reflexivity|].
  destruct r as [|b r']; [reflexivity|]. cbn [skipn combine adjacent] in *. rewrite IH. reflexivity.
Qed.
Lemma adjacent_in {A} (l : list A) a b : In (a, b) (adjacent l) -> In a l /\ In b l.
Proof.
  induction l as [|x r IH]; [intros []|]. destruct r as [|y r']; [intros []|].
  cbn [adjacent]. intros [H|H].
  - inversion H; subst. split; [left; reflexivity|right; left; reflexivity].
  - destruct (IH H) as [H1 H2]. split; right; assumption.
Qed.
Lemma adjacent_map {A B} (f : A -> B) l : adjacent (map f l) = map (fun p => (f (fst p), f (snd p))) (adjacent l).
Proof.
  induction l as [|x r IH]; [reflexivity|]. destruct r as [|y r']; [reflexivity|].
  cbn [map adjacent] in *. rewrite IH. reflexivity.
Qed.
Lemma concat_mapM_map {A B C} (g : A -> B) (f : B -> M (list C)) l :
  concat_mapM f (map g l) = concat_mapM (fun x => f (g x)) l.
Proof. induction l as [|x r IH]; [reflexivity|]. cbn [map concat_mapM]. rewrite IH. reflexivity. Qed.
Lemma concat_mapM_ext {A B} (f g : A -> M (list B)) l :
  (forall x, In x l -> f x = g x) -> concat_mapM f l = concat_mapM g l.
Proof.
  induction l as [|x r IH]; intros H; [reflexivity|]. cbn [concat_mapM].
  rewrite (H x (or_introl eq_refl)), IH; [reflexivity|]. intros y Hy. apply H. right. exact Hy.
Qed.
(* for x in l: pts.extend(F x)   with a raising F *)
Lemma for_list_m_concat {X B} (F : X -> M (list B)) body (l : list X) (acc : list B) :
  (forall a x, In x l -> body a x = bind (F x) (fun ys => ret (Continue (a ++ ys)))) ->
  for_list_m l acc body = bind (concat_mapM F l) (fun zs => ret (acc ++ zs)).
Proof.
  revert acc. induction l as [|x r IH]; intros acc H.
  - cbn. rewrite app_nil_r. reflexivity.
  - cbn [for_list_m concat_mapM]. rewrite (H acc x (or_introl eq_refl)).
    destruct (F x) as [ys|e]; [|reflexivity]. cbn [bind ret].
    rewrite IH by (intros a y Hy; apply H; right; exact Hy).
    destruct (concat_mapM F r) as [zs|e]; [|reflexivity]. cbn [bind ret]. rewrite app_assoc. reflexivity.
Qed.

Lemma satl_expand_wfs d : wfs (aterms d) -> Forall wfs (satl_expand d).
Proof.
  intros H. unfold satl_expand. destruct (aabs d); [constructor; [exact H|constructor]|].
  apply Forall_map. apply Forall_forall. intros tl _. apply wfs_add_c. exact H.
Qed.
Lemma map_to_polyhedral_term l :
  Forall wfs l -> map PolyhedralSyntaxTermList_to_polyhedral_term (map of_stl l) = map stl_to_pterm l.
Proof.
  intros H. rewrite map_map. apply map_ext_in. intros x Hx. rewrite Forall_forall in H.
  rewrite stl_to_polyhedral_term_eq by (apply gwfs_of, H, Hx). rewrite to_of_stl. reflexivity.
Qed.

(* one iteration: a.add(b.negate()) / a.negate().add(b), the convexity check, the expansion *)
Lemma pair_body op s (a b : gatl) :
  gwfatl a -> gwfatl b ->
  bind (match op with
        | OpLeq => PolyhedralSyntaxAbsoluteTermList_add a (PolyhedralSyntaxAbsoluteTermList_negate b)
        | OpGeq => PolyhedralSyntaxAbsoluteTermList_add (PolyhedralSyntaxAbsoluteTermList_negate a) b
        end)
       (fun d => bind (serializer_check_absolute_terms s (gabsl d))
                      (fun _ => bind (PolyhedralSyntaxAbsoluteTermList_expand d)
                                     (fun t => ret (map PolyhedralSyntaxTermList_to_polyhedral_term t))))
  = pair_terms op (to_satl a, to_satl b).
Proof.
  intros Ha Hb. pose proof (proj1 (gwfatl_wfb a) Ha) as Hwa. pose proof (proj1 (gwfatl_wfb b) Hb) as Hwb.
  unfold pair_terms, pair_difference. cbn [fst snd].
  assert (Hd : wfb (match op with
                    | OpLeq => satl_add (to_satl a) (satl_negate (to_satl b))
                    | OpGeq => satl_add (satl_negate (to_satl a)) (to_satl b)
                    end)).
  { destruct op; [apply wfb_add; [exact Hwa|apply wfb_negate; exact Hwb]
                 |apply wfb_add; [apply wfb_negate; exact Hwa|exact Hwb]]. }
  destruct op.
  - rewrite (satl_negate_of b (proj1 Hb)), satl_add_ret. cbn [bind ret]. rewrite !to_of_satl.
    set (d := satl_add (to_satl a) (satl_negate (to_satl b))) in *.
    rewrite check_absolute_terms_eq. cbn [gabsl of_satl]. rewrite map_to_of_sabs.
    destruct (check_absolute_terms (aabs d)) as [u|e]; [|reflexivity]. cbn [bind ret].
    rewrite satl_expand_ret by (apply gwfatl_wfb; rewrite to_of_satl; exact Hd).
    cbn [bind ret]. rewrite to_of_satl, map_to_polyhedral_term; [reflexivity|].
    apply satl_expand_wfs. exact (proj1 Hd).
  - rewrite (satl_negate_of a (proj1 Ha)), satl_add_ret. cbn [bind ret]. rewrite !to_of_satl.
    set (d := satl_add (satl_negate (to_satl a)) (to_satl b)) in *.
    rewrite check_absolute_terms_eq. cbn [gabsl of_satl]. rewrite map_to_of_sabs.
    destruct (check_absolute_terms (aabs d)) as [u|e]; [|reflexivity]. cbn [bind ret].
    rewrite satl_expand_ret by (apply gwfatl_wfb; rewrite to_of_satl; exact Hd).
    cbn [bind ret]. rewrite to_of_satl, map_to_polyhedral_term; [reflexivity|].
    apply satl_expand_wfs. exact (proj1 Hd).
Qed.

Lemma len_check {A} (l : list A) : (2 <=? zlen l)%Z = negb (List.length l <? 2)%nat.
Proof.
  unfold zlen. destruct (List.length l <? 2)%nat eqn:E; cbn [negb].
  - apply Nat.ltb_lt in E. apply Z.leb_gt. lia.
  - apply Nat.ltb_ge in E. apply Z.leb_le. lia.
Qed.

(* the shape shared by the two loop functions *)
Lemma ineq_loop op (sides : list gatl) body :
  Forall gwfatl sides ->
  (forall pts a b, In a sides -> In b sides ->
     body pts (a, b) = bind (pair_terms op (to_satl a, to_satl b)) (fun ys => ret (Continue (pts ++ ys)))) ->
  bind (for_list_m (py_zip sides (py_slice_from sides 1)) [] body) (fun pts => ret pts)
  = concat_mapM (pair_terms op) (adjacent (map to_satl sides)).
Proof.
  intros Hwf Hb. rewrite zip_tail_adjacent.
  rewrite (for_list_m_concat (fun p => pair_terms op (to_satl (fst p), to_satl (snd p)))).
  - rewrite adjacent_map, concat_mapM_map.
    destruct (concat_mapM _ (adjacent sides)) as [zs|e]; reflexivity.
  - intros pts [a b] Hin. destruct (adjacent_in _ _ _ Hin) as [Ha Hb']. apply Hb; assumption.
Qed.

Theorem leq_expression_eq s e :
  Forall gwfatl (PolyhedralSyntaxIneqExpression_sides e) ->
  serializer_leq_expression_to_polyhedral_terms s e
  = ineq_expression_to_polyhedral_terms OpLeq (map to_satl (PolyhedralSyntaxIneqExpression_sides e)).
Proof.
  intros Hwf. unfold serializer_leq_expression_to_polyhedral_terms, ineq_expression_to_polyhedral_terms. cbv zeta.
  rewrite len_check, map_length. destruct (List.length (PolyhedralSyntaxIneqExpression_sides e) <? 2)%nat; [reflexivity|].
  cbn [negb]. apply (ineq_loop OpLeq _ _ Hwf).
  intros pts a b Ha Hb. rewrite Forall_forall in Hwf.
  rewrite <- (pair_body OpLeq s a b (Hwf a Ha) (Hwf b Hb)).
  destruct (PolyhedralSyntaxAbsoluteTermList_add a (PolyhedralSyntaxAbsoluteTermList_negate b)) as [d|x]; [|reflexivity].
  cbn [bind]. destruct (serializer_check_absolute_terms s (gabsl d)) as [u|x]; [|reflexivity].
  cbn [bind]. destruct (PolyhedralSyntaxAbsoluteTermList_expand d) as [t|x]; [|reflexivity].
  cbn [bind ret].
  rewrite (for_list_fold (fun a x => a ++ [PolyhedralSyntaxTermList_to_polyhedral_term x])) by (intros; reflexivity).
  rewrite fold_append_map. reflexivity.
Qed.
Theorem geq_expression_eq s e :
  Forall gwfatl (PolyhedralSyntaxIneqExpression_sides e) ->
  serializer_geq_expression_to_polyhedral_terms s e
  = ineq_expression_to_polyhedral_terms OpGeq (map to_satl (PolyhedralSyntaxIneqExpression_sides e)).
Proof.
  intros Hwf. unfold serializer_geq_expression_to_polyhedral_terms, ineq_expression_to_polyhedral_terms. cbv zeta.
  rewrite len_check, map_length. destruct (List.length (PolyhedralSyntaxIneqExpression_sides e) <? 2)%nat; [reflexivity|].
  cbn [negb]. apply (ineq_loop OpGeq _ _ Hwf).
  intros pts a b Ha Hb. rewrite Forall_forall in Hwf.
  rewrite <- (pair_body OpGeq s a b (Hwf a Ha) (Hwf b Hb)).
  destruct (PolyhedralSyntaxAbsoluteTermList_add (PolyhedralSyntaxAbsoluteTermList_negate a) b) as [d|x]; [|reflexivity].
  cbn [bind]. destruct (serializer_check_absolute_terms s (gabsl d)) as [u|x]; [|reflexivity].
  cbn [bind]. destruct (PolyhedralSyntaxAbsoluteTermList_expand d) as [t|x]; [|reflexivity].
  cbn [bind ret].
  rewrite (for_list_fold (fun a x => a ++ [PolyhedralSyntaxTermList_to_polyhedral_term x])) by (intros; reflexivity).
  rewrite fold_append_map. reflexivity.
Qed.

(* ------------------------------------------------------------------ *)
(** * _expression_to_polyhedral_terms *)
Definition gwf_expr (e : gexpr) : Prop :=
  match e with
  | Expr_Eql e => gwfs (PolyhedralSyntaxEqlExpression_lhs e) /\ gwfs (PolyhedralSyntaxEqlExpression_rhs e)
  | Expr_Ineq e => Forall gwfatl (PolyhedralSyntaxIneqExpression_sides e)
  end.
Theorem expression_to_polyhedral_terms_eq s e :
  gwf_expr e -> serializer_expression_to_polyhedral_terms s e = expression_to_polyhedral_terms (to_sexpr e).
Proof.
  destruct e as [e|e]; cbn [gwf_expr serializer_expression_to_polyhedral_terms to_sexpr expression_to_polyhedral_terms].
  - intros [Hl Hr]. apply eql_expression_eq; assumption.
  - intros Hwf. destruct (PolyhedralSyntaxIneqExpression_operator e); cbn [PolyhedralSyntaxOperator_eqb to_sop].
    + apply geq_expression_eq. exact Hwf.
    + apply leq_expression_eq. exact Hwf.
    + apply geq_expression_eq. exact Hwf.
Qed.

(* ------------------------------------------------------------------ *)
(** * The hypothesis is necessary, and a remark on the operator *)
Local Open Scope string_scope.
(* a repeated key in a side: the generated code (like Python on a real dict) sees one item, the hand model two *)
Example eql_repeated_key :
  let e := PolyhedralSyntaxEqlExpression_new (mkG 0 [("x", 1); ("x", 2 # 1)]) (mkG 0 []) in
  serializer_eql_expression_to_polyhedral_terms e <>
  ret (eql_expression_to_polyhedral_terms (to_stl (PolyhedralSyntaxEqlExpression_lhs e))
                                          (to_stl (PolyhedralSyntaxEqlExpression_rhs e))).
Proof. cbv. intros H. discriminate H. Qed.
(* an inequality expression whose operator field is `eql` (never built by the parse actions) is read as >= *)
Example ineq_with_eql_operator s sides :
  serializer_expression_to_polyhedral_terms s (Expr_Ineq (mk_PolyhedralSyntaxIneqExpression PolyhedralSyntaxOperator_eql sides))
  = serializer_geq_expression_to_polyhedral_terms s (mk_PolyhedralSyntaxIneqExpression PolyhedralSyntaxOperator_eql sides).
Proof. reflexivity. Qed.
