(* TermFacts.v — facts about the executable model of PolyhedralTerm (model/Term.v)
   with respect to the meaning given in base/Sem.v.
   Well-formedness [wft]: the keys of the dict are pairwise distinct (Python dict).
   [wft']: additionally every stored coefficient is nonzero (what __init__ guarantees). *)
From Coq Require Import List String Bool QArith Qabs ZArith NArith Ascii Reals Qreals Lra
  Permutation Sorted.
Import ListNotations.
Require Import Py ListsGen Sem Term QR ListsFacts.
Local Open Scope R_scope.

(* ------------------------------------------------------------------ *)
(** * Well-formedness *)
Definition wft (t : pterm) : Prop := NoDup (keys (tvars t)).
Definition nzl (l : pvars) : Prop := Forall (fun p => ~ (snd p == 0)%Q) l.
Definition wft' (t : pterm) : Prop :=
  wft t /\ Forall (fun p => ~ (snd p == 0)%Q) (tvars t).

(* the filter of __init__ *)
Definition nzb (p : var * Q) : bool := negb (qzero (snd p)).
(* first binding of v, or 0 *)
Definition coef (l : pvars) (v : var) : Q :=
  match assoc v l with Some q => q | None => 0%Q end.

Lemma mk_term_vars vs c : tvars (mk_term vs c) = filter nzb vs.
Proof. reflexivity. Qed.
Lemma mk_term_const vs c : tconst (mk_term vs c) = c.
Proof. reflexivity. Qed.

(* ------------------------------------------------------------------ *)
(** * Association lists *)
Lemma assoc_none v l : assoc v l = None <-> ~ In v (keys l).
Proof.
  induction l as [|[k q] r IH]; simpl; [tauto|].
  destruct (String.eqb k v) eqn:E.
  - apply String.eqb_eq in E. split; [discriminate|]. intros H. exfalso. apply H. left. exact E.
  - apply String.eqb_neq in E. rewrite IH. tauto.
Qed.
Lemma assoc_some_in v q l : assoc v l = Some q -> In (v, q) l.
Proof.
  induction l as [|[k q'] r IH]; simpl; [discriminate|].
  destruct (String.eqb k v) eqn:E.
  - apply String.eqb_eq in E. intros H. inversion H. subst. left. reflexivity.
  - intros H. right. apply IH. exact H.
Qed.
Lemma in_keys v q (l : pvars) : In (v, q) l -> In v (keys l).
Proof. intros H. unfold keys. change v with (fst (v, q)). apply in_map. exact H. Qed.
Lemma in_keys_ex v (l : pvars) : In v (keys l) -> exists q, In (v, q) l.
Proof.
  unfold keys. rewrite in_map_iff. intros [[k q] [Hk Hi]]. simpl in Hk. subst. eauto.
Qed.
Lemma assoc_in_keys v l : In v (keys l) -> exists q, assoc v l = Some q.
Proof.
  intros H. destruct (assoc v l) as [q|] eqn:E; [eauto|].
  apply assoc_none in E. contradiction.
Qed.
Lemma assoc_nodup v q l : NoDup (keys l) -> In (v, q) l -> assoc v l = Some q.
Proof.
  induction l as [|[k q'] r IH]; simpl; [tauto|].
  intros Hn Hi. inversion Hn as [|? ? Hk Hr]; subst.
  destruct Hi as [Hi|Hi].
  - inversion Hi; subst. rewrite String.eqb_refl. reflexivity.
  - destruct (String.eqb k v) eqn:E.
    + apply String.eqb_eq in E. subst. exfalso. apply Hk. eapply in_keys. exact Hi.
    + apply IH; assumption.
Qed.
Lemma has_key_in v l : has_key v l = true <-> In v (keys l).
Proof.
  unfold has_key. destruct (assoc v l) as [q|] eqn:E.
  - split; [|reflexivity]. intros _. apply assoc_some_in in E. eapply in_keys. exact E.
  - apply assoc_none in E. split; [discriminate|contradiction].
Qed.

Lemma coef_cons_eq k q r : coef ((k, q) :: r) k = q.
Proof. unfold coef. simpl. rewrite String.eqb_refl. reflexivity. Qed.
Lemma coef_cons_neq k q r v : k <> v -> coef ((k, q) :: r) v = coef r v.
Proof. intros H. unfold coef. simpl. apply String.eqb_neq in H. rewrite H. reflexivity. Qed.
Lemma coef_notin l v : ~ In v (keys l) -> coef l v = 0%Q.
Proof. intros H. apply assoc_none in H. unfold coef. rewrite H. reflexivity. Qed.
Lemma coef_nil v : coef [] v = 0%Q.
Proof. reflexivity. Qed.
Lemma coef_in l v q : NoDup (keys l) -> In (v, q) l -> coef l v = q.
Proof. intros Hn Hi. unfold coef. rewrite (assoc_nodup v q l Hn Hi). reflexivity. Qed.

Lemma get_coefficient_coef t v : get_coefficient t v = coef (tvars t) v.
Proof.
  unfold get_coefficient, contains_var, coef.
  destruct (py_in v (term_vars_p t)) eqn:E; [reflexivity|].
  apply py_in_var_false in E. unfold term_vars_p in E. apply assoc_none in E.
  rewrite E. reflexivity.
Qed.
Lemma get_coefficient_notin t v : ~ In v (term_vars_p t) -> get_coefficient t v = 0%Q.
Proof.
  intros H. unfold get_coefficient, contains_var.
  apply py_in_var_false in H. rewrite H. reflexivity.
Qed.
Lemma contains_var_in t v : contains_var t v = true <-> In v (term_vars_p t).
Proof. unfold contains_var. apply py_in_var. Qed.
Lemma contains_var_notin t v : contains_var t v = false <-> ~ In v (term_vars_p t).
Proof. unfold contains_var. apply py_in_var_false. Qed.

(* keys under filter / map / dict_set / dict_pop *)
Lemma keys_cons k q r : keys ((k, q) :: r) = k :: keys r.
Proof. reflexivity. Qed.
Lemma keys_filter_incl (f : var * Q -> bool) l x : In x (keys (filter f l)) -> In x (keys l).
Proof.
  intros H. apply in_keys_ex in H. destruct H as [q H]. apply filter_In in H.
  eapply in_keys. apply H.
Qed.
Lemma NoDup_keys_filter (f : var * Q -> bool) l : NoDup (keys l) -> NoDup (keys (filter f l)).
Proof.
  induction l as [|[k q] r IH]; simpl; intros Hn; [constructor|].
  inversion Hn as [|? ? Hk Hr]; subst.
  destruct (f (k, q)); [|apply IH; assumption].
  simpl. constructor; [|apply IH; assumption].
  intros Hi. apply Hk. eapply keys_filter_incl. exact Hi.
Qed.
Lemma keys_map_snd (g : var * Q -> Q) l : keys (map (fun p => (fst p, g p)) l) = keys l.
Proof. unfold keys. rewrite map_map. apply map_ext. reflexivity. Qed.
Lemma keys_map_var (h : var -> Q) vl : keys (map (fun v => (v, h v)) vl) = vl.
Proof. unfold keys. rewrite map_map. simpl. apply map_id. Qed.

Lemma in_keys_dict_pop l v x : In x (keys (dict_pop l v)) <-> In x (keys l) /\ x <> v.
Proof.
  unfold dict_pop. split.
  - intros H. apply in_keys_ex in H. destruct H as [q H]. apply filter_In in H.
    destruct H as [Hi Hb]. simpl in Hb. apply negb_true_iff in Hb. apply String.eqb_neq in Hb.
    split; [eapply in_keys; exact Hi|exact Hb].
  - intros [H Hn]. apply in_keys_ex in H. destruct H as [q H].
    apply (in_keys x q). apply filter_In. split; [exact H|]. simpl.
    apply negb_true_iff. apply String.eqb_neq. exact Hn.
Qed.
Lemma in_keys_dict_set l k q x : In x (keys (dict_set l k q)) <-> In x (keys l) \/ x = k.
Proof.
  induction l as [|[k' q'] r IH]; simpl.
  - split; [intros [H|[]]; right; congruence|intros [[]|H]; left; congruence].
  - destruct (String.eqb k' k) eqn:E.
    + apply String.eqb_eq in E. subst. simpl. split; [tauto|]. intros [H|H]; [tauto|left; congruence].
    + simpl. rewrite IH. tauto.
Qed.
Lemma NoDup_keys_dict_set l k q : NoDup (keys l) -> NoDup (keys (dict_set l k q)).
Proof.
  induction l as [|[k' q'] r IH]; simpl; intros Hn.
  - constructor; [intros []|constructor].
  - inversion Hn as [|? ? Hk Hr]; subst. destruct (String.eqb k' k) eqn:E.
    + simpl. constructor; assumption.
    + apply String.eqb_neq in E. simpl. constructor; [|apply IH; assumption].
      rewrite in_keys_dict_set. intros [H|H]; [contradiction|congruence].
Qed.
Lemma coef_dict_set_eq l k q : coef (dict_set l k q) k = q.
Proof.
  induction l as [|[k' q'] r IH]; simpl.
  - apply coef_cons_eq.
  - destruct (String.eqb k' k) eqn:E.
    + apply String.eqb_eq in E. subst. apply coef_cons_eq.
    + apply String.eqb_neq in E. rewrite coef_cons_neq by exact E. exact IH.
Qed.
Lemma coef_dict_set_neq l k q v : v <> k -> coef (dict_set l k q) v = coef l v.
Proof.
  intros Hv. induction l as [|[k' q'] r IH]; simpl.
  - rewrite coef_cons_neq by congruence. reflexivity.
  - destruct (String.eqb k' k) eqn:E.
    + apply String.eqb_eq in E. subst. rewrite !coef_cons_neq by congruence. reflexivity.
    + destruct (string_dec k' v) as [->|Hn].
      * rewrite !coef_cons_eq. reflexivity.
      * rewrite !coef_cons_neq by exact Hn. exact IH.
Qed.

(* nonzero coefficients *)
Lemma nzl_filter l : nzl (filter nzb l).
Proof.
  unfold nzl. apply Forall_forall. intros p Hp. apply filter_In in Hp. destruct Hp as [_ Hp].
  unfold nzb in Hp. apply negb_true_iff in Hp. apply qzero_false_iff. exact Hp.
Qed.
Lemma nzl_filter_any (f : var * Q -> bool) l : nzl l -> nzl (filter f l).
Proof.
  unfold nzl. rewrite !Forall_forall. intros H p Hp. apply filter_In in Hp. apply H. tauto.
Qed.
Lemma filter_nzb_id l : nzl l -> filter nzb l = l.
Proof.
  induction 1 as [|p r Hp Hr IH]; simpl; [reflexivity|].
  unfold nzb at 1. apply qzero_false_iff in Hp. rewrite Hp. simpl. f_equal. exact IH.
Qed.

(* ------------------------------------------------------------------ *)
(** * Preservation of well-formedness *)
Lemma wft_mk_term vs c : NoDup (keys vs) -> wft (mk_term vs c).
Proof. intros H. unfold wft. rewrite mk_term_vars. apply NoDup_keys_filter. exact H. Qed.
Lemma nz_mk_term vs c : nzl (tvars (mk_term vs c)).
Proof. rewrite mk_term_vars. apply nzl_filter. Qed.
Lemma wft'_mk_term vs c : NoDup (keys vs) -> wft' (mk_term vs c).
Proof. intros H. split; [apply wft_mk_term; exact H|apply nz_mk_term]. Qed.

Lemma wft_copy t : wft t -> wft (term_copy t).
Proof. intros H. apply wft_mk_term. exact H. Qed.
Lemma nz_copy t : nzl (tvars (term_copy t)).
Proof. apply nz_mk_term. Qed.
Lemma wft'_copy t : wft t -> wft' (term_copy t).
Proof. intros H. apply wft'_mk_term. exact H. Qed.

Lemma wft_add t1 t2 : wft t1 -> wft t2 -> wft (term_add t1 t2).
Proof.
  intros H1 H2. unfold term_add. apply wft_mk_term. rewrite keys_map_var.
  apply NoDup_list_union; assumption.
Qed.
Lemma nz_add t1 t2 : nzl (tvars (term_add t1 t2)).
Proof. apply nz_mk_term. Qed.
Lemma wft'_add t1 t2 : wft t1 -> wft t2 -> wft' (term_add t1 t2).
Proof. intros H1 H2. split; [apply wft_add; assumption|apply nz_add]. Qed.

Lemma wft_remove_variable t v : wft t -> wft (term_remove_variable t v).
Proof.
  intros H. unfold term_remove_variable. destruct (contains_var t v).
  - unfold wft. simpl tvars. unfold dict_pop. apply NoDup_keys_filter. apply NoDup_keys_filter. exact H.
  - apply wft_copy. exact H.
Qed.
Lemma nz_remove_variable t v : nzl (tvars (term_remove_variable t v)).
Proof.
  unfold term_remove_variable. destruct (contains_var t v).
  - simpl tvars. unfold dict_pop. apply nzl_filter_any. apply nzl_filter.
  - apply nz_copy.
Qed.
Lemma wft'_remove_variable t v : wft t -> wft' (term_remove_variable t v).
Proof. intros H. split; [apply wft_remove_variable; exact H|apply nz_remove_variable]. Qed.

Lemma wft_multiply t f : wft t -> wft (term_multiply t f).
Proof.
  intros H. unfold term_multiply. apply wft_mk_term.
  rewrite (keys_map_snd (fun p => qmul f (snd p))). exact H.
Qed.
Lemma nz_multiply t f : nzl (tvars (term_multiply t f)).
Proof. apply nz_mk_term. Qed.
Lemma wft'_multiply t f : wft t -> wft' (term_multiply t f).
Proof. intros H. split; [apply wft_multiply; exact H|apply nz_multiply]. Qed.

Lemma wft_substitute_variable t v s : wft t -> wft s -> wft (term_substitute_variable t v s).
Proof.
  intros Ht Hs. unfold term_substitute_variable. destruct (contains_var t v).
  - apply wft_add; [apply wft_remove_variable; exact Ht|apply wft_multiply; exact Hs].
  - apply wft_copy. exact Ht.
Qed.
Lemma nz_substitute_variable t v s : nzl (tvars (term_substitute_variable t v s)).
Proof.
  unfold term_substitute_variable. destruct (contains_var t v); [apply nz_add|apply nz_copy].
Qed.
Lemma wft'_substitute_variable t v s : wft t -> wft s -> wft' (term_substitute_variable t v s).
Proof.
  intros Ht Hs. split; [apply wft_substitute_variable; assumption|apply nz_substitute_variable].
Qed.

Lemma wft_isolate_variable t v s : wft t -> term_isolate_variable t v = inl s -> wft s.
Proof.
  intros Ht. unfold term_isolate_variable. destruct (negb (py_in v (term_vars_p t))).
  - discriminate.
  - unfold ret. intros H. inversion H. subst. clear H. apply wft_mk_term.
    rewrite (keys_map_snd (fun p => qdiv (qneg (snd p)) (get_coefficient t v))).
    apply NoDup_keys_filter. exact Ht.
Qed.
Lemma nz_isolate_variable t v s : term_isolate_variable t v = inl s -> nzl (tvars s).
Proof.
  unfold term_isolate_variable. destruct (negb (py_in v (term_vars_p t))).
  - discriminate.
  - unfold ret. intros H. inversion H. subst. apply nz_mk_term.
Qed.
Lemma wft'_isolate_variable t v s : wft t -> term_isolate_variable t v = inl s -> wft' s.
Proof.
  intros Ht H. split; [eapply wft_isolate_variable; eassumption|eapply nz_isolate_variable; eassumption].
Qed.

Lemma wft_rename_variable t s u : wft t -> wft (term_rename_variable t s u).
Proof.
  intros Ht. unfold term_rename_variable. destruct (py_in s (term_vars_p t)).
  - apply wft_remove_variable. unfold wft. simpl tvars. apply NoDup_keys_dict_set.
    destruct (negb (py_in u (term_vars_p t))).
    + apply NoDup_keys_dict_set. apply wft_copy. exact Ht.
    + apply wft_copy. exact Ht.
  - apply wft_copy. exact Ht.
Qed.
Lemma nz_rename_variable t s u : nzl (tvars (term_rename_variable t s u)).
Proof.
  unfold term_rename_variable. destruct (py_in s (term_vars_p t)).
  - apply nz_remove_variable.
  - apply nz_copy.
Qed.
Lemma wft'_rename_variable t s u : wft t -> wft' (term_rename_variable t s u).
Proof. intros H. split; [apply wft_rename_variable; exact H|apply nz_rename_variable]. Qed.
