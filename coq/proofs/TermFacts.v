(* TermFacts.v — facts about the executable model of PolyhedralTerm (model/Term.v)
   with respect to the meaning given in base/Sem.v.
   Well-formedness [wft]: the keys of the dict are pairwise distinct (Python dict).
   [wft']: additionally every stored coefficient is nonzero (what __init__ guarantees). *)
From Coq Require Import List String Bool QArith Qabs ZArith NArith Ascii Reals Qreals Lra
  Permutation Sorted.
Import ListNotations.
Require Import Py ListsGen Sem Term QR ListsFacts.
Local Open Scope R_scope.

(* ------------------------------------------------------------------ *)
(** * Well-formedness *)
Definition wft (t : pterm) : Prop := NoDup (keys (tvars t)).
Definition nzl (l : pvars) : Prop := Forall (fun p => ~ (snd p == 0)%Q) l.
Definition wft' (t : pterm) : Prop :=
  wft t /\ Forall (fun p => ~ (snd p == 0)%Q) (tvars t).

(* the filter of __init__ *)
Definition nzb (p : var * Q) : bool := negb (qzero (snd p)).
(* first binding of v, or 0 *)
Definition coef (l : pvars) (v : var) : Q :=
  match assoc v l with Some q => q | None => 0%Q end.

Lemma mk_term_vars vs c : tvars (mk_term vs c) = filter nzb vs.
Proof. reflexivity. Qed.
Lemma mk_term_const vs c : tconst (mk_term vs c) = c.
Proof. reflexivity. Qed.

(* ------------------------------------------------------------------ *)
(** * Association lists *)
Lemma assoc_none v l : assoc v l = None <-> ~ In v (keys l).
Proof.
  induction l as [|[k q] r IH]; simpl; [tauto|].
  destruct (String.eqb k v) eqn:E.
  - apply String.eqb_eq in E. split; [discriminate|]. intros H. exfalso. apply H. left. exact E.
  - apply String.eqb_neq in E. rewrite IH. tauto.
Qed.
Lemma assoc_some_in v q l : assoc v l = Some q -> In (v, q) l.
Proof.
  induction l as [|[k q'] r IH]; simpl; [discriminate|].
  destruct (String.eqb k v) eqn:E.
  - apply String.eqb_eq in E. intros H. inversion H. subst. left. reflexivity.
  - intros H. right. apply IH. exact H.
Qed.
Lemma in_keys v q (l : pvars) : In (v, q) l -> In v (keys l).
Proof. intros H. unfold keys. change v with (fst (v, q)). apply in_map. exact H. Qed.
Lemma in_keys_ex v (l : pvars) : In v (keys l) -> exists q, In (v, q) l.
Proof.
  unfold keys. rewrite in_map_iff. intros [[k q] [Hk Hi]]. simpl in Hk. subst. eauto.
Qed.
Lemma assoc_in_keys v l : In v (keys l) -> exists q, assoc v l = Some q.
Proof.
  intros H. destruct (assoc v l) as [q|] eqn:E; [eauto|].
  apply assoc_none in E. contradiction.
Qed.
Lemma assoc_nodup v q l : NoDup (keys l) -> In (v, q) l -> assoc v l = Some q.
Proof.
  induction l as [|[k q'] r IH]; simpl; [tauto|].
  intros Hn Hi. inversion Hn as [|? ? Hk Hr]; subst.
  destruct Hi as [Hi|Hi].
  - inversion Hi; subst. rewrite String.eqb_refl. reflexivity.
  - destruct (String.eqb k v) eqn:E.
    + apply String.eqb_eq in E. subst. exfalso. apply Hk. eapply in_keys. exact Hi.
    + apply IH; assumption.
Qed.
Lemma has_key_in v l : has_key v l = true <-> In v (keys l).
Proof.
  unfold has_key. destruct (assoc v l) as [q|] eqn:E.
  - split; [|reflexivity]. intros _. apply assoc_some_in in E. eapply in_keys. exact E.
  - apply assoc_none in E. split; [discriminate|contradiction].
Qed.

Lemma coef_cons_eq k q r : coef ((k, q) :: r) k = q.
Proof. unfold coef. simpl. rewrite String.eqb_refl. reflexivity. Qed.
Lemma coef_cons_neq k q r v : k <> v -> coef ((k, q) :: r) v = coef r v.
Proof. intros H. unfold coef. simpl. apply String.eqb_neq in H. rewrite H. reflexivity. Qed.
Lemma coef_notin l v : ~ In v (keys l) -> coef l v = 0%Q.
Proof. intros H. apply assoc_none in H. unfold coef. rewrite H. reflexivity. Qed.
Lemma coef_nil v : coef [] v = 0%Q.
Proof. reflexivity. Qed.
Lemma coef_in l v q : NoDup (keys l) -> In (v, q) l -> coef l v = q.
Proof. intros Hn Hi. unfold coef. rewrite (assoc_nodup v q l Hn Hi). reflexivity. Qed.

Lemma get_coefficient_coef t v : get_coefficient t v = coef (tvars t) v.
Proof.
  unfold get_coefficient, contains_var, coef.
  destruct (py_in v (term_vars_p t)) eqn:E; [reflexivity|].
  apply py_in_var_false in E. unfold term_vars_p in E. apply assoc_none in E.
  rewrite E. reflexivity.
Qed.
Lemma get_coefficient_notin t v : ~ In v (term_vars_p t) -> get_coefficient t v = 0%Q.
Proof.
  intros H. unfold get_coefficient, contains_var.
  apply py_in_var_false in H. rewrite H. reflexivity.
Qed.
Lemma contains_var_in t v : contains_var t v = true <-> In v (term_vars_p t).
Proof. unfold contains_var. apply py_in_var. Qed.
Lemma contains_var_notin t v : contains_var t v = false <-> ~ In v (term_vars_p t).
Proof. unfold contains_var. apply py_in_var_false. Qed.

(* keys under filter / map / dict_set / dict_pop *)
Lemma keys_cons k q r : keys ((k, q) :: r) = k :: keys r.
Proof. reflexivity. Qed.
Lemma keys_filter_incl (f : var * Q -> bool) l x : In x (keys (filter f l)) -> In x (keys l).
Proof.
  intros H. apply in_keys_ex in H. destruct H as [q H]. apply filter_In in H.
  eapply in_keys. apply H.
Qed.
Lemma NoDup_keys_filter (f : var * Q -> bool) l : NoDup (keys l) -> NoDup (keys (filter f l)).
Proof.
  induction l as [|[k q] r IH]; simpl; intros Hn; [constructor|].
  inversion Hn as [|? ? Hk Hr]; subst.
  destruct (f (k, q)); [|apply IH; assumption].
  simpl. constructor; [|apply IH; assumption].
  intros Hi. apply Hk. eapply keys_filter_incl. exact Hi.
Qed.
Lemma keys_map_snd (g : var * Q -> Q) l : keys (map (fun p => (fst p, g p)) l) = keys l.
Proof. unfold keys. rewrite map_map. apply map_ext. reflexivity. Qed.
Lemma keys_map_var (h : var -> Q) vl : keys (map (fun v => (v, h v)) vl) = vl.
Proof. unfold keys. rewrite map_map. simpl. apply map_id. Qed.

Lemma in_keys_dict_pop l v x : In x (keys (dict_pop l v)) <-> In x (keys l) /\ x <> v.
Proof.
  unfold dict_pop. split.
  - intros H. apply in_keys_ex in H. destruct H as [q H]. apply filter_In in H.
    destruct H as [Hi Hb]. simpl in Hb. apply negb_true_iff in Hb. apply String.eqb_neq in Hb.
    split; [eapply in_keys; exact Hi|exact Hb].
  - intros [H Hn]. apply in_keys_ex in H. destruct H as [q H].
    apply (in_keys x q). apply filter_In. split; [exact H|]. simpl.
    apply negb_true_iff. apply String.eqb_neq. exact Hn.
Qed.
Lemma in_keys_dict_set l k q x : In x (keys (dict_set l k q)) <-> In x (keys l) \/ x = k.
Proof.
  induction l as [|[k' q'] r IH]; simpl.
  - split; [intros [H|[]]; right; congruence|intros [[]|H]; left; congruence].
  - destruct (String.eqb k' k) eqn:E.
    + apply String.eqb_eq in E. subst. simpl. split; [tauto|]. intros [H|H]; [tauto|left; congruence].
    + simpl. rewrite IH. tauto.
Qed.
Lemma NoDup_keys_dict_set l k q : NoDup (keys l) -> NoDup (keys (dict_set l k q)).
Proof.
  induction l as [|[k' q'] r IH]; simpl; intros Hn.
  - constructor; [intros []|constructor].
  - inversion Hn as [|? ? Hk Hr]; subst. destruct (String.eqb k' k) eqn:E.
    + simpl. constructor; assumption.
    + apply String.eqb_neq in E. simpl. constructor; [|apply IH; assumption].
      rewrite in_keys_dict_set. intros [H|H]; [contradiction|congruence].
Qed.
Lemma coef_dict_set_eq l k q : coef (dict_set l k q) k = q.
Proof.
  induction l as [|[k' q'] r IH]; simpl.
  - apply coef_cons_eq.
  - destruct (String.eqb k' k) eqn:E.
    + apply String.eqb_eq in E. subst. apply coef_cons_eq.
    + apply String.eqb_neq in E. rewrite coef_cons_neq by exact E. exact IH.
Qed.
Lemma coef_dict_set_neq l k q v : v <> k -> coef (dict_set l k q) v = coef l v.
Proof.
  intros Hv. induction l as [|[k' q'] r IH]; simpl.
  - rewrite coef_cons_neq by congruence. reflexivity.
  - destruct (String.eqb k' k) eqn:E.
    + apply String.eqb_eq in E. subst. rewrite !coef_cons_neq by congruence. reflexivity.
    + destruct (string_dec k' v) as [->|Hn].
      * rewrite !coef_cons_eq. reflexivity.
      * rewrite !coef_cons_neq by exact Hn. exact IH.
Qed.

(* nonzero coefficients *)
Lemma nzl_filter l : nzl (filter nzb l).
Proof.
  unfold nzl. apply Forall_forall. intros p Hp. apply filter_In in Hp. destruct Hp as [_ Hp].
  unfold nzb in Hp. apply negb_true_iff in Hp. apply qzero_false_iff. exact Hp.
Qed.
Lemma nzl_filter_any (f : var * Q -> bool) l : nzl l -> nzl (filter f l).
Proof.
  unfold nzl. rewrite !Forall_forall. intros H p Hp. apply filter_In in Hp. apply H. tauto.
Qed.
Lemma filter_nzb_id l : nzl l -> filter nzb l = l.
Proof.
  induction 1 as [|p r Hp Hr IH]; simpl; [reflexivity|].
  unfold nzb at 1. apply qzero_false_iff in Hp. rewrite Hp. simpl. f_equal. exact IH.
Qed.

(* ------------------------------------------------------------------ *)
(** * Preservation of well-formedness *)
Lemma wft_mk_term vs c : NoDup (keys vs) -> wft (mk_term vs c).
Proof. intros H. unfold wft. rewrite mk_term_vars. apply NoDup_keys_filter. exact H. Qed.
Lemma nz_mk_term vs c : nzl (tvars (mk_term vs c)).
Proof. rewrite mk_term_vars. apply nzl_filter. Qed.
Lemma wft'_mk_term vs c : NoDup (keys vs) -> wft' (mk_term vs c).
Proof. intros H. split; [apply wft_mk_term; exact H|apply nz_mk_term]. Qed.

Lemma wft_copy t : wft t -> wft (term_copy t).
Proof. intros H. apply wft_mk_term. exact H. Qed.
Lemma nz_copy t : nzl (tvars (term_copy t)).
Proof. apply nz_mk_term. Qed.
Lemma wft'_copy t : wft t -> wft' (term_copy t).
Proof. intros H. apply wft'_mk_term. exact H. Qed.

Lemma wft_add t1 t2 : wft t1 -> wft t2 -> wft (term_add t1 t2).
Proof.
  intros H1 H2. unfold term_add. apply wft_mk_term. rewrite keys_map_var.
  apply NoDup_list_union; assumption.
Qed.
Lemma nz_add t1 t2 : nzl (tvars (term_add t1 t2)).
Proof. apply nz_mk_term. Qed.
Lemma wft'_add t1 t2 : wft t1 -> wft t2 -> wft' (term_add t1 t2).
Proof. intros H1 H2. split; [apply wft_add; assumption|apply nz_add]. Qed.

Lemma wft_remove_variable t v : wft t -> wft (term_remove_variable t v).
Proof.
  intros H. unfold term_remove_variable. destruct (contains_var t v).
  - unfold wft. simpl tvars. unfold dict_pop. apply NoDup_keys_filter. apply NoDup_keys_filter. exact H.
  - apply wft_copy. exact H.
Qed.
Lemma nz_remove_variable t v : nzl (tvars (term_remove_variable t v)).
Proof.
  unfold term_remove_variable. destruct (contains_var t v).
  - simpl tvars. unfold dict_pop. apply nzl_filter_any. apply nzl_filter.
  - apply nz_copy.
Qed.
Lemma wft'_remove_variable t v : wft t -> wft' (term_remove_variable t v).
Proof. intros H. split; [apply wft_remove_variable; exact H|apply nz_remove_variable]. Qed.

Lemma wft_multiply t f : wft t -> wft (term_multiply t f).
Proof.
  intros H. unfold term_multiply. apply wft_mk_term.
  rewrite (keys_map_snd (fun p => qmul f (snd p))). exact H.
Qed.
Lemma nz_multiply t f : nzl (tvars (term_multiply t f)).
Proof. apply nz_mk_term. Qed.
Lemma wft'_multiply t f : wft t -> wft' (term_multiply t f).
Proof. intros H. split; [apply wft_multiply; exact H|apply nz_multiply]. Qed.

Lemma wft_substitute_variable t v s : wft t -> wft s -> wft (term_substitute_variable t v s).
Proof.
  intros Ht Hs. unfold term_substitute_variable. destruct (contains_var t v).
  - apply wft_add; [apply wft_remove_variable; exact Ht|apply wft_multiply; exact Hs].
  - apply wft_copy. exact Ht.
Qed.
Lemma nz_substitute_variable t v s : nzl (tvars (term_substitute_variable t v s)).
Proof.
  unfold term_substitute_variable. destruct (contains_var t v); [apply nz_add|apply nz_copy].
Qed.
Lemma wft'_substitute_variable t v s : wft t -> wft s -> wft' (term_substitute_variable t v s).
Proof.
  intros Ht Hs. split; [apply wft_substitute_variable; assumption|apply nz_substitute_variable].
Qed.

Lemma wft_isolate_variable t v s : wft t -> term_isolate_variable t v = inl s -> wft s.
Proof.
  intros Ht. unfold term_isolate_variable. destruct (negb (py_in v (term_vars_p t))).
  - discriminate.
  - unfold ret. intros H. inversion H. subst. clear H. apply wft_mk_term.
    rewrite (keys_map_snd (fun p => qdiv (qneg (snd p)) (get_coefficient t v))).
    apply NoDup_keys_filter. exact Ht.
Qed.
Lemma nz_isolate_variable t v s : term_isolate_variable t v = inl s -> nzl (tvars s).
Proof.
  unfold term_isolate_variable. destruct (negb (py_in v (term_vars_p t))).
  - discriminate.
  - unfold ret. intros H. inversion H. subst. apply nz_mk_term.
Qed.
Lemma wft'_isolate_variable t v s : wft t -> term_isolate_variable t v = inl s -> wft' s.
Proof.
  intros Ht H. split; [eapply wft_isolate_variable; eassumption|eapply nz_isolate_variable; eassumption].
Qed.

Lemma wft_rename_variable t s u : wft t -> wft (term_rename_variable t s u).
Proof.
  intros Ht. unfold term_rename_variable. destruct (py_in s (term_vars_p t)).
  - apply wft_remove_variable. unfold wft. simpl tvars. apply NoDup_keys_dict_set.
    destruct (negb (py_in u (term_vars_p t))).
    + apply NoDup_keys_dict_set. apply wft_copy. exact Ht.
    + apply wft_copy. exact Ht.
  - apply wft_copy. exact Ht.
Qed.
Lemma nz_rename_variable t s u : nzl (tvars (term_rename_variable t s u)).
Proof.
  unfold term_rename_variable. destruct (py_in s (term_vars_p t)).
  - apply nz_remove_variable.
  - apply nz_copy.
Qed.
Lemma wft'_rename_variable t s u : wft t -> wft' (term_rename_variable t s u).
Proof. intros H. split; [apply wft_rename_variable; exact H|apply nz_rename_variable]. Qed.

(* ------------------------------------------------------------------ *)
(** * Meaning: lin over association lists *)
Section Meaning.
Variable rho : val.

Lemma lin_cons k q r : lin rho ((k, q) :: r) = Q2R q * rho k + lin rho r.
Proof. reflexivity. Qed.

Lemma lin_filter_nz l : lin rho (filter nzb l) = lin rho l.
Proof.
  induction l as [|[k q] r IH]; [reflexivity|].
  cbn [filter]. unfold nzb at 1. cbn [snd]. destruct (qzero q) eqn:E; cbn [negb].
  - rewrite lin_cons, IH. apply qzero_true in E. rewrite E. lra.
  - rewrite !lin_cons, IH. reflexivity.
Qed.

Lemma lin_mk_term vs c : lin rho (tvars (mk_term vs c)) = lin rho vs.
Proof. rewrite mk_term_vars. apply lin_filter_nz. Qed.

Lemma sat_copy t : sat rho (term_copy t) <-> sat rho t.
Proof. unfold sat, term_copy. rewrite lin_mk_term, mk_term_const. tauto. Qed.

Lemma lin_dict_pop l v :
  NoDup (keys l) -> lin rho (dict_pop l v) = lin rho l - Q2R (coef l v) * rho v.
Proof.
  unfold dict_pop. induction l as [|[k q] r IH]; intros Hn.
  - cbn [filter lin]. rewrite coef_nil, Q2R_0. lra.
  - inversion Hn as [|? ? Hk Hr]; subst. cbn [filter fst].
    destruct (String.eqb k v) eqn:E; cbn [negb].
    + apply String.eqb_eq in E. subst. rewrite coef_cons_eq, lin_cons, (IH Hr).
      rewrite (coef_notin r v Hk), Q2R_0. lra.
    + apply String.eqb_neq in E. rewrite coef_cons_neq by exact E.
      rewrite !lin_cons, (IH Hr). lra.
Qed.

Lemma lin_dict_set l k q :
  lin rho (dict_set l k q) = lin rho l - Q2R (coef l k) * rho k + Q2R q * rho k.
Proof.
  induction l as [|[k' q'] r IH]; cbn [dict_set].
  - rewrite lin_cons. cbn [lin]. rewrite coef_nil, Q2R_0. lra.
  - destruct (String.eqb k' k) eqn:E.
    + apply String.eqb_eq in E. subst. rewrite coef_cons_eq, !lin_cons. lra.
    + apply String.eqb_neq in E. rewrite coef_cons_neq by exact E. rewrite !lin_cons, IH. lra.
Qed.

Lemma coef_filter_nz l v : NoDup (keys l) -> Q2R (coef (filter nzb l) v) = Q2R (coef l v).
Proof.
  induction l as [|[k q] r IH]; intros Hn; [reflexivity|].
  inversion Hn as [|? ? Hk Hr]; subst. cbn [filter]. unfold nzb at 1. cbn [snd].
  destruct (qzero q) eqn:E; cbn [negb].
  - destruct (string_dec k v) as [->|Hkv].
    + rewrite coef_cons_eq. apply qzero_true in E. rewrite E.
      rewrite coef_notin; [apply Q2R_0|]. intros Hi. apply Hk. eapply keys_filter_incl. exact Hi.
    + rewrite coef_cons_neq by exact Hkv. apply IH. exact Hr.
  - destruct (string_dec k v) as [->|Hkv].
    + rewrite !coef_cons_eq. reflexivity.
    + rewrite !coef_cons_neq by exact Hkv. apply IH. exact Hr.
Qed.

(* finite sums over variable lists *)
Definition sumf (f : var -> R) (vs : list var) : R := fold_right (fun v acc => f v + acc) 0 vs.
Lemma sumf_cons f v vs : sumf f (v :: vs) = f v + sumf f vs.
Proof. reflexivity. Qed.
Lemma sumf_ext f g vs : (forall v, In v vs -> f v = g v) -> sumf f vs = sumf g vs.
Proof.
  induction vs as [|x r IH]; intros H; [reflexivity|].
  rewrite !sumf_cons, IH, (H x); [reflexivity|left; reflexivity|].
  intros v Hv. apply H. right. exact Hv.
Qed.
Lemma sumf_plus f g vs : sumf (fun v => f v + g v) vs = sumf f vs + sumf g vs.
Proof. induction vs as [|x r IH]; [cbn; lra|]. rewrite !sumf_cons, IH. lra. Qed.
Lemma sumf_scale c f vs : sumf (fun v => c * f v) vs = c * sumf f vs.
Proof. induction vs as [|x r IH]; [cbn; lra|]. rewrite !sumf_cons, IH. lra. Qed.
Lemma sumf_single_notin k c vs :
  ~ In k vs -> sumf (fun v => if String.eqb k v then c else 0) vs = 0.
Proof.
  induction vs as [|x r IH]; intros H; [reflexivity|]. rewrite sumf_cons, IH.
  - destruct (String.eqb k x) eqn:E; [|lra]. apply String.eqb_eq in E. subst. exfalso. apply H. left. reflexivity.
  - intros Hi. apply H. right. exact Hi.
Qed.
Lemma sumf_single k c vs :
  NoDup vs -> In k vs -> sumf (fun v => if String.eqb k v then c else 0) vs = c.
Proof.
  induction 1 as [|x r Hx Hr IH]; intros Hi; [destruct Hi|]. rewrite sumf_cons.
  destruct Hi as [->|Hi].
  - rewrite String.eqb_refl, sumf_single_notin by exact Hx. lra.
  - rewrite IH by exact Hi. destruct (String.eqb k x) eqn:E; [|lra].
    apply String.eqb_eq in E. subst. contradiction.
Qed.

Lemma lin_coef_sum l vs :
  NoDup (keys l) -> NoDup vs -> (forall x, In x (keys l) -> In x vs) ->
  lin rho l = sumf (fun v => Q2R (coef l v) * rho v) vs.
Proof.
  intros Hn Hvs. induction l as [|[k q] r IH]; intros Hsub.
  - cbn [lin]. rewrite (sumf_ext _ (fun v => 0 * rho v)).
    + rewrite sumf_scale. lra.
    + intros v _. rewrite coef_nil, Q2R_0. reflexivity.
  - inversion Hn as [|? ? Hk Hr]; subst. rewrite lin_cons, (IH Hr).
    + rewrite (sumf_ext (fun v => Q2R (coef ((k, q) :: r) v) * rho v)
                 (fun v => (if String.eqb k v then Q2R q * rho k else 0) + Q2R (coef r v) * rho v)).
      * rewrite sumf_plus, sumf_single; [reflexivity|exact Hvs|]. apply Hsub. left. reflexivity.
      * intros v _. destruct (String.eqb k v) eqn:E.
        -- apply String.eqb_eq in E. subst. rewrite coef_cons_eq, (coef_notin r v Hk), Q2R_0. lra.
        -- apply String.eqb_neq in E. rewrite coef_cons_neq by exact E. lra.
    + intros x Hx. apply Hsub. right. exact Hx.
Qed.

Lemma lin_get_coefficient t vs :
  wft t -> NoDup vs -> (forall x, In x (term_vars_p t) -> In x vs) ->
  lin rho (tvars t) = fold_right (fun v acc => (Q2R (get_coefficient t v) * rho v + acc)%R) 0%R vs.
Proof.
  intros Ht Hvs Hsub.
  change (lin rho (tvars t) = sumf (fun v => Q2R (get_coefficient t v) * rho v) vs).
  rewrite (lin_coef_sum (tvars t) vs Ht Hvs Hsub). apply sumf_ext.
  intros v _. rewrite get_coefficient_coef. reflexivity.
Qed.

Lemma lin_map_var (h : var -> Q) vl :
  lin rho (map (fun v => (v, h v)) vl) = sumf (fun v => Q2R (h v) * rho v) vl.
Proof. induction vl as [|x r IH]; [reflexivity|]. cbn [map]. rewrite lin_cons, sumf_cons, IH. reflexivity. Qed.

Lemma lin_ext_keys (rho2 : val) l :
  (forall x, In x (keys l) -> rho x = rho2 x) -> lin rho l = lin rho2 l.
Proof.
  induction l as [|[k q] r IH]; intros H; [reflexivity|].
  cbn [lin]. rewrite IH, (H k); [reflexivity|left; reflexivity|].
  intros x Hx. apply H. right. exact Hx.
Qed.

(** ** add *)
Lemma lin_add t1 t2 :
  wft t1 -> wft t2 ->
  lin rho (tvars (term_add t1 t2)) = lin rho (tvars t1) + lin rho (tvars t2).
Proof.
  intros H1 H2. unfold term_add. rewrite lin_mk_term, lin_map_var.
  set (vl := list_union (term_vars_p t1) (term_vars_p t2)).
  assert (Hvl : NoDup vl) by (apply NoDup_list_union; assumption).
  rewrite (lin_coef_sum (tvars t1) vl H1 Hvl), (lin_coef_sum (tvars t2) vl H2 Hvl).
  - rewrite <- sumf_plus. apply sumf_ext. intros v _.
    rewrite Q2R_qadd, !get_coefficient_coef. lra.
  - intros x Hx. apply in_list_union. right. exact Hx.
  - intros x Hx. apply in_list_union. left. exact Hx.
Qed.
Lemma const_add t1 t2 : Q2R (tconst (term_add t1 t2)) = Q2R (tconst t1) + Q2R (tconst t2).
Proof. unfold term_add. rewrite mk_term_const. apply Q2R_qadd. Qed.

(** ** multiply *)
Lemma lin_map_mul f l : lin rho (map (fun p => (fst p, qmul f (snd p))) l) = Q2R f * lin rho l.
Proof.
  induction l as [|[k q] r IH]; [cbn [map lin]; lra|].
  cbn [map fst snd]. rewrite !lin_cons, IH, Q2R_qmul. lra.
Qed.
Lemma lin_multiply t f : lin rho (tvars (term_multiply t f)) = Q2R f * lin rho (tvars t).
Proof. unfold term_multiply. rewrite lin_mk_term. apply lin_map_mul. Qed.
Lemma const_multiply t f : Q2R (tconst (term_multiply t f)) = Q2R f * Q2R (tconst t).
Proof. unfold term_multiply. rewrite mk_term_const. apply Q2R_qmul. Qed.

(** ** remove_variable *)
Lemma filter_comm {A} (f g : A -> bool) l : filter f (filter g l) = filter g (filter f l).
Proof.
  induction l as [|x r IH]; [reflexivity|]. simpl.
  destruct (f x) eqn:Ef, (g x) eqn:Eg; simpl; rewrite ?Ef, ?Eg, IH; reflexivity.
Qed.
Lemma lin_remove_variable t v :
  wft t ->
  lin rho (tvars (term_remove_variable t v)) = lin rho (tvars t) - Q2R (get_coefficient t v) * rho v.
Proof.
  intros Ht. unfold term_remove_variable. destruct (contains_var t v) eqn:E.
  - cbn [tvars]. unfold term_copy. rewrite mk_term_vars. unfold dict_pop.
    rewrite filter_comm. rewrite lin_filter_nz. rewrite get_coefficient_coef.
    apply (lin_dict_pop (tvars t) v Ht).
  - apply contains_var_notin in E. rewrite (get_coefficient_notin t v E), Q2R_0.
    unfold term_copy. rewrite lin_mk_term. lra.
Qed.
Lemma const_remove_variable t v : tconst (term_remove_variable t v) = tconst t.
Proof. unfold term_remove_variable. destruct (contains_var t v); reflexivity. Qed.
Lemma vars_remove_variable t v : ~ In v (term_vars_p (term_remove_variable t v)).
Proof.
  unfold term_remove_variable. destruct (contains_var t v) eqn:E.
  - unfold term_vars_p. cbn [tvars]. rewrite in_keys_dict_pop. tauto.
  - apply contains_var_notin in E. intros H. apply E. unfold term_vars_p in *.
    unfold term_copy in H. rewrite mk_term_vars in H. eapply keys_filter_incl. exact H.
Qed.

(** ** substitute_variable *)
Lemma substitute_sem t v s :
  wft t -> wft s ->
  let t' := term_substitute_variable t v s in
  (lin rho (tvars t') - Q2R (tconst t'))%R =
  (lin rho (tvars t) - Q2R (tconst t)
   + Q2R (get_coefficient t v) * ((lin rho (tvars s) - Q2R (tconst s)) - rho v))%R.
Proof.
  intros Ht Hs. cbv zeta. unfold term_substitute_variable. destruct (contains_var t v) eqn:E.
  - rewrite lin_add by (first [apply wft_remove_variable; exact Ht|apply wft_multiply; exact Hs]).
    rewrite const_add, lin_remove_variable by exact Ht.
    rewrite lin_multiply, const_multiply, const_remove_variable. lra.
  - apply contains_var_notin in E. rewrite (get_coefficient_notin t v E), Q2R_0.
    unfold term_copy. rewrite lin_mk_term, mk_term_const. lra.
Qed.
Lemma substitute_sat t v s :
  wft t -> wft s ->
  let t' := term_substitute_variable t v s in
  rho v = (lin rho (tvars s) - Q2R (tconst s))%R -> (sat rho t' <-> sat rho t).
Proof.
  intros Ht Hs t' Hv. pose proof (substitute_sem t v s Ht Hs) as H. cbv zeta in H. fold t' in H.
  unfold sat. rewrite <- Hv in H. split; intros Hsat; nra.
Qed.

(** ** isolate_variable *)
Lemma lin_map_div a l :
  ~ (a == 0)%Q ->
  lin rho (map (fun p => (fst p, qdiv (qneg (snd p)) a)) l) = - lin rho l / Q2R a.
Proof.
  intros Ha. assert (HaR : Q2R a <> 0) by (apply Q2R_neq0; exact Ha).
  induction l as [|[k q] r IH]; cbn [map lin fst snd].
  - field. exact HaR.
  - rewrite IH, Q2R_qdiv, Q2R_qneg by exact Ha. field. exact HaR.
Qed.
Lemma coef_nonzero l v : nzl l -> In v (keys l) -> ~ (coef l v == 0)%Q.
Proof.
  intros Hnz Hv. destruct (assoc_in_keys v l Hv) as [q Hq]. unfold coef. rewrite Hq.
  apply assoc_some_in in Hq. unfold nzl in Hnz. rewrite Forall_forall in Hnz.
  apply (Hnz (v, q) Hq).
Qed.
Lemma isolate_sem t v s :
  wft' t -> term_isolate_variable t v = inl s ->
  let a := get_coefficient t v in
  ~ (a == 0)%Q /\ ~ In v (term_vars_p s) /\
  lin rho (tvars s) = (- (lin rho (tvars t) - Q2R a * rho v) / Q2R a)%R /\
  Q2R (tconst s) = (- Q2R (tconst t) / Q2R a)%R.
Proof.
  intros [Ht Hnz]. unfold term_isolate_variable.
  destruct (py_in v (term_vars_p t)) eqn:E; cbn [negb]; [|discriminate].
  apply py_in_var in E. unfold ret. intros H. inversion H as [Hs]. clear H. cbv zeta.
  assert (Ha : ~ (get_coefficient t v == 0)%Q).
  { rewrite get_coefficient_coef. apply coef_nonzero; assumption. }
  split; [exact Ha|]. split; [|split].
  - unfold term_vars_p. rewrite mk_term_vars. intros Hi. apply keys_filter_incl in Hi.
    rewrite (keys_map_snd (fun p => qdiv (qneg (snd p)) (get_coefficient t v))) in Hi.
    apply (in_keys_dict_pop (tvars t) v v) in Hi. tauto.
  - rewrite lin_mk_term, (lin_map_div _ _ Ha).
    change (filter (fun p : string * Q => negb (String.eqb (fst p) v)) (tvars t)) with (dict_pop (tvars t) v).
    rewrite (lin_dict_pop (tvars t) v Ht), <- get_coefficient_coef. reflexivity.
  - rewrite mk_term_const. rewrite (Q2R_qdiv _ _ Ha), Q2R_qneg. reflexivity.
Qed.
Lemma isolate_error t v e :
  term_isolate_variable t v = inr e -> e = ValueErr /\ ~ In v (term_vars_p t).
Proof.
  unfold term_isolate_variable. destruct (py_in v (term_vars_p t)) eqn:E; cbn [negb].
  - unfold ret. discriminate.
  - unfold raise. intros H. inversion H. split; [reflexivity|]. apply py_in_var_false. exact E.
Qed.

End Meaning.

(* ------------------------------------------------------------------ *)
(** * Equality (__eq__) — property C19 *)
Lemma keys_equal_iff l1 l2 :
  keys_equal l1 l2 = true <-> (forall v, In v (keys l1) <-> In v (keys l2)).
Proof.
  unfold keys_equal. rewrite andb_true_iff, !forallb_forall. split.
  - intros [H1 H2] v. split; intros H; apply has_key_in; [apply H1|apply H2]; exact H.
  - intros H. split; intros x Hx; apply has_key_in; apply H; exact Hx.
Qed.

Definition cmatch (l2 : pvars) (p : var * Q) : bool :=
  match assoc (fst p) l2 with Some q => Qeq_bool (snd p) q | None => false end.
Lemma forallb_cmatch l1 l2 :
  NoDup (keys l1) -> (forall v, In v (keys l1) -> In v (keys l2)) ->
  (forallb (cmatch l2) l1 = true <-> forall v, In v (keys l1) -> (coef l1 v == coef l2 v)%Q).
Proof.
  intros Hn Hsub. rewrite forallb_forall. split.
  - intros H v Hv. apply in_keys_ex in Hv. destruct Hv as [q Hq].
    specialize (H (v, q) Hq). unfold cmatch in H. cbn [fst snd] in H.
    rewrite (coef_in l1 v q Hn Hq). unfold coef.
    destruct (assoc v l2) as [q'|]; [|discriminate]. apply Qeq_bool_eq. exact H.
  - intros H [k q] Hp. unfold cmatch. cbn [fst snd].
    assert (Hk : In k (keys l1)) by (eapply in_keys; exact Hp).
    specialize (H k Hk). rewrite (coef_in l1 k q Hn Hp) in H.
    destruct (assoc_in_keys k l2 (Hsub k Hk)) as [q' Hq']. unfold coef in H. rewrite Hq' in *.
    apply Qeq_eq_bool. exact H.
Qed.

Lemma term_eqb_unfold t1 t2 :
  term_eqb_p t1 t2 =
  keys_equal (tvars t1) (tvars t2) && forallb (cmatch (tvars t2)) (tvars t1)
  && Qeq_bool (tconst t1) (tconst t2).
Proof. reflexivity. Qed.

Lemma term_eqb_coeff t1 t2 :
  wft t1 -> wft t2 ->
  (term_eqb_p t1 t2 = true <->
   (forall v, In v (term_vars_p t1) <-> In v (term_vars_p t2)) /\
   (forall v, (get_coefficient t1 v == get_coefficient t2 v)%Q) /\
   (tconst t1 == tconst t2)%Q).
Proof.
  intros H1 H2. rewrite term_eqb_unfold, !andb_true_iff, keys_equal_iff, Qeq_bool_iff.
  unfold term_vars_p. split.
  - intros [[Hk Hf] Hc]. split; [exact Hk|]. split; [|exact Hc].
    intros v. rewrite !get_coefficient_coef.
    destruct (in_dec string_dec v (keys (tvars t1))) as [Hi|Hi].
    + revert v Hi. apply forallb_cmatch; [exact H1| |exact Hf]. intros v Hv. apply Hk. exact Hv.
    + rewrite (coef_notin _ _ Hi). rewrite coef_notin; [reflexivity|]. intros Hi2. apply Hi. apply Hk. exact Hi2.
  - intros [Hk [Hg Hc]]. split; [split|]; [exact Hk| |exact Hc].
    apply forallb_cmatch; [exact H1|intros v Hv; apply Hk; exact Hv|].
    intros v _. rewrite <- !get_coefficient_coef. apply Hg.
Qed.

Lemma term_eqb_sound t1 t2 :
  wft t1 -> wft t2 -> term_eqb_p t1 t2 = true ->
  forall rho, lin rho (tvars t1) = lin rho (tvars t2) /\ Q2R (tconst t1) = Q2R (tconst t2).
Proof.
  intros H1 H2 He rho. apply (term_eqb_coeff t1 t2 H1 H2) in He. destruct He as [Hk [Hg Hc]].
  split; [|apply Qeq_eqR; exact Hc].
  rewrite (lin_coef_sum rho (tvars t1) (keys (tvars t1)) H1 H1) by tauto.
  rewrite (lin_coef_sum rho (tvars t2) (keys (tvars t1)) H2 H1) by (intros x Hx; apply Hk; exact Hx).
  apply sumf_ext. intros v _. rewrite <- !get_coefficient_coef. rewrite (Qeq_eqR _ _ (Hg v)). reflexivity.
Qed.
Lemma term_eqb_sat t1 t2 :
  wft t1 -> wft t2 -> term_eqb_p t1 t2 = true -> forall rho, sat rho t1 <-> sat rho t2.
Proof.
  intros H1 H2 He rho. destruct (term_eqb_sound t1 t2 H1 H2 He rho) as [Hl Hc].
  unfold sat. rewrite Hl, Hc. tauto.
Qed.

Lemma term_eqb_refl t : wft t -> term_eqb_p t t = true.
Proof.
  intros H. apply term_eqb_coeff; [exact H|exact H|].
  split; [tauto|]. split; [intros v|]; reflexivity.
Qed.
Lemma term_eqb_sym_true t1 t2 :
  wft t1 -> wft t2 -> term_eqb_p t1 t2 = true -> term_eqb_p t2 t1 = true.
Proof.
  intros H1 H2 He. apply (term_eqb_coeff t1 t2 H1 H2) in He. destruct He as [Hk [Hg Hc]].
  apply term_eqb_coeff; [exact H2|exact H1|]. split; [|split].
  - intros v. symmetry. apply Hk.
  - intros v. symmetry. apply Hg.
  - symmetry. exact Hc.
Qed.
Lemma term_eqb_sym t1 t2 : wft t1 -> wft t2 -> term_eqb_p t1 t2 = term_eqb_p t2 t1.
Proof.
  intros H1 H2. destruct (term_eqb_p t1 t2) eqn:E1; destruct (term_eqb_p t2 t1) eqn:E2; try reflexivity.
  - rewrite (term_eqb_sym_true t1 t2 H1 H2 E1) in E2. discriminate.
  - rewrite (term_eqb_sym_true t2 t1 H2 H1 E2) in E1. discriminate.
Qed.
Lemma term_eqb_trans t1 t2 t3 :
  wft t1 -> wft t2 -> wft t3 ->
  term_eqb_p t1 t2 = true -> term_eqb_p t2 t3 = true -> term_eqb_p t1 t3 = true.
Proof.
  intros H1 H2 H3 E12 E23.
  apply (term_eqb_coeff t1 t2 H1 H2) in E12. destruct E12 as [Hk [Hg Hc]].
  apply (term_eqb_coeff t2 t3 H2 H3) in E23. destruct E23 as [Hk' [Hg' Hc']].
  apply term_eqb_coeff; [exact H1|exact H3|]. split; [|split].
  - intros v. rewrite (Hk v). apply Hk'.
  - intros v. eapply Qeq_trans; [apply Hg|apply Hg'].
  - eapply Qeq_trans; [apply Hc|apply Hc'].
Qed.

Lemma term_copy_id t : Forall (fun p => ~ (snd p == 0)%Q) (tvars t) -> term_copy t = t.
Proof.
  intros H. destruct t as [l c]. unfold term_copy, mk_term. cbn [tvars tconst] in *.
  f_equal. apply (filter_nzb_id l H).
Qed.
Lemma term_eqb_copy t : wft' t -> term_eqb_p (term_copy t) t = true.
Proof. intros [H Hnz]. rewrite (term_copy_id t Hnz). apply term_eqb_refl. exact H. Qed.

(* ------------------------------------------------------------------ *)
(** * Hashing: equal terms have equal keys *)
Lemma ascii_cmp_eq a b : ascii_cmp a b = Eq <-> a = b.
Proof.
  unfold ascii_cmp. rewrite N.compare_eq_iff. split; [|intros ->; reflexivity].
  intros H. rewrite <- (ascii_N_embedding a), <- (ascii_N_embedding b), H. reflexivity.
Qed.
Lemma ascii_cmp_antisym a b : ascii_cmp a b = CompOpp (ascii_cmp b a).
Proof. unfold ascii_cmp. apply N.compare_antisym. Qed.
Lemma ascii_cmp_lt_trans a b c : ascii_cmp a b = Lt -> ascii_cmp b c = Lt -> ascii_cmp a c = Lt.
Proof. unfold ascii_cmp. rewrite !N.compare_lt_iff. apply N.lt_trans. Qed.

Lemma string_cmp_eq s1 s2 : string_cmp s1 s2 = Eq <-> s1 = s2.
Proof.
  revert s2. induction s1 as [|a r IH]; intros [|b r2]; cbn [string_cmp];
    try (split; [reflexivity|reflexivity]); try (split; discriminate).
  destruct (ascii_cmp a b) eqn:E.
  - apply ascii_cmp_eq in E. subst. rewrite IH. split; [intros ->; reflexivity|].
    intros H. inversion H. reflexivity.
  - split; [discriminate|]. intros H. inversion H. subst.
    assert (ascii_cmp b b = Eq) by (apply ascii_cmp_eq; reflexivity). congruence.
  - split; [discriminate|]. intros H. inversion H. subst.
    assert (ascii_cmp b b = Eq) by (apply ascii_cmp_eq; reflexivity). congruence.
Qed.
Lemma string_cmp_refl s : string_cmp s s = Eq.
Proof. apply string_cmp_eq. reflexivity. Qed.
Lemma string_cmp_antisym s1 s2 : string_cmp s1 s2 = CompOpp (string_cmp s2 s1).
Proof.
  revert s2. induction s1 as [|a r IH]; intros [|b r2]; cbn [string_cmp]; try reflexivity.
  rewrite (ascii_cmp_antisym a b). destruct (ascii_cmp b a); cbn [CompOpp]; [apply IH|reflexivity|reflexivity].
Qed.
Lemma string_cmp_lt_trans s1 s2 s3 :
  string_cmp s1 s2 = Lt -> string_cmp s2 s3 = Lt -> string_cmp s1 s3 = Lt.
Proof.
  revert s2 s3. induction s1 as [|a r IH]; intros [|b r2] [|c r3]; cbn [string_cmp];
    try discriminate; try reflexivity.
  destruct (ascii_cmp a b) eqn:Eab.
  - apply ascii_cmp_eq in Eab. subst. destruct (ascii_cmp b c); [apply IH|reflexivity|discriminate].
  - intros _. destruct (ascii_cmp b c) eqn:Ebc.
    + apply ascii_cmp_eq in Ebc. subst. rewrite Eab. reflexivity.
    + intros _. rewrite (ascii_cmp_lt_trans a b c Eab Ebc). reflexivity.
    + discriminate.
  - discriminate.
Qed.

Lemma string_leb_iff s1 s2 : string_leb s1 s2 = true <-> string_cmp s1 s2 = Lt \/ s1 = s2.
Proof.
  unfold string_leb. rewrite <- string_cmp_eq.
  destruct (string_cmp s1 s2); split; intros H; try reflexivity; try tauto; try discriminate.
  destruct H; discriminate.
Qed.
Lemma string_leb_refl s : string_leb s s = true.
Proof. apply string_leb_iff. right. reflexivity. Qed.
Lemma string_leb_trans s1 s2 s3 :
  string_leb s1 s2 = true -> string_leb s2 s3 = true -> string_leb s1 s3 = true.
Proof.
  rewrite !string_leb_iff. intros [H1| ->] [H2| ->]; try tauto.
  left. eapply string_cmp_lt_trans; eassumption.
Qed.
Lemma string_leb_antisym s1 s2 : string_leb s1 s2 = true -> string_leb s2 s1 = true -> s1 = s2.
Proof.
  unfold string_leb. rewrite (string_cmp_antisym s2 s1).
  destruct (string_cmp s1 s2) eqn:E; cbn [CompOpp]; try discriminate.
  intros _ _. apply string_cmp_eq. exact E.
Qed.
Lemma string_leb_total s1 s2 : string_leb s1 s2 = false -> string_leb s2 s1 = true.
Proof.
  unfold string_leb. rewrite (string_cmp_antisym s2 s1).
  destruct (string_cmp s1 s2); cbn [CompOpp]; try discriminate. reflexivity.
Qed.

Definition ple (p q : var * Q) : Prop := string_leb (fst p) (fst q) = true.

Lemma insert_perm p l : Permutation (insert_by_name p l) (p :: l).
Proof.
  induction l as [|q r IH]; cbn [insert_by_name]; [apply Permutation_refl|].
  destruct (string_leb (fst q) (fst p)); [|apply Permutation_refl].
  eapply Permutation_trans; [apply perm_skip; exact IH|apply perm_swap].
Qed.
Lemma insert_sorted p l : StronglySorted ple l -> StronglySorted ple (insert_by_name p l).
Proof.
  induction l as [|q r IH]; cbn [insert_by_name]; intros Hs.
  - constructor; [constructor|constructor].
  - inversion Hs as [|? ? Hr Hq]; subst. destruct (string_leb (fst q) (fst p)) eqn:E.
    + constructor; [apply IH; exact Hr|]. apply Forall_forall. intros x Hx.
      apply (Permutation_in _ (insert_perm p r)) in Hx. destruct Hx as [<-|Hx]; [exact E|].
      rewrite Forall_forall in Hq. apply Hq. exact Hx.
    + apply string_leb_total in E. constructor; [exact Hs|]. constructor; [exact E|].
      rewrite Forall_forall in *. intros x Hx. unfold ple. eapply string_leb_trans; [exact E|].
      apply Hq. exact Hx.
Qed.
Lemma fold_insert_perm l acc :
  Permutation (fold_left (fun acc p => insert_by_name p acc) l acc) (l ++ acc).
Proof.
  revert acc. induction l as [|p r IH]; intros acc; cbn [fold_left app]; [apply Permutation_refl|].
  eapply Permutation_trans; [apply IH|]. eapply Permutation_trans.
  - apply Permutation_app_head. apply insert_perm.
  - apply Permutation_sym. apply Permutation_middle.
Qed.
Lemma fold_insert_sorted l acc :
  StronglySorted ple acc -> StronglySorted ple (fold_left (fun acc p => insert_by_name p acc) l acc).
Proof.
  revert acc. induction l as [|p r IH]; intros acc Hs; cbn [fold_left]; [exact Hs|].
  apply IH. apply insert_sorted. exact Hs.
Qed.
Lemma sort_perm l : Permutation (sort_by_name l) l.
Proof.
  unfold sort_by_name. eapply Permutation_trans; [apply fold_insert_perm|].
  rewrite app_nil_r. apply Permutation_refl.
Qed.
Lemma sort_sorted l : StronglySorted ple (sort_by_name l).
Proof. unfold sort_by_name. apply fold_insert_sorted. constructor. Qed.

Lemma perm_keys l l' : Permutation l l' -> Permutation (keys l) (keys l').
Proof. intros H. unfold keys. apply Permutation_map. exact H. Qed.
Lemma coef_perm l l' v : Permutation l l' -> NoDup (keys l) -> coef l v = coef l' v.
Proof.
  intros Hp Hn. assert (Hn' : NoDup (keys l')) by (eapply Permutation_NoDup; [apply perm_keys; exact Hp|exact Hn]).
  destruct (in_dec string_dec v (keys l)) as [Hi|Hi].
  - apply in_keys_ex in Hi. destruct Hi as [q Hq].
    rewrite (coef_in l v q Hn Hq). symmetry. apply coef_in; [exact Hn'|].
    eapply Permutation_in; eassumption.
  - rewrite (coef_notin l v Hi). symmetry. apply coef_notin. intros Hi'. apply Hi.
    eapply Permutation_in; [apply Permutation_sym; apply perm_keys; exact Hp|exact Hi'].
Qed.

Lemma sorted_head_le (p : var * Q) r x :
  Forall (ple p) r -> In x (keys (p :: r)) -> string_leb (fst p) x = true.
Proof.
  intros Hf [<-|Hx]; [apply string_leb_refl|].
  unfold keys in Hx. apply in_map_iff in Hx. destruct Hx as [y [<- Hy]].
  rewrite Forall_forall in Hf. apply Hf. exact Hy.
Qed.
Lemma sorted_keys_unique m1 m2 :
  StronglySorted ple m1 -> StronglySorted ple m2 -> NoDup (keys m1) -> NoDup (keys m2) ->
  (forall v, In v (keys m1) <-> In v (keys m2)) -> keys m1 = keys m2.
Proof.
  revert m2. induction m1 as [|p1 r1 IH]; intros [|p2 r2] S1 S2 N1 N2 Hk.
  - reflexivity.
  - exfalso. apply (proj2 (Hk (fst p2))). left. reflexivity.
  - exfalso. apply (proj1 (Hk (fst p1))). left. reflexivity.
  - inversion S1 as [|? ? S1' F1]; subst. inversion S2 as [|? ? S2' F2]; subst.
    change (keys (p1 :: r1)) with (fst p1 :: keys r1) in N1 |- *.
    change (keys (p2 :: r2)) with (fst p2 :: keys r2) in N2 |- *.
    inversion N1 as [|? ? Hn1 N1']; subst. inversion N2 as [|? ? Hn2 N2']; subst.
    assert (E : fst p1 = fst p2).
    { apply string_leb_antisym.
      - apply (sorted_head_le p1 r1 (fst p2) F1). apply Hk. left. reflexivity.
      - apply (sorted_head_le p2 r2 (fst p1) F2). apply Hk. left. reflexivity. }
    f_equal; [exact E|]. apply IH; try assumption.
    intros v. split; intros Hv.
    + assert (H : In v (keys (p2 :: r2))) by (apply Hk; right; exact Hv).
      destruct H as [H|H]; [|exact H]. exfalso. apply Hn1. rewrite E, H. exact Hv.
    + assert (H : In v (keys (p1 :: r1))) by (apply Hk; right; exact Hv).
      destruct H as [H|H]; [|exact H]. exfalso. apply Hn2. rewrite <- E, H. exact Hv.
Qed.

Definition kred (p : var * Q) : var * Q := (fst p, Qred (snd p)).
Lemma map_fst_kred m : map fst (map kred m) = keys m.
Proof. apply (keys_map_snd (fun p => Qred (snd p))). Qed.
Lemma list_eqb_var_refl (l : list var) : list_eqb l l = true.
Proof. induction l as [|x r IH]; [reflexivity|]. cbn. rewrite String.eqb_refl. exact IH. Qed.
Lemma key_match m1 m2 :
  keys m1 = keys m2 -> NoDup (keys m1) -> (forall v, (coef m1 v == coef m2 v)%Q) ->
  forallb (fun pq : (var * Q) * (var * Q) => Qeq_bool (snd (fst pq)) (snd (snd pq)))
          (combine (map kred m1) (map kred m2)) = true.
Proof.
  revert m2. induction m1 as [|[k1 q1] r1 IH]; intros [|[k2 q2] r2] Hk Hn Hc; try reflexivity; try discriminate.
  rewrite !keys_cons in Hk. inversion Hk as [[Hk1 Hk2]]. subst k2.
  rewrite keys_cons in Hn. inversion Hn as [|? ? Hn1 Hn']; subst.
  cbn [map combine forallb kred fst snd]. apply andb_true_iff. split.
  - apply Qeq_eq_bool. rewrite !Qred_correct. specialize (Hc k1). rewrite !coef_cons_eq in Hc. exact Hc.
  - apply IH; [exact Hk2|exact Hn'|]. intros v. destruct (string_dec k1 v) as [<-|Hv].
    + rewrite (coef_notin r1 k1 Hn1). rewrite coef_notin; [reflexivity|]. rewrite <- Hk2. exact Hn1.
    + specialize (Hc v). rewrite !coef_cons_neq in Hc by exact Hv. exact Hc.
Qed.

Lemma term_key_unfold t :
  term_key t = (map kred (sort_by_name (tvars t)), Qred (tconst t)).
Proof. reflexivity. Qed.

Lemma term_eqb_key t1 t2 :
  wft t1 -> wft t2 -> term_eqb_p t1 t2 = true -> key_eqb (term_key t1) (term_key t2) = true.
Proof.
  intros H1 H2 He. apply (term_eqb_coeff t1 t2 H1 H2) in He. destruct He as [Hk [Hg Hc]].
  rewrite !term_key_unfold. unfold key_eqb. cbn [fst snd].
  set (m1 := sort_by_name (tvars t1)). set (m2 := sort_by_name (tvars t2)).
  assert (P1 : Permutation m1 (tvars t1)) by apply sort_perm.
  assert (P2 : Permutation m2 (tvars t2)) by apply sort_perm.
  assert (N1 : NoDup (keys m1)).
  { eapply Permutation_NoDup; [apply perm_keys; apply Permutation_sym; exact P1|exact H1]. }
  assert (N2 : NoDup (keys m2)).
  { eapply Permutation_NoDup; [apply perm_keys; apply Permutation_sym; exact P2|exact H2]. }
  assert (K : keys m1 = keys m2).
  { apply sorted_keys_unique; try assumption; try apply sort_sorted.
    intros v. split; intros Hv.
    - eapply Permutation_in; [apply perm_keys; apply Permutation_sym; exact P2|].
      apply Hk. eapply Permutation_in; [apply perm_keys; exact P1|exact Hv].
    - eapply Permutation_in; [apply perm_keys; apply Permutation_sym; exact P1|].
      apply Hk. eapply Permutation_in; [apply perm_keys; exact P2|exact Hv]. }
  rewrite !andb_true_iff. split; [split|].
  - rewrite !map_fst_kred, K. apply list_eqb_var_refl.
  - apply key_match; [exact K|exact N1|]. intros v.
    rewrite (coef_perm m1 (tvars t1) v P1 N1), (coef_perm m2 (tvars t2) v P2 N2).
    rewrite <- !get_coefficient_coef. apply Hg.
  - apply Qeq_eq_bool. rewrite !Qred_correct. exact Hc.
Qed.

(* ------------------------------------------------------------------ *)
(** * Renaming — property C16 *)
Lemma rename_unfold t s u :
  term_rename_variable t s u =
  if py_in s (term_vars_p t) then
    let vars1 := if negb (py_in u (term_vars_p t))
                 then dict_set (tvars (term_copy t)) u 0%Q else tvars (term_copy t) in
    term_remove_variable
      (mkT (dict_set vars1 u (qadd (coef vars1 u) (coef vars1 s))) (tconst t)) s
  else term_copy t.
Proof. reflexivity. Qed.

Lemma lin_update rho s x l :
  NoDup (keys l) ->
  lin (fun v => if String.eqb v s then x else rho v) l = lin rho l + Q2R (coef l s) * (x - rho s).
Proof.
  induction l as [|[k q] r IH]; intros Hn.
  - cbn [lin]. rewrite coef_nil, Q2R_0. lra.
  - inversion Hn as [|? ? Hk Hr]; subst. cbn [lin]. rewrite (IH Hr).
    destruct (String.eqb k s) eqn:E.
    + apply String.eqb_eq in E. subst. rewrite coef_cons_eq, (coef_notin r s Hk), Q2R_0. lra.
    + apply String.eqb_neq in E. rewrite coef_cons_neq by exact E. lra.
Qed.

Lemma const_rename t s u : tconst (term_rename_variable t s u) = tconst t.
Proof.
  rewrite rename_unfold. destruct (py_in s (term_vars_p t)); [|reflexivity].
  cbv zeta. rewrite const_remove_variable. reflexivity.
Qed.

Lemma lin_rename rho t s u :
  wft t -> s <> u ->
  lin rho (tvars (term_rename_variable t s u)) =
  lin rho (tvars t) + Q2R (get_coefficient t s) * (rho u - rho s).
Proof.
  intros Ht Hsu. rewrite rename_unfold. destruct (py_in s (term_vars_p t)) eqn:Es.
  - cbv zeta.
    set (vars1 := if negb (py_in u (term_vars_p t))
                  then dict_set (tvars (term_copy t)) u 0%Q else tvars (term_copy t)).
    assert (Hc : NoDup (keys (tvars (term_copy t)))) by (apply wft_copy; exact Ht).
    assert (Hn1 : NoDup (keys vars1)).
    { unfold vars1. destruct (negb (py_in u (term_vars_p t))); [apply NoDup_keys_dict_set|]; exact Hc. }
    assert (Hl1 : lin rho vars1 = lin rho (tvars t)).
    { unfold vars1. destruct (py_in u (term_vars_p t)) eqn:Eu; cbn [negb].
      - apply lin_mk_term.
      - rewrite lin_dict_set. unfold term_copy at 1. rewrite lin_mk_term.
        apply py_in_var_false in Eu. rewrite coef_notin, Q2R_0; [lra|].
        intros Hi. apply Eu. unfold term_copy in Hi. rewrite mk_term_vars in Hi.
        eapply keys_filter_incl. exact Hi. }
    assert (Hs1 : Q2R (coef vars1 s) = Q2R (get_coefficient t s)).
    { rewrite get_coefficient_coef. unfold vars1. destruct (negb (py_in u (term_vars_p t))).
      - rewrite coef_dict_set_neq by exact Hsu. unfold term_copy. rewrite mk_term_vars.
        apply coef_filter_nz. exact Ht.
      - unfold term_copy. rewrite mk_term_vars. apply coef_filter_nz. exact Ht. }
    rewrite lin_remove_variable by (unfold wft; cbn [tvars]; apply NoDup_keys_dict_set; exact Hn1).
    rewrite get_coefficient_coef. cbn [tvars].
    rewrite lin_dict_set, coef_dict_set_neq by exact Hsu.
    rewrite Q2R_qadd, Hl1, Hs1. lra.
  - apply py_in_var_false in Es. rewrite (get_coefficient_notin t s Es), Q2R_0.
    unfold term_copy. rewrite lin_mk_term. lra.
Qed.

Lemma rename_sem t s u :
  wft t -> s <> u ->
  forall rho, sat rho (term_rename_variable t s u) <->
              sat (fun v => if String.eqb v s then rho u else rho v) t.
Proof.
  intros Ht Hsu rho. unfold sat.
  rewrite (lin_rename rho t s u Ht Hsu), const_rename, (lin_update rho s (rho u) (tvars t) Ht).
  rewrite get_coefficient_coef. tauto.
Qed.

Lemma rename_absent t s u : ~ In s (term_vars_p t) -> term_rename_variable t s u = term_copy t.
Proof.
  intros H. apply py_in_var_false in H. unfold term_rename_variable. rewrite H. reflexivity.
Qed.

Lemma in_vars_copy t x : In x (term_vars_p (term_copy t)) -> In x (term_vars_p t).
Proof.
  unfold term_vars_p, term_copy. rewrite mk_term_vars. apply keys_filter_incl.
Qed.
Lemma in_vars_remove_variable t v x :
  In x (term_vars_p (term_remove_variable t v)) -> In x (term_vars_p t) /\ x <> v.
Proof.
  intros H. split.
  - revert H. unfold term_remove_variable. destruct (contains_var t v).
    + unfold term_vars_p. cbn [tvars]. rewrite in_keys_dict_pop. intros [H _].
      apply in_vars_copy. exact H.
    + apply in_vars_copy.
  - intros ->. exact (vars_remove_variable t v H).
Qed.

(* what is actually true: the source never survives, even when s = u *)
Lemma rename_vars_strong t s u x :
  In x (term_vars_p (term_rename_variable t s u)) ->
  x <> s /\ (In x (term_vars_p t) \/ (x = u /\ In s (term_vars_p t))).
Proof.
  rewrite rename_unfold. destruct (py_in s (term_vars_p t)) eqn:Es.
  - apply py_in_var in Es. cbv zeta.
    set (vars1 := if negb (py_in u (term_vars_p t))
                  then dict_set (tvars (term_copy t)) u 0%Q else tvars (term_copy t)).
    assert (Hv1 : forall y, In y (keys vars1) -> In y (term_vars_p t) \/ y = u).
    { unfold vars1. destruct (negb (py_in u (term_vars_p t))); intros y Hy.
      - apply in_keys_dict_set in Hy. destruct Hy as [Hy|Hy]; [left; apply in_vars_copy; exact Hy|right; exact Hy].
      - left. apply in_vars_copy. exact Hy. }
    intros Hx. apply in_vars_remove_variable in Hx. destruct Hx as [Hx Hne].
    split; [exact Hne|]. unfold term_vars_p in Hx. cbn [tvars] in Hx.
    apply in_keys_dict_set in Hx. destruct Hx as [Hx| ->]; [|right; tauto].
    apply Hv1 in Hx. destruct Hx as [Hx| ->]; [left; exact Hx|right; tauto].
  - apply py_in_var_false in Es. intros Hx. apply in_vars_copy in Hx.
    split; [|left; exact Hx]. intros ->. contradiction.
Qed.

Lemma rename_vars t s u :
  wft t -> forall x, In x (term_vars_p (term_rename_variable t s u)) ->
  (x <> s /\ In x (term_vars_p t)) \/ (x = u /\ In s (term_vars_p t)) \/ (s = u /\ In x (term_vars_p t)).
Proof.
  intros _ x Hx. apply rename_vars_strong in Hx. tauto.
Qed.

(* quirk: rename_variable(x, x) deletes x instead of being the identity *)
Example rename_same_drops :
  term_rename_variable (mkT [("x"%string, 1%Q); ("y"%string, 2%Q)] 5%Q) "x"%string "x"%string
  = mkT [("y"%string, 2%Q)] 5%Q.
Proof. vm_compute. reflexivity. Qed.

(* ------------------------------------------------------------------ *)
(** * Counterexamples documenting why hypotheses are needed *)
Local Open Scope string_scope.
(* wft_add needs duplicate-free inputs: list_union keeps the duplicates of its first argument *)
Example wft_add_needs_wft :
  ~ wft (term_add (mkT [("x", 1%Q); ("x", 1%Q)] 0%Q) (mkT [] 0%Q)).
Proof.
  intros H. vm_compute in H. inversion H as [|? ? Hn _]. apply Hn. left. reflexivity.
Qed.
(* isolate_sem needs nonzero stored coefficients: with a stored 0 the model divides by 0
   (Qinv 0 = 0) and returns a term, so [~ a == 0] fails under [wft] alone *)
Example isolate_needs_nonzero :
  wft (mkT [("x", 0%Q); ("y", 1%Q)] 1%Q) /\
  term_isolate_variable (mkT [("x", 0%Q); ("y", 1%Q)] 1%Q) "x" = inl (mkT [] 0%Q) /\
  get_coefficient (mkT [("x", 0%Q); ("y", 1%Q)] 1%Q) "x" = 0%Q.
Proof.
  split; [|split; vm_compute; reflexivity].
  unfold wft. cbn. constructor; [|constructor; [intros []|constructor]].
  intros [H|[]]. discriminate.
Qed.
(* term_eqb_copy needs nonzero stored coefficients: copy drops the zero entry, keys differ *)
Example term_eqb_copy_needs_nz :
  term_eqb_p (term_copy (mkT [("x", 0%Q)] 0%Q)) (mkT [("x", 0%Q)] 0%Q) = false.
Proof. vm_compute. reflexivity. Qed.

Print Assumptions rename_sem.
Print Assumptions term_eqb_sound.
Print Assumptions substitute_sem.
