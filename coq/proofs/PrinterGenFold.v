(* PrinterGenFold.v — serializer.polyhedral_term_list_to_strings and PolyhedralTermList.to_str_list (generated)
   against Printer.term_list_to_strings / Printer.to_str_list.

   The generated loop looks for the first tn after tp for which a rule applies and then executes `ts.remove(tn)`,
   i.e. removes the first element of ts that is == tn by PolyhedralTerm.__eq__ (gen/TermGen.v; ValueError when
   there is none).  model/Printer.v removes tn positionally.  The two agree because
     (A) [classify_eqb]   a term that is == tn is classified exactly like tn (no precondition), so an earlier
                          element == tn would have been selected itself;
     (B) term_eqb_refl    tn == tn, which needs pairwise distinct keys in tn (wft tn): on an association list
                          with a repeated key (which is no Python dict) __eq__ is not reflexive, the generated
                          code raises ValueError and the hand model answers ([remove_needs_distinct_keys]).
   Hence the only precondition: every term of the list has distinct keys (Forall wft).

   to_str_list: the Python `while ts:` is rendered on explicit fuel len(ts); [to_str_list_eq] equates the result
   with `ret (Printer.to_str_list ts)`, so the fuel never runs out (every call hands back a strictly shorter
   list: [term_list_to_strings_shorter]). *)
From Coq Require Import List String Bool QArith Qabs ZArith Lia.
Import ListNotations.
Require Import Py Sem PyDict PyLoop PySyntax PyTermList PyPrint Term ConstGen TermGen Printer.
Require Import ListsFacts TermFacts PrinterFacts TermGenBase TermGenCore PrinterGen PrinterGenBase.
Require Import PrinterGenOpposite PrinterGenLhs.
Open Scope py_scope.
Local Open Scope string_scope.

(* ------------------------------------------------------------------ *)
(** * (A) classification is invariant under PolyhedralTerm.__eq__ *)
Lemma forallb_same_elems {A} (f : A -> bool) l1 l2 :
  (forall x, In x l1 <-> In x l2) -> forallb f l1 = forallb f l2.
Proof.
  intros H. apply eq_true_iff_eq. rewrite !forallb_forall.
  split; intros Hf x Hx; apply Hf; apply H; exact Hx.
Qed.

Section EqInvariance.
Variables e tn : pterm.
Hypothesis Heq : term_eqb_p e tn = true.

Lemma eqb_keys : forall v, In v (keys (tvars e)) <-> In v (keys (tvars tn)).
Proof.
  rewrite term_eqb_unfold, !andb_true_iff in Heq. destruct Heq as [[Hk _] _].
  apply keys_equal_iff. exact Hk.
Qed.
Lemma eqb_const : (tconst e == tconst tn)%Q.
Proof.
  rewrite term_eqb_unfold, !andb_true_iff in Heq. destruct Heq as [_ Hc]. apply Qeq_bool_eq. exact Hc.
Qed.
Lemma eqb_assoc v q : assoc v (tvars e) = Some q -> exists q', assoc v (tvars tn) = Some q' /\ (q == q')%Q.
Proof.
  intros Ha. rewrite term_eqb_unfold, !andb_true_iff in Heq. destruct Heq as [[_ Hf] _].
  rewrite forallb_forall in Hf. specialize (Hf (v, q) (assoc_some_in _ _ _ Ha)).
  unfold cmatch in Hf. cbn [fst snd] in Hf.
  destruct (assoc v (tvars tn)) as [q'|]; [|discriminate].
  exists q'. split; [reflexivity|apply Qeq_bool_eq; exact Hf].
Qed.
Lemma eqb_contains_var v : contains_var e v = contains_var tn v.
Proof.
  unfold contains_var, term_vars_p. apply eq_true_iff_eq. rewrite !py_in_var. apply eqb_keys.
Qed.
Lemma eqb_opp_item p : opp_item e p = opp_item tn p.
Proof.
  unfold opp_item. rewrite eqb_contains_var.
  destruct (contains_var tn (fst p)) eqn:Ec; cbn [andb]; [|reflexivity].
  rewrite <- eqb_contains_var in Ec. destruct (contains_var_assoc _ _ Ec) as [q Hq].
  destruct (eqb_assoc _ _ Hq) as [q' [Hq' Hqq]]. rewrite Hq, Hq'.
  apply approx_equal_proper; [reflexivity|exact Hqq].
Qed.
Lemma terms_opposite_eqb tp : terms_opposite tp e = terms_opposite tp tn.
Proof.
  rewrite !terms_opposite_unfold. f_equal.
  - apply forallb_same_elems. exact eqb_keys.
  - apply forallb_ext'. exact eqb_opp_item.
Qed.
Lemma classify_eqb tp : classify tp e = classify tp tn.
Proof.
  unfold classify. rewrite terms_opposite_eqb. pose proof eqb_const as Hc.
  rewrite (approx_equal_proper (tconst tp) (tconst tp) (- tconst e) (- tconst tn)) by (rewrite ?Hc; reflexivity).
  rewrite (approx_equal_proper (tconst e) (tconst tn) 0 0) by (rewrite ?Hc; reflexivity).
  rewrite (approx_equal_proper (tconst tp) (tconst tp) (tconst e) (tconst tn)) by (rewrite ?Hc; reflexivity).
  reflexivity.
Qed.
End EqInvariance.

(* ------------------------------------------------------------------ *)
(** * one iteration of `for tn in ts`, as the hand model sees it *)
Definition fold_step (tp : pterm) (ts : list pterm) (tn : pterm) : M (step unit (string * list pterm)) :=
  match classify tp tn with
  | Some k => bind (list_remove_m PolyhedralTerm_eq tn ts)
                   (fun ts' => ret (Return (item_str (mk_item k tp tn), ts')))
  | None => ret (Next tt)
  end.

(* the loop over a suffix l of ts = pre ++ l, when nothing in pre is classified *)
Lemma scan_loop tp : forall l pre,
  Forall wft l -> (forall e, In e pre -> classify tp e = None) ->
  for_ret_m l tt (fun _ tn => fold_step tp (pre ++ l)%list tn)
  = ret (match scan tp l with
         | Some (k, tn, r') => Returned (item_str (mk_item k tp tn), (pre ++ r')%list)
         | None => Done tt
         end).
Proof.
  intros l pre Hwf Hpre.
  (* generalise the list the body removes from, so that the induction can move its split point *)
  remember (pre ++ l)%list as ts eqn:Ets. revert pre Hwf Hpre Ets.
  induction l as [|tn r IH]; intros pre Hwf Hpre Ets; [reflexivity|].
  inversion Hwf as [|? ? Hwtn Hwr]; subst.
  cbn [for_ret_m scan]. unfold fold_step at 1. destruct (classify tp tn) as [k|] eqn:Ec.
  - rewrite list_remove_m_skip.
    + reflexivity.
    + intros e He. destruct (term_eqb_p e tn) eqn:Ee; [|reflexivity].
      specialize (Hpre e He). rewrite (classify_eqb e tn Ee tp), Ec in Hpre. discriminate.
    + apply term_eqb_refl. exact Hwtn.
  - cbn [bind ret]. rewrite (IH (pre ++ [tn])%list).
    + destruct (scan tp r) as [[[k t] r']|]; [|reflexivity]. rewrite <- app_assoc. reflexivity.
    + exact Hwr.
    + intros e He. apply in_app_or in He. destruct He as [He|[<-|[]]]; [apply Hpre; exact He|exact Ec].
    + rewrite <- app_assoc. reflexivity.
Qed.

(* ------------------------------------------------------------------ *)
(** * polyhedral_term_list_to_strings *)
Theorem term_list_to_strings_eq terms :
  Forall wft terms ->
  @serializer_polyhedral_term_list_to_strings model_prims terms = ret (term_list_to_strings terms).
Proof.
  intros Hwf. unfold serializer_polyhedral_term_list_to_strings, term_list_to_strings.
  destruct terms as [|tp ts]; [reflexivity|].
  inversion Hwf as [|? ? _ Hwts]; subst.
  cbn [list_truth nonempty negb list_get_m bind ret py_slice_from skipn next_item].
  (* the body of the loop is [fold_step] *)
  rewrite (for_ret_m_ext _ (fun _ tn => fold_step tp ([] ++ ts)%list tn)).
  2:{ intros [] tn _. unfold fold_step, classify. cbn [app].
      rewrite terms_opposite_eq. cbn [bind ret].
      destruct (terms_opposite tp tn); [|reflexivity].
      pg_norm. rewrite approx_equal_qneg_r, !lhs_str_eq. unfold py_float.
      change (approx_equal (tconst tp) (0 # 1)) with (approx_equal (tconst tp) 0).
      change (approx_equal (tconst tn) (0 # 1)) with (approx_equal (tconst tn) 0).
      destruct (approx_equal (tconst tp) (- tconst tn)).
      { cbn [mk_item item_str]. rewrite append_assoc. reflexivity. }
      destruct (approx_equal (tconst tp) 0 && approx_equal (tconst tn) 0).
      { cbn [mk_item item_str]. rewrite append_assoc. reflexivity. }
      destruct (approx_equal (tconst tp) (tconst tn)); [|reflexivity].
      cbn [mk_item item_str]. rewrite !append_assoc. reflexivity. }
  rewrite (scan_loop tp ts []) by (first [exact Hwts | intros e []]).
  cbn [bind ret app].
  destruct (scan tp ts) as [[[k tn] r']|]; [reflexivity|].
  pg_norm. rewrite lhs_str_eq. cbn [item_str]. rewrite append_assoc. reflexivity.
Qed.

(* what is handed back is shorter than the argument, and made of its terms *)
Lemma term_list_to_strings_shorter tp ts :
  (List.length (snd (term_list_to_strings (tp :: ts))) <= List.length ts)%nat
  /\ forall x, In x (snd (term_list_to_strings (tp :: ts))) -> In x ts.
Proof.
  unfold term_list_to_strings. cbn [next_item].
  destruct (scan tp ts) as [[[k tn] r']|] eqn:Es; cbn [snd].
  - destruct (scan_spec _ _ _ _ _ Es) as [_ [l1 [l2 [E1 E2]]]]. subst. split.
    + rewrite !app_length. cbn [List.length]. lia.
    + intros x Hx. apply in_app_or in Hx. apply in_or_app. destruct Hx as [Hx|Hx]; [left|right; right]; exact Hx.
  - split; [lia|tauto].
Qed.

(* ------------------------------------------------------------------ *)
(** * PolyhedralTermList.to_str_list: the while loop on fuel *)
Lemma to_str_list_loop
      (body : list string * list pterm -> M (ctl (list string * list pterm))) :
  (forall acc ts, Forall wft ts -> ts <> [] ->
     body (acc, ts) = ret (Continue ((acc ++ [fst (term_list_to_strings ts)])%list, snd (term_list_to_strings ts)))) ->
  forall fuel ts acc, (List.length ts <= fuel)%nat -> Forall wft ts ->
    while_fuel_m fuel (acc, ts) (fun '(_, ts) => list_truth ts) body
    = ret ((acc ++ to_str_list_fuel fuel ts)%list, []).
Proof.
  intros Hb. induction fuel as [|f IH]; intros ts acc Hl Hwf.
  - destruct ts; [|cbn in Hl; lia]. cbn. rewrite app_nil_r. reflexivity.
  - destruct ts as [|tp r].
    + cbn. rewrite app_nil_r. reflexivity.
    + cbn [while_fuel_m list_truth nonempty]. rewrite Hb by (first [exact Hwf | discriminate]).
      cbn [bind ret]. destruct (term_list_to_strings_shorter tp r) as [Hs Hin].
      rewrite IH.
      * cbn [to_str_list_fuel]. destruct (term_list_to_strings (tp :: r)) as [s rest]. cbn [fst snd].
        rewrite <- app_assoc. reflexivity.
      * cbn [List.length] in Hl. lia.
      * inversion Hwf as [|? ? _ Hwr]; subst. rewrite Forall_forall in *. intros x Hx. apply Hwr, Hin, Hx.
Qed.

Theorem to_str_list_eq ts :
  Forall wft ts -> @PolyhedralTermList_to_str_list model_prims ts = ret (to_str_list ts).
Proof.
  intros Hwf. unfold PolyhedralTermList_to_str_list, to_str_list, py_list_copy, len.
  rewrite to_str_list_loop.
  - reflexivity.
  - intros acc l Hl _. rewrite term_list_to_strings_eq by exact Hl. cbn [bind ret].
    destruct (term_list_to_strings l) as [s rest]. reflexivity.
  - apply le_n.
  - exact Hwf.
Qed.

(* ------------------------------------------------------------------ *)
(** * the precondition is needed *)
(* an association list with the key x twice (no Python dict): it is the opposite partner of x <= 0, but it is
   not == itself ((x, 5) is compared with the FIRST binding of x), so list.remove finds nothing *)
Definition dup_tp : pterm := mkT [("x", 1)] 0.
Definition dup_tn : pterm := mkT [("x", -(1)); ("x", 5)] 0.
Example remove_needs_distinct_keys :
  ~ wft dup_tn
  /\ @PolyhedralTermList_to_str_list model_prims [dup_tp; dup_tn] = raise ValueErr
  /\ to_str_list [dup_tp; dup_tn] = ["x = 0"].
Proof.
  split; [|split].
  - unfold wft, dup_tn. cbn. intros H. inversion H as [|? ? Hn _]; subst. apply Hn. left. reflexivity.
  - vm_compute. reflexivity.
  - vm_compute. reflexivity.
Qed.
