(* WrapGenBase.v — helper lemmas for the T1 tie of the PolyhedralIoContract wrappers (see WrapGenFacts.v). *)
From Coq Require Import List String Bool Arith QArith Lia.
Import ListNotations.
Require Import Py ListsGen ConstGen AlgebraGen PyDict PyLoop Sem Term Poly Tactics PolyDomain WrapGen.
Open Scope py_scope.

Lemma wbind_ret_r {A} (m : M A) : bind m (fun x => ret x) = m.
Proof. destruct m; reflexivity. Qed.
Lemma wbind_ext {A B} (m : M A) (f g : A -> M B) : (forall a, f a = g a) -> bind m f = bind m g.
Proof. intros Hfg. destruct m as [a|e]; [apply Hfg|reflexivity]. Qed.
Lemma map_Var (l : list string) : map (fun x => Var x) l = l.
Proof. induction l as [|x r IH]; [reflexivity|]. cbn [map]. rewrite IH. reflexivity. Qed.

(* a loop that rebinds one variable with a raising operation = the fold of binds of the hand model *)
Lemma rebind_loop {X A} (f : A -> X -> M A) body (l : list X) :
  (forall a x, body a x = bind (f a x) (fun a' => ret (Continue a'))) ->
  forall start : M A,
  bind start (fun a => for_list_m l a body) = fold_left (fun acc x => bind acc (fun a => f a x)) l start.
Proof.
  intros Hb. induction l as [|x r IH]; intros start.
  - cbn [for_list_m fold_left]. apply wbind_ret_r.
  - cbn [for_list_m fold_left]. rewrite <- IH. destruct start as [a|e]; [|reflexivity].
    cbn [bind]. rewrite Hb. destruct (f a x) as [a'|e]; reflexivity.
Qed.

