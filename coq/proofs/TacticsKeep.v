(* TacticsKeep.v — two follow-ups to proofs/TacticsFacts.v used by property C15 and by the polyhedral
   instance of the abstract constraint domain:
   (1) relaxing a list none of whose terms mentions an eliminated variable is an equivalence in the context;
   (2) the results of elim_vars_by_refining / elim_vars_by_relaxing are again well-formed inputs
       (distinct keys, no stored zero coefficient, no "_"). *)
From Coq Require Import List String Bool QArith Qabs ZArith Reals Qreals Lra Lia Arith.
Import ListNotations.
Require Import Py ListsGen Sem Term Poly Tactics PolySpec QR ListsFacts TermFacts PolyLP PolyFacts
  TacticsLin TacticsFacts.
Local Open Scope R_scope.

(* ------------------------------------------------------------------ *)
(** * Stored coefficients of tactic results are nonzero *)
Lemma nz_subst_all sols : forall t0, nzt t0 -> nzt (subst_all sols t0).
Proof.
  induction sols as [|[v s] r IH]; intros t0 H; simpl; [exact H|].
  apply IH. apply nz_substitute_variable.
Qed.
Lemma nz_fold_remove vs : forall t, nzt t -> nzt (fold_left term_remove_variable vs t).
Proof.
  induction vs as [|v vs IH]; intros t H; simpl; [exact H|]. apply IH. apply nz_remove_variable.
Qed.

Lemma context_reduction_nz O term ctx vs refine k t' :
  context_reduction O term ctx vs refine k = inl t' -> nzt t'.
Proof.
  unfold context_reduction. intros H. apply bind_inl in H. destruct H as [[rows fv] [_ H]].
  apply bind_inl in H. destruct H as [sols [_ H]]. inversion H; subst t'.
  apply (nz_subst_all sols (term_copy term)). apply nz_copy.
Qed.
Lemma tactic_1_nz O term ctx vs refine t' cnt : tactic_1 O term ctx vs refine = inl (Some t', cnt) -> nzt t'.
Proof.
  unfold tactic_1. intros H. apply bind_inl in H. destruct H as [r [H1 H2]]. inversion H2; subst.
  eapply context_reduction_nz. exact H1.
Qed.
Lemma tactic_5_nz O term ctx vs refine t' cnt : tactic_5 O term ctx vs refine = inl (Some t', cnt) -> nzt t'.
Proof.
  unfold tactic_5. intros H. apply bind_inl in H. destruct H as [r [H1 H2]]. inversion H2; subst.
  eapply context_reduction_nz. exact H1.
Qed.
Lemma tactic_2_nz O term ctx vs refine t' cnt : tactic_2 O term ctx vs refine = inl (Some t', cnt) -> nzt t'.
Proof.
  unfold tactic_2. cbv zeta. destruct (map term_copy _) as [|c0 nc]; [discriminate|].
  destruct (nonempty _); [discriminate|].
  match goal with |- context [O ?p] => destruct (O p) as [f s| | |st|] end; try discriminate.
  destruct (negb _); intros H; inversion H; subst t'.
  - apply nz_copy.
  - unfold nzt. cbn [tvars]. apply (nz_fold_remove vs (term_copy term)). apply nz_copy.
Qed.
Lemma tactic_3_nz O term ctx vs refine t' cnt : tactic_3 O term ctx vs refine = inl (Some t', cnt) -> nzt t'.
Proof.
  unfold tactic_3. cbv zeta. destruct (list_intersection vs (term_vars_p term)); [discriminate|].
  apply tactic_1_nz.
Qed.
Lemma tactic_4_nz fuel term ctx vs refine no_vars t' cnt :
  tactic_4 fuel term ctx vs refine no_vars = inl (Some t', cnt) -> nzt t'.
Proof.
  destruct fuel as [|fuel]; intros H; [discriminate|].
  cbn [tactic_4] in H. cbv zeta in H.
  destruct (negb refine); [discriminate|].
  destruct (Nat.ltb 1 _); [discriminate|].
  destruct (list_intersection vs (term_vars_p term)) as [|v crest]; [discriminate|].
  set (P1 := fun c => negb (nonempty (list_intersection (term_vars_p c) no_vars)) &&
                      (negb (qzero (get_coefficient c v)) &&
                       qlt 0 (qmul (qmul 1 (get_coefficient c v)) (get_coefficient term v)))) in H.
  set (goal := map term_copy (filter (fun c => Nat.eqb (List.length (list_intersection (term_vars_p c) vs)) 1) (filter P1 ctx))) in *.
  set (useful := map term_copy (filter (fun c => Nat.eqb (List.length (list_intersection (term_vars_p c) vs)) 2) (filter P1 ctx))) in *.
  clearbody goal useful.
  match type of H with context [?f useful 1%nat] => set (loop := f) in H end.
  destruct goal as [|g gs].
  - destruct useful as [|u0 us0]; [discriminate|].
    revert H. generalize 1%nat. generalize (u0 :: us0). clear u0 us0.
    intros usl. induction usl as [|u usl IHl]; intros total H; [discriminate|].
    unfold loop in H at 1. lazy beta iota fix in H. fold loop in H.
    destruct (term_isolate_variable u v) as [iso|e0]; [|discriminate].
    match type of H with context [tactic_4 fuel ?a ?b ?c ?d ?f] =>
      destruct (tactic_4 fuel a b c d f) as [[[rt|] c0]|e0] end.
    + inversion H; subst t'. apply nz_substitute_variable.
    + eapply IHl. exact H.
    + destruct (is_value_error e0); [eapply IHl; exact H|discriminate].
  - apply bind_inl in H. destruct H as [iso [_ H]]. inversion H; subst t'. apply nz_substitute_variable.
Qed.

Lemma run_tactic_nz O num term ctx vs refine t' cnt :
  run_tactic O num term ctx vs refine = inl (Some t', cnt) -> nzt t'.
Proof.
  destruct num as [|[|[|[|[|[|[|k]]]]]]]; intros H; try discriminate.
  - eapply tactic_1_nz. exact H.
  - eapply tactic_2_nz. exact H.
  - eapply tactic_3_nz. exact H.
  - change (tactic_4 (S (List.length ctx)) term ctx vs refine [] = inl (Some t', cnt)) in H.
    eapply tactic_4_nz. exact H.
  - eapply tactic_5_nz. exact H.
  - simpl in H. inversion H; subst. apply nz_copy.
Qed.

Lemma transform_term_nz O order t helpers vs refine nt num cnt :
  transform_term O order t helpers vs refine = inl (nt, num, cnt) -> nzt nt.
Proof.
  unfold transform_term. destruct (negb _); [discriminate|]. intros H. apply ttl_spec in H.
  destruct H as [->|[n [c [_ H]]]]; [apply nz_copy|eapply run_tactic_nz; exact H].
Qed.

Lemma transform_loop_nz O order ctx vs refine : forall todo done used res st,
  Forall nzt done -> transform_loop O order ctx vs refine done todo used = inl (res, st) -> Forall nzt res.
Proof.
  induction todo as [|t todo IH]; intros done used res st Hd H; simpl in H.
  - inversion H; subst. exact Hd.
  - assert (Step : forall n, nzt n -> Forall nzt (done ++ [n])).
    { intros n Hn. apply Forall_app. split; [exact Hd|constructor; [exact Hn|constructor]]. }
    destruct (nonempty (list_intersection (term_vars_p t) vs)).
    + match type of H with context [transform_term O order t ?h vs refine] =>
        destruct (transform_term O order t h vs refine) as [[[nt num] cnt]|e0] eqn:TT end.
      * simpl in H. eapply IH; [|exact H]. apply Step. eapply transform_term_nz. exact TT.
      * destruct (is_value_error e0); [|discriminate]. simpl in H. eapply IH; [|exact H]. apply Step. apply nz_copy.
    + eapply IH; [|exact H]. apply Step. apply nz_copy.
Qed.

(* ------------------------------------------------------------------ *)
(** * (2) results are well-formed inputs again *)
(* with no stored zero, independence of "_" is its syntactic absence *)
Lemma good_nz_wf t : good t -> nzt t -> wft' t /\ no_us t.
Proof.
  intros [Hw Hu] Hnz. split; [split; assumption|].
  intros Hin. unfold gcR in Hu. rewrite get_coefficient_coef in Hu.
  apply (proj1 (Q2R_neq0 _) (coef_nonzero (tvars t) us Hnz Hin)). exact Hu.
Qed.
Lemma good'_wf t : good' t -> wft' t /\ no_us t.
Proof. intros [[Hw Hnz] Hu]. apply good_nz_wf; [split; assumption|exact Hnz]. Qed.

Lemma transform_result_wf O : lp_spec 0 O -> forall order self ctx vs refine sp r st,
  Forall good' self -> Forall good ctx -> NoDup vs -> ~ In us vs ->
  transform O self ctx vs refine sp order = inl (r, st) -> Forall wft' r /\ Forall no_us r.
Proof.
  intros HO order self ctx vs refine sp r st Hself Hctx Hvs Hus H.
  assert (G : forall t, In t r -> wft' t /\ no_us t).
  { destruct (transform_spec O order HO (fun num _ => all_tactics_ok num) ctx vs Hctx Hvs Hus self refine sp r st Hself H)
      as [that [R F]].
    destruct sp.
    - pose proof (simplify_good' O that ctx r (tl_rel_good _ _ _ _ _ R) Hctx F) as G'.
      intros t Ht. apply good'_wf. rewrite Forall_forall in G'. apply G'. exact Ht.
    - subst r. pose proof (tl_rel_good _ _ _ _ _ R) as G1.
      unfold transform in H. apply bind_inl in H. destruct H as [[that' used] [H1 H2]]. inversion H2; subst that' st.
      pose proof (transform_loop_nz O order ctx vs refine self [] [] that used (Forall_nil _) H1) as G2.
      intros t Ht. rewrite Forall_forall in G1, G2. apply good_nz_wf; [apply G1|apply G2]; exact Ht. }
  split; apply Forall_forall; intros t Ht; apply (G t Ht).
Qed.

Theorem C04_refine_result_wf O : lp_spec 0 O -> forall order self ctx vs sp r st,
  wf_input self ctx vs ->
  elim_vars_by_refining O self ctx vs sp order = inl (r, st) -> Forall wft' r /\ Forall no_us r.
Proof.
  intros HO order self ctx vs sp r st Hwf H. destruct (wf_input_good _ _ _ Hwf) as [G1 [G2 [G3 G4]]].
  unfold elim_vars_by_refining in H. apply bind_inl in H. destruct H as [tl [H1 H2]].
  apply as_value_error_inl in H2.
  assert (Htl : Forall good' tl).
  { destruct sp; [|inversion H1; subst; exact G1]. apply as_value_error_inl in H1.
    eapply simplify_good'; [apply Forall_good'_good; exact G1|exact G2|exact H1]. }
  eapply transform_result_wf; eassumption.
Qed.

Theorem C04_relax_result_wf O : lp_spec 0 O -> forall order self ctx vs sp r st,
  wf_input self ctx vs ->
  elim_vars_by_relaxing O self ctx vs sp order = inl (r, st) -> Forall wft' r /\ Forall no_us r.
Proof.
  intros HO order self ctx vs sp r st Hwf H. destruct (wf_input_good _ _ _ Hwf) as [G1 [G2 [G3 G4]]].
  unfold elim_vars_by_relaxing in H. apply bind_inl in H. destruct H as [tl [H1 H2]].
  apply bind_inl in H2. destruct H2 as [[tl2 used] [H2 H3]]. apply as_value_error_inl in H2.
  inversion H3; subst r st. clear H3.
  assert (Htl : Forall good' tl).
  { destruct sp.
    - apply as_value_error_inl in H1.
      eapply simplify_good'; [apply Forall_good'_good; exact G1|exact G2|exact H1].
    - inversion H1; subst. rewrite (map_copy_good' self G1). exact G1. }
  destruct (transform_result_wf O HO order tl ctx vs false sp tl2 used Htl G2 G3 G4 H2) as [W1 W2].
  split; apply Forall_forall; intros t Ht; unfold list_diff in Ht; apply filter_In in Ht; destruct Ht as [Ht _];
    [rewrite Forall_forall in W1; apply W1|rewrite Forall_forall in W2; apply W2]; exact Ht.
Qed.

(* ------------------------------------------------------------------ *)
(** * (1) nothing to eliminate: relaxing is an equivalence in the context *)
Definition novs (vs : list var) (t : pterm) : Prop := forall v, In v (term_vars_p t) -> ~ In v vs.

Lemma novs_inter vs t : novs vs t -> nonempty (list_intersection (term_vars_p t) vs) = false.
Proof.
  intros H. apply nonempty_false. destruct (list_intersection (term_vars_p t) vs) as [|x l] eqn:E; [reflexivity|].
  assert (Hx : In x (list_intersection (term_vars_p t) vs)) by (rewrite E; left; reflexivity).
  apply in_list_intersection in Hx. exfalso. apply (H x); tauto.
Qed.
Lemma novs_copy vs t : novs vs t -> novs vs (term_copy t).
Proof. intros H v Hv. apply H. apply in_vars_copy. exact Hv. Qed.

Lemma in_combine_map (g : var -> Q) vs x q : In (x, q) (combine vs (map g vs)) -> q = g x.
Proof.
  induction vs as [|v vs IH]; simpl; [tauto|]. intros [E|H]; [inversion E; reflexivity|apply IH; exact H].
Qed.
Lemma vars_roundtrip vl t x : In x (term_vars_p (roundtrip vl t)) -> In x (term_vars_p t).
Proof.
  unfold roundtrip, row_to_term, term_to_row, term_vars_p. cbn [fst snd]. rewrite mk_term_vars.
  intros H. apply in_keys_ex in H. destruct H as [q H]. apply filter_In in H. destruct H as [H Hnz].
  apply in_combine_map in H. subst q. unfold nzb in Hnz. cbn [snd] in Hnz. apply negb_true_iff in Hnz.
  destruct (in_dec string_dec x (keys (tvars t))) as [i|n]; [exact i|].
  rewrite (get_coefficient_notin t x n) in Hnz. discriminate.
Qed.
Lemma novs_roundtrip vs vl t : novs vs t -> novs vs (roundtrip vl t).
Proof. intros H v Hv. apply H. eapply vars_roundtrip. exact Hv. Qed.

Lemma simplify_novs O ts c r vs :
  Forall (novs vs) ts -> poly_simplify O ts (Some c) = inl r -> Forall (novs vs) r.
Proof.
  intros Hts H. apply simplify_subseq in H. destruct H as [sub [Hs ->]].
  apply Forall_forall. intros x Hx. apply in_map_iff in Hx. destruct Hx as [t [<- Ht]].
  apply novs_roundtrip. rewrite Forall_forall in Hts. apply Hts. eapply subseq_incl; [exact Hs|exact Ht].
Qed.

Lemma transform_loop_noelim O order ctx vs refine : forall todo done used,
  Forall (novs vs) todo ->
  transform_loop O order ctx vs refine done todo used = inl (done ++ map term_copy todo, used).
Proof.
  induction todo as [|t todo IH]; intros done used H; simpl.
  - rewrite app_nil_r. reflexivity.
  - inversion H as [|? ? H1 H2]; subst. rewrite (novs_inter vs t H1).
    rewrite (IH (done ++ [term_copy t]) used H2), <- app_assoc. reflexivity.
Qed.

Lemma list_diff_nil_r (l : list pterm) : list_diff l [] = l.
Proof. unfold list_diff. induction l as [|x l IH]; [reflexivity|]. cbn [filter py_in existsb negb]. f_equal. exact IH. Qed.
Lemma filter_novs vs l :
  Forall (novs vs) l -> filter (fun t => nonempty (list_intersection (term_vars_p t) vs)) l = [].
Proof.
  induction 1 as [|t l Ht Hl IH]; simpl; [reflexivity|]. rewrite (novs_inter vs t Ht). exact IH.
Qed.

Theorem C04_relax_noelim O : lp_spec 0 O -> forall order self ctx vs sp r st,
  wf_input self ctx vs ->
  (forall t, In t self -> forall v, In v (term_vars_p t) -> ~ In v vs) ->
  elim_vars_by_relaxing O self ctx vs sp order = inl (r, st) ->
  forall rho, sat_list rho ctx -> (sat_list rho r <-> sat_list rho self).
Proof.
  intros HO order self ctx vs sp r st Hwf Hno H rho Hc.
  destruct Hwf as [Hself [Hctx _]].
  assert (Hsw : Forall wft self) by (rewrite Forall_forall in *; intros x Hx; apply Hself; exact Hx).
  assert (Hsn : Forall (novs vs) self) by (apply Forall_forall; intros x Hx; exact (Hno x Hx)).
  unfold elim_vars_by_relaxing in H. apply bind_inl in H. destruct H as [tl [H1 H2]].
  apply bind_inl in H2. destruct H2 as [[tl2 used] [H2 H3]]. apply as_value_error_inl in H2.
  inversion H3; subst r st. clear H3.
  (* the list handed to _transform *)
  assert (Htl : Forall wft tl /\ Forall (novs vs) tl /\ (sat_list rho tl <-> sat_list rho self)).
  { destruct sp.
    - apply as_value_error_inl in H1. split; [|split].
      + pose proof (simplify_subseq O self (Some ctx) tl H1) as [sub [Hs E]]. subst tl.
        apply Forall_forall. intros x Hx. apply in_map_iff in Hx. destruct Hx as [t [<- Ht]].
        unfold roundtrip, row_to_term. apply wft_mk_term. apply NoDup_keys_combine.
        apply NoDup_polytope_vars; [|exact Hctx].
        rewrite Forall_forall in *. intros y Hy. apply Hsw. apply (incl_new_self self (Some ctx)). exact Hy.
      + eapply simplify_novs; eassumption.
      + apply (simplify_equiv_wft O HO self ctx tl Hsw Hctx H1 rho Hc).
    - inversion H1; subst tl. split; [apply Forall_map_copy; [apply wft_copy|exact Hsw]|]. split.
      + apply Forall_map_copy; [apply novs_copy|exact Hsn].
      + apply sat_list_map_copy. }
  destruct Htl as [Tw [Tn Teq]].
  (* _transform only copies *)
  unfold transform in H2. rewrite (transform_loop_noelim O order ctx vs false tl [] [] Tn) in H2.
  cbn [bind app] in H2.
  assert (Cw : Forall wft (map term_copy tl)) by (apply Forall_map_copy; [apply wft_copy|exact Tw]).
  assert (Cn : Forall (novs vs) (map term_copy tl)) by (apply Forall_map_copy; [apply novs_copy|exact Tn]).
  assert (Hfin : Forall (novs vs) tl2 /\ (sat_list rho tl2 <-> sat_list rho tl)).
  { destruct sp.
    - apply bind_inl in H2. destruct H2 as [r' [H2 H3]]. inversion H3; subst r' used. split.
      + eapply simplify_novs; eassumption.
      + rewrite (simplify_equiv_wft O HO (map term_copy tl) ctx tl2 Cw Hctx H2 rho Hc). apply sat_list_map_copy.
    - inversion H2; subst tl2 used. split; [exact Cn|apply sat_list_map_copy]. }
  destruct Hfin as [Fn Feq]. rewrite (filter_novs vs tl2 Fn), list_diff_nil_r. rewrite Feq. exact Teq.
Qed.

(* ------------------------------------------------------------------ *)
Print Assumptions C04_relax_noelim.
Print Assumptions C04_relax_result_wf.
Print Assumptions C04_refine_result_wf.
