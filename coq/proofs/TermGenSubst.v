(* TermGenSubst.v — T1 tie: substitute_variable (see TermGenFacts.v). *)
From Coq Require Import List String Bool QArith ZArith Lia.
Import ListNotations.
Require Import Py ListsGen Sem PyDict Term TermGen ListsFacts TermFacts TermGenBase TermGenCore TermGenArith TermGenRemove.
Open Scope py_scope.
Local Open Scope Q_scope.

(** substitute_variable *)
Theorem substitute_variable_eq t v s :
  wft t -> nz_at t v -> wft s ->
  PolyhedralTerm_substitute_variable t v s = ret (term_substitute_variable t v s).
Proof.
  intros H Hnz Hs. unfold PolyhedralTerm_substitute_variable, term_substitute_variable.
  rewrite contains_var_eq. destruct (contains_var t v).
  - rewrite get_coefficient_eq, bind_ret_l. cbv zeta.
    rewrite (multiply_eq s _ Hs), (remove_variable_eq t v H Hnz), bind_ret_l.
    apply add_eq; [apply wft_remove_variable; exact H|apply wft_multiply; exact Hs].
  - rewrite (copy_eq t H). reflexivity.
Qed.
Corollary substitute_variable_eq' t v s :
  wft' t -> wft s -> PolyhedralTerm_substitute_variable t v s = ret (term_substitute_variable t v s).
Proof. intros H Hs. apply substitute_variable_eq; [apply H|apply wft'_nz_at; exact H|exact Hs]. Qed.
Local Open Scope string_scope.
Example stored_zero_substitute :
  let t := mkT [("x", 0); ("y", 1)] 1 in
  PolyhedralTerm_substitute_variable t "x" (mkT [("y", 2 # 1)] 0) = inr (Escape "KeyError")
  /\ term_substitute_variable t "x" (mkT [("y", 2 # 1)] 0) = mkT [("y", 1)] 1.
Proof. split; reflexivity. Qed.
