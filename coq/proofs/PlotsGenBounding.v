(* PlotsGenBounding.v — T1 tie of the vertex routine, group 3: _get_feasible_point (up to its LP) and
   _get_bounding_vertices (see PlotsGenFacts.v).
   The arrays of the Python are read as the hand model reads them: a_mat = the coefficient lists of [rows],
   b = their bounds, model rows = map row_triple rows.  Precondition [two_cols rows]: every row of a_mat has exactly
   two columns (the routine is 2-D: c = [0, 1], the row [0, 0, -1] appended to [A | norms]); the hand model pads or
   truncates silently (row_triple), numpy raises — see the Examples at the end. *)
From Coq Require Import List String Bool QArith ZArith Arith Lia.
Import ListNotations.
Require Import Py ListsGen Sem PyDict PyLoop PyTermList PyPrint PyPlots Term Poly Plots.
Require Import TermFacts TermGenBase PlotsFacts PlotsGen PlotsGenBase.
Open Scope py_scope.
Local Open Scope Q_scope.

Definition two_cols (rows : list row) : Prop := Forall (fun r => List.length (fst r) = 2%nat) rows.

Section Bounding.
Variables (nrm : list Q -> Q) (O : oracles).
Notation PP := (plot_prims nrm O).

Theorem get_feasible_point_eq (rows : list row) :
  two_cols rows ->
  @plots__get_feasible_point PP (map fst rows) (map snd rows) true
  = match centre O (map row_triple rows) with
    | Some p => ret (pt_list p)
    | None => raise ValueErr
    end.
Proof.
  intros H2. unfold plots__get_feasible_point. cbv zeta.
  cbn [pp_norm_rows plot_prims].
  rewrite (map_map fst (fun r => [nrm r])), (np_concat_axis1_map fst (fun r => [nrm (fst r)])), bind_ret_l.
  assert (W3 : Forall (fun r : list Q => List.length r = 3%nat) (map (fun x : list Q * Q => (fst x ++ [nrm (fst x)])%list) rows)).
  { apply Forall_map. eapply Forall_impl; [|exact H2]. intros r Hr. cbn beta in *. rewrite app_length, Hr. reflexivity. }
  rewrite (np_concat_axis0_ok 3 _ _ W3) by (repeat constructor). rewrite bind_ret_l.
  unfold np_reshape_col. rewrite (map_map snd (fun c => [c])).
  rewrite (np_concat_axis0_ok 1) by (try (apply Forall_map, Forall_forall; intros; reflexivity); repeat constructor).
  rewrite bind_ret_l. unfold np_array_2d, np_array_1d.
  cbn [pp_linprog plot_prims plot_linprog]. rewrite decode_cheb_ok.
  assert (E : list_Qeqb [0; 0; -1 # 1] [0; 0; - (1)] = true) by reflexivity. rewrite E, bind_ret_l.
  destruct (centre O (map row_triple rows)) as [p|]; reflexivity.
Qed.

Lemma hs_rows_ok (rows : list row) :
  two_cols rows ->
  map hs_row (map (fun r : list Q * Q => (fst r ++ [- snd r])%list) rows) = map row_triple rows.
Proof.
  intros H. rewrite map_map. apply map_ext_in. intros [cs c] Hin.
  unfold two_cols in H. rewrite Forall_forall in H. specialize (H _ Hin). cbn [fst snd] in *.
  destruct cs as [|a [|b [|d rest]]]; try discriminate H.
  unfold hs_row, row_triple. cbn [app nth fst snd]. rewrite Qopp_opp_eq. reflexivity.
Qed.

Theorem get_bounding_vertices_eq (rows : list row) :
  two_cols rows ->
  @plots__get_bounding_vertices PP (map fst rows) (map snd rows)
  = mmap unzip_pts (bounding_vertices O (map row_triple rows)).
Proof.
  intros H2. unfold plots__get_bounding_vertices, bounding_vertices. cbv zeta.
  rewrite (get_feasible_point_eq rows H2).
  destruct (centre O (map row_triple rows)) as [ip|] eqn:Ec; [|reflexivity].
  unfold try_except, try_value_error. cbn [bind ret].
  unfold np_reshape_col, np_neg_2d. rewrite !map_map.
  rewrite (np_concat_axis1_map fst (fun r : row => [- snd r])), bind_ret_l.
  match goal with |- bind (try_except_escape _ _ _) ?k = _ => set (K := k) end.
  assert (HK : forall pts : list pt, pts <> [] ->
            K (unzip_pts pts) = ret (unzip_pts (sort_angular (cut_low O) (centroid pts) pts))).
  { intros pts Hne. unfold K, unzip_pts.
    rewrite !py_div_mean by (destruct pts; [congruence|discriminate]). rewrite !bind_ret_l.
    cbn [pp_sorted_by_atan2 plot_prims]. rewrite py_zip_unzip.
    rewrite (sort_by_angle_eq (cut_low O) (mean (map fst pts), mean (map snd pts))) by (intros; reflexivity).
    fold (centroid pts).
    rewrite py_unzip2_ok; [reflexivity|].
    intros E. apply (f_equal (@List.length pt)) in E. rewrite sort_angular_length in E.
    destruct pts; [congruence|discriminate]. }
  clearbody K.
  cbn [pp_HalfspaceIntersection pp_intersections plot_prims]. unfold plot_hull.
  rewrite (hs_rows_ok rows H2), Ec. unfold pt_list. rewrite !Qeq_bool_refl'. cbn [andb].
  destruct (Q_hull O (map row_triple rows)) as [[|q l]|].
  - reflexivity.
  - cbn [bind ret try_except_escape py_unzip2]. change (map fst (q :: l), map snd (q :: l)) with (unzip_pts (q :: l)).
    rewrite HK by discriminate. reflexivity.
  - cbn [bind raise try_except_escape String.eqb Ascii.eqb Bool.eqb].
    cbn [pp_linprog pp_res_x plot_prims plot_linprog]. rewrite !map_length, Nat.eqb_refl, rows3_of_rows.
    cbn [bind ret]. unfold np_array_opt.
    change (0, - (1)) with (0, -1 # 1). change (- (1), 0) with (-1 # 1, 0).
    destruct (extreme O (map row_triple rows) (0, 1)) as [p1|];
    destruct (extreme O (map row_triple rows) (0, -1 # 1)) as [p2|];
    destruct (extreme O (map row_triple rows) (1, 0)) as [p3|];
    destruct (extreme O (map row_triple rows) (-1 # 1, 0)) as [p4|]; try reflexivity.
    cbn [option_map npo_index pt_list list_get_m bind ret].
    change ([fst p1; fst p2; fst p3; fst p4], [snd p1; snd p2; snd p3; snd p4]) with (unzip_pts [p1; p2; p3; p4]).
    rewrite HK by discriminate. reflexivity.
Qed.
End Bounding.

(* ------------------------------------------------------------------ *)
(** * why the preconditions, and what the instance is sensitive to *)
Definition demo_oracles : oracles :=
  mkOracles (fun _ => Some (0, 0)) (fun _ => Some [(0, 0)]) (fun _ _ => None) (fun _ => false).
Definition demo_nrm : list Q -> Q := fun _ => 0.
(* a row with three coefficients: np.concatenate((a_mat_1, [[0, 0, -1]]), axis=0) raises ValueError (4 columns against
   3), which _get_bounding_vertices reports as "Region is empty"; the hand model reads the first two coefficients *)
Example three_columns_differ :
  @plots__get_bounding_vertices (plot_prims demo_nrm demo_oracles) [[1; 1; 1]] [1] = inr ValueErr
  /\ bounding_vertices demo_oracles (map row_triple [([1; 1; 1], 1)]) = inl [(0, 0)].
Proof. split; reflexivity. Qed.
(* interior=False asks for another LP (objective [0, 0, 1]), which the hand model has no oracle for *)
Example not_interior_is_another_lp :
  @plots__get_feasible_point (plot_prims demo_nrm demo_oracles) [[1; 1]] [1] false = inr OracleMiss.
Proof. reflexivity. Qed.
(* the bounds argument is visible to the primitive: scipy's default bounds=(0, None) is not an LP of the hand model
   (the seeded defect C18b drops `bounds=(None, None)` from the four fallback LPs) *)
Example default_bounds_is_another_lp c a b :
  plot_linprog demo_nrm demo_oracles c a b (Some 0, None) = inr OracleMiss.
Proof. reflexivity. Qed.
(* Qhull fails (no interior): the four fallback LPs; one of them without solution: IndexError *)
Example fallback_none_indexerror :
  let O := mkOracles (fun _ => Some (0, 0)) (fun _ => None) (fun _ _ => None) (fun _ => false) in
  @plots__get_bounding_vertices (plot_prims demo_nrm O) [[1; 1]] [1] = inr (Escape "IndexError").
Proof. reflexivity. Qed.
