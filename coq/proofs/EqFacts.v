(* EqFacts.v — property C19: __eq__ / __hash__ / copy of term lists and contracts.
   TermList.__eq__ is list equality with PolyhedralTerm.__eq__ pointwise; IoContract.__eq__
   compares the four fields; __hash__ hashes (inputs, outputs, a, g), a term hashing through
   str(), i.e. through Term.term_key.  No LP oracle is involved: every statement about
   polyhedral contracts holds for every oracle O. *)
From Coq Require Import List String Bool QArith.
Import ListNotations.
Require Import Py ListsGen AlgebraGen Sem Term Poly PolyDomain.
Require Import ListsFacts AlgebraSound IfaceSpec IfaceFacts TermFacts.
Open Scope py_scope.

(* ------------------------------------------------------------------ *)
(** * list == list *)
Lemma list_eqb_Forall2 {A} `{PyEq A} (l1 l2 : list A) :
  list_eqb l1 l2 = true <-> Forall2 (fun a b => py_eqb a b = true) l1 l2.
Proof.
  revert l2. induction l1 as [|x r1 IH]; intros [|y r2]; cbn [list_eqb].
  - split; [constructor|reflexivity].
  - split; [discriminate|intros E; inversion E].
  - split; [discriminate|intros E; inversion E].
  - rewrite andb_true_iff, IH. split.
    + intros [E1 E2]. constructor; assumption.
    + intros E. inversion E; subst. split; assumption.
Qed.

Lemma list_eqb_length {A} `{PyEq A} (l1 l2 : list A) :
  list_eqb l1 l2 = true -> List.length l1 = List.length l2.
Proof. rewrite list_eqb_Forall2. induction 1; simpl; congruence. Qed.

(* lists of variables: == is Leibniz equality *)
Lemma list_eqb_var_eq (l1 l2 : list var) : list_eqb l1 l2 = true <-> l1 = l2.
Proof.
  rewrite list_eqb_Forall2. split.
  - induction 1 as [|x y r1 r2 E _ IH]; [reflexivity|]. apply py_eqb_var_eq in E. congruence.
  - intros ->. induction l2; constructor; [apply py_eqb_var_eq; reflexivity|assumption].
Qed.
Lemma list_eqb_var_sym (l1 l2 : list var) : list_eqb l1 l2 = list_eqb l2 l1.
Proof.
  destruct (list_eqb l1 l2) eqn:E1, (list_eqb l2 l1) eqn:E2; try reflexivity.
  - apply list_eqb_var_eq in E1. subst. rewrite (proj2 (list_eqb_var_eq l2 l2) eq_refl) in E2. discriminate.
  - apply list_eqb_var_eq in E2. subst. rewrite (proj2 (list_eqb_var_eq l1 l1) eq_refl) in E1. discriminate.
Qed.

(* ------------------------------------------------------------------ *)
(** * PolyhedralTermList.__eq__ : an equivalence on lists of well-formed terms *)
Definition tlist_eqb (l1 l2 : list pterm) : bool := list_eqb (A:=pterm) l1 l2.

Lemma tlist_eqb_Forall2 l1 l2 :
  tlist_eqb l1 l2 = true <-> Forall2 (fun a b => term_eqb_p a b = true) l1 l2.
Proof. unfold tlist_eqb. exact (@list_eqb_Forall2 pterm PyEq_pterm l1 l2). Qed.

Lemma tlist_eqb_refl l : Forall wft l -> tlist_eqb l l = true.
Proof.
  intros H. apply tlist_eqb_Forall2. induction H as [|t l Ht _ IH]; constructor; [apply term_eqb_refl; exact Ht|exact IH].
Qed.

Lemma tlist_eqb_sym_true l1 l2 :
  Forall wft l1 -> Forall wft l2 -> tlist_eqb l1 l2 = true -> tlist_eqb l2 l1 = true.
Proof.
  intros H1 H2. rewrite !tlist_eqb_Forall2. intros E. revert H1 H2.
  induction E as [|x y r1 r2 Exy _ IH]; intros H1 H2; [constructor|].
  inversion H1; subst. inversion H2; subst. constructor; [apply term_eqb_sym_true; assumption|apply IH; assumption].
Qed.
Lemma tlist_eqb_sym l1 l2 : Forall wft l1 -> Forall wft l2 -> tlist_eqb l1 l2 = tlist_eqb l2 l1.
Proof.
  intros H1 H2. destruct (tlist_eqb l1 l2) eqn:E1, (tlist_eqb l2 l1) eqn:E2; try reflexivity.
  - rewrite (tlist_eqb_sym_true l1 l2 H1 H2 E1) in E2. discriminate.
  - rewrite (tlist_eqb_sym_true l2 l1 H2 H1 E2) in E1. discriminate.
Qed.

Lemma tlist_eqb_trans l1 l2 l3 :
  Forall wft l1 -> Forall wft l2 -> Forall wft l3 ->
  tlist_eqb l1 l2 = true -> tlist_eqb l2 l3 = true -> tlist_eqb l1 l3 = true.
Proof.
  intros H1 H2 H3. rewrite !tlist_eqb_Forall2. intros E12. revert l3 H1 H2 H3.
  induction E12 as [|x y r1 r2 Exy _ IH]; intros l3 H1 H2 H3 E23; inversion E23; subst; [constructor|].
  inversion H1; subst. inversion H2; subst. inversion H3; subst.
  constructor; [|eapply IH; eassumption].
  match goal with
  | E1 : term_eqb_p ?a ?b = true, E2 : term_eqb_p ?b ?c = true |- term_eqb_p ?a ?c = true =>
      apply (term_eqb_trans a b c); assumption
  end.
Qed.

(* equal lists have pointwise equal hash keys *)
Definition keys_agree (l1 l2 : list pterm) : Prop :=
  Forall2 (fun k1 k2 => key_eqb k1 k2 = true) (map term_key l1) (map term_key l2).
Lemma tlist_eqb_keys l1 l2 :
  Forall wft l1 -> Forall wft l2 -> tlist_eqb l1 l2 = true -> keys_agree l1 l2.
Proof.
  intros H1 H2. rewrite tlist_eqb_Forall2. intros E. revert H1 H2. unfold keys_agree.
  induction E as [|x y r1 r2 Exy _ IH]; intros H1 H2; cbn [map]; [constructor|].
  inversion H1; subst. inversion H2; subst. constructor; [apply term_eqb_key; assumption|apply IH; assumption].
Qed.

(* ... and the same meaning *)
Lemma tlist_eqb_sat l1 l2 :
  Forall wft l1 -> Forall wft l2 -> tlist_eqb l1 l2 = true -> forall rho, sat_list rho l1 <-> sat_list rho l2.
Proof.
  intros H1 H2. rewrite tlist_eqb_Forall2. intros E rho. revert H1 H2. unfold sat_list.
  induction E as [|x y r1 r2 Exy _ IH]; intros H1 H2; [tauto|].
  inversion H1; subst. inversion H2; subst. rewrite !Forall_cons_iff, IH by assumption.
  rewrite (term_eqb_sat x y) by assumption. tauto.
Qed.

(* a list and its length: lists of different lengths are different *)
Lemma tlist_eqb_length l1 l2 : tlist_eqb l1 l2 = true -> List.length l1 = List.length l2.
Proof. exact (@list_eqb_length pterm PyEq_pterm l1 l2). Qed.

(* ------------------------------------------------------------------ *)
(** * IoContract.__eq__, for every domain *)
Section Generic.
Context `{D : Domain}.

Theorem IoContract_eq_iff (c d : contract) :
  IoContract_eq c d = true <->
  (py_eqb (c_inputvars c) (c_inputvars d) = true /\ py_eqb (c_outputvars c) (c_outputvars d) = true /\
   TermList_eq (c_a c) (c_a d) = true /\ TermList_eq (c_g c) (c_g d) = true).
Proof. unfold IoContract_eq. rewrite !andb_true_iff. tauto. Qed.

(* contracts that differ in any one of the four fields are different *)
Corollary IoContract_neq_inputs (c d : contract) :
  py_eqb (c_inputvars c) (c_inputvars d) = false -> IoContract_eq c d = false.
Proof. intros E. unfold IoContract_eq. rewrite E. reflexivity. Qed.
Corollary IoContract_neq_outputs (c d : contract) :
  py_eqb (c_outputvars c) (c_outputvars d) = false -> IoContract_eq c d = false.
Proof. intros E. unfold IoContract_eq. rewrite E, andb_false_r. reflexivity. Qed.
Corollary IoContract_neq_assumptions (c d : contract) :
  TermList_eq (c_a c) (c_a d) = false -> IoContract_eq c d = false.
Proof. intros E. unfold IoContract_eq. rewrite E, andb_false_r. reflexivity. Qed.
Corollary IoContract_neq_guarantees (c d : contract) :
  TermList_eq (c_g c) (c_g d) = false -> IoContract_eq c d = false.
Proof. intros E. unfold IoContract_eq. rewrite E, andb_false_r. reflexivity. Qed.

(* copy: TermList.copy is the identity of the value model; IoContract.copy goes through the
   constructor, which re-simplifies the guarantees against the assumptions *)
Theorem TermList_copy_id_eq (l : list term) : TermList_copy l = l.
Proof. apply TermList_copy_eq. Qed.

Theorem IoContract_copy_inv (c c' : contract) :
  IoContract_copy c = inl c' ->
  c_inputvars c' = c_inputvars c /\ c_outputvars c' = c_outputvars c /\ c_a c' = c_a c /\
  p_simplify (c_g c) (Some (c_a c)) = inl (c_g c').
Proof.
  unfold IoContract_copy. rewrite !TermList_copy_eq. cbv zeta. intros H.
  apply bind_inl in H. destruct H as [c1 [Hi H]]. inversion H; subst c1.
  apply init_inv in Hi. destruct Hi as (_ & Ha & Hiv & Hov & Hg). cbv iota in Hg. tauto.
Qed.
End Generic.

(* ------------------------------------------------------------------ *)
(** * polyhedral contracts *)
Section Poly.
Variable O : oracle.
Notation PD := (poly_domain O).

Definition wfc_t (c : pcontract O) : Prop := Forall wft (@c_a PD c) /\ Forall wft (@c_g PD c).

Lemma TermList_eq_poly (l1 l2 : list pterm) : @TermList_eq PD l1 l2 = tlist_eqb l1 l2.
Proof. reflexivity. Qed.

Theorem pcontract_eq_iff (c d : pcontract O) :
  @IoContract_eq PD c d = true <->
  (@c_inputvars PD c = @c_inputvars PD d /\ @c_outputvars PD c = @c_outputvars PD d /\
   tlist_eqb (@c_a PD c) (@c_a PD d) = true /\ tlist_eqb (@c_g PD c) (@c_g PD d) = true).
Proof.
  rewrite (@IoContract_eq_iff PD c d), !TermList_eq_poly.
  change (@py_eqb (list var) _ ?x ?y) with (list_eqb (A:=var) x y). rewrite !list_eqb_var_eq. tauto.
Qed.

Theorem pcontract_eq_refl (c : pcontract O) : wfc_t c -> @IoContract_eq PD c c = true.
Proof.
  intros [Ha Hg]. apply pcontract_eq_iff. repeat split; try reflexivity; apply tlist_eqb_refl; assumption.
Qed.

Theorem pcontract_eq_sym (c d : pcontract O) :
  wfc_t c -> wfc_t d -> @IoContract_eq PD c d = @IoContract_eq PD d c.
Proof.
  intros [Ha Hg] [Ha' Hg'].
  assert (S : forall x y, wfc_t x -> wfc_t y -> @IoContract_eq PD x y = true -> @IoContract_eq PD y x = true).
  { intros x y [Xa Xg] [Ya Yg] E. apply pcontract_eq_iff in E. destruct E as (E1 & E2 & E3 & E4).
    apply pcontract_eq_iff. repeat split; try (symmetry; assumption); apply tlist_eqb_sym_true; assumption. }
  destruct (@IoContract_eq PD c d) eqn:E1, (@IoContract_eq PD d c) eqn:E2; try reflexivity.
  - rewrite (S c d) in E2; [discriminate|split; assumption|split; assumption|exact E1].
  - rewrite (S d c) in E1; [discriminate|split; assumption|split; assumption|exact E2].
Qed.

Theorem pcontract_eq_trans (c d e : pcontract O) :
  wfc_t c -> wfc_t d -> wfc_t e ->
  @IoContract_eq PD c d = true -> @IoContract_eq PD d e = true -> @IoContract_eq PD c e = true.
Proof.
  intros [Ca Cg] [Da Dg] [Ea Eg] E1 E2.
  apply pcontract_eq_iff in E1. destruct E1 as (A1 & A2 & A3 & A4).
  apply pcontract_eq_iff in E2. destruct E2 as (B1 & B2 & B3 & B4).
  apply pcontract_eq_iff. repeat split; try congruence.
  - eapply tlist_eqb_trans; [| |exact Ea|exact A3|exact B3]; assumption.
  - eapply tlist_eqb_trans; [| |exact Eg|exact A4|exact B4]; assumption.
Qed.

(* equal contracts hash alike: same interface lists, pointwise equal term keys *)
Theorem pcontract_eq_hash (c d : pcontract O) :
  wfc_t c -> wfc_t d -> @IoContract_eq PD c d = true ->
  let '(i1, o1, a1, g1) := @IoContract_hash_key PD c in
  let '(i2, o2, a2, g2) := @IoContract_hash_key PD d in
  i1 = i2 /\ o1 = o2 /\ keys_agree a1 a2 /\ keys_agree g1 g2.
Proof.
  intros [Ca Cg] [Da Dg] E. apply pcontract_eq_iff in E. destruct E as (E1 & E2 & E3 & E4).
  unfold IoContract_hash_key. repeat split; try assumption; apply tlist_eqb_keys; assumption.
Qed.

(* equal contracts mean the same *)
Theorem pcontract_eq_sat (c d : pcontract O) :
  wfc_t c -> wfc_t d -> @IoContract_eq PD c d = true ->
  forall rho, (sat_list rho (@c_a PD c) <-> sat_list rho (@c_a PD d)) /\
              (sat_list rho (@c_g PD c) <-> sat_list rho (@c_g PD d)).
Proof.
  intros [Ca Cg] [Da Dg] E rho. apply pcontract_eq_iff in E. destruct E as (_ & _ & E3 & E4).
  split; apply tlist_eqb_sat; assumption.
Qed.

(* Term.copy: a well-formed term equals its copy (and is it) *)
Theorem term_copy_eq t : wft' t -> term_eqb_p (term_copy t) t = true /\ term_copy t = t.
Proof. intros H. split; [apply term_eqb_copy; exact H|apply term_copy_id; apply H]. Qed.

Theorem pcontract_copy_inv (c c' : pcontract O) :
  poly_copy O c = inl c' ->
  @c_inputvars PD c' = @c_inputvars PD c /\ @c_outputvars PD c' = @c_outputvars PD c /\
  @c_a PD c' = @c_a PD c /\
  poly_simplify O (@c_g PD c) (Some (@c_a PD c)) = inl (@c_g PD c').
Proof. intros H. exact (@IoContract_copy_inv PD c c' H). Qed.
End Poly.

(* a concrete instance: the order of the dict does not matter, the value of a coefficient does *)
Local Open Scope string_scope.
Example eq_order_irrelevant :
  tlist_eqb [mkT [("x", 1%Q); ("y", 2%Q)] 3%Q] [mkT [("y", 2%Q); ("x", 1%Q)] 3%Q] = true.
Proof. vm_compute. reflexivity. Qed.
Example eq_coefficient_relevant :
  tlist_eqb [mkT [("x", 1%Q); ("y", 2%Q)] 3%Q] [mkT [("x", 1%Q); ("y", 5%Q)] 3%Q] = false.
Proof. vm_compute. reflexivity. Qed.
(* list order does matter for TermList.__eq__ *)
Example eq_list_order_relevant :
  tlist_eqb [mkT [("x", 1%Q)] 0%Q; mkT [("y", 1%Q)] 0%Q] [mkT [("y", 1%Q)] 0%Q; mkT [("x", 1%Q)] 0%Q] = false.
Proof. vm_compute. reflexivity. Qed.
Local Close Scope string_scope.

Print Assumptions pcontract_eq_iff.
Print Assumptions pcontract_eq_sym.
Print Assumptions pcontract_eq_trans.
Print Assumptions pcontract_eq_hash.
Print Assumptions pcontract_copy_inv.
