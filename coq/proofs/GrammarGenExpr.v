(* GrammarGenExpr.v — the generated rules above `terms` of gen/GrammarGen.v
     abs_term, first_abs_term, signed_abs_term, first_abs_or_term, addl_abs_or_term, abs_or_terms,
     paren_abs_or_terms, first_paren_abs_or_terms, addl_paren_abs_or_terms, multi_paren_abs_or_terms,
     equality_expression, leq_expression, geq_expression, expression
   equal the hand-written ones of model/Grammar.v, rule by rule (one theorem per rule: an edit of one rule of
   grammar.py breaks the theorem of that rule; the later ones only use its statement). *)
From Coq Require Import List String Ascii Bool NArith ZArith QArith Arith Lia.
Import ListNotations.
Require Import Py Ast Grammar PyParsing GrammarGen GrammarGenBase GrammarGenTokens GrammarGenTerms.
Local Open Scope string_scope.

Theorem abs_term_eq n : peq (GrammarGen.abs_term n) (Grammar.abs_term fla n).
Proof.
  unfold GrammarGen.abs_term, Grammar.abs_term.
  peq_solve ltac:(first [exact (coef_eq n) | exact (terms_eq n)]).
Qed.

Theorem first_abs_term_eq n : peq (GrammarGen.first_abs_term n) (Grammar.first_abs_term fla n).
Proof.
  unfold GrammarGen.first_abs_term, Grammar.first_abs_term. rewrite symbol_eq.
  peq_solve ltac:(exact (abs_term_eq n)).
Qed.

Theorem signed_abs_term_eq n : peq (GrammarGen.signed_abs_term n) (Grammar.signed_abs_term fla n).
Proof.
  unfold GrammarGen.signed_abs_term, Grammar.signed_abs_term. rewrite symbol_eq.
  peq_solve ltac:(exact (abs_term_eq n)).
Qed.

Theorem first_abs_or_term_eq n : peq (GrammarGen.first_abs_or_term n) (Grammar.first_abs_or_term fla n).
Proof.
  unfold GrammarGen.first_abs_or_term, Grammar.first_abs_or_term.
  apply peq_alt; [exact (first_abs_term_eq n) | exact (first_term_eq n)].
Qed.

Theorem addl_abs_or_term_eq n : peq (GrammarGen.addl_abs_or_term n) (Grammar.addl_abs_or_term fla n).
Proof.
  unfold GrammarGen.addl_abs_or_term, Grammar.addl_abs_or_term.
  apply peq_alt; [exact (signed_abs_term_eq n) | exact (signed_term_eq n)].
Qed.

Theorem abs_or_terms_eq n : peq (GrammarGen.abs_or_terms n) (Grammar.abs_or_terms fla n).
Proof.
  unfold GrammarGen.abs_or_terms, Grammar.abs_or_terms.
  peq_solve ltac:(first [exact (first_abs_or_term_eq n) | exact (addl_abs_or_term_eq n)]).
Qed.

Theorem paren_abs_or_terms_eq n : peq (GrammarGen.paren_abs_or_terms n) (Grammar.paren_abs_or_terms fla n).
Proof.
  unfold GrammarGen.paren_abs_or_terms, Grammar.paren_abs_or_terms.
  peq_solve ltac:(first [exact (coef_eq n) | exact (abs_or_terms_eq n)]).
Qed.

Theorem first_paren_abs_or_terms_eq n :
  peq (GrammarGen.first_paren_abs_or_terms n) (Grammar.first_paren_abs_or_terms fla n).
Proof.
  unfold GrammarGen.first_paren_abs_or_terms, Grammar.first_paren_abs_or_terms. rewrite symbol_eq.
  peq_solve ltac:(first [exact (paren_abs_or_terms_eq n) | exact (first_abs_or_term_eq n)]).
Qed.

Theorem addl_paren_abs_or_terms_eq n :
  peq (GrammarGen.addl_paren_abs_or_terms n) (Grammar.addl_paren_abs_or_terms fla n).
Proof.
  unfold GrammarGen.addl_paren_abs_or_terms, Grammar.addl_paren_abs_or_terms. rewrite symbol_eq.
  peq_solve ltac:(first [exact (paren_abs_or_terms_eq n) | exact (addl_abs_or_term_eq n)]).
Qed.

Theorem multi_paren_abs_or_terms_eq n : peq (GrammarGen.multi_paren_abs_or_terms n) (Grammar.multi fla n).
Proof.
  unfold GrammarGen.multi_paren_abs_or_terms, Grammar.multi.
  peq_solve ltac:(first [exact (first_paren_abs_or_terms_eq n) | exact (addl_paren_abs_or_terms_eq n)]).
Qed.

Theorem equality_expression_eq n : peq (GrammarGen.equality_expression n) (Grammar.equality_expression fla n).
Proof.
  unfold GrammarGen.equality_expression, Grammar.equality_expression.
  peq_solve ltac:(first [exact (terms_eq n) | exact eq_op_eq]).
Qed.

Theorem leq_expression_eq n : peq (GrammarGen.leq_expression n) (Grammar.leq_expression fla n).
Proof.
  unfold GrammarGen.leq_expression, Grammar.leq_expression, Grammar.ineq_expression.
  peq_solve ltac:(exact (multi_paren_abs_or_terms_eq n)).
Qed.

Theorem geq_expression_eq n : peq (GrammarGen.geq_expression n) (Grammar.geq_expression fla n).
Proof.
  unfold GrammarGen.geq_expression, Grammar.geq_expression, Grammar.ineq_expression.
  peq_solve ltac:(exact (multi_paren_abs_or_terms_eq n)).
Qed.

Theorem expression_eq n : peq (GrammarGen.expression n) (Grammar.expression fla n).
Proof.
  unfold GrammarGen.expression, Grammar.expression.
  peq_solve ltac:(first [exact (equality_expression_eq n) | exact (leq_expression_eq n) | exact (geq_expression_eq n)]).
Qed.
