(* SyntaxGenGrammar.v — T1 tie, grammar.py: every parse action (gen/SyntaxGen.v) on the token shapes the grammar
   hands to it (the same shapes harness/syntax_cases.py:_Builder replays on the real code), against the step of
   model/Syntax.v that mirrors it.  Tokens are dynamically typed (base/PySyntax.v:tok); the equalities below are
   stated for well-typed tokens, which is what pyparsing produces; on other tokens the generated functions return
   the Escape that Python raises (assert / TypeError / IndexError / AttributeError), which has no counterpart in the
   hand model (its input is the typed syntax tree of model/Ast.v).
   SyntaxGenFold.v composes these steps over whole syntax trees (= parse_expr / fold_expr). *)
From Coq Require Import List String Bool QArith ZArith Lia.
Import ListNotations.
Require Import Py ListsGen Sem PyDict PyLoop PySyntax Term Ast Syntax TermGen SyntaxGen.
Require Import ListsFacts TermFacts TermGenBase SyntaxFacts SyntaxGenBase SyntaxGenTermList SyntaxGenAbsTerm
        SyntaxGenAbsTermList.
Open Scope py_scope.
Local Open Scope Q_scope.
Local Open Scope string_scope.

(* ------------------------------------------------------------------ *)
(** * Token shapes *)
(* the tokens of a pp.Group(...): one token that is itself a ParseResults *)
Definition G (l : list token) : token := TokGroup [TokGroup l].
Definition sign_str (s : sign) : string := match s with Plus => "+" | Minus => "-" end.
Definition sign_tok (s : sign) : token := TokStr (sign_str s).
(* the optional "*" between a number and what it multiplies *)
Definition star_toks (star : bool) : list token := if star then [TokStr "*"] else [].

Local Arguments PolyhedralSyntaxTermList_negate : simpl never.
Local Arguments PolyhedralSyntaxTermList_add : simpl never.
Local Arguments PolyhedralSyntaxAbsoluteTerm_negate : simpl never.
Local Arguments PolyhedralSyntaxAbsoluteTermList_negate : simpl never.
Local Arguments PolyhedralSyntaxAbsoluteTermList_add : simpl never.
Local Arguments data_combine_or_append : simpl never.
Local Arguments dict_set : simpl never.
Local Arguments dict_get : simpl never.
Local Arguments qmul : simpl never.
Local Arguments qadd : simpl never.
Local Arguments qsub : simpl never.
Local Arguments qneg : simpl never.
Local Arguments py_div : simpl never.
Local Arguments q_eqb : simpl never.
Local Arguments for_list_m : simpl never.
Local Arguments for_list : simpl never.
(* evaluate the token plumbing (len, indexing with int literals, isinstance matches) *)
Ltac tok_compute := cbn; cbv [Pos.to_nat Pos.iter_op Nat.add nth_error]; cbn.

Lemma sign_eqb_minus s : String.eqb (sign_str s) "-" = match s with Plus => false | Minus => true end.
Proof. destruct s; reflexivity. Qed.

(* ------------------------------------------------------------------ *)
(** * term level *)
Theorem parse_only_variable_eq v :
  grammar_parse_only_variable (TokGroup [TokStr v]) = ret (mkG 0 [(v, 1)]).
Proof. reflexivity. Qed.

Lemma gfactors_scale_loop (f : Q) (o : gstl) :
  gwfs o ->
  for_list_m (dict_keys (gfactors o)) o
    (fun (pt : gstl) (k : var) =>
       t <- dict_get (gfactors pt) k ;;
       ret (Continue (PolyhedralSyntaxTermList_with_factors pt (dict_set (gfactors pt) k (qmul t f)))))
  = ret (PolyhedralSyntaxTermList_with_factors o (map (fun p => (fst p, qmul (snd p) f)) (gfactors o))).
Proof.
  intros Hwf.
  apply (scale_loop gfactors PolyhedralSyntaxTermList_with_factors f _
           (fun o d => eq_refl) (fun o d d' => eq_refl)) with (pre := []).
  - intros [c d]. reflexivity.
  - intros o' k. reflexivity.
  - exact Hwf.
  - reflexivity.
Qed.

(* number [*] variable : the factors of the variable's term list are scaled in place *)
Theorem parse_number_and_variable_eq star n t :
  gwfs t -> q_eqb (gconst t) 0 = true ->
  grammar_parse_number_and_variable (TokGroup (TokFloat n :: star_toks star ++ [TokTermList t]))
  = ret (of_stl (stl_scale_factors n (to_stl t))).
Proof.
  intros Hwf Hc. destruct star; tok_compute; rewrite Hc; change (map fst (gfactors t)) with (dict_keys (gfactors t));
    rewrite (gfactors_scale_loop n t Hwf); reflexivity.
Qed.

Theorem parse_term_term_list t : grammar_parse_term (G [TokTermList t]) = ret t.
Proof. reflexivity. Qed.
Theorem parse_term_float q : grammar_parse_term (G [TokFloat q]) = ret (mkG q []).
Proof. reflexivity. Qed.

Definition g_apply_sign (s : sign) (t : gstl) : gstl :=
  match s with Plus => t | Minus => PolyhedralSyntaxTermList_negate t end.
Lemma g_apply_sign_eq s t : gwfs t -> to_stl (g_apply_sign s t) = apply_sign s (to_stl t).
Proof. intros H. destruct s; [reflexivity|]. apply stl_negate_eq. exact H. Qed.

Theorem parse_first_term_eq s t : grammar_parse_first_term (G [sign_tok s; TokTermList t]) = ret (g_apply_sign s t).
Proof. destruct s; reflexivity. Qed.
Theorem parse_first_term_nosign t : grammar_parse_first_term (G [TokTermList t]) = ret t.
Proof. reflexivity. Qed.
Theorem parse_signed_term_eq s t : grammar_parse_signed_term (G [sign_tok s; TokTermList t]) = ret (g_apply_sign s t).
Proof. destruct s; reflexivity. Qed.

(* reduce(PolyhedralSyntaxTermList.add, group, PolyhedralSyntaxTermList(constant=0, factors={})) *)
Lemma reduce_add ts acc :
  for_list_m (map (@TokTermList gstl gabs gatl gexpr) ts) acc
    (fun acc_ x_ => x_ <- tok_as_term_list x_ ;; r_ <- PolyhedralSyntaxTermList_add acc_ x_ ;; ret (Continue r_))
  = ret (of_stl (fold_left stl_add (map to_stl ts) (to_stl acc))).
Proof.
  revert acc. induction ts as [|t r IH]; intros acc.
  - cbn [map fold_left]. rewrite of_to_stl. reflexivity.
  - cbn [map fold_left]. unfold for_list_m at 1. fold (@for_list_m token gstl).
    cbn [tok_as_term_list bind ret]. rewrite stl_add_ret. cbn [bind ret]. rewrite IH, to_of_stl. reflexivity.
Qed.
Theorem parse_term_list_eq ts :
  grammar_parse_term_list (G (map TokTermList ts)) = ret (of_stl (fold_left stl_add (map to_stl ts) stl_zero)).
Proof. tok_compute. apply (reduce_add ts (mkG 0 dict_empty)). Qed.

Theorem parse_paren_terms_eq t : grammar_parse_paren_terms (G [TokStr "("; TokTermList t; TokStr ")"]) = ret t.
Proof. reflexivity. Qed.

(* number [*] ( terms ) : constant and factors are scaled in place *)
Theorem parse_factor_paren_terms_eq star f t :
  gwfs t ->
  grammar_parse_factor_paren_terms (G (TokFloat f :: star_toks star ++ [TokTermList t]))
  = ret (of_stl (stl_scale f (to_stl t))).
Proof.
  intros Hwf. destruct star; tok_compute;
    change (map fst (gfactors t)) with (dict_keys (gfactors (PolyhedralSyntaxTermList_with_constant t (qmul (gconst t) f))));
    rewrite (gfactors_scale_loop f (PolyhedralSyntaxTermList_with_constant t (qmul (gconst t) f)) Hwf); reflexivity.
Qed.

(* ------------------------------------------------------------------ *)
(** * absolute terms *)
Theorem parse_absolute_term_plain t :
  grammar_parse_absolute_term (G [TokStr "|"; TokTermList t; TokStr "|"]) = ret (mkGA t None).
Proof. reflexivity. Qed.
Theorem parse_absolute_term_coef star c t :
  grammar_parse_absolute_term (G (TokFloat c :: star_toks star ++ [TokStr "|"; TokTermList t; TokStr "|"]))
  = ret (mkGA t (Some c)).
Proof. destruct star; reflexivity. Qed.

Definition g_abs_sign (s : sign) (a : gabs) : gabs :=
  match s with Plus => a | Minus => PolyhedralSyntaxAbsoluteTerm_negate a end.
Lemma g_abs_sign_eq s a : to_sabs (g_abs_sign s a) = match s with Plus => to_sabs a | Minus => abs_negate (to_sabs a) end.
Proof. destruct s; [reflexivity|apply abs_negate_eq]. Qed.
Theorem parse_signed_abs_term_eq s a :
  grammar_parse_signed_abs_term (G [sign_tok s; TokAbsTerm a]) = ret (g_abs_sign s a).
Proof. destruct s; reflexivity. Qed.
Theorem parse_first_abs_term_eq s a :
  grammar_parse_first_abs_term (G [sign_tok s; TokAbsTerm a]) = ret (g_abs_sign s a).
Proof. destruct s; reflexivity. Qed.
Theorem parse_first_abs_term_nosign a : grammar_parse_first_abs_term (G [TokAbsTerm a]) = ret a.
Proof. reflexivity. Qed.

(* PolyhedralSyntaxAbsoluteTermOrTerm as a token *)
Definition aot_tok (x : aot) : token :=
  match x with OT t => TokTermList (of_stl t) | OA a => TokAbsTerm (of_sabs a) end.
Theorem to_absolute_term_or_term_eq x : grammar_to_absolute_term_or_term (aot_tok x) = ret (aot_tok x).
Proof. destruct x; reflexivity. Qed.
Theorem parse_abs_or_term_eq x : grammar_parse_abs_or_term (G [aot_tok x]) = ret (aot_tok x).
Proof. destruct x; reflexivity. Qed.

(* the loop of _parse_abs_or_terms *)
Lemma abs_or_terms_loop (body : gstl * list gabs -> token -> M (ctl (gstl * list gabs))) xs tl al :
  (forall tl al t, body (tl, al) (TokTermList t)
                   = bind (PolyhedralSyntaxTermList_add tl t) (fun tl' => ret (Continue (tl', al)))) ->
  (forall tl al a, body (tl, al) (TokAbsTerm a) = ret (Continue (tl, data_combine_or_append al a))) ->
  for_list_m (map aot_tok xs) (tl, al) body
  = ret (let r := fold_left atl_push xs (mkATL (to_stl tl) (map to_sabs al)) in
         (of_stl (aterms r), map of_sabs (aabs r))).
Proof.
  intros H1 H2. revert tl al. induction xs as [|x r IH]; intros tl al.
  - cbn [map fold_left aterms aabs]. rewrite of_to_stl, map_of_to_sabs. reflexivity.
  - cbn [map fold_left]. unfold for_list_m at 1. fold (@for_list_m token (gstl * list gabs)).
    destruct x as [t|a]; cbn [aot_tok atl_push aterms aabs].
    + rewrite H1, stl_add_ret. cbn [bind ret]. rewrite IH, !to_of_stl. reflexivity.
    + rewrite H2. cbn [bind ret]. rewrite IH, combine_or_append_eq, to_of_sabs. reflexivity.
Qed.
Theorem parse_abs_or_terms_eq xs :
  grammar_parse_abs_or_terms (G (map aot_tok xs)) = ret (of_satl (fold_left atl_push xs satl_zero)).
Proof.
  tok_compute. rewrite (abs_or_terms_loop _ xs (mkG 0 dict_empty) []); try (intros; reflexivity).
Qed.

(* ------------------------------------------------------------------ *)
(** * parenthesised groups and sides *)
Theorem parse_paren_abs_or_terms_plain a :
  grammar_parse_paren_abs_or_terms (G [TokStr "("; TokAbsTermList a; TokStr ")"]) = ret a.
Proof. reflexivity. Qed.

Lemma gterms_scale_loop (f : Q) (o : gatl) :
  gwfs (gterms o) ->
  for_list_m (dict_keys (gfactors (gterms o))) o
    (fun (atl : gatl) (k : var) =>
       t <- dict_get (gfactors (gterms atl)) k ;;
       ret (Continue (PolyhedralSyntaxAbsoluteTermList_with_term_list atl
                        (PolyhedralSyntaxTermList_with_factors (gterms atl) (dict_set (gfactors (gterms atl)) k (qmul t f))))))
  = ret (PolyhedralSyntaxAbsoluteTermList_with_term_list o
           (PolyhedralSyntaxTermList_with_factors (gterms o) (map (fun p => (fst p, qmul (snd p) f)) (gfactors (gterms o))))).
Proof.
  intros Hwf.
  apply (scale_loop (fun o => gfactors (gterms o))
           (fun o d => PolyhedralSyntaxAbsoluteTermList_with_term_list o (PolyhedralSyntaxTermList_with_factors (gterms o) d))
           f _ (fun o d => eq_refl) (fun o d d' => eq_refl)) with (pre := []).
  - intros [[c d] l]. reflexivity.
  - intros o' k. reflexivity.
  - exact Hwf.
  - reflexivity.
Qed.

Theorem parse_paren_abs_or_terms_factor star f a :
  gwfs (gterms a) ->
  grammar_parse_paren_abs_or_terms (G (TokFloat f :: star_toks star ++ [TokStr "("; TokAbsTermList a; TokStr ")"]))
  = ret (of_satl (satl_scale f (to_satl a))).
Proof.
  intros Hwf.
  assert (Hmap : forall l : list gabs,
             map (fun at_ : gabs =>
                    match gcoef at_ with
                    | None => PolyhedralSyntaxAbsoluteTerm_with_coefficient at_ (Some f)
                    | Some c => PolyhedralSyntaxAbsoluteTerm_with_coefficient at_ (Some (qmul c f))
                    end) l
             = map of_sabs (map (fun t => mkAbs (abody t) (Some (match acoef t with None => f | Some c => qmul c f end)))
                                (map to_sabs l))).
  { intros l. rewrite !map_map. apply map_ext. intros [b [c|]]; unfold of_sabs, to_sabs; cbn; rewrite of_to_stl; reflexivity. }
  destruct star; tok_compute;
    change (map fst (gfactors (gterms a)))
      with (dict_keys (gfactors (gterms (PolyhedralSyntaxAbsoluteTermList_with_term_list a
                                           (PolyhedralSyntaxTermList_with_constant (gterms a) (qmul (gconst (gterms a)) f))))));
    rewrite (gterms_scale_loop f (PolyhedralSyntaxAbsoluteTermList_with_term_list a
               (PolyhedralSyntaxTermList_with_constant (gterms a) (qmul (gconst (gterms a)) f))) Hwf); cbn [bind ret]; unfold of_satl, satl_scale, stl_scale, of_stl; cbn;
    rewrite Hmap; reflexivity.
Qed.

(* first_paren_abs_or_terms / addl_paren_abs_or_terms *)
Theorem parse_first_or_addl_group s a :
  gwfs (gterms a) ->
  grammar_parse_first_or_addl_paren_abs_or_terms (G [sign_tok s; TokAbsTermList a])
  = ret (of_satl (satl_add satl_zero (match s with Plus => to_satl a | Minus => satl_negate (to_satl a) end))).
Proof.
  intros Hwf. destruct s; tok_compute.
  - rewrite satl_add_ret. cbn [bind ret]. destruct (of_satl _) as [t l] eqn:E. cbn. rewrite <- E. reflexivity.
  - rewrite (satl_negate_of a Hwf), satl_add_ret. cbn [bind ret]. rewrite to_of_satl.
    destruct (of_satl _) as [t l] eqn:E. cbn. rewrite <- E. reflexivity.
Qed.
Theorem parse_first_or_addl_plain x :
  grammar_parse_first_or_addl_paren_abs_or_terms (G [aot_tok x])
  = ret (of_satl (match x with
                  | OT t => mkATL (stl_add stl_zero t) []
                  | OA t => mkATL stl_zero (combine_or_append [] t)
                  end)).
Proof.
  destruct x as [t|a]; tok_compute.
  - rewrite stl_add_ret. cbn [bind ret]. rewrite to_of_stl. reflexivity.
  - rewrite (combine_or_append_of [] (of_sabs a)), to_of_sabs. reflexivity.
Qed.

(* the loop of _parse_multi_paren_abs_or_terms over the sides' items (all PolyhedralSyntaxAbsoluteTermList) *)
Lemma multi_loop (body : gstl * list gabs -> token -> M (ctl (gstl * list gabs))) xs tl al :
  (forall tl al x, body (tl, al) (TokAbsTermList x)
                   = bind (PolyhedralSyntaxAbsoluteTermList_add (mkGL tl al) x)
                          (fun current => ret (Continue (gterms current, gabsl current)))) ->
  for_list_m (map (@TokAbsTermList gstl gabs gatl gexpr) xs) (tl, al) body
  = ret (let r := fold_left satl_add (map to_satl xs) (to_satl (mkGL tl al)) in
         (of_stl (aterms r), map of_sabs (aabs r))).
Proof.
  intros H1. revert tl al. induction xs as [|x r IH]; intros tl al.
  - cbn [map fold_left aterms aabs to_satl gterms gabsl]. rewrite of_to_stl, map_of_to_sabs. reflexivity.
  - cbn [map fold_left]. unfold for_list_m at 1. fold (@for_list_m token (gstl * list gabs)).
    rewrite H1, satl_add_ret. cbn [bind ret]. rewrite IH. cbn [gterms gabsl of_satl].
    change (mkGL (of_stl (aterms ?s)) (map of_sabs (aabs ?s))) with (of_satl s).
    rewrite to_of_satl. reflexivity.
Qed.
Theorem parse_multi_paren_abs_or_terms_eq xs :
  grammar_parse_multi_paren_abs_or_terms (G (map TokAbsTermList xs))
  = ret (of_satl (fold_left satl_add (map to_satl xs) satl_zero)).
Proof. tok_compute. rewrite (multi_loop _ xs (mkG 0 dict_empty) []); try (intros; reflexivity). Qed.

(* ------------------------------------------------------------------ *)
(** * expressions *)
Theorem parse_equality_expression_eq (eqtok : string) l r :
  eqtok = "=" \/ eqtok = "==" ->
  grammar_parse_equality_expression (G [TokTermList l; TokStr eqtok; TokTermList r])
  = ret (Expr_Eql (PolyhedralSyntaxEqlExpression_new l r)).
Proof. intros [->| ->]; reflexivity. Qed.

(* side (op side)+ *)
Fixpoint interleave (op : string) (sides : list gatl) : list token :=
  match sides with
  | [] => []
  | [a] => [TokAbsTermList a]
  | a :: r => TokAbsTermList a :: TokStr op :: interleave op r
  end.
Lemma sides_loop (body : list gatl -> token -> ctl (list gatl)) op (l : list gatl) acc :
  (forall sides x, body sides (TokAbsTermList x) = Continue (py_append sides x)) ->
  (forall sides x, body sides (TokStr x) = Continue sides) ->
  for_list (interleave op l) acc body = (acc ++ l)%list.
Proof.
  intros H1 H2. revert acc. induction l as [|a r IH]; intros acc; [cbn; rewrite app_nil_r; reflexivity|].
  destruct r as [|b r'].
  - cbn [interleave]. unfold for_list. rewrite H1. reflexivity.
  - change (interleave op (a :: b :: r')) with (TokAbsTermList a :: TokStr op :: interleave op (b :: r')).
    unfold for_list at 1. fold (@for_list token (list gatl)). rewrite H1.
    unfold for_list at 1. fold (@for_list token (list gatl)). rewrite H2.
    rewrite IH. unfold py_append. rewrite <- app_assoc. reflexivity.
Qed.
Theorem parse_expression_sides_eq o op sides :
  grammar_parse_expression_sides o (TokGroup (interleave op sides))
  = ret (Expr_Ineq (mk_PolyhedralSyntaxIneqExpression o sides)).
Proof.
  unfold grammar_parse_expression_sides. cbv zeta. cbn [tok_as_list bind ret].
  rewrite (sides_loop _ op sides []); try (intros; reflexivity).
Qed.
Lemma G_head (toks : list token) :
  tok_len (G toks) = ret 1%Z /\ tok_index (G toks) 0 = ret (TokGroup toks).
Proof. split; reflexivity. Qed.
Lemma leq_dispatch toks :
  nth_error toks 1 = Some (TokStr "<=") ->
  grammar_parse_leq_expression (G toks) = grammar_parse_expression_sides PolyhedralSyntaxOperator_leq (TokGroup toks).
Proof.
  intros H. unfold grammar_parse_leq_expression.
  rewrite (proj1 (G_head toks)). cbn [bind ret Z.eqb Pos.eqb]. rewrite (proj2 (G_head toks)). cbn [bind ret].
  unfold tok_index at 1. cbn [tok_items bind ret]. change (py_index toks 1%Z) with (py_index toks (Z.of_nat 1)).
  rewrite (py_index_nat toks 1 _ H). cbn [bind ret tok_eq_str].
  rewrite String.eqb_refl. reflexivity.
Qed.
Lemma geq_dispatch toks :
  nth_error toks 1 = Some (TokStr ">=") ->
  grammar_parse_geq_expression (G toks) = grammar_parse_expression_sides PolyhedralSyntaxOperator_geq (TokGroup toks).
Proof.
  intros H. unfold grammar_parse_geq_expression.
  rewrite (proj1 (G_head toks)). cbn [bind ret Z.eqb Pos.eqb]. rewrite (proj2 (G_head toks)). cbn [bind ret].
  unfold tok_index at 1. cbn [tok_items bind ret]. change (py_index toks 1%Z) with (py_index toks (Z.of_nat 1)).
  rewrite (py_index_nat toks 1 _ H). cbn [bind ret tok_eq_str].
  rewrite String.eqb_refl. reflexivity.
Qed.
Theorem parse_leq_expression_eq a b rest :
  grammar_parse_leq_expression (G (interleave "<=" (a :: b :: rest)))
  = ret (Expr_Ineq (mk_PolyhedralSyntaxIneqExpression PolyhedralSyntaxOperator_leq (a :: b :: rest))).
Proof. rewrite leq_dispatch by reflexivity. apply parse_expression_sides_eq. Qed.
Theorem parse_geq_expression_eq a b rest :
  grammar_parse_geq_expression (G (interleave ">=" (a :: b :: rest)))
  = ret (Expr_Ineq (mk_PolyhedralSyntaxIneqExpression PolyhedralSyntaxOperator_geq (a :: b :: rest))).
Proof. rewrite geq_dispatch by reflexivity. apply parse_expression_sides_eq. Qed.
Theorem parse_expression_eq e : grammar_parse_expression (G [TokExpr e]) = ret e.
Proof. reflexivity. Qed.

(* ------------------------------------------------------------------ *)
(** * _parse_arithmetic_chain : the whole left-associative chain [operand, op, operand, op, operand, ...] *)
Inductive aop := OAdd | OSub | OMul | ODiv.
Definition aop_str (o : aop) : string := match o with OAdd => "+" | OSub => "-" | OMul => "*" | ODiv => "/" end.
Definition aop_node (o : aop) : cexpr -> cexpr -> cexpr :=
  match o with OAdd => CAdd | OSub => CSub | OMul => CMul | ODiv => CDiv end.
Fixpoint chain_toks (l : list (aop * Q)) : list token :=
  match l with [] => [] | (o, q) :: r => TokStr (aop_str o) :: TokFloat q :: chain_toks r end.
(* the left-associative tree the chain denotes *)
Fixpoint chain_tree (acc : cexpr) (l : list (aop * Q)) : cexpr :=
  match l with [] => acc | (o, q) :: r => chain_tree (aop_node o acc (CNum q)) r end.

Lemma stride_ops l : stride 2 0 (chain_toks l) = map (fun p => TokStr (aop_str (fst p))) l.
Proof. induction l as [|[o q] r IH]; [reflexivity|]. cbn [chain_toks stride Nat.pred map fst]. rewrite IH. reflexivity. Qed.
Lemma stride_operands l : stride 2 1 (chain_toks l) = map (fun p => TokFloat (snd p)) l.
Proof. induction l as [|[o q] r IH]; [reflexivity|]. cbn [chain_toks stride Nat.pred map snd]. rewrite IH. reflexivity. Qed.
Lemma zip_map2 {A B C} (f : A -> B) (g : A -> C) l : py_zip (map f l) (map g l) = map (fun x => (f x, g x)) l.
Proof. unfold py_zip. induction l as [|x r IH]; [reflexivity|]. cbn [map combine]. rewrite IH. reflexivity. Qed.

Lemma chain_loop l acc body :
  (forall (r : Q) o q, body (TokFloat r) (TokStr (aop_str o), TokFloat q)
     = bind (match o with
             | OMul => tok_mul (TokFloat r) (TokFloat q) | ODiv => tok_div (TokFloat r) (TokFloat q)
             | OAdd => tok_add (TokFloat r) (TokFloat q) | OSub => tok_sub (TokFloat r) (TokFloat q)
             end) (fun x : token => ret (Continue x))) ->
  forall e, ceval e = ret acc ->
  for_list_m (map (fun p : aop * Q => (TokStr (aop_str (fst p)) : token, TokFloat (snd p) : token)) l) (TokFloat acc) body
  = mmap TokFloat (ceval (chain_tree e l)).
Proof.
  intros Hb. revert acc. induction l as [|[o q] r IH]; intros acc e He.
  - cbn [map chain_tree]. rewrite He. reflexivity.
  - cbn [map chain_tree fst snd]. unfold for_list_m at 1. fold (@for_list_m (token * token) token).
    rewrite Hb.
    destruct o; cbn [aop_node]; unfold tok_mul, tok_div, tok_add, tok_sub, tok_arith.
    + cbn [bind ret]. apply IH. cbn [ceval]. rewrite He. reflexivity.
    + cbn [bind ret]. apply IH. cbn [ceval]. rewrite He. reflexivity.
    + cbn [bind ret]. apply IH. cbn [ceval]. rewrite He. reflexivity.
    + unfold py_div. destruct (qzero q) eqn:Z.
      * cbn [bind raise].
        assert (Herr : forall l' e', ceval e' = raise (Escape "ZeroDivisionError") ->
                                     ceval (chain_tree e' l') = raise (Escape "ZeroDivisionError")).
        { induction l' as [|[o' q'] r' IH']; intros e' He'; [exact He'|]. cbn [chain_tree]. apply IH'.
          destruct o'; cbn [aop_node ceval]; rewrite He'; reflexivity. }
        rewrite (Herr r (CDiv e (CNum q))); [reflexivity|]. cbn [ceval]. rewrite He. cbn [bind ret]. rewrite Z. reflexivity.
      * cbn [bind ret]. apply IH. cbn [ceval]. rewrite He. cbn [bind ret]. rewrite Z. reflexivity.
Qed.
Lemma chain_slices a l :
  py_slice_step (TokFloat a :: chain_toks l : list token) 1 2 = map (fun p => TokStr (aop_str (fst p))) l
  /\ py_slice_step (TokFloat a :: chain_toks l : list token) 2 2 = map (fun p => TokFloat (snd p)) l.
Proof.
  unfold py_slice_step. split.
  - cbn [skipn]. apply stride_ops.
  - cbn [skipn]. destruct l as [|[o q] r]; [reflexivity|].
    cbn [chain_toks stride Nat.pred map snd]. rewrite stride_operands. reflexivity.
Qed.
Local Arguments py_slice_step : simpl never.
Theorem parse_arithmetic_chain_eq a l :
  grammar_parse_arithmetic_chain (G (TokFloat a :: chain_toks l)) = mmap TokFloat (ceval (chain_tree (CNum a) l)).
Proof.
  unfold grammar_parse_arithmetic_chain, G. tok_compute.
  destruct (chain_slices a l) as [H1 H2]. unfold token in *. rewrite H1, H2. clear H1 H2.
  change (combine ?x ?y) with (py_zip x y). rewrite zip_map2.
  rewrite (chain_loop l a _) with (e := CNum a).
  - destruct (ceval (chain_tree (CNum a) l)); reflexivity.
  - intros r o q. destruct o; reflexivity.
  - reflexivity.
Qed.
(* in particular a binary node, the shape model/Syntax.v:ceval folds *)
Corollary parse_arithmetic_chain_binary o a b :
  grammar_parse_arithmetic_chain (G [TokFloat a; TokStr (aop_str o); TokFloat b])
  = mmap TokFloat (ceval (aop_node o (CNum a) (CNum b))).
Proof. exact (parse_arithmetic_chain_eq a [(o, b)]). Qed.
