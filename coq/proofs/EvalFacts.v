(* EvalFacts.v — property C11, membership part: PolyhedralTermList.evaluate /
   contains_behavior as modelled in model/Term.v decide membership of a behaviour
   (a dict Var -> number) EXACTLY, boundary points included.
   A behaviour is an association list with pairwise distinct keys; [bval b] is the
   rational point it denotes (unassigned variables read 0 — they never matter below). *)
From Coq Require Import List String Bool QArith Qabs ZArith Reals Qreals Lra.
Import ListNotations.
Require Import Py ListsGen ConstGen Sem Term Poly PolySpec QR ListsFacts TermFacts Farkas PolyLP PolyFacts.
Local Open Scope R_scope.

(* ------------------------------------------------------------------ *)
(** * The point denoted by a behaviour *)
Definition bval (b : behavior) : qval := fun v => coef b v.

Lemma bval_in b v q : NoDup (keys b) -> In (v, q) b -> bval b v = q.
Proof. intros Hn Hi. unfold bval. apply coef_in; assumption. Qed.
Lemma bval_notin b v : ~ In v (keys b) -> bval b v = 0%Q.
Proof. intros H. unfold bval. apply coef_notin. exact H. Qed.

(* the executable rational test and the real-valued meaning coincide *)
Lemma satQb_sat p t : satQb p t = true <-> sat (q2r_val p) t.
Proof.
  unfold satQb, sat. rewrite lin_linQ, Qle_bool_iff. split; [apply Qle_Rle|apply Rle_Qle].
Qed.
Lemma forallb_satQb p ts : forallb (satQb p) ts = true <-> sat_list (q2r_val p) ts.
Proof.
  unfold sat_list. rewrite forallb_forall, Forall_forall. split; intros H t Ht; apply satQb_sat; apply H; exact Ht.
Qed.

(* ------------------------------------------------------------------ *)
(** * Variables of the terms built by substitution *)
Lemma in_vars_mk_term vs c x : In x (term_vars_p (mk_term vs c)) -> In x (keys vs).
Proof. unfold term_vars_p. rewrite mk_term_vars. apply keys_filter_incl. Qed.

Lemma in_vars_add t1 t2 x :
  In x (term_vars_p (term_add t1 t2)) -> In x (term_vars_p t1) \/ In x (term_vars_p t2).
Proof.
  unfold term_add. intros H. apply in_vars_mk_term in H. rewrite keys_map_var in H.
  apply in_list_union. exact H.
Qed.

Lemma vars_multiply_const c f : term_vars_p (term_multiply (mk_term [] c) f) = [].
Proof. reflexivity. Qed.

(* the constant term  var = -c  that evaluate substitutes *)
Definition cterm (c : Q) : pterm := mk_term [] c.
Lemma wft_cterm c : wft (cterm c).
Proof. unfold wft. cbn. constructor. Qed.

Lemma in_vars_subst_const t v c x :
  In x (term_vars_p (term_substitute_variable t v (cterm c))) -> In x (term_vars_p t) /\ x <> v.
Proof.
  unfold term_substitute_variable. destruct (contains_var t v) eqn:E.
  - intros H. apply in_vars_add in H. destruct H as [H|H].
    + apply in_vars_remove_variable in H. exact H.
    + unfold cterm in H. rewrite vars_multiply_const in H. destruct H.
  - apply contains_var_notin in E. intros H. apply in_vars_copy in H. split; [exact H|].
    intros ->. contradiction.
Qed.

(* absent variable: substitution only copies the term *)
Lemma subst_absent t v s : ~ In v (term_vars_p t) -> term_substitute_variable t v s = term_copy t.
Proof.
  intros H. apply contains_var_notin in H. unfold term_substitute_variable. rewrite H. reflexivity.
Qed.

(* ------------------------------------------------------------------ *)
(** * eval_term *)
Definition eval_step (nt : pterm) (p : var * Q) : pterm :=
  term_substitute_variable nt (fst p) (cterm (qneg (snd p))).

Lemma eval_term_unfold t b : eval_term t b = fold_left eval_step b (term_copy t).
Proof. reflexivity. Qed.

Section EvalTerm.
Variable rho : val.

Lemma eval_step_sem nt v q :
  wft nt -> rho v = Q2R q ->
  lin rho (tvars (eval_step nt (v, q))) - Q2R (tconst (eval_step nt (v, q)))
  = lin rho (tvars nt) - Q2R (tconst nt).
Proof.
  intros Hw Hv. unfold eval_step. cbn [fst snd].
  pose proof (substitute_sem rho nt v (cterm (qneg q)) Hw (wft_cterm _)) as H. cbv zeta in H.
  rewrite H. unfold cterm. rewrite mk_term_const, lin_mk_term, Q2R_qneg. cbn [lin]. rewrite Hv. lra.
Qed.

Lemma eval_fold_inv l : forall t0,
  wft t0 -> (forall v q, In (v, q) l -> rho v = Q2R q) ->
  let nt := fold_left eval_step l t0 in
  wft nt /\
  lin rho (tvars nt) - Q2R (tconst nt) = lin rho (tvars t0) - Q2R (tconst t0) /\
  (forall x, In x (term_vars_p nt) -> In x (term_vars_p t0) /\ ~ In x (keys l)).
Proof.
  induction l as [|[v q] r IH]; intros t0 Hw Hr; cbv zeta; cbn [fold_left].
  - split; [exact Hw|]. split; [reflexivity|]. intros x Hx. split; [exact Hx|intros []].
  - assert (Hw1 : wft (eval_step t0 (v, q))).
    { unfold eval_step. apply wft_substitute_variable; [exact Hw|apply wft_cterm]. }
    assert (Hr1 : forall v' q', In (v', q') r -> rho v' = Q2R q').
    { intros v' q' Hi. apply Hr. right. exact Hi. }
    destruct (IH (eval_step t0 (v, q)) Hw1 Hr1) as [Hw2 [Hl Hv]]. split; [exact Hw2|]. split.
    + rewrite Hl. apply eval_step_sem; [exact Hw|]. apply Hr. left. reflexivity.
    + intros x Hx. apply Hv in Hx. destruct Hx as [Hx Hn].
      unfold eval_step in Hx. cbn [fst snd] in Hx. apply in_vars_subst_const in Hx.
      destruct Hx as [Hx Hne]. split; [exact Hx|]. rewrite keys_cons. intros [He|Hi]; [congruence|contradiction].
Qed.
End EvalTerm.

Lemma eval_term_inv t b :
  wft t -> NoDup (keys b) ->
  let rho := q2r_val (bval b) in
  let nt := eval_term t b in
  wft nt /\
  lin rho (tvars nt) - Q2R (tconst nt) = lin rho (tvars t) - Q2R (tconst t) /\
  (forall x, In x (term_vars_p nt) -> In x (term_vars_p t) /\ ~ In x (keys b)).
Proof.
  intros Hw Hn. cbv zeta. rewrite eval_term_unfold.
  destruct (eval_fold_inv (q2r_val (bval b)) b (term_copy t) (wft_copy t Hw)) as [H1 [H2 H3]].
  { intros v q Hi. unfold q2r_val. rewrite (bval_in b v q Hn Hi). reflexivity. }
  split; [exact H1|]. split.
  - rewrite H2. unfold term_copy. rewrite lin_mk_term, mk_term_const. reflexivity.
  - intros x Hx. apply H3 in Hx. destruct Hx as [Hx Hk]. split; [apply in_vars_copy; exact Hx|exact Hk].
Qed.

(* a fully assigned term evaluates to a constant-only term whose sign decides membership *)
Lemma eval_term_assigned t b :
  wft t -> NoDup (keys b) -> (forall v, In v (term_vars_p t) -> In v (keys b)) ->
  term_vars_p (eval_term t b) = [] /\
  qlt (tconst (eval_term t b)) 0 = negb (satQb (bval b) t).
Proof.
  intros Hw Hn Hsub. destruct (eval_term_inv t b Hw Hn) as [_ [Hl Hv]].
  assert (E : term_vars_p (eval_term t b) = []).
  { destruct (term_vars_p (eval_term t b)) as [|x r] eqn:E; [reflexivity|]. exfalso.
    destruct (Hv x) as [Hx Hk]; [left; reflexivity|]. apply Hk. apply Hsub. exact Hx. }
  split; [exact E|].
  assert (L0 : lin (q2r_val (bval b)) (tvars (eval_term t b)) = 0).
  { unfold term_vars_p, keys in E. apply map_eq_nil in E. rewrite E. reflexivity. }
  rewrite L0 in Hl.
  destruct (satQb (bval b) t) eqn:Es; cbn [negb].
  - apply satQb_sat in Es. unfold sat in Es.
    destruct (qlt (tconst (eval_term t b)) 0) eqn:Eq; [|reflexivity].
    apply qlt_true in Eq. rewrite Q2R_0 in Eq. lra.
  - destruct (qlt (tconst (eval_term t b)) 0) eqn:Eq; [reflexivity|].
    apply qlt_false in Eq. rewrite Q2R_0 in Eq.
    assert (Hs : sat (q2r_val (bval b)) t) by (unfold sat; lra).
    apply satQb_sat in Hs. congruence.
Qed.

(* ------------------------------------------------------------------ *)
(** * evaluate *)
Lemma evaluate_errors ts b e : evaluate ts b = inr e -> e = ValueErr.
Proof.
  induction ts as [|t r IH]; cbn [evaluate]; [discriminate|].
  destruct (nonempty (term_vars_p (eval_term t b))).
  - destruct (evaluate r b) as [rest|e'] eqn:E; cbn; [discriminate|].
    intros H. inversion H. subst. apply IH. reflexivity.
  - destruct (qlt (tconst (eval_term t b)) 0); [intros H; inversion H; reflexivity|exact IH].
Qed.

Lemma evaluate_assigned ts b :
  Forall wft ts -> NoDup (keys b) -> (forall v, In v (tl_vars ts) -> In v (keys b)) ->
  evaluate ts b = if forallb (satQb (bval b)) ts then inl [] else inr ValueErr.
Proof.
  intros Hw Hn Hsub. induction ts as [|t r IH]; [reflexivity|].
  inversion Hw as [|? ? Ht Hr]; subst. cbn [evaluate forallb].
  assert (Hsub_t : forall v, In v (term_vars_p t) -> In v (keys b)).
  { intros v Hv. apply Hsub. apply in_tl_vars. exists t. split; [left; reflexivity|exact Hv]. }
  assert (Hsub_r : forall v, In v (tl_vars r) -> In v (keys b)).
  { intros v Hv. apply Hsub. apply in_tl_vars. apply in_tl_vars in Hv. destruct Hv as [t' [H1 H2]].
    exists t'. split; [right; exact H1|exact H2]. }
  destruct (eval_term_assigned t b Ht Hn Hsub_t) as [E Hq]. rewrite E, Hq. cbn [nonempty].
  destruct (satQb (bval b) t); cbn [negb andb]; [|reflexivity].
  apply IH; assumption.
Qed.

(* ------------------------------------------------------------------ *)
(** * contains_behavior *)
Lemma excess_nil ts b :
  list_diff (tl_vars ts) (keys b) = [] <-> (forall v, In v (tl_vars ts) -> In v (keys b)).
Proof.
  split.
  - intros H v Hv. destruct (in_dec string_dec v (keys b)) as [Hi|Hi]; [exact Hi|]. exfalso.
    assert (Hx : In v (list_diff (tl_vars ts) (keys b))) by (apply in_list_diff; tauto).
    rewrite H in Hx. destruct Hx.
  - intros H. destruct (list_diff (tl_vars ts) (keys b)) as [|x r] eqn:E; [reflexivity|]. exfalso.
    assert (Hx : In x (list_diff (tl_vars ts) (keys b))) by (rewrite E; left; reflexivity).
    apply in_list_diff in Hx. destruct Hx as [H1 H2]. apply H2. apply H. exact H1.
Qed.

(* membership is decided exactly: the result IS the exact rational test, boundary included *)
Theorem contains_iff ts b :
  Forall wft ts -> NoDup (keys b) -> (forall v, In v (tl_vars ts) -> In v (keys b)) ->
  contains_behavior ts b = inl (forallb (satQb (bval b)) ts).
Proof.
  intros Hw Hn Hsub. unfold contains_behavior.
  rewrite (proj2 (excess_nil ts b) Hsub). cbn [nonempty].
  rewrite (evaluate_assigned ts b Hw Hn Hsub).
  destruct (forallb (satQb (bval b)) ts); reflexivity.
Qed.

(* ... and its reading over the reals *)
Theorem contains_real ts b :
  Forall wft ts -> NoDup (keys b) -> (forall v, In v (tl_vars ts) -> In v (keys b)) ->
  (contains_behavior ts b = inl true <-> sat_list (q2r_val (bval b)) ts).
Proof.
  intros Hw Hn Hsub. rewrite (contains_iff ts b Hw Hn Hsub), <- forallb_satQb.
  split; [intros H; congruence|intros ->; reflexivity].
Qed.
Corollary contains_real_false ts b :
  Forall wft ts -> NoDup (keys b) -> (forall v, In v (tl_vars ts) -> In v (keys b)) ->
  (contains_behavior ts b = inl false <-> ~ sat_list (q2r_val (bval b)) ts).
Proof.
  intros Hw Hn Hsub. rewrite (contains_iff ts b Hw Hn Hsub), <- forallb_satQb.
  destruct (forallb (satQb (bval b)) ts); split; intros H; try reflexivity; try congruence.
Qed.

(* the only error is the "not all variables were assigned" ValueError, and it is raised exactly then *)
Lemma try_evaluate_inl ts b : exists r, try_value_error (_ <- evaluate ts b ;; ret true) (ret false) = inl r.
Proof.
  destruct (evaluate ts b) as [l|e] eqn:E; cbn.
  - exists true. reflexivity.
  - rewrite (evaluate_errors ts b e E). cbn. exists false. reflexivity.
Qed.

Theorem contains_unassigned ts b :
  (exists v, In v (tl_vars ts) /\ ~ In v (keys b)) <-> contains_behavior ts b = inr ValueErr.
Proof.
  unfold contains_behavior. split.
  - intros [v [H1 H2]].
    assert (Hx : In v (list_diff (tl_vars ts) (keys b))) by (apply in_list_diff; tauto).
    destruct (list_diff (tl_vars ts) (keys b)); [destruct Hx|reflexivity].
  - destruct (list_diff (tl_vars ts) (keys b)) as [|x r] eqn:E; cbn [nonempty].
    + destruct (try_evaluate_inl ts b) as [r Hr]. rewrite Hr. discriminate.
    + intros _. exists x. apply in_list_diff. rewrite E. left. reflexivity.
Qed.

Theorem contains_total ts b :
  (exists r, contains_behavior ts b = inl r) \/ contains_behavior ts b = inr ValueErr.
Proof.
  unfold contains_behavior. destruct (nonempty (list_diff (tl_vars ts) (keys b))).
  - right. reflexivity.
  - left. apply try_evaluate_inl.
Qed.

Lemma contains_inl_assigned ts b r :
  contains_behavior ts b = inl r -> forall v, In v (tl_vars ts) -> In v (keys b).
Proof.
  intros H v Hv. destruct (in_dec string_dec v (keys b)) as [Hi|Hi]; [exact Hi|]. exfalso.
  assert (He : contains_behavior ts b = inr ValueErr) by (apply contains_unassigned; exists v; tauto).
  congruence.
Qed.

(* extra variables in the behaviour are harmless: removing a binding that the constraints do not
   mention changes neither the outcome nor (on the constraints' variables) the point *)
Lemma bval_ext_sat b1 b2 t :
  (forall v, In v (term_vars_p t) -> bval b1 v = bval b2 v) -> satQb (bval b1) t = satQb (bval b2) t.
Proof.
  intros H. unfold satQb. f_equal. unfold term_vars_p in H.
  induction (tvars t) as [|[k a] r IH]; [reflexivity|]. cbn [linQ].
  rewrite IH, (H k); [reflexivity|left; reflexivity|].
  intros v Hv. apply H. right. exact Hv.
Qed.
Lemma forallb_ext_In {T} (f g : T -> bool) l : (forall x, In x l -> f x = g x) -> forallb f l = forallb g l.
Proof.
  induction l as [|x r IH]; intros H; [reflexivity|]. cbn [forallb].
  rewrite (H x) by (left; reflexivity). rewrite IH; [reflexivity|]. intros y Hy. apply H. right. exact Hy.
Qed.
Theorem contains_extra_vars ts b1 b2 :
  Forall wft ts -> NoDup (keys b1) -> NoDup (keys b2) ->
  (forall v, In v (tl_vars ts) -> In v (keys b1) /\ In v (keys b2) /\ bval b1 v = bval b2 v) ->
  contains_behavior ts b1 = contains_behavior ts b2.
Proof.
  intros Hw H1 H2 Hv.
  rewrite (contains_iff ts b1 Hw H1) by (intros v Hi; apply Hv; exact Hi).
  rewrite (contains_iff ts b2 Hw H2) by (intros v Hi; apply Hv; exact Hi).
  f_equal. apply forallb_ext_In. intros t Ht. apply bval_ext_sat. intros v Hi.
  apply Hv. apply in_tl_vars. exists t. split; assumption.
Qed.

(* ------------------------------------------------------------------ *)
(** * Monotonicity along refinement *)
Theorem contains_mono O A B b :
  lp_spec 0 O -> wfl A -> wfl B -> small_consts B -> NoDup (keys b) ->
  contains_behavior A b = inl true -> poly_refines O A B = inl true ->
  Forall (sat_tol REFINEMENT_TOLERANCE (q2r_val (bval b))) B.
Proof.
  intros HO HA HB Hsm Hn Hc Hr.
  apply (refines_sound O HO A B HA HB Hsm Hr).
  apply (contains_real A b (proj1 HA) Hn); [|exact Hc].
  apply (contains_inl_assigned A b true Hc).
Qed.

Print Assumptions contains_iff.
Print Assumptions contains_real.
Print Assumptions contains_unassigned.
Print Assumptions contains_total.
Print Assumptions contains_mono.
