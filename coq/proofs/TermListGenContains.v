(* TermListGenContains.v — T1 tie of PolyhedralTermList.contains_behavior (split from TermListGenEval.v). *)
From Coq Require Import List String Bool Arith QArith ZArith Lia.
Import ListNotations.
Require Import Py ListsGen ConstGen Sem PyDict PyLoop PyTermList Term Poly Tactics TermGen ListsFacts TermFacts
  TermGenFacts TermListGen TermListGenBase TermListGenEval.
Open Scope py_scope.
Local Open Scope nat_scope.

(** contains_behavior *)
Theorem contains_behavior_eq ts b :
  Forall wft ts -> PolyhedralTermList_contains_behavior ts b = contains_behavior ts b.
Proof.
  intros Hts. unfold PolyhedralTermList_contains_behavior, contains_behavior. cbv zeta.
  rewrite termlist_vars_eq. unfold py_list, dict_keys.
  destruct (nonempty (list_diff (tl_vars ts) (keys b))); [reflexivity|].
  unfold try_except. rewrite (evaluate_eq ts b Hts).
  destruct (evaluate ts b) as [r|e]; [reflexivity|]. cbn. destruct (is_value_error e); reflexivity.
Qed.

Print Assumptions contains_behavior_eq.
