(* PlotsGenVertices.v — T1 tie of the vertex routine, group 2: constraints_to_vertices up to its call of
   _get_bounding_vertices (see PlotsGenFacts.v, where the two halves are composed).
   [plot_rows2] is model/Plots.v:plot_rows before the final [map row_triple] (the rows still carry their list of
   coefficients); [plot_rows_rows2] says so.  [constraints_to_vertices_glue]: the generated constraints_to_vertices
   is exactly "plot_rows2, then the generated _get_bounding_vertices on the coefficient lists and the bounds" — the
   checks on the plotted variables, the union with the boundary terms, the substitution, the assert,
   termlist_to_polytope, variables[0] == y_var and the in-place column swap.  It does not depend on what
   _get_bounding_vertices does, so an edit of that function does not break it.
   Precondition [Forall wft cs]: the keys of every term are pairwise distinct (a Python dict); needed because
   `constraints | boundary` copies every term (PolyhedralTerm.copy rebuilds the dict item by item), see
   PlotsGenFacts.v:repeated_key_differs. *)
From Coq Require Import List String Bool QArith ZArith Arith Lia.
Import ListNotations.
Require Import Py ListsGen Sem PyDict PyLoop PyTermList PyPrint PyPlots Term Poly Plots.
Require Import ListsFacts TermFacts PolyFacts TermGen TermGenBase TermGenCore TermListGen TermListGenBase TermListGenEval.
Require Import PlotsFacts PlotsGen PlotsGenBase PlotsGenSubstitute.
Open Scope py_scope.
Local Open Scope Q_scope.

Definition plot_rows2 (constraints : list pterm) (x y : var) (vals : behavior) (x_lims y_lims : Q * Q) : M (list row) :=
  if py_in x (keys vals) then raise ValueErr else
  if py_in y (keys vals) then raise ValueErr else
  if nonempty (list_diff (tl_vars constraints) (list_union [x; y] (keys vals))) then raise ValueErr else
  let term_list := tl_or constraints (gen_boundary x y x_lims y_lims) in
  plot_tl <- substitute_in_termlist term_list vals ;;
  if nonempty (list_diff (tl_vars plot_tl) [x; y]) then raise (Escape "AssertionError") else
  let vs := polytope_vars plot_tl [] in
  let rows := map (term_to_row vs) plot_tl in
  match vs with
  | [] => raise (Escape "IndexError")
  | v0 :: _ =>
      if String.eqb v0 y then
        if Nat.ltb (List.length vs) 2 then raise (Escape "IndexError") else ret (map swap01 rows)
      else ret rows
  end.
Lemma plot_rows_rows2 cs x y vals xl yl :
  plot_rows cs x y vals xl yl = mmap (map row_triple) (plot_rows2 cs x y vals xl yl).
Proof.
  unfold plot_rows, plot_rows2.
  destruct (py_in x (keys vals)); [reflexivity|]. destruct (py_in y (keys vals)); [reflexivity|].
  destruct (nonempty (list_diff _ _)); [reflexivity|]. cbv zeta.
  destruct (substitute_in_termlist _ vals) as [tl|e]; [|reflexivity]. cbn [bind].
  destruct (nonempty (list_diff (tl_vars tl) [x; y])); [reflexivity|].
  destruct (polytope_vars tl []) as [|v0 r]; [reflexivity|].
  destruct (String.eqb v0 y); [|reflexivity]. destruct (Nat.ltb _ 2); reflexivity.
Qed.

Section Vertices.
Variables (nrm : list Q -> Q) (O : oracles).
Notation PP := (plot_prims nrm O).

Lemma map_fst_rows vs (ts : list pterm) : map fst (map (term_to_row vs) ts) = map (fun t => fst (term_to_row vs t)) ts.
Proof. rewrite map_map. reflexivity. Qed.
Lemma map_snd_rows vs (ts : list pterm) : map snd (map (term_to_row vs) ts) = map tconst ts.
Proof. rewrite map_map. reflexivity. Qed.

Theorem constraints_to_vertices_glue cs x y vals xl yl :
  Forall wft cs ->
  @plots_constraints_to_vertices PP cs x y vals xl yl
  = bind (plot_rows2 cs x y vals xl yl)
         (fun rows => @plots__get_bounding_vertices PP (map fst rows) (map snd rows)).
Proof.
  intros Hcs. unfold plots_constraints_to_vertices, plot_rows2. cbv zeta.
  unfold dict_keys, py_list, list_truth. rewrite termlist_vars_eq.
  destruct (py_in x (keys vals)); [reflexivity|]. destruct (py_in y (keys vals)); [reflexivity|].
  destruct (nonempty (list_diff _ _)); [reflexivity|].
  rewrite gen_boundary_constraints_eq, (termlist_or_eq cs _ Hcs (wft_boundary x y xl yl)), bind_ret_l.
  fold (tl_or cs (gen_boundary x y xl yl)).
  rewrite (substitute_in_termlist_eq _ vals (wft'_tl_or cs _ Hcs (wft_boundary x y xl yl))).
  destruct (substitute_in_termlist _ vals) as [tl|e]; [|reflexivity]. cbn [bind].
  rewrite termlist_vars_eq. unfold py_assert.
  destruct (nonempty (list_diff (tl_vars tl) [x; y])); [reflexivity|]. cbn [negb bind ret].
  cbn [pp_termlist_to_polytope plot_prims]. rewrite termlist_init_eq. cbn [opt_list bind ret].
  unfold tuple5_0, tuple5_1, tuple5_2. cbn [fst snd].
  set (vs := polytope_vars tl []).
  assert (Hvs : tl = [] -> vs = []) by (intros ->; reflexivity).
  rewrite <- (map_fst_rows vs tl), <- (map_snd_rows vs tl).
  set (rows := map (term_to_row vs) tl).
  assert (Hlen : Forall (fun r : list Q => List.length r = List.length vs) (map fst rows)).
  { unfold rows. rewrite map_fst_rows. apply Forall_map, Forall_forall. intros t _. unfold term_to_row. cbn [fst].
    apply map_length. }
  destruct vs as [|v0 vr] eqn:Evs; [reflexivity|]. cbn [list_get_m bind ret].
  destruct (String.eqb v0 y); [|cbn [bind ret]; rewrite bind_ret_r; reflexivity].
  destruct (Nat.ltb (List.length (v0 :: vr)) 2) eqn:El.
  - apply Nat.ltb_lt in El. rewrite get_cols_short; [reflexivity| |].
    + unfold rows. destruct tl; [specialize (Hvs eq_refl); discriminate|discriminate].
    + eapply Forall_impl; [|exact Hlen]. intros r Hr. cbn beta in Hr. rewrite Hr. exact El.
  - apply Nat.ltb_ge in El. match goal with |- bind (bind (np_get_cols ?A _) ?f) _ = _ =>
      replace (bind (np_get_cols A [1%nat; 0%nat]) f)
        with (bind (np_get_cols A [1%nat; 0%nat]) (fun v => np_set_cols A [0%nat; 1%nat] v))
        by (apply pbind_ext; intros v; symmetry; apply bind_ret_r) end.
    rewrite get_set_cols_swap.
    + cbn [bind ret]. rewrite bind_ret_r. f_equal.
      * rewrite !map_map. apply map_ext. intros [cf c]. unfold swap01. cbn [fst snd].
        destruct cf as [|a [|b rest]]; reflexivity.
      * rewrite !map_map. apply map_ext. intros [cf c]. unfold swap01. cbn [fst snd].
        destruct cf as [|a [|b rest]]; reflexivity.
    + eapply Forall_impl; [|exact Hlen]. intros r Hr. cbn beta in Hr. rewrite Hr. exact El.
Qed.
End Vertices.

(* a successful run of the glue hands exactly two columns to _get_bounding_vertices *)
Lemma plot_rows2_two_cols cs x y vals xl yl rows :
  Forall wft cs -> plot_rows2 cs x y vals xl yl = inl rows ->
  Forall (fun r : row => List.length (fst r) = 2%nat) rows.
Proof.
  intros Hcs H. unfold plot_rows2 in H.
  destruct (py_in x (keys vals)) eqn:E1; [discriminate|]. destruct (py_in y (keys vals)) eqn:E2; [discriminate|].
  destruct (nonempty (list_diff _ _)) eqn:E3; [discriminate|]. cbv zeta in H.
  assert (Hchk : checks_pass cs x y vals) by (apply checks_dec; auto).
  destruct (substitute_in_termlist _ vals) as [tl|e] eqn:Es; [|discriminate]. cbn [bind] in H.
  destruct (sub_tl_ok _ _ _ Es) as [Etl _].
  destruct (nonempty (list_diff (tl_vars tl) [x; y])) eqn:Ea; [discriminate|].
  assert (Hlen : forall vs, Forall (fun r : row => List.length (fst r) = List.length vs) (map (term_to_row vs) tl)).
  { intros vs. apply Forall_map, Forall_forall. intros t _. unfold term_to_row. cbn [fst]. apply map_length. }
  assert (Hsw : forall (l : list row) n, Forall (fun r : row => List.length (fst r) = n) l ->
                Forall (fun r : row => List.length (fst r) = n) (map swap01 l)).
  { intros l n Hl. apply Forall_map. eapply Forall_impl; [|exact Hl]. intros [cf c] Hr. unfold swap01. cbn [fst snd] in *.
    destruct cf as [|a [|b rest]]; exact Hr. }
  destruct (string_dec x y) as [Exy|Exy].
  - exfalso. subst y.
    assert (Hw : Forall wft tl) by (rewrite Etl; apply plot_tl_wft; exact Hcs).
    assert (Ev : polytope_vars tl [] = tl_vars tl).
    { unfold polytope_vars, list_union. simpl. apply app_nil_r. }
    rewrite Ev in H. pose proof (NoDup_tl_vars tl Hw) as Hnd.
    assert (Hall : forall v, In v (tl_vars tl) -> v = x).
    { intros v Hv. apply nonempty_false in Ea. destruct (string_dec v x) as [Hvx|Hvx]; [exact Hvx|exfalso].
      assert (Hd : In v (list_diff (tl_vars tl) [x; x])) by (apply in_list_diff; split; [exact Hv|intros [E|[E|[]]]; apply Hvx; symmetry; exact E]).
      rewrite Ea in Hd. destruct Hd. }
    destruct (tl_vars tl) as [|v0 [|v1 r]]; [discriminate| |].
    + rewrite (Hall v0 (or_introl eq_refl)), String.eqb_refl in H. cbn in H. discriminate.
    + pose proof (Hall v0 (or_introl eq_refl)) as H0. pose proof (Hall v1 (or_intror (or_introl eq_refl))) as H1.
      subst v0 v1. inversion Hnd as [|? ? Hn _]; subst. apply Hn. left. reflexivity.
  - pose proof (plot_tl_vs cs x y vals xl yl Hcs Exy Hchk) as Hv. rewrite <- Etl in Hv.
    destruct Hv as [Hv|Hv]; rewrite Hv in H.
    + destruct (String.eqb x y) eqn:Eb; [apply String.eqb_eq in Eb; contradiction|].
      injection H as <-. apply (Hlen [x; y]).
    + rewrite String.eqb_refl in H. cbn [List.length Nat.ltb Nat.leb] in H. injection H as <-.
      apply Hsw. apply (Hlen [y; x]).
Qed.
