(* PolySpec.v — what is assumed of the LP solver (scipy.optimize.linprog / HiGHS):
   the oracle spec of DESIGN 3.3.  Definitions only.  Every recorded oracle answer is
   validated against this spec by certificates checked with base/Farkas.v. *)
From Coq Require Import List String Bool QArith Reals Qreals.
Import ListNotations.
Require Import Py Sem Term Poly.
Local Open Scope R_scope.

Fixpoint dot (a : list Q) (x : list R) : R :=
  match a, x with
  | q :: a', r :: x' => Q2R q * r + dot a' x'
  | _, _ => 0
  end.
Definition feas (rows : list row) (x : list R) : Prop :=
  Forall (fun r => dot (fst r) x <= Q2R (snd r)) rows.
Definition dim (p : lp_problem) : nat := List.length (lp_obj p).
Definition point_of (p : lp_problem) (x : list R) : Prop := List.length x = dim p.
Definition unbounded_below (p : lp_problem) : Prop :=
  forall bound : R, exists x, point_of p x /\ feas (lp_rows p) x /\ dot (lp_obj p) x < bound.

(* eps = numerical slack granted to the solver's reported optimum *)
Definition lp_spec (eps : Q) (O : oracle) : Prop := forall p,
  match O p with
  | LpOpt v _ =>
      (exists x, point_of p x /\ feas (lp_rows p) x /\ dot (lp_obj p) x <= Q2R v + Q2R eps) /\
      (forall x, point_of p x -> feas (lp_rows p) x -> Q2R v - Q2R eps <= dot (lp_obj p) x)
  | LpInfeasible =>
      (* measured: HiGHS presolve answers "infeasible" for some feasible unbounded LPs *)
      (forall x, point_of p x -> ~ feas (lp_rows p) x) \/ unbounded_below p
  | LpUnbounded => (exists x, point_of p x /\ feas (lp_rows p) x) /\ unbounded_below p
  | LpOther _ | LpMiss => True
  end.
(* the solver always reaches a verdict *)
Definition lp_total (O : oracle) : Prop := forall p,
  match O p with LpOther _ | LpMiss => False | _ => True end.

