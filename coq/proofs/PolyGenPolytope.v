(* PolyGenPolytope.v — T1 tie of the matrix builders: PolyhedralTerm.term_to_polytope / polytope_to_term, the
   inherited TermList.__sub__, PolyhedralTermList.termlist_to_polytope / polytope_to_termlist (see PolyGenFacts.v). *)
From Coq Require Import List String Bool Arith QArith ZArith Lia.
Import ListNotations.
Require Import Py ListsGen ConstGen Sem PyDict PyLoop PyTermList PyNumpy Term Poly TermGen ListsFacts TermFacts
  TermGenFacts TermListGen TermListGenBase TermListGenEval PolyGen PolyGenBase.
Open Scope py_scope.
Local Open Scope nat_scope.

(** PolyhedralTerm.term_to_polytope : unconditional, never raises *)
Theorem term_to_polytope_eq t vs : PolyhedralTerm_term_to_polytope t vs = ret (term_to_row vs t).
Proof.
  unfold PolyhedralTerm_term_to_polytope. cbv zeta.
  rewrite (loop_m_map (get_coefficient t)).
  - reflexivity.
  - intros a x. rewrite get_coefficient_eq. reflexivity.
Qed.

(** PolyhedralTerm.polytope_to_term : the dict is built item by item over `variables`, which must be pairwise
    distinct (as the keys of a dict are); `assert len(poly) == len(variables)` *)
Lemma keys_combine (vs : list var) (p : list Q) : List.length p = List.length vs -> keys (combine vs p) = vs.
Proof.
  revert p. induction vs as [|v r IH]; intros p Hl; [reflexivity|].
  destruct p as [|q p']; [discriminate|]. cbn [combine keys map fst]. fold (keys (combine r p')).
  rewrite IH by (cbn in Hl; lia). reflexivity.
Qed.
Lemma polytope_to_term_loop (poly : list Q) body :
  (forall d i v, body d (i, v) = bind (list_get_m poly i) (fun t => ret (Continue (dict_set d v t)))) ->
  forall (vs : list var) (done : list Q) (rest : list Q) acc,
    poly = done ++ rest -> List.length rest = List.length vs -> NoDup (keys acc ++ vs) ->
    for_list_m (enumerate_from (List.length done) vs) acc body = ret (acc ++ combine vs rest).
Proof.
  intros Hb. induction vs as [|v r IH]; intros done rest acc Hp Hl Hnd.
  - cbn. rewrite app_nil_r. reflexivity.
  - destruct rest as [|q rest']; [discriminate|].
    cbn [enumerate_from for_list_m combine]. rewrite Hb, Hp, list_get_m_app, !bind_ret_l.
    destruct (NoDup_app_cons_l _ _ _ Hnd) as [Hk Hnd'].
    rewrite (dict_set_fresh acc v q Hk).
    replace (S (List.length done)) with (List.length (done ++ [q])) by (rewrite app_length; cbn; lia).
    rewrite (IH (done ++ [q]) rest').
    + rewrite <- app_assoc. reflexivity.
    + rewrite Hp, <- app_assoc. reflexivity.
    + cbn in Hl. lia.
    + rewrite keys_app. exact Hnd'.
Qed.
Theorem polytope_to_term_eq poly c vs :
  NoDup vs -> List.length poly = List.length vs ->
  PolyhedralTerm_polytope_to_term poly c vs = ret (row_to_term vs (poly, c)).
Proof.
  intros Hnd Hl. unfold PolyhedralTerm_polytope_to_term, len. rewrite Hl, Nat.eqb_refl. cbv zeta.
  unfold enumerate.
  rewrite (polytope_to_term_loop poly _ (fun d i v => eq_refl) vs [] poly dict_empty eq_refl Hl Hnd).
  rewrite bind_ret_l. cbn [dict_empty app]. unfold row_to_term. cbn [fst snd].
  rewrite init_eq; [reflexivity|]. rewrite keys_combine by exact Hl. exact Hnd.
Qed.
Theorem polytope_to_term_assert poly c vs :
  List.length poly <> List.length vs -> PolyhedralTerm_polytope_to_term poly c vs = raise (Escape "AssertionError").
Proof.
  intros Hl. unfold PolyhedralTerm_polytope_to_term, len. apply Nat.eqb_neq in Hl. rewrite Hl. reflexivity.
Qed.
(* why the variables must be distinct: the item-by-item construction merges a repeated key, `combine` keeps both *)
Example polytope_to_term_repeated_variable :
  PolyhedralTerm_polytope_to_term [1%Q; 2%Q] 0%Q ["x"; "x"]%string = ret (mkT [("x"%string, 2%Q)] 0%Q)
  /\ row_to_term ["x"; "x"]%string ([1%Q; 2%Q], 0%Q) = mkT [("x"%string, 1%Q); ("x"%string, 2%Q)] 0%Q.
Proof. split; reflexivity. Qed.

(** TermList.__sub__ (inherited): both operands are copied first; copy() drops stored zeros and merges repeated keys,
    so the terms must be what the constructor builds *)
Theorem sub_eq self other :
  Forall wft' self -> Forall wft' other -> PolyhedralTermList_sub self other = ret (list_diff self other).
Proof.
  intros Hs Ho. unfold PolyhedralTermList_sub.
  rewrite (termlist_copy_id self Hs), (termlist_copy_id other Ho), t_diff_m, bind_ret_l, termlist_init_eq.
  reflexivity.
Qed.

(** PolyhedralTermList.termlist_to_polytope : unconditional, never raises *)
Definition polytope_of (terms ctx : list pterm) : list var * ndarray * ndarray * ndarray * ndarray :=
  let vs := polytope_vars terms ctx in
  (vs, mat_of (List.length vs) (map (fun t => fst (term_to_row vs t)) terms), A1 (map tconst terms),
   ctx_mat_of (List.length vs) (map (fun t => fst (term_to_row vs t)) ctx), A1 (map tconst ctx)).
Theorem termlist_to_polytope_eq terms ctx :
  PolyhedralTermList_termlist_to_polytope terms ctx = ret (polytope_of terms ctx).
Proof.
  unfold PolyhedralTermList_termlist_to_polytope, polytope_of. cbv zeta.
  rewrite !termlist_vars_eq. unfold py_list_copy. fold (polytope_vars terms ctx).
  set (vs := polytope_vars terms ctx).
  rewrite (loop_m_map2 (fun t => fst (term_to_row vs t)) tconst _ terms [] []).
  2:{ intros a b x. rewrite term_to_polytope_eq, bind_ret_l. reflexivity. }
  rewrite bind_ret_l.
  rewrite (loop_m_map2 (fun t => fst (term_to_row vs t)) tconst _ ctx [] []).
  2:{ intros a b x. rewrite term_to_polytope_eq, bind_ret_l. reflexivity. }
  rewrite bind_ret_l. cbn [app].
  rewrite (np_array_2d_rows (List.length vs) _ (rows_len_terms vs terms)).
  assert (Hc : (if Nat.eqb (len ctx) 0
                then bind (np_array_2d [[]]) (fun a_h_ret => ret a_h_ret)
                else bind (np_array_2d (map (fun t => fst (term_to_row vs t)) ctx)) (fun a_h_ret => ret a_h_ret))
               = ret (ctx_mat_of (List.length vs) (map (fun t => fst (term_to_row vs t)) ctx))).
  { destruct ctx as [|t r]; [reflexivity|]. cbn [len List.length Nat.eqb].
    rewrite (np_array_2d_rows (List.length vs) _ (rows_len_terms vs (t :: r))). reflexivity. }
  rewrite Hc, !bind_ret_l. reflexivity.
Qed.

(** PolyhedralTermList.polytope_to_termlist on the two shapes reduce_polytope returns *)
Lemma polytope_to_termlist_loop vs (all : list row) body :
  NoDup vs -> Forall (fun r => List.length (fst r) = List.length vs) all ->
  (forall acc i, body acc i =
     bind (np_row_list (A2 (List.length vs) (map fst all)) i) (fun row =>
     bind (np_item (A1 (map snd all)) i) (fun const =>
     bind (PolyhedralTerm_polytope_to_term row const vs) (fun term_ => ret (Continue (acc ++ [term_])))))) ->
  forall (rest done : list row) acc, all = done ++ rest ->
    for_list_m (seq (List.length done) (List.length rest)) acc body = ret (acc ++ map (row_to_term vs) rest).
Proof.
  intros Hnd Hlen Hb. induction rest as [|[a b] rest' IH]; intros done acc Hall.
  - cbn. rewrite app_nil_r. reflexivity.
  - cbn [List.length seq for_list_m]. rewrite Hb. unfold np_row_list, np_item.
    rewrite Hall, !map_app. cbn [map fst snd].
    replace (List.length done) with (List.length (map fst done)) at 1 by apply map_length.
    rewrite list_get_m_app, bind_ret_l.
    replace (List.length done) with (List.length (map snd done)) at 1 by apply map_length.
    rewrite list_get_m_app, bind_ret_l.
    rewrite polytope_to_term_eq; [|exact Hnd|].
    2:{ rewrite Forall_forall in Hlen. apply (Hlen (a, b)). rewrite Hall. apply in_or_app. right. left. reflexivity. }
    rewrite !bind_ret_l.
    replace (S (List.length done)) with (List.length (done ++ [(a, b)])) by (rewrite app_length; cbn; lia).
    rewrite (IH (done ++ [(a, b)])).
    + cbn [map]. rewrite <- app_assoc. reflexivity.
    + rewrite Hall, <- app_assoc. reflexivity.
Qed.
Theorem polytope_to_termlist_eq vs (rows : list row) :
  NoDup vs -> Forall (fun r => List.length (fst r) = List.length vs) rows ->
  PolyhedralTermList_polytope_to_termlist (A2 (List.length vs) (map fst rows)) (A1 (map snd rows)) vs
  = ret (map (row_to_term vs) rows).
Proof.
  intros Hnd Hlen. unfold PolyhedralTermList_polytope_to_termlist. cbv zeta.
  cbn [np_shape len List.length Nat.ltb Nat.leb py_unpack2]. rewrite bind_ret_l.
  unfold len. rewrite Nat.eqb_refl, bind_ret_l. unfold py_range. rewrite map_length.
  pose proof (polytope_to_termlist_loop vs rows _ Hnd Hlen (fun acc i => eq_refl) rows [] [] eq_refl) as HL.
  cbn [List.length app] in HL. unfold row in *. rewrite HL.
  rewrite bind_ret_l, termlist_init_eq. reflexivity.
Qed.
Theorem polytope_to_termlist_empty vs :
  PolyhedralTermList_polytope_to_termlist (A1 []) (A1 []) vs = ret [].
Proof. reflexivity. Qed.
(* a 2-D matrix whose column count is not the number of variables: the assert fires *)
Theorem polytope_to_termlist_assert m rows b vs :
  m <> List.length vs -> PolyhedralTermList_polytope_to_termlist (A2 m rows) b vs = raise (Escape "AssertionError").
Proof.
  intros Hm. unfold PolyhedralTermList_polytope_to_termlist. cbv zeta.
  cbn [np_shape len List.length Nat.ltb Nat.leb py_unpack2]. rewrite bind_ret_l.
  unfold len. apply Nat.eqb_neq in Hm. rewrite Hm. reflexivity.
Qed.
