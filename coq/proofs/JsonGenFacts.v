(* JsonGenFacts.v — the obligations that tie the hand model of the JSON / dictionary side (model/Json.v)
   to the code: translator/py2coq_json.py (run by py2coq.py) renders, on every run, into gen/JsonGen.v

     serializer.py              _is_number, _check_clause, validate_contract_dict
     polyhedra.py               PolyhedralTerm.__init__ over dynamically typed values (what from_dict hands it)
     polyhedral_iocontract.py   PolyhedralIoContract.to_machine_dict, to_dict, from_dict
     fileio.py                  read_contracts_from_file / write_contracts_to_file minus the file I/O

   over the vocabulary of base/PyJson.v (one raising primitive per operation on a value of unknown type), and
   every generated function is proved EQUAL to the hand model, pointwise on the monadic results (values AND
   which exception is raised where):

     is_number_eq               serializer__is_number v                          = is_number v
     check_clause_eq            serializer__check_clause x                       = check_clause x
     validate_contract_dict_eq  serializer_validate_contract_dict d machine      = validate_contract_dict d machine
     to_dict_eq                 PolyhedralIoContract_to_dict tsl c               = to_dict tsl c
     to_machine_dict_eq         PolyhedralIoContract_to_machine_dict c           = to_machine_dict c     [distinct keys]
     term_init_dyn_eq           PolyhedralTerm_init_dyn s2f coefs (jfloat q)     = vs <- coef_loop s2f coefs ;; ret (mkT vs q)
                                                                                                        [distinct keys]
     from_dict_eq               PolyhedralIoContract_from_dict s2f pstr init d sp = from_dict s2f pstr d
                                                                        [json_wf d ; init _ _ _ _ sp = pc_init _ _ _ _]
     read_file_eq               mmap pair_up (fileio_read_contracts_from_file s2f pstr init strings_boundary
                                              compound_boundary f)               = read_file s2f pstr f
                                                                        [json_wf f ; init _ _ _ _ true = pc_init _ _ _ _]
     write_machine_eq           fileio_write_contracts_to_file ... (map APoly cs) names true  = ret (write_file_machine cs)
                                                                                                        [distinct keys]
     write_strings_eq           fileio_write_contracts_to_file ... (map APoly cs) names false = ret (JList (map write_entry_strings cs))

   The first three (the validator, both representations) and to_dict / write_strings_eq need NO precondition.
   "distinct keys" / json_wf is the convention of model/Json.v (a Python dict has pairwise distinct keys, an
   association list with a repeated key denotes no dict); each use is shown necessary by an Example
   (to_machine_dict_needs_distinct_keys, term_init_dyn_needs_distinct_keys, from_dict_needs_wf).
   A semantic change of one of the functions changes gen/JsonGen.v and one of these proofs stops compiling
   (harness/jsongen_mutations.py).  The files are split (JsonGenValidate.v, JsonGenDict.v, JsonGenFile.v) so that
   a change breaks only the obligations that depend on it. *)
Require Export JsonGenBase JsonGenValidate JsonGenDict JsonGenFile.
From Coq Require Import List String QArith.
Import ListNotations.
Require Import Py Sem PyDict PyLoop Term Json PyJson JsonGen.
Open Scope py_scope.

Goal forall v, serializer__is_number v = is_number v.
Proof. exact is_number_eq. Qed.
Goal forall x, serializer__check_clause x = check_clause x.
Proof. exact check_clause_eq. Qed.
Goal forall d machine, serializer_validate_contract_dict d machine = validate_contract_dict d machine.
Proof. exact validate_contract_dict_eq. Qed.
Goal forall tsl c, PolyhedralIoContract_to_dict tsl c = to_dict tsl c.
Proof. exact to_dict_eq. Qed.
Goal forall c, Forall distinct_vars (pa c) -> Forall distinct_vars (pg c) ->
               PolyhedralIoContract_to_machine_dict c = to_machine_dict c.
Proof. exact to_machine_dict_eq. Qed.
Goal forall s2f coefs q, NoDup (skeys coefs) ->
       PolyhedralTerm_init_dyn s2f coefs (jfloat q) = (vs <- coef_loop s2f coefs ;; ret (mkT vs q)).
Proof. exact term_init_dyn_eq. Qed.
Goal forall s2f pstr init d sp,
       (forall a g i o, init a g i o sp = pc_init a g i o) -> json_wf d ->
       PolyhedralIoContract_from_dict s2f pstr init d sp = from_dict s2f pstr d.
Proof. exact from_dict_eq. Qed.
Goal forall s2f pstr init f,
       (forall a g i o, init a g i o true = pc_init a g i o) -> json_wf f ->
       mmap pair_up (fileio_read_contracts_from_file s2f pstr init strings_boundary compound_boundary f)
       = read_file s2f pstr f.
Proof. exact read_file_eq. Qed.
Goal forall tsl (K : Type) (ktd : K -> json) cs,
       Forall (fun p => distinct_vars_c (snd p)) cs ->
       @fileio_write_contracts_to_file tsl K ktd (map (fun p => APoly (snd p)) cs) (map fst cs) true
       = ret (write_file_machine cs).
Proof. exact write_machine_eq. Qed.
Goal forall tsl (K : Type) (ktd : K -> json) cs,
       @fileio_write_contracts_to_file tsl K ktd (map (fun p => APoly (snd p)) cs) (map fst cs) false
       = ret (JList (map (fun p => write_entry_strings tsl (fst p) (snd p)) cs)).
Proof. exact write_strings_eq. Qed.

(* the hypothesis on the constructor parameter is satisfiable: the interface checks alone (model/Json.v's pc_init),
   whatever the simplify flag *)
Definition init_checks_only (a g : list pterm) (i o : list var) (_ : bool) : M pcontract := pc_init a g i o.
Corollary from_dict_eq_checks_only s2f pstr d sp :
  json_wf d -> PolyhedralIoContract_from_dict s2f pstr init_checks_only d sp = from_dict s2f pstr d.
Proof. intros Hwf. apply from_dict_eq; [reflexivity|exact Hwf]. Qed.
Corollary read_file_eq_checks_only s2f pstr f :
  json_wf f ->
  mmap pair_up (fileio_read_contracts_from_file s2f pstr init_checks_only strings_boundary compound_boundary f)
  = read_file s2f pstr f.
Proof. intros Hwf. apply read_file_eq; [reflexivity|exact Hwf]. Qed.

(* what the equalities transport: e.g. JsonFacts.validate_only_format_error now speaks about the generated validator *)
Corollary generated_validator_only_format_error d machine e :
  serializer_validate_contract_dict d machine = inr e -> e = FormatErr.
Proof. rewrite validate_contract_dict_eq. apply JsonFacts.validate_only_format_error. Qed.

(* the generated code evaluated on the inputs that were run on the real library (docs/JSONGEN_REPORT.md, section 4):
   the order in which one clause raises, and the clause beyond the shorter list *)
Local Open Scope string_scope.
Definition g_clause (fields : list (string * json)) : json := JObj fields.
Definition g_dict (a g : json) : json :=
  JObj [("assumptions", a); ("guarantees", g); ("input_vars", JList []); ("output_vars", JList [JStr "x"])].
Definition g_from_dict (d : json) := PolyhedralIoContract_from_dict dec_float py_repr init_checks_only d true.
Example gen_KeyError : g_from_dict (g_dict (JList []) (JList [g_clause [("constant", JNull)]])) = inr (Escape "KeyError").
Proof. vm_compute. reflexivity. Qed.
Example gen_AttributeError :
  g_from_dict (g_dict (JList []) (JList [g_clause [("constant", JNull); ("coefficients", JNum 3 true)]]))
  = inr (Escape "AttributeError").
Proof. vm_compute. reflexivity. Qed.
Example gen_TypeError_constant_first :
  g_from_dict (g_dict (JList []) (JList [g_clause [("constant", JNull); ("coefficients", JObj [("x", JNull)])]]))
  = inr (Escape "TypeError").
Proof. vm_compute. reflexivity. Qed.
Example gen_ValueError_float_str :
  g_from_dict (g_dict (JList []) (JList [g_clause [("constant", JStr "abc"); ("coefficients", JObj [("x", JNull)])]]))
  = inr ValueErr.
Proof. vm_compute. reflexivity. Qed.
Example gen_TypeError_iter_None : g_from_dict (g_dict JNull (JList [])) = inr (Escape "TypeError").
Proof. vm_compute. reflexivity. Qed.
Example gen_validate_bool_constant :
  serializer_validate_contract_dict
    (g_dict (JList []) (JList [g_clause [("constant", JBool true); ("coefficients", JObj [])]])) true = inr FormatErr.
Proof. vm_compute. reflexivity. Qed.
(* the input the seeded zip change lets through: a malformed clause beyond the shorter list *)
Example gen_validate_beyond_shorter_list :
  serializer_validate_contract_dict
    (g_dict (JList []) (JList [g_clause [("constant", JNum 1 false); ("coefficients", JObj [])];
                               g_clause [("constant", JNum 1 false)]])) true = inr FormatErr.
Proof. vm_compute. reflexivity. Qed.

Print Assumptions validate_contract_dict_eq.
Print Assumptions to_machine_dict_eq.
Print Assumptions from_dict_eq.
Print Assumptions read_file_eq.
Print Assumptions write_machine_eq.
Print Assumptions write_strings_eq.
