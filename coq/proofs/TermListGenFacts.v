(* TermListGenFacts.v — the obligations that tie the hand models of the pure-Python part of PolyhedralTermList
   (model/Term.v: evaluate, contains_behavior; model/Tactics.v: _get_kaykobad_context, the tactics, _transform_term,
   _transform, elim_vars_by_refining / _relaxing) to the code: for every function f that translator/py2coq_termlist.py
   renders into gen/TermListGen.v (regenerated from /repo/src on every run), the generated function EQUALS the hand
   model, pointwise as monadic results (values and error kinds).  A semantic change of f changes gen/TermListGen.v and
   the proof of the matching theorem stops compiling.

   Files (split by group so that an edit of one function breaks only the obligations that depend on it):
     TermListGenBase.v      instance of the untranslated primitives (class TLPrims) with the hand models; loop lemmas
     TermListGenEval.v      __init__, vars, copy, get_terms_with_vars, __or__, lacks_constraints, evaluate, contains_behavior
     TermListGenElim.v      _transform_term, _transform, elim_vars_by_refining, elim_vars_by_relaxing (abstract tactic table)
     TermListGenKaykobad.v  _get_kaykobad_context                                  (no precondition)
     TermListGenTactic4.v   _tactic_4 (equal fuel), _tactic_trivial
     TermListGenTactic32.v  _tactic_1, _tactic_5, _tactic_2, _tactic_3
     TermListGenFacts.v     (this file) the class-level dict TACTICS = run_tactic, and the closed forms of the Elim theorems

   Preconditions and why (Examples in the files show that they are necessary):
   * [wft t] (distinct keys) wherever PolyhedralTerm.copy / the constructor rebuild a dict item by item: an association list
     with a repeated key denotes no Python dict;
   * [wft' t] (no stored zero coefficient, what the constructor guarantees) for the term being transformed and for the
     context where the code copies a term list (`context.copy()`, `context | siblings`, `self.copy()`): copy() drops stored
     zeros, the hand models pass the un-copied list.  Outside it the HAND MODEL differs from the code
     (TermListGenTactic4.v:tactic_4_stored_zero, checked on the real library);
   * [NoDup vs], ["_" not in vs] for _tactic_3 (TermListGenTactic32.v:tactic_3_underscore, checked on the real library). *)
From Coq Require Import List String Bool Arith QArith ZArith Lia.
Import ListNotations.
Require Import Py ListsGen ConstGen Sem PyDict PyLoop PyTermList Term Poly Tactics TermGen ListsFacts TermFacts
  PolyLP PolyFacts TacticsFacts TermGenFacts TermListGen.
Require Export TermListGenBase TermListGenEval TermListGenElim TermListGenKaykobad TermListGenTactic4 TermListGenTactic32.
Open Scope py_scope.
Local Open Scope nat_scope.

(* ------------------------------------------------------------------ *)
(** * The results of the hand model's tactics are Python dicts *)
Lemma fold_remove_wft l : forall t, wft t -> wft (fold_left term_remove_variable l t).
Proof. induction l as [|v r IH]; intros t Ht; [exact Ht|]. cbn [fold_left]. apply IH, wft_remove_variable, Ht. Qed.

Lemma tactic_2_wft O term ctx vs refine r c :
  wft term -> tactic_2 O term ctx vs refine = inl (Some r, c) -> wft r.
Proof.
  intros Ht. unfold tactic_2. cbv zeta.
  destruct (map term_copy _) as [|c0 ncl]; [discriminate|].
  destruct (nonempty _); [discriminate|].
  destruct (O _) as [f slack| | |st|]; try discriminate.
  set (res := fold_left term_remove_variable vs (term_copy term)).
  assert (Hr : wft res) by (apply fold_remove_wft, wft_copy, Ht).
  destruct (negb (nonempty _)); intros H; inversion H; subst; [apply wft_copy, Ht|exact Hr].
Qed.

Lemma tactic_1_wft O term ctx vs refine r c :
  wft term -> Forall wft ctx -> NoDup vs -> tactic_1 O term ctx vs refine = inl (Some r, c) -> wft r.
Proof.
  intros Ht Hc Hnd H. pose proof (tactic_1_spec O term ctx vs refine r c Ht Hc Hnd H) as S. cbv zeta in S.
  destruct S as [rows [sols [_ [_ [_ [_ [_ [Hw _]]]]]]]]. exact Hw.
Qed.
Lemma tactic_5_wft O term ctx vs refine r c :
  wft term -> Forall wft ctx -> NoDup vs -> tactic_5 O term ctx vs refine = inl (Some r, c) -> wft r.
Proof.
  intros Ht Hc Hnd H. destruct (tactic_5_spec O term ctx vs refine r c Ht Hc Hnd H) as [rows [sols [_ [_ [_ [Hw _]]]]]].
  exact Hw.
Qed.

Local Open Scope string_scope.
Lemma tactic_3_wft O term ctx (vs : list var) refine r c :
  wft' term -> Forall wft ctx -> NoDup vs -> ~ In ("_" : var) vs ->
  tactic_3 O term ctx vs refine = inl (Some r, c) -> wft r.
Proof.
  intros Ht Hctx Hnd Hus. unfold tactic_3. cbv zeta.
  remember (list_intersection vs (term_vars_p term)) as cv eqn:E0.
  assert (Hcv : NoDup cv) by (subst cv; apply NoDup_list_intersection; exact Hnd).
  assert (Hcu : ~ In ("_" : var) cv) by (subst cv; intros H; apply in_list_intersection in H; apply Hus, H).
  clear E0. destruct cv as [|v0 crest]; [discriminate|]. set (cv := v0 :: crest) in *.
  set (c0 := get_coefficient term v0).
  set (stv := ("_", qdiv 1 c0) :: map (fun v => (v, qdiv (qneg (get_coefficient term v)) c0))
                                      (filter (fun v => negb (String.eqb v v0)) cv)).
  assert (Hstv : NoDup (keys stv)).
  { unfold stv. cbn [keys map fst]. fold (keys (map (fun v => (v, qdiv (qneg (get_coefficient term v)) c0))
                                                   (filter (fun v => negb (String.eqb v v0)) cv))).
    rewrite keys_map_var. constructor.
    - intros H. apply filter_In in H. apply Hcu, H.
    - apply NoDup_filter. exact Hcv. }
  intros H. apply (tactic_1_wft O _ _ _ refine r c) in H; [exact H| | |].
  - unfold wft. cbn [tvars]. apply NoDup_keys_dict_set. apply fold_remove_wft, wft_copy, Ht.
  - rewrite Forall_forall in *. intros x Hx. apply in_map_iff in Hx. destruct Hx as [el [<- Hel]].
    apply wft_substitute_variable; [apply wft_copy, Hctx, Hel|apply wft_mk_term; exact Hstv].
  - apply NoDup_list_diff. apply NoDup_list_union; [exact Hnd|constructor; [intros []|constructor]].
Qed.

Theorem run_tactic_wft O (vs : list var) :
  NoDup vs -> ~ In ("_" : var) vs ->
  forall num term ctx refine r c, wft' term -> Forall wft' ctx ->
  run_tactic O num term ctx vs refine = inl (Some r, c) -> wft r.
Proof.
  intros Hnd Hus num term ctx refine r c Ht Hctx H.
  assert (Hc : Forall wft ctx) by (apply Forall_wft'_wft; exact Hctx).
  destruct num as [|[|[|[|[|[|[|n]]]]]]]; cbn [run_tactic] in H; try discriminate.
  - exact (tactic_1_wft O term ctx vs refine r c (proj1 Ht) Hc Hnd H).
  - exact (tactic_2_wft O term ctx vs refine r c (proj1 Ht) H).
  - exact (tactic_3_wft O term ctx vs refine r c Ht Hc Hnd Hus H).
  - exact (tactic_4_wft _ _ _ _ _ _ _ _ (proj1 Ht) Hc H).
  - exact (tactic_5_wft O term ctx vs refine r c (proj1 Ht) Hc Hnd H).
  - inversion H; subst. apply wft_copy, Ht.
Qed.

(* ------------------------------------------------------------------ *)
(** * The class-level dict TACTICS *)
Theorem tactics_table_eq O (vs : list var) :
  NoDup vs -> ~ In ("_" : var) vs ->
  forall num term ctx refine, wft' term -> Forall wft' ctx ->
  @PolyhedralTermList_TACTICS (poly_prims O) num term ctx vs refine = run_tactic O num term ctx vs refine.
Proof.
  intros Hnd Hus num term ctx refine Ht Hctx.
  assert (Hc : Forall wft ctx) by (apply Forall_wft'_wft; exact Hctx).
  destruct num as [|[|[|[|[|[|[|n]]]]]]]; cbn [PolyhedralTermList_TACTICS run_tactic]; try reflexivity.
  - apply tactic_2_eq; [apply Ht|exact Hc].
  - apply tactic_3_eq; assumption.
  - apply tactic_4_eq; assumption.
  - apply tactic_trivial_eq. apply Ht.
Qed.

(* ------------------------------------------------------------------ *)
(** * Closed forms: the translated wrappers over the translated table *)
Section Closed.
Variable O : oracle.
Variable vs : list var.
Hypothesis Hnd : NoDup vs.
Hypothesis Hus : ~ In ("_" : var) vs.
Let TAC := @PolyhedralTermList_TACTICS (poly_prims O).
Let HT := fun num term ctx refine => tactics_table_eq O vs Hnd Hus num term ctx refine.
Let HW := run_tactic_wft O vs Hnd Hus.

Theorem transform_term_closed order term ctx refine :
  wft' term -> Forall wft' ctx ->
  PolyhedralTermList__transform_term TAC term ctx vs refine (Some order) = transform_term O order term ctx vs refine.
Proof. apply (transform_term_eq O TAC vs HT). Qed.
Theorem transform_closed order self ctx refine sp :
  Forall wft' self -> Forall wft' ctx ->
  @PolyhedralTermList__transform (poly_prims O) TAC self ctx vs refine sp (Some order)
  = transform O self ctx vs refine sp order.
Proof. apply (transform_eq O TAC vs HT HW). Qed.
Theorem elim_vars_by_refining_closed order self ctx sp :
  Forall wft' self -> Forall wft' ctx ->
  @PolyhedralTermList_elim_vars_by_refining (poly_prims O) TAC self ctx vs sp (Some order)
  = elim_vars_by_refining O self ctx vs sp order.
Proof. apply (elim_vars_by_refining_eq O TAC vs HT HW). Qed.
Theorem elim_vars_by_relaxing_closed order self ctx sp :
  Forall wft' self -> Forall wft' ctx ->
  @PolyhedralTermList_elim_vars_by_relaxing (poly_prims O) TAC self ctx vs sp (Some order)
  = elim_vars_by_relaxing O self ctx vs sp order.
Proof. apply (elim_vars_by_relaxing_eq O TAC vs HT HW). Qed.
(* tactics_order=None is the module constant TACTICS_ORDER (read by the first generator into gen/ConstGen.v) *)
Theorem elim_vars_by_refining_default self ctx sp :
  Forall wft' self -> Forall wft' ctx ->
  @PolyhedralTermList_elim_vars_by_refining (poly_prims O) TAC self ctx vs sp None
  = elim_vars_by_refining O self ctx vs sp TACTICS_ORDER_polyhedra.
Proof. apply (elim_vars_by_refining_eq O TAC vs HT HW TACTICS_ORDER_polyhedra). Qed.
Theorem elim_vars_by_relaxing_default self ctx sp :
  Forall wft' self -> Forall wft' ctx ->
  @PolyhedralTermList_elim_vars_by_relaxing (poly_prims O) TAC self ctx vs sp None
  = elim_vars_by_relaxing O self ctx vs sp TACTICS_ORDER_polyhedra.
Proof. apply (elim_vars_by_relaxing_eq O TAC vs HT HW TACTICS_ORDER_polyhedra). Qed.
End Closed.

(* ------------------------------------------------------------------ *)
(** The precondition on the CONTEXT of _transform is necessary, and outside it the HAND MODEL differs from the code
    (checked on the real library, PYTHONPATH=/repo/src): `helpers = context | copy_new_terms` copies the context terms
    (TermList.__or__), which drops a stored zero coefficient (only obtainable by assigning to `t.variables`); the hand
    model keeps the context as given.  Input: self = [x + y <= 0], context = [y <= 5 with a stored 0*z],
    vars_to_elim = [y, z], refining, no simplification, tactics_order = [4]: the code (and the generated text) answer
    [x <= -5] with statistics [(4, 1)]; the hand model sees two conflict variables in the context term, recurses and
    ends in `conflict_vars[0]` on an empty list (IndexError). *)
Example transform_context_stored_zero :
  let t := mkT [("x", 1%Q); ("y", 1%Q)] 0%Q in
  let c := mkT [("y", 1%Q); ("z", 0%Q)] (5 # 1)%Q in
  let O : oracle := fun _ => LpMiss in
  @PolyhedralTermList__transform (poly_prims O) (@PolyhedralTermList_TACTICS (poly_prims O)) [t] [c] ["y"; "z"] true false
                                 (Some [4%nat])
    = inl ([mkT [("x", 1%Q)] (-5 # 1)%Q], [(4%Z, 1%Z)])
  /\ transform O [t] [c] ["y"; "z"] true false [4%nat] = inr (Escape "IndexError").
Proof. split; vm_compute; reflexivity. Qed.

Print Assumptions evaluate_eq.
Print Assumptions get_kaykobad_context_eq.
Print Assumptions tactic_4_eq.
Print Assumptions tactic_3_eq.
Print Assumptions tactic_2_eq.
Print Assumptions tactics_table_eq.
Print Assumptions elim_vars_by_refining_closed.
Print Assumptions elim_vars_by_relaxing_closed.
