(* ParseAllFacts.v — the public string entry point (model/ParseAll.v parse_terms = polyhedral_termlist_from_string):
   which errors it can produce.  Uses the shape of what the grammar returns (an inequality always has at
   least two sides), totality of the parser model, and the error analysis of the folding actions. *)
From Coq Require Import List String Bool QArith Lia.
Import ListNotations.
Require Import Py Sem Term Ast Grammar Syntax ParseAll SyntaxFacts GrammarFacts.

Lemma bind_ok {A B} (p : parser A) (f : A -> parser B) s b r :
  Grammar.bind p f s = ROk b r -> exists a r', p s = ROk a r' /\ f a r' = ROk b r.
Proof.
  unfold Grammar.bind. destruct (p s) as [a r'| | |]; try discriminate. intros H. exists a, r'. split; [reflexivity|exact H].
Qed.

(* the grammar only builds inequalities with two or more sides: side (op side)+ *)
Lemma ineq_two_sided fa n op mk s e r :
  (forall l, mk l = ELeq l \/ mk l = EGeq l) ->
  ineq_expression fa n op mk s = ROk e r -> two_sided e.
Proof.
  intros Hmk H. unfold ineq_expression in H.
  apply bind_ok in H. destruct H as [s0 [r0 [_ H]]].
  apply bind_ok in H. destruct H as [l [r1 [Hl H]]].
  unfold Grammar.ret in H. inversion H; subst; clear H.
  unfold many1 in Hl. apply bind_ok in Hl. destruct Hl as [a [r2 [_ Hl]]].
  apply bind_ok in Hl. destruct Hl as [l' [r3 [_ Hl]]].
  unfold Grammar.ret in Hl. inversion Hl; subst; clear Hl.
  destruct (Hmk (s0 :: a :: l')) as [Em|Em]; rewrite Em; cbn; lia.
Qed.

Lemma expression_two_sided fa n s e r : expression fa n s = ROk e r -> two_sided e.
Proof.
  unfold expression, alt. intros H.
  destruct (equality_expression fa n s) as [e0 r0| | |] eqn:E0.
  - injection H as <- _. unfold equality_expression in E0.
    apply bind_ok in E0. destruct E0 as [l [r1 [_ E0]]].
    apply bind_ok in E0. destruct E0 as [u [r2 [_ E0]]].
    apply bind_ok in E0. destruct E0 as [rr [r3 [_ E0]]].
    unfold Grammar.ret in E0. inversion E0; subst. exact I.
  - destruct (leq_expression fa n s) as [e1 r1| | |] eqn:E1.
    + injection H as <- _. eapply (ineq_two_sided fa n "<=" ELeq); [intros l; left; reflexivity|exact E1].
    + eapply (ineq_two_sided fa n ">=" EGeq); [intros l; right; reflexivity|exact H].
    + discriminate.
    + discriminate.
  - discriminate.
  - discriminate.
Qed.

Theorem parse_expr_two_sided s e : Grammar.parse_expr s = Ok e -> two_sided e.
Proof.
  unfold Grammar.parse_expr, parse_expr_fuel, parse_gen_fuel. intros H.
  destruct (expression fold_left_assoc (S (String.length s)) s) as [e0 r0| | |] eqn:E; try discriminate.
  destruct (skip_ws r0); try discriminate. injection H as <-.
  eapply expression_two_sided. exact E.
Qed.

(* every failure of the string entry point is one of the two documented string errors *)
Theorem parse_terms_errors s x : parse_terms s = inr x -> x = SyntaxErr \/ x = ConvexErr.
Proof.
  unfold parse_terms. intros H.
  destruct (Grammar.parse_expr s) as [e| | |] eqn:E;
    try (unfold raise in H; injection H as <-; left; reflexivity).
  - destruct (fold_expr e) as [ts|y] eqn:F; [discriminate|]. injection H as <-.
    destruct (fold_errors e y (parse_expr_two_sided s e E) F) as [-> | ->]; [right; reflexivity|left; reflexivity].
  - exfalso. exact (parse_expr_total s E).
Qed.

(* in particular no ZeroDivisionError (or any other foreign exception) escapes from a string *)
Corollary parse_terms_no_escape s k : parse_terms s <> inr (Escape k).
Proof. intros H. destruct (parse_terms_errors s _ H) as [H1|H1]; discriminate. Qed.

(* "(1/0)x <= 1" : rejected as a syntax error *)
Example parse_divzero : parse_terms "(1/0)x <= 1" = inr SyntaxErr.
Proof. vm_compute. reflexivity. Qed.

(* what is read means what is written (fold_sound through the entry point) *)
Theorem parse_terms_sound s ts : parse_terms s = inl ts ->
  exists e, Grammar.parse_expr s = Ok e /\ forall rho, sat_list rho ts <-> eden rho e.
Proof.
  unfold parse_terms. intros H. destruct (Grammar.parse_expr s) as [e| | |] eqn:E; try discriminate.
  destruct (fold_expr e) as [ts'|y] eqn:F; [|discriminate]. injection H as <-.
  exists e. split; [reflexivity|]. exact (fold_sound e ts' F).
Qed.
