(* TlpGenContext.v — T1 tie of PolyhedralTermList._get_tlp_context (tactic 5): the LP over the whole context with the
   objective restricted to the forbidden variables, the status handling, the selection of the LP-active rows and the
   multiplier sign check  np.linalg.solve(row_matrix.T, term_vector).  See TlpGenFacts.v. *)
From Coq Require Import List String Bool Arith QArith ZArith Lia.
Import ListNotations.
Require Import Py ListsGen ConstGen Sem PyDict PyLoop PyTermList PyNumpy PyLinalg Term Poly Tactics TermGen
  ListsFacts TermFacts TermGenFacts TermListGen TermListGenBase TermListGenEval PolyGen PolyGenBase PolyGenPolytope
  TlpGen TlpGenBase.
Open Scope py_scope.
Local Open Scope nat_scope.

(* the LP that _get_tlp_context solves *)
Definition tlp_objective (term : pterm) (fvars : list var) (refine : bool) (v : var) : Q :=
  let c := if py_in v fvars then get_coefficient term v else 0%Q in if refine then qneg c else c.
Definition tlp_lp (term : pterm) (ctx : list pterm) (vs : list var) (refine : bool) : lp_problem :=
  let fvars := list_intersection vs (term_vars_p term) in
  let var_list := polytope_vars ctx [] in
  mkLP var_list (map (tlp_objective term fvars refine) var_list) (map (term_to_row var_list) ctx).
(* scipy reports one slack per row of A_ub; an oracle answer with MORE slacks than rows denotes no linprog result *)
Definition slack_fits (O : oracle) (p : lp_problem) : Prop :=
  forall f s, O p = LpOpt f s -> List.length s <= List.length (lp_rows p).

(* ------------------------------------------------------------------ *)
(** * The selection loop: for index in indices: ... *)
Lemma tlp_pick_0 ctx slack fvars : tlp_pick ctx slack fvars 0 = [].
Proof. destruct ctx; reflexivity. Qed.

Section Pick.
Variables (ctx : list pterm) (fvars : list var) (n : nat).
Let body := fun '(matrix_row_terms, terms_added) (index : nat) =>
  bind (list_get_m ctx index) (fun context_term =>
    if nonempty (list_intersection (PolyhedralTerm_vars context_term) fvars) then
      if Nat.eqb (Nat.add terms_added 1) n
      then ret (Break ((matrix_row_terms ++ [context_term])%list, Nat.add terms_added 1))
      else ret (Continue ((matrix_row_terms ++ [context_term])%list, Nat.add terms_added 1))
    else ret (Continue (matrix_row_terms, terms_added))).

Lemma pick_loop : forall (slack : list Q) (rest done rows : list pterm) (added : nat),
  ctx = done ++ rest -> List.length slack <= List.length rest -> added < n ->
  for_list_m (true_indices (List.length done) (map isclose0 slack)) (rows, added) body
  = ret (rows ++ tlp_pick rest slack fvars (n - added),
         added + List.length (tlp_pick rest slack fvars (n - added))).
Proof.
  induction slack as [|s sr IH]; intros rest done rows added Hctx Hlen Hadd.
  - cbn [map true_indices for_list_m]. destruct (n - added) as [|k] eqn:E; [lia|].
    destruct rest; cbn [tlp_pick]; rewrite app_nil_r, Nat.add_0_r; reflexivity.
  - destruct rest as [|c cr]; [cbn in Hlen; lia|]. cbn [List.length] in Hlen.
    destruct (n - added) as [|k] eqn:E; [lia|].
    assert (Hnext : ctx = (done ++ [c]) ++ cr) by (rewrite Hctx, <- app_assoc; reflexivity).
    assert (Hl : S (List.length done) = List.length (done ++ [c])) by (rewrite app_length; cbn; lia).
    cbn [map true_indices tlp_pick]. destruct (isclose0 s) eqn:Hs; cbn [andb].
    + cbn [for_list_m]. unfold body at 1. rewrite Hctx, list_get_m_app, bind_ret_l.
      change (PolyhedralTerm_vars c) with (term_vars_p c).
      destruct (nonempty (list_intersection (term_vars_p c) fvars)) eqn:Hi.
      * destruct (Nat.eqb (added + 1) n) eqn:En.
        -- apply Nat.eqb_eq in En. assert (k = 0) by lia. subst k.
           rewrite bind_ret_l, tlp_pick_0. cbn [List.length]. reflexivity.
        -- apply Nat.eqb_neq in En. rewrite bind_ret_l, Hl.
           rewrite (IH cr (done ++ [c]) (rows ++ [c]) (added + 1) Hnext) by lia.
           replace (n - (added + 1)) with k by lia. cbn [List.length]. rewrite <- app_assoc. cbn [app].
           unfold ret. f_equal. f_equal. lia.
      * rewrite bind_ret_l, Hl. rewrite (IH cr (done ++ [c]) rows added Hnext) by lia.
        rewrite E. reflexivity.
    + rewrite Hl. rewrite (IH cr (done ++ [c]) rows added Hnext) by lia. rewrite E. reflexivity.
Qed.
Lemma pick_loop0 (slack : list Q) :
  List.length slack <= List.length ctx -> 0 < n ->
  for_list_m (true_indices 0 (map isclose0 slack)) ([], 0) body
  = ret (tlp_pick ctx slack fvars n, List.length (tlp_pick ctx slack fvars n)).
Proof.
  intros Hl Hn. pose proof (pick_loop slack ctx [] [] 0 eq_refl Hl Hn) as H.
  rewrite Nat.sub_0_r in H. exact H.
Qed.
End Pick.

Lemma tlp_pick_length_le ctx : forall slack fvars need, List.length (tlp_pick ctx slack fvars need) <= need.
Proof.
  induction ctx as [|c cr IH]; intros slack fvars need; destruct need as [|k]; cbn [tlp_pick List.length]; try lia.
  destruct slack as [|s sr]; cbn [List.length]; [lia|].
  destruct (isclose0 s && nonempty (list_intersection (term_vars_p c) fvars)); cbn [List.length].
  - specialize (IH sr fvars k). lia.
  - specialize (IH sr fvars (S k)). lia.
Qed.

(* ------------------------------------------------------------------ *)
(** * _get_tlp_context *)
(* Preconditions, both shown necessary below:
   - the term mentions a variable to eliminate (otherwise numpy rejects the empty 1-D "matrix": LinAlgError ->
     ValueError, whereas the hand model returns no row: [get_tlp_context_no_forbidden_var]);
   - the solver reports at most one slack per row ([get_tlp_context_long_slack]). *)
Theorem get_tlp_context_eq O term ctx vs refine :
  list_intersection vs (term_vars_p term) <> [] ->
  slack_fits O (tlp_lp term ctx vs refine) ->
  @PolyhedralTermList__get_tlp_context (poly_lp O) model_linalg term ctx vs refine
  = get_tlp_context O term ctx vs refine.
Proof.
  intros Hfv Hslack. unfold PolyhedralTermList__get_tlp_context, get_tlp_context. cbv zeta.
  change (PolyhedralTerm_vars term) with (term_vars_p term).
  set (fvars := list_intersection vs (term_vars_p term)) in *.
  rewrite termlist_init_eq. cbn [opt_list]. rewrite termlist_to_polytope_eq, bind_ret_l.
  unfold polytope_of. cbv zeta.
  unfold slack_fits, tlp_lp in Hslack. cbv zeta in Hslack. fold fvars in Hslack. cbn [lp_rows] in Hslack.
  remember (polytope_vars ctx []) as vl0 eqn:Evl.
  (* the objective *)
  rewrite (map_m_ret _ (fun v => if py_in v fvars then get_coefficient term v else 0%Q)).
  2:{ intros v _. destruct (py_in v fvars); [apply get_coefficient_eq|reflexivity]. }
  rewrite bind_ret_l.
  assert (Hobj : (if refine
                  then ret (np_scale (np_array_1d (map (fun v => if py_in v fvars then get_coefficient term v else 0%Q) vl0)) (-1 # 1))
                  else ret (np_array_1d (map (fun v => if py_in v fvars then get_coefficient term v else 0%Q) vl0)))
                 = ret (A1 (map (tlp_objective term fvars refine) vl0))).
  { unfold tlp_objective, np_array_1d, np_scale, np_map. destruct refine.
    - rewrite map_qmul_m1, map_map. reflexivity.
    - reflexivity. }
  rewrite Hobj, bind_ret_l. clear Hobj.
  change (fun v : var => if refine then qneg (if py_in v fvars then get_coefficient term v else 0%Q)
                         else if py_in v fvars then get_coefficient term v else 0%Q)
    with (tlp_objective term fvars refine).
  cbn [np_linprog poly_lp].
  destruct vl0 as [|v0 vl'].
  { (* no variable at all: scipy rejects the empty objective *) reflexivity. }
  assert (Hctx : ctx <> []). { intros ->. unfold polytope_vars in Evl. cbn in Evl. discriminate. }
  set (vl := v0 :: vl') in *.
  assert (Hmat : mat_of (List.length vl) (map (fun t => fst (term_to_row vl t)) ctx)
                 = A2 (List.length vl) (map fst (map (term_to_row vl) ctx))).
  { rewrite map_fst_rows. destruct ctx; [congruence|reflexivity]. }
  rewrite Hmat, <- (map_snd_rows vl ctx).
  rewrite oracle_linprog_rows; [|discriminate|apply map_length].
  destruct (O (mkLP vl (map (tlp_objective term fvars refine) vl) (map (term_to_row vl) ctx)))
    as [f slack| | |z|] eqn:EO; try reflexivity.
  specialize (Hslack f slack eq_refl). rewrite map_length in Hslack.
  cbn [lp_result_of bind ret res_status res_slack Nat.eqb negb np_asarray_opt].
  (* the active rows *)
  cbn [la_isclose model_linalg]. unfold model_isclose, np_map.
  change (qzero (0 # 1)) with true. cbv iota. change (fun x : Q => isclose0 x) with isclose0. unfold np_where_idx.
  unfold len. rewrite true_indices_length.
  set (n := List.length fvars).
  assert (Hn : 0 < n). { unfold n. destruct fvars; [congruence|cbn; lia]. }
  destruct (Nat.ltb (List.length (filter isclose0 slack)) n); [reflexivity|].
  rewrite (pick_loop0 ctx fvars n slack Hslack Hn), bind_ret_l.
  set (rows := tlp_pick ctx slack fvars n).
  destruct (Nat.ltb (List.length rows) n) eqn:Hrn; [reflexivity|].
  apply Nat.ltb_ge in Hrn. pose proof (tlp_pick_length_le ctx slack fvars n) as Hle. fold rows in Hle.
  assert (Hrows : List.length rows = n) by lia. clear Hrn Hle.
  (* the row matrix, its transpose and the term vector *)
  rewrite (map_m_ret _ (fun r => map (get_coefficient r) fvars)).
  2:{ intros r _. apply map_m_ret. intros v _. apply get_coefficient_eq. }
  rewrite bind_ret_l.
  rewrite (np_array_2d_rows n).
  2:{ unfold rows_len. apply Forall_forall. intros x Hx. apply in_map_iff in Hx. destruct Hx as [r [<- _]]. apply map_length. }
  rewrite bind_ret_l.
  rewrite (map_m_ret _ (get_coefficient term)) by (intros v _; apply get_coefficient_eq).
  rewrite bind_ret_l. unfold np_array_1d.
  assert (Hmat2 : mat_of n (map (fun r => map (get_coefficient r) fvars) rows)
                  = A2 (List.length fvars) (map (fun r => map (get_coefficient r) fvars) rows)).
  { destruct rows; [cbn in Hrows; lia|reflexivity]. }
  rewrite Hmat2, np_transpose_table. clear Hmat2.
  (* np.linalg.solve *)
  cbn [la_solve model_linalg]. unfold gauss_linsolve, len. rewrite !map_length.
  fold n. rewrite Hrows, Nat.eqb_refl. cbn [negb].
  rewrite map_combine_maps. cbn [fst snd].
  destruct (gauss (map lam_name (seq 0 n)) []
              (map (fun v => mk_term (combine (map lam_name (seq 0 n)) (map (fun r => get_coefficient r v) rows))
                                     (get_coefficient term v)) fvars)) as [pivots rest'].
  destruct (negb (Nat.eqb (List.length pivots) (List.length (seq 0 n)))); [reflexivity|].
  cbn [try_except_linalg bind ret]. rewrite np_any_lt, np_any_gt.
  reflexivity.
Qed.

(* ------------------------------------------------------------------ *)
(** * Why the two preconditions *)
Local Open Scope string_scope.
(* (1) a DIFFERENCE between the hand model and the Python (reproduced on the real library, docs/TLPGEN_REPORT.md §4):
   the term  z <= 3  mentions no variable to eliminate; context [x <= 5; -x <= 0], eliminate [x].  The LP is
   feasible and bounded (objective 0), num_vars_to_elim = 0, no row is selected, row_matrix = np.array([]) is 1-D:
   np.linalg.solve raises LinAlgError, the code raises ValueError.  The hand model solves the empty system and
   returns ([], []).  (_transform_term never calls a tactic on such a term; _get_tlp_context can be called
   directly.) *)
Example get_tlp_context_no_forbidden_var :
  let term := mkT [("z", 1%Q)] 3%Q in
  let ctx := [mkT [("x", 1%Q)] 5%Q; mkT [("x", (-1)%Q)] 0%Q] in
  let O : oracle := fun _ => LpOpt 0%Q [5%Q; 0%Q] in
  @PolyhedralTermList__get_tlp_context (poly_lp O) model_linalg term ctx ["x"] true = raise ValueErr
  /\ get_tlp_context O term ctx ["x"] true = ret ([], []).
Proof. split; vm_compute; reflexivity. Qed.
(* (2) an oracle answer with more slacks than rows is no linprog result: the code indexes context.terms with the
   position of the extra active slack (IndexError), the hand model zips rows and slacks and stops at the shorter *)
Example get_tlp_context_long_slack :
  let term := mkT [("x", 1%Q)] 0%Q in
  let ctx := [mkT [("y", 1%Q)] 1%Q] in
  let O : oracle := fun _ => LpOpt 0%Q [0%Q; 0%Q] in
  @PolyhedralTermList__get_tlp_context (poly_lp O) model_linalg term ctx ["x"] true = raise (Escape "IndexError")
  /\ get_tlp_context O term ctx ["x"] true = raise ValueErr.
Proof. split; vm_compute; reflexivity. Qed.
(* the transpose matters: rows  x + y <= 2,  y <= 1  active, term  x + 3 y, refining: the multipliers solve
   M^T l = (1, 3), i.e. l = (1, 2) >= 0 (accepted); without the transpose M l = (1, 3) gives l = (-2, 3) *)
Example get_tlp_context_transpose :
  let term := mkT [("x", 1%Q); ("y", 3%Q)] 0%Q in
  let ctx := [mkT [("x", 1%Q); ("y", 1%Q)] 2%Q; mkT [("y", 1%Q)] 1%Q] in
  let O : oracle := fun _ => LpOpt (-4)%Q [0%Q; 0%Q] in
  get_tlp_context O term ctx ["x"; "y"] true = ret (ctx, ["x"; "y"])
  /\ gauss_linsolve (np_transpose (A2 2 [[1%Q; 1%Q]; [0%Q; 1%Q]])) (A1 [1%Q; 3%Q]) = ret (A1 [1%Q; 2%Q])
  /\ gauss_linsolve (A2 2 [[1%Q; 1%Q]; [0%Q; 1%Q]]) (A1 [1%Q; 3%Q]) = ret (A1 [(-2)%Q; 3%Q]).
Proof. repeat split; vm_compute; reflexivity. Qed.
