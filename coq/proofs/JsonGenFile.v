(* JsonGenFile.v — the generated reader / writer of src/pacti/utils/fileio.py minus the file I/O
   (gen/JsonGen.v: fileio_read_contracts_from_file takes the value json.load returned,
   fileio_write_contracts_to_file returns the value handed to json.dumps) are EQUAL to the hand model of
   model/Json.v (read_file; write_file_machine / write_entry_strings): pointwise equality of monadic results,
   i.e. also WHICH exception is raised (shape loop over ALL entries first, dispatch on "type", validation for
   both PolyhedralIoContract representations, TypeError of f( **data), ValueError for an unknown type).

   The parameters of the generated code are instantiated as the hand model fixes them:
   - the two from_strings (string parsing, model/ParseAll.v) by the packaging of model/Json.v:
     LStrings (strs_of ...) ... (py_truth simplify) / LCompound ...;
   - IoContract.__init__ by any [init] that agrees with pc_init when simplify = True (what from_dict's default
     passes): the hand model has no simplify flag.
   Precondition [json_wf] (what json.load guarantees: no repeated key) is inherited from from_dict
   (JsonGenDict.v: from_dict_needs_wf).  See JsonGenFacts.v. *)
From Coq Require Import List String Bool QArith ZArith Lia.
Import ListNotations.
Require Import Py Sem PyDict PyLoop Term Json PyJson JsonFacts JsonGen JsonGenBase JsonGenValidate JsonGenDict.
Open Scope py_scope.
Local Open Scope string_scope.

Section File.
Context (s2f : string -> option Q) (pstr : json -> string).

(* what model/Json.v keeps of the two calls it does not model *)
Definition strings_boundary (a g i o s : json) : M loaded :=
  ret (LStrings (strs_of a) (strs_of g) (strs_of i) (strs_of o) (py_truth s)).
Definition compound_boundary (a g i o : json) : M loaded := ret (LCompound a g i o).
(* (contracts, names) as the hand model returns them: a list of (name, contract) *)
Definition pair_up (r : list loaded * list json) : list (string * loaded) := combine (map str_of (snd r)) (fst r).

(* ------------------------------------------------------------------ *)
(** * the shape loop *)
Lemma check_body_eq entry :
  (if negb (py_isinstance entry [CDict]) then raise FormatErr else
   _ <- for_list_m ["type"; "name"; "data"] tt (fun _ kw =>
          b <- json_contains entry kw ;; if negb b then raise FormatErr else ret (Continue tt)) ;;
   t <- json_getitem entry "name" ;;
   if negb (py_isinstance t [CStr]) then raise FormatErr else ret (Continue tt))
  = bind (check_entry entry) (fun _ => ret (Continue tt)).
Proof.
  destruct entry as [|b|q i|s|l|fs]; try reflexivity.
  unfold check_entry. change (negb (py_isinstance (JObj fs) [CDict])) with false. cbv iota.
  cbn [for_list_m json_contains json_getitem forallb bind ret]. unfold jhas.
  destruct (jget "type" fs) as [ty|]; cbn [negb andb bind ret raise fmt_check]; [|reflexivity].
  destruct (jget "name" fs) as [nm|]; cbn [negb andb bind ret raise fmt_check]; [|reflexivity].
  destruct (jget "data" fs) as [d|]; cbn [negb andb bind ret raise fmt_check]; [|reflexivity].
  destruct nm as [|b|q [|]|s|l|o]; reflexivity.
Qed.

(* ------------------------------------------------------------------ *)
(** * the loading loop *)
Lemma load_loop_eq (body : list loaded * list json -> json -> M (ctl (list loaded * list json))) entries cs ns :
  (forall cs ns e, In e entries ->
     body (cs, ns) e = bind (load_entry s2f pstr e)
                            (fun r => ret (Continue ((cs ++ [snd r])%list, (ns ++ [JStr (fst r)])%list)))) ->
  for_list_m entries (cs, ns) body
  = bind (mapM (load_entry s2f pstr) entries)
         (fun rs => ret ((cs ++ map snd rs)%list, (ns ++ map (fun r => JStr (fst r)) rs)%list)).
Proof.
  revert cs ns. induction entries as [|e r IH]; intros cs ns Hb.
  - cbn. rewrite !app_nil_r. reflexivity.
  - cbn [for_list_m mapM]. rewrite Hb by (left; reflexivity).
    destruct (load_entry s2f pstr e) as [x|err]; [|reflexivity]. cbn [bind ret].
    rewrite IH by (intros cs' ns' e' He'; apply Hb; right; exact He').
    destruct (mapM (load_entry s2f pstr) r) as [rs|err]; [|reflexivity]. cbn [bind ret map].
    rewrite <- !app_assoc. reflexivity.
Qed.

Lemma pair_up_rs (rs : list (string * loaded)) :
  pair_up (map snd rs, map (fun r => JStr (fst r)) rs) = rs.
Proof.
  unfold pair_up. cbn [fst snd]. induction rs as [|[n c] r IH]; [reflexivity|].
  cbn [map combine fst snd str_of]. rewrite IH. reflexivity.
Qed.

Lemma simplify_default d :
  py_truth (kwarg_default "simplify" (JBool true) d)
  = match d with
    | JObj dfs => match jget "simplify" dfs with Some v => py_truth v | None => true end
    | _ => true
    end.
Proof. destruct d as [| | | | |dfs]; try reflexivity. cbn [kwarg_default]. destruct (jget "simplify" dfs); reflexivity. Qed.

Theorem read_file_eq (init : list pterm -> list pterm -> list var -> list var -> bool -> M pcontract) file_data :
  (forall a g i o, init a g i o true = pc_init a g i o) ->
  json_wf file_data ->
  mmap pair_up (fileio_read_contracts_from_file s2f pstr init strings_boundary compound_boundary file_data)
  = read_file s2f pstr file_data.
Proof.
  intros Hinit Hwf. destruct file_data as [|b|q i|s|entries|fs]; try reflexivity.
  unfold fileio_read_contracts_from_file, read_file.
  change (negb (py_isinstance (JList entries) [CList])) with false. cbv iota.
  cbn [json_iter py_iter bind ret].
  rewrite (loop_forM check_entry) by (intros u e _; apply check_body_eq).
  destruct (forM check_entry entries) as [[]|err] eqn:Echk; [|reflexivity]. cbn [bind ret]. cbv zeta.
  rewrite (load_loop_eq _ entries [] []).
  - rewrite jbind_assoc, mmap_bind.
    destruct (mapM (load_entry s2f pstr) entries) as [rs|err]; [|reflexivity].
    cbn [bind ret mmap app]. rewrite pair_up_rs. reflexivity.
  - intros cs ns e He. cbv beta iota.
    apply forM_ok in Echk. rewrite Forall_forall in Echk. specialize (Echk e He).
    apply check_entry_ok in Echk. destruct Echk as [efs [nm [ty [d [-> [Hn [Ht Hd]]]]]]].
    assert (Hwd : json_wf d).
    { apply json_wf_list in Hwf. rewrite Forall_forall in Hwf. exact (jget_wf _ _ _ (Hwf _ He) Hd). }
    unfold load_entry. cbn [json_getitem]. rewrite Ht, Hn, Hd. cbn [bind ret str_of].
    unfold load_typed, T_MACHINE, T_STRINGS, T_COMPOUND.
    destruct ty as [|b|q i|t|l|o]; try reflexivity. cbn [json_eq_str].
    destruct (String.eqb t "PolyhedralIoContract_machine").
    { rewrite validate_contract_dict_eq.
      destruct (validate_contract_dict d true) as [[]|err]; [|reflexivity]. cbn [bind ret].
      rewrite (from_dict_eq s2f pstr init d true Hinit Hwd).
      destruct (from_dict s2f pstr d) as [c|err]; reflexivity. }
    destruct (String.eqb t "PolyhedralIoContract").
    { rewrite validate_contract_dict_eq.
      destruct (validate_contract_dict d false) as [[]|err]; [|reflexivity]. cbn [bind ret].
      unfold call_kwargs, contract_keywords.
      destruct (bind_kwargs _ _ d) as [[]|err]; [|reflexivity].
      unfold strings_boundary, kwarg. cbn [bind ret fst snd]. rewrite simplify_default. reflexivity. }
    destruct (String.eqb t "PolyhedralIoContractCompound"); [|reflexivity].
    unfold call_kwargs, contract_keywords.
    destruct (bind_kwargs _ _ d) as [[]|err]; reflexivity.
Qed.

End File.

(* ------------------------------------------------------------------ *)
(** * write_contracts_to_file *)
Section Write.
Context (to_str_list : list pterm -> list string) {K : Type} (compound_to_dict : K -> json).
Notation write := (@fileio_write_contracts_to_file to_str_list K compound_to_dict).

Definition distinct_vars_c (c : pcontract) : Prop := Forall distinct_vars (pa c) /\ Forall distinct_vars (pg c).

Lemma list_getitem_app {A} (pre : list A) x r : list_getitem (pre ++ x :: r) (List.length pre) = ret x.
Proof.
  unfold list_getitem. rewrite nth_error_app2 by lia. rewrite Nat.sub_diag. reflexivity.
Qed.

(* the loop over enumerate(contracts), all of them PolyhedralIoContract objects *)
Lemma write_loop_eq (F : string -> pcontract -> list (string * json)) names
      (body : list (list (string * json)) -> nat * any_contract K -> M (ctl (list (list (string * json))))) cs pre data :
  (forall data i c, body data (i, APoly c)
                    = bind (list_getitem names i) (fun nm => ret (Continue (data ++ [F nm c])%list))) ->
  names = (pre ++ map fst cs)%list ->
  for_list_m (enumerate_from (List.length pre) (map (fun p : string * pcontract => APoly (snd p)) cs)) data body
  = ret (data ++ map (fun p => F (fst p) (snd p)) cs)%list.
Proof.
  intros Hb. revert pre data. induction cs as [|[n c] r IH]; intros pre data Hn.
  - cbn. rewrite app_nil_r. reflexivity.
  - cbn [map enumerate_from for_list_m fst snd]. rewrite Hb. subst names. cbn [map fst].
    rewrite list_getitem_app. cbn [bind ret].
    replace (S (List.length pre)) with (List.length (pre ++ [n])%list) by (rewrite app_length; cbn; lia).
    rewrite IH by (rewrite <- app_assoc; reflexivity).
    rewrite <- app_assoc. reflexivity.
Qed.

Lemma len_map2 {A B C} (f : A -> B) (g : A -> C) (l : list A) : Nat.eqb (len (map f l)) (len (map g l)) = true.
Proof. unfold len. rewrite !map_length. apply Nat.eqb_refl. Qed.

(* machine representation: the entries of model/Json.v's write_file_machine *)
Theorem write_machine_eq (cs : list (string * pcontract)) :
  Forall (fun p => distinct_vars_c (snd p)) cs ->
  write (map (fun p => APoly (snd p)) cs) (map fst cs) true = ret (write_file_machine cs).
Proof.
  intros Hd. unfold fileio_write_contracts_to_file, write_file_machine. cbv zeta.
  rewrite len_map2. cbn [py_assert bind ret]. unfold enumerate.
  rewrite (write_loop_eq (fun nm c => [("name", JStr nm); ("type", JStr T_MACHINE);
                                        ("data", PolyhedralIoContract_to_machine_dict c)])
                         (map fst cs) _ cs [] []); [|intros data i c; cbv beta iota zeta; destruct (list_getitem _ i); reflexivity|reflexivity].
  cbn [bind ret app]. unfold jlist, jdict. rewrite map_map. f_equal. f_equal.
  apply map_ext_in. intros [n c] Hin. cbn [fst snd]. unfold write_entry_machine.
  rewrite Forall_forall in Hd. destruct (Hd _ Hin) as [Ha Hg]. rewrite (to_machine_dict_eq c Ha Hg). reflexivity.
Qed.

(* string representation: model/Json.v's write_entry_strings per entry; no precondition *)
Theorem write_strings_eq (cs : list (string * pcontract)) :
  write (map (fun p => APoly (snd p)) cs) (map fst cs) false
  = ret (JList (map (fun p => write_entry_strings to_str_list (fst p) (snd p)) cs)).
Proof.
  unfold fileio_write_contracts_to_file. cbv zeta.
  rewrite len_map2. cbn [py_assert bind ret]. unfold enumerate.
  rewrite (write_loop_eq (fun nm c => [("name", JStr nm); ("type", JStr T_STRINGS);
                                        ("data", PolyhedralIoContract_to_dict to_str_list c)])
                         (map fst cs) _ cs [] []); [|intros data i c; cbv beta iota zeta; destruct (list_getitem _ i); reflexivity|reflexivity].
  cbn [bind ret app]. unfold jlist, jdict. rewrite map_map. f_equal. f_equal.
  apply map_ext. intros [n c]. cbn [fst snd]. unfold write_entry_strings. rewrite to_dict_eq. reflexivity.
Qed.

(* the error paths (no hand model: characterisation) *)
Theorem write_length_mismatch contracts names machine :
  List.length contracts <> List.length names -> write contracts names machine = raise (Escape "AssertionError").
Proof.
  intros Hl. unfold fileio_write_contracts_to_file, len. cbv zeta.
  apply Nat.eqb_neq in Hl. rewrite Hl. reflexivity.
Qed.
Example write_unsupported_class name machine : write [AOther] [name] machine = raise ValueErr.
Proof. reflexivity. Qed.
Example write_compound_machine k name : write [ACompound k] [name] true = raise ValueErr.
Proof. reflexivity. Qed.
Example write_compound_strings k name :
  write [ACompound k] [name] false
  = ret (JList [JObj [("name", JStr name); ("type", JStr "PolyhedralIoContractCompound"); ("data", compound_to_dict k)]]).
Proof. reflexivity. Qed.

End Write.
