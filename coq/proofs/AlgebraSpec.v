(* AlgebraSpec.v — what a constraint domain must provide for the algebra layer
   (pacti/iocontract/iocontract.py, translated into gen/AlgebraGen.v) to be
   sound.  This is the *documented contract* of the abstract TermList methods
   (docstrings of elim_vars_by_refining / elim_vars_by_relaxing / simplify /
   refines), stated for an arbitrary type of behaviours, an arbitrary meaning
   of a single term and an arbitrary invariant `wf` on terms (the contracts are
   only required on well-formed arguments, and must preserve well-formedness).  Property C05 quantifies over every Domain and every
   DomainSpec; C01/C02/C08 instantiate it with polyhedra.

   Only definitions here (no proofs), so that the statements can be read on
   their own. *)
From Coq Require Import List String Bool Arith.
Import ListNotations.
Require Import Py ListsGen AlgebraGen.

Section Spec.
Context `{D : Domain}.
Variable B : Type.                         (* behaviours: valuations, traces, ... *)
Variable dt : term -> B -> Prop.           (* meaning of one constraint *)

(* a TermList means the conjunction of its terms *)
Definition den (l : list term) (b : B) : Prop := Forall (fun t => dt t b) l.

(* an invariant on terms (e.g. "the dict of coefficients has unique keys"): the
   primitives need to meet their contracts only on well-formed arguments, and
   must preserve well-formedness; wf := fun _ => True recovers the plain spec *)
Variable wf : term -> Prop.
Definition wfs (l : list term) : Prop := Forall wf l.
Definition wfc (c : contract) : Prop := wfs (c_a c) /\ wfs (c_g c).

(* admissible variable names (e.g. fun v => v <> "_" when the domain reserves a
   name for internal use).  The elimination primitives need to meet their
   contracts only for duplicate-free lists of admissible variables: the algebra
   only ever passes lists computed from the operands' interface lists *)
Variable pv : var -> Prop.
Definition vs_ok (vs : list var) : Prop := NoDup vs /\ Forall pv vs.
Definition iface_ok (c : contract) : Prop :=
  NoDup (c_inputvars c) /\ NoDup (c_outputvars c) /\
  Forall pv (c_inputvars c) /\ Forall pv (c_outputvars c).

(* the documented contracts of the primitives; each primitive may fail (inr _)
   and then promises nothing *)
Record DomainSpec : Prop := {
  (* Term.__eq__ only identifies (well-formed) constraints with the same meaning *)
  eqb_sound : forall t1 t2, wf t1 -> wf t2 -> term_eqb t1 t2 = true -> forall b, dt t1 b <-> dt t2 b;
  (* elim_vars_by_refining: Gamma: x / Gamma: s *)
  refine_ok : forall s ctx vs sp od r st, wfs s -> wfs ctx -> vs_ok vs ->
      p_elim_refine s ctx vs sp od = inl (r, st) ->
      wfs r /\ forall b, den ctx b -> den r b -> den s b;
  (* elim_vars_by_relaxing: Gamma: s / Gamma: x *)
  relax_ok : forall s ctx vs sp od r st, wfs s -> wfs ctx -> vs_ok vs ->
      p_elim_relax s ctx vs sp od = inl (r, st) ->
      wfs r /\ forall b, den ctx b -> den s b -> den r b;
  (* simplify: an equivalence wherever the context holds (no context = True) *)
  simpl_ok : forall s ctx r, wfs s -> wfs (opt_list ctx) ->
      p_simplify s ctx = inl r ->
      wfs r /\ forall b, den (opt_list ctx) b -> (den r b <-> den s b);
  (* renaming a variable to an admissible name preserves the invariant *)
  rename_wf : forall t s u, pv u -> wf t -> wf (term_rename t s u)
}.

(* refines: True only for containment.  Kept apart from DomainSpec: a domain whose
   refinement test is only sound up to a numerical tolerance does not have it, and
   only the operations that call p_refines (refines, contains_*, and one test in
   the quotient) depend on it *)
Definition RefinesSpec : Prop :=
  forall x y, wfs x -> wfs y -> p_refines x y = inl true -> forall b, den x b -> den y b.

(* ---- optional: what C15 ("composition keeps the guarantees it can express")
   needs on top of DomainSpec.  Term.__eq__ is reflexive on well-formed terms and
   only identifies terms over the same variables; relaxation really eliminates,
   and does nothing (semantically, in context) when there is nothing to eliminate *)
Definition mentions_none (vs : list var) (s : list term) : Prop :=
  forall t, In t s -> forall v, In v (term_vars t) -> ~ In v vs.
Record KeepSpec : Prop := {
  teqb_refl : forall t, wf t -> term_eqb t t = true;
  teqb_vars : forall t u, wf t -> wf u -> term_eqb t u = true ->
      forall v, In v (term_vars t) <-> In v (term_vars u);
  (* the result mentions no eliminated variable *)
  relax_elim : forall s ctx vs sp od r st, wfs s -> wfs ctx -> vs_ok vs ->
      p_elim_relax s ctx vs sp od = inl (r, st) -> mentions_none vs r;
  (* nothing to eliminate: an equivalence in context *)
  relax_noelim : forall s ctx vs sp od r st, wfs s -> wfs ctx -> vs_ok vs ->
      mentions_none vs s ->
      p_elim_relax s ctx vs sp od = inl (r, st) ->
      forall b, den ctx b -> (den r b <-> den s b)
}.

(* a component honours its contract at b: it delivers its guarantees whenever
   its assumptions hold *)
Definition honours (c : contract) (b : B) : Prop := den (c_a c) b -> den (c_g c) b.

(* ---- the obligations of C01, C02, C08 at the algebra level ---- *)

(* C01: the result abstracts the exact composition *)
Definition compose_obligation (c1 c2 c : contract) : Prop :=
  forall b, den (c_a c) b -> honours c1 b -> honours c2 b ->
            den (c_a c1) b /\ den (c_a c2) b /\ den (c_g c) b.

(* C02: any implementation of the divisor c1 together with any implementation
   of the quotient q meets the dividend c *)
Definition quotient_obligation (c c1 q : contract) : Prop :=
  forall b, den (c_a c) b -> honours c1 b -> honours q b ->
            den (c_a c1) b /\ den (c_a q) b /\ den (c_g c) b.

(* C08: merging is the exact conjunction *)
Definition merge_obligation (c1 c2 m : contract) : Prop :=
  (forall b, den (c_a m) b <-> den (c_a c1) b /\ den (c_a c2) b) /\
  (forall b, den (c_a m) b -> (den (c_g m) b <-> den (c_g c1) b /\ den (c_g c2) b)).

(* C15 (second sentence): with no connection, composition is exact *)
Definition exact_obligation (c1 c2 c : contract) : Prop :=
  (forall b, den (c_a c) b <-> den (c_a c1) b /\ den (c_a c2) b) /\
  (forall b, den (c_a c) b -> (den (c_g c) b <-> den (c_g c1) b /\ den (c_g c2) b)).

End Spec.

(* errors the algebra layer itself may produce: IncompatibleArgs, or whatever a
   primitive raised; never an Escape of its own *)
Definition primitive_errors `{D : Domain} (e : err) : Prop :=
  (exists s ctx vs sp od, p_elim_refine s ctx vs sp od = inr e) \/
  (exists s ctx vs sp od, p_elim_relax s ctx vs sp od = inr e) \/
  (exists s ctx, p_simplify s ctx = inr e) \/
  (exists x y, p_refines x y = inr e).
