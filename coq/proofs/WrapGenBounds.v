(* WrapGenBounds.v — T1 tie: PolyhedralIoContract.get_variable_bounds (see WrapGenFacts.v). *)
From Coq Require Import List String Bool Arith QArith Lia.
Import ListNotations.
Require Import Py ListsGen ConstGen AlgebraGen PyDict PyLoop Sem Term Poly Tactics PolyDomain WrapGen WrapGenBase.
Open Scope py_scope.
Section Wrap.
Variable O : oracle.
Local Notation D := (poly_domain O).


(* get_variable_bounds over an abstract optimize *)
Theorem wrap_get_variable_bounds_eq {num : Type} (optimize : pcontract O -> string -> bool -> M (option num))
        (c : pcontract O) (v : string) :
  @PolyhedralIoContract_get_variable_bounds D num optimize c v
  = bind (optimize c v true) (fun maximum => bind (optimize c v false) (fun minimum => ret (minimum, maximum))).
Proof. reflexivity. Qed.

End Wrap.
