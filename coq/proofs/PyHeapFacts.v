(* proofs/PyHeapFacts.v — soundness of the ownership checker of base/PyHeap.v for its interpreter.

   Main results (Section Sound, for every program P with check_prog P = true):
     frame_pure      a function with mutates_self = false leaves every pre-existing cell as it was;
     frame_self      a function with mutates_self = true leaves every pre-existing cell except its receiver as it was;
     fresh_returned  a function that claims an Atom/Fresh/Deep/AnyFresh result returns an immutable value or a reference
                     that did not exist before the call;
     pure_calls_frame  any sequence of pure calls leaves every cell of the initial heap as it was.
   Everything is closed under the global context (no axioms). *)
Require Import String List ZArith Bool Arith Lia.
Require Import PyHeap.
Import ListNotations.
Open Scope string_scope.
Open Scope list_scope.

(* ------------------------------------------------------------------ statuses *)
Lemma sleb_refl : forall a, sleb a a = true.
Proof. destruct a; reflexivity. Qed.
Lemma sleb_trans : forall a b c, sleb a b = true -> sleb b c = true -> sleb a c = true.
Proof. destruct a, b, c; simpl; intros; congruence. Qed.
Lemma sleb_join_l : forall a b, sleb a (sjoin a b) = true.
Proof. destruct a, b; reflexivity. Qed.
Lemma sleb_join_r : forall a b, sleb b (sjoin a b) = true.
Proof. destruct a, b; reflexivity. Qed.
Lemma sleb_other : forall a, sleb a Other = true.
Proof. destruct a; reflexivity. Qed.

(* ------------------------------------------------------------------ status environments *)
Lemma sl_cons : forall st x t y, sl ((x, t) :: st) y = if String.eqb y x then t else sl st y.
Proof. intros. unfold sl. simpl. destruct (String.eqb y x); reflexivity. Qed.

Lemma lookup_notin : forall A (l : list (string * A)) x, ~ In x (map fst l) -> lookup l x = None.
Proof.
  induction l as [|[y a] l IH]; simpl; intros x H; auto.
  destruct (String.eqb_spec x y).
  - subst. exfalso. apply H. auto.
  - apply IH. intro. apply H. auto.
Qed.

Lemma lookup_map_key : forall (g : string -> status) l x,
  lookup (map (fun y => (y, g y)) l) x = if in_dec string_dec x l then Some (g x) else None.
Proof.
  induction l as [|y l IH]; intros x; simpl; auto.
  destruct (String.eqb_spec x y).
  - subst. destruct (string_dec y y); [reflexivity|congruence].
  - rewrite IH. destruct (string_dec y x); [congruence|].
    destruct (in_dec string_dec x l); reflexivity.
Qed.

Lemma sl_join : forall a b x, sl (senv_join a b) x = sjoin (sl a x) (sl b x).
Proof.
  intros. unfold sl at 1. unfold senv_join. rewrite lookup_map_key.
  destruct (in_dec string_dec x (nodup string_dec (keys a ++ keys b))) as [i|n]; auto.
  rewrite nodup_In in n.
  assert (Ha : ~ In x (keys a)) by (intro; apply n; apply in_or_app; auto).
  assert (Hb : ~ In x (keys b)) by (intro; apply n; apply in_or_app; auto).
  unfold sl. rewrite (lookup_notin _ a x Ha), (lookup_notin _ b x Hb). reflexivity.
Qed.

Definition senv_le (a b : senv) : Prop := forall x, sleb (sl a x) (sl b x) = true.

Lemma senv_le_refl : forall a, senv_le a a.
Proof. intros a x. apply sleb_refl. Qed.
Lemma senv_le_trans : forall a b c, senv_le a b -> senv_le b c -> senv_le a c.
Proof. intros a b c H1 H2 x. eapply sleb_trans; eauto. Qed.
Lemma senv_le_join_l : forall a b, senv_le a (senv_join a b).
Proof. intros a b x. rewrite sl_join. apply sleb_join_l. Qed.
Lemma senv_le_join_r : forall a b, senv_le b (senv_join a b).
Proof. intros a b x. rewrite sl_join. apply sleb_join_r. Qed.

Lemma senv_leb_spec : forall a b, senv_leb a b = true -> senv_le a b.
Proof.
  intros a b H x. unfold senv_leb in H. rewrite forallb_forall in H.
  destruct (in_dec string_dec x (keys a ++ keys b)) as [i|n]; auto.
  assert (Ha : ~ In x (keys a)) by (intro; apply n; apply in_or_app; auto).
  assert (Hb : ~ In x (keys b)) by (intro; apply n; apply in_or_app; auto).
  unfold sl. rewrite (lookup_notin _ a x Ha), (lookup_notin _ b x Hb). reflexivity.
Qed.

Lemma loop_fix_spec : forall chk n st stS, loop_fix chk n st = Some stS ->
  senv_le st stS /\
  exists r, chk stS = Some r /\ match r with None => True | Some st1 => senv_leb st1 stS = true end.
Proof.
  induction n as [|n IH]; simpl; intros st stS H; [discriminate|].
  destruct (chk st) as [[st1|]|] eqn:E; try discriminate.
  - destruct (senv_leb st1 st) eqn:L.
    + inversion H; subst. split; [apply senv_le_refl|]. exists (Some st1). split; auto.
    + apply IH in H. destruct H as [H1 H2]. split; auto.
      eapply senv_le_trans; [apply senv_le_join_l|exact H1].
  - inversion H; subst. split; [apply senv_le_refl|]. exists None. auto.
Qed.

Lemma loop_fix_stable : forall chk stS rb n, chk stS = Some rb ->
  match rb with None => True | Some st1 => senv_leb st1 stS = true end -> loop_fix chk (S n) stS = Some stS.
Proof. intros chk stS rb n H H0. simpl. rewrite H. destruct rb; auto. rewrite H0. reflexivity. Qed.

Arguments loop_fix : simpl never.

(* ------------------------------------------------------------------ heaps *)
Lemma length_set_nth : forall h r c, length (set_nth h r c) = length h.
Proof. induction h; destruct r; simpl; intros; auto. Qed.

Lemma nth_set_nth_same : forall h r c, r < length h -> nth_error (set_nth h r c) r = Some c.
Proof. induction h; destruct r; simpl; intros; try lia; auto. apply IHh. lia. Qed.

Lemma nth_set_nth_other : forall h r c r', r' <> r -> nth_error (set_nth h r c) r' = nth_error h r'.
Proof.
  induction h; destruct r; simpl; intros c r' H; auto.
  - destruct r'; [congruence|reflexivity].
  - destruct r'; simpl; auto.
Qed.

Lemma length_upd : forall h r g, length (upd h r g) = length h.
Proof. intros. unfold upd. destruct (nth_error h r); auto. apply length_set_nth. Qed.

Lemma nth_upd_other : forall h r g r', r' <> r -> nth_error (upd h r g) r' = nth_error h r'.
Proof. intros. unfold upd. destruct (nth_error h r); auto. apply nth_set_nth_other; auto. Qed.

Lemma nth_upd_same : forall h r g, nth_error (upd h r g) r = option_map g (nth_error h r).
Proof.
  intros. unfold upd. destruct (nth_error h r) eqn:E; simpl.
  - apply nth_set_nth_same. apply nth_error_Some. congruence.
  - exact E.
Qed.

Lemma In_firstn : forall A n (l : list A) v, In v (firstn n l) -> In v l.
Proof. induction n; destruct l; simpl; intros v H; try contradiction; auto. destruct H; auto. Qed.

Lemma In_snd_combine : forall A B (l : list A) (vs : list B) v, In v (map snd (combine l vs)) -> In v vs.
Proof. induction l; destruct vs; simpl; intros; auto; try contradiction. destruct H; [auto|right; eapply IHl; eauto]. Qed.

(* ------------------------------------------------------------------ the meaning of statuses *)
Definition tag (h : heap) (r : ref) : option bool := option_map deep (nth_error h r).
Definition afresh (n0 : nat) (v : val) : Prop := match v with VAtom _ => True | VRef r => n0 <= r end.

Definition conc (n0 : nat) (self : option ref) (h : heap) (s : status) (v : val) : Prop :=
  match v with
  | VAtom _ => True
  | VRef r =>
    match s with
    | Atom => False
    | Fresh => n0 <= r /\ tag h r = Some false
    | Deep => n0 <= r /\ tag h r = Some true
    | AnyFresh => n0 <= r
    | Self => (n0 <= r /\ tag h r = Some false) \/ self = Some r
    | Other => True
    end
  end.

Definition ovals (c : obj) : list val := map snd (fields c) ++ elems c.
(* cells of this activation tagged deep hold only atoms and references of this activation *)
Definition hinv (n0 : nat) (h : heap) : Prop :=
  forall r c, n0 <= r -> nth_error h r = Some c -> deep c = true -> forall v, In v (ovals c) -> afresh n0 v.
Definition tags_stable (h h' : heap) : Prop := forall r b, tag h r = Some b -> tag h' r = Some b.
Definition ext (n0 : nat) (self : option ref) (h h' : heap) : Prop :=
  length h <= length h' /\
  (forall r, r < n0 -> self <> Some r -> nth_error h' r = nth_error h r) /\
  tags_stable h h'.
Definition ok (n0 : nat) (self : option ref) (st : senv) (rho : env) (h : heap) : Prop :=
  forall x, match lookup rho x with Some v => conc n0 self h (sl st x) v | None => sl st x = Other end.
Definition self_lt (self : option ref) (n0 : nat) : Prop := forall r, self = Some r -> r < n0.

Lemma conc_other : forall n0 self h v, conc n0 self h Other v.
Proof. destruct v; simpl; auto. Qed.
Lemma conc_atom : forall n0 self h s z, conc n0 self h s (VAtom z).
Proof. simpl; auto. Qed.

Lemma conc_mono : forall n0 self h a b v, sleb a b = true -> conc n0 self h a v -> conc n0 self h b v.
Proof.
  intros n0 self h a b [z|r] L C; simpl in *; auto.
  destruct a, b; simpl in *; try discriminate; try tauto; auto.
Qed.

Lemma conc_stable : forall n0 self h h' s v, tags_stable h h' -> conc n0 self h s v -> conc n0 self h' s v.
Proof.
  intros n0 self h h' s [z|r] T C; simpl in *; auto.
  destruct s; auto.
  - destruct C; split; auto.
  - destruct C; split; auto.
  - destruct C as [[? ?]|?]; [left; split; auto|right; auto].
Qed.

Lemma conc_afresh : forall n0 self h s v, sleb s AnyFresh = true -> conc n0 self h s v -> afresh n0 v.
Proof.
  intros n0 self h s [z|r] L C; simpl in *; auto.
  destruct s; simpl in *; try discriminate; try tauto.
Qed.

Lemma ok_stable : forall n0 self st rho h h', tags_stable h h' -> ok n0 self st rho h -> ok n0 self st rho h'.
Proof.
  intros n0 self st rho h h' T O x. specialize (O x). destruct (lookup rho x); auto.
  eapply conc_stable; eauto.
Qed.

Lemma ok_mono : forall n0 self st st' rho h, senv_le st st' -> ok n0 self st rho h -> ok n0 self st' rho h.
Proof.
  intros n0 self st st' rho h L O x. specialize (O x). specialize (L x). destruct (lookup rho x).
  - eapply conc_mono; eauto.
  - rewrite O in L. destruct (sl st' x); simpl in L; congruence.
Qed.

Lemma ok_assign : forall n0 self st rho h x t v,
  ok n0 self st rho h -> conc n0 self h t v -> ok n0 self ((x, t) :: st) ((x, v) :: rho) h.
Proof.
  intros n0 self st rho h x t v O C y. rewrite sl_cons. simpl.
  destruct (String.eqb y x); auto. apply O.
Qed.

Lemma tags_stable_refl : forall h, tags_stable h h.
Proof. intros h r b H; exact H. Qed.
Lemma ext_refl : forall n0 self h, ext n0 self h h.
Proof. intros. split; [lia|]. split; auto. apply tags_stable_refl. Qed.
Lemma ext_trans : forall n0 self h1 h2 h3, ext n0 self h1 h2 -> ext n0 self h2 h3 -> ext n0 self h1 h3.
Proof.
  intros n0 self h1 h2 h3 [L1 [F1 T1]] [L2 [F2 T2]]. split; [lia|]. split.
  - intros r Hr Hs. rewrite F2, F1; auto.
  - intros r b H. apply T2, T1, H.
Qed.

(* ------------------------------------------------------------------ reading variables *)
Lemma getv_conc : forall n0 self st rho h o x o' v,
  ok n0 self st rho h -> getv o rho x = (o', v) -> conc n0 self h (sl st x) v.
Proof.
  intros n0 self st rho h o x o' v O G. unfold getv in G. specialize (O x).
  destruct (lookup rho x).
  - inversion G; subst; auto.
  - rewrite O. apply conc_other.
Qed.

Lemma getvs_in : forall n0 self st rho h xs o o' vs,
  ok n0 self st rho h -> getvs o rho xs = (o', vs) ->
  forall v, In v vs -> exists x, In x xs /\ conc n0 self h (sl st x) v.
Proof.
  induction xs as [|a xs IH]; simpl; intros o o' vs O G v I.
  - inversion G; subst. contradiction.
  - destruct (getv o rho a) as [o1 v1] eqn:E1. destruct (getvs o1 rho xs) as [o2 vs2] eqn:E2.
    inversion G; subst. destruct I as [I|I].
    + subst. exists a. split; auto. eapply getv_conc; eauto.
    + destruct (IH _ _ _ O E2 _ I) as [x [H1 H2]]. exists x. auto.
Qed.

Lemma getvs_hd : forall n0 self st rho h a xs o o' vs,
  ok n0 self st rho h -> getvs o rho (a :: xs) = (o', vs) ->
  exists v vs', vs = v :: vs' /\ conc n0 self h (sl st a) v.
Proof.
  simpl; intros n0 self st rho h a xs o o' vs O G.
  destruct (getv o rho a) as [o1 v1] eqn:E1. destruct (getvs o1 rho xs) as [o2 vs2] eqn:E2.
  inversion G; subst. exists v1, vs2. split; auto. eapply getv_conc; eauto.
Qed.

Lemma lookup_In_snd : forall (l : list (string * val)) f w, lookup l f = Some w -> In w (map snd l).
Proof.
  induction l as [|[y a] l IH]; simpl; intros f w H; [discriminate|].
  destruct (String.eqb f y); [inversion H; auto|right; eauto].
Qed.

Lemma lookup_In : forall A (l : list (string * A)) f w, lookup l f = Some w -> In (f, w) l.
Proof.
  induction l as [|[y a] l IH]; simpl; intros f w H; [discriminate|].
  destruct (String.eqb_spec f y); [inversion H; subst; auto|right; eauto].
Qed.

(* ------------------------------------------------------------------ writes and allocation *)
Lemma upd_sound : forall n0 self h r g sx news,
  (forall c, deep (g c) = deep c) ->
  (forall c v, In v (ovals (g c)) -> In v (ovals c) \/ In v news) ->
  conc n0 self h sx (VRef r) -> sx <> Other ->
  ((sx = Deep \/ sx = AnyFresh) -> forall v, In v news -> afresh n0 v) ->
  hinv n0 h -> self_lt self n0 ->
  ext n0 self h (upd h r g) /\ hinv n0 (upd h r g).
Proof.
  intros n0 self h r g sx news Gd Gv C NO NW HI SL.
  assert (Hr : forall r', r' < n0 -> self <> Some r' -> r' <> r).
  { intros r' L S E. subst r'. simpl in C.
    destruct sx; try tauto; try lia. destruct C as [[? ?]|?]; [lia|contradiction]. }
  split.
  - split; [rewrite length_upd; lia|]. split.
    + intros r' L S. apply nth_upd_other. auto.
    + intros r' b T. unfold tag in *. destruct (Nat.eq_dec r' r) as [e|ne].
      * subst. rewrite nth_upd_same. destruct (nth_error h r); simpl in *; [|discriminate].
        rewrite Gd. auto.
      * rewrite nth_upd_other; auto.
  - intros r' c L N D v I. destruct (Nat.eq_dec r' r) as [e|ne].
    + subst r'. rewrite nth_upd_same in N.
      destruct (nth_error h r) as [c0|] eqn:E; simpl in N; [|discriminate].
      inversion N; subst c. rewrite Gd in D.
      destruct (Gv _ _ I) as [I0|I0].
      * eapply HI; eauto.
      * apply NW; auto.
        assert (T : tag h r = Some true) by (unfold tag; rewrite E; simpl; congruence).
        simpl in C. destruct sx; try tauto; auto.
        -- destruct C as [_ C]. congruence.
        -- destruct C as [[_ C]|C]; [congruence|]. apply SL in C. lia.
    + rewrite nth_upd_other in N; auto. eapply HI; eauto.
Qed.

Lemma alloc_sound : forall n0 self h c,
  n0 <= length h -> hinv n0 h ->
  (deep c = true -> forall v, In v (ovals c) -> afresh n0 v) ->
  ext n0 self h (h ++ [c]) /\ hinv n0 (h ++ [c]) /\ tag (h ++ [c]) (length h) = Some (deep c).
Proof.
  intros n0 self h c L HI HC. split; [|split].
  - split; [rewrite app_length; simpl; lia|]. split.
    + intros r Hr _. apply nth_error_app1. lia.
    + intros r b T. unfold tag in *. destruct (nth_error h r) eqn:E; simpl in T; [|discriminate].
      rewrite nth_error_app1; [rewrite E; auto|]. apply nth_error_Some. congruence.
  - intros r c' Hr N D v I. destruct (Nat.lt_ge_cases r (length h)) as [lt|ge].
    + rewrite nth_error_app1 in N; auto. eapply HI; eauto.
    + rewrite nth_error_app2 in N; auto.
      destruct (r - length h) as [|k] eqn:K; simpl in N.
      * inversion N; subst c'. auto.
      * destruct k; discriminate.
  - unfold tag. rewrite nth_error_app2; [|lia]. rewrite Nat.sub_diag. reflexivity.
Qed.

Lemma wr_field_vals : forall f vy c v, In v (ovals (wr_field f vy c)) -> In v (ovals c) \/ In v [vy].
Proof.
  intros f vy c v I. unfold ovals, wr_field in *. simpl in *. destruct I as [I|I]; [right; auto|left; auto].
Qed.

Lemma wr_elems_vals : forall n vs c v, In v (ovals (wr_elems n vs c)) -> In v (ovals c) \/ In v vs.
Proof.
  intros n vs c v I. unfold ovals, wr_elems in *. simpl in *.
  apply in_app_or in I. destruct I as [I|I]; [left; apply in_or_app; auto|].
  apply in_app_or in I. destruct I as [I|I]; [left; apply in_or_app; right; eapply In_firstn; eauto|right; auto].
Qed.

Lemma wr_ok_not_other : forall sx sy, wr_ok sx sy = true -> sx <> Other.
Proof. intros sx sy H E. subst. discriminate. Qed.

Lemma wr_ok_afresh : forall n0 self h sx sy v,
  wr_ok sx sy = true -> sx = Deep \/ sx = AnyFresh -> conc n0 self h sy v -> afresh n0 v.
Proof.
  intros n0 self h sx sy v W [E|E] C; subst; simpl in W; eapply conc_afresh; eauto.
Qed.

Lemma load_field_conc : forall n0 self h sx v f,
  hinv n0 h -> conc n0 self h sx v -> conc n0 self h (load_status sx) (load_field h v f).
Proof.
  intros n0 self h sx [z|r] f HI C; simpl; auto.
  destruct (nth_error h r) as [c|] eqn:E; simpl; auto.
  destruct (lookup (fields c) f) as [w|] eqn:F; simpl; auto.
  destruct sx; simpl in *; try apply conc_other; try tauto.
  destruct C as [L T]. unfold tag in T. rewrite E in T. simpl in T. inversion T as [D].
  assert (A : afresh n0 w).
  { eapply HI; eauto. unfold ovals. apply in_or_app. left. eapply lookup_In_snd; eauto. }
  destruct w; simpl in *; auto.
Qed.

Lemma load_elem_conc : forall n0 self h sx v n,
  hinv n0 h -> conc n0 self h sx v -> conc n0 self h (load_status sx) (load_elem h v n).
Proof.
  intros n0 self h sx [z|r] n HI C; simpl; auto.
  destruct (nth_error h r) as [c|] eqn:E; simpl; auto.
  destruct (nth_in_or_default n (elems c) (VAtom 0)) as [I|D]; [|rewrite D; simpl; auto].
  destruct sx; simpl in *; try apply conc_other; try tauto.
  destruct C as [L T]. unfold tag in T. rewrite E in T. simpl in T. inversion T as [D].
  assert (A : afresh n0 (nth n (elems c) (VAtom 0))).
  { eapply HI; eauto. unfold ovals. apply in_or_app. right. auto. }
  destruct (nth n (elems c) (VAtom 0)); simpl in *; auto.
Qed.

(* ------------------------------------------------------------------ calls *)
Definition selfc_of (fd : fundef) (vs : list val) : option ref :=
  if mutates_self fd then match vs with VRef r :: _ => Some r | _ => None end else None.

Lemma init_ok : forall fd vs h, ok (length h) (selfc_of fd vs) (init_senv fd) (bind (params fd) vs) h.
Proof.
  intros fd vs h x. unfold init_senv, selfc_of.
  destruct (params fd) as [|p ps]; simpl.
  - reflexivity.
  - destruct (mutates_self fd).
    + rewrite sl_cons. destruct (String.eqb x p).
      * destruct vs as [|[z|r] vs']; simpl; auto.
      * destruct (lookup (bind ps (tl vs)) x); [apply conc_other|reflexivity].
    + destruct (String.eqb x p); [apply conc_other|].
      destruct (lookup (bind ps (tl vs)) x); [apply conc_other|reflexivity].
Qed.

Lemma call_lift : forall n0 self h h3 selfc,
  n0 <= length h -> hinv n0 h -> self_lt self n0 ->
  (forall r, selfc = Some r -> conc n0 self h Self (VRef r)) ->
  ext (length h) selfc h h3 -> hinv (length h) h3 ->
  ext n0 self h h3 /\ hinv n0 h3.
Proof.
  intros n0 self h h3 selfc L HI SL SC [EL [EF ET]] HI3. split.
  - split; auto. split; auto.
    intros r Hr Hs. apply EF; [lia|]. intro E. specialize (SC _ E). simpl in SC.
    destruct SC as [[? ?]|?]; [lia|contradiction].
  - intros r c Hr N D v I. destruct (Nat.lt_ge_cases r (length h)) as [lt|ge].
    + assert (NS : selfc <> Some r).
      { intro E. specialize (SC _ E). simpl in SC. destruct SC as [[_ T]|S].
        - apply ET in T. unfold tag in T. rewrite N in T. simpl in T. congruence.
        - apply SL in S. lia. }
      rewrite EF in N; auto. eapply HI; eauto.
    + assert (A : afresh (length h) v) by (eapply HI3; eauto).
      destruct v; simpl in *; auto. lia.
Qed.

Lemma conc_lift : forall n0 self n1 selfc h s v,
  n0 <= n1 -> conc n1 selfc h s v -> conc n0 self h (call_status s) v.
Proof.
  intros n0 self n1 selfc h s [z|r] L C; simpl in *; auto.
  destruct s; simpl in *; auto; try tauto; try lia.
  - destruct C; split; auto; lia.
  - destruct C; split; auto; lia.
Qed.

Lemma ext_tags : forall n0 self h h', ext n0 self h h' -> tags_stable h h'.
Proof. intros n0 self h h' [_ [_ T]]; exact T. Qed.
Lemma ext_len : forall n0 self h h', ext n0 self h h' -> length h <= length h'.
Proof. intros n0 self h h' [L _]; exact L. Qed.

(* ================================================================== soundness *)
Section Sound.
Variable P : prog.
Hypothesis HP : check_prog P = true.

Lemma find_checked : forall c fd, find_fun P c = Some fd -> check_fun P fd = true.
Proof.
  intros c fd H. unfold find_fun in H. apply lookup_In in H.
  unfold check_prog in HP. rewrite forallb_forall in HP. apply (HP (c, fd)). exact H.
Qed.

Lemma check_cands_spec : forall st args cands t, check_cands P st args cands = Some t ->
  forall c, In c cands -> exists fd, find_fun P c = Some fd /\
    (mutates_self fd = true -> arg0_ok st args = true) /\ sleb (call_status (result fd)) t = true.
Proof.
  induction cands as [|c0 cs IH]; simpl; intros t H c I; [contradiction|].
  destruct (find_fun P c0) as [fd0|] eqn:F; [|discriminate].
  destruct (negb (mutates_self fd0) || arg0_ok st args) eqn:G; [|discriminate].
  destruct (check_cands P st args cs) as [t'|] eqn:K; simpl in H; [|discriminate].
  inversion H; subst t. destruct I as [I|I].
  - subst c. exists fd0. split; auto. split; [|apply sleb_join_l].
    intro M. rewrite M in G. simpl in G. exact G.
  - destruct (IH _ eq_refl _ I) as [fd [A [B C]]]. exists fd. split; auto. split; auto.
    eapply sleb_trans; [exact C|apply sleb_join_r].
Qed.

Definition pre (n0 : nat) (self : option ref) (st : senv) (rho : env) (h : heap) : Prop :=
  ok n0 self st rho h /\ hinv n0 h /\ n0 <= length h /\ self_lt self n0.

Definition stmt_sound (fuel : nat) : Prop :=
  forall s res n0 self st r o rho h o' rho' h' out,
  check_stmt P res s st = Some r -> pre n0 self st rho h ->
  exec P fuel o rho h s = Some (o', rho', h', out) ->
  ext n0 self h h' /\ hinv n0 h' /\
  match out with
  | Normal => exists st', r = Some st' /\ ok n0 self st' rho' h'
  | Ret v => conc n0 self h' res v
  end.

Definition expr_sound (fuel : nat) : Prop :=
  forall e n0 self st t o rho h o' h' v,
  check_expr P st e = Some t -> pre n0 self st rho h ->
  eval P fuel o rho h e = Some (o', h', v) ->
  ext n0 self h h' /\ hinv n0 h' /\ conc n0 self h' t v.

Lemma hinv_top : forall h, hinv (length h) h.
Proof.
  intros h r c L N. exfalso. assert (E : nth_error h r = None) by (apply nth_error_None; lia). congruence.
Qed.

(* expressions, given the statement half at the same fuel (a call runs the callee's body) *)
Lemma expr_step : forall f, stmt_sound f -> expr_sound f -> expr_sound (S f).
Proof.
  intros f IHs IHe. unfold expr_sound.
  intros e n0 self st t o rho h o' h' v Hc [Ok [HI [Ln SL]]] He.
  destruct e as [|x|x fl|x|d fs es|cands args|args]; simpl in He; simpl in Hc.
  - (* EAtom *)
    destruct (pick o) as [n o1]. inversion He; subst. inversion Hc; subst.
    split; [apply ext_refl|]. split; auto. simpl; auto.
  - (* EVar *)
    destruct (getv o rho x) as [o1 v1] eqn:G. inversion He; subst. inversion Hc; subst.
    split; [apply ext_refl|]. split; auto. eapply getv_conc; eauto.
  - (* EAttr *)
    destruct (getv o rho x) as [o1 v1] eqn:G. inversion He; subst. inversion Hc; subst.
    split; [apply ext_refl|]. split; auto. apply load_field_conc; auto. eapply getv_conc; eauto.
  - (* EElem *)
    destruct (getv o rho x) as [o1 v1] eqn:G. destruct (pick o1) as [n o2].
    inversion He; subst. inversion Hc; subst.
    split; [apply ext_refl|]. split; auto. apply load_elem_conc; auto. eapply getv_conc; eauto.
  - (* ENew *)
    destruct (getvs o rho (map snd fs)) as [o1 vf] eqn:Gf.
    destruct (getvs o1 rho es) as [o2 ve] eqn:Ge. inversion He; subst.
    destruct d.
    + destruct (forallb (fun y => sleb (sl st y) AnyFresh) (map snd fs ++ es)) eqn:FA; [|discriminate].
      inversion Hc; subst t. rewrite forallb_forall in FA.
      destruct (alloc_sound n0 self h (mkobj true (combine (map fst fs) vf) ve) Ln HI) as [X [HI1 T]].
      { intros _ v I. unfold ovals in I. simpl in I. apply in_app_or in I. destruct I as [I|I].
        - apply In_snd_combine in I. destruct (getvs_in _ _ _ _ _ _ _ _ _ Ok Gf _ I) as [y [Iy Cy]].
          eapply conc_afresh; [|exact Cy]. apply FA. apply in_or_app. auto.
        - destruct (getvs_in _ _ _ _ _ _ _ _ _ Ok Ge _ I) as [y [Iy Cy]].
          eapply conc_afresh; [|exact Cy]. apply FA. apply in_or_app. auto. }
      split; auto. split; auto. simpl. split; auto.
    + inversion Hc; subst t.
      destruct (alloc_sound n0 self h (mkobj false (combine (map fst fs) vf) ve) Ln HI) as [X [HI1 T]].
      { simpl. intros D. discriminate. }
      split; auto. split; auto. simpl. split; auto.
  - (* ECall *)
    assert (Hc' : check_cands P st args cands = Some t) by (destruct cands; [discriminate|exact Hc]).
    destruct (getvs o rho args) as [o1 vs] eqn:Ga. destruct (pick o1) as [n o2].
    destruct (nth_error cands (n mod length cands)) as [c|] eqn:N; [|discriminate].
    apply nth_error_In in N.
    destruct (check_cands_spec _ _ _ _ Hc' _ N) as [fd [F [A0 R]]]. rewrite F in He.
    destruct (exec P f o2 (bind (params fd) vs) h (body fd)) as [[[[o3 rho3] h3] out3]|] eqn:Eb; [|discriminate].
    inversion He; subst.
    pose proof (find_checked _ _ F) as CF. unfold check_fun in CF.
    destruct (check_stmt P (result fd) (body fd) (init_senv fd)) as [r0|] eqn:Cb;
      [|destruct (result fd); discriminate].
    assert (SC : forall r, selfc_of fd vs = Some r -> conc n0 self h Self (VRef r)).
    { unfold selfc_of. intros r E. destruct (mutates_self fd) eqn:M; [|discriminate].
      specialize (A0 eq_refl). destruct vs as [|[z|r'] vs']; try discriminate. inversion E; subst r'.
      destruct args as [|a args'].
      - simpl in Ga. inversion Ga.
      - destruct (getvs_hd _ _ _ _ _ _ _ _ _ _ Ok Ga) as [v0 [vs'' [E2 Cv]]]. inversion E2; subst.
        unfold arg0_ok in A0. destruct (sl st a); try discriminate; simpl in *; tauto. }
    assert (SLc : self_lt (selfc_of fd vs) (length h)).
    { intros r E. specialize (SC _ E). simpl in SC. destruct SC as [[_ T]|S].
      - unfold tag in T. destruct (nth_error h r) eqn:N'; [|discriminate]. apply nth_error_Some. congruence.
      - apply SL in S. lia. }
    destruct (IHs (body fd) (result fd) (length h) (selfc_of fd vs) (init_senv fd) r0 _ _ _ _ _ _ _ Cb
                (conj (init_ok fd vs h) (conj (hinv_top h) (conj (le_n _) SLc))) Eb) as [X3 [HI3 Q3]].
    destruct (call_lift n0 self h h' (selfc_of fd vs) Ln HI SL SC X3 HI3) as [X HI1].
    split; auto. split; auto.
    destruct out3 as [|v3]; simpl; auto.
    eapply conc_mono; [exact R|]. eapply conc_lift; [|exact Q3]. exact Ln.
  - (* EExt *)
    destruct (getvs o rho args) as [o1 vs] eqn:Ga. destruct (pick o1) as [n o2].
    inversion Hc; subst t. destruct (Nat.eqb n 0).
    + inversion He; subst. split; [apply ext_refl|]. split; auto. simpl; auto.
    + inversion He; subst.
      destruct (alloc_sound n0 self h (mkobj false [] vs) Ln HI) as [X [HI1 T]].
      { simpl. intros D. discriminate. }
      split; auto. split; auto. simpl. split; auto.
Qed.

Lemma loop_bound_S : loop_bound = S 49.
Proof. reflexivity. Qed.

Lemma stmt_step : forall f, stmt_sound f -> expr_sound f -> stmt_sound (S f).
Proof.
  intros f IHs IHe. unfold stmt_sound.
  intros s res n0 self st r o rho h o' rho' h' out Hc [Ok [HI [Ln SL]]] He.
  destruct s as [x e|x fl y|x ys|a b|a b|b| |x]; simpl in He; simpl in Hc.
  - (* SAssign *)
    destruct (check_expr P st e) as [t|] eqn:Ce; [|discriminate]. inversion Hc; subst r.
    destruct (eval P f o rho h e) as [[[o1 h1] v]|] eqn:Ev; [|discriminate]. inversion He; subst.
    destruct (IHe _ _ _ _ _ _ _ _ _ _ _ Ce (conj Ok (conj HI (conj Ln SL))) Ev) as [X [HI1 C]].
    split; auto. split; auto. eexists. split; [reflexivity|].
    apply ok_assign; auto. eapply ok_stable; [eapply ext_tags; eauto|exact Ok].
  - (* SSetAttr *)
    destruct (wr_ok (sl st x) (sl st y)) eqn:W; [|discriminate]. inversion Hc; subst r.
    destruct (getv o rho x) as [o1 vx] eqn:Gx. destruct (getv o1 rho y) as [o2 vy] eqn:Gy.
    inversion He; subst.
    pose proof (getv_conc _ _ _ _ _ _ _ _ _ Ok Gx) as Cx.
    pose proof (getv_conc _ _ _ _ _ _ _ _ _ Ok Gy) as Cy.
    assert (R : ext n0 self h (store_field h vx fl vy) /\ hinv n0 (store_field h vx fl vy)).
    { destruct vx as [z|rx]; simpl; [split; [apply ext_refl|auto]|].
      eapply upd_sound with (news := [vy]); eauto.
      - intros c v. apply wr_field_vals.
      - eapply wr_ok_not_other; eauto.
      - intros D v [E|[]]. subst. eapply wr_ok_afresh; eauto. }
    destruct R as [X HI1]. split; auto. split; auto. exists st. split; auto.
    eapply ok_stable; [eapply ext_tags; eauto|exact Ok].
  - (* SMutElems *)
    destruct (wr_ok (sl st x) Atom && forallb (fun y => wr_ok (sl st x) (sl st y)) ys) eqn:W; [|discriminate].
    inversion Hc; subst r. apply andb_prop in W. destruct W as [W0 W1]. rewrite forallb_forall in W1.
    destruct (getv o rho x) as [o1 vx] eqn:Gx. destruct (getvs o1 rho ys) as [o2 vs] eqn:Gy.
    destruct (pick o2) as [n o3]. inversion He; subst.
    pose proof (getv_conc _ _ _ _ _ _ _ _ _ Ok Gx) as Cx.
    assert (R : ext n0 self h (store_elems h vx n vs) /\ hinv n0 (store_elems h vx n vs)).
    { destruct vx as [z|rx]; simpl; [split; [apply ext_refl|auto]|].
      eapply upd_sound with (news := vs); eauto.
      - intros c v. apply wr_elems_vals.
      - eapply wr_ok_not_other; eauto.
      - intros D v I. destruct (getvs_in _ _ _ _ _ _ _ _ _ Ok Gy _ I) as [y [Iy Cy]].
        eapply wr_ok_afresh; [apply W1; exact Iy|exact D|exact Cy]. }
    destruct R as [X HI1]. split; auto. split; auto. exists st. split; auto.
    eapply ok_stable; [eapply ext_tags; eauto|exact Ok].
  - (* SSeq *)
    destruct (check_stmt P res a st) as [[st1|]|] eqn:Ca; [| |discriminate].
    + destruct (exec P f o rho h a) as [[[[o1 rho1] h1] out1]|] eqn:Ea; [|discriminate].
      destruct (IHs _ _ _ _ _ _ _ _ _ _ _ _ _ Ca (conj Ok (conj HI (conj Ln SL))) Ea) as [X [HI1 Q]].
      destruct out1 as [|v1].
      * destruct Q as [st' [E O1]]. inversion E; subst st'.
        assert (Ln1 : n0 <= length h1) by (apply ext_len in X; lia).
        destruct (IHs _ _ _ _ _ _ _ _ _ _ _ _ _ Hc (conj O1 (conj HI1 (conj Ln1 SL))) He) as [X2 [HI2 Q2]].
        split; [eapply ext_trans; eauto|]. split; auto.
      * inversion He; subst. split; auto.
    + inversion Hc; subst r.
      destruct (exec P f o rho h a) as [[[[o1 rho1] h1] out1]|] eqn:Ea; [|discriminate].
      destruct (IHs _ _ _ _ _ _ _ _ _ _ _ _ _ Ca (conj Ok (conj HI (conj Ln SL))) Ea) as [X [HI1 Q]].
      destruct out1 as [|v1].
      * destruct Q as [st' [E O1]]. discriminate.
      * inversion He; subst. split; auto.
  - (* SIf *)
    destruct (check_stmt P res a st) as [ra|] eqn:Ca; [|discriminate].
    destruct (check_stmt P res b st) as [rb|] eqn:Cb; [|discriminate]. inversion Hc; subst r.
    destruct (pick o) as [n o1]. destruct (Nat.even n).
    + destruct (IHs _ _ _ _ _ _ _ _ _ _ _ _ _ Ca (conj Ok (conj HI (conj Ln SL))) He) as [X [HI1 Q]].
      split; auto. split; auto. destruct out; auto.
      destruct Q as [st' [E O1]]. subst ra. destruct rb as [y|]; simpl; eexists; (split; [reflexivity|]); auto.
      eapply ok_mono; [apply senv_le_join_l|exact O1].
    + destruct (IHs _ _ _ _ _ _ _ _ _ _ _ _ _ Cb (conj Ok (conj HI (conj Ln SL))) He) as [X [HI1 Q]].
      split; auto. split; auto. destruct out; auto.
      destruct Q as [st' [E O1]]. subst rb. destruct ra as [y|]; simpl; eexists; (split; [reflexivity|]); auto.
      eapply ok_mono; [apply senv_le_join_r|exact O1].
  - (* SLoop *)
    destruct (loop_fix (check_stmt P res b) loop_bound st) as [stS|] eqn:LF; simpl in Hc; [|discriminate].
    inversion Hc; subst r.
    destruct (loop_fix_spec _ _ _ _ LF) as [Le [rb [Cb Lb]]].
    assert (OkS : ok n0 self stS rho h) by (eapply ok_mono; eauto).
    destruct (pick o) as [n o1]. destruct (Nat.eqb n 0).
    + inversion He; subst. split; [apply ext_refl|]. split; auto. exists stS. split; auto.
    + destruct (exec P f o1 rho h b) as [[[[o2 rho2] h2] out2]|] eqn:Eb; [|discriminate].
      destruct (IHs _ _ _ _ _ _ _ _ _ _ _ _ _ Cb (conj OkS (conj HI (conj Ln SL))) Eb) as [X [HI1 Q]].
      destruct out2 as [|v2].
      * destruct Q as [st1 [E O1]]. subst rb.
        assert (CL : check_stmt P res (SLoop b) stS = Some (Some stS)).
        { simpl. rewrite loop_bound_S. rewrite (loop_fix_stable _ _ _ _ Cb Lb). reflexivity. }
        assert (Ln1 : n0 <= length h2) by (apply ext_len in X; lia).
        assert (O2 : ok n0 self stS rho2 h2) by (eapply ok_mono; [apply senv_leb_spec; exact Lb|exact O1]).
        destruct (IHs _ _ _ _ _ _ _ _ _ _ _ _ _ CL (conj O2 (conj HI1 (conj Ln1 SL))) He) as [X2 [HI2 Q2]].
        split; [eapply ext_trans; eauto|]. split; auto.
      * inversion He; subst. split; auto.
  - (* SSkip *)
    inversion He; subst. inversion Hc; subst. split; [apply ext_refl|]. split; auto. exists st. auto.
  - (* SReturn *)
    destruct (sleb (sl st x) res) eqn:L; [|discriminate].
    destruct (getv o rho x) as [o1 v] eqn:G. inversion He; subst.
    split; [apply ext_refl|]. split; auto. eapply conc_mono; [exact L|]. eapply getv_conc; eauto.
Qed.

Theorem sound : forall fuel, stmt_sound fuel /\ expr_sound fuel.
Proof.
  induction fuel as [|f [IHs IHe]].
  - split.
    + intros s res n0 self st r o rho h o' rho' h' out _ _ He. simpl in He. discriminate.
    + intros e n0 self st t o rho h o' h' v _ _ He. simpl in He. discriminate.
  - split; [apply stmt_step|apply expr_step]; auto.
Qed.

(* ------------------------------------------------------------------ top-level statements *)
Definition arg0_valid (h : heap) (args : list val) : Prop :=
  match args with VRef r :: _ => r < length h | _ => True end.

Lemma fresh_result_leb : forall fd, fresh_result fd = true -> sleb (result fd) AnyFresh = true.
Proof. intros fd. unfold fresh_result. destruct (result fd); simpl; congruence. Qed.

Theorem run_sound : forall f fd args h fuel o h' v,
  find_fun P f = Some fd -> (mutates_self fd = true -> arg0_valid h args) ->
  run P f args h fuel o = Some (h', v) ->
  ext (length h) (selfc_of fd args) h h' /\ (fresh_result fd = true -> afresh (length h) v).
Proof.
  intros f fd args h fuel o h' v F AV R. unfold run in R. rewrite F in R.
  destruct (exec P fuel o (bind (params fd) args) h (body fd)) as [[[[o3 rho3] h3] out3]|] eqn:Eb; [|discriminate].
  inversion R; subst.
  pose proof (find_checked _ _ F) as CF. unfold check_fun in CF.
  destruct (check_stmt P (result fd) (body fd) (init_senv fd)) as [r0|] eqn:Cb;
    [|destruct (result fd); discriminate].
  assert (SLc : self_lt (selfc_of fd args) (length h)).
  { intros r E. unfold selfc_of in E. destruct (mutates_self fd); [|discriminate].
    specialize (AV eq_refl). destruct args as [|[z|r'] rest]; try discriminate. inversion E; subst. exact AV. }
  destruct (sound fuel) as [Hs _].
  destruct (Hs (body fd) (result fd) (length h) (selfc_of fd args) (init_senv fd) r0 _ _ _ _ _ _ _ Cb
              (conj (init_ok fd args h) (conj (hinv_top h) (conj (le_n _) SLc))) Eb) as [X [HI Q]].
  split; auto. intro FR. destruct out3 as [|v3]; simpl; auto.
  eapply conc_afresh; [apply fresh_result_leb; exact FR|exact Q].
Qed.

(* FRAME, pure functions: no cell that existed before the call is modified *)
Theorem frame_pure : forall f fd args h fuel o h' v,
  find_fun P f = Some fd -> mutates_self fd = false ->
  run P f args h fuel o = Some (h', v) ->
  length h <= length h' /\ forall r, r < length h -> nth_error h' r = nth_error h r.
Proof.
  intros f fd args h fuel o h' v F M R.
  destruct (run_sound _ _ _ _ _ _ _ _ F (fun E => ltac:(congruence)) R) as [[L [Fr _]] _].
  split; auto. intros r Hr. apply Fr; auto. unfold selfc_of. rewrite M. discriminate.
Qed.

(* FRAME, functions that declare mutates_self: only the receiver (the cell passed as first argument) may change *)
Theorem frame_self : forall f fd args h fuel o h' v,
  find_fun P f = Some fd -> arg0_valid h args ->
  run P f args h fuel o = Some (h', v) ->
  length h <= length h' /\ forall r, r < length h -> hd (VAtom 0) args <> VRef r -> nth_error h' r = nth_error h r.
Proof.
  intros f fd args h fuel o h' v F AV R.
  destruct (run_sound _ _ _ _ _ _ _ _ F (fun _ => AV) R) as [[L [Fr _]] _].
  split; auto. intros r Hr Hn. apply Fr; auto. unfold selfc_of.
  destruct (mutates_self fd); [|discriminate].
  destruct args as [|[z|r'] rest]; try discriminate. simpl in Hn. intro E. inversion E; subst. apply Hn. reflexivity.
Qed.

(* FRESH: a result claimed Atom/Fresh/Deep/AnyFresh is an immutable value or a reference that did not exist before *)
Theorem fresh_returned : forall f fd args h fuel o h' v,
  find_fun P f = Some fd -> fresh_result fd = true -> (mutates_self fd = true -> arg0_valid h args) ->
  run P f args h fuel o = Some (h', v) ->
  match v with VAtom _ => True | VRef r => length h <= r end.
Proof.
  intros f fd args h fuel o h' v F FR AV R.
  destruct (run_sound _ _ _ _ _ _ _ _ F AV R) as [_ A]. exact (A FR).
Qed.

(* DETERMINED-BY-HEAP: whatever pure calls are run in between, every cell of the heap they started from (the operands,
   everything reachable from them, module-level objects) is the same afterwards *)
Definition call := (string * list val * nat * oracle)%type.
Fixpoint run_calls (cs : list call) (h : heap) : option heap :=
  match cs with
  | [] => Some h
  | (f, args, fuel, o) :: cs' =>
    match run P f args h fuel o with Some (h1, _) => run_calls cs' h1 | None => None end
  end.

Theorem pure_calls_frame : forall cs h h',
  Forall (fun c : call => mutates_self_of P (fst (fst (fst c))) = false) cs ->
  run_calls cs h = Some h' ->
  length h <= length h' /\ forall r, r < length h -> nth_error h' r = nth_error h r.
Proof.
  induction cs as [|[[[f args] fuel] o] cs IH]; simpl; intros h h' FA R.
  - inversion R; subst. split; auto.
  - inversion FA as [|c l M FA']; subst. simpl in M. unfold mutates_self_of in M.
    destruct (find_fun P f) as [fd|] eqn:F; [|discriminate].
    destruct (run P f args h fuel o) as [[h1 v1]|] eqn:R1; [|discriminate].
    destruct (frame_pure _ _ _ _ _ _ _ _ F M R1) as [L1 F1].
    destruct (IH _ _ FA' R) as [L2 F2]. split; [lia|].
    intros r Hr. rewrite F2; [apply F1; auto|lia].
Qed.

End Sound.

(* names are bound once: [In (f, fd) P] and [find_fun P f = Some fd] then coincide *)
Fixpoint nodupb (l : list string) : bool :=
  match l with [] => true | x :: t => negb (existsb (String.eqb x) t) && nodupb t end.

Lemma In_find : forall (P : prog) f fd, nodupb (map fst P) = true -> In (f, fd) P -> find_fun P f = Some fd.
Proof.
  unfold find_fun. induction P as [|[y b] P IH]; simpl; intros f fd N I; [contradiction|].
  apply andb_prop in N. destruct N as [N1 N2]. destruct I as [I|I].
  - inversion I; subst. rewrite String.eqb_refl. reflexivity.
  - destruct (String.eqb_spec f y) as [e|ne]; [|apply IH; auto].
    subst. exfalso. apply negb_true_iff in N1.
    assert (X : existsb (String.eqb y) (map fst P) = true).
    { apply existsb_exists. exists y. split; [|apply String.eqb_refl].
      change y with (fst (y, fd)). apply in_map. exact I. }
    congruence.
Qed.

(* ------------------------------------------------------------------ the statements are not vacuous: RUNNING the model *)
Definition seqs (l : list stmt) : stmt := fold_right SSeq SSkip l.
Definition ex_h0 : heap := [mkobj false [] [VAtom 1; VAtom 2]].

(* (a) an aliasing program: [a = xs; a.append(y); return a].  The checker rejects it, and running it really changes the
   operand's cell (cell 0). *)
Definition ex_bad : prog :=
  [("append_alias", mkfun ["xs"; "y"] (seqs [SAssign "a" (EVar "xs"); SMutElems "a" ["y"]; SReturn "a"]) false Other)].
Example ex_bad_rejected : (check_prog ex_bad, failing ex_bad) = (false, ["append_alias"]).
Proof. vm_compute. reflexivity. Qed.
Example ex_bad_modifies_operand :
  run ex_bad "append_alias" [VRef 0; VAtom 7] ex_h0 20 [9]
  = Some ([mkobj false [] [VAtom 1; VAtom 2; VAtom 7]], VRef 0).
Proof. vm_compute. reflexivity. Qed.

(* (b) the same function written with a copy: accepted, and the run leaves cell 0 as it was and returns a new cell *)
Definition ex_good : prog :=
  [("append_copy", mkfun ["xs"; "y"]
     (seqs [SAssign "a" (ENew false [] []); SLoop (seqs [SAssign "e" (EElem "xs"); SMutElems "a" ["e"]]);
            SMutElems "a" ["y"]; SReturn "a"]) false Fresh)].
Example ex_good_accepted : check_prog ex_good = true.
Proof. vm_compute. reflexivity. Qed.
Example ex_good_leaves_operand :
  run ex_good "append_copy" [VRef 0; VAtom 7] ex_h0 40 [1;0;9;1;1;9;0;9]
  = Some ([mkobj false [] [VAtom 1; VAtom 2]; mkobj false [] [VAtom 1; VAtom 2; VAtom 7]], VRef 1).
Proof. vm_compute. reflexivity. Qed.
Example ex_good_frame : forall args h fuel o h' v,
  run ex_good "append_copy" args h fuel o = Some (h', v) ->
  length h <= length h' /\ forall r, r < length h -> nth_error h' r = nth_error h r.
Proof.
  intros args h fuel o h' v R.
  eapply (frame_pure ex_good ex_good_accepted "append_copy" _ args h fuel o h' v); [reflexivity|reflexivity|exact R].
Qed.

(* (c) a constructor that keeps the operand's list (Box.alias) against one that stores a copy (Box.copy, tagged deep):
   [b = Box(xs); b.items.pop()] modifies the operand in the first case — rejected — and not in the second — accepted. *)
Definition ex_ctor : prog :=
  [("Box.alias", mkfun ["xs"]
      (seqs [SAssign "self" (ENew false [] []); SSetAttr "self" "items" "xs"; SReturn "self"]) false Fresh);
   ("Box.copy", mkfun ["xs"]
      (seqs [SAssign "c" (ENew false [] []); SLoop (seqs [SAssign "e" (EElem "xs"); SMutElems "c" ["e"]]);
             SAssign "self" (ENew true [] []); SSetAttr "self" "items" "c"; SReturn "self"]) false Deep);
   ("drop_last_alias", mkfun ["xs"]
      (seqs [SAssign "b" (ECall ["Box.alias"] ["xs"]); SAssign "t" (EAttr "b" "items"); SMutElems "t" [];
             SReturn "b"]) false Fresh);
   ("drop_last_copy", mkfun ["xs"]
      (seqs [SAssign "b" (ECall ["Box.copy"] ["xs"]); SAssign "t" (EAttr "b" "items"); SMutElems "t" [];
             SReturn "b"]) false Deep)].
Example ex_ctor_failing : failing ex_ctor = ["drop_last_alias"].
Proof. vm_compute. reflexivity. Qed.
Example ex_ctor_alias_modifies_operand :
  run ex_ctor "drop_last_alias" [VRef 0] ex_h0 40 [0;1]
  = Some ([mkobj false [] [VAtom 1]; mkobj false [("items", VRef 0)] []], VRef 1).
Proof. vm_compute. reflexivity. Qed.
Example ex_ctor_copy_leaves_operand :
  run ex_ctor "drop_last_copy" [VRef 0] ex_h0 40 [0;1;0;9;1;1;9;0;1]
  = Some ([mkobj false [] [VAtom 1; VAtom 2]; mkobj false [] [VAtom 1];
           mkobj true [("items", VRef 1)] []], VRef 2).
Proof. vm_compute. reflexivity. Qed.

Print Assumptions sound.
Print Assumptions frame_pure.
Print Assumptions frame_self.
Print Assumptions fresh_returned.
Print Assumptions pure_calls_frame.
