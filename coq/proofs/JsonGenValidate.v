(* JsonGenValidate.v — the generated functions of src/pacti/terms/polyhedra/serializer.py (gen/JsonGen.v:
   serializer__is_number, serializer__check_clause, serializer_validate_contract_dict) are EQUAL to the hand
   model of model/Json.v (is_number, check_clause, validate_contract_dict), on EVERY json value and for both
   representations: pointwise equality of monadic results, i.e. also WHICH exception is raised.  No
   precondition.  See JsonGenFacts.v. *)
From Coq Require Import List String Bool QArith ZArith Lia.
Import ListNotations.
Require Import Py Sem PyDict PyLoop Term Json PyJson JsonFacts JsonGen JsonGenBase.
Open Scope py_scope.
Local Open Scope string_scope.

(* _is_number: isinstance(value, (int, float)) and not isinstance(value, bool) — a bool is an int for
   isinstance, so the second conjunct is what rejects True / False *)
Theorem is_number_eq v : serializer__is_number v = is_number v.
Proof. destruct v as [|b|q [|]|s|l|fs]; reflexivity. Qed.

(* what dropping the second conjunct would accept *)
Example bool_is_an_int : py_isinstance (JBool true) [CInt; CFloat] = true /\ is_number (JBool true) = false.
Proof. split; reflexivity. Qed.

(* the loop over the values of the "coefficients" dictionary *)
Lemma coefficient_loop_eq (body : unit -> json -> M (ctl unit)) coefs :
  (forall u c, body u c = if negb (serializer__is_number c) then raise FormatErr else ret (Continue tt)) ->
  for_list_m (map snd coefs) tt body = forM (fun p : string * json => fmt_check (is_number (snd p))) coefs.
Proof.
  intros Hb. rewrite (loop_forM (fun c => fmt_check (is_number c))).
  - exact (forM_map (fun c => fmt_check (is_number c)) snd coefs).
  - intros u c _. rewrite Hb, is_number_eq. destruct (is_number c); reflexivity.
Qed.

(* _check_clause *)
Theorem check_clause_eq clause : serializer__check_clause clause = check_clause clause.
Proof.
  destruct clause as [|b|q i|s|l|cfs]; try reflexivity.
  unfold serializer__check_clause, check_clause.
  cbn [py_isinstance existsb instance_of negb orb for_list_m json_contains json_getitem bind ret].
  unfold jhas. destruct (jget "constant" cfs) as [cv|] eqn:Ec; cbn; [|reflexivity].
  rewrite is_number_eq. destruct (is_number cv); cbn; [|reflexivity].
  destruct (jget "coefficients" cfs) as [co|] eqn:Eo; cbn; [|reflexivity].
  destruct co as [|b|q i|s|l|coefs]; cbn; try reflexivity.
  rewrite (coefficient_loop_eq _ coefs) by (intros u c; reflexivity).
  destruct (forM _ coefs) as [[]|e]; reflexivity.
Qed.

(* one iteration of the keyword loop of validate_contract_dict *)
Local Arguments py_in : simpl never.
Local Arguments forM : simpl never.
Local Arguments for_list_m : simpl never.
Lemma validate_kw_body fs machine kw str_list_kw :
  str_list_kw = (if negb machine then (["input_vars"; "output_vars"] ++ ["assumptions"; "guarantees"])%list
                 else ["input_vars"; "output_vars"]) ->
  (b <- json_contains (JObj fs) kw ;;
   if negb b then raise FormatErr else
   value <- json_getitem (JObj fs) kw ;;
   if negb (py_isinstance value [CList]) then raise FormatErr else
   if py_in kw str_list_kw then
     it <- json_iter value ;;
     _ <- for_list_m it tt (fun _ str_item =>
            if negb (py_isinstance str_item [CStr]) then raise FormatErr else ret (Continue tt)) ;;
     ret (Continue tt)
   else if machine then
     it <- json_iter value ;;
     _ <- for_list_m (enumerate it) tt (fun _ '(index, clause) =>
            _ <- serializer__check_clause clause ;; ret (Continue tt)) ;;
     ret (Continue tt)
   else ret (Continue tt))
  = bind (validate_kw fs machine kw) (fun _ => ret (Continue tt)).
Proof.
  intros Hs. unfold validate_kw. cbn [json_contains json_getitem bind ret]. unfold jhas.
  destruct (jget kw fs) as [v|] eqn:Ev; cbn; [|reflexivity].
  destruct v as [|b|q i|s|l|o]; cbn; try reflexivity.
  assert (Hin : py_in kw str_list_kw
                = py_in kw ("input_vars" :: "output_vars" :: (if machine then [] else ["assumptions"; "guarantees"]))).
  { subst str_list_kw. destruct machine; reflexivity. }
  rewrite Hin. clear Hin. destruct (py_in kw ("input_vars" :: _)).
  - rewrite (loop_forM (fun x => fmt_check (is_str x))).
    + destruct (forM _ l) as [[]|e]; reflexivity.
    + intros u' x _. destruct x as [|b|q [|]|s|l0|o]; reflexivity.
  - destruct machine; [|reflexivity].
    unfold enumerate. rewrite (loop_enum_forM check_clause).
    + destruct (forM _ l) as [[]|e]; reflexivity.
    + intros u' i x _. rewrite check_clause_eq. reflexivity.
Qed.

(* validate_contract_dict, both representations *)
Theorem validate_contract_dict_eq contract machine :
  serializer_validate_contract_dict contract machine = validate_contract_dict contract machine.
Proof.
  destruct contract as [|b|q i|s|l|fs]; try reflexivity.
  unfold serializer_validate_contract_dict, validate_contract_dict.
  change (negb (py_isinstance (JObj fs) [CDict])) with false. cbv iota zeta.
  rewrite (loop_forM (validate_kw fs machine)).
  - apply jbind_tt.
  - intros u kw _. apply validate_kw_body. reflexivity.
Qed.
