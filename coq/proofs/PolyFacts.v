(* PolyFacts.v — correctness of the LP-based routines of PolyhedralTermList as modelled in
   model/Poly.v (simplify C07, refines C03, is_empty C11, optimize C12), relative to the solver
   specification [lp_spec 0 O] / [lp_total O] of proofs/PolySpec.v and the meaning of terms in
   base/Sem.v.  Row-level facts are in proofs/PolyLP.v. *)
From Coq Require Import List String Bool QArith Qabs ZArith Reals Qreals Lra Lia.
Import ListNotations.
Require Import Py ListsGen ConstGen Sem Term Poly PolySpec QR ListsFacts TermFacts PolyLP.
Local Open Scope R_scope.

(* ------------------------------------------------------------------ *)
(** * Well-formedness of term lists *)
Definition wfl (ts : list pterm) : Prop := Forall wft ts /\ all_have_vars ts = true.
(* what PolyhedralTerm.__init__ guarantees: no stored zero coefficient *)
Definition nzt (t : pterm) : Prop := nzl (tvars t).
Definition nz_terms (ts : list pterm) : Prop := Forall nzt ts.

Lemma nil_or_not {T} (l : list T) : l = [] \/ l <> [].
Proof. destruct l; [left; reflexivity|right; discriminate]. Qed.
Lemma wfl_nil : wfl [].
Proof. split; [constructor|reflexivity]. Qed.
Lemma wfl_opt_none : wfl (opt_list (@None (list pterm))).
Proof. apply wfl_nil. Qed.
Lemma all_have_vars_in ts t : all_have_vars ts = true -> In t ts -> term_vars_p t <> [].
Proof.
  unfold all_have_vars. rewrite forallb_forall. intros H Hi. apply nonempty_true. apply H. exact Hi.
Qed.
Lemma all_have_vars_incl s ts : incl s ts -> all_have_vars ts = true -> all_have_vars s = true.
Proof.
  unfold all_have_vars. rewrite !forallb_forall. intros Hi H x Hx. apply H. apply Hi. exact Hx.
Qed.
Lemma wfl_incl s ts : incl s ts -> wfl ts -> wfl s.
Proof.
  intros Hi [H1 H2]. split; [|eapply all_have_vars_incl; eassumption].
  rewrite Forall_forall in *. intros x Hx. apply H1. apply Hi. exact Hx.
Qed.
Lemma incl_list_diff (ts c : list pterm) : incl (list_diff ts c) ts.
Proof. unfold list_diff. intros x Hx. apply filter_In in Hx. tauto. Qed.

(* ------------------------------------------------------------------ *)
(** * Valuations and points *)
Fixpoint rho_of (vs : list var) (x : list R) (v : var) : R :=
  match vs, x with
  | k :: vs', r :: x' => if String.eqb k v then r else rho_of vs' x' v
  | _, _ => 0
  end.
Lemma map_rho_of vs x : NoDup vs -> List.length x = List.length vs -> map (rho_of vs x) vs = x.
Proof.
  intros Hn. revert x. induction Hn as [|k vs Hk Hn IH]; intros [|r x] L; simpl in *; try congruence.
  rewrite String.eqb_refl. f_equal. transitivity (map (rho_of vs x) vs); [|apply IH; congruence].
  apply map_ext_in. intros v Hv. destruct (String.eqb k v) eqn:E; [|reflexivity].
  apply String.eqb_eq in E. subst. contradiction.
Qed.
Lemma point_is_valuation (vs : list var) (x : list R) :
  NoDup vs -> List.length x = List.length vs -> exists rho, x = map rho vs.
Proof. intros Hn L. exists (rho_of vs x). symmetry. apply map_rho_of; assumption. Qed.

(* ------------------------------------------------------------------ *)
(** * Rows of terms *)
Lemma dot_fold (g : var -> Q) (rho : val) vs :
  dot (map g vs) (map rho vs) = fold_right (fun v acc => Q2R (g v) * rho v + acc) 0 vs.
Proof. induction vs as [|v vs IH]; simpl; [reflexivity|]. rewrite IH. reflexivity. Qed.

Lemma dot_term_to_row vs t rho :
  wft t -> NoDup vs -> (forall x, In x (term_vars_p t) -> In x vs) ->
  dot (fst (term_to_row vs t)) (map rho vs) = lin rho (tvars t).
Proof.
  intros Ht Hn Hc. unfold term_to_row. simpl fst. rewrite dot_fold. symmetry.
  apply lin_get_coefficient; assumption.
Qed.
Lemma snd_term_to_row vs t : snd (term_to_row vs t) = tconst t.
Proof. reflexivity. Qed.
Lemma wf_rows_terms vs ts : wf_rows (List.length vs) (map (term_to_row vs) ts).
Proof.
  unfold wf_rows. apply Forall_forall. intros r Hr. apply in_map_iff in Hr.
  destruct Hr as [t [<- _]]. simpl. apply map_length.
Qed.

(* vs lists (without repetition) the variables of the well-formed terms ts *)
Definition covered (vs : list var) (ts : list pterm) : Prop :=
  Forall (fun t => wft t /\ forall x, In x (term_vars_p t) -> In x vs) ts.
Lemma covered_incl vs s ts : incl s ts -> covered vs ts -> covered vs s.
Proof. unfold covered. rewrite !Forall_forall. intros Hi H x Hx. apply H. apply Hi. exact Hx. Qed.
Lemma covered_app vs s ts : covered vs (s ++ ts) <-> covered vs s /\ covered vs ts.
Proof. apply Forall_app. Qed.

Lemma feas_sat vs ts rho : NoDup vs -> covered vs ts ->
  (feas (map (term_to_row vs) ts) (map rho vs) <-> sat_list rho ts).
Proof.
  intros Hn Hc. induction ts as [|t ts IH]; simpl.
  - split; intros; constructor.
  - inversion Hc as [|? ? [Ht Hv] Hc']; subst. rewrite feas_cons, IH by exact Hc'.
    rewrite dot_term_to_row by assumption. simpl snd.
    unfold sat_list. rewrite Forall_cons_iff. unfold sat. tauto.
Qed.

(* row_to_term after term_to_row: zero coefficients dropped, same meaning *)
Lemma lin_combine (g : var -> Q) (rho : val) vs :
  lin rho (combine vs (map g vs)) = dot (map g vs) (map rho vs).
Proof. induction vs as [|v vs IH]; simpl; [reflexivity|]. rewrite IH. reflexivity. Qed.

Definition roundtrip (vs : list var) (t : pterm) : pterm := row_to_term vs (term_to_row vs t).

Lemma row_roundtrip vs t rho :
  wft t -> NoDup vs -> (forall x, In x (term_vars_p t) -> In x vs) ->
  (sat rho (row_to_term vs (term_to_row vs t)) <-> sat rho t).
Proof.
  intros Ht Hn Hc. unfold sat, row_to_term. rewrite lin_mk_term, mk_term_const.
  rewrite snd_term_to_row. unfold term_to_row at 1. simpl fst. rewrite lin_combine.
  change (map (get_coefficient t) vs) with (fst (term_to_row vs t)).
  rewrite dot_term_to_row by assumption. tauto.
Qed.
Lemma sat_list_roundtrip vs ts rho : NoDup vs -> covered vs ts ->
  (sat_list rho (map (roundtrip vs) ts) <-> sat_list rho ts).
Proof.
  intros Hn Hc. unfold sat_list. induction ts as [|t ts IH]; simpl.
  - split; intros; constructor.
  - inversion Hc as [|? ? [Ht Hv] Hc']; subst. rewrite !Forall_cons_iff, IH by exact Hc'.
    unfold roundtrip. rewrite row_roundtrip by assumption. tauto.
Qed.

(* coefficients and constant survive the round trip *)
Lemma keys_combine_incl (g : var -> Q) vs x :
  In x (keys (filter nzb (combine vs (map g vs)))) -> In x vs.
Proof.
  intros H. apply keys_filter_incl in H. apply in_keys_ex in H. destruct H as [q H].
  apply in_combine_l in H. exact H.
Qed.
Lemma coef_combine_in (g : var -> Q) vs v :
  In v vs -> (coef (filter nzb (combine vs (map g vs))) v == g v)%Q.
Proof.
  induction vs as [|k vs IH]; intros Hi; [destruct Hi|].
  cbn [map combine filter]. unfold nzb at 1. cbn [snd].
  destruct (string_dec k v) as [->|Hkv].
  - destruct (qzero (g v)) eqn:E; cbn [negb].
    + apply qzero_true_iff in E. destruct (in_dec string_dec v vs) as [Hv|Hv].
      * apply IH. exact Hv.
      * rewrite coef_notin; [symmetry; exact E|]. intros Hk. apply Hv. eapply keys_combine_incl. exact Hk.
    + rewrite coef_cons_eq. reflexivity.
  - destruct Hi as [Hi|Hi]; [contradiction|].
    destruct (qzero (g k)); cbn [negb].
    + apply IH. exact Hi.
    + rewrite coef_cons_neq by exact Hkv. apply IH. exact Hi.
Qed.
Lemma roundtrip_coefficient vs t v :
  (forall x, In x (term_vars_p t) -> In x vs) ->
  (get_coefficient (roundtrip vs t) v == get_coefficient t v)%Q.
Proof.
  intros Hc. unfold roundtrip, row_to_term, term_to_row. cbn [fst snd].
  rewrite (get_coefficient_coef (mk_term _ _)). rewrite mk_term_vars.
  destruct (in_dec string_dec v vs) as [Hv|Hv].
  - apply coef_combine_in. exact Hv.
  - rewrite coef_notin by (intros Hk; apply Hv; eapply keys_combine_incl; exact Hk).
    rewrite get_coefficient_notin; [reflexivity|]. intros Hi. apply Hv. apply Hc. exact Hi.
Qed.
Lemma roundtrip_const vs t : tconst (roundtrip vs t) = tconst t.
Proof. reflexivity. Qed.

(* ------------------------------------------------------------------ *)
(** * The variable order *)
Lemma in_fold_union ts acc x :
  In x (fold_left (fun acc t => list_union acc (term_vars_p t)) ts acc) <->
  In x acc \/ exists t, In t ts /\ In x (term_vars_p t).
Proof.
  revert acc. induction ts as [|t ts IH]; intros acc; simpl.
  - split; [tauto|]. intros [H|[t [[] _]]]. exact H.
  - rewrite IH, in_list_union. split.
    + intros [[H|H]|[t' [H1 H2]]]; [left; exact H|right; exists t; tauto|right; exists t'; tauto].
    + intros [H|[t' [[->|H1] H2]]]; [tauto|tauto|right; exists t'; tauto].
Qed.
Lemma NoDup_fold_union ts acc :
  NoDup acc -> Forall wft ts ->
  NoDup (fold_left (fun acc t => list_union acc (term_vars_p t)) ts acc).
Proof.
  revert acc. induction ts as [|t ts IH]; intros acc Ha Hw; simpl; [exact Ha|].
  inversion Hw; subst. apply IH; [|assumption]. apply NoDup_list_union; assumption.
Qed.
Lemma in_tl_vars ts x : In x (tl_vars ts) <-> exists t, In t ts /\ In x (term_vars_p t).
Proof. unfold tl_vars. rewrite in_fold_union. simpl. tauto. Qed.
Lemma NoDup_tl_vars ts : Forall wft ts -> NoDup (tl_vars ts).
Proof. apply NoDup_fold_union. constructor. Qed.
Lemma in_polytope_vars A B x :
  In x (polytope_vars A B) <-> exists t, (In t A \/ In t B) /\ In x (term_vars_p t).
Proof.
  unfold polytope_vars. rewrite in_list_union, !in_tl_vars. split.
  - intros [[t [H1 H2]]|[t [H1 H2]]]; exists t; tauto.
  - intros [t [[H1|H1] H2]]; [left|right]; exists t; tauto.
Qed.
Lemma NoDup_polytope_vars A B : Forall wft A -> Forall wft B -> NoDup (polytope_vars A B).
Proof. intros HA HB. apply NoDup_list_union; apply NoDup_tl_vars; assumption. Qed.
Lemma covered_polytope_l A B : Forall wft A -> covered (polytope_vars A B) A.
Proof.
  intros HA. unfold covered. rewrite Forall_forall in *. intros t Ht. split; [apply HA; exact Ht|].
  intros x Hx. apply in_polytope_vars. exists t. tauto.
Qed.
Lemma covered_polytope_r A B : Forall wft B -> covered (polytope_vars A B) B.
Proof.
  intros HB. unfold covered. rewrite Forall_forall in *. intros t Ht. split; [apply HB; exact Ht|].
  intros x Hx. apply in_polytope_vars. exists t. tauto.
Qed.

(* a list of terms that all mention a variable yields a non-empty variable order (m > 0) *)
Lemma polytope_vars_nonempty_l A B : wfl A -> A <> [] -> polytope_vars A B <> [].
Proof.
  intros [_ Hv] Hne E. destruct A as [|t A]; [congruence|].
  assert (Ht : term_vars_p t <> []) by (eapply all_have_vars_in; [exact Hv|left; reflexivity]).
  destruct (term_vars_p t) as [|x l] eqn:Ex; [congruence|].
  assert (Hin : In x (polytope_vars (t :: A) B)).
  { apply in_polytope_vars. exists t. split; [left; left; reflexivity|rewrite Ex; left; reflexivity]. }
  rewrite E in Hin. destruct Hin.
Qed.
Lemma polytope_vars_nonempty_r A B : wfl B -> B <> [] -> polytope_vars A B <> [].
Proof.
  intros [_ Hv] Hne E. destruct B as [|t B]; [congruence|].
  assert (Ht : term_vars_p t <> []) by (eapply all_have_vars_in; [exact Hv|left; reflexivity]).
  destruct (term_vars_p t) as [|x l] eqn:Ex; [congruence|].
  assert (Hin : In x (polytope_vars A (t :: B))).
  { apply in_polytope_vars. exists t. split; [right; left; reflexivity|rewrite Ex; left; reflexivity]. }
  rewrite E in Hin. destruct Hin.
Qed.
Lemma polytope_vars_nil A B : wfl A -> wfl B -> polytope_vars A B = [] -> A = [] /\ B = [].
Proof.
  intros HA HB E. split.
  - destruct (nil_or_not A) as [H|H]; [exact H|]. exfalso. apply (polytope_vars_nonempty_l A B HA H E).
  - destruct (nil_or_not B) as [H|H]; [exact H|]. exfalso. apply (polytope_vars_nonempty_r A B HB H E).
Qed.

(* ------------------------------------------------------------------ *)
(** * A constraint with a variable and no zero coefficient can be violated *)
Lemma lin_vanish (rho : val) l : (forall x, In x (keys l) -> rho x = 0) -> lin rho l = 0.
Proof.
  induction l as [|[k q] r IH]; intros H; simpl; [reflexivity|].
  rewrite IH, (H k); [lra|left; reflexivity|]. intros x Hx. apply H. right. exact Hx.
Qed.
Lemma unbounded_term t : wft t -> nzt t -> term_vars_p t <> [] ->
  forall bound, exists rho, bound < lin rho (tvars t).
Proof.
  unfold wft, nzt, nzl, term_vars_p. destruct t as [l c]. simpl.
  destruct l as [|[k q] r]; intros Hn Hz Hv bound; [exfalso; apply Hv; reflexivity|].
  inversion Hn as [|? ? Hk Hr]; subst. inversion Hz as [|? ? Hq _]; subst. simpl in Hq.
  apply Q2R_neq0 in Hq.
  exists (fun v => if String.eqb k v then (bound + 1) / Q2R q else 0).
  simpl. rewrite String.eqb_refl. rewrite lin_vanish.
  - assert (E : Q2R q * ((bound + 1) / Q2R q) = bound + 1) by (field; exact Hq). lra.
  - intros x Hx. destruct (String.eqb k x) eqn:E; [|reflexivity].
    apply String.eqb_eq in E. subst. contradiction.
Qed.
Lemma violable t : wft t -> nzt t -> term_vars_p t <> [] -> exists rho, ~ sat rho t.
Proof.
  intros H1 H2 H3. destruct (unbounded_term t H1 H2 H3 (Q2R (tconst t))) as [rho Hr].
  exists rho. unfold sat. lra.
Qed.
Lemma violable_tol tau t : wft t -> nzt t -> term_vars_p t <> [] -> exists rho, ~ sat_tol tau rho t.
Proof.
  intros H1 H2 H3.
  destruct (unbounded_term t H1 H2 H3 (Q2R (tconst t) + Q2R tau * (1 + Rabs (Q2R (tconst t))))) as [rho Hr].
  exists rho. unfold sat_tol. lra.
Qed.
Lemma violable_list ts : wfl ts -> nz_terms ts -> ts <> [] -> exists rho, ~ sat_list rho ts.
Proof.
  intros [Hw Hv] Hz Hne. destruct ts as [|t ts]; [congruence|].
  inversion Hw; subst. inversion Hz; subst.
  destruct (violable t) as [rho Hr]; try assumption.
  - eapply all_have_vars_in; [exact Hv|left; reflexivity].
  - exists rho. intros H. inversion H; subst. contradiction.
Qed.
Lemma violable_list_tol tau ts : wfl ts -> nz_terms ts -> ts <> [] ->
  exists rho, ~ Forall (sat_tol tau rho) ts.
Proof.
  intros [Hw Hv] Hz Hne. destruct ts as [|t ts]; [congruence|].
  inversion Hw; subst. inversion Hz; subst.
  destruct (violable_tol tau t) as [rho Hr]; try assumption.
  - eapply all_have_vars_in; [exact Hv|left; reflexivity].
  - exists rho. intros H. inversion H; subst. contradiction.
Qed.

(* ------------------------------------------------------------------ *)
(** * Satisfaction up to the refinement tolerance *)
Lemma sat_tol_weaken tau rho t : sat rho t -> 0 <= Q2R tau -> sat_tol tau rho t.
Proof.
  unfold sat, sat_tol. intros H Ht. pose proof (Rabs_pos (Q2R (tconst t))). nra.
Qed.
Lemma sat_tol_weakenQ tau rho t : sat rho t -> (0 <= tau)%Q -> sat_tol tau rho t.
Proof. intros H Ht. apply sat_tol_weaken; [exact H|]. apply Qle_Rle in Ht. rewrite Q2R_0 in Ht. exact Ht. Qed.
Lemma sat_list_tol rho ts : sat_list rho ts -> Forall (sat_tol REFINEMENT_TOLERANCE rho) ts.
Proof.
  unfold sat_list. rewrite !Forall_forall. intros H t Ht. apply sat_tol_weaken; [apply H; exact Ht|apply tol_nonneg].
Qed.
Definition small_consts (B : list pterm) : Prop :=
  Forall (fun t => (Q2R REFINEMENT_TOLERANCE * (1 + Rabs (Q2R (tconst t))) < 1)%R) B.
Lemma small_rows_terms vs B : small_consts B -> small_rows (map (term_to_row vs) B).
Proof.
  unfold small_consts, small_rows. rewrite !Forall_forall. intros H r Hr.
  apply in_map_iff in Hr. destruct Hr as [t [<- Ht]]. simpl. apply H. exact Ht.
Qed.
Lemma feas_tol_sat vs ts rho : NoDup vs -> covered vs ts ->
  (feas_tol (map (term_to_row vs) ts) (map rho vs) <-> Forall (sat_tol REFINEMENT_TOLERANCE rho) ts).
Proof.
  intros Hn Hc. induction ts as [|t ts IH]; simpl.
  - split; intros; constructor.
  - inversion Hc as [|? ? [Ht Hv] Hc']; subst. rewrite feas_tol_cons, IH by exact Hc'.
    rewrite dot_term_to_row by assumption. simpl snd. rewrite Q2R_tol_bound.
    rewrite Forall_cons_iff. unfold sat_tol. tauto.
Qed.

(* ------------------------------------------------------------------ *)
(** * C07: simplify *)
(* the terms that are actually reduced: self minus the (syntactic) members of the context *)
Definition new_self (ts : list pterm) (ctx : option (list pterm)) : list pterm :=
  match ctx with Some c => list_diff ts c | None => ts end.
Definition simp_vars (ts : list pterm) (ctx : option (list pterm)) : list var :=
  polytope_vars (new_self ts ctx) (opt_list ctx).

Lemma poly_simplify_unfold O ts ctx :
  poly_simplify O ts ctx =
  match simp_vars ts ctx with
  | [] =>
      if existsb (fun t => qlt (tconst t) 0) (opt_list ctx) then raise ValueErr else
      match new_self ts ctx with
      | [] => ret []
      | [t] => ret [row_to_term (simp_vars ts ctx) (term_to_row (simp_vars ts ctx) t)]
      | _ => raise ValueErr
      end
  | _ =>
  bind (reduce_polytope O (simp_vars ts ctx) (map (term_to_row (simp_vars ts ctx)) (new_self ts ctx))
                          (map (term_to_row (simp_vars ts ctx)) (opt_list ctx)))
       (fun red => ret (map (row_to_term (simp_vars ts ctx)) red))
  end.
Proof. reflexivity. Qed.

Lemma incl_new_self ts ctx : incl (new_self ts ctx) ts.
Proof. destruct ctx; simpl; [apply incl_list_diff|apply incl_refl]. Qed.
Lemma subseq_new_self ts ctx : subseq (new_self ts ctx) ts.
Proof. destruct ctx; simpl; [apply subseq_filter|apply subseq_refl]. Qed.
Lemma wfl_new_self ts ctx : wfl ts -> wfl (new_self ts ctx).
Proof. apply wfl_incl. apply incl_new_self. Qed.

(* under wfl the m = 0 branch is only reached with nothing to do, where it agrees with the normal path *)
Lemma poly_simplify_wfl O ts ctx :
  wfl ts -> wfl (opt_list ctx) ->
  poly_simplify O ts ctx =
  bind (reduce_polytope O (simp_vars ts ctx) (map (term_to_row (simp_vars ts ctx)) (new_self ts ctx))
                          (map (term_to_row (simp_vars ts ctx)) (opt_list ctx)))
       (fun red => ret (map (row_to_term (simp_vars ts ctx)) red)).
Proof.
  intros Hts Hctx. rewrite poly_simplify_unfold.
  destruct (simp_vars ts ctx) as [|v l] eqn:E; [|reflexivity].
  destruct (polytope_vars_nil _ _ (wfl_new_self ts ctx Hts) Hctx E) as [E1 E2].
  rewrite E1, E2. reflexivity.
Qed.
Lemma poly_simplify_inl O ts ctx r :
  wfl ts -> wfl (opt_list ctx) ->
  poly_simplify O ts ctx = inl r ->
  exists red, reduce_polytope O (simp_vars ts ctx) (map (term_to_row (simp_vars ts ctx)) (new_self ts ctx))
                                (map (term_to_row (simp_vars ts ctx)) (opt_list ctx)) = inl red
              /\ r = map (row_to_term (simp_vars ts ctx)) red.
Proof.
  intros Hts Hctx. rewrite poly_simplify_wfl by assumption.
  intros H. apply bind_inl in H. destruct H as [red [H1 H2]]. exists red. split; [exact H1|].
  inversion H2. reflexivity.
Qed.

Lemma map_roundtrip vs sub :
  map (row_to_term vs) (map (term_to_row vs) sub) = map (roundtrip vs) sub.
Proof. rewrite map_map. reflexivity. Qed.

(* the result is a sub-sequence of the input, each term rebuilt from its row *)
Theorem simplify_selection O ts ctx r :
  poly_simplify O ts ctx = inl r ->
  exists sub, subseq sub (match ctx with Some c => list_diff ts c | None => ts end) /\
              r = map (fun t => row_to_term (simp_vars ts ctx) (term_to_row (simp_vars ts ctx) t)) sub.
Proof.
  rewrite poly_simplify_unfold. change (match ctx with Some c => list_diff ts c | None => ts end) with (new_self ts ctx).
  destruct (simp_vars ts ctx) as [|v l] eqn:E.
  - (* m = 0 *)
    destruct (existsb _ (opt_list ctx)); [discriminate|].
    destruct (new_self ts ctx) as [|t [|t' ns]]; intros H; try discriminate; inversion H; subst r.
    + exists []. split; constructor.
    + exists [t]. split; [apply subseq_refl|reflexivity].
  - intros H. apply bind_inl in H. destruct H as [red [H Hr]]. inversion Hr; subst r.
    apply reduce_polytope_subseq in H. apply subseq_map_inv in H. destruct H as [sub [Hs ->]].
    exists sub. split; [exact Hs|]. apply map_roundtrip.
Qed.

Corollary simplify_coefficients O ts ctx r :
  wfl ts -> wfl (opt_list ctx) -> poly_simplify O ts ctx = inl r ->
  forall t', In t' r ->
  exists t, In t ts /\ tconst t' = tconst t /\ forall v, (get_coefficient t' v == get_coefficient t v)%Q.
Proof.
  intros Hts Hctx H t' Ht'. apply simplify_selection in H. destruct H as [sub [Hs ->]].
  apply in_map_iff in Ht'. destruct Ht' as [t [<- Ht]]. exists t.
  assert (Hin : In t (new_self ts ctx)) by (eapply subseq_incl; [exact Hs|exact Ht]).
  split; [apply incl_new_self in Hin; exact Hin|]. split; [reflexivity|].
  intros v. apply (roundtrip_coefficient (simp_vars ts ctx) t v).
  intros x Hx. apply in_polytope_vars. exists t. tauto.
Qed.
(* the result, in order, is a sub-sequence of ts up to that rebuilding *)
Corollary simplify_subseq O ts ctx r :
  poly_simplify O ts ctx = inl r ->
  exists sub, subseq sub ts /\ r = map (roundtrip (simp_vars ts ctx)) sub.
Proof.
  intros H. apply simplify_selection in H. destruct H as [sub [Hs ->]]. exists sub.
  split; [|reflexivity]. eapply subseq_trans; [exact Hs|apply subseq_new_self].
Qed.

(* removing the syntactic members of the context does not change the meaning under the context *)
Lemma py_in_term t c : py_in t c = true -> exists t', In t' c /\ term_eqb_p t t' = true.
Proof. unfold py_in. rewrite existsb_exists. intros [t' [H1 H2]]. exists t'. split; assumption. Qed.
Lemma sat_list_diff ts c rho :
  Forall wft ts -> Forall wft c -> sat_list rho c ->
  (sat_list rho (list_diff ts c) <-> sat_list rho ts).
Proof.
  intros Hts Hc Hs. unfold sat_list, list_diff in *. rewrite !Forall_forall in *. split.
  - intros H t Ht. destruct (py_in t c) eqn:E.
    + apply py_in_term in E. destruct E as [t' [Hin He]].
      apply (term_eqb_sat t t' (Hts t Ht) (Hc t' Hin) He rho). apply Hs. exact Hin.
    + apply H. apply filter_In. rewrite E. split; [exact Ht|reflexivity].
  - intros H t Ht. apply filter_In in Ht. apply H. tauto.
Qed.
Lemma sat_new_self ts ctx rho :
  Forall wft ts -> Forall wft (opt_list ctx) -> sat_list rho (opt_list ctx) ->
  (sat_list rho (new_self ts ctx) <-> sat_list rho ts).
Proof. destruct ctx; simpl; [apply sat_list_diff|tauto]. Qed.

Section Simplify.
Variable O : oracle.
Hypothesis HO : lp_spec 0 O.
Variables (ts : list pterm) (ctx : option (list pterm)).
Hypothesis Hts : wfl ts.
Hypothesis Hctx : wfl (opt_list ctx).
Let vs := simp_vars ts ctx.
Let ns := new_self ts ctx.

Local Lemma vs_nodup : NoDup vs.
Proof.
  apply NoDup_polytope_vars; [apply wfl_new_self; exact Hts|apply Hctx].
Qed.
Local Lemma vs_ns : covered vs ns.
Proof. apply covered_polytope_l. apply wfl_new_self. exact Hts. Qed.
Local Lemma vs_ctx : covered vs (opt_list ctx).
Proof. apply covered_polytope_r. apply Hctx. Qed.

Theorem simplify_equiv r :
  poly_simplify O ts ctx = inl r ->
  forall rho, sat_list rho (opt_list ctx) -> (sat_list rho r <-> sat_list rho ts).
Proof.
  intros H rho Hc. apply poly_simplify_inl in H; [|exact Hts|exact Hctx]. fold vs ns in H. destruct H as [red [H ->]].
  pose proof (reduce_polytope_subseq _ _ _ _ _ H) as Hsub.
  apply subseq_map_inv in Hsub. destruct Hsub as [sub [Hs Er]].
  rewrite <- (sat_new_self ts ctx rho) by (try apply Hts; try apply Hctx; exact Hc). fold ns.
  rewrite <- (feas_sat vs ns rho vs_nodup vs_ns).
  rewrite <- (reduce_polytope_equiv O HO (List.length vs) vs _ _ red (wf_rows_terms vs ns) H (map rho vs)).
  - rewrite Er, map_roundtrip. rewrite sat_list_roundtrip.
    + symmetry. apply feas_sat; [apply vs_nodup|].
      eapply covered_incl; [apply subseq_incl; exact Hs|apply vs_ns].
    + apply vs_nodup.
    + eapply covered_incl; [apply subseq_incl; exact Hs|apply vs_ns].
  - apply map_length.
  - apply feas_sat; [apply vs_nodup|apply vs_ctx|exact Hc].
Qed.

Theorem simplify_error :
  poly_simplify O ts ctx = inr ValueErr ->
  forall rho, ~ (sat_list rho ts /\ sat_list rho (opt_list ctx)).
Proof.
  rewrite poly_simplify_wfl by assumption. fold vs ns.
  intros H rho [H1 H2]. apply bind_inr in H. destruct H as [H|[red [_ H]]]; [|discriminate].
  apply (reduce_polytope_error O HO (List.length vs) vs _ _ (wf_rows_terms vs ns) H (map rho vs)).
  - apply map_length.
  - apply feas_app. split.
    + apply feas_sat; [apply vs_nodup|apply vs_ns|].
      apply sat_new_self; [apply Hts|apply Hctx|exact H2|exact H1].
    + apply feas_sat; [apply vs_nodup|apply vs_ctx|exact H2].
Qed.

Hypothesis HT : lp_total O.
Hypothesis Hnz : nz_terms ts.

Theorem simplify_irredundant r :
  poly_simplify O ts ctx = inl r ->
  forall pre t post, r = pre ++ t :: post ->
  exists rho, sat_list rho (opt_list ctx) /\ sat_list rho (pre ++ post) /\ ~ sat rho t.
Proof.
  intros H pre t post E. apply poly_simplify_inl in H; [|exact Hts|exact Hctx]. fold vs ns in H. destruct H as [red [H Er]].
  pose proof (reduce_polytope_subseq _ _ _ _ _ H) as Hsub.
  apply subseq_map_inv in Hsub. destruct Hsub as [sub [Hs Ered]].
  rewrite Ered, map_roundtrip, E in Er. symmetry in Er.
  apply map_eq_app in Er. destruct Er as [s1 [s2' [Esub [E1 E2]]]].
  apply map_eq_cons in E2. destruct E2 as [t0 [s2 [-> [Et E2]]]].
  assert (Hcov : covered vs sub) by (eapply covered_incl; [apply subseq_incl; exact Hs|apply vs_ns]).
  rewrite Esub in Hcov. apply covered_app in Hcov. destruct Hcov as [Hc1 Hc2].
  inversion Hc2 as [|x0 l0 [Hw0 Hv0] Hc2' [Ex El]]. clear Ex El.
  assert (W : witness (List.length vs) (map (term_to_row vs) (opt_list ctx)) (term_to_row vs t0)
                      (map (term_to_row vs) s1 ++ map (term_to_row vs) s2)).
  { apply (reduce_polytope_irredundant O HO (List.length vs) vs _ _ red HT (wf_rows_terms vs ns) H).
    - (* the shortcut: a single constraint, empty context *)
      intros r0 Er0 Ec. destruct ns as [|t1 [|t2 ns']] eqn:Ens; simpl in Er0; try discriminate.
      inversion Er0; subst r0.
      assert (Hin : In t1 ts) by (apply (incl_new_self ts ctx); fold ns; rewrite Ens; left; reflexivity).
      destruct (violable t1) as [rho Hr].
      + destruct Hts as [Hw _]. rewrite Forall_forall in Hw. apply Hw. exact Hin.
      + unfold nz_terms in Hnz. rewrite Forall_forall in Hnz. apply Hnz. exact Hin.
      + eapply all_have_vars_in; [apply Hts|exact Hin].
      + exists (map rho vs). split; [apply map_length|]. split; [apply feas_nil|]. split; [apply feas_nil|].
        pose proof vs_ns as Hcn. fold ns in Hcn. rewrite Ens in Hcn. inversion Hcn as [|? ? [Hw1 Hv1] _]; subst.
        rewrite dot_term_to_row by (try assumption; apply vs_nodup). exact Hr.
    - rewrite Ered, Esub. rewrite map_app. reflexivity. }
  destruct W as [x [Lx [Fc [Fo Hv]]]].
  destruct (point_is_valuation vs x vs_nodup Lx) as [rho ->]. exists rho.
  split; [apply (feas_sat vs _ rho vs_nodup vs_ctx); exact Fc|]. split.
  - rewrite <- E1, <- E2, <- map_app. apply sat_list_roundtrip; [apply vs_nodup|apply covered_app; split; assumption|].
    rewrite <- map_app in Fo. apply (feas_sat vs (s1 ++ s2) rho vs_nodup) in Fo; [exact Fo|].
    apply covered_app; split; assumption.
  - rewrite <- Et. unfold roundtrip. rewrite row_roundtrip by (try assumption; apply vs_nodup).
    rewrite dot_term_to_row in Hv by (try assumption; apply vs_nodup). exact Hv.
Qed.
End Simplify.

Theorem simplify_errors_only O ts ctx e :
  poly_simplify O ts ctx = inr e ->
  e = ValueErr \/ e = OracleMiss.
Proof.
  rewrite poly_simplify_unfold. destruct (simp_vars ts ctx) as [|v l].
  - destruct (existsb _ (opt_list ctx)); [intros H; inversion H; tauto|].
    destruct (new_self ts ctx) as [|t [|t' ns]]; intros H; inversion H; tauto.
  - intros H. apply bind_inr in H. destruct H as [H|[red [_ H]]]; [|discriminate].
    apply reduce_polytope_errors_only in H. tauto.
Qed.
(* under wfl the assertion of the m = 0 branch cannot fail *)
Corollary simplify_errors_only_wfl O ts ctx e :
  wfl ts -> wfl (opt_list ctx) -> poly_simplify O ts ctx = inr e -> e = ValueErr \/ e = OracleMiss.
Proof.
  intros Hts Hctx. rewrite poly_simplify_wfl by assumption.
  intros H. apply bind_inr in H. destruct H as [H|[red [_ H]]]; [|discriminate].
  apply reduce_polytope_errors_only in H. exact H.
Qed.

(* ------------------------------------------------------------------ *)
(** * C03: refines *)
Lemma poly_refines_unfold O A B :
  wfl A -> wfl B -> A <> [] -> B <> [] ->
  poly_refines O A B =
  verify_polytope_containment O (polytope_vars A B)
    (map (term_to_row (polytope_vars A B)) A) (map (term_to_row (polytope_vars A B)) B).
Proof.
  intros HA HB NA NB. pose proof (polytope_vars_nonempty_l A B HA NA) as Hvs.
  destruct A as [|a A]; [congruence|]. destruct B as [|b B]; [congruence|].
  unfold poly_refines. destruct (polytope_vars (a :: A) (b :: B)) as [|v l]; [congruence|reflexivity].
Qed.

Lemma poly_refines_nil_r O A : poly_refines O A [] = inl true.
Proof. destruct A; reflexivity. Qed.
Lemma poly_refines_nil_l O B : B <> [] -> poly_refines O [] B = inl false.
Proof. destruct B; [congruence|reflexivity]. Qed.

Section Refines.
Variable O : oracle.
Hypothesis HO : lp_spec 0 O.
Variables A B : list pterm.
Hypothesis HA : wfl A.
Hypothesis HB : wfl B.
Let vs := polytope_vars A B.

Local Lemma rvs_nodup : NoDup vs.
Proof. apply NoDup_polytope_vars; [apply HA|apply HB]. Qed.
Local Lemma rvs_A : covered vs A.
Proof. apply covered_polytope_l. apply HA. Qed.
Local Lemma rvs_B : covered vs B.
Proof. apply covered_polytope_r. apply HB. Qed.
Local Lemma rvs_ne : A <> [] -> vs <> [].
Proof. apply polytope_vars_nonempty_l. exact HA. Qed.

Theorem refines_sound :
  small_consts B ->
  poly_refines O A B = inl true ->
  forall rho, sat_list rho A -> Forall (sat_tol REFINEMENT_TOLERANCE rho) B.
Proof.
  intros Hsm H rho Hs. destruct (nil_or_not B) as [EB|NB]; [rewrite EB; constructor|].
  destruct (nil_or_not A) as [EA|NA]; [rewrite EA, poly_refines_nil_l in H by exact NB; discriminate|].
  rewrite poly_refines_unfold in H by assumption. fold vs in H.
  apply (feas_tol_sat vs B rho rvs_nodup rvs_B).
  apply (vpc_true O HO vs (rvs_ne NA) _ _ (wf_rows_terms vs B) (small_rows_terms vs B Hsm) H (map rho vs)).
  - apply map_length.
  - apply (feas_sat vs A rho rvs_nodup rvs_A). exact Hs.
Qed.

(* Answer False.  When A is empty the code answers False without looking at B; a nonempty B of
   genuine constraints (no stored zero coefficient) is violable by any amount.  Otherwise some
   point of A violates B exactly; it violates B beyond the tolerance provided B itself has a
   point (the emptiness pre-check of B is exact, not tolerant). *)
Lemma refines_false_witness_both :
  (A = [] -> nz_terms B) ->
  poly_refines O A B = inl false ->
  exists rho, sat_list rho A /\ ~ sat_list rho B /\
    (small_consts B -> (exists rho', sat_list rho' B) -> ~ Forall (sat_tol REFINEMENT_TOLERANCE rho) B).
Proof.
  intros Hz H. destruct (nil_or_not B) as [EB|NB]; [rewrite EB, poly_refines_nil_r in H; discriminate|].
  destruct (nil_or_not A) as [EA|NA].
  - destruct (violable_list_tol REFINEMENT_TOLERANCE B HB (Hz EA) NB) as [rho Hr]. exists rho.
    split; [rewrite EA; constructor|]. split; [|intros _ _; exact Hr].
    intros Hs. apply Hr. apply sat_list_tol. exact Hs.
  - rewrite poly_refines_unfold in H by assumption. fold vs in H.
    apply (vpc_false O HO vs (rvs_ne NA) _ _ (wf_rows_terms vs B)) in H.
    destruct H as [x [Lx [Fa [Fb Ft]]]].
    destruct (point_is_valuation vs x rvs_nodup Lx) as [rho ->]. exists rho. split; [|split].
    + apply (feas_sat vs A rho rvs_nodup rvs_A). exact Fa.
    + intros Hs. apply Fb. apply (feas_sat vs B rho rvs_nodup rvs_B). exact Hs.
    + intros Hsm [rho' Hs'] Hs. apply Ft.
      * apply small_rows_terms. exact Hsm.
      * exists (map rho' vs). split; [apply map_length|]. apply (feas_sat vs B rho' rvs_nodup rvs_B). exact Hs'.
      * apply (feas_tol_sat vs B rho rvs_nodup rvs_B). exact Hs.
Qed.
Theorem refines_false_witness :
  small_consts B -> (exists rho', sat_list rho' B) -> (A = [] -> nz_terms B) ->
  poly_refines O A B = inl false ->
  exists rho, sat_list rho A /\ ~ Forall (sat_tol REFINEMENT_TOLERANCE rho) B.
Proof.
  intros Hsm Hf Hz H. destruct (refines_false_witness_both Hz H) as [rho [H1 [_ H3]]].
  exists rho. split; [exact H1|]. apply H3; assumption.
Qed.
Corollary refines_false_witness_exact :
  (A = [] -> nz_terms B) ->
  poly_refines O A B = inl false -> exists rho, sat_list rho A /\ ~ sat_list rho B.
Proof.
  intros Hz H. destruct (refines_false_witness_both Hz H) as [rho [H1 [H2 _]]]. exists rho. tauto.
Qed.

Hypothesis HT : lp_total O.

(* LpUnbounded / LpOther would raise TypeError in the containment loop: LpOther is excluded by
   lp_total, LpUnbounded by lp_spec (the relaxed row bounds the objective) *)
Theorem refines_errors : exists b, poly_refines O A B = inl b.
Proof.
  destruct (nil_or_not B) as [EB|NB]; [exists true; rewrite EB; apply poly_refines_nil_r|].
  destruct (nil_or_not A) as [EA|NA]; [exists false; rewrite EA; apply poly_refines_nil_l; exact NB|].
  rewrite poly_refines_unfold by assumption.
  apply vpc_total; assumption.
Qed.

Theorem refines_complete :
  (A = [] -> nz_terms B) ->
  (forall rho, sat_list rho A -> sat_list rho B) -> poly_refines O A B = inl true.
Proof.
  intros Hz Himp. destruct refines_errors as [[|] Hb]; [exact Hb|].
  exfalso. destruct (refines_false_witness_exact Hz Hb) as [rho [H1 H2]]. apply H2. apply Himp. exact H1.
Qed.

Corollary refines_infeasible_left :
  (forall rho, ~ sat_list rho A) -> poly_refines O A B = inl true.
Proof.
  intros Hinf. apply refines_complete.
  - intros EA. exfalso. apply (Hinf (fun _ => 0)). rewrite EA. constructor.
  - intros rho Hs. exfalso. apply (Hinf rho Hs).
Qed.
Corollary refines_infeasible_right :
  (exists rho, sat_list rho A) -> (forall rho, ~ sat_list rho B) -> poly_refines O A B = inl false.
Proof.
  intros [rho Hs] Hinf.
  destruct (nil_or_not B) as [EB|NB]; [exfalso; apply (Hinf rho); rewrite EB; constructor|].
  destruct (nil_or_not A) as [EA|NA]; [rewrite EA; apply poly_refines_nil_l; exact NB|].
  rewrite poly_refines_unfold by assumption. fold vs.
  apply (vpc_infeasible_right O HO vs (rvs_ne NA) _ _ HT).
  - exists (map rho vs). split; [apply map_length|]. apply (feas_sat vs A rho rvs_nodup rvs_A). exact Hs.
  - intros y Ly Fy. destruct (point_is_valuation vs y rvs_nodup Ly) as [rho' ->].
    apply (Hinf rho'). apply (feas_sat vs B rho' rvs_nodup rvs_B). exact Fy.
Qed.
Corollary refines_sublist : incl B A -> poly_refines O A B = inl true.
Proof.
  intros Hi. apply refines_complete.
  - intros EA. destruct (nil_or_not B) as [EB|NB]; [rewrite EB; constructor|]. exfalso.
    rewrite EA in Hi. apply NB. apply incl_l_nil. exact Hi.
  - intros rho Hs. unfold sat_list in *. rewrite Forall_forall in *. intros t Ht. apply Hs. apply Hi. exact Ht.
Qed.
End Refines.

Corollary refines_refl O A : lp_spec 0 O -> lp_total O -> wfl A -> poly_refines O A A = inl true.
Proof. intros HO HT HA. apply refines_sublist; try assumption. apply incl_refl. Qed.

(* ------------------------------------------------------------------ *)
(** * C11: is_empty *)
Lemma poly_is_empty_unfold O ts :
  poly_is_empty O ts =
  is_polytope_empty O (polytope_vars ts []) (map (term_to_row (polytope_vars ts [])) ts).
Proof. reflexivity. Qed.

Section IsEmpty.
Variable O : oracle.
Variable ts : list pterm.
Hypothesis Hts : wfl ts.

Lemma poly_is_empty_total : lp_total O -> exists b, poly_is_empty O ts = inl b.
Proof. intros HT. rewrite poly_is_empty_unfold. apply is_polytope_empty_total. exact HT. Qed.
Lemma poly_is_empty_errors_only e : poly_is_empty O ts = inr e -> e = ValueErr \/ e = OracleMiss.
Proof.
  rewrite poly_is_empty_unfold. unfold is_polytope_empty.
  destruct (map _ ts); [discriminate|]. destruct (Nat.eqb _ 0); [discriminate|].
  destruct (O _); intros H; inversion H; tauto.
Qed.
Lemma poly_is_empty_not_valueerr : lp_total O -> poly_is_empty O ts <> inr ValueErr.
Proof. intros HT H. destruct (poly_is_empty_total HT) as [b Hb]. congruence. Qed.

Hypothesis HO : lp_spec 0 O.

Lemma poly_is_empty_true : poly_is_empty O ts = inl true -> forall rho, ~ sat_list rho ts.
Proof.
  rewrite poly_is_empty_unfold. set (vs := polytope_vars ts []).
  assert (Hn : NoDup vs) by (apply NoDup_polytope_vars; [apply Hts|constructor]).
  assert (Hc : covered vs ts) by (apply covered_polytope_l; apply Hts).
  intros H rho Hs. apply (is_polytope_empty_true O HO _ _ H (map rho vs)).
  - apply map_length.
  - apply feas_sat; assumption.
Qed.
Lemma poly_is_empty_false : poly_is_empty O ts = inl false -> exists rho, sat_list rho ts.
Proof.
  rewrite poly_is_empty_unfold. set (vs := polytope_vars ts []).
  assert (Hn : NoDup vs) by (apply NoDup_polytope_vars; [apply Hts|constructor]).
  assert (Hc : covered vs ts) by (apply covered_polytope_l; apply Hts).
  assert (Hne : map (term_to_row vs) ts = [] \/ vs <> []).
  { destruct (nil_or_not ts) as [E|E]; [left; rewrite E; reflexivity|right].
    apply polytope_vars_nonempty_l; assumption. }
  intros Hb. apply (is_polytope_empty_false O HO vs _ Hne) in Hb. destruct Hb as [x [Lx Fx]].
  destruct (point_is_valuation vs x Hn Lx) as [rho ->]. exists rho.
  apply (feas_sat vs ts rho Hn Hc). exact Fx.
Qed.
End IsEmpty.

Theorem is_empty_iff O ts :
  lp_spec 0 O -> lp_total O -> wfl ts ->
  (poly_is_empty O ts = inl true <-> forall rho, ~ sat_list rho ts) /\
  (exists b, poly_is_empty O ts = inl b).
Proof.
  intros HO HT Hts. split; [|apply poly_is_empty_total; assumption].
  split; [apply poly_is_empty_true; assumption|].
  intros Hinf. destruct (poly_is_empty_total O ts HT) as [[|] Hb]; [exact Hb|].
  exfalso. destruct (poly_is_empty_false O ts Hts HO Hb) as [rho Hr]. apply (Hinf rho Hr).
Qed.

(* ------------------------------------------------------------------ *)
(** * C12: optimize *)
Definition opt_obj (objective : pvars) : pterm := mk_term objective 0.
Definition opt_vars (ts : list pterm) (objective : pvars) : list var := polytope_vars ts [opt_obj objective].
Definition opt_polarity (mx : bool) : Q := if mx then (-(1))%Q else 1%Q.
Definition opt_lp (ts : list pterm) (objective : pvars) (mx : bool) : lp_problem :=
  mkLP (opt_vars ts objective)
       (map (fun q => qmul (opt_polarity mx) q) (fst (term_to_row (opt_vars ts objective) (opt_obj objective))))
       (map (term_to_row (opt_vars ts objective)) ts).

Lemma poly_optimize_unfold O ts objective mx :
  wfl ts -> ts <> [] ->
  poly_optimize O ts objective mx =
  match O (opt_lp ts objective mx) with
  | LpUnbounded => ret None
  | LpOpt f _ => ret (Some (qmul (opt_polarity mx) f))
  | LpInfeasible => bind (poly_is_empty O ts) (fun e => if e then raise ValueErr else ret None)
  | LpOther _ => raise ValueErr
  | LpMiss => raise OracleMiss
  end.
Proof.
  intros Hts Hne. pose proof (polytope_vars_nonempty_l ts [opt_obj objective] Hts Hne) as Hvs.
  destruct ts as [|t ts]; [congruence|].
  unfold poly_optimize, opt_lp, opt_vars, opt_obj in *.
  destruct (polytope_vars (t :: ts) [mk_term objective 0]) as [|v l]; [congruence|reflexivity].
Qed.
Lemma poly_optimize_nil O objective mx r : poly_optimize O [] objective mx <> inl r.
Proof. discriminate. Qed.

Lemma Q2R_polarity mx : Q2R (opt_polarity mx) = if mx then -1 else 1.
Proof. destruct mx; simpl; [rewrite Q2R_opp, Q2R_1; reflexivity|apply Q2R_1]. Qed.

Section Optimize.
Variable O : oracle.
Hypothesis HO : lp_spec 0 O.
Variables (ts : list pterm) (objective : pvars) (mx : bool).
Hypothesis Hts : wfl ts.
Hypothesis Hobj : NoDup (keys objective).
Let vs := opt_vars ts objective.
Let P := opt_lp ts objective mx.

Local Lemma ovs_nodup : NoDup vs.
Proof.
  apply NoDup_polytope_vars; [apply Hts|]. constructor; [|constructor]. apply wft_mk_term. exact Hobj.
Qed.
Local Lemma ovs_ts : covered vs ts.
Proof. apply covered_polytope_l. apply Hts. Qed.
Local Lemma ovs_obj : covered vs [opt_obj objective].
Proof.
  apply covered_polytope_r. constructor; [|constructor]. apply wft_mk_term. exact Hobj.
Qed.
Local Lemma opt_point x : point_of P x <-> List.length x = List.length vs.
Proof. unfold point_of, dim, P, opt_lp. simpl. rewrite !map_length. tauto. Qed.
Local Lemma opt_feas rho : feas (lp_rows P) (map rho vs) <-> sat_list rho ts.
Proof. unfold P, opt_lp. simpl. apply feas_sat; [apply ovs_nodup|apply ovs_ts]. Qed.
Local Lemma opt_value rho :
  dot (lp_obj P) (map rho vs) = (if mx then -1 else 1) * lin rho objective.
Proof.
  unfold P, opt_lp. cbn [lp_obj]. rewrite dot_map_qmul, Q2R_polarity. f_equal.
  pose proof ovs_obj as Hc. inversion Hc as [|? ? [Hw Hv] _]; subst.
  fold vs. rewrite dot_term_to_row by (try assumption; apply ovs_nodup).
  unfold opt_obj. apply lin_mk_term.
Qed.
(* every point of the LP is a valuation *)
Local Lemma opt_points (Q : list R -> Prop) :
  (exists x, point_of P x /\ Q x) -> exists rho, Q (map rho vs).
Proof.
  intros [x [Px Qx]]. apply opt_point in Px.
  destruct (point_is_valuation vs x ovs_nodup Px) as [rho ->]. exists rho. exact Qx.
Qed.
Local Lemma opt_unbounded :
  unbounded_below P ->
  forall bound, exists rho, sat_list rho ts /\
    (if mx then bound < lin rho objective else lin rho objective < bound).
Proof.
  intros Hu bound.
  destruct (opt_points (fun x => feas (lp_rows P) x /\
              dot (lp_obj P) x < (if mx then - bound else bound))) as [rho [Fx Vx]].
  { destruct (Hu (if mx then - bound else bound)) as [x Hx]. exists x. exact Hx. }
  exists rho. split; [apply opt_feas; exact Fx|]. rewrite opt_value in Vx. destruct mx; lra.
Qed.

Theorem optimize_some v :
  poly_optimize O ts objective mx = inl (Some v) ->
  (exists rho, sat_list rho ts /\ lin rho objective = Q2R v) /\
  (forall rho, sat_list rho ts ->
     if mx then lin rho objective <= Q2R v else Q2R v <= lin rho objective).
Proof.
  intros H. destruct (nil_or_not ts) as [Ets|Nts]; [rewrite Ets in H; discriminate|].
  rewrite poly_optimize_unfold in H by assumption. fold P in H.
  pose proof (HO P) as Hs. destruct (O P) as [f s| | |st|]; try discriminate.
  2:{ apply bind_inl in H. destruct H as [[|] [_ H]]; discriminate. }
  inversion H; subst v. clear H. destruct Hs as [Hex Hall]. rewrite Q2R_0 in *.
  assert (Hall' : forall rho, sat_list rho ts -> Q2R f <= (if mx then -1 else 1) * lin rho objective).
  { intros rho Hs. rewrite <- opt_value. specialize (Hall (map rho vs)). 
    assert (Q2R f - 0 <= dot (lp_obj P) (map rho vs)); [|lra].
    apply Hall; [apply opt_point; apply map_length|apply opt_feas; exact Hs]. }
  rewrite Q2R_qmul, Q2R_polarity. split.
  - destruct (opt_points (fun x => feas (lp_rows P) x /\ dot (lp_obj P) x <= Q2R f + 0)) as [rho [Fx Vx]].
    { destruct Hex as [x Hx]. exists x. exact Hx. }
    apply opt_feas in Fx. exists rho. split; [exact Fx|]. rewrite opt_value in Vx.
    specialize (Hall' rho Fx). destruct mx; lra.
  - intros rho Hs. specialize (Hall' rho Hs). destruct mx; lra.
Qed.

(* status 2 (LpInfeasible: "infeasible or unbounded") with a non-empty constraint set *)
Local Lemma opt_infeasible_nonempty :
  (forall x, point_of P x -> ~ feas (lp_rows P) x) \/ unbounded_below P ->
  (exists rho, sat_list rho ts) -> unbounded_below P.
Proof.
  intros [Hinf|Hu] [rho Hs]; [|exact Hu]. exfalso.
  apply (Hinf (map rho vs)); [apply opt_point; apply map_length|apply opt_feas; exact Hs].
Qed.

Theorem optimize_none :
  poly_optimize O ts objective mx = inl None ->
  (exists rho, sat_list rho ts) /\
  forall bound, exists rho, sat_list rho ts /\
    (if mx then bound < lin rho objective else lin rho objective < bound).
Proof.
  intros H. destruct (nil_or_not ts) as [Ets|Nts]; [rewrite Ets in H; discriminate|].
  rewrite poly_optimize_unfold in H by assumption. fold P in H.
  pose proof (HO P) as Hs. destruct (O P) as [f s| | |st|]; try discriminate.
  - (* status 2, then is_empty() = False *)
    apply bind_inl in H. destruct H as [[|] [He H]]; [discriminate|].
    pose proof (poly_is_empty_false O ts Hts HO He) as Hne.
    split; [exact Hne|]. apply opt_unbounded. apply opt_infeasible_nonempty; assumption.
  - destruct Hs as [Hex Hu]. split.
    + destruct (opt_points (fun x => feas (lp_rows P) x)) as [rho Fx]; [exact Hex|].
      exists rho. apply opt_feas. exact Fx.
    + apply opt_unbounded. exact Hu.
Qed.

Hypothesis Nts : ts <> [].
Hypothesis HT : lp_total O.

(* ValueError exactly when the constraint set is empty *)
Theorem optimize_error :
  poly_optimize O ts objective mx = inr ValueErr -> forall rho, ~ sat_list rho ts.
Proof.
  intros H. rewrite poly_optimize_unfold in H by assumption. fold P in H.
  pose proof (HT P) as Ht.
  destruct (O P) as [f s| | |st|]; try discriminate; try contradiction.
  apply bind_inr in H. destruct H as [H|[[|] [He H]]].
  - exfalso. apply (poly_is_empty_not_valueerr O ts HT H).
  - apply (poly_is_empty_true O ts Hts HO He).
  - discriminate.
Qed.
Theorem optimize_empty_raises :
  (forall rho, ~ sat_list rho ts) -> poly_optimize O ts objective mx = inr ValueErr.
Proof.
  intros Hinf. rewrite poly_optimize_unfold by assumption. fold P.
  assert (Hno : ~ exists x, point_of P x /\ feas (lp_rows P) x).
  { intros Hex. destruct (opt_points (fun x => feas (lp_rows P) x) Hex) as [rho Fx].
    apply (Hinf rho). apply opt_feas. exact Fx. }
  pose proof (HO P) as Hs. pose proof (HT P) as Ht.
  destruct (O P) as [f s| | |st|]; try contradiction.
  - exfalso. apply Hno. destruct Hs as [[x [Px [Fx _]]] _]. exists x. tauto.
  - destruct (poly_is_empty_total O ts HT) as [[|] He]; rewrite He; [reflexivity|].
    exfalso. destruct (poly_is_empty_false O ts Hts HO He) as [rho Hr]. apply (Hinf rho Hr).
  - exfalso. apply Hno. apply Hs.
Qed.
(* None exactly when the objective is unbounded (in the requested direction) over a non-empty set *)
Theorem optimize_unbounded_none :
  (exists rho, sat_list rho ts) ->
  (forall bound, exists rho, sat_list rho ts /\
     (if mx then bound < lin rho objective else lin rho objective < bound)) ->
  poly_optimize O ts objective mx = inl None.
Proof.
  intros Hne Hunb. rewrite poly_optimize_unfold by assumption. fold P.
  pose proof (HO P) as Hs. pose proof (HT P) as Ht.
  destruct (O P) as [f s| | |st|]; try contradiction.
  - exfalso. destruct Hs as [_ Hall]. rewrite Q2R_0 in Hall.
    destruct (Hunb (if mx then - Q2R f else Q2R f)) as [rho [Hr Hv]].
    assert (Q2R f - 0 <= dot (lp_obj P) (map rho vs)).
    { apply Hall; [apply opt_point; apply map_length|apply opt_feas; exact Hr]. }
    rewrite opt_value in H. destruct mx; lra.
  - destruct (poly_is_empty_total O ts HT) as [[|] He]; rewrite He; [|reflexivity].
    exfalso. destruct Hne as [rho Hr]. apply (poly_is_empty_true O ts Hts HO He rho Hr).
  - reflexivity.
Qed.
End Optimize.

Theorem optimize_errors_only O ts objective mx e :
  poly_optimize O ts objective mx = inr e -> e = ValueErr \/ e = OracleMiss.
Proof.
  unfold poly_optimize. destruct ts as [|t0 ts']; [intros H; inversion H; tauto|].
  destruct (polytope_vars _ _); [intros H; inversion H; tauto|].
  destruct (O _); intros H; try (inversion H; tauto).
  apply bind_inr in H. destruct H as [H|[[|] [_ H]]].
  - eapply poly_is_empty_errors_only; eassumption.
  - inversion H; tauto.
  - discriminate.
Qed.

Theorem optimize_bounds O ts objective lo hi :
  lp_spec 0 O -> wfl ts -> NoDup (keys objective) ->
  poly_optimize O ts objective true = inl (Some hi) ->
  poly_optimize O ts objective false = inl (Some lo) ->
  forall rho, sat_list rho ts -> Q2R lo <= lin rho objective <= Q2R hi.
Proof.
  intros HO Hts Hobj Hhi Hlo rho Hs.
  destruct (optimize_some O HO ts objective true Hts Hobj hi Hhi) as [_ H1].
  destruct (optimize_some O HO ts objective false Hts Hobj lo Hlo) as [_ H2].
  specialize (H1 rho Hs). specialize (H2 rho Hs). simpl in *. lra.
Qed.

(* ------------------------------------------------------------------ *)
(** * Non-vacuity: the definitions run.
   ts = [x + y <= 1; x + y <= 2], context [x <= 5]; the replay table holds the two LP answers
   (maximise x + y subject to the other rows, the row itself relaxed by 1, and the context). *)
Local Open Scope string_scope.
Definition ex_ts : list pterm :=
  [ mkT [("x", 1%Q); ("y", 1%Q)] 1%Q ; mkT [("x", 1%Q); ("y", 1%Q)] 2%Q ].
Definition ex_ctx : list pterm := [ mkT [("x", 1%Q)] 5%Q ].
Definition ex_tbl : list (lp_problem * lp_answer) :=
  [ (mkLP ["x"; "y"] [(-1)%Q; (-1)%Q] [([1%Q; 1%Q], 2%Q); ([1%Q; 1%Q], 2%Q); ([1%Q; 0%Q], 5%Q)], LpOpt (-2)%Q []) ;
    (mkLP ["x"; "y"] [(-1)%Q; (-1)%Q] [([1%Q; 1%Q], 1%Q); ([1%Q; 1%Q], 3%Q); ([1%Q; 0%Q], 5%Q)], LpOpt (-1)%Q []) ].
Example simplify_runs :
  poly_simplify (table_oracle 0 ex_tbl) ex_ts (Some ex_ctx) = inl [ mkT [("x", 1%Q); ("y", 1%Q)] 1%Q ].
Proof. vm_compute. reflexivity. Qed.

(* Why [nz_terms] is assumed in simplify_irredundant / refines_complete / refines_false_witness:
   a term that stores a zero coefficient (impossible for a Python PolyhedralTerm, whose __init__
   drops them) passes the "has a variable" test but is a trivial constraint. *)
Definition ex_zero : pterm := mkT [("x", 0%Q)] 5%Q.
Lemma ex_zero_wfl : wfl [ex_zero].
Proof. split; [|reflexivity]. constructor; [|constructor]. unfold wft. simpl. constructor; [intros []|constructor]. Qed.
Lemma ex_zero_sat rho : sat rho ex_zero.
Proof. unfold sat, ex_zero. simpl. unfold Q2R. simpl. lra. Qed.
Example refines_empty_left_zero O :
  poly_refines O [] [ex_zero] = inl false /\ (forall rho, sat_list rho [] -> sat_list rho [ex_zero]).
Proof. split; [reflexivity|]. intros rho _. constructor; [apply ex_zero_sat|constructor]. Qed.
Example simplify_single_zero O :
  poly_simplify O [ex_zero] None = inl [mkT [] 5%Q] /\ (forall rho, sat rho (mkT [] 5%Q)).
Proof. split; [reflexivity|]. intros rho. unfold sat. simpl. unfold Q2R. simpl. lra. Qed.
Local Close Scope string_scope.

Print Assumptions simplify_equiv.
Print Assumptions refines_complete.
Print Assumptions is_empty_iff.
Print Assumptions optimize_some.
