(* GrammarGenBase.v — pointwise equality of parsers (no functional extensionality), its congruence rules for the
   combinators of model/Grammar.v and base/PyParsing.v, the monad laws, and when pyparsing's Or (longest match,
   por) is an ordered choice (alt).  Used by proofs/GrammarGen{Tokens,Terms,Expr,Facts}.v. *)
From Coq Require Import List String Ascii Bool NArith ZArith QArith Arith Lia.
Import ListNotations.
Require Import Py Ast Grammar PyParsing.
Local Open Scope string_scope.

Definition peq {A} (p q : parser A) : Prop := forall s, p s = q s.

Lemma peq_refl {A} (p : parser A) : peq p p.
Proof. intros s; reflexivity. Qed.
Lemma peq_sym {A} (p q : parser A) : peq p q -> peq q p.
Proof. intros H s; symmetry; apply H. Qed.
Lemma peq_trans {A} (p q r : parser A) : peq p q -> peq q r -> peq p r.
Proof. intros H1 H2 s; rewrite H1; apply H2. Qed.

(* ---------------------------------------------------------------- congruence *)
Lemma peq_bind {A B} (p p' : parser A) (f f' : A -> parser B) :
  peq p p' -> (forall a, peq (f a) (f' a)) -> peq (bind p f) (bind p' f').
Proof. intros Hp Hf s; unfold bind; rewrite Hp; destruct (p' s); auto; apply Hf. Qed.
Lemma peq_alt {A} (p p' q q' : parser A) : peq p p' -> peq q q' -> peq (alt p q) (alt p' q').
Proof. intros Hp Hq s; unfold alt; rewrite Hp; destruct (p' s); auto. Qed.
Lemma peq_opt {A} (p p' : parser A) : peq p p' -> peq (opt p) (opt p').
Proof. intros Hp s; unfold opt; rewrite Hp; reflexivity. Qed.
Lemma peq_many_f {A} (p p' : parser A) : peq p p' -> forall m, peq (many_f p m) (many_f p' m).
Proof.
  intros Hp m; induction m as [|m IH]; intros s; simpl; [reflexivity|].
  rewrite Hp; destruct (p' s); auto. rewrite IH; reflexivity.
Qed.
Lemma peq_many {A} (p p' : parser A) : peq p p' -> peq (many p) (many p').
Proof. intros Hp s; unfold many; apply peq_many_f, Hp. Qed.
Lemma peq_many1 {A} (p p' : parser A) : peq p p' -> peq (many1 p) (many1 p').
Proof.
  intros Hp; unfold many1. apply peq_bind; [exact Hp|intros a].
  apply peq_bind; [apply peq_many, Hp | intros l; apply peq_refl].
Qed.
Lemma peq_por {A} (p p' q q' : parser A) : peq p p' -> peq q q' -> peq (por p q) (por p' q').
Proof. intros Hp Hq s; unfold por; rewrite Hp, Hq; reflexivity. Qed.
Lemma peq_combine {A} (p p' : parser A) : peq p p' -> peq (combine p) (combine p').
Proof. intros Hp s; unfold combine; apply Hp. Qed.
Lemma peq_or_actions (p p' : parser cexpr) : peq p p' -> peq (or_actions p) (or_actions p').
Proof. intros Hp; unfold or_actions; apply peq_bind; [exact Hp | intros a; apply peq_refl]. Qed.

(* ---------------------------------------------------------------- monad laws *)
Lemma peq_bind_assoc {A B C} (p : parser A) (f : A -> parser B) (g : B -> parser C) :
  peq (bind (bind p f) g) (bind p (fun a => bind (f a) g)).
Proof. intros s; unfold bind; destruct (p s); reflexivity. Qed.
Lemma peq_ret_bind {A B} (a : A) (f : A -> parser B) : peq (bind (ret a) f) (f a).
Proof. intros s; reflexivity. Qed.
Lemma peq_bind_ret {A} (p : parser A) : peq (bind p (fun x => ret x)) p.
Proof. intros s; unfold bind, ret; destruct (p s); reflexivity. Qed.
Lemma peq_alt_assoc {A} (p q r : parser A) : peq (alt (alt p q) r) (alt p (alt q r)).
Proof. intros s; unfold alt; destruct (p s); reflexivity. Qed.

(* one congruence step on a goal  peq _ _ ; the leaves are closed by `leaf` *)
Ltac peq_step leaf :=
  first [ leaf
        | apply peq_refl
        | apply peq_bind; [ | intro; cbv beta ]
        | apply peq_alt
        | apply peq_opt
        | apply peq_many
        | apply peq_many1
        | apply peq_or_actions
        | apply peq_por
        | apply peq_combine ].
Ltac peq_auto leaf := repeat (peq_step leaf).
(* re-association of nested binds on either side (the translator binds the result of an inlined rule, the hand
   model writes the sequence flat, or the other way round) *)
Ltac peq_norm1 :=
  match goal with
  | |- peq (bind (bind _ _) _) _ => eapply peq_trans; [apply peq_bind_assoc|]
  | |- peq (bind (ret _) _) _ => eapply peq_trans; [apply peq_ret_bind|]; cbv beta
  | |- peq _ (bind (bind _ _) _) => eapply peq_trans; [|apply peq_sym, peq_bind_assoc]
  | |- peq _ (bind (ret _) _) => eapply peq_trans; [|apply peq_sym, peq_ret_bind]; cbv beta
  end.
Ltac peq_solve leaf := repeat first [ peq_norm1 | peq_step leaf ].

(* ---------------------------------------------------------------- Or as an ordered choice *)
(* when the first alternative matches, the second one fails: longest match = first match *)
Lemma por_alt_disjoint {A} (p q : parser A) :
  (forall s a r, p s = ROk a r -> q s = RFail) -> peq (por p q) (alt p q).
Proof.
  intros H s; unfold por, alt. destruct (p s) as [a r| | |] eqn:E; auto.
  rewrite (H _ _ _ E); reflexivity.
Qed.
(* when both match, the first alternative consumed at least as much *)
Lemma por_alt_longer {A} (p q : parser A) :
  (forall s a r, p s = ROk a r -> match q s with
                                  | ROk _ r' => (String.length r <= String.length r')%nat
                                  | RFail => True
                                  | _ => False
                                  end) ->
  peq (por p q) (alt p q).
Proof.
  intros H s; unfold por, alt. destruct (p s) as [a r| | |] eqn:E; auto.
  specialize (H _ _ _ E). destruct (q s) as [b r'| | |]; try tauto.
  destruct (Nat.ltb_spec (String.length r') (String.length r)); [lia | reflexivity].
Qed.

(* the first significant character decides *)
Lemma lit_raw_char c t s a r : lit_raw (String c t) s = ROk a r -> exists s', s = String c s'.
Proof.
  unfold lit_raw; simpl. destruct s as [|b s']; [discriminate|].
  destruct (Ascii.eqb c b) eqn:E; [|discriminate]. apply Ascii.eqb_eq in E; subst. eauto.
Qed.
Lemma lit_raw_other c t b s : Ascii.eqb c b = false -> lit_raw (String c t) (String b s) = @RFail unit.
Proof. intros E; unfold lit_raw; simpl; rewrite E; reflexivity. Qed.
