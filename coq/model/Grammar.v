(* Grammar.v — executable model of pacti's constraint grammar
   (pacti/terms/polyhedra/syntax/grammar.py, a pyparsing 3.x grammar) as a function from strings to the
   surface syntax trees of Ast.v:   which strings  expression.parse_string(s, parse_all=True)  accepts,
   and which grammar alternative fires where.  Definitions only; facts are in proofs/GrammarFacts.v;
   the correspondence with the real pyparsing grammar is tested by harness/grammar_cases.py.

   The model is a character-level recursive-descent parser that mirrors the grammar rule by rule with
   pyparsing's PEG semantics:
     - `|`  (MatchFirst) is ordered choice: the first alternative that matches wins and is never revisited;
     - `^`  (Or) is longest match; every use in grammar.py has alternatives with disjoint first characters
            (digit or "." against "(",  and "==" against "="), so it is an ordered choice here too;
     - `+`  (And) is sequencing; Optional / ZeroOrMore / OneOrMore are greedy and never give back;
     - whitespace " \t\n\r" is skipped before every token, except inside the Combine'd float literal and
       inside a Word;
     - parse_all=True: after `expression` only whitespace may remain (no backtracking into `expression`).
   Recursion is structural on a fuel argument; running out of fuel is a distinct outcome (ROut / OutOfFuel),
   proved impossible for fuel > length of the input (GrammarFacts.parse_expr_total).
   A fourth outcome, RDiv / DivZero, models the ZeroDivisionError that escapes from pacti's parser when a
   parenthesised constant expression divides by zero: constants are evaluated inside parse actions, and parse
   actions also run in alternatives that are abandoned later, so the exception is not a ParseException, is not
   caught by `|`, Optional or ZeroOrMore, and can escape even on strings the grammar would otherwise reject. *)
From Coq Require Import List String Ascii Bool NArith ZArith QArith Arith.
Import ListNotations.
Require Import Py Ast.
Local Open Scope string_scope.

(* ---------------------------------------------------------------- characters *)
Definition in_range (lo hi c : ascii) : bool :=
  (N.leb (N_of_ascii lo) (N_of_ascii c)) && (N.leb (N_of_ascii c) (N_of_ascii hi)).
Definition is_digit (c : ascii) : bool := in_range "0" "9" c.
Definition is_alpha (c : ascii) : bool := in_range "a" "z" c || in_range "A" "Z" c.
Definition is_word_char (c : ascii) : bool := is_alpha c || is_digit c || Ascii.eqb c "_".
(* pyparsing's DEFAULT_WHITE_CHARS = " \n\t\r" *)
Definition is_ws (c : ascii) : bool :=
  let n := N_of_ascii c in N.eqb n 32 || N.eqb n 9 || N.eqb n 10 || N.eqb n 13.

Fixpoint skip_ws (s : string) : string :=
  match s with
  | String c r => if is_ws c then skip_ws r else s
  | EmptyString => s
  end.

Fixpoint take_while (f : ascii -> bool) (s : string) : string * string :=
  match s with
  | String c r => if f c then let '(w, r') := take_while f r in (String c w, r') else (EmptyString, s)
  | EmptyString => (EmptyString, s)
  end.

(* strip_prefix t s = Some r  iff  s = t ++ r *)
Fixpoint strip_prefix (t s : string) : option string :=
  match t with
  | EmptyString => Some s
  | String a t' => match s with
                   | String b s' => if Ascii.eqb a b then strip_prefix t' s' else None
                   | EmptyString => None
                   end
  end.

(* ---------------------------------------------------------------- parser combinators (PEG) *)
Inductive res (A : Type) :=
| ROk (a : A) (rest : string)     (* matched; the unconsumed input *)
| RFail                           (* pyparsing: ParseException (caught by |, Optional, ZeroOrMore) *)
| ROut                            (* the model ran out of fuel *)
| RDiv.                           (* Python: ZeroDivisionError raised by a parse action (caught by nothing) *)
Arguments ROk {A} a rest.
Arguments RFail {A}.
Arguments ROut {A}.
Arguments RDiv {A}.

Definition parser (A : Type) := string -> res A.

Definition ret {A} (a : A) : parser A := fun s => ROk a s.
Definition pout {A} : parser A := fun _ => ROut.
Definition bind {A B} (p : parser A) (f : A -> parser B) : parser B :=
  fun s => match p s with ROk a r => f a r | RFail => RFail | ROut => ROut | RDiv => RDiv end.
Notation "x <- p ;; q" := (bind p (fun x => q)) (at level 61, p at next level, right associativity).
Notation "'skip' p ;; q" := (bind p (fun _ => q)) (at level 61, p at next level, right associativity).

(* MatchFirst *)
Definition alt {A} (p q : parser A) : parser A :=
  fun s => match p s with RFail => q s | x => x end.
(* Optional *)
Definition opt {A} (p : parser A) : parser (option A) :=
  fun s => match p s with ROk a r => ROk (Some a) r | RFail => ROk None s | ROut => ROut | RDiv => RDiv end.
(* ZeroOrMore: greedy; stops (without consuming) at the first failure of the body.  The loop counter m is
   local fuel: every body used below consumes at least one character. *)
Fixpoint many_f {A} (p : parser A) (m : nat) : parser (list A) :=
  fun s => match m with
           | O => ROut
           | S m' => match p s with
                     | ROk a r => match many_f p m' r with
                                  | ROk l r' => ROk (a :: l) r'
                                  | RFail => RFail
                                  | ROut => ROut
                                  | RDiv => RDiv
                                  end
                     | RFail => ROk [] s
                     | ROut => ROut
                     | RDiv => RDiv
                     end
           end.
Definition many {A} (p : parser A) : parser (list A) := fun s => many_f p (S (String.length s)) s.
(* OneOrMore *)
Definition many1 {A} (p : parser A) : parser (list A) := a <- p ;; l <- many p ;; ret (a :: l).

(* ---------------------------------------------------------------- tokens *)
(* a literal inside a Combine: no whitespace skipping *)
Definition lit_raw (t : string) : parser unit :=
  fun s => match strip_prefix t s with Some r => ROk tt r | None => RFail end.
(* pp.Literal(t) *)
Definition lit (t : string) : parser unit := fun s => lit_raw t (skip_ws s).

(* symbol = oneOf("+ -") *)
Definition symbol : parser sign := alt (skip lit "+" ;; ret Plus) (skip lit "-" ;; ret Minus).
Definition sign_or_plus (o : option sign) : sign := match o with Some s => s | None => Plus end.

(* variable = Word(alphas, alphanums + "_") *)
Definition variable : parser var :=
  fun s => match skip_ws s with
           | String c r => if is_alpha c then let '(w, r') := take_while is_word_char r in ROk (String c w) r'
                           else RFail
           | EmptyString => RFail
           end.

(* Word(nums) inside the Combine *)
Definition digits1 : parser string :=
  fun s => match take_while is_digit s with
           | (EmptyString, _) => RFail
           | (w, r) => ROk w r
           end.
Definition str_or_empty (o : option string) : string := match o with Some s => s | None => "" end.

(* floating_point_number = Combine( (digits ["." [digits]] ^ "." digits) [E [+|-] digits] ); returns its text *)
Definition fpn_mantissa : parser string :=
  alt (d <- digits1 ;;
       o <- opt (skip lit_raw "." ;; f <- opt digits1 ;; ret ("." ++ str_or_empty f)) ;;
       ret (d ++ str_or_empty o))
      (skip lit_raw "." ;; f <- digits1 ;; ret ("." ++ f)).
Definition fpn_exponent : parser string :=
  skip alt (lit_raw "e") (lit_raw "E") ;;
  sg <- opt (alt (skip lit_raw "+" ;; ret "+") (skip lit_raw "-" ;; ret "-")) ;;
  d <- digits1 ;;
  ret ("E" ++ str_or_empty sg ++ d).
Definition fpn_raw : parser string := m <- fpn_mantissa ;; e <- opt fpn_exponent ;; ret (m ++ str_or_empty e).
Definition fpn : parser string := fun s => fpn_raw (skip_ws s).

(* ---------------------------------------------------------------- value of a literal *)
(* The EXACT decimal value of the text of a floating_point_number.  (Python's float(text) is this value
   rounded to the nearest double; the two agree when the value is a double, e.g. 2, 0.5, 1.25, 3e2, .75.) *)
Definition digit_val (c : ascii) : Z := Z.of_N (N_of_ascii c) - 48.
Fixpoint read_digits (s : string) (acc : Z) (cnt : nat) : Z * nat * string :=
  match s with
  | String c r => if is_digit c then read_digits r (10 * acc + digit_val c) (S cnt) else (acc, cnt, s)
  | EmptyString => (acc, cnt, s)
  end.
Definition is_e (c : ascii) : bool := Ascii.eqb c "e" || Ascii.eqb c "E".
Definition literal_value (text : string) : Q :=
  let '(m1, _, r1) := read_digits text 0 0 in
  let '(m, k, r2) := match r1 with
                     | String "." r => read_digits r m1 0
                     | _ => (m1, O, r1)
                     end in
  let ex : Z := match r2 with
                | String c r =>
                    if is_e c then
                      match r with
                      | String "+" r' => fst (fst (read_digits r' 0 0))
                      | String "-" r' => - fst (fst (read_digits r' 0 0))
                      | _ => fst (fst (read_digits r 0 0))
                      end
                    else 0
                | EmptyString => 0
                end%Z in
  let e := (ex - Z.of_nat k)%Z in
  Qred (if (0 <=? e)%Z then inject_Z (m * 10 ^ e) else Qmake m (Z.to_pos (10 ^ (- e)))).

(* ---------------------------------------------------------------- constant arithmetic (pp.infixNotation) *)
Inductive aop := OMul | ODiv | OAdd | OSub.
Definition apply_op (o : aop) (a b : cexpr) : cexpr :=
  match o with OMul => CMul a b | ODiv => CDiv a b | OAdd => CAdd a b | OSub => CSub a b end.

(* infixNotation matches  operand (op operand)+  of one precedence level as ONE group [a, op, b, op, c, ...];
   grammar.py's parse action _parse_arithmetic_chain folds it from the left:  ((a op b) op c) ... *)
Definition fold_left_assoc (a : cexpr) (l : list (aop * cexpr)) : cexpr :=
  fold_left (fun acc ob => apply_op (fst ob) acc (snd ob)) l a.
(* Before pacti commit 7bdf62f the action returned  t[0][0] op t[0][2]  — only the FIRST operation; further
   operands of the same level were parsed and silently dropped ("2/3/4" evaluated to 2/3, "8-2-1" to 6).
   Kept only to document the repaired defect (parse_expr_prefix_bug below). *)
Definition fold_first (a : cexpr) (l : list (aop * cexpr)) : cexpr :=
  match l with [] => a | (o, b) :: _ => apply_op o a b end.

(* the exact value of a constant; None = a division by zero (Python: ZeroDivisionError) *)
Definition lift2 (f : Q -> Q -> Q) (a b : option Q) : option Q :=
  match a, b with Some x, Some y => Some (Qred (f x y)) | _, _ => None end.
Fixpoint ceval (c : cexpr) : option Q :=
  match c with
  | CNum q => Some q
  | CAdd l r => lift2 Qplus (ceval l) (ceval r)
  | CSub l r => lift2 Qminus (ceval l) (ceval r)
  | CMul l r => lift2 Qmult (ceval l) (ceval r)
  | CDiv l r => match ceval r with
                | Some d => if Qeq_bool d 0 then None else lift2 Qdiv (ceval l) (Some d)
                | None => None
                end
  end.
(* the parse actions of a matched paren_arith_expr evaluate it *)
Definition div_check (e : cexpr) : parser cexpr :=
  fun s => match ceval e with Some _ => ROk e s | None => RDiv end.

Definition mulop : parser aop := alt (skip lit "*" ;; ret OMul) (skip lit "/" ;; ret ODiv).
Definition addop : parser aop := alt (skip lit "+" ;; ret OAdd) (skip lit "-" ;; ret OSub).

Inductive presult := Ok (e : expr) | Reject | OutOfFuel | DivZero.

Section Parser.
(* how a same-precedence chain is folded into a value: fold_left_assoc for pacti *)
Variable fold : cexpr -> list (aop * cexpr) -> cexpr.

(* one infixNotation level:  FollowedBy(last op last) + Group(last (op last)+)  |  last *)
Definition chain (p : parser cexpr) (op : parser aop) : parser cexpr :=
  a <- p ;;
  l <- many (o <- op ;; b <- p ;; ret (o, b)) ;;
  ret (match l with [] => a | _ => fold a l end).

Definition fpn_c : parser cexpr := t <- fpn ;; ret (CNum (literal_value t)).

(* arithmetic_expr;  operand = floating_point_number | "(" arithmetic_expr ")" *)
Fixpoint p_arith (n : nat) : parser cexpr :=
  match n with
  | O => pout
  | S n' =>
      let atom := alt fpn_c (skip lit "(" ;; e <- p_arith n' ;; skip lit ")" ;; ret e) in
      chain (chain atom mulop) addop
  end.

(* paren_arith_expr = "(" arithmetic_expr ")".  It is only ever used as an alternative of an Or (^): Or first
   tries its alternatives WITHOUT parse actions and then re-parses the longest one with actions, so the constant
   is evaluated exactly when the whole parenthesised expression matched. *)
Definition paren_arith (n : nat) : parser cexpr := skip lit "(" ;; e <- p_arith n ;; skip lit ")" ;; div_check e.
(* floating_point_number ^ paren_arith_expr *)
Definition number (n : nat) : parser cexpr := alt fpn_c (paren_arith n).
(* (floating_point_number ^ paren_arith_expr) + Optional("*") *)
Definition coef (n : nat) : parser cexpr := k <- number n ;; skip opt (lit "*") ;; ret k.

(* ---------------------------------------------------------------- term, terms, paren_terms *)
(* terms = first_term signed_term*   over a given parser for `term` *)
Definition terms_of (pt : parser lterm) : parser lterms :=
  s0 <- opt symbol ;; t <- pt ;;
  l <- many (sg <- symbol ;; t' <- pt ;; ret (sg, t')) ;;
  ret (Terms (sign_or_plus s0) t l).
(* paren_terms = "(" terms ")" *)
Definition paren_of (pt : parser lterm) : parser lterms :=
  skip lit "(" ;; ts <- terms_of pt ;; skip lit ")" ;; ret ts.

(* term = Group(only_variable | number_and_variable | only_number), where
     only_variable       = variable | paren_terms
     number_and_variable = number [*] variable | number [*] paren_terms
     only_number         = number | paren_terms                      (the last alternative is unreachable) *)
Fixpoint p_term (n : nat) : parser lterm :=
  match n with
  | O => pout
  | S n' =>
      let pt := paren_of (p_term n') in
      alt (v <- variable ;; ret (TVar v))
     (alt (ts <- pt ;; ret (TParen ts))
     (alt (k <- coef n ;; v <- variable ;; ret (TNumVar k v))
     (alt (k <- coef n ;; ts <- pt ;; ret (TNumParen k ts))
     (alt (k <- number n ;; ret (TNum k))
          (ts <- pt ;; ret (TParen ts))))))
  end.

Definition terms (n : nat) : parser lterms := terms_of (p_term n).

(* ---------------------------------------------------------------- absolute terms and sides *)
(* abs_term = [number [*]] "|" terms "|" *)
Definition abs_term (n : nat) : parser (option cexpr * lterms) :=
  k <- opt (coef n) ;; skip lit "|" ;; ts <- terms n ;; skip lit "|" ;; ret (k, ts).
Definition signed_abs_term (n : nat) : parser aterm :=
  sg <- symbol ;; kt <- abs_term n ;; ret (AAbs sg (fst kt) (snd kt)).
Definition first_abs_term (n : nat) : parser aterm :=
  sg <- opt symbol ;; kt <- abs_term n ;; ret (AAbs (sign_or_plus sg) (fst kt) (snd kt)).
Definition first_term (n : nat) : parser aterm :=
  sg <- opt symbol ;; t <- p_term n ;; ret (ATerm (sign_or_plus sg) t).
Definition signed_term (n : nat) : parser aterm :=
  sg <- symbol ;; t <- p_term n ;; ret (ATerm sg t).
(* first_abs_or_term = first_abs_term | first_term *)
Definition first_abs_or_term (n : nat) : parser aterm := alt (first_abs_term n) (first_term n).
(* addl_abs_or_term = signed_abs_term | signed_term *)
Definition addl_abs_or_term (n : nat) : parser aterm := alt (signed_abs_term n) (signed_term n).
(* abs_or_terms = first_abs_or_term addl_abs_or_term* *)
Definition abs_or_terms (n : nat) : parser (list aterm) :=
  a <- first_abs_or_term n ;; l <- many (addl_abs_or_term n) ;; ret (a :: l).
(* paren_abs_or_terms = [number [*]] "(" abs_or_terms ")" *)
Definition paren_abs_or_terms (n : nat) : parser (option cexpr * list aterm) :=
  k <- opt (coef n) ;; skip lit "(" ;; l <- abs_or_terms n ;; skip lit ")" ;; ret (k, l).
(* first_paren_abs_or_terms = [symbol] paren_abs_or_terms | first_abs_or_term *)
Definition first_paren_abs_or_terms (n : nat) : parser pitem :=
  alt (sg <- opt symbol ;; kl <- paren_abs_or_terms n ;; ret (PGroup (sign_or_plus sg) (fst kl) (snd kl)))
      (a <- first_abs_or_term n ;; ret (PPlain a)).
(* addl_paren_abs_or_terms = symbol paren_abs_or_terms | addl_abs_or_term *)
Definition addl_paren_abs_or_terms (n : nat) : parser pitem :=
  alt (sg <- symbol ;; kl <- paren_abs_or_terms n ;; ret (PGroup sg (fst kl) (snd kl)))
      (a <- addl_abs_or_term n ;; ret (PPlain a)).
(* multi_paren_abs_or_terms = first_paren_abs_or_terms addl_paren_abs_or_terms* *)
Definition multi (n : nat) : parser side :=
  p <- first_paren_abs_or_terms n ;; l <- many (addl_paren_abs_or_terms n) ;; ret (p :: l).

(* ---------------------------------------------------------------- expressions *)
(* equality_operator = "==" ^ "=" *)
Definition eq_op : parser unit := alt (lit "==") (lit "=").
Definition equality_expression (n : nat) : parser expr :=
  l <- terms n ;; skip eq_op ;; r <- terms n ;; ret (EEq l r).
Definition ineq_expression (n : nat) (op : string) (mk : list side -> expr) : parser expr :=
  s0 <- multi n ;; l <- many1 (skip lit op ;; multi n) ;; ret (mk (s0 :: l)).
Definition leq_expression (n : nat) : parser expr := ineq_expression n "<=" ELeq.
Definition geq_expression (n : nat) : parser expr := ineq_expression n ">=" EGeq.
(* expression = equality_expression | leq_expression | geq_expression *)
Definition expression (n : nat) : parser expr :=
  alt (equality_expression n) (alt (leq_expression n) (geq_expression n)).

(* expression.parse_string(s, parse_all=True) *)
Definition parse_gen_fuel (n : nat) (s : string) : presult :=
  match expression n s with
  | ROk e r => match skip_ws r with EmptyString => Ok e | _ => Reject end
  | RFail => Reject
  | ROut => OutOfFuel
  | RDiv => DivZero
  end.
End Parser.

(* the model of pacti's parser *)
Definition parse_expr_fuel (n : nat) (s : string) : presult := parse_gen_fuel fold_left_assoc n s.
Definition parse_expr (s : string) : presult := parse_expr_fuel (S (String.length s)) s.
(* pacti before commit 7bdf62f: constant chains keep only their first operation *)
Definition parse_expr_prefix_bug (s : string) : presult := parse_gen_fuel fold_first (S (String.length s)) s.

(* ---------------------------------------------------------------- decidable equality of trees *)
Definition sign_eqb (a b : sign) : bool :=
  match a, b with Plus, Plus | Minus, Minus => true | _, _ => false end.
(* structural (not Qeq): literal_value returns reduced fractions *)
Definition Q_eqb (a b : Q) : bool := Z.eqb (Qnum a) (Qnum b) && Pos.eqb (Qden a) (Qden b).
Fixpoint cexpr_eqb (a b : cexpr) : bool :=
  match a, b with
  | CNum p, CNum q => Q_eqb p q
  | CAdd l r, CAdd l' r' | CSub l r, CSub l' r' | CMul l r, CMul l' r' | CDiv l r, CDiv l' r' =>
      cexpr_eqb l l' && cexpr_eqb r r'
  | _, _ => false
  end.
Definition option_eqb {A} (f : A -> A -> bool) (a b : option A) : bool :=
  match a, b with Some x, Some y => f x y | None, None => true | _, _ => false end.
Fixpoint list_eqb {A} (f : A -> A -> bool) (a b : list A) : bool :=
  match a, b with
  | [], [] => true
  | x :: a', y :: b' => f x y && list_eqb f a' b'
  | _, _ => false
  end.
Fixpoint lterm_eqb (a b : lterm) : bool :=
  match a, b with
  | TVar v, TVar w => String.eqb v w
  | TNumVar k v, TNumVar k' w => cexpr_eqb k k' && String.eqb v w
  | TNum k, TNum k' => cexpr_eqb k k'
  | TParen ts, TParen ts' => lterms_eqb ts ts'
  | TNumParen k ts, TNumParen k' ts' => cexpr_eqb k k' && lterms_eqb ts ts'
  | _, _ => false
  end
with lterms_eqb (a b : lterms) : bool :=
  match a, b with
  | Terms s t r, Terms s' t' r' =>
      sign_eqb s s' && lterm_eqb t t' &&
      (fix go (l l' : list (sign * lterm)) : bool :=
         match l, l' with
         | [], [] => true
         | (s1, t1) :: x, (s2, t2) :: y => sign_eqb s1 s2 && lterm_eqb t1 t2 && go x y
         | _, _ => false
         end) r r'
  end.
Definition aterm_eqb (a b : aterm) : bool :=
  match a, b with
  | ATerm s t, ATerm s' t' => sign_eqb s s' && lterm_eqb t t'
  | AAbs s k ts, AAbs s' k' ts' => sign_eqb s s' && option_eqb cexpr_eqb k k' && lterms_eqb ts ts'
  | _, _ => false
  end.
Definition pitem_eqb (a b : pitem) : bool :=
  match a, b with
  | PGroup s k l, PGroup s' k' l' => sign_eqb s s' && option_eqb cexpr_eqb k k' && list_eqb aterm_eqb l l'
  | PPlain x, PPlain y => aterm_eqb x y
  | _, _ => false
  end.
Definition side_eqb : side -> side -> bool := list_eqb pitem_eqb.
Definition expr_eqb (a b : expr) : bool :=
  match a, b with
  | EEq l r, EEq l' r' => lterms_eqb l l' && lterms_eqb r r'
  | ELeq s, ELeq s' | EGeq s, EGeq s' => list_eqb side_eqb s s'
  | _, _ => false
  end.
Definition presult_eqb (a b : presult) : bool :=
  match a, b with
  | Ok e, Ok e' => expr_eqb e e'
  | Reject, Reject | OutOfFuel, OutOfFuel | DivZero, DivZero => true
  | _, _ => false
  end.

(* harness support: indices of the cases on which the model and the expectation disagree *)
Fixpoint mismatches (i : nat) (l : list (string * presult)) : list nat :=
  match l with
  | [] => []
  | (s, want) :: r => if presult_eqb (parse_expr s) want then mismatches (S i) r else i :: mismatches (S i) r
  end.
