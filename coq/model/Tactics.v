(* Tactics.v — hand-written executable model of variable elimination in
   pacti.terms.polyhedra.polyhedra.PolyhedralTermList:
   _get_kaykobad_context, solve_for_variables (sympy.solve replaced by exact Gauss-Jordan),
   _context_reduction, _tactic_1 .. _tactic_5, _get_tlp_context, _transform_term, _transform,
   elim_vars_by_refining, elim_vars_by_relaxing.   Definitions only. *)
From Coq Require Import List String Ascii Bool QArith Qabs ZArith.
Import ListNotations.
Require Import Py ListsGen Sem Term Poly.
Local Open Scope Q_scope.

Definition as_value_error {A} (m : M A) : M A :=
  match m with inr e => if is_value_error e then raise ValueErr else inr e | x => x end.

(* context.terms.remove(term): first element equal to term *)
Definition remove_first_term (t : pterm) (l : list pterm) : list pterm := remove_first t l.

(* ---------- sympy.solve on a linear system, exactly ---------- *)
(* every equation is a pterm read as  Σ coeffs - constant = 0 *)
(* v = (c - Σ_{k<>v} a_k x_k)/a  as a substitution term (read  v = Σ coeffs - constant) *)
Definition solve_isolate (t : pterm) (v : var) : pterm :=
  let a := get_coefficient t v in
  mk_term (map (fun p => (fst p, qdiv (qneg (snd p)) a))
               (filter (fun p => negb (String.eqb (fst p) v)) (tvars t)))
          (qneg (qdiv (tconst t) a)).
(* split at the first row with a nonzero coefficient of v *)
Fixpoint find_pivot (v : var) (rows : list pterm) : option (pterm * list pterm) :=
  match rows with
  | [] => None
  | r :: rest => if negb (qzero (get_coefficient r v)) then Some (r, rest)
                 else match find_pivot v rest with
                      | Some (p, others) => Some (p, r :: others)
                      | None => None
                      end
  end.
(* Gauss-Jordan over the columns `vs` in order; returns (pivots, unused rows) *)
Fixpoint gauss (vs : list var) (pivots : list (var * pterm)) (rows : list pterm)
  : list (var * pterm) * list pterm :=
  match vs with
  | [] => (pivots, rows)
  | v :: vs' =>
      match find_pivot v rows with
      | None => gauss vs' pivots rows
      | Some (p, others) =>
          let s := solve_isolate p v in
          let sub := fun r => term_substitute_variable r v s in
          gauss vs' (map (fun q => (fst q, sub (snd q))) pivots ++ [(v, p)]) (map sub others)
      end
  end.
Definition row_is_zero (r : pterm) : bool := negb (nonempty (term_vars_p r)) && qzero (tconst r).
(* PolyhedralTerm.solve_for_variables: dict var -> solution term, {} when sympy returns [] *)
Definition solve_for_variables (context : list pterm) (vars_to_elim : list var) : M (list (var * pterm)) :=
  let vars_to_solve := list_intersection (tl_vars context) vars_to_elim in
  if negb (Nat.eqb (List.length context) (List.length vars_to_solve)) then raise ValueErr
  else
    let '(pivots, rest) := gauss vars_to_solve [] context in
    if forallb row_is_zero rest then
      ret (map (fun q => (fst q, solve_isolate (snd q) (fst q))) pivots)
    else ret [].

(* ---------- tactic 1: Kaykobad context ---------- *)
Definition signq (t : pterm) (v : var) : M Q := term_get_sign t v.

Fixpoint nth_q (l : list Q) (n : nat) : Q := match l, n with x :: _, O => x | _ :: r, S k => nth_q r k | [], _ => 0 end.
Fixpoint add_lists (a b : list Q) : list Q :=
  match a, b with x :: a', y :: b' => qadd x y :: add_lists a' b' | _, _ => [] end.

(* step 1: sign pattern; true = invalid *)
Fixpoint kk_sign_invalid (term ctx : pterm) (transform_coeff : Q) (fvars : list var) : M bool :=
  match fvars with
  | [] => ret false
  | v :: r =>
      if negb (qzero (get_coefficient ctx v)) then
        sc <- signq ctx v ;; st <- signq term v ;;
        if negb (Qeq_bool (qmul transform_coeff sc) st) then ret true
        else kk_sign_invalid term ctx transform_coeff r
      else kk_sign_invalid term ctx transform_coeff r
  end.
(* step 3: residuals, with the break at the first failing j; returns None when invalid *)
Fixpoint kk_residuals (term ctx : pterm) (i : nat) (i_var : var) (fvars : list var) (j : nat)
         (partial : list Q) : M (option (list Q)) :=
  match fvars with
  | [] => ret (Some [])
  | j_var :: r =>
      res_j <- (if Nat.eqb j i then ret 0 else
                  sj <- signq term j_var ;;
                  ret (qdiv (qmul (qmul sj (get_coefficient ctx j_var)) (get_coefficient term i_var))
                            (get_coefficient ctx i_var))) ;;
      if qle (qabs (get_coefficient term j_var)) (qadd (nth_q partial j) res_j) then ret None
      else
        rest <- kk_residuals term ctx i i_var r (S j) partial ;;
        ret (match rest with Some l => Some (res_j :: l) | None => None end)
  end.
(* inner loop over candidate context terms for row i *)
Fixpoint kk_find_row (term : pterm) (cands : list pterm) (other_forbidden fvars : list var)
         (transform_coeff : Q) (i : nat) (i_var : var) (partial : list Q)
  : M (option (pterm * list Q)) :=
  match cands with
  | [] => ret None
  | ctx :: rest =>
      let next := kk_find_row term rest other_forbidden fvars transform_coeff i i_var partial in
      if term_eqb_p ctx term then next
      else if existsb (fun v => negb (qzero (get_coefficient ctx v))) other_forbidden then next
      else
        inv <- kk_sign_invalid term ctx transform_coeff fvars ;;
        if qzero (get_coefficient ctx i_var) || inv then next
        else
          res <- kk_residuals term ctx i i_var fvars 0 partial ;;
          match res with
          | None => next
          | Some residuals => ret (Some (ctx, residuals))
          end
  end.
Fixpoint kk_rows (term : pterm) (context : list pterm) (other_forbidden fvars : list var)
         (transform_coeff : Q) (todo : list var) (i : nat) (rows : list pterm) (partial : list Q)
         (contains_others : bool) : M (list pterm * bool) :=
  match todo with
  | [] => ret (rows, contains_others)
  | i_var :: todo' =>
      found <- kk_find_row term (list_diff context rows) other_forbidden fvars transform_coeff i i_var partial ;;
      match found with
      | None => raise ValueErr
      | Some (ctx, residuals) =>
          kk_rows term context other_forbidden fvars transform_coeff todo' (S i) (rows ++ [ctx])
                  (add_lists partial residuals)
                  (contains_others || nonempty (list_diff (term_vars_p ctx) fvars))
      end
  end.
Definition get_kaykobad_context (term : pterm) (context : list pterm) (vars_to_elim : list var) (refine : bool)
  : M (list pterm * list var) :=
  let fvars := list_intersection vars_to_elim (term_vars_p term) in
  let other_forbidden := list_diff vars_to_elim (term_vars_p term) in
  let transform_coeff := if refine then 1 else -(1) in
  '(rows, others) <- kk_rows term context other_forbidden fvars transform_coeff fvars 0 []
                            (map (fun _ => 0) fvars) false ;;
  if negb others && negb (nonempty (list_diff (term_vars_p term) vars_to_elim)) then raise ValueErr
  else ret (rows, fvars).

(* ---------- tactic 5: LP-active context ---------- *)
Fixpoint unary (n : nat) : string := match n with O => EmptyString | S k => String "i"%char (unary k) end.
Definition lam_name (i : nat) : var := String "#"%char (unary i).
Definition isclose0 (s : Q) : bool := qle (qabs s) (Qmake 1 100000000).    (* np.isclose(slack, 0): atol 1e-8 *)
Fixpoint tlp_pick (context : list pterm) (slack : list Q) (fvars : list var) (need : nat) : list pterm :=
  match need with
  | O => []
  | S k =>
      match context, slack with
      | c :: cr, s :: sr =>
          if isclose0 s && nonempty (list_intersection (term_vars_p c) fvars)
          then c :: tlp_pick cr sr fvars k
          else tlp_pick cr sr fvars need
      | _, _ => []
      end
  end.
Definition get_tlp_context (O : oracle) (term : pterm) (context : list pterm) (vars_to_elim : list var) (refine : bool)
  : M (list pterm * list var) :=
  let fvars := list_intersection vars_to_elim (term_vars_p term) in
  let var_list := polytope_vars context [] in
  match var_list with [] => raise ValueErr | _ =>      (* linprog rejects an empty problem with ValueError *)
  let objective := map (fun v => let c := if py_in v fvars then get_coefficient term v else 0 in
                                 if refine then qneg c else c) var_list in
  match O (mkLP var_list objective (map (term_to_row var_list) context)) with
  | LpUnbounded => raise ValueErr
  | LpInfeasible | LpOther _ => raise ValueErr
  | LpMiss => raise OracleMiss
  | LpOpt _ slack =>
      let n := List.length fvars in
      let nactive := List.length (filter isclose0 slack) in
      if Nat.ltb nactive n then raise ValueErr
      else
        let rows := tlp_pick context slack fvars n in
        if Nat.ltb (List.length rows) n then raise ValueErr else
        (* multipliers = np.linalg.solve(row_matrix.T, term_vector): one equation per forbidden
           variable j:  Σ_i rows_i[j] * λ_i = term[j] ; LinAlgError (singular) -> ValueError *)
        let names := map lam_name (seq 0 (List.length rows)) in
        let eqs := map (fun v => mk_term (combine names (map (fun r => get_coefficient r v) rows))
                                         (get_coefficient term v)) fvars in
        let '(pivots, rest) := gauss names [] eqs in
        if negb (Nat.eqb (List.length pivots) (List.length names)) then raise ValueErr else
        let lams := map (fun q => qneg (tconst (solve_isolate (snd q) (fst q)))) pivots in
        if refine && existsb (fun l => qlt l 0) lams then raise ValueErr else
        if negb refine && existsb (fun l => qlt 0 l) lams then raise ValueErr else
        ret (rows, fvars)
  end end.

(* ---------- _context_reduction ---------- *)
Definition context_reduction (O : oracle) (term : pterm) (context : list pterm) (vars_to_elim : list var)
           (refine : bool) (strategy : nat) : M pterm :=
  '(rows, fvars) <- (match strategy with
                     | 1%nat => as_value_error (get_kaykobad_context term context vars_to_elim refine)
                     | 5%nat => as_value_error (get_tlp_context O term context vars_to_elim refine)
                     | _ => raise ValueErr
                     end) ;;
  sols <- solve_for_variables rows fvars ;;
  ret (fold_left (fun res kv => term_substitute_variable res (fst kv) (snd kv)) sols (term_copy term)).

Definition tactic_1 (O : oracle) (term : pterm) (context : list pterm) (vars_to_elim : list var) (refine : bool)
  : M (option pterm * nat) :=
  r <- context_reduction O term context vars_to_elim refine 1 ;; ret (Some r, 1%nat).
Definition tactic_5 (O : oracle) (term : pterm) (context : list pterm) (vars_to_elim : list var) (refine : bool)
  : M (option pterm * nat) :=
  r <- context_reduction O term context vars_to_elim refine 5 ;; ret (Some r, 1%nat).

(* ---------- tactic 2 ---------- *)
Definition tactic_2 (O : oracle) (term : pterm) (context : list pterm) (vars_to_elim : list var) (refine : bool)
  : M (option pterm * nat) :=
  let conflict_vars := list_intersection vars_to_elim (term_vars_p term) in
  let new_context := map term_copy
      (filter (fun c => negb (nonempty (list_diff (term_vars_p c) vars_to_elim)) && negb (term_eqb_p c term)) context) in
  match new_context with [] => raise ValueErr | _ =>
  if nonempty (list_diff conflict_vars (tl_vars new_context)) then raise ValueErr else
  let variables := polytope_vars new_context [] in
  let polarity := if refine then -(1) else 1 in
  let objective := map (fun v => qmul polarity (get_coefficient term v)) variables in
  match O (mkLP variables objective (map (term_to_row variables) new_context)) with
  | LpInfeasible | LpUnbounded => raise ValueErr
  | LpOther _ => raise (Escape "TypeError")
  | LpMiss => raise OracleMiss
  | LpOpt f _ =>
      let replacement := qmul polarity f in
      let result := fold_left term_remove_variable vars_to_elim (term_copy term) in
      let result := mkT (tvars result) (qsub (tconst result) replacement) in
      if negb (nonempty (term_vars_p result)) then ret (Some (term_copy term), 1%nat)
      else ret (Some result, 1%nat)
  end end.

(* ---------- tactic 3 ---------- *)
Definition tactic_3 (O : oracle) (term : pterm) (context : list pterm) (vars_to_elim : list var) (refine : bool)
  : M (option pterm * nat) :=
  let conflict_vars := list_intersection vars_to_elim (term_vars_p term) in
  match conflict_vars with
  | [] => raise (Escape "IndexError")
  | v0 :: _ =>
      let c0 := get_coefficient term v0 in
      let new_term0 := fold_left term_remove_variable conflict_vars (term_copy term) in
      let new_term := mkT (dict_set (tvars new_term0) "_"%string 1) (tconst new_term0) in
      let subst_vars := ("_"%string, qdiv 1 c0)
                        :: map (fun v => (v, qdiv (qneg (get_coefficient term v)) c0))
                               (filter (fun v => negb (String.eqb v v0)) conflict_vars) in
      let subst_term := mk_term subst_vars 0 in
      let new_context := map (fun el => term_substitute_variable (term_copy el) v0 subst_term) context in
      let new_elims := list_diff (list_union vars_to_elim ["_"%string]) [v0] in
      tactic_1 O new_term new_context new_elims refine
  end.

(* ---------- tactic 4 ---------- *)
Fixpoint tactic_4 (fuel : nat) (term : pterm) (context : list pterm) (vars_to_elim : list var) (refine : bool)
         (no_vars : list var) : M (option pterm * nat) :=
  match fuel with
  | O => raise (Escape "fuel")
  | S fuel' =>
  if negb refine then raise ValueErr else
  let conflict_vars := list_intersection vars_to_elim (term_vars_p term) in
  if Nat.ltb 1 (List.length conflict_vars) then raise ValueErr else
  match conflict_vars with
  | [] => raise (Escape "IndexError")
  | var_to_elim :: _ =>
      let polarity := 1 in
      let cand := filter (fun c =>
            negb (nonempty (list_intersection (term_vars_p c) no_vars)) &&
            (let coeff := get_coefficient c var_to_elim in
             negb (qzero coeff) && qlt 0 (qmul (qmul polarity coeff) (get_coefficient term var_to_elim)))) context in
      let nconf := fun c => List.length (list_intersection (term_vars_p c) vars_to_elim) in
      let goal_context := map term_copy (filter (fun c => Nat.eqb (nconf c) 1) cand) in
      let useful_context := map term_copy (filter (fun c => Nat.eqb (nconf c) 2) cand) in
      match goal_context with
      | g :: _ =>
          iso <- term_isolate_variable g var_to_elim ;;
          ret (Some (term_substitute_variable term var_to_elim iso), 1%nat)
      | [] =>
          match useful_context with
          | [] => raise ValueErr
          | _ =>
              (fix loop (us : list pterm) (total : nat) : M (option pterm * nat) :=
                 match us with
                 | [] => ret (None, total)
                 | useful_term :: us' =>
                     let new_context := remove_first_term useful_term context in
                     (* sign = 1 if term.get_coefficient(var_to_elim) > 0 else -1 *)
                     let sign := if qlt 0 (get_coefficient term var_to_elim) then 1 else -(1) in
                     match term_isolate_variable useful_term var_to_elim with
                     | inr e => inr e             (* isolate is outside the try block *)
                     | inl iso =>
                         let new_term := term_multiply iso sign in
                         match tactic_4 fuel' new_term new_context vars_to_elim refine (no_vars ++ [var_to_elim]) with
                         | inl (Some rt, cnt) => ret (Some (term_substitute_variable term var_to_elim (term_multiply rt sign)), (total + cnt)%nat)
                         | inl (None, cnt) => loop us' (total + cnt)%nat
                         | inr e => if is_value_error e then loop us' (S total) else inr e
                         end
                     end
                 end) useful_context 1%nat
          end
      end
  end
  end.

(* ---------- dispatcher ---------- *)
Definition run_tactic (O : oracle) (num : nat) (term : pterm) (context : list pterm) (vars_to_elim : list var)
           (refine : bool) : M (option pterm * nat) :=
  match num with
  | 1%nat => tactic_1 O term context vars_to_elim refine
  | 2%nat => tactic_2 O term context vars_to_elim refine
  | 3%nat => tactic_3 O term context vars_to_elim refine
  | 4%nat => tactic_4 (S (List.length context)) term context vars_to_elim refine []
  | 5%nat => tactic_5 O term context vars_to_elim refine
  | 6%nat => ret (Some (term_copy term), 1%nat)
  | _ => raise (Escape "KeyError")
  end.
(* _transform_term: (new term, tactic number or -1, invocation count) *)
Fixpoint transform_term_loop (O : oracle) (order : list nat) (term : pterm) (context : list pterm)
         (vars_to_elim : list var) (refine : bool) : M (pterm * Z * Z) :=
  match order with
  | [] => ret (term_copy term, (-1)%Z, 0%Z)
  | num :: rest =>
      match run_tactic O num term context vars_to_elim refine with
      | inl (Some r, cnt) => ret (r, Z.of_nat num, Z.of_nat cnt)
      | inl (None, _) => transform_term_loop O rest term context vars_to_elim refine
      | inr e => if is_value_error e then transform_term_loop O rest term context vars_to_elim refine else inr e
      end
  end.
Definition transform_term (O : oracle) (order : list nat) (term : pterm) (context : list pterm)
           (vars_to_elim : list var) (refine : bool) : M (pterm * Z * Z) :=
  if negb (nonempty (list_intersection (term_vars_p term) vars_to_elim)) then raise ValueErr
  else transform_term_loop O order term context vars_to_elim refine.

(* _transform: `done` = already processed prefix of new_terms, `todo` = original terms still to process *)
Fixpoint transform_loop (O : oracle) (order : list nat) (context : list pterm) (vars_to_elim : list var)
         (refine : bool) (done todo : list pterm) (used : stats) : M (list pterm * stats) :=
  match todo with
  | [] => ret (done, used)
  | term :: todo' =>
      if nonempty (list_intersection (term_vars_p term) vars_to_elim) then
        let new_terms := done ++ map term_copy todo in
        let copy_new_terms := remove_first_term term (map term_copy new_terms) in
        let helpers := list_union context copy_new_terms in
        '(new_term, num, cnt) <-
           (match transform_term O order term helpers vars_to_elim refine with
            | inr e => if is_value_error e then ret (term_copy term, 0%Z, 0%Z) else inr e
            | x => x end) ;;
        transform_loop O order context vars_to_elim refine (done ++ [new_term]) todo' (used ++ [(num, cnt)])
      else
        transform_loop O order context vars_to_elim refine (done ++ [term_copy term]) todo' used
  end.
Definition transform (O : oracle) (self context : list pterm) (vars_to_elim : list var) (refine simplify : bool)
           (order : list nat) : M (list pterm * stats) :=
  '(that, used) <- transform_loop O order context vars_to_elim refine [] self [] ;;
  if simplify then r <- poly_simplify O that (Some context) ;; ret (r, used)
  else ret (that, used).

(* elim_vars_by_refining *)
Definition elim_vars_by_refining (O : oracle) (self context : list pterm) (vars_to_elim : list var)
           (simplify : bool) (order : list nat) : M (list pterm * stats) :=
  termlist <- (if simplify then as_value_error (poly_simplify O self (Some context)) else ret self) ;;
  as_value_error (transform O termlist context vars_to_elim true simplify order).
(* elim_vars_by_relaxing *)
Definition elim_vars_by_relaxing (O : oracle) (self context : list pterm) (vars_to_elim : list var)
           (simplify : bool) (order : list nat) : M (list pterm * stats) :=
  termlist <- (if simplify then as_value_error (poly_simplify O self (Some context)) else ret (map term_copy self)) ;;
  '(tl, used) <- as_value_error (transform O termlist context vars_to_elim false simplify order) ;;
  let terms_to_elim := filter (fun t => nonempty (list_intersection (term_vars_p t) vars_to_elim)) tl in
  ret (list_diff tl terms_to_elim, used).
