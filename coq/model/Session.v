(* Session.v — a session of operations on a shared pool of values, as a pure state machine.
   Operands are selected by pool index, results are appended to the pool; module-level state
   (the two TACTICS_ORDER lists) is part of the state.  Definitions only. *)
From Coq Require Import List String Bool QArith ZArith.
Import ListNotations.
Require Import Py ListsGen ConstGen AlgebraGen Sem Term Poly Tactics Corr PolyDomain.

Section Session.
Variable O : oracle.

Inductive value :=
| VContract (f : list pterm * list pterm * list var * list var)
| VTerms (l : list pterm)
| VBool (b : bool)
| VNum (q : option Q)
| VFail (code : nat).

Record globals := { order_poly : list nat; order_contract : list nat }.
Record state := { pool : list value; glob : globals }.

Inductive op :=
| OCompose (i j : nat) (keep : option (list var)) (sp : bool) (od : option (list nat))
| OQuotient (i j : nat) (add : option (list var)) (sp : bool) (od : option (list nat))
| OMerge (i j : nat)
| ORefines (i j : nat)
| ORename (i : nat) (maps : list (var * var))
| OCopy (i : nat)
| OElimRefine (i j : nat) (vs : list var) (sp : bool) (od : list nat)
| OElimRelax (i j : nat) (vs : list var) (sp : bool) (od : list nat)
| OSimplify (i j : nat)
| OOptimize (i : nat) (obj : pvars) (mx : bool).

Definition as_contract (v : option value) : option (pcontract O) :=
  match v with
  | Some (VContract (a, g, i, o)) => Some (mk_pc O a g i o)
  | _ => None
  end.
Definition as_terms (v : option value) : option (list pterm) :=
  match v with
  | Some (VTerms l) => Some l
  | Some (VContract (_, g, _, _)) => Some g
  | _ => None
  end.
Definition of_m {A} (f : A -> value) (m : M A) : value :=
  match m with inl a => f a | inr e => VFail (err_code e) end.
Definition vc (c : pcontract O) : value := VContract (pc_fields c).

(* the values an operation reads: nothing else may influence its output *)
Definition args (s : state) (o : op) : list (option value) :=
  match o with
  | OCompose i j _ _ _ | OQuotient i j _ _ _ | OMerge i j | ORefines i j
  | OElimRefine i j _ _ _ | OElimRelax i j _ _ _ | OSimplify i j => [nth_error (pool s) i; nth_error (pool s) j]
  | ORename i _ | OCopy i | OOptimize i _ _ => [nth_error (pool s) i]
  end.

Definition out_of (o : op) (a : list (option value)) : value :=
  match o, a with
  | OCompose _ _ keep sp od, [x; y] =>
      match as_contract x, as_contract y with
      | Some c1, Some c2 => of_m (fun r => vc (fst r)) (poly_compose_tactics O c1 c2 keep sp od)
      | _, _ => VFail 0 end
  | OQuotient _ _ add sp od, [x; y] =>
      match as_contract x, as_contract y with
      | Some c1, Some c2 => of_m (fun r => vc (fst r)) (poly_quotient_tactics O c1 c2 add sp od)
      | _, _ => VFail 0 end
  | OMerge _ _, [x; y] =>
      match as_contract x, as_contract y with
      | Some c1, Some c2 => of_m vc (poly_merge O c1 c2) | _, _ => VFail 0 end
  | ORefines _ _, [x; y] =>
      match as_contract x, as_contract y with
      | Some c1, Some c2 => of_m VBool (poly_refines_c O c1 c2) | _, _ => VFail 0 end
  | ORename _ maps, [x] =>
      match as_contract x with Some c => of_m vc (poly_rename_variables O c maps) | None => VFail 0 end
  | OCopy _, [x] =>
      match as_contract x with Some c => of_m vc (poly_copy O c) | None => VFail 0 end
  | OElimRefine _ _ vs sp od, [x; y] =>
      match as_terms x, as_terms y with
      | Some l, Some c => of_m (fun r => VTerms (fst r)) (elim_vars_by_refining O l c vs sp od) | _, _ => VFail 0 end
  | OElimRelax _ _ vs sp od, [x; y] =>
      match as_terms x, as_terms y with
      | Some l, Some c => of_m (fun r => VTerms (fst r)) (elim_vars_by_relaxing O l c vs sp od) | _, _ => VFail 0 end
  | OSimplify _ _, [x; y] =>
      match as_terms x, as_terms y with
      | Some l, Some c => of_m VTerms (poly_simplify O l (Some c)) | _, _ => VFail 0 end
  | OOptimize _ obj mx, [x] =>
      match as_contract x with Some c => of_m VNum (poly_optimize_c O c obj mx) | None => VFail 0 end
  | _, _ => VFail 0
  end.

Definition out (s : state) (o : op) : value := out_of o (args s o).
Definition step (s : state) (o : op) : state := {| pool := pool s ++ [out s o]; glob := glob s |}.
Definition run (s : state) (ops : list op) : state := fold_left step ops s.
End Session.
