(* Plots.v — hand-written executable model of pacti.utils.plots.constraints_to_vertices
   (and of the helpers it calls: _gen_boundary_constraints, _substitute_in_termlist,
   PolyhedralTermList.termlist_to_polytope + the column swap, _get_bounding_vertices),
   exact rationals instead of floats, plus the verified REFERENCE enumerator [corners].

   Foreign code is a parameter (record [oracles]):
     centre   rows        = _get_feasible_point (Chebyshev-centre LP; the row norms are irrational,
                            so the LP itself is not modelled).  None = linprog status 2 = "Region is empty".
     Q_hull   rows        = scipy.spatial.HalfspaceIntersection(halfspaces, centre).intersections
                            (Qhull).  None = QhullError.
     extreme  rows c      = linprog(c=c, A_ub, b_ub, bounds=(None,None))["x"] : a point minimising c·p.
                            None = res["x"] is None.
     cut_low  p           = float noise at the atan2 branch cut: for a point p lying exactly to the left of the
                            centroid (same y), did the floats give y - cy a negative sign (-0.0 or a negative
                            rounding residue, so that atan2 answered -pi instead of pi)?  Exact arithmetic: false.
   The correspondence harness (harness/plots_cases.py) replays the recorded answers.
   Definitions only; facts are in proofs/PlotsFacts.v. *)
From Coq Require Import List String Bool QArith Qabs ZArith Arith.
Import ListNotations.
Require Import Py ListsGen Sem Term Poly.
Local Open Scope Q_scope.

Definition row3 := (Q * Q * Q)%type.        (* (a, b, c) :  a*x + b*y <= c *)
Definition pt := (Q * Q)%type.              (* (x, y) *)

Record oracles := mkOracles {
  centre : list row3 -> option pt;
  Q_hull : list row3 -> option (list pt);
  extreme : list row3 -> pt -> option pt;
  cut_low : pt -> bool
}.

(* ---------- _gen_boundary_constraints ---------- *)
Definition gen_boundary (x y : var) (x_lims y_lims : Q * Q) : list pterm :=
  [ mk_term [(x, 1)] (snd x_lims);
    mk_term [(x, -(1))] (qneg (fst x_lims));
    mk_term [(y, 1)] (snd y_lims);
    mk_term [(y, -(1))] (qneg (fst y_lims)) ].

(* ---------- _substitute_in_termlist ---------- *)
(* the inner loop over var_values.items() *)
Definition subst_term (t : pterm) (vals : behavior) : pterm :=
  fold_left (fun nt p => term_substitute_variable nt (fst p) (mk_term [] (qneg (snd p)))) vals t.
Fixpoint substitute_in_termlist (ts : list pterm) (vals : behavior) : M (list pterm) :=
  match ts with
  | [] => ret []
  | t :: r =>
      let nt := subst_term t vals in
      if nonempty (term_vars_p nt) then
        rest <- substitute_in_termlist r vals ;; ret (nt :: rest)
      else if qlt (tconst nt) 0 then raise ValueErr       (* "Constraint ... is violated by assignment" *)
      else substitute_in_termlist r vals
  end.

(* ---------- the matrix handed to _get_bounding_vertices ---------- *)
(* a_mat[:, [0, 1]] = a_mat[:, [1, 0]] *)
Definition swap01 (r : row) : row :=
  match fst r with a :: b :: rest => (b :: a :: rest, snd r) | _ => r end.
Definition row_triple (r : row) : row3 := (nth 0 (fst r) 0, nth 1 (fst r) 0, snd r).

(* TermList.__or__ : list_union(self.copy().terms, other.copy().terms) *)
Definition tl_or (a b : list pterm) : list pterm := list_union (map term_copy a) (map term_copy b).

(* everything constraints_to_vertices does before calling _get_bounding_vertices *)
Definition plot_rows (constraints : list pterm) (x y : var) (vals : behavior)
    (x_lims y_lims : Q * Q) : M (list row3) :=
  if py_in x (keys vals) then raise ValueErr else          (* "x-axis variable can't be assigned a value" *)
  if py_in y (keys vals) then raise ValueErr else          (* "y-axis variable can't be assigned a value" *)
  if nonempty (list_diff (tl_vars constraints) (list_union [x; y] (keys vals)))
  then raise ValueErr else                                 (* "Need to set variables" *)
  let term_list := tl_or constraints (gen_boundary x y x_lims y_lims) in
  plot_tl <- substitute_in_termlist term_list vals ;;
  if nonempty (list_diff (tl_vars plot_tl) [x; y]) then raise (Escape "AssertionError") else
  let vs := polytope_vars plot_tl [] in
  let rows := map (term_to_row vs) plot_tl in
  match vs with
  | [] => raise (Escape "IndexError")                      (* variables[0] *)
  | v0 :: _ =>
      if String.eqb v0 y then
        if Nat.ltb (List.length vs) 2 then raise (Escape "IndexError")   (* only when x_var == y_var *)
        else ret (map row_triple (map swap01 rows))
      else ret (map row_triple rows)
  end.

(* ---------- angular order without trigonometry ---------- *)
(* atan2(dy, dx) ranges over [-pi, pi]; atan2(0, 0) = 0.  In exact arithmetic the value -pi is never taken;
   with floats it is taken exactly when dx < 0 and dy is a NEGATIVELY SIGNED zero (-0.0), and a point that lies
   exactly on the branch cut (dy = 0, dx < 0) gets an angle next to -pi when the subtraction p.y - center.y
   leaves a negative rounding residue.  That sign is float noise, not a function of the exact data: it is
   the oracle flag [low] (false = exact arithmetic).
   class 0: dy = 0, dx < 0, low   angle = -pi
   class 1: dy < 0                angle in (-pi, 0)
   class 2: dy = 0, dx >= 0       angle = 0     (the zero vector included)
   class 3: dy > 0                angle in (0, pi)
   class 4: dy = 0, dx < 0        angle = pi *)
Definition aclass (low : bool) (d : pt) : nat :=
  match Qcompare (snd d) 0 with
  | Lt => 1%nat
  | Gt => 3%nat
  | Eq => match Qcompare (fst d) 0 with Lt => if low then 0%nat else 4%nat | _ => 2%nat end
  end.
Definition cross (d1 d2 : pt) : Q := fst d1 * snd d2 - snd d1 * fst d2.
(* atan2 d1 <= atan2 d2 *)
Definition ang_leb_gen (l1 : bool) (d1 : pt) (l2 : bool) (d2 : pt) : bool :=
  let c1 := aclass l1 d1 in
  let c2 := aclass l2 d2 in
  if Nat.ltb c1 c2 then true
  else if Nat.ltb c2 c1 then false
  else if Nat.eqb c1 1 || Nat.eqb c1 3 then Qle_bool 0 (cross d1 d2)
  else true.
(* the exact order *)
Definition ang_leb (d1 d2 : pt) : bool := ang_leb_gen false d1 false d2.
Definition vsub (p c : pt) : pt := (fst p - fst c, snd p - snd c).
Definition ang_leb_at (low : pt -> bool) (c p q : pt) : bool :=
  ang_leb_gen (low p) (vsub p c) (low q) (vsub q c).

(* sorted(points, key=...) is stable: an insertion sort that puts p before the first q with key p <= key q,
   run from the right end *)
Fixpoint insert_ang (low : pt -> bool) (c p : pt) (l : list pt) : list pt :=
  match l with
  | [] => [p]
  | q :: r => if ang_leb_at low c p q then p :: q :: r else q :: insert_ang low c p r
  end.
Definition sort_angular (low : pt -> bool) (c : pt) (l : list pt) : list pt :=
  fold_right (insert_ang low c) [] l.
Definition exact : pt -> bool := fun _ => false.

(* center = (sum(x) / len(x), sum(y) / len(y)) *)
Definition qsum (l : list Q) : Q := fold_left Qplus l 0.
Definition mean (l : list Q) : Q := Qred (qsum l / inject_Z (Z.of_nat (List.length l))).
Definition centroid (pts : list pt) : pt := (mean (map fst pts), mean (map snd pts)).

(* ---------- _get_bounding_vertices ---------- *)
Definition fallback_dirs : list pt := [(0, 1); (0, -(1)); (1, 0); (-(1), 0)].
Definition bounding_vertices (O : oracles) (rows : list row3) : M (list pt) :=
  match centre O rows with
  | None => raise ValueErr                                  (* "Region is empty" *)
  | Some _ =>
      pts <- match Q_hull O rows with
             | Some [] => raise ValueErr                    (* zip of no intersections: "not enough values to unpack" is a ValueError *)
             | Some l => ret l
             | None =>
                 match extreme O rows (0, 1), extreme O rows (0, -(1)),
                       extreme O rows (1, 0), extreme O rows (-(1), 0) with
                 | Some p1, Some p2, Some p3, Some p4 => ret [p1; p2; p3; p4]
                 | _, _, _, _ => raise (Escape "IndexError")   (* np.array(None)[0] *)
                 end
             end ;;
      ret (sort_angular (cut_low O) (centroid pts) pts)
  end.

(* ---------- constraints_to_vertices ---------- *)
Definition constraints_to_vertices (O : oracles) (constraints : list pterm) (x y : var)
    (vals : behavior) (x_lims y_lims : Q * Q) : M (list pt) :=
  rows <- plot_rows constraints x y vals x_lims y_lims ;;
  bounding_vertices O rows.

(* ================================================================== *)
(* REFERENCE: the corner points of { p | forall (a,b,c) in P, a*px + b*py <= c }:
   every pairwise intersection of two non-parallel boundary lines (Cramer's rule) that satisfies every row. *)
Definition det (r1 r2 : row3) : Q :=
  let '(a1, b1, _) := r1 in let '(a2, b2, _) := r2 in a1 * b2 - a2 * b1.
Definition meet (r1 r2 : row3) : pt :=
  let '(a1, b1, c1) := r1 in
  let '(a2, b2, c2) := r2 in
  let d := a1 * b2 - a2 * b1 in
  (Qred ((c1 * b2 - c2 * b1) / d), Qred ((a1 * c2 - a2 * c1) / d)).
Definition lhs3 (r : row3) (p : pt) : Q := let '(a, b, _) := r in a * fst p + b * snd p.
Definition rhs3 (r : row3) : Q := let '(_, _, c) := r in c.
Definition sat3b (p : pt) (r : row3) : bool := Qle_bool (lhs3 r p) (rhs3 r).
Definition feasb (P : list row3) (p : pt) : bool := forallb (sat3b p) P.
Definition pt_eqb (p q : pt) : bool := Qeq_bool (fst p) (fst q) && Qeq_bool (snd p) (snd q).
Fixpoint dedup (l : list pt) : list pt :=
  match l with
  | [] => []
  | p :: r => if existsb (pt_eqb p) r then dedup r else p :: dedup r
  end.
Definition meets (P : list row3) : list pt :=
  flat_map (fun r1 => flat_map (fun r2 => if Qeq_bool (det r1 r2) 0 then [] else [meet r1 r2]) P) P.
Definition corners (P : list row3) : list pt := dedup (filter (feasb P) (meets P)).

(* ---------- helpers for the replay harness ---------- *)
Fixpoint pts_eqb (l1 l2 : list pt) : bool :=
  match l1, l2 with
  | [], [] => true
  | p :: r1, q :: r2 => pt_eqb p q && pts_eqb r1 r2
  | _, _ => false
  end.
Definition row3_eqb (r1 r2 : row3) : bool :=
  let '(a1, b1, c1) := r1 in let '(a2, b2, c2) := r2 in
  Qeq_bool a1 a2 && Qeq_bool b1 b2 && Qeq_bool c1 c2.
Fixpoint rows3_eqb (l1 l2 : list row3) : bool :=
  match l1, l2 with
  | [], [] => true
  | p :: r1, q :: r2 => row3_eqb p q && rows3_eqb r1 r2
  | _, _ => false
  end.
(* same points as sets (the Q_hull spec, checked per recorded call) *)
Definition pts_same_set (l1 l2 : list pt) : bool :=
  forallb (fun p => existsb (pt_eqb p) l2) l1 && forallb (fun p => existsb (pt_eqb p) l1) l2.
Definition err_eqb (e1 e2 : err) : bool :=
  match e1, e2 with
  | ValueErr, ValueErr | IncompatibleArgs, IncompatibleArgs | SyntaxErr, SyntaxErr
  | ConvexErr, ConvexErr | FormatErr, FormatErr | OracleMiss, OracleMiss => true
  | Escape a, Escape b => String.eqb a b
  | _, _ => false
  end.
Definition res_eqb (r1 r2 : M (list pt)) : bool :=
  match r1, r2 with
  | inl a, inl b => pts_eqb a b
  | inr a, inr b => err_eqb a b
  | _, _ => false
  end.
(* replay oracle for the four fallback LPs *)
Fixpoint extreme_table (tbl : list (pt * option pt)) (c : pt) : option pt :=
  match tbl with
  | [] => None
  | (d, a) :: r => if pt_eqb d c then a else extreme_table r c
  end.
