(* PolyDomain.v — the polyhedral instance of the abstract constraint domain: the translated algebra
   (gen/AlgebraGen.v) instantiated with the hand-written polyhedral primitives, plus the thin
   wrappers of pacti/contracts/polyhedral_iocontract.py (default tactic order, string -> Var,
   rename_variables, optimize on a | g).  Definitions only. *)
From Coq Require Import List String Bool QArith ZArith.
Import ListNotations.
Require Import Py ListsGen ConstGen AlgebraGen Sem Term Poly Tactics Corr.

Definition poly_domain (O : oracle) : Domain := {|
  term := pterm;
  term_vars := term_vars_p;
  term_eqb := term_eqb_p;
  term_rename := term_rename_variable;
  p_elim_refine := elim_vars_by_refining O;
  p_elim_relax := elim_vars_by_relaxing O;
  p_simplify := poly_simplify O;
  p_refines := poly_refines O;
  p_is_empty := poly_is_empty O
|}.

Definition pcontract (O : oracle) : Type := @contract (poly_domain O).
Definition mk_pc (O : oracle) (a g : list pterm) (i o : list var) : pcontract O :=
  @Build_contract (poly_domain O) a g i o.
Definition pc_fields {O} (c : pcontract O) : list pterm * list pterm * list var * list var :=
  (@c_a (poly_domain O) c, @c_g (poly_domain O) c, @c_inputvars (poly_domain O) c, @c_outputvars (poly_domain O) c).

(* PolyhedralIoContract.compose_tactics / quotient_tactics: tactics_order defaults to the module's TACTICS_ORDER *)
Definition poly_order (od : option (list nat)) : option (list nat) :=
  Some (match od with None => TACTICS_ORDER_polyhedral_iocontract | Some o => o end).
Definition poly_compose_tactics (O : oracle) (c1 c2 : pcontract O) (keep : option (list var)) (sp : bool)
           (od : option (list nat)) : M (pcontract O * list stats) :=
  @IoContract_compose_tactics (poly_domain O) c1 c2 (Some (opt_list keep)) sp (poly_order od).
Definition poly_quotient_tactics (O : oracle) (c c1 : pcontract O) (add : option (list var)) (sp : bool)
           (od : option (list nat)) : M (pcontract O * list stats) :=
  @IoContract_quotient_tactics (poly_domain O) c c1 add sp (poly_order od).
Definition poly_merge (O : oracle) (c1 c2 : pcontract O) : M (pcontract O) := @IoContract_merge (poly_domain O) c1 c2.
Definition poly_refines_c (O : oracle) (c1 c2 : pcontract O) : M bool := @IoContract_refines (poly_domain O) c1 c2.
Definition poly_rename (O : oracle) (c : pcontract O) (s u : var) : M (pcontract O) :=
  @IoContract_rename_variable (poly_domain O) c s u.
Definition poly_copy (O : oracle) (c : pcontract O) : M (pcontract O) := @IoContract_copy (poly_domain O) c.
Definition poly_init (O : oracle) (a g : list pterm) (i o : list var) (sp : bool) : M (pcontract O) :=
  @IoContract_init (poly_domain O) a g i o sp.
(* PolyhedralIoContract.rename_variables: copy, then the mappings in order *)
Definition poly_rename_variables (O : oracle) (c : pcontract O) (mappings : list (var * var)) : M (pcontract O) :=
  fold_left (fun acc m => c' <- acc ;; poly_rename O c' (fst m) (snd m)) mappings (poly_copy O c).
(* PolyhedralIoContract.optimize on the parsed objective's variables *)
Definition poly_optimize_c (O : oracle) (c : pcontract O) (objective : pvars) (mx : bool) : M (option Q) :=
  poly_optimize O (@TermList_or (poly_domain O) (@c_a (poly_domain O) c) (@c_g (poly_domain O) c)) objective mx.

(* ---- comparison with the implementation's observed results ---- *)
Definition agree2 {A B} (cmp : A -> B -> bool) (r : M A) (e : expected B) : bool :=
  match r, e with
  | inl a, Exp b => cmp a b
  | inr x, ExpErr code => Nat.eqb (err_code x) code
  | _, _ => false
  end.
Definition fields_close (tau : Q) (x y : list pterm * list pterm * list var * list var) : bool :=
  let '(a1, g1, i1, o1) := x in let '(a2, g2, i2, o2) := y in
  terms_close tau a1 a2 && terms_close tau g1 g2 && list_eqb (A:=var) i1 i2 && list_eqb (A:=var) o1 o2.
Fixpoint statss_eqb (l1 l2 : list stats) : bool :=
  match l1, l2 with
  | [], [] => true
  | a :: r1, b :: r2 => stats_eqb a b && statss_eqb r1 r2
  | _, _ => false
  end.
Definition pair_close {O} (tau : Q) (r : pcontract O * list stats)
           (e : (list pterm * list pterm * list var * list var) * list stats) : bool :=
  fields_close tau (pc_fields (fst r)) (fst e) && statss_eqb (snd r) (snd e).
Definition cc_compose tau tbl a1 g1 i1 o1 a2 g2 i2 o2 keep sp od e : bool :=
  let O := table_oracle tau tbl in
  agree2 (pair_close tau) (poly_compose_tactics O (mk_pc O a1 g1 i1 o1) (mk_pc O a2 g2 i2 o2) keep sp od) e.
Definition cc_quotient tau tbl a1 g1 i1 o1 a2 g2 i2 o2 add sp od e : bool :=
  let O := table_oracle tau tbl in
  agree2 (pair_close tau) (poly_quotient_tactics O (mk_pc O a1 g1 i1 o1) (mk_pc O a2 g2 i2 o2) add sp od) e.
Definition one_close {O} (tau : Q) (r : pcontract O) (e : list pterm * list pterm * list var * list var) : bool :=
  fields_close tau (pc_fields r) e.
Definition cc_merge tau tbl a1 g1 i1 o1 a2 g2 i2 o2 e : bool :=
  let O := table_oracle tau tbl in
  agree2 (one_close tau) (poly_merge O (mk_pc O a1 g1 i1 o1) (mk_pc O a2 g2 i2 o2)) e.
Definition cc_rename tau tbl a1 g1 i1 o1 mappings e : bool :=
  let O := table_oracle tau tbl in
  agree2 (one_close tau) (poly_rename_variables O (mk_pc O a1 g1 i1 o1) mappings) e.
Definition cc_init tau tbl a g i o sp e : bool :=
  let O := table_oracle tau tbl in
  agree2 (one_close tau) (poly_init O a g i o sp) e.
Definition cc_refines tau tbl a1 g1 i1 o1 a2 g2 i2 o2 (e : expected bool) : bool :=
  let O := table_oracle tau tbl in
  agree Bool.eqb (poly_refines_c O (mk_pc O a1 g1 i1 o1) (mk_pc O a2 g2 i2 o2)) e.
Definition cc_optimize tau tbl a1 g1 i1 o1 obj mx (e : expected (option Q)) : bool :=
  let O := table_oracle tau tbl in
  agree (opt_close tau) (poly_optimize_c O (mk_pc O a1 g1 i1 o1) obj mx) e.
