(* Json.v — hand-written executable model of the JSON side of pacti:
     pacti/contracts/polyhedral_iocontract.py : PolyhedralIoContract.to_machine_dict / to_dict / from_dict
     pacti/terms/polyhedra/serializer.py      : validate_contract_dict / _check_clause / _is_number
     pacti/utils/fileio.py                    : read_contracts_from_file / write_contracts_to_file
     pacti/iocontract/iocontract.py           : IoContract.__init__ (the five interface checks, simplify=False)
   Definitions only; facts are in proofs/JsonFacts.v.  Tie to the code: correspondence
   (harness/json_cases.py runs both on the same inputs: every single-node fault of valid files).

   A [json] value is the Python object json.load returns.  Every *implicit* Python exception
   (TypeError of iter(None)/float(None), KeyError of d[k], AttributeError of 3 .items(),
   OverflowError of float(10**400), TypeError of a call with an unexpected keyword) is an [Escape "<type name>"]
   at the place where Python raises it, so that "no Escape after validation" means something.

   Modelling conventions (flagged, not proved):
   - a finite float is the rational it denotes; NaN/Infinity (json.load accepts the literals
     NaN, Infinity, 1e400) cannot be written as a [json] value: such files are outside the model;
   - JObj keeps insertion order; json.load never produces duplicate keys ([json_wf]);
     [jget] returns the first binding;
   - str(x) of a non-string (Var(str(varname))) and float(s) of a string are consulted only by the
     *unvalidated* from_dict; they are arguments [pstr]/[s2f] of the generic definitions (theorems
     hold for every choice); [py_repr]/[dec_float] are concrete instances used for evaluation. *)
From Coq Require Import List String Bool QArith ZArith Ascii.
Import ListNotations.
Require Import Py ListsGen Sem Term.
Local Open Scope string_scope.

(* ------------------------------------------------------------------ *)
(** * JSON values *)
Inductive json : Type :=
| JNull
| JBool (b : bool)
| JNum (q : Q) (is_int : bool)       (* is_int: Python sees an int; otherwise a (finite) float *)
| JStr (s : string)
| JList (l : list json)
| JObj (fields : list (string * json)).

(* `k in d`, `d[k]` *)
Fixpoint jget (k : string) (fs : list (string * json)) : option json :=
  match fs with
  | [] => None
  | (k', v) :: r => if String.eqb k' k then Some v else jget k r
  end.
Definition jhas (k : string) (fs : list (string * json)) : bool :=
  match jget k fs with Some _ => true | None => false end.
Definition jkeys (fs : list (string * json)) : list string := map fst fs.

(* what json.load guarantees: no duplicate keys, an int has denominator 1 *)
Fixpoint json_wf (j : json) : Prop :=
  match j with
  | JNum q true => Qden q = 1%positive
  | JList l => (fix all (l : list json) : Prop :=
                  match l with [] => True | x :: r => json_wf x /\ all r end) l
  | JObj fs => NoDup (jkeys fs) /\
               (fix all (l : list (string * json)) : Prop :=
                  match l with [] => True | p :: r => json_wf (snd p) /\ all r end) fs
  | _ => True
  end.

(* isinstance tests *)
Definition is_obj (j : json) : bool := match j with JObj _ => true | _ => false end.
Definition is_list (j : json) : bool := match j with JList _ => true | _ => false end.
Definition is_str (j : json) : bool := match j with JStr _ => true | _ => false end.
(* serializer._is_number: isinstance(value, (int, float)) and not isinstance(value, bool) *)
Definition is_number (j : json) : bool := match j with JNum _ _ => true | _ => false end.

(* bool(x) *)
Definition py_truth (j : json) : bool :=
  match j with
  | JNull => false
  | JBool b => b
  | JNum q _ => negb (qzero q)
  | JStr s => negb (String.eqb s "")
  | JList l => nonempty l
  | JObj fs => nonempty fs
  end.

(* ------------------------------------------------------------------ *)
(** * float() *)
(* round-half-even of n/d (n >= 0, d > 0) to an integer *)
Definition round_half_even (n d : Z) : Z :=
  let q := (n / d)%Z in
  let r := (n mod d)%Z in
  match (2 * r ?= d)%Z with
  | Lt => q
  | Gt => (q + 1)%Z
  | Eq => if Z.even q then q else (q + 1)%Z
  end.
(* the binary64 nearest to q (ties to even, subnormals included); None = overflow *)
Definition round_to_double (q : Q) : option Q :=
  let n := Z.abs (Qnum q) in
  let d := Zpos (Qden q) in
  if (n =? 0)%Z then Some 0%Q else
  let scaled (e : Z) : Z * Z :=
    if (0 <=? e)%Z then (n, (d * 2 ^ e)%Z) else ((n * 2 ^ (- e))%Z, d) in
  let e0 := (Z.log2 n - Z.log2 d - 52)%Z in
  let e1 := let '(a, b) := scaled e0 in if (a <? b * 2 ^ 52)%Z then (e0 - 1)%Z else e0 in
  let e := Z.max e1 (-1074)%Z in
  let '(a, b) := scaled e in
  let m := round_half_even a b in
  let r : Q := if (0 <=? e)%Z then inject_Z (m * 2 ^ e) else Qred (Qmake m (Z.to_pos (2 ^ (- e)))) in
  if Qle_bool (inject_Z (2 ^ 1024)) r then None
  else Some (if (Qnum q <? 0)%Z then Qred (- r) else r).

(* float(n) for an int: nearest double, OverflowError beyond the range *)
Definition int_to_float (q : Q) : M Q :=
  match round_to_double q with
  | Some r => ret r
  | None => raise (Escape "OverflowError")
  end.

Section Generic.
(* float(s) of a str: Some q = the finite float denoting q; None = ValueError *)
Context (s2f : string -> option Q).
(* str(x) of a non-str JSON value *)
Context (pstr : json -> string).

Definition py_float (j : json) : M Q :=
  match j with
  | JNull => raise (Escape "TypeError")
  | JBool b => ret (if b then 1%Q else 0%Q)           (* float(True) == 1.0 *)
  | JNum q true => int_to_float q
  | JNum q false => ret q
  | JStr s => match s2f s with Some q => ret q | None => raise ValueErr end
  | JList _ => raise (Escape "TypeError")
  | JObj _ => raise (Escape "TypeError")
  end.

(* value != 0 *)
Definition ne_zero (j : json) : bool :=
  match j with
  | JBool b => b                                       (* False == 0 *)
  | JNum q _ => negb (qzero q)
  | _ => true
  end.

(* UTF-8 code points of a byte string: iteration over a Python str *)
Definition is_cont (a : ascii) : bool :=
  match a with Ascii _ _ _ _ _ _ b6 b7 => b7 && negb b6 end.
Fixpoint utf8_chars_aux (cur : string) (s : string) : list string :=
  match s with
  | EmptyString => match cur with EmptyString => [] | _ => [cur] end
  | String a r =>
      if is_cont a then utf8_chars_aux (cur ++ String a EmptyString) r
      else match cur with
           | EmptyString => utf8_chars_aux (String a EmptyString) r
           | _ => cur :: utf8_chars_aux (String a EmptyString) r
           end
  end.
Definition utf8_chars (s : string) : list string := utf8_chars_aux EmptyString s.

(* `for x in value` *)
Definition py_iter (j : json) : M (list json) :=
  match j with
  | JList l => ret l
  | JStr s => ret (map JStr (utf8_chars s))
  | JObj fs => ret (map (fun p => JStr (fst p)) fs)
  | _ => raise (Escape "TypeError")
  end.

(* Var(x): self._name = str(varname) *)
Definition py_var (j : json) : var :=
  match j with JStr s => s | _ => pstr j end.

(* ------------------------------------------------------------------ *)
(** * Contracts (interface checks only: simplify=False) *)
Record pcontract : Type := { pa : list pterm; pg : list pterm; pin : list var; pout : list var }.

(* IoContract.__init__(assumptions, guarantees, input_vars, output_vars, simplify=False) *)
Definition pc_init (a g : list pterm) (i o : list var) : M pcontract :=
  if has_dup i then raise IncompatibleArgs
  else if has_dup o then raise IncompatibleArgs
  else if nonempty (list_intersection i o) then raise IncompatibleArgs
  else if nonempty (list_diff (tl_vars a) i) then raise IncompatibleArgs
  else if nonempty (list_diff (tl_vars g) (list_union i o)) then raise IncompatibleArgs
  else ret {| pa := map term_copy a; pg := map term_copy g; pin := i; pout := o |}.

(* ------------------------------------------------------------------ *)
(** * to_machine_dict / to_dict *)
Definition term_to_json (t : pterm) : json :=
  JObj [("constant", JNum (tconst t) false);
        ("coefficients", JObj (map (fun p => (fst p, JNum (snd p) false)) (tvars t)))].
Definition to_machine_dict (c : pcontract) : json :=
  JObj [("input_vars", JList (map JStr (pin c)));
        ("output_vars", JList (map JStr (pout c)));
        ("assumptions", JList (map term_to_json (pa c)));
        ("guarantees", JList (map term_to_json (pg c)))].
(* to_dict: the string printer PolyhedralTermList.to_str_list is another model *)
Definition to_dict (to_str_list : list pterm -> list string) (c : pcontract) : json :=
  JObj [("input_vars", JList (map JStr (pin c)));
        ("output_vars", JList (map JStr (pout c)));
        ("assumptions", JList (map JStr (to_str_list (pa c))));
        ("guarantees", JList (map JStr (to_str_list (pg c))))].

(* ------------------------------------------------------------------ *)
(** * from_dict (simplify=False) *)
Fixpoint mapM {A B} (f : A -> M B) (l : list A) : M (list B) :=
  match l with
  | [] => ret []
  | x :: r => y <- f x ;; ys <- mapM f r ;; ret (y :: ys)
  end.

(* PolyhedralTerm.__init__'s loop over {Var(k): v ...}: zero values skipped, float(value) *)
Fixpoint coef_loop (fs : list (string * json)) : M pvars :=
  match fs with
  | [] => ret []
  | (k, v) :: r =>
      if ne_zero v then q <- py_float v ;; rest <- coef_loop r ;; ret ((k, q) :: rest)
      else coef_loop r
  end.

(* PolyhedralTerm({Var(k): v for k, v in x["coefficients"].items()}, float(x["constant"]))  (x a dict) *)
Definition build_term (x : json) : M pterm :=
  match x with
  | JObj cfs =>
      match jget "coefficients" cfs with
      | None => raise (Escape "KeyError")
      | Some (JObj coefs) =>
          match jget "constant" cfs with
          | None => raise (Escape "KeyError")
          | Some cv =>
              c <- py_float cv ;;
              vs <- coef_loop coefs ;;
              ret (mkT vs c)
          end
      | Some _ => raise (Escape "AttributeError")        (* .items() *)
      end
  | _ => raise (Escape "AttributeError")                 (* unreachable: guarded by all(isinstance(x, dict)) *)
  end.

(* if all(isinstance(x, dict) for x in v): PolyhedralTermList([...]) else: raise ValueError *)
Definition build_terms (v : json) : M (list pterm) :=
  items <- py_iter v ;;
  if forallb is_obj items then mapM build_term items else raise ValueErr.

Definition contract_keywords : list string := ["assumptions"; "guarantees"; "input_vars"; "output_vars"].

Definition from_dict (contract : json) : M pcontract :=
  match contract with
  | JObj fs =>
      if negb (forallb (fun kw => jhas kw fs) contract_keywords) then raise ValueErr else
      match jget "assumptions" fs, jget "guarantees" fs, jget "input_vars" fs, jget "output_vars" fs with
      | Some ja, Some jg, Some ji, Some jo =>
          a <- build_terms ja ;;
          g <- build_terms jg ;;
          i <- py_iter ji ;;
          o <- py_iter jo ;;
          pc_init a g (map py_var i) (map py_var o)
      | _, _, _, _ => raise ValueErr
      end
  | _ => raise ValueErr
  end.

(* ------------------------------------------------------------------ *)
(** * validate_contract_dict *)
Definition fmt_check (b : bool) : M unit := if b then ret tt else raise FormatErr.

Fixpoint forM {A} (f : A -> M unit) (l : list A) : M unit :=
  match l with
  | [] => ret tt
  | x :: r => _ <- f x ;; forM f r
  end.

(* serializer._check_clause *)
Definition check_clause (clause : json) : M unit :=
  match clause with
  | JObj cfs =>
      match jget "constant" cfs with
      | None => raise FormatErr
      | Some cv =>
          _ <- fmt_check (is_number cv) ;;
          match jget "coefficients" cfs with
          | None => raise FormatErr
          | Some (JObj coefs) => forM (fun p => fmt_check (is_number (snd p))) coefs
          | Some _ => raise FormatErr
          end
      end
  | _ => raise FormatErr
  end.

Definition validate_kw (fs : list (string * json)) (machine : bool) (kw : string) : M unit :=
  match jget kw fs with
  | None => raise FormatErr
  | Some (JList value) =>
      let str_list_kw := (["input_vars"; "output_vars"]
                          ++ if machine then [] else ["assumptions"; "guarantees"])%list in
      if py_in kw str_list_kw then forM (fun x => fmt_check (is_str x)) value
      else if machine then forM check_clause value
      else ret tt
  | Some _ => raise FormatErr
  end.

Definition validate_contract_dict (contract : json) (machine : bool) : M unit :=
  match contract with
  | JObj fs => forM (validate_kw fs machine) contract_keywords
  | _ => raise FormatErr
  end.

(* ------------------------------------------------------------------ *)
(** * fileio.read_contracts_from_file *)
Inductive loaded : Type :=
| LMachine (c : pcontract)
    (* PolyhedralIoContract.from_dict(data, simplify=False); the caller composes with the simplifier *)
| LStrings (assumptions guarantees input_vars output_vars : list string) (simplify : bool)
    (* handed to PolyhedralIoContract.from_strings(...): the parser is another model *)
| LCompound (assumptions guarantees input_vars output_vars : json).
    (* handed, unvalidated, to PolyhedralIoContractCompound.from_strings(...) *)

Definition T_MACHINE := "PolyhedralIoContract_machine".
Definition T_STRINGS := "PolyhedralIoContract".
Definition T_COMPOUND := "PolyhedralIoContractCompound".

(* first loop: shape of one file entry *)
Definition check_entry (entry : json) : M unit :=
  match entry with
  | JObj fs =>
      _ <- fmt_check (forallb (fun kw => jhas kw fs) ["type"; "name"; "data"]) ;;
      match jget "name" fs with
      | Some (JStr _) => ret tt
      | _ => raise FormatErr
      end
  | _ => raise FormatErr
  end.

Definition str_of (j : json) : string := match j with JStr s => s | _ => "" end.
Definition strs_of (j : json) : list string :=
  match j with JList l => map str_of l | _ => [] end.

(* call with the dict as keyword arguments: every key must be a parameter name, every parameter without default must be given *)
Definition bind_kwargs (required optional : list string) (data : json) : M unit :=
  match data with
  | JObj fs =>
      if forallb (fun k => py_in k (required ++ optional)%list) (jkeys fs)
         && forallb (fun k => jhas k fs) required
      then ret tt else raise (Escape "TypeError")
  | _ => raise (Escape "TypeError")                    (* argument after ** must be a mapping *)
  end.

Definition jget_or_null (k : string) (j : json) : json :=
  match j with
  | JObj fs => match jget k fs with Some v => v | None => JNull end
  | _ => JNull
  end.

(* the dispatch on entry["type"] *)
Definition load_typed (ty : json) (name : string) (data : json) : M (string * loaded) :=
  match ty with
  | JStr t =>
      if String.eqb t T_MACHINE then
        _ <- validate_contract_dict data true ;;
        c <- from_dict data ;;
        ret (name, LMachine c)
      else if String.eqb t T_STRINGS then
        _ <- validate_contract_dict data false ;;
        _ <- bind_kwargs contract_keywords ["simplify"] data ;;
        let simplify := match data with
                        | JObj dfs => match jget "simplify" dfs with
                                      | Some v => py_truth v | None => true end
                        | _ => true end in
        ret (name, LStrings (strs_of (jget_or_null "assumptions" data))
                            (strs_of (jget_or_null "guarantees" data))
                            (strs_of (jget_or_null "input_vars" data))
                            (strs_of (jget_or_null "output_vars" data)) simplify)
      else if String.eqb t T_COMPOUND then
        _ <- bind_kwargs contract_keywords [] data ;;
        ret (name, LCompound (jget_or_null "assumptions" data) (jget_or_null "guarantees" data)
                             (jget_or_null "input_vars" data) (jget_or_null "output_vars" data))
      else raise ValueErr
  | _ => raise ValueErr                                  (* entry["type"] == "..." is False for a non-str *)
  end.

(* second loop: load one (shape-checked) entry *)
Definition load_entry (entry : json) : M (string * loaded) :=
  match entry with
  | JObj fs =>
      match jget "type" fs, jget "name" fs, jget "data" fs with
      | Some ty, Some nm, Some data => load_typed ty (str_of nm) data
      | _, _, _ => raise (Escape "KeyError")             (* unreachable after check_entry *)
      end
  | _ => raise (Escape "TypeError")                      (* unreachable after check_entry *)
  end.

(* one entry in isolation = a one-entry file *)
Definition read_entry (entry : json) : M (string * loaded) :=
  _ <- check_entry entry ;; load_entry entry.

(* the whole file: the shape loop runs over ALL entries before the first one is loaded *)
Definition read_file (file_data : json) : M (list (string * loaded)) :=
  match file_data with
  | JList entries => _ <- forM check_entry entries ;; mapM load_entry entries
  | _ => raise FormatErr
  end.

(* ------------------------------------------------------------------ *)
(** * fileio.write_contracts_to_file (PolyhedralIoContract entries) *)
Definition write_entry_machine (name : string) (c : pcontract) : json :=
  JObj [("name", JStr name); ("type", JStr T_MACHINE); ("data", to_machine_dict c)].
Definition write_entry_strings (to_str_list : list pterm -> list string) (name : string) (c : pcontract) : json :=
  JObj [("name", JStr name); ("type", JStr T_STRINGS); ("data", to_dict to_str_list c)].
Definition write_file_machine (cs : list (string * pcontract)) : json :=
  JList (map (fun p => write_entry_machine (fst p) (snd p)) cs).

End Generic.

(* ------------------------------------------------------------------ *)
(** * Concrete instances of the two string functions (used for evaluation only) *)

(* ---- decimal printing ---- *)
Definition digit_char (d : Z) : ascii := ascii_of_N (Z.to_N (48 + d)).
Fixpoint pos_digits_fuel (fuel : nat) (n : Z) (acc : string) : string :=
  match fuel with
  | O => acc
  | S f => if (n <? 10)%Z then String (digit_char n) acc
           else pos_digits_fuel f (n / 10)%Z (String (digit_char (n mod 10)%Z) acc)
  end.
Definition nat_str (n : Z) : string := pos_digits_fuel (S (Z.to_nat (Z.log2 n))) n "".
Definition int_str (n : Z) : string :=
  if (n <? 0)%Z then "-" ++ nat_str (- n) else nat_str n.

(* ---- repr(float): shortest decimal that reads back as the same double ----
   (the sign of zero is not represented: repr(-0.0) is "-0.0" in Python, "0.0" here) *)
(* floor(log10 v) + 1 for v = n/d > 0, by search from an estimate *)
Definition pow10 (k : Z) : Q :=
  if (0 <=? k)%Z then inject_Z (10 ^ k) else Qmake 1 (Z.to_pos (10 ^ (- k))).
Fixpoint decpt_search (fuel : nat) (v : Q) (k : Z) : Z :=
  (* least k with v < 10^k, searched upward from a lower estimate *)
  match fuel with
  | O => k
  | S f => if Qle_bool (pow10 k) v then decpt_search f v (k + 1)%Z else k
  end.
Definition decpt_of (v : Q) : Z :=
  let n := Qnum v in let d := Zpos (Qden v) in
  (* log10 v >= (log2 n - log2 d - 1) * log10 2 ; 30103/100000 < log10 2 < 30104/100000 *)
  let l2 := (Z.log2 n - Z.log2 d - 1)%Z in
  let est := ((if (0 <=? l2)%Z then l2 * 30102 else l2 * 30104) / 100000 - 1)%Z in
  decpt_search 8 v est.
(* the k-digit decimal nearest to v (ties to even): digits m and the exponent, v ~ m * 10^(decpt-k) *)
Definition round_digits (v : Q) (decpt : Z) (k : Z) : Z :=
  let s := Qred (v * pow10 (k - decpt)) in
  round_half_even (Qnum s) (Zpos (Qden s)).
Fixpoint shortest_digits (fuel : nat) (v : Q) (decpt : Z) (k : Z) : Z * Z :=
  let m := round_digits v decpt k in
  match fuel with
  | O => (m, k)
  | S f =>
      match round_to_double (Qred (inject_Z m * pow10 (decpt - k))) with
      | Some r => if Qeq_bool r v then (m, k) else shortest_digits f v decpt (k + 1)%Z
      | None => shortest_digits f v decpt (k + 1)%Z
      end
  end.
Fixpoint strip_zeros_fuel (fuel : nat) (m k : Z) : Z * Z :=
  match fuel with
  | O => (m, k)
  | S f => if ((1 <? k) && (m mod 10 =? 0))%Z%bool then strip_zeros_fuel f (m / 10)%Z (k - 1)%Z else (m, k)
  end.
Fixpoint zeros (n : nat) : string := match n with O => "" | S k => String "0" (zeros k) end.
Definition str_take (n : nat) (s : string) : string := substring 0 n s.
Definition str_drop (n : nat) (s : string) : string := substring n (String.length s - n) s.
Definition float_repr (q : Q) : string :=
  if qzero q then "0.0" else
  let v := Qred (Qabs.Qabs q) in
  let sign := if (Qnum q <? 0)%Z then "-" else "" in
  let decpt0 := decpt_of v in
  let '(m0, k0) := shortest_digits 17 v decpt0 1 in
  (* rounding may carry to 10^k: one more integer digit *)
  let '(m1, decpt) := if (m0 =? 10 ^ k0)%Z then ((m0 / 10)%Z, (decpt0 + 1)%Z) else (m0, decpt0) in
  let '(m, k) := strip_zeros_fuel 20 m1 k0 in
  let ds := nat_str m in
  let kn := Z.to_nat k in
  if ((-4 <? decpt) && (decpt <=? 16))%Z%bool then
    (if (decpt <=? 0)%Z then sign ++ "0." ++ zeros (Z.to_nat (- decpt)) ++ ds
     else if (k <=? decpt)%Z then sign ++ ds ++ zeros (Z.to_nat (decpt - k)) ++ ".0"
     else sign ++ str_take (Z.to_nat decpt) ds ++ "." ++ str_drop (Z.to_nat decpt) ds)
  else
    let e := (decpt - 1)%Z in
    let es := nat_str (Z.abs e) in
    let es2 := if (Z.abs e <? 10)%Z then "0" ++ es else es in
    sign ++ str_take 1 ds ++ (if (1 <? k)%Z then "." ++ str_drop 1 ds else "")
         ++ "e" ++ (if (e <? 0)%Z then "-" else "+") ++ es2.

(* ---- repr(str) for ASCII content (bytes >= 0x80 are passed through: printable non-ASCII) ---- *)
Definition hex_digit (n : N) : ascii :=
  if (n <? 10)%N then ascii_of_N (48 + n) else ascii_of_N (87 + n).
Fixpoint str_contains (a : ascii) (s : string) : bool :=
  match s with EmptyString => false | String b r => Ascii.eqb a b || str_contains a r end.
Fixpoint repr_body (quote : ascii) (s : string) : string :=
  match s with
  | EmptyString => ""
  | String a r =>
      let n := N_of_ascii a in
      let rest := repr_body quote r in
      if Ascii.eqb a "\" then String "\" (String "\" rest)
      else if Ascii.eqb a quote then String "\" (String a rest)
      else if (n =? 10)%N then String "\" (String "n" rest)
      else if (n =? 13)%N then String "\" (String "r" rest)
      else if (n =? 9)%N then String "\" (String "t" rest)
      else if ((n <? 32) || (n =? 127))%N%bool then
        String "\" (String "x" (String (hex_digit (n / 16)) (String (hex_digit (n mod 16)) rest)))
      else String a rest
  end.
Definition str_repr (s : string) : string :=
  let sq := "'"%char in let dq := """"%char in
  let quote := if str_contains sq s && negb (str_contains dq s) then dq else sq in
  String quote (repr_body quote s ++ String quote "").

Fixpoint join (sep : string) (l : list string) : string :=
  match l with
  | [] => ""
  | [x] => x
  | x :: r => x ++ sep ++ join sep r
  end.

(* repr(x); str(x) == repr(x) for every non-str JSON value *)
Fixpoint py_repr (j : json) : string :=
  match j with
  | JNull => "None"
  | JBool b => if b then "True" else "False"
  | JNum q true => int_str (Qnum q)
  | JNum q false => float_repr q
  | JStr s => str_repr s
  | JList l => "[" ++ join ", " (map py_repr l) ++ "]"
  | JObj fs => "{" ++ join ", " ((fix go (l : list (string * json)) : list string :=
                                    match l with
                                    | [] => []
                                    | p :: r => (str_repr (fst p) ++ ": " ++ py_repr (snd p)) :: go r
                                    end) fs) ++ "}"
  end.

(* ---- float(str) for finite decimal literals ---- *)
(* grammar of float(): ws* [+-]? ( digits [. [digits]] | . digits ) [ (e|E) [+-]? digits ] ws*,
   '_' allowed between two digits; the value is rounded to the nearest double (ties to even).
   Limits of this instance (flagged; the theorems do not depend on it): "inf"/"nan"/overflowing
   literals give non-finite floats, which are outside the model (answered None here); only ASCII
   digits and ASCII whitespace are recognised (Python also accepts other Unicode decimal digits
   and Unicode whitespace, e.g. float of ARABIC-INDIC DIGIT ONE is 1.0). *)
Definition is_ws (a : ascii) : bool :=
  let n := N_of_ascii a in (((9 <=? n) && (n <=? 13)) || ((28 <=? n) && (n <=? 32)))%N%bool.
Definition is_digit (a : ascii) : bool :=
  let n := N_of_ascii a in ((48 <=? n) && (n <=? 57))%N%bool.
Fixpoint lstrip (s : string) : string :=
  match s with String a r => if is_ws a then lstrip r else s | _ => s end.
Fixpoint str_rev_acc (s acc : string) : string :=
  match s with EmptyString => acc | String a r => str_rev_acc r (String a acc) end.
Definition str_rev (s : string) : string := str_rev_acc s "".
Definition strip (s : string) : string := str_rev (lstrip (str_rev (lstrip s))).

(* digits with single underscores between digits; returns (value, number of digits, rest) *)
Fixpoint read_digits (s : string) (acc : Z) (cnt : Z) (prev_digit : bool) : option (Z * Z * string) :=
  match s with
  | String a r =>
      if is_digit a then read_digits r (acc * 10 + (Z.of_N (N_of_ascii a) - 48))%Z (cnt + 1)%Z true
      else if Ascii.eqb a "_" then
        (* must be between two digits *)
        if prev_digit then
          match r with
          | String b _ => if is_digit b then read_digits r acc cnt false else None
          | _ => None
          end
        else None
      else Some (acc, cnt, s)
  | EmptyString => Some (acc, cnt, s)
  end.

Definition parse_exponent (s : string) : option Z :=
  match s with
  | EmptyString => Some 0%Z
  | String a r =>
      if Ascii.eqb a "e" || Ascii.eqb a "E" then
        let '(neg, r') := match r with
                          | String b r2 => if Ascii.eqb b "-" then (true, r2)
                                           else if Ascii.eqb b "+" then (false, r2) else (false, r)
                          | _ => (false, r) end in
        match read_digits r' 0 0 false with
        | Some (v, cnt, EmptyString) => if (0 <? cnt)%Z then Some (if neg then (- v)%Z else v) else None
        | _ => None
        end
      else None
  end.

Definition dec_exact (s : string) : option Q :=
  let s0 := strip s in
  let '(neg, s1) := match s0 with
                    | String a r => if Ascii.eqb a "-" then (true, r)
                                    else if Ascii.eqb a "+" then (false, r) else (false, s0)
                    | _ => (false, s0) end in
  match read_digits s1 0 0 false with
  | None => None
  | Some (ip, icnt, s2) =>
      let frac := match s2 with
                  | String a r =>
                      if Ascii.eqb a "." then
                        match read_digits r 0 0 false with
                        | Some (fp, fcnt, s3) => Some (fp, fcnt, s3)
                        | None => None
                        end
                      else Some (0%Z, 0%Z, s2)
                  | _ => Some (0%Z, 0%Z, s2) end in
      match frac with
      | None => None
      | Some (fp, fcnt, s3) =>
          if ((icnt =? 0) && (fcnt =? 0))%Z%bool then None else
          match parse_exponent s3 with
          | None => None
          | Some e =>
              let mant := (ip * 10 ^ fcnt + fp)%Z in
              let v := Qred (inject_Z mant * pow10 (e - fcnt)) in
              Some (if neg then Qred (- v) else v)
          end
      end
  end.
Definition dec_float (s : string) : option Q :=
  match dec_exact s with
  | Some v => round_to_double v
  | None => None
  end.

(* ------------------------------------------------------------------ *)
(** * The instantiated API *)
Definition from_dict_c : json -> M pcontract := from_dict dec_float py_repr.
Definition read_entry_c : json -> M (string * loaded) := read_entry dec_float py_repr.
Definition read_file_c : json -> M (list (string * loaded)) := read_file dec_float py_repr.
