(* ParseAll.v — polyhedral_termlist_from_string as the composition of the two syntax models:
   string --Grammar.parse_expr--> Ast.expr --Syntax.fold_expr--> list pterm.  Definitions only. *)
From Coq Require Import List String Bool QArith.
Import ListNotations.
Require Import Py Sem Term Ast Grammar Syntax.

(* polyhedral_termlist_from_string reports a ZeroDivisionError raised by a constant-arithmetic parse action
   as PolyhedralSyntaxException (repo commit de9f256) *)
Definition api_error (e : err) : err :=
  match e with
  | Escape k => if String.eqb k "ZeroDivisionError" then SyntaxErr else e
  | _ => e
  end.

Definition parse_terms (s : string) : M (list pterm) :=
  match Grammar.parse_expr s with
  | Ok e => match fold_expr e with inl ts => inl ts | inr x => inr (api_error x) end
  | Reject => raise SyntaxErr                        (* PolyhedralSyntaxException *)
  | DivZero => raise SyntaxErr                       (* ZeroDivisionError inside parse_string, caught and re-raised *)
  | OutOfFuel => raise (Escape "fuel")
  end.
