(* ParseAll.v — polyhedral_termlist_from_string as the composition of the two syntax models:
   string --Grammar.parse_expr--> Ast.expr --Syntax.fold_expr--> list pterm.  Definitions only. *)
From Coq Require Import List String Bool QArith.
Import ListNotations.
Require Import Py Sem Term Ast Grammar Syntax.

Definition parse_terms (s : string) : M (list pterm) :=
  match Grammar.parse_expr s with
  | Ok e => fold_expr e
  | Reject => raise SyntaxErr                        (* PolyhedralSyntaxException *)
  | DivZero => raise (Escape "ZeroDivisionError")    (* escapes from the parse actions of constant arithmetic *)
  | OutOfFuel => raise (Escape "fuel")
  end.
