(* Script.v — a scripted symbolic constraint domain used to cross-check the T1 translation
   (gen/AlgebraGen.v) against the real pacti.iocontract.IoContract: terms are opaque atoms with
   declared variables, and every primitive follows a deterministic script of outcomes (full
   elimination / leftovers / transformed terms / ValueError; refines True/False/ValueError) that
   harness/symdomain.py implements identically in Python.  Definitions only. *)
From Coq Require Import List String Bool Arith ZArith.
Import ListNotations.
Require Import Py ListsGen.

Record atom := mkA { a_id : nat; a_vs : list var }.
Definition ids (l : list atom) : nat := fold_left (fun acc a => acc + a_id a) l 0.
Definition mentions (vs : list var) (a : atom) : bool := nonempty (list_intersection (a_vs a) vs).

Definition elim_script (salt seed : nat) (s ctx : list atom) (vs : list var) : M (list atom * stats) :=
  match (seed + salt + 7 * ids s + 13 * ids ctx + 31 * List.length vs) mod 5 with
  | 0 | 1 => ret (filter (fun a => negb (mentions vs a)) s, [])
  | 2 => ret (s, [])
  | 3 => raise ValueErr
  | _ => ret (map (fun a => if mentions vs a then mkA (a_id a + 100) (list_diff (a_vs a) vs) else a) s, [])
  end.
Definition simplify_script (seed : nat) (s : list atom) (ctx : option (list atom)) : M (list atom) :=
  let c := opt_list ctx in
  match (seed + 3 * ids s + 5 * ids c) mod 4 with
  | 0 | 1 => ret (filter (fun a => negb (existsb (fun b => Nat.eqb (a_id a) (a_id b)) c)) s)
  | 2 => ret s
  | _ => raise ValueErr
  end.
Definition refines_script (seed : nat) (x y : list atom) : M bool :=
  match (seed + ids x + 2 * ids y) mod 7 with
  | 6 => raise ValueErr
  | k => ret (Nat.even k)
  end.

Definition script_domain (seed : nat) : Domain := {|
  term := atom;
  term_vars := a_vs;
  term_eqb := fun a b => Nat.eqb (a_id a) (a_id b);
  term_rename := fun a s u => mkA (a_id a) (map (fun v => if String.eqb v s then u else v) (a_vs a));
  p_elim_refine := fun s ctx vs _ _ => elim_script 1 seed s ctx vs;
  p_elim_relax := fun s ctx vs _ _ => elim_script 2 seed s ctx vs;
  p_simplify := simplify_script seed;
  p_refines := refines_script seed;
  p_is_empty := fun _ => ret false
|}.

(* ---- comparison of outcomes (exact: list orders included) ---- *)
Definition atom_same (a b : atom) : bool := Nat.eqb (a_id a) (a_id b) && list_eqb (A:=var) (a_vs a) (a_vs b).
Fixpoint atoms_same (l1 l2 : list atom) : bool :=
  match l1, l2 with
  | [], [] => true
  | a :: r1, b :: r2 => atom_same a b && atoms_same r1 r2
  | _, _ => false
  end.
Definition err_code (e : err) : nat :=
  match e with
  | IncompatibleArgs => 1 | ValueErr => 2 | SyntaxErr => 3 | ConvexErr => 4 | FormatErr => 5
  | Escape _ => 6 | OracleMiss => 7
  end.
