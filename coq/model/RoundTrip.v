(* RoundTrip.v — definitions needed only to STATE the string-level round trip of C10
   (printer string --Grammar.parse_expr--> tree --Syntax.fold_expr--> terms).  Definitions only; facts are in
   proofs/RoundTripFacts.v, statements in props/C10b.v.

   1. [valid_var]: the variable names the grammar can read back, Word(alphas, alphanums + "_").  The printer
      writes ANY dictionary key verbatim, so this is a genuine precondition of the round trip.
   2. [norm_expr]: a syntax tree with every literal replaced by its reduced fraction.  The printer's tree
      (Printer.item_ast) carries the literal  round4 c  as the unreduced fraction m / 10^k that round_sig
      computes (e.g. 2000 # 1000), the parser's tree carries  Grammar.literal_value text, which is reduced
      (2 # 1).  They denote the same number; [norm_expr] is the identity on everything else.
   3. [parse_all]: polyhedral_termlist_from_string applied to every string of a list, results concatenated
      (what PolyhedralIoContract.from_strings does with a list of constraint strings). *)
From Coq Require Import List String Ascii Bool QArith.
Import ListNotations.
Require Import Py Sem Term Ast Grammar Syntax ParseAll.

(* ---------------------------------------------------------------- 1. variable names of the grammar *)
Fixpoint sall (f : ascii -> bool) (s : string) : bool :=
  match s with
  | EmptyString => true
  | String c r => f c && sall f r
  end.
Definition valid_var (v : var) : bool :=
  match v with
  | String c w => is_alpha c && sall is_word_char w
  | EmptyString => false
  end.
Definition term_vars_valid (t : pterm) : Prop := Forall (fun p => valid_var (fst p) = true) (tvars t).
Definition vars_valid (ts : list pterm) : Prop := Forall term_vars_valid ts.

(* ---------------------------------------------------------------- 2. literals as reduced fractions *)
Fixpoint norm_cexpr (c : cexpr) : cexpr :=
  match c with
  | CNum q => CNum (Qred q)
  | CAdd l r => CAdd (norm_cexpr l) (norm_cexpr r)
  | CSub l r => CSub (norm_cexpr l) (norm_cexpr r)
  | CMul l r => CMul (norm_cexpr l) (norm_cexpr r)
  | CDiv l r => CDiv (norm_cexpr l) (norm_cexpr r)
  end.
Fixpoint norm_lterm (t : lterm) : lterm :=
  match t with
  | TVar v => TVar v
  | TNumVar k v => TNumVar (norm_cexpr k) v
  | TNum k => TNum (norm_cexpr k)
  | TParen ts => TParen (norm_lterms ts)
  | TNumParen k ts => TNumParen (norm_cexpr k) (norm_lterms ts)
  end
with norm_lterms (ts : lterms) : lterms :=
  match ts with
  | Terms s t rest =>
      Terms s (norm_lterm t)
        ((fix go (l : list (sign * lterm)) : list (sign * lterm) :=
            match l with
            | [] => []
            | (s', t') :: r => (s', norm_lterm t') :: go r
            end) rest)
  end.
Definition norm_rest (l : list (sign * lterm)) : list (sign * lterm) :=
  map (fun st => (fst st, norm_lterm (snd st))) l.
Definition norm_aterm (a : aterm) : aterm :=
  match a with
  | ATerm s t => ATerm s (norm_lterm t)
  | AAbs s k body => AAbs s (option_map norm_cexpr k) (norm_lterms body)
  end.
Definition norm_pitem (p : pitem) : pitem :=
  match p with
  | PGroup s k items => PGroup s (option_map norm_cexpr k) (map norm_aterm items)
  | PPlain a => PPlain (norm_aterm a)
  end.
Definition norm_side (sd : side) : side := map norm_pitem sd.
Definition norm_expr (e : expr) : expr :=
  match e with
  | EEq l r => EEq (norm_lterms l) (norm_lterms r)
  | ELeq sides => ELeq (map norm_side sides)
  | EGeq sides => EGeq (map norm_side sides)
  end.

(* ---------------------------------------------------------------- 3. reading a list of strings *)
Definition parse_all (l : list string) : M (list pterm) := concat_mapM parse_terms l.
