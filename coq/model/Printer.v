(* Printer.v — executable model of the human-readable printer of polyhedral term lists:
     pacti/terms/polyhedra/serializer.py   _number_to_string, _are_numbers_approximatively_equal,
                                           _lhs_str, _are_polyhedral_terms_opposite,
                                           polyhedral_term_list_to_strings
     pacti/terms/polyhedra/polyhedra.py    PolyhedralTermList.to_str_list
   A float *is* the rational it denotes (Sem.v).  Out of scope: nan, inf, negative zero
   (format(-0.0, ".4g") = "-0"), subnormal results and overflow of the tolerance arithmetic.
   Definitions only; facts are in proofs/PrinterFacts.v.  Tie to the code: harness/printer_cases.py
   runs fmt4 against format(x, ".4g") and to_str_list against the real to_str_list. *)
From Coq Require Import List String Bool QArith Qabs ZArith Ascii.
Import ListNotations.
Require Import Py Sem Term ConstGen Ast.

(* ====================================================================================== *)
(* 1. rounding to p significant digits in base b, round-half-even on the exact value       *)
(* ====================================================================================== *)
Local Open Scope string_scope.
Local Open Scope Z_scope.

(* floor(log_b m) for m >= 1, b >= 2; the fuel is the bit length of m *)
Fixpoint ilog_aux (fuel : nat) (b m : Z) : Z :=
  match fuel with
  | O => 0
  | S f => if m <? b then 0 else 1 + ilog_aux f b (m / b)
  end.
Definition ilog (b m : Z) : Z := ilog_aux (S (Z.to_nat (Z.log2 m))) b m.

(* the fraction (n/d) * b^k, as a pair *)
Definition scale (b k n d : Z) : Z * Z :=
  if 0 <=? k then (n * b ^ k, d) else (n, d * b ^ (- k)).

(* the exponent e with b^e <= n/d < b^(e+1)   (n, d > 0) *)
Definition exp_of (b n d : Z) : Z :=
  let k := ilog b n - ilog b d in
  let '(n', d') := scale b (- k) n d in
  if d' <=? n' then k else k - 1.

(* n/d rounded to the nearest integer, ties to even   (n >= 0, d > 0) *)
Definition rhe (n d : Z) : Z :=
  let q := n / d in
  let r := n mod d in
  match 2 * r ?= d with
  | Lt => q
  | Gt => q + 1
  | Eq => if Z.even q then q else q + 1
  end.

(* (m, e): the p-digit mantissa b^(p-1) <= m < b^p and the exponent of the leading digit,
   after rounding; the rounded value is m * b^(e-p+1).  Rounding up to b^p bumps the exponent
   (9999.5 -> 1.000e+04). *)
Definition round_sig_pos (b p n d : Z) : Z * Z :=
  let e := exp_of b n d in
  let '(n', d') := scale b (p - 1 - e) n d in
  let m := rhe n' d' in
  if m =? b ^ p then (b ^ (p - 1), e + 1) else (m, e).

(* m * b^x as a rational *)
Definition bpow_q (b m x : Z) : Q :=
  if 0 <=? x then inject_Z (m * b ^ x) else Qmake m (Z.to_pos (b ^ (- x))).
Definition sig_value (b p : Z) (me : Z * Z) : Q := bpow_q b (fst me) (snd me - p + 1).

(* Qred first: the result is a function of the VALUE of q *)
Definition round_sig (b p : Z) (q : Q) : Q :=
  let r := Qred q in
  match Qnum r with
  | Z0 => 0%Q
  | Zpos n => sig_value b p (round_sig_pos b p (Zpos n) (Zpos (Qden r)))
  | Zneg n => Qopp (sig_value b p (round_sig_pos b p (Zpos n) (Zpos (Qden r))))
  end.

(* the value printed by format(x, ".4g") *)
Definition round4 : Q -> Q := round_sig 10 4.
(* round-to-nearest-even binary64 (normal range): the result of one float operation *)
Definition fl : Q -> Q := round_sig 2 53.

(* ====================================================================================== *)
(* 2. format(x, ".4g")                                                                     *)
(* ====================================================================================== *)
Definition digit_char (d : Z) : ascii := ascii_of_N (48 + Z.to_N d).
Fixpoint str_of_digits (l : list Z) : string :=
  match l with
  | [] => EmptyString
  | d :: r => String (digit_char d) (str_of_digits r)
  end.
(* strip trailing zeros *)
Fixpoint strip_zeros (l : list Z) : list Z :=
  match l with
  | [] => []
  | d :: r => match strip_zeros r with
              | [] => if d =? 0 then [] else [d]
              | r' => d :: r'
              end
  end.
(* the fractional part: nothing at all when every digit is 0 *)
Definition frac_str (l : list Z) : string :=
  match strip_zeros l with
  | [] => EmptyString
  | l' => String "." (str_of_digits l')
  end.
Fixpoint zeros (n : nat) : string :=
  match n with O => EmptyString | S k => String "0" (zeros k) end.
(* decimal digits of n >= 0, most significant first *)
Fixpoint nat_digits_aux (fuel : nat) (n : Z) (acc : string) : string :=
  match fuel with
  | O => acc
  | S f => let acc' := String (digit_char (n mod 10)) acc in
           if n <? 10 then acc' else nat_digits_aux f (n / 10) acc'
  end.
Definition nat_digits (n : Z) : string := nat_digits_aux (S (Z.to_nat (Z.log2 n))) n EmptyString.
(* exponent: sign always, at least two digits *)
Definition exp_str (e : Z) : string :=
  append (if e <? 0 then "-" else "+")
         (let a := Z.abs e in if a <? 10 then String "0" (nat_digits a) else nat_digits a).

Definition digits4 (m : Z) : list Z := [m / 1000; (m / 100) mod 10; (m / 10) mod 10; m mod 10].

(* the %g rule with precision P = 4: fixed notation iff -4 <= e < P *)
Definition render4 (m e : Z) : string :=
  let ds := digits4 m in
  if (-4 <=? e) && (e <? 4) then
    if 0 <=? e then
      let k := Z.to_nat (e + 1) in
      append (str_of_digits (firstn k ds)) (frac_str (skipn k ds))
    else
      append "0." (append (zeros (Z.to_nat (- e - 1))) (str_of_digits (strip_zeros ds)))
  else
    append (str_of_digits (firstn 1 ds))
           (append (frac_str (skipn 1 ds)) (String "e" (exp_str e))).

Definition fmt4 (q : Q) : string :=
  let r := Qred q in
  match Qnum r with
  | Z0 => "0"
  | Zpos n => let me := round_sig_pos 10 4 (Zpos n) (Zpos (Qden r)) in render4 (fst me) (snd me)
  | Zneg n => let me := round_sig_pos 10 4 (Zpos n) (Zpos (Qden r)) in
              String "-" (render4 (fst me) (snd me))
  end.

(* ---------- reading the printer's number alphabet back: [-] d+ [. d*] [e (+|-) d+] ---------- *)
Definition digit_val (c : ascii) : option Z :=
  let n := N_of_ascii c in
  if (48 <=? n)%N && (n <=? 57)%N then Some (Z.of_N n - 48) else None.
(* value and length of a digit string *)
Fixpoint digits_val (s : string) (acc cnt : Z) : option (Z * Z) :=
  match s with
  | EmptyString => Some (acc, cnt)
  | String c r => match digit_val c with
                  | Some d => digits_val r (10 * acc + d) (cnt + 1)
                  | None => None
                  end
  end.
(* split at the first occurrence of c *)
Fixpoint split_at (c : ascii) (s : string) : string * option string :=
  match s with
  | EmptyString => (EmptyString, None)
  | String a r => if Ascii.eqb a c then (EmptyString, Some r)
                  else let '(x, y) := split_at c r in (String a x, y)
  end.
Definition pow10_q (k : Z) : Q := bpow_q 10 1 k.
Definition mant_value (s : string) : option Q :=
  let '(ip, fp) := split_at "." s in
  match digits_val ip 0 0 with
  | Some (iv, ic) =>
      if ic =? 0 then None else
      match fp with
      | None => Some (inject_Z iv)
      | Some f => match digits_val f 0 0 with
                  | Some (fv, fc) => Some (inject_Z iv + Qmake fv (Z.to_pos (10 ^ fc)))%Q
                  | None => None
                  end
      end
  | None => None
  end.
Definition exp_value (s : string) : option Z :=
  match s with
  | String sg r =>
      match digits_val r 0 0 with
      | Some (v, cnt) =>
          if cnt =? 0 then None
          else if Ascii.eqb sg "+" then Some v
          else if Ascii.eqb sg "-" then Some (- v)
          else None
      | None => None
      end
  | EmptyString => None
  end.
Definition unsigned_value (s : string) : option Q :=
  let '(m, e) := split_at "e" s in
  match mant_value m, e with
  | Some mv, None => Some mv
  | Some mv, Some es => match exp_value es with
                        | Some ev => Some (mv * pow10_q ev)%Q
                        | None => None
                        end
  | None, _ => None
  end.
Definition decimal_value (s : string) : option Q :=
  match s with
  | String "-" r => option_map Qopp (unsigned_value r)
  | _ => unsigned_value s
  end.

(* ====================================================================================== *)
(* 3. the term-list printer                                                                *)
(* ====================================================================================== *)
Local Open Scope Q_scope.

(* _are_numbers_approximatively_equal(v1, v2) on floats = np.isclose(v1, v2, rtol, atol):
     abs(x - y) <= atol + rtol * abs(y)
   evaluated in double arithmetic (each operation rounds), asymmetric in y. *)
Definition approx_equal (x y : Q) : bool :=
  Qle_bool (Qabs (fl (x - y)))
           (fl (float_closeness_absolute_tolerance + fl (float_closeness_relative_tolerance * Qabs y))).
(* the same test in exact real arithmetic (differs only within an ulp of the threshold) *)
Definition approx_equal_exact (x y : Q) : bool :=
  Qle_bool (Qabs (x - y))
           (float_closeness_absolute_tolerance + float_closeness_relative_tolerance * Qabs y).

(* one iteration of the loop of _lhs_str.  Note `first = False` is executed for every variable,
   printed or not. *)
Definition lhs_piece (first : bool) (v : var) (c : Q) : string :=
  if approx_equal c 1 then
    if first then v else append " + " v
  else if approx_equal c (-(1)) then
    if first then append "-" v else append " - " v
  else if negb (approx_equal c 0) then
    if qlt 0 c then
      if first then append (fmt4 c) (append " " v)
      else append " + " (append (fmt4 c) (append " " v))
    else
      if first then append (fmt4 c) (append " " v)
      else append " - " (append (fmt4 (- c)) (append " " v))
  else EmptyString.
Fixpoint lhs_go (first : bool) (l : pvars) : string :=
  match l with
  | [] => EmptyString
  | (v, c) :: r => append (lhs_piece first v c) (lhs_go false r)
  end.
(* _lhs_str *)
Definition lhs_str (t : pterm) : string := lhs_go true (sort_by_name (tvars t)).

(* _are_polyhedral_terms_opposite(self, other) *)
Definition terms_opposite (self other : pterm) : bool :=
  forallb (fun v => contains_var self v) (term_vars_p other)
  && forallb (fun p => contains_var other (fst p)
                       && match assoc (fst p) (tvars other) with
                          | Some q => approx_equal (- snd p) q
                          | None => false
                          end) (tvars self).

(* what one call of polyhedral_term_list_to_strings emits *)
Inductive fold_kind := KEq | KAbs0 | KAbsLeq.
Inductive item :=
| ILeq (t : pterm)                    (* "LHS <= c" *)
| IEq (tp tn : pterm)                 (* rule 4: "LHS = c" *)
| IAbs0 (tp tn : pterm)               (* rule 3: "|LHS| = 0" *)
| IAbsLeq (tp tn : pterm).            (* rule 2: "|LHS| <= c" *)

(* the body of `for tn in ts` for one candidate *)
Definition classify (tp tn : pterm) : option fold_kind :=
  if terms_opposite tp tn then
    if approx_equal (tconst tp) (- tconst tn) then Some KEq
    else if approx_equal (tconst tp) 0 && approx_equal (tconst tn) 0 then Some KAbs0
    else if approx_equal (tconst tp) (tconst tn) then Some KAbsLeq
    else None
  else None.
(* the loop: first candidate for which a rule applies, and ts with it removed.
   (ts.remove(tn) removes the first element == tn; an earlier element == tn would have been
   selected itself, so the removal is positional.) *)
Fixpoint scan (tp : pterm) (ts : list pterm) : option (fold_kind * pterm * list pterm) :=
  match ts with
  | [] => None
  | tn :: r =>
      match classify tp tn with
      | Some k => Some (k, tn, r)
      | None => match scan tp r with
                | Some (k, t, r') => Some (k, t, tn :: r')
                | None => None
                end
      end
  end.
Definition mk_item (k : fold_kind) (tp tn : pterm) : item :=
  match k with KEq => IEq tp tn | KAbs0 => IAbs0 tp tn | KAbsLeq => IAbsLeq tp tn end.
Definition next_item (terms : list pterm) : option (item * list pterm) :=
  match terms with
  | [] => None
  | tp :: ts => match scan tp ts with
                | Some (k, tn, rest) => Some (mk_item k tp tn, rest)
                | None => Some (ILeq tp, ts)
                end
  end.

Definition item_str (it : item) : string :=
  match it with
  | ILeq t => append (lhs_str t) (append " <= " (fmt4 (tconst t)))
  | IEq tp _ => append (lhs_str tp) (append " = " (fmt4 (tconst tp)))
  | IAbs0 tp _ => append "|" (append (lhs_str tp) "| = 0")
  | IAbsLeq tp _ => append "|" (append (lhs_str tp) (append "| <= " (fmt4 (tconst tp))))
  end.

(* polyhedral_term_list_to_strings *)
Definition term_list_to_strings (terms : list pterm) : string * list pterm :=
  match next_item terms with
  | None => (EmptyString, [])
  | Some (it, rest) => (item_str it, rest)
  end.

(* PolyhedralTermList.to_str_list: `while ts:`; every call consumes at least one term, so
   len(ts) is enough fuel *)
Fixpoint items_fuel (fuel : nat) (ts : list pterm) : list item :=
  match fuel with
  | O => []
  | S f => match next_item ts with
           | None => []
           | Some (it, rest) => it :: items_fuel f rest
           end
  end.
Definition items (ts : list pterm) : list item := items_fuel (List.length ts) ts.
Fixpoint to_str_list_fuel (fuel : nat) (ts : list pterm) : list string :=
  match fuel with
  | O => []
  | S f => match ts with
           | [] => []
           | _ => let '(s, rest) := term_list_to_strings ts in s :: to_str_list_fuel f rest
           end
  end.
Definition to_str_list (ts : list pterm) : list string := to_str_list_fuel (List.length ts) ts.

(* the terms an item stands for *)
Definition item_terms (it : item) : list pterm :=
  match it with
  | ILeq t => [t]
  | IEq tp tn | IAbs0 tp tn | IAbsLeq tp tn => [tp; tn]
  end.

(* ====================================================================================== *)
(* 4. the syntax tree each emitted string spells out (printed = rounded numbers)           *)
(* ====================================================================================== *)
(* one printed summand: sign symbol and term, None when nothing is printed *)
Definition coef_term (v : var) (c : Q) : option (sign * lterm) :=
  if approx_equal c 1 then Some (Plus, TVar v)
  else if approx_equal c (-(1)) then Some (Minus, TVar v)
  else if negb (approx_equal c 0) then
    if qlt 0 c then Some (Plus, TNumVar (CNum (round4 c)) v)
    else Some (Minus, TNumVar (CNum (round4 (- c))) v)
  else None.
Fixpoint lhs_terms_go (l : pvars) : list (sign * lterm) :=
  match l with
  | [] => []
  | (v, c) :: r => match coef_term v c with
                   | Some st => st :: lhs_terms_go r
                   | None => lhs_terms_go r
                   end
  end.
Definition lhs_terms (t : pterm) : list (sign * lterm) := lhs_terms_go (sort_by_name (tvars t)).
(* "3" / "-3": the grammar's numbers are unsigned, the sign is the symbol of first_term *)
Definition const_term (c : Q) : sign * lterm :=
  if qlt c 0 then (Minus, TNum (CNum (round4 (- c)))) else (Plus, TNum (CNum (round4 c))).
Definition mk_lterms (l : list (sign * lterm)) : option lterms :=
  match l with
  | [] => None
  | (s, t) :: r => Some (Terms s t r)
  end.
Definition plain_side (l : list (sign * lterm)) : side :=
  map (fun st => PPlain (ATerm (fst st) (snd st))) l.

(* None: the string is outside the grammar (empty left-hand side " <= c", or rule 3's
   "|LHS| = 0": absolute values are not allowed around "=") *)
Definition item_ast (it : item) : option expr :=
  match it with
  | ILeq t =>
      match lhs_terms t with
      | [] => None
      | l => Some (ELeq [plain_side l; plain_side [const_term (tconst t)]])
      end
  | IEq tp _ =>
      match mk_lterms (lhs_terms tp) with
      | None => None
      | Some L => Some (EEq L (Terms (fst (const_term (tconst tp))) (snd (const_term (tconst tp))) []))
      end
  | IAbs0 _ _ => None
  | IAbsLeq tp _ =>
      match mk_lterms (lhs_terms tp) with
      | None => None
      | Some L => Some (ELeq [[PPlain (AAbs Plus None L)]; plain_side [const_term (tconst tp)]])
      end
  end.
(* one entry per emitted string, in order *)
Definition to_ast_list (ts : list pterm) : list (option expr) := map item_ast (items ts).
(* all of them, when every string is in the grammar *)
Fixpoint all_some {A} (l : list (option A)) : option (list A) :=
  match l with
  | [] => Some []
  | Some a :: r => match all_some r with Some r' => Some (a :: r') | None => None end
  | None :: _ => None
  end.
Definition to_expr_list (ts : list pterm) : option (list expr) := all_some (to_ast_list ts).

(* ---------- the numbers a printed item carries ---------- *)
(* the coefficient a reader of the string sees *)
Definition print_coef (c : Q) : Q :=
  if approx_equal c 1 then 1
  else if approx_equal c (-(1)) then -(1)
  else if negb (approx_equal c 0) then round4 c
  else 0.
(* the term a reader of "LHS <= c" sees *)
Definition rounded_term (t : pterm) : pterm :=
  mkT (map (fun p => (fst p, print_coef (snd p))) (tvars t)) (round4 (tconst t)).
(* the partners a reader of "LHS = c" / "|LHS| <= c" reconstructs from the first term *)
Definition mirror_eq (t : pterm) : pterm :=
  mkT (map (fun p => (fst p, - snd p)) (tvars t)) (- tconst t).
Definition mirror_abs (t : pterm) : pterm :=
  mkT (map (fun p => (fst p, - snd p)) (tvars t)) (tconst t).
